(* Properties_C06.v — approximation guarantee: k = 0 is rejected before anything is emitted, k = 1 is exact.
   Model: ApproxModel.approx_run (see Properties_C05.v).  Only statements; each closed by [exact <lemma>]
   and followed by Print Assumptions.

   Proved, for every simple graph, every scan order, every exact phase:
     C06_k0 / C06_k0_never_emits   k = 0: run returns the error value ApproxThrow (the code throws
                               std::runtime_error at the top of run(), after the constructor has built the
                               spanner with the wrapped hop bound); for ANY input no ApproxOk is produced.
     C06_k1_nothing_dropped    k = 1: no edge is dropped (a dropped edge would need a one-hop path between its
                               endpoints, i.e. a parallel edge) — the spanner is the input graph with its edges
                               permuted by the scan order.
     C06_k1_min_modulo_exact   k = 1: if the exact phase's answer for the spanner is a minimum cycle basis of
                               the spanner under the spanner's weights (explicit premise), the emitted family,
                               as edge sets of the caller's graph, is a MINIMUM cycle basis of the caller's graph
                               under the caller's weights (transport along the edge permutation, both ways).
     C06_k1_signed_modulo_search  the same for approx_mcb_sva_signed with the premise reduced to the
                               specification of the per-phase search, plus returned value = total weight.
     C06_k1_signed             PREMISE-FREE: for every simple graph with positive weights, every scan order and
                               every oracle, approx_mcb_sva_signed with k = 1 returns ApproxOk, the emitted family
                               is a minimum cycle basis of the caller's graph and the returned value its weight
                               (exact phase discharged by BidirProofs5.C01_signed / C02_signed).
     C06_dijkstra              the plain parmcb::dijkstra (DijkstraModel, exact 4-ary heap) on non-negative
                               weights never produces an error value, and its distances are shortest-walk
                               distances realised by the predecessor edges.
     C06_edge                  for k >= 1, positive weights and a weight-sorted scan order, the cycle emitted for
                               a dropped edge e weighs at most 2k * w(e) (shortest spanner path <= the light
                               (2k-1)-hop path of C15, plus e).
   The global guarantee (second half of this file; proofs in ApproxGlobalProofs1-4.v):
     C06_approx_scheme         the abstract t-approximate version of de Pina's minimality theorem
                               (DePinaSpec.depina_min_stmt with the per-phase premise weakened to
                               w(C_k) <= t * w(D)): total <= t * total of ANY spanning family of class elements.
     C06_edge_vs_cycle         the cycle emitted for a dropped edge e weighs <= (2k-1) * w(D) for EVERY simple
                               cycle D of the input through e.
     C06_global                = C06_global_stmt (below): for every simple graph with positive weights, k >= 1,
                               weight-sorted scan order and ANY exact phase that returns a minimum cycle basis of
                               the spanner with its weight, returned value <= (2k-1) * weight of a minimum cycle
                               basis of the input.
     C06_global_any_basis      the same against ANY cycle basis of the input.
     C06_global_opt            opt <= returned value <= (2k-1) * opt   for the optimum (OptSpec.is_opt).
     C06_global_signed         PREMISE-FREE, approx_mcb_sva_signed: the run returns ApproxOk, the result is a cycle
                               basis of the input, the returned value is its total weight, it is
                               <= (2k-1) * w(B') for every cycle basis B', and opt <= it <= (2k-1) * opt.
   The check still judges every answer against the optimum computed by the verified `optw` (RefModel) and by the
   independent oracle. *)
From Coq Require Import List Arith Bool ZArith Permutation Sorted Lia.
From Parmcb Require Import GraphModel GF2Model GraphSpec McbSpec ForestModel SpannerModel SvaModel SvaSpec SvaProofs
  SignedModel SignedZModel RefModel RefProofs3 DijkstraModel ApproxModel ApproxProofsDijkstraOpt ApproxProofsRun ApproxProofsSigned
  ApproxProofsEdge ApproxProofsSignedFull.
Import ListNotations.

Theorem C06_k0 :
  forall (exact : graph -> list Z -> sva_result Z) g w scan,
    simple_graph g -> Permutation scan (seq 0 (ne g)) ->
    approx_run exact g w 0 scan = ApproxThrow.
Proof. exact ap_run_k0. Qed.
Print Assumptions C06_k0.

Theorem C06_k0_never_emits :
  forall (exact : graph -> list Z -> sva_result Z) g w scan cycles total,
    approx_run exact g w 0 scan <> ApproxOk cycles total.
Proof. exact ap_run_k0_never_ok. Qed.
Print Assumptions C06_k0_never_emits.

Theorem C06_k1_nothing_dropped :
  forall g scan sp,
    simple_graph g -> Permutation scan (seq 0 (ne g)) ->
    construct_spanner g 1 scan = SpOk sp -> dropped sp = [].
Proof. exact ap_k1_nothing_dropped. Qed.
Print Assumptions C06_k1_nothing_dropped.

Theorem C06_k1_min_modulo_exact :
  forall (exact : graph -> list Z -> sva_result Z) g w scan cycles total,
    simple_graph g -> Permutation scan (seq 0 (ne g)) ->
    (forall sp cs t sup, construct_spanner g 1 scan = SpOk sp ->
       exact (sp_graph sp) (spanner_weights w sp) = SvaOk cs t sup ->
       min_cycle_basis (sp_graph sp) (spanner_weights w sp) cs) ->
    approx_run exact g w 1 scan = ApproxOk cycles total ->
    min_cycle_basis g w (map set_of_list cycles).
Proof. exact ap_run_k1_min. Qed.
Print Assumptions C06_k1_min_modulo_exact.

Theorem C06_k1_signed_modulo_search :
  forall g w scan roots eord cycles total,
    simple_graph g -> positive_weights g w -> Permutation scan (seq 0 (ne g)) ->
    (forall v, v < nv g -> In v roots) ->
    (forall sp fi, construct_spanner g 1 scan = SpOk sp -> create_index (sp_graph sp) roots = Some fi ->
       search_min (sp_graph sp) (spanner_weights w sp) fi
         (signed_phase Z 0%Z Z.add Z.ltb (fun e => nth e eord 0) (sp_graph sp) (spanner_weights w sp) fi)) ->
    approx_sva_signed_Z g w 1 scan roots eord = ApproxOk cycles total ->
    min_cycle_basis g w (map set_of_list cycles) /\ total = total_weight w cycles.
Proof. exact ap_signed_k1_min. Qed.
Print Assumptions C06_k1_signed_modulo_search.

Theorem C06_k1_signed :
  forall g w scan roots eord,
    simple_graph g -> positive_weights g w -> Permutation scan (seq 0 (ne g)) ->
    (forall v, v < nv g -> In v roots) ->
    exists cycles total,
      approx_sva_signed_Z g w 1 scan roots eord = ApproxOk cycles total
      /\ min_cycle_basis g w (map set_of_list cycles) /\ total = total_weight w cycles.
Proof. exact ap_signed_k1_full. Qed.
Print Assumptions C06_k1_signed.

Theorem C06_dijkstra :
  forall h wts s,
    (forall e x y, ends h e = Some (x, y) -> x < nv h /\ y < nv h) -> s < nv h ->
    (forall e, (0 <= nth e wts 0)%Z) ->
    exists dist pred,
      dijkstra Z 0%Z Z.add Z.ltb h wts s = DjOk dist pred
      /\ nth s dist None = Some 0%Z
      /\ (forall p v, walk h s p v -> exists dv, nth v dist None = Some dv /\ (dv <= weight wts (wedges p))%Z)
      /\ (forall w e, nth w pred None = Some e ->
            exists p dp dw, joins h e w p /\ nth p dist None = Some dp /\ nth w dist None = Some dw
                            /\ dw = (dp + nth e wts 0)%Z).
Proof. exact dijkstra_correct. Qed.
Print Assumptions C06_dijkstra.

(* every dropped-edge cycle weighs at most 2k * w(e): cw is the weight dropped_cycle accumulates under the caller's
   weights (= the weight of the emitted list, ApproxProofsRun.ap_dropped_cycle_weight) *)
Theorem C06_edge :
  forall g w k scan sp e cyc cw,
    simple_graph g -> positive_weights g w -> 1 <= k -> Permutation scan (seq 0 (ne g)) ->
    Sorted (fun a b => (wt w a <= wt w b)%Z) scan ->
    construct_spanner g k scan = SpOk sp -> In e (dropped sp) ->
    dropped_cycle g w sp e = inr (cyc, cw) -> (cw <= Z.of_nat (2 * k) * wt w e)%Z.
Proof. exact ap_edge_bound. Qed.
Print Assumptions C06_edge.

(* the (2k-1) guarantee against ANY minimum cycle basis B of the input (proved below: C06_global) *)
Definition C06_global_stmt : Prop :=
  forall (exact : graph -> list Z -> sva_result Z) g w k scan cycles total B,
    simple_graph g -> positive_weights g w -> Permutation scan (seq 0 (ne g)) ->
    Sorted (fun a b => (wt w a <= wt w b)%Z) scan ->
    (forall sp cs t sup, construct_spanner g k scan = SpOk sp ->
       exact (sp_graph sp) (spanner_weights w sp) = SvaOk cs t sup ->
       min_cycle_basis (sp_graph sp) (spanner_weights w sp) cs /\ t = total_weight (spanner_weights w sp) cs) ->
    approx_run exact g w k scan = ApproxOk cycles total ->
    min_cycle_basis g w B ->
    (total <= Z.of_nat (2 * k - 1) * total_weight w B)%Z.

(* non-vacuity: the graph of C05_nonvacuous with k = 1 and k = 0.  For k = 1 the premise on the exact phase is
   discharged for this run by the verified minimum-cycle-basis checker (RefProofs3 + SvaProofs); the model
   returns four cycles of total weight 24 (a minimum cycle basis of the graph); for k = 0 it returns ApproxThrow. *)
Example C06_nonvacuous :
  let g := {| nv := 9; ge := [(0,1); (0,2); (0,3); (1,2); (1,3); (2,3); (3,4);
                               (4,5); (5,6); (6,7); (7,8); (8,4)] |} in
  let w := [1; 1; 2; 2; 2; 3; 1; 1; 1; 1; 1; 5]%Z in
  let scan := [6; 0; 1; 10; 7; 8; 9; 3; 2; 4; 5; 11] in
  let roots := [4; 0; 1; 2; 3; 5; 6; 7; 8] in
  let eord := [3; 1; 0; 2; 8; 7; 6; 5; 4; 9; 11; 10] in
  let exact := fun h wh => mcb_sva_signed_Z h wh roots eord in
  simple_graph g /\ positive_weights g w /\ Permutation scan (seq 0 (ne g))
  /\ (forall sp cs t sup, construct_spanner g 1 scan = SpOk sp ->
        exact (sp_graph sp) (spanner_weights w sp) = SvaOk cs t sup ->
        min_cycle_basis (sp_graph sp) (spanner_weights w sp) cs)
  /\ approx_sva_signed_Z g w 1 scan roots eord
     = ApproxOk [[0; 1; 3]; [10; 7; 8; 9; 11]; [0; 2; 4]; [1; 2; 5]] 24%Z
  /\ approx_sva_signed_Z g w 0 scan roots eord = ApproxThrow.
Proof.
  cbv zeta. split; [vm_compute; reflexivity|]. split; [split; [reflexivity|repeat constructor]|].
  split; [apply SpannerProofs.scan_perm_check; vm_compute; reflexivity|].
  split; [|split; vm_compute; reflexivity].
  intros sp cs t sup Hsp Hex.
  match type of Hsp with ?l = _ => eassert (E : l = _) by (vm_compute; reflexivity) end.
  pose proof (eq_trans (eq_sym Hsp) E) as E1. injection E1 as ->. clear Hsp E.
  match type of Hex with ?l = _ => eassert (E : l = _) by (vm_compute; reflexivity) end.
  pose proof (eq_trans (eq_sym Hex) E) as E1. injection E1 as -> _ _. clear Hex E.
  match goal with |- min_cycle_basis ?h ?wh ?cs =>
    assert (Hs : simple_graph h) by (vm_compute; reflexivity);
    assert (Hw : positive_weights h wh) by (split; [vm_compute; reflexivity|vm_compute; repeat constructor]);
    assert (Hc : mcb_checkb h wh [0; 1; 2; 3; 4; 5; 6; 7; 8] cs = true) by (vm_compute; reflexivity);
    assert (Em : map set_of_list cs = cs) by (vm_compute; reflexivity);
    destruct (rf_mcb_checkb_sound_from sva_generic_basis sva_generic_min h wh [0; 1; 2; 3; 4; 5; 6; 7; 8] cs Hs Hw ap_lt_9_In Hc) as (H1 & _)
  end.
  rewrite Em in H1. exact H1.
Qed.

(* ==== the global (2k-1) guarantee ================================================================== *)
From Parmcb Require Import DePinaSpec OptSpec ApproxGlobalProofs1 ApproxGlobalProofs4.

(* (1) the abstract scheme: triangular witnesses, linear pairing, every phase a t-approximation of the minimum odd
   class element  ==>  total <= t * total of ANY spanning family of class elements *)
Theorem C06_approx_scheme :
  forall (inV : vec -> Prop) (pair : vec -> vec -> bool) (cls : vec -> Prop) (w : list Z) (t : Z)
         (Ss Cs B' : list vec),
    subspace inV -> pair_linear inV pair -> (0 <= t)%Z -> Forall inV Cs -> triangular pair Ss Cs ->
    (forall k D, k < length Cs -> cls D -> inV D -> pair (nth k Ss []) D = true ->
                 (weight w (nth k Cs []) <= t * weight w D)%Z) ->
    Forall cls B' -> Forall inV B' -> spans inV B' ->
    (forall D, In D B' -> (0 <= weight w D)%Z) ->
    (total_weight w Cs <= t * total_weight w B')%Z.
Proof. exact depina_approx. Qed.
Print Assumptions C06_approx_scheme.

(* (3a) the cycle of a dropped edge against every simple cycle of the input through that edge *)
Theorem C06_edge_vs_cycle :
  forall g w k scan sp e cyc cw Dc,
    simple_graph g -> positive_weights g w -> 1 <= k -> Permutation scan (seq 0 (ne g)) ->
    Sorted (fun a b => (wt w a <= wt w b)%Z) scan ->
    construct_spanner g k scan = SpOk sp -> In e (dropped sp) ->
    dropped_cycle g w sp e = inr (cyc, cw) ->
    simple_cycle g Dc -> In e Dc -> (cw <= Z.of_nat (2 * k - 1) * weight w Dc)%Z.
Proof. exact ag_edge_vs_cycle. Qed.
Print Assumptions C06_edge_vs_cycle.

Theorem C06_global : C06_global_stmt.
Proof. exact ag_global. Qed.
Print Assumptions C06_global.

(* against ANY cycle basis of the input *)
Theorem C06_global_any_basis :
  forall (exact : graph -> list Z -> sva_result Z) g w k scan cycles total B',
    simple_graph g -> positive_weights g w -> Permutation scan (seq 0 (ne g)) ->
    Sorted (fun a b => (wt w a <= wt w b)%Z) scan ->
    (forall sp cs t sup, construct_spanner g k scan = SpOk sp ->
       exact (sp_graph sp) (spanner_weights w sp) = SvaOk cs t sup ->
       min_cycle_basis (sp_graph sp) (spanner_weights w sp) cs /\ t = total_weight (spanner_weights w sp) cs) ->
    approx_run exact g w k scan = ApproxOk cycles total ->
    cycle_basis g B' ->
    (total <= Z.of_nat (2 * k - 1) * total_weight w B')%Z.
Proof. exact ag_run_global. Qed.
Print Assumptions C06_global_any_basis.

(* against the optimum: the sandwich  opt <= returned <= (2k-1) * opt *)
Theorem C06_global_opt :
  forall (exact : graph -> list Z -> sva_result Z) g w k scan cycles total x,
    simple_graph g -> positive_weights g w -> Permutation scan (seq 0 (ne g)) ->
    Sorted (fun a b => (wt w a <= wt w b)%Z) scan ->
    (forall sp cs t sup, construct_spanner g k scan = SpOk sp ->
       exact (sp_graph sp) (spanner_weights w sp) = SvaOk cs t sup ->
       min_cycle_basis (sp_graph sp) (spanner_weights w sp) cs /\ t = total_weight (spanner_weights w sp) cs) ->
    approx_run exact g w k scan = ApproxOk cycles total ->
    is_opt g w x ->
    (x <= total <= Z.of_nat (2 * k - 1) * x)%Z.
Proof. exact ag_run_global_opt. Qed.
Print Assumptions C06_global_opt.

(* approx_mcb_sva_signed, no premise on the exact phase *)
Theorem C06_global_signed :
  forall g w k scan roots eord,
    simple_graph g -> positive_weights g w -> 1 <= k -> Permutation scan (seq 0 (ne g)) ->
    Sorted (fun a b => (wt w a <= wt w b)%Z) scan ->
    (forall v, v < nv g -> In v roots) ->
    exists cycles total,
      approx_sva_signed_Z g w k scan roots eord = ApproxOk cycles total
      /\ cycle_basis g (map set_of_list cycles)
      /\ total = total_weight w cycles
      /\ (forall B', cycle_basis g B' -> (total <= Z.of_nat (2 * k - 1) * total_weight w B')%Z)
      /\ (forall x, is_opt g w x -> (x <= total <= Z.of_nat (2 * k - 1) * x)%Z).
Proof. exact ag_signed_global. Qed.
Print Assumptions C06_global_signed.

(* non-vacuity of the global guarantee: the graph of C05_nonvacuous with k = 2 (three edges dropped): the
   hypotheses of C06_global_signed hold, the model returns 24, hence  opt <= 24 <= 3 * opt. *)
Example C06_global_nonvacuous :
  let g := {| nv := 9; ge := [(0,1); (0,2); (0,3); (1,2); (1,3); (2,3); (3,4);
                               (4,5); (5,6); (6,7); (7,8); (8,4)] |} in
  let w := [1; 1; 2; 2; 2; 3; 1; 1; 1; 1; 1; 5]%Z in
  let scan := [6; 0; 1; 10; 7; 8; 9; 3; 2; 4; 5; 11] in
  let roots := [4; 0; 1; 2; 3; 5; 6; 7; 8] in
  let eord := [3; 1; 0; 2; 8; 7; 6; 5; 4] in
  simple_graph g /\ positive_weights g w /\ Permutation scan (seq 0 (ne g))
  /\ Sorted (fun a b => (wt w a <= wt w b)%Z) scan
  /\ (forall v, v < nv g -> In v roots)
  /\ approx_sva_signed_Z g w 2 scan roots eord
     = ApproxOk [[10; 7; 8; 9; 11]; [1; 0; 3]; [2; 0; 4]; [2; 1; 5]] 24%Z
  /\ (forall x, is_opt g w x -> (x <= 24 <= 3 * x)%Z).
Proof.
  cbv zeta.
  match goal with |- ?A /\ ?B /\ ?C /\ ?D /\ ?E /\ ?F /\ ?G =>
    assert (HA : A) by (vm_compute; reflexivity);
    assert (HB : B) by (split; [reflexivity|repeat constructor]);
    assert (HC : C) by (apply SpannerProofs.scan_perm_check; vm_compute; reflexivity);
    assert (HD : D) by (repeat (first [apply Z.leb_le; vm_compute; reflexivity | constructor]));
    assert (HE : E) by (intros v Hv; do 9 (destruct v as [|v]; [cbn [In]; tauto|]); exfalso; cbn [nv] in Hv; lia);
    assert (HF : F) by (vm_compute; reflexivity)
  end.
  repeat (split; [assumption|]).
  match type of HF with approx_sva_signed_Z ?g ?w _ ?scan ?roots ?eord = _ =>
    destruct (C06_global_signed g w 2 scan roots eord HA HB (le_S _ _ (le_n 1)) HC HD HE)
      as (cycles & total & Hrun & _ & _ & _ & Hopt)
  end.
  rewrite HF in Hrun. injection Hrun as <- <-. exact Hopt.
Qed.
