(* BidirProofsA3.v — Track A, part 3: the hidden-edge branch of a phase of mcb_sva_signed, the two premises
   of the modulo-search theorems, and the final statements, ASSUMING the specification bidir_spec_stmt of one
   bidirectional search (BidirSpec.v) as an explicit premise.

     hidden_edges_opt_from_bidir : bidir_spec_stmt -> hidden_edges_opt_stmt.
     signed_search_from_bidir    : bidir_spec_stmt -> signed_search_stmt.
     C01_signed_from_bidir       : bidir_spec_stmt -> C01_signed_stmt.
     C02_signed_from_bidir       : bidir_spec_stmt -> C02_signed_stmt.

   hidden_edges_opt_stmt is proved AS STATED (no NoDup premise about `signed` is needed: the only facts used
   about sort_eord are that it keeps every element and adds none).
   Invariant of the loop over the hidden signed edges: ba_good of the running best; progress: at the LAST
   element sstar of the sorted list that belongs to a minimum odd simple cycle C0, the rest of C0 is a path
   avoiding every still-hidden edge, whose lift is a cover walk of length mu - wt sstar.  No axioms. *)
From Coq Require Import List Arith Bool ZArith Lia Sorted Permutation.
From Parmcb Require Import GraphModel GF2Model GF2Proofs GraphSpec GraphLemmas McbSpec ForestModel HeapModel
     SvaModel SvaSpec SignedModel SignedZModel SignedProofs RefModel RefProofs1 RefProofs2 RefProofs3 RefProofs4
     RefProofs5 BidirSpec BidirProofsA1 BidirProofsA2.
Import ListNotations.

(* ---- list helpers --------------------------------------------------------------------------------- *)

Lemma ba_ends_some g e : e < ne g -> exists s t, ends g e = Some (s, t).
Proof.
  unfold ends, ne. intros H. destruct (nth_error (ge g) e) as [[s t]|] eqn:E; [eauto|].
  apply nth_error_None in E. lia.
Qed.

Lemma ba_par_true_ex sg l : par sg l = true -> exists e, In e l /\ In e sg.
Proof.
  induction l as [|e l IH]; [rewrite par_nil; discriminate|].
  rewrite par_cons. destruct (memb e sg) eqn:Em.
  - intros _. exists e. split; [left; reflexivity|apply gl_memb_In; exact Em].
  - rewrite xorb_false_l. intros H. destruct (IH H) as (a & Ha & Hs). exists a. split; [right; exact Ha|exact Hs].
Qed.

(* the last element of a list that satisfies a boolean predicate *)
Lemma ba_last_sat (f : nat -> bool) l : (exists x, In x l /\ f x = true) ->
  exists pre s post, l = pre ++ s :: post /\ f s = true /\ forall e, In e post -> f e = false.
Proof.
  induction l as [|a l IH]; intros (x & Hx & Hf); [destruct Hx|].
  destruct (existsb f l) eqn:Ex.
  - apply existsb_exists in Ex. destruct (IH Ex) as (pre & s & post & -> & Hs & Hp).
    exists (a :: pre), s, post. split; [reflexivity|]. split; assumption.
  - assert (Hall : forall e, In e l -> f e = false).
    { intros e He. destruct (f e) eqn:Ee; [|reflexivity].
      assert (existsb f l = true) by (apply existsb_exists; exists e; split; assumption). congruence. }
    destruct Hx as [->|Hx]; [|rewrite (Hall x Hx) in Hf; discriminate].
    exists [], x, l. split; [reflexivity|]. split; assumption.
Qed.

(* ---- the hidden-edge branch ----------------------------------------------------------------------- *)

Section HiddenEdges.
  Hypothesis Hspec : bidir_spec_stmt.
  Variables (g : graph) (wts : list Z) (signed : list nat) (C0 : list nat).
  Hypothesis Hs : simple_graph g.
  Hypothesis Hpw : positive_weights g wts.
  Hypothesis Hmin : min_odd_cycle g wts (odd_par signed) C0.
  (* the closed walk of C0 *)
  Variables (x0 : nat) (q0 : list (nat * nat)).
  Hypothesis Hw0 : walk g x0 q0 x0.
  Hypothesis Hnd0 : NoDup (wedges q0).
  Hypothesis Hnv0 : NoDup (wverts q0).
  Hypothesis HE0 : forall e, In e C0 <-> In e (wedges q0).

  Local Notation good := (ba_good g wts signed C0).
  Local Notation done := (ba_done wts C0).
  Local Notation mu := (ba_mu wts C0).

  Definition ba_heP (hid : list nat) (bst : option (list nat * Z)) : sparams Z :=
    {| sp_g := g; sp_wts := wts; sp_signed := signed; sp_hidden := hid;
       sp_use_hidden := true; sp_limit := limit_of Z bst |}.

  (* a cover walk (sv,+) ~> (su,+), closed by the signed edge se = {sv, su}, is an odd closed walk at sv;
     it avoids the hidden edges *)
  Lemma ba_he_close hid bst se sv su p : ends g se = Some (sv, su) -> In se signed ->
    cwalk (ba_heP hid bst) (signed_id (nv g) sv true) p (signed_id (nv g) su true) ->
    (exists x q, walk g x q x /\ wedges q = wedges p ++ [se] /\ par signed (wedges q) = true)
    /\ (forall e, In e (wedges p) -> ~ In e hid).
  Proof.
    intros He Hse Hc. destruct (gl_simple_ends g se sv su Hs He) as (Hsv & Hsu & _).
    destruct (ba_cwalk_proj _ _ _ _ Hc) as (Hw & Hpar & Hh).
    cbn [ba_heP sp_g sp_signed sp_use_hidden sp_hidden] in Hw, Hpar, Hh.
    rewrite !sg_vertex_of_signed_id in Hw by assumption.
    rewrite !sg_sign_of_signed_id in Hpar by assumption.
    split.
    - exists sv, (ba_proj (nv g) p ++ [(se, sv)]). split.
      + eapply gl_walk_app; [exact Hw|]. econstructor; [right; exact He|]. constructor. exact Hsv.
      + rewrite sg_wedges_app, ba_proj_wedges. split; [reflexivity|].
        rewrite par_app, Hpar. cbn [wedges map fst]. rewrite par_cons, par_nil.
        apply gl_memb_In in Hse. rewrite Hse. reflexivity.
    - intros e Hin. apply gl_memb_false. apply Hh; [reflexivity|exact Hin].
  Qed.

  (* when se is in C0 and no later hidden edge is: the rest of C0, lifted, is a cover walk of length
     mu - wt se from (sv,+) to (su,+) *)
  Lemma ba_he_star post bst se sv su : ends g se = Some (sv, su) -> In se signed ->
    In se C0 -> (forall e, In e post -> ~ In e C0) ->
    exists pstar,
      cwalk (ba_heP (se :: post) bst) (signed_id (nv g) sv true) pstar (signed_id (nv g) su true)
      /\ (clen (ba_heP (se :: post) bst) pstar + weight wts [se] = mu)%Z.
  Proof.
    intros He Hse HseC Hpost.
    destruct (rf_canonical g x0 q0 se sv su Hs Hw0 Hnd0 Hnv0 (proj1 (HE0 se) HseC) He)
      as (r & Hwr & Hndr & _ & HEr).
    pose proof (rf_revw_walk g Hs r su sv Hwr) as Hwr'.
    pose proof (rf_revw_edges r su) as Er'.
    assert (Hperm : Permutation C0 (se :: wedges r)).
    { destruct Hmin as ((_ & Sc & _) & _).
      apply NoDup_Permutation; [apply gl_sorted_NoDup; exact Sc|exact Hndr|].
      intros e. rewrite HE0. apply HEr. }
    assert (Hparr : par signed (wedges r) = false).
    { destruct Hmin as (_ & Hodd & _). unfold odd_par in Hodd.
      rewrite (par_perm signed _ _ Hperm), par_cons in Hodd.
      apply gl_memb_In in Hse. rewrite Hse in Hodd. destruct (par signed (wedges r)); [discriminate|reflexivity]. }
    assert (Hwtr : (wt wts se + weight wts (wedges r) = mu)%Z).
    { unfold ba_mu. rewrite (rf_weight_perm wts _ _ Hperm), rf_weight_cons. reflexivity. }
    destruct (ba_lift_id (ba_heP (se :: post) bst) Hs sv (revw su r) su true Hwr') as (p & Hc & Ew).
    - cbn [ba_heP sp_use_hidden sp_hidden]. intros _ e Hin. rewrite Er' in Hin. apply in_rev in Hin.
      apply gl_memb_false. intros [<-|Hp].
      + inversion Hndr as [|? ? Hx _]; subst. apply Hx. exact Hin.
      + apply (Hpost e Hp). apply HE0, HEr. right. exact Hin.
    - cbn [ba_heP sp_g sp_signed] in Hc. rewrite Er', par_rev, Hparr in Hc. cbn [xorb] in Hc.
      exists p. split; [exact Hc|]. unfold clen. cbn [ba_heP sp_wts]. rewrite Ew, Er'.
      rewrite (rf_weight_perm wts (rev (wedges r)) (wedges r)) by (apply Permutation_sym, Permutation_rev).
      rewrite rf_weight_cons. change (weight wts []) with 0%Z. lia.
  Qed.

  Lemma ba_he_step rest bst se sv su : ends g se = Some (sv, su) -> In se signed -> good bst ->
    match bidirectional_signed_dijkstra Z 0%Z Z.add Z.ltb (ba_heP (se :: rest) bst) sv true su true with
    | SearchError _ => False
    | NotFound _ => In se C0 -> (forall e, In e rest -> ~ In e C0) -> done bst
    | Found _ c w =>
        memb se c = false /\ good (Some (set_insert se c, (w + wt wts se)%Z))
        /\ (In se C0 -> (forall e, In e rest -> ~ In e C0) -> (w + wt wts se)%Z = mu)
    end.
  Proof.
    intros He Hse Hb. destruct (gl_simple_ends g se sv su Hs He) as (Hsv & Hsu & Hvu).
    assert (Hne : signed_id (nv g) sv true <> signed_id (nv g) su true) by (unfold signed_id; exact Hvu).
    pose proof (Hspec (ba_heP (se :: rest) bst) sv true su true Hs Hpw Hsv Hsu Hne) as H.
    cbn [ba_heP sp_g] in H. fold (ba_heP (se :: rest) bst) in H.
    assert (Hcl : (weight wts [se] = wt wts se)%Z) by (rewrite rf_weight_cons; change (weight wts []) with 0%Z; lia).
    pose proof (rf_wt_nonneg g wts se Hpw) as Hwse.
    destruct (bidirectional_signed_dijkstra Z 0%Z Z.add Z.ltb (ba_heP (se :: rest) bst) sv true su true)
      as [c w| |].
    - destruct H as (p & Hsp & Hnd & Sc & HE & Hw1 & Hw2 & _).
      cbn [ba_heP sp_wts] in Hw2.
      destruct (ba_he_close _ bst se sv su p He Hse (proj1 Hsp)) as ((x & q & Hwq & Ew & Hodd) & Hhid).
      assert (Hnin : ~ In se (wedges p)) by (intros Hin; apply (Hhid se Hin); left; reflexivity).
      assert (Hninc : ~ In se c) by (intros Hin; apply Hnin, HE, Hin).
      split; [apply gl_memb_false; exact Hninc|]. split.
      + assert (Hndq : NoDup (wedges q)).
        { rewrite Ew. apply gl_NoDup_app; [exact Hnd|repeat constructor; intros []|].
          intros e Hin [<-|[]]. exact (Hnin Hin). }
        assert (HEq : forall e, In e (set_insert se c) <-> In e (wedges q)).
        { intros e. rewrite sg_set_insert_In, Ew, in_app_iff, HE. cbn [In]. intuition. }
        pose proof (set_insert_sorted se c Sc) as Sc'.
        assert (Hwi : weight wts (set_insert se c) = (w + wt wts se)%Z).
        { rewrite (rf_weight_perm wts (set_insert se c) (wedges q)).
          - rewrite Ew, rf_weight_app, Hcl, Hw1. unfold clen. cbn [ba_heP sp_wts]. reflexivity.
          - apply NoDup_Permutation; [apply gl_sorted_NoDup; exact Sc'|exact Hndq|exact HEq]. }
        rewrite <- Hwi.
        apply (ba_closed_walk_good g wts signed C0 Hs Hpw Hmin x q _ Hwq); assumption.
      + intros HseC Hrest.
        destruct (ba_he_star rest bst se sv su He Hse HseC Hrest) as (pstar & Hstar & Hstarw).
        pose proof (ba_star_shortest g wts signed C0 Hs Hpw Hmin (ba_heP (se :: rest) bst) _ _ [se] eq_refl
                      (fun p' Hc' => proj1 (ba_he_close _ bst se sv su p' He Hse Hc'))
                      pstar Hstar Hstarw p Hsp) as E.
        rewrite Hcl in E. lia.
    - intros HseC Hrest.
      destruct (ba_he_star rest bst se sv su He Hse HseC Hrest) as (pstar & Hstar & Hstarw).
      eapply (ba_star_notfound g wts signed C0 Hs Hpw Hmin (ba_heP (se :: rest) bst) _ _ [se] bst
                eq_refl eq_refl Hb
                (fun p' Hc' => proj1 (ba_he_close _ bst se sv su p' He Hse Hc')));
        [|exact Hstar|exact Hstarw|exact H].
      lia.
    - exact H.
  Qed.

  Lemma ba_he_loop : forall rem bst, incl rem signed -> (forall e, In e rem -> e < ne g) -> good bst ->
    exists res, hidden_edges Z 0%Z Z.add Z.ltb g wts signed rem bst = Some res
      /\ good res /\ (done bst -> done res)
      /\ ((exists pre sstar post, rem = pre ++ sstar :: post /\ In sstar C0
                                  /\ forall e, In e post -> ~ In e C0) -> done res).
  Proof.
    induction rem as [|se rest IH]; intros bst Hin Hlt Hb.
    - exists bst. cbn [hidden_edges]. split; [reflexivity|]. split; [exact Hb|]. split; [auto|].
      intros (pre & sstar & post & E & _). destruct pre; discriminate.
    - cbn [hidden_edges].
      assert (Hse : In se signed) by (apply Hin; left; reflexivity).
      assert (Hin' : incl rest signed) by (intros e He; apply Hin; right; exact He).
      assert (Hlt' : forall e, In e rest -> e < ne g) by (intros e He; apply Hlt; right; exact He).
      destruct (ba_ends_some g se (Hlt se (or_introl eq_refl))) as (sv & su & He). rewrite He.
      fold (ba_heP (se :: rest) bst).
      pose proof (ba_he_step rest bst se sv su He Hse Hb) as Hstep.
      assert (Hsplit :
                 (exists pre sstar post, se :: rest = pre ++ sstar :: post /\ In sstar C0
                                         /\ forall e, In e post -> ~ In e C0) ->
                 (In se C0 /\ forall e, In e rest -> ~ In e C0)
                 \/ (exists pre sstar post, rest = pre ++ sstar :: post /\ In sstar C0
                                            /\ forall e, In e post -> ~ In e C0)).
      { intros (pre & sstar & post & E & H1 & H2). destruct pre as [|a pre].
        - cbn [app] in E. injection E as -> ->. left. split; assumption.
        - cbn [app] in E. injection E as _ ->. right. exists pre, sstar, post. auto. }
      destruct (bidirectional_signed_dijkstra Z 0%Z Z.add Z.ltb (ba_heP (se :: rest) bst) sv true su true)
        as [c w| |].
      + destruct Hstep as (Hm & Hc & Hmu). rewrite Hm.
        change (wtof Z 0%Z wts se) with (wt wts se).
        destruct (ba_better_update g wts signed C0 bst _ _ Hb Hc) as (Hb' & Hd1 & Hd2).
        destruct (IH _ Hin' Hlt' Hb') as (res & Er & Hr & Hdr & Hprog).
        exists res. split; [exact Er|]. split; [exact Hr|]. split; [auto|].
        intros Hdec. destruct (Hsplit Hdec) as [[H1 H2]|Hdec']; auto.
      + destruct (IH _ Hin' Hlt' Hb) as (res & Er & Hr & Hdr & Hprog).
        exists res. split; [exact Er|]. split; [exact Hr|]. split; [auto|].
        intros Hdec. destruct (Hsplit Hdec) as [[H1 H2]|Hdec']; auto.
      + destruct Hstep.
  Qed.
End HiddenEdges.

Theorem hidden_edges_opt_from_bidir : bidir_spec_stmt -> hidden_edges_opt_stmt.
Proof.
  intros Hspec eord g wts signed Hs Hpw Hlt Hex.
  destruct (ba_min_odd_exists g wts signed Hs Hpw Hex) as (C0 & Hmin).
  destruct (ba_C0_walk g wts signed C0 Hmin) as (x0 & q0 & Hw0 & Hnd0 & Hnv0 & HE0 & _ & _).
  (* the last element of the sorted list that lies on C0 *)
  assert (Hdec : exists pre sstar post, sort_eord eord signed = pre ++ sstar :: post /\ In sstar C0
                                        /\ forall e, In e post -> ~ In e C0).
  { destruct Hmin as (_ & Hodd & _). destruct (ba_par_true_ex signed C0 Hodd) as (e & HeC & Hes).
    destruct (ba_last_sat (fun a => memb a C0) (sort_eord eord signed)) as (pre & s & post & E & H1 & H2).
    - exists e. split; [apply ba_sort_eord_In; exact Hes|apply gl_memb_In; exact HeC].
    - exists pre, s, post. split; [exact E|]. split; [apply gl_memb_In; exact H1|].
      intros a Ha. apply gl_memb_false, H2, Ha. }
  destruct (ba_he_loop Hspec g wts signed C0 Hs Hpw Hmin x0 q0 Hw0 Hnd0 Hnv0 HE0
              (sort_eord eord signed) None) as (res & Er & Hr & _ & Hd).
  - apply sort_eord_incl.
  - intros e He. apply Hlt. apply (sort_eord_incl eord signed). exact He.
  - exact I.
  - destruct (Hd Hdec) as (c & ->).
    exists c, (ba_mu wts C0). split; [exact Er|].
    apply (ba_good_final g wts signed C0 Hmin); [exact Hr|exists c; reflexivity].
Qed.

(* ---- one phase --------------------------------------------------------------------------------------- *)

Lemma ba_phase_opt (Hspec : bidir_spec_stmt) g wts roots eord fi k S :
  simple_graph g -> positive_weights g wts -> (forall v, v < nv g -> In v roots) ->
  create_index g roots = Some fi -> canonical_witness fi S ->
  exists c w, signed_phase Z 0%Z Z.add Z.ltb eord g wts fi k S = PFound c w
    /\ min_odd_cycle g wts (fun D => pairing fi S D = true) c /\ w = weight wts c.
Proof.
  intros Hs Hpw Hr Hci (SS & Sne & BS).
  set (signed := indices_to_edges fi S).
  destruct (rf_index_bij g roots fi Hs Hr Hci) as (_ & HB & Hcm).
  assert (Hlt : forall e, In e signed -> e < ne g).
  { intros e He. unfold signed, indices_to_edges in He. apply rf_set_of_list_In, in_map_iff in He.
    destruct He as (i & <- & Hi). specialize (BS i Hi). destruct (HB i) as [Hlt _]; [lia|exact Hlt]. }
  assert (Hex : exists D, simple_cycle g D /\ odd_par signed D).
  { destruct (rf_odd_cycle_exists g roots fi S Hs Hr Hci SS Sne BS) as (D & HD & HoD).
    exists D. split; [exact HD|]. unfold odd_par. rewrite ba_par_oddb. exact HoD. }
  assert (Hbr : forall D, simple_cycle g D -> pairing fi S D = par signed D).
  { intros D HD. destruct (rf_simple_cycle_edges g D HD) as (HDs & HDb).
    rewrite ba_par_oddb. eapply rf_bridge; eauto. }
  assert (Hres : exists c w,
             (if Nat.leb (nv g) (length signed)
              then all_vertices Z 0%Z Z.add Z.ltb g wts signed (seq 0 (nv g)) None
              else hidden_edges Z 0%Z Z.add Z.ltb g wts signed (sort_eord eord signed) None)
             = Some (Some (c, w))
             /\ min_odd_cycle g wts (odd_par signed) c /\ w = weight wts c).
  { destruct (Nat.leb (nv g) (length signed)).
    - exact (all_vertices_opt_from_bidir Hspec g wts signed Hs Hpw Hex).
    - exact (hidden_edges_opt_from_bidir Hspec eord g wts signed Hs Hpw Hlt Hex). }
  destruct Hres as (c & w & Er & (Hc & Hoc & Hm) & Hw).
  exists c, w. split; [unfold signed_phase; fold signed; rewrite Er; reflexivity|].
  split; [|exact Hw]. split; [exact Hc|]. split.
  - rewrite Hbr by exact Hc. exact Hoc.
  - intros D HD HoD. apply Hm; [exact HD|]. unfold odd_par. rewrite <- Hbr by exact HD. exact HoD.
Qed.

Theorem signed_search_from_bidir : bidir_spec_stmt -> signed_search_stmt.
Proof.
  intros Hspec g wts roots eord fi Hs Hpw Hr Hci. split.
  - intros k S c w HS H.
    destruct (ba_phase_opt Hspec g wts roots eord fi k S Hs Hpw Hr Hci HS) as (c' & w' & E & Hm & Hw).
    rewrite E in H. injection H as <- <-. split; assumption.
  - intros k S SS Sne BS.
    destruct (ba_phase_opt Hspec g wts roots eord fi k S Hs Hpw Hr Hci (conj SS (conj Sne BS)))
      as (c & w & E & _). exists c, w. exact E.
Qed.

Theorem C01_signed_from_bidir : bidir_spec_stmt -> C01_signed_stmt.
Proof.
  intros Hspec g wts roots eord Hs Hpw Hr.
  apply C01_signed_modulo_search_lemma; [exact Hs|exact Hpw|exact Hr|].
  intros fi Hci. exact (signed_search_from_bidir Hspec g wts roots _ fi Hs Hpw Hr Hci).
Qed.

Theorem C02_signed_from_bidir : bidir_spec_stmt -> C02_signed_stmt.
Proof.
  intros Hspec g wts roots eord Hs Hpw Hr.
  apply C02_signed_modulo_search_lemma; [exact Hs|exact Hpw|exact Hr|].
  intros fi Hci. exact (signed_search_from_bidir Hspec g wts roots _ fi Hs Hpw Hr Hci).
Qed.

Print Assumptions hidden_edges_opt_from_bidir.
Print Assumptions signed_search_from_bidir.
Print Assumptions C01_signed_from_bidir.
Print Assumptions C02_signed_from_bidir.
