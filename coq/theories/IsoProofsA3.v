(* IsoProofsA3.v — Step B' of the sufficiency proof of the ISOMETRIC collection: a node of the cycle graph whose cycle is
   isometric is never marked bad (model: the LinkBad result of CandidatesModel.cd_link_of).
     isoa_isometric_rep   every rotation (in either direction) of an isometric cycle walk is represented from its start
     isoa_rep_split       a represented closed walk cut anywhere: the first part or the second part is P
     isoa_not_bad         the node walk is a rotation of an isometric cycle walk  =>  cd_link_of <> CdOk LinkBad
   Setting as IsoProofsA1.v.  Prefix isoa_. *)
From Coq Require Import List Arith Bool Lia ZArith Permutation.
From Parmcb Require Import GraphModel GF2Model GraphSpec GraphLemmas HeapModel LexSPModel FvsModel CandidatesModel
     LexSPProofsHeap LexSPProofs LexSPProofsDist LexSPProofsCons1 LexSPProofsCons2 LexSPProofsCons5
     CandidatesProofs CandidatesProofsZ IsoProofs0 IsoProofsR IsoProofsA1 IsoProofsA2.
Import ListNotations.

Section NotBad.
  Variable g : graph.
  Variable wts : list Z.
  Hypothesis Hsg : simple_graph g.
  Hypothesis Hpos : positive_weights g wts.

  Lemma isoa_closed_split x w1 w2 y : walk g x (w1 ++ w2) x -> walk g x w1 y -> walk g y w2 x.
  Proof.
    intros Hw H1. destruct (lc_walk_app_inv g Hsg w1 w2 x x Hw) as [y' [H1' H2]].
    rewrite (lc_walk_end_fun g w1 x y y' H1 H1'). exact H2.
  Qed.

  Lemma isoa_isometric_rep x0 w0 y w' : iso_cycle_walk g x0 w0 -> iso_isometric g wts x0 w0 ->
    iso_rot_of g x0 w0 y w' -> iso_rep g wts y w'.
  Proof.
    intros (Hw0 & _) Hiso (w1 & w2 & E & H1 & Hw'). subst w0.
    pose proof (isoa_closed_split x0 w1 w2 y Hw0 H1) as H2.
    assert (Hwy : walk g y (w2 ++ w1) y) by (eapply gl_walk_app; eauto).
    destruct (Hiso w1 w2 y eq_refl H1) as [Hr|Hr]; destruct Hw' as [->| ->].
    - exact Hr.
    - apply iso_rep_rev; assumption.
    - rewrite <- (lc_rev_invol g Hsg (w2 ++ w1) y y Hwy). apply iso_rep_rev; assumption.
    - exact Hr.
  Qed.

  Lemma isoa_rep_split y R A B v : iso_rep g wts y R -> R = A ++ B -> walk g y A v ->
    lc_lexmin g wts y A v \/ lc_lexmin g wts v B y.
  Proof.
    intros (pa & e & a & b & pb & Hj & Hla & Hlb & ->) E HA.
    pose proof (iso_lexmin_walk g wts _ _ _ Hla) as Hwa.
    pose proof (lc_lexmin_rev g wts Hsg pb y b Hlb) as Hlrb.
    pose proof (iso_lexmin_walk g wts _ _ _ Hlrb) as Hwrb.
    symmetry in E. apply app_eq_app in E as [l [[E1 E2]|[E1 E2]]].
    - (* A reaches into the second part *)
      destruct l as [|[e' b'] l'].
      + rewrite app_nil_r in E1. subst A. left. rewrite (lc_walk_end_fun g pa y v a HA Hwa). exact Hla.
      + cbn [app] in E2. injection E2 as <- <- E2. subst A.
        destruct (lc_walk_app_inv g Hsg pa ((e, b) :: l') y v HA) as [a' [Ha' Hl']].
        inversion Hl' as [|? ? ? ? ? _ Hwl']; subst.
        right. rewrite E2 in Hlrb, Hwrb.
        apply (lc_lexmin_sub g wts Hsg Hpos l' B [] b v y y).
        * rewrite app_nil_r. exact Hlrb.
        * exact Hwl'.
        * destruct (lc_walk_app_inv g Hsg l' B b y Hwrb) as [v' [Hv' HB]].
          rewrite (lc_walk_end_fun g l' b v v' Hwl' Hv'). exact HB.
    - (* A is a prefix of the first part *)
      left. subst pa.
      apply (lc_lexmin_sub g wts Hsg Hpos [] A l y y v a); [exact Hla| |exact HA].
      constructor. eapply gl_walk_start_lt; eauto.
  Qed.
  Variable trees : list (sp_tree Z).
  Variable allcycles : list (cand Z).
  Hypothesis Hh : horton_cycles_Z g wts = CdOk (trees, allcycles).

  Notation cv := (filter (cd_is_circuit Z g trees) allcycles).

  Theorem isoa_not_bad x0 w0 i c x w : iso_cycle_walk g x0 w0 -> iso_isometric g wts x0 w0 ->
    nth_error cv i = Some c -> isoa_node_walk g wts trees c x w -> iso_rot_of g x0 w0 x w ->
    cd_link_of Z g trees cv c <> CdOk LinkBad.
  Proof.
    intros Hcw0 Hiso Hi Hnw Hrot0. pose proof (nth_error_In _ _ Hi) as Hc.
    destruct (isoa_node g wts Hsg Hpos trees allcycles Hh c Hc) as (x1 & w1 & Hnw1 & Hx & Hcw & _).
    destruct (isoa_node_walk_fun g wts trees c x1 w1 x w Hnw1 Hnw) as [-> ->]. clear Hnw1.
    destruct Hnw as (t & u & v & pa & pb & Hn & Hxc & Ht & He & Hpa & Hpb & Hw). subst w.
    unfold cd_link_of. rewrite Hn, He. cbv zeta.
    set (e := c_edge c) in *.
    destruct (isoa_tree_src g wts x t Ht) as [Hsrc _].
    assert (Hjuv : joins g e u v) by (left; exact He).
    destruct (gl_simple_joins g e u v Hsg Hjuv) as (Hu & Hv & Huv).
    pose proof (isoa_twalk_walk g wts x t pa u Ht Hpa) as Hwa.
    pose proof (isoa_twalk_walk g wts x t pb v Ht Hpb) as Hwb.
    pose proof (lc_rev_walk g Hsg pb x v Hwb) as Hwrb.
    pose proof Hcw as (Hww & _).
    pose proof Hcw0 as (Hww0 & _).
    rewrite Hsrc.
    destruct (Nat.eqb (sp_first Z t u) (sp_first Z t v)) eqn:Ef; [discriminate|].
    destruct (Nat.eqb_spec x u) as [Exu|Nxu].
    { destruct (cd_lookup Z v e cv 0 None); discriminate. }
    destruct pa as [|[f x'] pa1].
    { inversion Hwa; subst. congruence. }
    destruct (isoa_head_step g wts Hsg Hpos x t f x' pa1 u Ht Hpa) as (Hjf & Hwa1 & Hla1 & Hfu & nd & Hnd & Hpred).
    rewrite Hfu.
    destruct (gl_simple_joins g f x x' Hsg Hjf) as (_ & Hx' & Hxx').
    destruct (isoa_tree_exists g wts Hsg Hpos trees allcycles Hh x' Hx') as [tx' [Hnx' Htx']].
    rewrite Hnx'.
    destruct (Nat.eqb_spec x (sp_first Z tx' v)) as [E1|N1].
    { destruct (cd_lookup Z x' e cv 0 None); discriminate. }
    destruct (isoa_tree_exists g wts Hsg Hpos trees allcycles Hh v Hv) as [tv [Hnv Htv]].
    rewrite Hnv.
    destruct (Nat.eqb_spec u (sp_first Z tv x')) as [E2|N2].
    { rewrite Hnd, Hpred. destruct (cd_lookup Z v f cv 0 None); discriminate. }
    intros _.
    (* the rotation of the node walk to x' is represented from x' *)
    set (A := pa1 ++ [(e, v)]). set (B := lc_rev x pb ++ [(f, x')]).
    assert (HwA : walk g x' A v).
    { eapply gl_walk_app; [exact Hwa1|]. econstructor; [exact Hjuv|constructor; exact Hv]. }
    assert (Hrot : iso_rot_of g x (((f, x') :: pa1) ++ (e, v) :: lc_rev x pb) x' (A ++ B)).
    { replace (A ++ B) with ((pa1 ++ (e, v) :: lc_rev x pb) ++ [(f, x')]).
      - apply (isor_rot g x [(f, x')] (pa1 ++ (e, v) :: lc_rev x pb) x'); [exact Hww|].
        econstructor; [exact Hjf|constructor; exact Hx'].
      - unfold A, B. rewrite <- !app_assoc. reflexivity. }
    pose proof (isor_trans g Hsg x0 w0 x _ x' (A ++ B) Hww0 Hrot0 Hrot) as Hrot'.
    pose proof (isoa_isometric_rep x0 w0 x' (A ++ B) Hcw0 Hiso Hrot') as Hrep.
    destruct (isoa_rep_split x' (A ++ B) A B v Hrep eq_refl HwA) as [HlA|HlB].
    - (* P(x',v) goes through u and e: P(v,x') starts with e to u *)
      apply (lc_lexmin_rev g wts Hsg) in HlA. unfold A in HlA. rewrite (lc_rev_snoc g pa1 x' u e v Hwa1) in HlA.
      pose proof (isoa_lexmin_twalk g wts Hsg Hpos v tv _ x' Htv HlA) as Htw.
      apply N2. symmetry. exact (isoa_first_hd g wts v tv e u _ x' Htv Htw).
    - (* P(v,x') goes through x and f: P(x',v) starts with f to x *)
      apply (lc_lexmin_rev g wts Hsg) in HlB. unfold B in HlB. rewrite (lc_rev_snoc g (lc_rev x pb) v x f x' Hwrb) in HlB.
      pose proof (isoa_lexmin_twalk g wts Hsg Hpos x' tx' _ v Htx' HlB) as Htw.
      apply N1. symmetry. exact (isoa_first_hd g wts x' tx' f x _ v Htx' Htw).
  Qed.
End NotBad.

Print Assumptions isoa_isometric_rep.
Print Assumptions isoa_rep_split.
Print Assumptions isoa_not_bad.
