(* RefProofs5.v — proofs about RefModel.v, part 5: COMPLETENESS of the raw simple-cycle checker on simple
   graphs: every duplicate-free list of edge ids whose set is a simple cycle is accepted, in whatever order
   the ids are given (the trace follows the cycle: at every vertex exactly one unused edge of the set is
   incident).  Prefix rf_. *)
From Coq Require Import List Arith Bool ZArith Lia Sorted Permutation.
From Parmcb Require Import GraphModel GF2Model GF2Proofs GraphSpec GraphLemmas McbSpec RefModel RefProofs1 RefProofs4.
Import ListNotations.

(* ---- completeness of the boolean pieces ---------------------------------------------------------- *)

Lemma rf_NoDup_nodupb l : NoDup l -> nodupb l = true.
Proof.
  induction 1 as [|x l Hx _ IH]; [reflexivity|]. cbn [nodupb]. rewrite IH, andb_true_r.
  apply negb_true_iff. apply gl_memb_false; exact Hx.
Qed.

Lemma rf_joins_joinsb g e x y : joins g e x y -> joinsb g e x y = true.
Proof.
  unfold joins, joinsb. intros [H|H]; rewrite H; rewrite !Nat.eqb_refl; cbn [andb orb]; auto using orb_true_r.
Qed.

Lemma rf_walk_walkb g x p z : walk g x p z -> walkb g x p z = true.
Proof.
  induction 1 as [x Hx|x e y p z Hj _ IH]; cbn [walkb].
  - rewrite Nat.eqb_refl. apply Nat.ltb_lt in Hx. rewrite Hx. reflexivity.
  - rewrite (rf_joins_joinsb g e x y Hj), IH. reflexivity.
Qed.

(* ---- walks: unique end, reversal ---------------------------------------------------------------- *)

Lemma rf_walk_end_unique g : forall p x z z', walk g x p z -> walk g x p z' -> z = z'.
Proof.
  induction p as [|[e y] p IH]; intros x z z' H H'.
  - inversion H; inversion H'; subst; reflexivity.
  - inversion H as [|? ? ? ? ? _ Hw]; inversion H' as [|? ? ? ? ? _ Hw']; subst. eapply IH; eauto.
Qed.

Fixpoint revw (x : nat) (p : rwalk) : rwalk :=
  match p with
  | [] => []
  | (e, y) :: r => revw y r ++ [(e, x)]
  end.

Lemma rf_revw_walk g : simple_graph g -> forall p x z, walk g x p z -> walk g z (revw x p) x.
Proof.
  intros Hs. induction p as [|[e y] p IH]; intros x z H.
  - inversion H; subst. constructor; assumption.
  - inversion H as [|? ? ? ? ? Hj Hw]; subst. cbn [revw].
    eapply gl_walk_app; [apply IH; exact Hw|].
    econstructor; [apply gl_joins_sym; exact Hj|]. constructor. apply (gl_simple_joins g e x y Hs Hj).
Qed.

Lemma rf_revw_edges : forall p x, wedges (revw x p) = rev (wedges p).
Proof.
  induction p as [|[e y] p IH]; intros x; [reflexivity|].
  cbn [revw]. rewrite rf_wedges_app, IH. reflexivity.
Qed.

Lemma rf_revw_verts g : forall p x z, walk g x p z ->
  Permutation (z :: wverts (revw x p)) (x :: wverts p).
Proof.
  induction p as [|[e y] p IH]; intros x z H.
  - inversion H; subst. apply Permutation_refl.
  - inversion H as [|? ? ? ? ? Hj Hw]; subst. cbn [revw]. rewrite rf_wverts_app.
    cbn [wverts map snd]. fold (wverts p).
    apply Permutation_trans with (x :: z :: wverts (revw y p)).
    + change (z :: wverts (revw y p) ++ [x]) with ((z :: wverts (revw y p)) ++ [x]).
      apply Permutation_sym, Permutation_cons_append.
    + apply perm_skip. apply IH; exact Hw.
Qed.

(* ---- the canonical traversal: starting with e0 in the direction of its stored endpoints ------ *)

Lemma rf_canonical g x p e0 s t : simple_graph g ->
  walk g x p x -> NoDup (wedges p) -> NoDup (wverts p) -> In e0 (wedges p) -> ends g e0 = Some (s, t) ->
  exists r, walk g t r s /\ NoDup (e0 :: wedges r) /\ NoDup (t :: wverts r)
            /\ (forall e, In e (wedges p) <-> In e (e0 :: wedges r)).
Proof.
  intros Hs Hw Hnde Hndv Hin He0.
  apply in_map_iff in Hin as ([e0' v] & E & Hin). cbn [fst] in E. subst e0'.
  apply in_split in Hin as (a & b & Hp). subst p.
  destruct (rf_walk_app_inv g Hs a ((e0, v) :: b) x x Hw) as (u & Hwa & Hwb).
  inversion Hwb as [|? ? ? ? ? Hj Hwb']; subst.
  (* rotate: closed walk (e0,v) :: b ++ a at u *)
  assert (Hr : walk g v (b ++ a) u) by (eapply gl_walk_app; eauto).
  assert (HPe : Permutation (wedges (a ++ (e0, v) :: b)) (e0 :: wedges (b ++ a))).
  { rewrite !rf_wedges_app. cbn [wedges map fst]. fold (wedges b).
    apply Permutation_sym. apply Permutation_trans with (e0 :: wedges a ++ wedges b).
    - apply perm_skip, Permutation_app_comm.
    - apply Permutation_middle. }
  assert (HPv : Permutation (wverts (a ++ (e0, v) :: b)) (v :: wverts (b ++ a))).
  { rewrite !rf_wverts_app. cbn [wverts map snd]. fold (wverts b).
    apply Permutation_sym. apply Permutation_trans with (v :: wverts a ++ wverts b).
    - apply perm_skip, Permutation_app_comm.
    - apply Permutation_middle. }
  pose proof (Permutation_NoDup HPe Hnde) as Hnde1. pose proof (Permutation_NoDup HPv Hndv) as Hndv1.
  assert (Hset : forall e, In e (wedges (a ++ (e0, v) :: b)) <-> In e (e0 :: wedges (b ++ a))).
  { intros e. split; intros H; [eapply Permutation_in; [exact HPe|exact H]
                               |eapply Permutation_in; [apply Permutation_sym; exact HPe|exact H]]. }
  destruct (rf_joins_fun g e0 u v s t Hj (or_introl He0)) as [[-> ->]|[-> ->]].
  - (* already in the stored direction *)
    exists (b ++ a). auto.
  - (* traversed from t to s: reverse the rest *)
    exists (revw s (b ++ a)). split; [apply rf_revw_walk; assumption|]. split; [|split].
    + rewrite rf_revw_edges. inversion Hnde1 as [|? ? Hx Hnd']; subst. constructor.
      * rewrite <- in_rev. exact Hx.
      * apply NoDup_rev. exact Hnd'.
    + eapply Permutation_NoDup; [apply Permutation_sym, (rf_revw_verts g _ _ _ Hr)|exact Hndv1].
    + intros e. rewrite Hset, rf_revw_edges. cbn [In]. rewrite <- in_rev. reflexivity.
Qed.

(* ---- the trace follows the canonical traversal ------------------------------------------------- *)

Lemma rf_NoDup_app_disj {A} (a b : list A) x : NoDup (a ++ b) -> In x a -> In x b -> False.
Proof.
  induction a as [|y a IH]; intros H Ha Hb; [destruct Ha|]. cbn [app] in H.
  inversion H as [|? ? Hy Hnd]; subst. destruct Ha as [->|Ha]; [|eapply IH; eauto].
  apply Hy. apply in_or_app. right; exact Hb.
Qed.

Lemma rf_opposite_joins g e x y : simple_graph g -> joins g e x y -> opposite g e x = Some y.
Proof.
  intros Hs Hj. destruct (gl_simple_joins g e x y Hs Hj) as (_ & _ & Hne).
  unfold opposite. destruct Hj as [H|H]; rewrite H.
  - rewrite Nat.eqb_refl. reflexivity.
  - destruct (Nat.eqb_spec y x); [congruence|]. rewrite Nat.eqb_refl. reflexivity.
Qed.

Lemma rf_opposite_incident g e x y : opposite g e x = Some y -> incident g e x = true.
Proof.
  unfold opposite, incident. destruct (ends g e) as [[s t]|]; [|discriminate].
  destruct (Nat.eqb s x); [reflexivity|]. destruct (Nat.eqb t x); [reflexivity|discriminate].
Qed.

Lemma rf_find_next_unique g used cur e y : simple_graph g -> joins g e cur y -> ~ In e used ->
  forall l, In e l ->
    (forall f, In f l -> ~ In f used -> incident g f cur = true -> f = e) ->
    find_next g l used cur = Some (e, y).
Proof.
  intros Hs Hj Hnu. pose proof (rf_opposite_joins g e cur y Hs Hj) as Hop.
  induction l as [|f l IH]; intros Hin Huniq; [destruct Hin|]. cbn [find_next].
  destruct (memb f used) eqn:Em.
  - apply gl_memb_In in Em. destruct Hin as [->|Hin]; [contradiction|].
    apply IH; [exact Hin|]. intros f' Hf'. apply Huniq. right; exact Hf'.
  - apply gl_memb_false in Em. destruct (opposite g f cur) as [y'|] eqn:Eo.
    + assert (f = e) by (apply Huniq; [left; reflexivity|exact Em|eapply rf_opposite_incident; eauto]).
      subst f. rewrite Hop in Eo. inversion Eo; reflexivity.
    + destruct Hin as [->|Hin]; [congruence|].
      apply IH; [exact Hin|]. intros f' Hf'. apply Huniq. right; exact Hf'.
Qed.

Lemma rf_trace_loop_complete g l s p0 : simple_graph g ->
  NoDup (wedges p0) -> NoDup (wverts p0) -> (forall e, In e l <-> In e (wedges p0)) ->
  forall rest pre cur, p0 = pre ++ rest -> pre <> [] ->
    walk g s pre cur -> walk g cur rest s ->
    trace_loop (S (length rest)) g l (rev (wedges pre)) s cur (rev pre) = Some p0.
Proof.
  intros Hs Hnde Hndv Hset. induction rest as [|[e y] rest IH]; intros pre cur Hp Hpre Hw1 Hw2.
  - inversion Hw2; subst. cbn [trace_loop]. rewrite Nat.eqb_refl, rev_involutive, app_nil_r. reflexivity.
  - inversion Hw2 as [|? ? ? ? ? Hj Hw3]; subst.
    assert (Hcur : In cur (wverts pre)) by (eapply rf_walk_end_in; eauto).
    rewrite rf_wverts_app in Hndv. rewrite rf_wedges_app in Hnde.
    cbn [wverts wedges map fst snd] in Hndv, Hnde. fold (wverts rest) in Hndv. fold (wedges rest) in Hnde.
    cbn [trace_loop length].
    destruct (Nat.eqb_spec cur s) as [Heq|Hne].
    { exfalso. subst cur. apply (rf_NoDup_app_disj _ _ s Hndv Hcur).
      apply (rf_walk_end_in g ((e, y) :: rest) s s Hw2). discriminate. }
    rewrite (rf_find_next_unique g (rev (wedges pre)) cur e y Hs Hj).
    + specialize (IH (pre ++ [(e, y)]) y).
      rewrite rf_wedges_app, !rev_app_distr in IH. cbn [wedges map fst rev app] in IH.
      apply IH.
      * rewrite <- app_assoc. reflexivity.
      * destruct pre; discriminate.
      * eapply gl_walk_app; [exact Hw1|]. econstructor; [exact Hj|]. constructor.
        eapply gl_walk_start_lt; eauto.
      * exact Hw3.
    + rewrite <- in_rev. intros Hin. apply (rf_NoDup_app_disj _ _ e Hnde Hin). left; reflexivity.
    + apply Hset. rewrite rf_wedges_app. apply in_or_app. right. left; reflexivity.
    + intros f Hfl Hfu Hinc. rewrite <- in_rev in Hfu.
      apply Hset in Hfl. rewrite rf_wedges_app in Hfl. apply in_app_or in Hfl.
      destruct Hfl as [Hfl|Hfl]; [contradiction|]. cbn [wedges map fst] in Hfl.
      destruct Hfl as [Hfl|Hfl]; [symmetry; exact Hfl|]. exfalso.
      apply gl_incident_joins in Hinc as (w & Hjw).
      destruct (rf_walk_edge_ends g f cur w Hjw rest y s Hw3 Hfl) as [Hc _].
      apply (rf_NoDup_app_disj _ _ cur Hndv Hcur Hc).
Qed.

(* ---- completeness ---------------------------------------------------------------------------------- *)

Lemma rf_trace_cons g e0 l' :
  trace g (e0 :: l') =
  match ends g e0 with
  | Some (s, t) =>
      match trace_loop (length (e0 :: l')) g (e0 :: l') [e0] s t [(e0, t)] with
      | Some p => Some (s, p)
      | None => None
      end
  | None => None
  end.
Proof. reflexivity. Qed.

Theorem rf_is_simple_cycle_rawb_complete g l : simple_graph g ->
  NoDup l -> simple_cycle g (set_of_list l) -> is_simple_cycle_rawb g l = true.
Proof.
  intros Hs Hndl (Hne & _ & x & p & Hw & Hnde & Hndv & HE).
  destruct l as [|e0 l']; [exfalso; apply Hne; reflexivity|]. set (l := e0 :: l') in *.
  assert (HE' : forall e, In e l <-> In e (wedges p)).
  { intros e. rewrite <- HE. symmetry. apply rf_set_of_list_In. }
  assert (Hin0 : In e0 (wedges p)) by (apply HE'; left; reflexivity).
  destruct (ends g e0) as [[s t]|] eqn:Ee.
  2:{ pose proof (gl_walk_edges_lt g x p x Hw e0 Hin0) as Hlt. unfold ends in Ee.
      apply nth_error_None in Ee. unfold ne in Hlt. lia. }
  destruct (rf_canonical g x p e0 s t Hs Hw Hnde Hndv Hin0 Ee) as (r & Hwr & Hnde0 & Hndv0 & Hset0).
  set (p0 := (e0, t) :: r).
  assert (Hj : joins g e0 s t) by (left; exact Ee).
  assert (Hw0 : walk g s p0 s) by (econstructor; eauto).
  assert (Hsetl : forall e, In e l <-> In e (wedges p0)).
  { intros e. rewrite HE', Hset0. reflexivity. }
  assert (Hlen : length l = S (length r)).
  { change (S (length r)) with (length p0). rewrite <- (map_length fst p0). fold (wedges p0).
    apply Permutation_length. apply NoDup_Permutation; assumption. }
  unfold is_simple_cycle_rawb. unfold l at 1. rewrite rf_trace_cons. fold l. rewrite Ee, Hlen.
  pose proof (rf_trace_loop_complete g l s p0 Hs Hnde0 Hndv0 Hsetl r [(e0, t)] t eq_refl
                ltac:(discriminate)) as Ht.
  cbn [wedges map fst rev app] in Ht. rewrite Ht.
  - change (e0 :: wedges r) with (wedges p0) in Hnde0. change (t :: wverts r) with (wverts p0) in Hndv0.
    unfold closed_walk_okb. rewrite (rf_walk_walkb g s p0 s Hw0).
    rewrite (rf_NoDup_nodupb _ Hnde0), (rf_NoDup_nodupb _ Hndv0), (rf_NoDup_nodupb _ Hndl).
    cbn [andb is_nilb negb l]. rewrite !andb_true_r. apply andb_true_iff. split.
    + apply forallb_forall. intros e He. apply gl_memb_In. apply Hsetl; exact He.
    + apply forallb_forall. intros e He. apply gl_memb_In. apply Hsetl; exact He.
  - econstructor; [exact Hj|]. constructor. apply (gl_simple_joins g e0 s t Hs Hj).
  - exact Hwr.
Qed.
