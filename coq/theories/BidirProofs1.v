(* BidirProofs1.v — optimality of the bidirectional signed search, part 1:
     - basic facts about the cover graph of BidirSpec.v (composition, reversal/symmetry, lengths);
     - the invariant `finv` of ONE search frontier (label-setting / Dijkstra invariant, DESIGN B4, truncated
       at the weight limit), its validity for fr_init, and the lower-bound lemma
       (every cover walk from the source ends in a settled vertex with a distance entry no larger than its
        length, or is at least as long as some heap key, or is not below the limit).
   No axioms. *)
From Coq Require Import List Arith Bool ZArith Lia Permutation.
From Parmcb Require Import GraphModel GF2Model GF2Proofs GraphSpec GraphLemmas McbSpec ForestModel
     HeapModel HeapSpec HeapProofs SvaModel SvaSpec SignedModel SignedZModel SignedProofs RefProofs1 BidirSpec.
Import ListNotations.

Local Open Scope Z_scope.

(* ---- weights ------------------------------------------------------------------------------------ *)

Lemma bd_wt_pos g w e : positive_weights g w -> (e < ne g)%nat -> 0 < wt w e.
Proof.
  intros [Hl Hf] He. unfold wt. rewrite Forall_forall in Hf. apply Hf, nth_In. lia.
Qed.

Lemma bd_clen_nil P : clen P [] = 0.
Proof. reflexivity. Qed.

Lemma bd_clen_cons P e y p : clen P ((e, y) :: p) = wt (sp_wts Z P) e + clen P p.
Proof. reflexivity. Qed.

Lemma bd_clen_app P p q : clen P (p ++ q) = clen P p + clen P q.
Proof. unfold clen. rewrite sg_wedges_app. apply rf_weight_app. Qed.

Lemma bd_clen_nonneg P p : positive_weights (sp_g Z P) (sp_wts Z P) -> 0 <= clen P p.
Proof. intros H. unfold clen. eapply rf_weight_nonneg; exact H. Qed.

(* ---- the limit ------------------------------------------------------------------------------------ *)

Lemma bd_blim_mono P d d' : blim P d -> d' <= d -> blim P d'.
Proof.
  unfold blim, below_limit. destruct (sp_limit Z P) as [l|]; [|auto].
  intros H Hle. apply Z.ltb_lt in H. apply Z.ltb_lt. lia.
Qed.

Lemma bd_blim_lt P d d' : blim P d -> ~ blim P d' -> d < d'.
Proof.
  unfold blim, below_limit. destruct (sp_limit Z P) as [l|]; [|intros _ H; exfalso; apply H; reflexivity].
  intros H H'. apply Z.ltb_lt in H. rewrite Z.ltb_lt in H'. lia.
Qed.

Lemma bd_blim_dec P d : {blim P d} + {~ blim P d}.
Proof. unfold blim. destruct (below_limit Z Z.ltb P d); [left; reflexivity|right; discriminate]. Qed.

(* ---- signed vertices ------------------------------------------------------------------------------ *)

Lemma bd_signed_id_eta n x : (x < 2 * n)%nat -> signed_id n (vertex_of n x) (sign_of n x) = x.
Proof.
  intros Hx. unfold signed_id, vertex_of, sign_of. destruct (Nat.ltb_spec x n); lia.
Qed.

Lemma bd_vertex_of_lt n x : (x < 2 * n)%nat -> (vertex_of n x < n)%nat.
Proof. intros Hx. unfold vertex_of. destruct (Nat.ltb_spec x n); lia. Qed.

Lemma bd_signed_id_lt n w b : (w < n)%nat -> (signed_id n w b < 2 * n)%nat.
Proof. intros Hw. unfold signed_id. destruct b; lia. Qed.

Lemma bd_signed_eq n x y : (x < 2 * n)%nat -> (y < 2 * n)%nat ->
  vertex_of n x = vertex_of n y -> sign_of n x = sign_of n y -> x = y.
Proof.
  intros Hx Hy Hv Hs. rewrite <- (bd_signed_id_eta n x Hx), <- (bd_signed_id_eta n y Hy), Hv, Hs.
  reflexivity.
Qed.

(* the cover neighbour of su through the edge e whose other endpoint is w, as scan_edge computes it *)
Definition ctarget (P : sparams Z) (su e w : nat) : nat :=
  signed_id (nv (sp_g Z P)) w
    (if memb e (sp_signed Z P) then negb (sign_of (nv (sp_g Z P)) su) else sign_of (nv (sp_g Z P)) su).

Section Cover.
  Variable P : sparams Z.
  Local Notation g := (sp_g Z P).
  Local Notation n := (nv (sp_g Z P)).
  Local Notation wts := (sp_wts Z P).
  Hypothesis Hs : simple_graph g.
  Hypothesis Hpw : positive_weights g wts.

  Lemma bd_cstep_sym x e y : cstep P x e y -> cstep P y e x.
  Proof.
    intros (Hx & Hy & Hj & Hsg & Hh). split; [exact Hy|]. split; [exact Hx|].
    split; [apply gl_joins_sym; exact Hj|]. split; [|exact Hh].
    rewrite Hsg. destruct (sign_of n x), (memb e (sp_signed Z P)); reflexivity.
  Qed.

  Lemma bd_cstep_edge_lt x e y : cstep P x e y -> (e < ne g)%nat.
  Proof. intros (_ & _ & Hj & _). eapply gl_joins_lt; exact Hj. Qed.

  Lemma bd_cstep_wt_pos x e y : cstep P x e y -> 0 < wt wts e.
  Proof. intros H. eapply bd_wt_pos; [exact Hpw|eapply bd_cstep_edge_lt; exact H]. Qed.

  Lemma bd_cstep_ctarget su e w : (su < 2 * n)%nat -> joins g e (vertex_of n su) w ->
    sp_use_hidden Z P && memb e (sp_hidden Z P) = false -> cstep P su e (ctarget P su e w).
  Proof.
    intros Hsu Hj Hh. destruct (gl_simple_joins _ _ _ _ Hs Hj) as (_ & Hw & _).
    unfold cstep, ctarget. split; [exact Hsu|]. split; [apply bd_signed_id_lt; exact Hw|].
    unfold edge_ok. rewrite sg_vertex_of_signed_id, sg_sign_of_signed_id by exact Hw.
    split; [exact Hj|]. split.
    - destruct (memb e (sp_signed Z P)), (sign_of n su); reflexivity.
    - intros Hu. rewrite Hu in Hh. exact Hh.
  Qed.

  Lemma bd_cstep_unique su e v w : cstep P su e v -> joins g e (vertex_of n su) w -> v = ctarget P su e w.
  Proof.
    intros (Hsu & Hv & Hj & Hsg & _) Hjw.
    destruct (gl_simple_joins _ _ _ _ Hs Hjw) as (_ & Hw & Hne).
    apply (bd_signed_eq n); [exact Hv|apply bd_signed_id_lt; exact Hw| |].
    - unfold ctarget. rewrite sg_vertex_of_signed_id by exact Hw.
      destruct (rf_joins_fun _ _ _ _ _ _ Hj Hjw) as [[_ E]|[E1 E2]]; [exact E|].
      exfalso. apply Hne. congruence.
    - unfold ctarget. rewrite sg_sign_of_signed_id by exact Hw. rewrite Hsg.
      destruct (memb e (sp_signed Z P)), (sign_of n su); reflexivity.
  Qed.

  Lemma bd_cstep_hidden x e y : cstep P x e y -> sp_use_hidden Z P && memb e (sp_hidden Z P) = false.
  Proof.
    intros (_ & _ & _ & _ & Hh). destruct (sp_use_hidden Z P); [|reflexivity].
    cbn [andb]. apply Hh. reflexivity.
  Qed.

  Lemma bd_cstep_out x e y : cstep P x e y -> In (e, vertex_of n y) (out_edges g (vertex_of n x)).
  Proof. intros (_ & _ & Hj & _). apply gl_out_edges_joins. exact Hj. Qed.

  (* ---- walks of the cover graph ---------------------------------------------------------------- *)

  Lemma bd_cwalk_start_lt x p y : cwalk P x p y -> (x < 2 * n)%nat.
  Proof. intros H. destruct H as [x Hx|x e y p z (Hx & _) _]; exact Hx. Qed.

  Lemma bd_cwalk_end_lt x p y : cwalk P x p y -> (y < 2 * n)%nat.
  Proof. induction 1; auto. Qed.

  Lemma bd_cwalk_app x p y q z : cwalk P x p y -> cwalk P y q z -> cwalk P x (p ++ q) z.
  Proof.
    induction 1 as [x Hx|x e y p z' Hst Hw IH]; intros Hq; cbn [app]; auto.
    econstructor; eauto.
  Qed.

  Lemma bd_cwalk_snoc x p y e z : cwalk P x p y -> cstep P y e z -> cwalk P x (p ++ [(e, z)]) z.
  Proof.
    intros Hw Hst. eapply bd_cwalk_app; [exact Hw|]. econstructor; [exact Hst|].
    constructor. apply Hst.
  Qed.

  Lemma bd_cwalk_snoc_inv : forall p x e v z, cwalk P x (p ++ [(e, v)]) z ->
    z = v /\ exists y, cwalk P x p y /\ cstep P y e v.
  Proof.
    induction p as [|[e' y'] p IH]; intros x e v z H; cbn [app] in H.
    - inversion H as [|? ? ? ? ? Hst Hw]; subst. inversion Hw; subst.
      split; [reflexivity|]. exists x. split; [constructor; apply Hst|exact Hst].
    - inversion H as [|? ? ? ? ? Hst Hw]; subst. apply IH in Hw as (-> & y & Hw & Hst').
      split; [reflexivity|]. exists y. split; [econstructor; eassumption|exact Hst'].
  Qed.

  Lemma bd_cwalk_rev x p z : cwalk P x p z ->
    exists p', cwalk P z p' x /\ wedges p' = rev (wedges p).
  Proof.
    induction 1 as [x Hx|x e y p z Hst Hw (p' & Hw' & E)].
    - exists []. split; [constructor; exact Hx|reflexivity].
    - exists (p' ++ [(e, x)]). split.
      + eapply bd_cwalk_snoc; [exact Hw'|apply bd_cstep_sym; exact Hst].
      + rewrite sg_wedges_app, E. reflexivity.
  Qed.

  Lemma bd_clen_rev_edges p p' : wedges p' = rev (wedges p) -> clen P p' = clen P p.
  Proof.
    intros E. unfold clen. rewrite E. apply rf_weight_perm, Permutation_sym, Permutation_rev.
  Qed.

  (* reverse walk with the same length and the same NoDup status of the edge list *)
  Lemma bd_cwalk_rev_len x p z : cwalk P x p z ->
    exists p', cwalk P z p' x /\ clen P p' = clen P p /\ wedges p' = rev (wedges p).
  Proof.
    intros H. destruct (bd_cwalk_rev x p z H) as (p' & Hw & E). exists p'.
    split; [exact Hw|]. split; [apply bd_clen_rev_edges; exact E|exact E].
  Qed.

  (* induction from the end of a walk *)
  Lemma bd_cwalk_snoc_ind (s : nat) (Q : list (nat * nat) -> nat -> Prop) :
    ((s < 2 * n)%nat -> Q [] s) ->
    (forall p y e z, cwalk P s p y -> Q p y -> cstep P y e z -> Q (p ++ [(e, z)]) z) ->
    forall p x, cwalk P s p x -> Q p x.
  Proof.
    intros H0 Hstep p. induction p as [|[e v] p IH] using rev_ind; intros x Hw.
    - inversion Hw; subst. apply H0. assumption.
    - apply bd_cwalk_snoc_inv in Hw as (-> & y & Hw & Hst).
      eapply Hstep; [exact Hw|apply IH; exact Hw|exact Hst].
  Qed.

End Cover.

(* ---- arrays ----------------------------------------------------------------------------------------- *)

Lemma bd_nth_set_nth_eq {A} (l : list A) i x d : (i < length l)%nat -> nth i (set_nth l i x) d = x.
Proof. intros Hi. rewrite hnth_set_nth by exact Hi. rewrite Nat.eqb_refl. reflexivity. Qed.

Lemma bd_nth_set_nth_neq {A} (l : list A) i j x d : j <> i -> nth j (set_nth l i x) d = nth j l d.
Proof.
  intros Hne. destruct (sg_nth_set_nth_cases l i x j d) as [E|[E _]]; [exact E|contradiction].
Qed.

Lemma bd_nth_none_length {A} (l : list (option A)) u a : nth u l None = Some a -> (u < length l)%nat.
Proof.
  intros H. destruct (Nat.lt_ge_cases u (length l)) as [Hl|Hl]; [exact Hl|].
  rewrite nth_overflow in H by exact Hl. discriminate.
Qed.

(* heap order only depends on the keys of the members *)
Lemma bd_heap_ok_ext (K : Type) (kltb : K -> K -> bool) (key key' : nat -> K) data :
  (forall x, In x data -> key' x = key x) -> heap_ok K kltb key data -> heap_ok K kltb key' data.
Proof.
  intros Hk [Hnd Ho]. split; [exact Hnd|]. intros i Hi.
  assert (Hp : (hparent i < length data)%nat).
  { assert (hparent i < i)%nat by (apply hparent_lt; lia). lia. }
  rewrite !Hk by (apply nth_In; lia). apply Ho. exact Hi.
Qed.

(* ---- one frontier ------------------------------------------------------------------------------------ *)

Definition fdist (fr : frontier Z) (u : nat) : option Z := fr_dist Z fr u.
Definition fpredv (fr : frontier Z) (u : nat) : option (nat * nat) := nth u (f_pred Z fr) None.
Definition has_entry (fr : frontier Z) (u : nat) : Prop := has_finite_dist Z fr u = true.
Definition settled (fr : frontier Z) (u : nat) : Prop := has_entry fr u /\ ~ In u (f_heap Z fr).

Lemma bd_has_entry_iff fr u : has_entry fr u <-> u = f_src Z fr \/ exists pe, fpredv fr u = Some pe.
Proof.
  unfold has_entry, has_finite_dist, fpredv. rewrite orb_true_iff, Nat.eqb_eq.
  destruct (nth u (f_pred Z fr) None) as [pe|]; split; intros [H|H]; auto.
  - right. exists pe; reflexivity.
  - discriminate.
  - destruct H as [pe H]; discriminate.
Qed.

Lemma bd_has_entry_dec fr u : {has_entry fr u} + {~ has_entry fr u}.
Proof. unfold has_entry. destruct (has_finite_dist Z fr u); [left; reflexivity|right; discriminate]. Qed.

Lemma bd_settled_dec fr u : {settled fr u} + {~ settled fr u}.
Proof.
  unfold settled. destruct (bd_has_entry_dec fr u) as [H|H]; [|right; tauto].
  destruct (in_dec Nat.eq_dec u (f_heap Z fr)) as [Hi|Hi]; [right; tauto|left; tauto].
Qed.

Section Frontier.
  Variable P : sparams Z.
  Local Notation g := (sp_g Z P).
  Local Notation n := (nv (sp_g Z P)).
  Local Notation wts := (sp_wts Z P).
  Hypothesis Hs : simple_graph g.
  Hypothesis Hpw : positive_weights g wts.

  (* The invariant of a frontier with source s.  `done u e` = the edge e out of the settled vertex u has
     been scanned (at the head of the loop every edge of every settled vertex has been). *)
  Record finv (done : nat -> nat -> Prop) (s : nat) (fr : frontier Z) : Prop := {
    fi_src : f_src Z fr = s;
    fi_slt : (s < 2 * n)%nat;
    fi_ldist : length (f_dist Z fr) = (2 * n)%nat;
    fi_lpred : length (f_pred Z fr) = (2 * n)%nat;
    fi_spred : fpredv fr s = None;
    fi_sdist : fdist fr s = Some 0;
    (* a predecessor entry: a cover step from a settled vertex, carrying the tentative distance *)
    fi_pred : forall u p e, fpredv fr u = Some (p, e) ->
                u <> s /\ cstep P p e u /\ settled fr p
                /\ exists dp, fdist fr p = Some dp /\ fdist fr u = Some (dp + wt wts e)
                              /\ blim P (dp + wt wts e);
    fi_nopred : forall u, u <> s -> fpredv fr u = None -> fdist fr u = None;
    fi_heap : heap_ok (option Z) (klt Z Z.ltb) (fkey Z (f_dist Z fr)) (f_heap Z fr);
    fi_heap_entry : forall u, In u (f_heap Z fr) -> has_entry fr u;
    (* settled vertices carry their final distance *)
    fi_settled : forall u, settled fr u -> exists d, fdist fr u = Some d /\ cdist P s u d;
    (* scanned edges have relaxed their targets *)
    fi_scanned : forall u e v du, settled fr u -> done u e -> cstep P u e v -> fdist fr u = Some du ->
                   blim P (du + wt wts e) -> exists dv, fdist fr v = Some dv /\ dv <= du + wt wts e;
    (* monotone pops *)
    fi_mono : forall u v du dv, settled fr u -> In v (f_heap Z fr) -> fdist fr u = Some du ->
                fdist fr v = Some dv -> du <= dv
  }.

  Lemma bd_finv_done_weaken (done done' : nat -> nat -> Prop) s fr :
    (forall u e v, cstep P u e v -> done' u e -> done u e) -> finv done s fr -> finv done' s fr.
  Proof.
    intros Hd H. destruct H. constructor; try assumption.
    intros u e v du Hu Hdn Hst. eapply fi_scanned0; [exact Hu|eapply Hd; eassumption|exact Hst].
  Qed.

  Lemma bd_entry_lt done s fr u : finv done s fr -> has_entry fr u -> (u < 2 * n)%nat.
  Proof.
    intros H He. apply bd_has_entry_iff in He as [->|[pe E]].
    - rewrite (fi_src _ _ _ H). exact (fi_slt _ _ _ H).
    - rewrite <- (fi_lpred _ _ _ H). eapply bd_nth_none_length. exact E.
  Qed.

  (* every entry has a distance, and a cover walk of that length from the source *)
  Lemma bd_entry_dist done s fr u : finv done s fr -> has_entry fr u ->
    exists d, fdist fr u = Some d /\ exists p, cwalk P s p u /\ clen P p = d.
  Proof.
    intros H He. apply bd_has_entry_iff in He as [->|[[p e] E]].
    - rewrite (fi_src _ _ _ H). exists 0. split; [exact (fi_sdist _ _ _ H)|].
      exists []. split; [constructor; exact (fi_slt _ _ _ H)|reflexivity].
    - destruct (fi_pred _ _ _ H u p e E) as (_ & Hst & Hp & dp & Edp & Edu & _).
      exists (dp + wt wts e). split; [exact Edu|].
      destruct (fi_settled _ _ _ H p Hp) as (d & Ed & (q & Hq & Elq) & _).
      assert (Hddp : d = dp) by congruence.
      exists (q ++ [(e, u)]). split; [eapply bd_cwalk_snoc; eassumption|].
      rewrite bd_clen_app, Elq. rewrite bd_clen_cons, bd_clen_nil. lia.
  Qed.

  Lemma bd_entry_nonneg done s fr u d : finv done s fr -> fdist fr u = Some d -> 0 <= d.
  Proof.
    intros H E.
    destruct (bd_has_entry_dec fr u) as [He|He].
    - destruct (bd_entry_dist done s fr u H He) as (d' & E' & p & _ & <-).
      assert (d = clen P p) by congruence. subst d. apply bd_clen_nonneg. exact Hpw.
    - exfalso. assert (Hne : u <> s).
      { intros ->. apply He. apply bd_has_entry_iff. left. symmetry. exact (fi_src _ _ _ H). }
      assert (Hp : fpredv fr u = None).
      { destruct (fpredv fr u) as [pe|] eqn:Ep; [|reflexivity]. exfalso. apply He.
        apply bd_has_entry_iff. right. exists pe. exact Ep. }
      rewrite (fi_nopred _ _ _ H u Hne Hp) in E. discriminate.
  Qed.

  (* an entry other than the source is below the limit *)
  Lemma bd_entry_blim done s fr u d : finv done s fr -> has_entry fr u -> u <> s ->
    fdist fr u = Some d -> blim P d.
  Proof.
    intros H He Hne E. apply bd_has_entry_iff in He as [->|[[p e] Ep]].
    - exfalso. apply Hne. exact (fi_src _ _ _ H).
    - destruct (fi_pred _ _ _ H u p e Ep) as (_ & _ & _ & dp & _ & Edu & Hb).
      assert (d = dp + wt wts e) by congruence. subst d. exact Hb.
  Qed.

  (* an entry is settled or in the heap *)
  Lemma bd_entry_cases fr u : has_entry fr u -> settled fr u \/ In u (f_heap Z fr).
  Proof.
    intros He. destruct (in_dec Nat.eq_dec u (f_heap Z fr)) as [Hi|Hi]; [right; exact Hi|].
    left. split; assumption.
  Qed.

  (* ---- the initial frontier -------------------------------------------------------------------- *)

  Lemma bd_nth_map_none {A B} (l : list A) u : nth u (map (fun _ => @None B) l) None = None.
  Proof. apply sg_nth_map_none. Qed.

  Lemma bd_fr_init_finv s : (s < 2 * n)%nat -> finv (fun _ _ => True) s (fr_init Z 0 n s).
  Proof.
    intros Hslt.
    assert (Hl : length (map (fun _ => @None Z) (seq 0 (2 * n))) = (2 * n)%nat)
      by (rewrite map_length, seq_length; reflexivity).
    assert (Hnoent : forall u, has_entry (fr_init Z 0 n s) u -> u = s).
    { intros u He. apply bd_has_entry_iff in He as [->|[pe E]]; [reflexivity|].
      unfold fpredv, fr_init in E. cbn [f_pred] in E. rewrite sg_nth_map_none in E. discriminate. }
    assert (Hnoset : forall u, ~ settled (fr_init Z 0 n s) u).
    { intros u [He Hn]. apply Hnoent in He. subst u. apply Hn. cbn [fr_init f_heap]. left; reflexivity. }
    constructor.
    - reflexivity.
    - exact Hslt.
    - cbn [fr_init f_dist]. rewrite hset_nth_length. exact Hl.
    - cbn [fr_init f_pred]. rewrite map_length, seq_length. reflexivity.
    - unfold fpredv. cbn [fr_init f_pred]. apply sg_nth_map_none.
    - unfold fdist, fr_dist. cbn [fr_init f_dist]. apply bd_nth_set_nth_eq. rewrite Hl. exact Hslt.
    - intros u p e E. unfold fpredv in E. cbn [fr_init f_pred] in E. rewrite sg_nth_map_none in E.
      discriminate.
    - intros u Hne _. unfold fdist, fr_dist. cbn [fr_init f_dist].
      rewrite bd_nth_set_nth_neq by exact Hne. apply sg_nth_map_none.
    - cbn [fr_init f_heap]. split; [repeat constructor; intros []|].
      intros i Hi. cbn [length] in Hi. lia.
    - intros u [->|[]]. apply bd_has_entry_iff. left; reflexivity.
    - intros u Hu. exfalso. eapply Hnoset; exact Hu.
    - intros u e v du Hu. exfalso. eapply Hnoset; exact Hu.
    - intros u v du dv Hu. exfalso. eapply Hnoset; exact Hu.
  Qed.

  (* ---- the lower-bound lemma ------------------------------------------------------------------- *)

  Lemma bd_lower_bound s fr : finv (fun _ _ => True) s fr ->
    forall p x, cwalk P s p x ->
      (settled fr x /\ exists d, fdist fr x = Some d /\ d <= clen P p)
      \/ (exists v dv, In v (f_heap Z fr) /\ fdist fr v = Some dv /\ dv <= clen P p)
      \/ ~ blim P (clen P p).
  Proof.
    intros H. apply (bd_cwalk_snoc_ind P s
      (fun p x => (settled fr x /\ exists d, fdist fr x = Some d /\ d <= clen P p)
         \/ (exists v dv, In v (f_heap Z fr) /\ fdist fr v = Some dv /\ dv <= clen P p)
         \/ ~ blim P (clen P p))).
    - intros _. assert (He : has_entry fr s).
      { apply bd_has_entry_iff. left. symmetry. exact (fi_src _ _ _ H). }
      destruct (bd_entry_cases fr s He) as [Hset|Hin].
      + left. split; [exact Hset|]. exists 0. split; [exact (fi_sdist _ _ _ H)|]. rewrite bd_clen_nil. lia.
      + right; left. exists s, 0. split; [exact Hin|]. split; [exact (fi_sdist _ _ _ H)|].
        rewrite bd_clen_nil. lia.
    - intros p y e z Hw IH Hst.
      assert (Hwe : 0 < wt wts e) by (eapply bd_cstep_wt_pos; eassumption).
      rewrite bd_clen_app, bd_clen_cons, bd_clen_nil.
      destruct IH as [[Hy (dy & Edy & Hle)]|[(v & dv & Hv & Edv & Hle)|Hnb]].
      + destruct (bd_blim_dec P (dy + wt wts e)) as [Hb|Hb].
        * destruct (fi_scanned _ _ _ H y e z dy Hy I Hst Edy Hb) as (dz & Edz & Hdz).
          assert (Hez : has_entry fr z).
          { destruct (bd_has_entry_dec fr z) as [Hez|Hez]; [exact Hez|]. exfalso.
            assert (Hne : z <> s).
            { intros ->. apply Hez. apply bd_has_entry_iff. left. symmetry. exact (fi_src _ _ _ H). }
            assert (Hp : fpredv fr z = None).
            { destruct (fpredv fr z) as [pe|] eqn:Ep; [|reflexivity]. exfalso. apply Hez.
              apply bd_has_entry_iff. right. exists pe. exact Ep. }
            rewrite (fi_nopred _ _ _ H z Hne Hp) in Edz. discriminate. }
          destruct (bd_entry_cases fr z Hez) as [Hzs|Hzh].
          -- left. split; [exact Hzs|]. exists dz. split; [exact Edz|lia].
          -- right; left. exists z, dz. split; [exact Hzh|]. split; [exact Edz|lia].
        * right; right. intros Hb'. apply Hb. eapply bd_blim_mono; [exact Hb'|lia].
      + right; left. exists v, dv. split; [exact Hv|]. split; [exact Edv|lia].
      + right; right. intros Hb'. apply Hnb. eapply bd_blim_mono; [exact Hb'|lia].
  Qed.

End Frontier.
