(* FloatSumProofs.v — rounding-error analysis of recursive (left-to-right) summation of non-negative binary64 numbers
   (property C09, the clause "returns the sum of its cycle weights ... up to rounding").  Prefix fs_.

   Coq's primitive floats are tied to Flocq's binary64 by Flocq.IEEE754.PrimFloat (Prim2B, add_equiv: PrimFloat.add IS
   Flocq's Bplus mode_NE); the real value of a double x is  FR x := B2R (Prim2B x)  (0 for infinities and NaN).
     fs_add            one addition of two finite doubles that does not overflow: finite, and
                       FR (a + b) = (FR a + FR b)(1 + eps), |eps| <= u = 2^-53 — no absolute term: a sum of two doubles
                       that lands in the subnormal range is exact (Flocq FLT_plus_error_N_ex)
     fs_add_zero_l     +0.0 + w has the real value of w
     fs_fold_acc       fold_left add ws a, all finite and >= 0, (1+u)^n (a + sum ws) < 2^1024:  finite, >= 0 and
                       |result - (a + sum ws)| <= ((1+u)^n - 1)(a + sum ws),  n = length ws
     fs_sum            the same from +0.0 with n - 1 roundings
     fs_outer / fs_two_level
                       a sum of sums: every item is the left-to-right sum (from +0.0, or from its first term) of the
                       values f e over a permutation of the edges e of a cycle, the result is the left-to-right sum of
                       the items from +0.0:  |result - exact| <= ((1+u)^(k-1 + N-1) - 1) exact, k = number of cycles,
                       N = any bound on the cycle lengths
     fs_pow_bound / fs_pow_le_inv / fs_pow_1e9
                       (1+u)^n (1 - n u) <= 1;  (1+u)^n <= 1/(1-t) for n u <= t < 1;  (1+u)^n - 1 <= 1e-9 for n <= 2^23.
   Axioms: those of Coq's Reals (ClassicalDedekindReals.sig_forall_dec, sig_not_dec, functional_extensionality_dep,
   Classical_Prop.classic as used by Flocq) and Coq's FloatAxioms specification of the primitive float operations
   (add_spec etc., used by Flocq.IEEE754.PrimFloat); none is declared here. *)
From Coq Require Import Reals ZArith Floats List Lia Lra Psatz Permutation.
From Flocq Require Import Core BinarySingleNaN PrimFloat Plus_error Relative.
Import ListNotations.
Local Open Scope R_scope.

Definition FR (x : PrimFloat.float) : R := B2R (Prim2B x).
Definition ffin (x : PrimFloat.float) : Prop := PrimFloat.is_finite x = true.
Definition fnn (x : PrimFloat.float) : Prop := ffin x /\ 0 <= FR x.
Definition f64_u : R := / 2 ^ 53.
Definition f64_max : R := 2 ^ 1024.
Definition rsum (l : list R) : R := fold_right Rplus 0 l.

Lemma fs_u_ro : u_ro radix2 53 = f64_u.
Proof.
  unfold u_ro, f64_u. rewrite bpow_powerRZ. change (- (53) + 1)%Z with (-52)%Z.
  cbn [powerRZ IZR IPR IPR_2 radix_val radix2]. change (Pos.to_nat 52) with 52%nat.
  change (2^53) with (2 * 2^52). field.
Qed.

Lemma fs_bpow_emax : bpow radix2 1024 = f64_max.
Proof.
  unfold f64_max. rewrite bpow_powerRZ. cbn [powerRZ IZR IPR IPR_2 radix_val radix2].
  change (Pos.to_nat 1024) with 1024%nat. reflexivity.
Qed.

Lemma fs_u_pos : 0 < f64_u.
Proof. unfold f64_u. apply Rinv_0_lt_compat. apply pow_lt. lra. Qed.

Lemma fs_u_lt1 : f64_u < 1.
Proof.
  assert (H : 1 < 2 ^ 53) by (apply Rlt_pow_R1; [lra|lia]).
  unfold f64_u. apply (Rmult_lt_reg_l (2 ^ 53)); [lra|]. rewrite Rinv_r by lra. lra.
Qed.

Lemma fs_pow_ge1 n : 1 <= (1 + f64_u) ^ n.
Proof. apply pow_R1_Rle. pose proof fs_u_pos. lra. Qed.

Lemma fs_pow_mono a b : (a <= b)%nat -> (1 + f64_u) ^ a <= (1 + f64_u) ^ b.
Proof. intros H. apply Rle_pow; [pose proof fs_u_pos; lra|exact H]. Qed.

Lemma fs_ffin x : ffin x -> is_finite (Prim2B x) = true.
Proof. unfold ffin. rewrite is_finite_equiv. exact (fun H => H). Qed.

Lemma fs_add a b : ffin a -> ffin b -> Rabs (FR a + FR b) * (1 + f64_u) < f64_max ->
  ffin (a + b)%float /\ exists eps, Rabs eps <= f64_u /\ FR (a + b)%float = (FR a + FR b) * (1 + eps).
Proof.
  intros Fa Fb Hov. unfold ffin, FR in *. rewrite is_finite_equiv in *. rewrite add_equiv.
  pose proof (Bplus_correct prec emax Hprec Hmax mode_NE (Prim2B a) (Prim2B b) Fa Fb) as H.
  destruct (@FLT_plus_error_N_ex radix2 (3 - emax - prec) prec Hprec (fun x => negb (Z.even x))
              (B2R (Prim2B a)) (B2R (Prim2B b)) (generic_format_B2R _ _ _) (generic_format_B2R _ _ _))
    as (eps & He & Hr).
  assert (He' : Rabs eps <= f64_u).
  { eapply Rle_trans; [exact He|]. change prec with 53%Z. rewrite <- fs_u_ro. apply u_rod1pu_ro_le_u_ro. }
  change (round_mode mode_NE) with (Znearest (fun x => negb (Z.even x))) in H.
  change (fexp prec emax) with (FLT_exp (3 - emax - prec) prec) in H.
  rewrite Hr in H. rewrite Rlt_bool_true in H.
  - destruct H as (H1 & H2 & _). split; [exact H2|]. exists eps. split; [exact He'|exact H1].
  - change emax with 1024%Z. rewrite fs_bpow_emax. eapply Rle_lt_trans; [|exact Hov].
    rewrite Rabs_mult. apply Rmult_le_compat_l; [apply Rabs_pos|].
    eapply Rle_trans; [apply Rabs_triang|]. rewrite Rabs_R1. lra.
Qed.

Lemma fs_FR_zero : FR PrimFloat.zero = 0.
Proof. unfold FR. rewrite zero_equiv, Prim2B_B2Prim. reflexivity. Qed.

Lemma fs_ffin_zero : ffin PrimFloat.zero.
Proof. reflexivity. Qed.

Lemma fs_fnn_zero : fnn PrimFloat.zero.
Proof. split; [exact fs_ffin_zero|rewrite fs_FR_zero; lra]. Qed.

(* +0.0 + w has the real value of w *)
Lemma fs_add_zero_l w : ffin w -> ffin (PrimFloat.zero + w)%float /\ FR (PrimFloat.zero + w)%float = FR w.
Proof.
  intros Fw. pose proof fs_ffin_zero as F0. unfold ffin, FR in *. rewrite is_finite_equiv in *. rewrite add_equiv.
  pose proof (Bplus_correct prec emax Hprec Hmax mode_NE (Prim2B PrimFloat.zero) (Prim2B w) F0 Fw) as H.
  fold (FR PrimFloat.zero) in H. rewrite fs_FR_zero, Rplus_0_l in H.
  rewrite round_generic in H; [|apply valid_rnd_round_mode|apply generic_format_B2R].
  rewrite Rlt_bool_true in H; [|apply abs_B2R_lt_emax].
  destruct H as (H1 & H2 & _). split; [exact H2|exact H1].
Qed.

Lemma fs_rsum_nonneg l : Forall (fun x => 0 <= x) l -> 0 <= rsum l.
Proof. induction 1 as [|x l Hx _ IH]; cbn [rsum fold_right]; [lra|fold (rsum l); lra]. Qed.

Lemma fs_fnn_FR ws : Forall fnn ws -> Forall (fun x => 0 <= x) (map FR ws).
Proof. induction 1 as [|x l [_ Hx] _ IH]; cbn [map]; constructor; assumption. Qed.

(* recursive summation from an accumulator *)
Lemma fs_fold_acc : forall ws a, fnn a -> Forall fnn ws ->
  (1 + f64_u) ^ length ws * (FR a + rsum (map FR ws)) < f64_max ->
  fnn (fold_left PrimFloat.add ws a)
  /\ Rabs (FR (fold_left PrimFloat.add ws a) - (FR a + rsum (map FR ws)))
     <= ((1 + f64_u) ^ length ws - 1) * (FR a + rsum (map FR ws)).
Proof.
  induction ws as [|w ws IH]; intros a Ha Hws Hov.
  - cbn [fold_left map rsum fold_right length pow]. split; [exact Ha|].
    replace (FR a - (FR a + 0)) with 0 by ring. rewrite Rabs_R0. lra.
  - inversion Hws as [|? ? Hw Hws']; subst. cbn [fold_left map rsum fold_right length] in *. fold (rsum (map FR ws)) in *.
    pose proof (fs_rsum_nonneg _ (fs_fnn_FR _ Hws')) as HS.
    destruct Ha as [Fa Pa]. destruct Hw as [Fw Pw].
    pose proof fs_u_pos as Hu. pose proof fs_u_lt1 as Hu1.
    pose proof (fs_pow_ge1 (length ws)) as Hp.
    set (X := FR a) in *. set (Y := FR w) in *. set (Sg := rsum (map FR ws)) in *.
    set (p := (1 + f64_u) ^ length ws) in *.
    change ((1 + f64_u) ^ S (length ws)) with ((1 + f64_u) * p) in *.
    assert (Hq : 0 <= (p - 1) * (X + Y + Sg)) by (apply Rmult_le_pos; lra).
    assert (H0 : X + Y <= p * (X + Y + Sg)) by lra.
    assert (Hov1 : Rabs (X + Y) * (1 + f64_u) < f64_max).
    { rewrite Rabs_pos_eq by lra. eapply Rle_lt_trans; [|exact Hov].
      rewrite Rmult_assoc, (Rmult_comm (X + Y)). apply Rmult_le_compat_l; lra. }
    destruct (fs_add a w Fa Fw Hov1) as (Fs & eps & He & Hs).
    apply Rabs_le_inv in He. fold X Y in Hs.
    set (A := FR (a + w)%float) in *.
    assert (HA0 : 0 <= A) by (rewrite Hs; apply Rmult_le_pos; lra).
    assert (HA1 : A <= (1 + f64_u) * (X + Y)).
    { rewrite Hs, (Rmult_comm (1 + f64_u)). apply Rmult_le_compat_l; lra. }
    assert (HA2 : (1 - f64_u) * (X + Y) <= A).
    { rewrite Hs, (Rmult_comm (1 - f64_u)). apply Rmult_le_compat_l; lra. }
    destruct (IH (a + w)%float (conj Fs HA0) Hws') as (Hf & Hb).
    { fold A. fold Sg. fold p. eapply Rle_lt_trans; [|exact Hov].
      rewrite (Rmult_comm (1 + f64_u)), Rmult_assoc. apply Rmult_le_compat_l; [lra|].
      assert (0 <= f64_u * Sg) by (apply Rmult_le_pos; lra). lra. }
    split; [exact Hf|]. fold A Sg p in Hb. apply Rabs_le_inv in Hb. apply Rabs_le.
    set (R := FR (fold_left PrimFloat.add ws (a + w)%float)) in *.
    assert (H1 : (p - 1) * A <= (p - 1) * ((1 + f64_u) * (X + Y))) by (apply Rmult_le_compat_l; lra).
    assert (H2 : 0 <= (p - 1) * Sg) by (apply Rmult_le_pos; lra).
    assert (H3 : 0 <= p * f64_u * Sg) by (apply Rmult_le_pos; [apply Rmult_le_pos|]; lra).
    split; lra.
Qed.

(* recursive summation from +0.0: the first addition is exact, n-1 roundings *)
Lemma fs_sum ws : Forall fnn ws ->
  (1 + f64_u) ^ Nat.pred (length ws) * rsum (map FR ws) < f64_max ->
  fnn (fold_left PrimFloat.add ws PrimFloat.zero)
  /\ Rabs (FR (fold_left PrimFloat.add ws PrimFloat.zero) - rsum (map FR ws))
     <= ((1 + f64_u) ^ Nat.pred (length ws) - 1) * rsum (map FR ws).
Proof.
  intros Hws Hov. destruct ws as [|w ws].
  - cbn [fold_left length Nat.pred map rsum fold_right pow]. split; [exact fs_fnn_zero|].
    rewrite fs_FR_zero. replace (0 - 0) with 0 by ring. rewrite Rabs_R0. lra.
  - inversion Hws as [|? ? [Fw Pw] Hws']; subst. cbn [fold_left length Nat.pred map rsum fold_right] in *.
    fold (rsum (map FR ws)) in *.
    destruct (fs_add_zero_l w Fw) as (F0 & E0).
    assert (Hn : fnn (PrimFloat.zero + w)%float) by (split; [exact F0|rewrite E0; exact Pw]).
    pose proof (fs_fold_acc ws (PrimFloat.zero + w)%float Hn Hws') as H. rewrite E0 in H. exact (H Hov).
Qed.

(* ---- two levels: per-item sums, then the sum of the items ------------------------------------------------- *)

(* w approximates the exact non-negative real E with relative error q - 1 *)
Definition fs_item (q : R) (E : R) (w : PrimFloat.float) : Prop :=
  fnn w /\ 0 <= E /\ Rabs (FR w - E) <= (q - 1) * E.

Lemma fs_items_sum q Es ws : 1 <= q -> Forall2 (fs_item q) Es ws ->
  Forall fnn ws /\ 0 <= rsum Es /\ Rabs (rsum (map FR ws) - rsum Es) <= (q - 1) * rsum Es.
Proof.
  intros Hq. induction 1 as [|E w Es ws (Hw & HE & Hb) _ (IH1 & IH2 & IH3)]; cbn [map rsum fold_right].
  - split; [constructor|]. split; [lra|]. replace (0 - 0) with 0 by ring. rewrite Rabs_R0. lra.
  - fold (rsum Es) (rsum (map FR ws)). split; [constructor; assumption|]. split; [lra|].
    replace (FR w + rsum (map FR ws) - (E + rsum Es)) with ((FR w - E) + (rsum (map FR ws) - rsum Es)) by ring.
    eapply Rle_trans; [apply Rabs_triang|]. lra.
Qed.

Lemma fs_outer q Es ws : 1 <= q -> Forall2 (fs_item q) Es ws ->
  (1 + f64_u) ^ Nat.pred (length ws) * q * rsum Es < f64_max ->
  fnn (fold_left PrimFloat.add ws PrimFloat.zero)
  /\ Rabs (FR (fold_left PrimFloat.add ws PrimFloat.zero) - rsum Es)
     <= ((1 + f64_u) ^ Nat.pred (length ws) * q - 1) * rsum Es.
Proof.
  intros Hq HF Hov. destruct (fs_items_sum q Es ws Hq HF) as (Hws & HE & Hb).
  pose proof (fs_pow_ge1 (Nat.pred (length ws))) as Hp.
  set (P := (1 + f64_u) ^ Nat.pred (length ws)) in *. set (E := rsum Es) in *. set (C := rsum (map FR ws)) in *.
  apply Rabs_le_inv in Hb.
  assert (HC : C <= q * E) by lra.
  assert (HC0 : 0 <= C) by (apply fs_rsum_nonneg, fs_fnn_FR; exact Hws).
  destruct (fs_sum ws Hws) as (Hf & Hs).
  { fold P C. eapply Rle_lt_trans; [|exact Hov]. rewrite Rmult_assoc. apply Rmult_le_compat_l; lra. }
  split; [exact Hf|]. fold P C in Hs. apply Rabs_le_inv in Hs. apply Rabs_le.
  assert (H1 : (P - 1) * C <= (P - 1) * (q * E)) by (apply Rmult_le_compat_l; lra).
  split; lra.
Qed.

(* ---- a cycle's weight: left-to-right sum of f over a permutation of the cycle's edges --------------------- *)

Lemma fs_Forall2_length {A B} (P : A -> B -> Prop) l l' : Forall2 P l l' -> length l = length l'.
Proof. induction 1 as [|? ? ? ? _ _ IH]; cbn [length]; [reflexivity|rewrite IH; reflexivity]. Qed.

Lemma fs_rsum_perm l l' : Permutation l l' -> rsum l = rsum l'.
Proof. induction 1; cbn [rsum fold_right]; try fold (rsum l) (rsum l'); lra. Qed.

Lemma fs_rsum_In l x : Forall (fun y => 0 <= y) l -> In x l -> x <= rsum l.
Proof.
  induction 1 as [|y l Hy Hl IH]; intros Hin; [destruct Hin|]. cbn [rsum fold_right]. fold (rsum l).
  pose proof (fs_rsum_nonneg l Hl). destruct Hin as [<-|Hin]; [lra|]. specialize (IH Hin). lra.
Qed.

Section Cycle.
  Variable f : nat -> PrimFloat.float.
  Hypothesis Hf : forall e, fnn (f e).

  Definition fs_exact (c : list nat) : R := rsum (map (fun e => FR (f e)) c).
  Definition fs_exact_all (cs : list (list nat)) : R := rsum (map fs_exact cs).

  (* from +0.0 over all the edges (signed variants), or from the first edge's weight over the others (trees) *)
  Definition fs_cycle_sum (c : list nat) (w : PrimFloat.float) : Prop :=
    (exists l, Permutation l c /\ w = fold_left PrimFloat.add (map f l) PrimFloat.zero)
    \/ (exists x l, Permutation (x :: l) c /\ w = fold_left PrimFloat.add (map f l) (f x)).

  Lemma fs_exact_nonneg c : 0 <= fs_exact c.
  Proof.
    unfold fs_exact. apply fs_rsum_nonneg. induction c as [|e c IH]; cbn [map]; constructor; [apply Hf|exact IH].
  Qed.

  Lemma fs_exact_perm l c : Permutation l c -> fs_exact l = fs_exact c.
  Proof. intros H. unfold fs_exact. apply fs_rsum_perm, Permutation_map, H. Qed.

  Lemma fs_map_fnn l : Forall fnn (map f l).
  Proof. induction l as [|e l IH]; cbn [map]; constructor; [apply Hf|exact IH]. Qed.

  Lemma fs_map_FR l : map FR (map f l) = map (fun e => FR (f e)) l.
  Proof. apply map_map. Qed.

  Lemma fs_cycle_item c w N : fs_cycle_sum c w -> (length c <= N)%nat ->
    (1 + f64_u) ^ Nat.pred N * fs_exact c < f64_max ->
    fs_item ((1 + f64_u) ^ Nat.pred N) (fs_exact c) w.
  Proof.
    intros Hc HN Hov. pose proof (fs_exact_nonneg c) as HE.
    assert (Hgen : forall n, (n <= Nat.pred N)%nat -> fnn w ->
                Rabs (FR w - fs_exact c) <= ((1 + f64_u) ^ n - 1) * fs_exact c ->
                fs_item ((1 + f64_u) ^ Nat.pred N) (fs_exact c) w).
    { intros n Hn Hw Hb. split; [exact Hw|]. split; [exact HE|]. eapply Rle_trans; [exact Hb|].
      apply Rmult_le_compat_r; [exact HE|]. pose proof (fs_pow_mono n (Nat.pred N) Hn). lra. }
    destruct Hc as [(l & Hp & ->)|(x & l & Hp & ->)].
    - pose proof (Permutation_length Hp) as Hl. rewrite <- (fs_exact_perm l c Hp) in *.
      assert (Hn : (Nat.pred (length (map f l)) <= Nat.pred N)%nat) by (rewrite map_length; lia).
      destruct (fs_sum (map f l) (fs_map_fnn l)) as (H1 & H2).
      { rewrite fs_map_FR. fold (fs_exact l). eapply Rle_lt_trans; [|exact Hov].
        apply Rmult_le_compat_r; [exact HE|]. apply fs_pow_mono. exact Hn. }
      rewrite fs_map_FR in H2. fold (fs_exact l) in H2. exact (Hgen _ Hn H1 H2).
    - pose proof (Permutation_length Hp) as Hl. rewrite <- (fs_exact_perm (x :: l) c Hp) in *.
      cbn [length] in Hl.
      assert (Hn : (length (map f l) <= Nat.pred N)%nat) by (rewrite map_length; lia).
      unfold fs_exact in *. cbn [map rsum fold_right] in *. fold (rsum (map (fun e => FR (f e)) l)) in *.
      destruct (fs_fold_acc (map f l) (f x) (Hf x) (fs_map_fnn l)) as (H1 & H2).
      { rewrite fs_map_FR. eapply Rle_lt_trans; [|exact Hov].
        apply Rmult_le_compat_r; [exact HE|]. apply fs_pow_mono. exact Hn. }
      rewrite fs_map_FR in H2. exact (Hgen _ Hn H1 H2).
  Qed.

  Lemma fs_exact_all_nonneg cs : 0 <= fs_exact_all cs.
  Proof.
    unfold fs_exact_all. apply fs_rsum_nonneg. induction cs as [|c cs IH]; cbn [map]; constructor;
      [apply fs_exact_nonneg|exact IH].
  Qed.

  Lemma fs_exact_le_all cs c : In c cs -> fs_exact c <= fs_exact_all cs.
  Proof.
    intros Hin. unfold fs_exact_all. apply fs_rsum_In; [|apply in_map; exact Hin].
    clear Hin. induction cs as [|c' cs IH]; cbn [map]; constructor; [apply fs_exact_nonneg|exact IH].
  Qed.

  Lemma fs_items N K E0 cycles ws :
    Forall2 fs_cycle_sum cycles ws -> Forall (fun c => (length c <= N)%nat) cycles ->
    (Nat.pred N <= K)%nat -> (forall c, In c cycles -> fs_exact c <= E0) -> (1 + f64_u) ^ K * E0 < f64_max ->
    Forall2 (fs_item ((1 + f64_u) ^ Nat.pred N)) (map fs_exact cycles) ws.
  Proof.
    intros HF HN HK Hin Hov.
    induction HF as [|c w cs ws' Hc HF IH]; cbn [map]; constructor.
    - inversion HN as [|? ? HcN HN']; subst. apply fs_cycle_item; [exact Hc|exact HcN|].
      eapply Rle_lt_trans; [|exact Hov].
      pose proof (fs_exact_nonneg c). pose proof (Hin c (or_introl eq_refl)).
      pose proof (fs_pow_mono (Nat.pred N) K HK).
      pose proof (fs_pow_ge1 (Nat.pred N)).
      eapply Rle_trans; [apply Rmult_le_compat_l; [lra|eassumption]|]. apply Rmult_le_compat_r; lra.
    - inversion HN; subst. apply IH; [assumption|]. intros c' Hc'. apply Hin. right. exact Hc'.
  Qed.

  (* the returned value: left-to-right sum, from +0.0, of the per-cycle weights *)
  Theorem fs_two_level cycles ws N :
    Forall2 fs_cycle_sum cycles ws -> Forall (fun c => (length c <= N)%nat) cycles ->
    (1 + f64_u) ^ (Nat.pred (length cycles) + Nat.pred N) * fs_exact_all cycles < f64_max ->
    fnn (fold_left PrimFloat.add ws PrimFloat.zero)
    /\ Rabs (FR (fold_left PrimFloat.add ws PrimFloat.zero) - fs_exact_all cycles)
       <= ((1 + f64_u) ^ (Nat.pred (length cycles) + Nat.pred N) - 1) * fs_exact_all cycles.
  Proof.
    intros HF HN Hov. pose proof (fs_exact_all_nonneg cycles) as HE.
    assert (HK : (Nat.pred N <= Nat.pred (length cycles) + Nat.pred N)%nat) by lia.
    pose proof (fs_items N _ _ cycles ws HF HN HK (fs_exact_le_all cycles) Hov) as Hit.
    pose proof (fs_Forall2_length _ _ _ HF) as Hlen.
    destruct (fs_outer _ _ _ (fs_pow_ge1 (Nat.pred N)) Hit) as (H1 & H2).
    { rewrite <- Hlen, <- pow_add. exact Hov. }
    split; [exact H1|]. rewrite <- Hlen, <- pow_add in H2. exact H2.
  Qed.
End Cycle.

(* ---- (1+u)^n ------------------------------------------------------------------------------------------------ *)

Lemma fs_pow_bound n : (1 + f64_u) ^ n * (1 - INR n * f64_u) <= 1.
Proof.
  pose proof fs_u_pos as Hu. induction n as [|n IH]; [cbn [pow INR]; lra|].
  rewrite S_INR. cbn [pow]. pose proof (fs_pow_ge1 n) as Hp. set (p := (1 + f64_u) ^ n) in *.
  pose proof (pos_INR n) as Hn. set (x := INR n) in *.
  assert (H : (1 + f64_u) * (1 - (x + 1) * f64_u) <= 1 - x * f64_u).
  { assert (0 <= (x + 1) * (f64_u * f64_u)) by (apply Rmult_le_pos; [lra|apply Rmult_le_pos; lra]). lra. }
  assert (H2 : p * ((1 + f64_u) * (1 - (x + 1) * f64_u)) <= p * (1 - x * f64_u)) by (apply Rmult_le_compat_l; lra).
  lra.
Qed.

Lemma fs_pow_le_inv n t : INR n * f64_u <= t -> t < 1 -> (1 + f64_u) ^ n <= / (1 - t).
Proof.
  intros H1 H2. pose proof (fs_pow_bound n) as Hb. pose proof (fs_pow_ge1 n) as Hp.
  apply (Rmult_le_reg_r (1 - t)); [lra|]. rewrite Rinv_l by lra.
  eapply Rle_trans; [|exact Hb]. apply Rmult_le_compat_l; lra.
Qed.

Lemma fs_two23_u : 2 ^ 23 * f64_u = / 2 ^ 30.
Proof. unfold f64_u. change 53%nat with (23 + 30)%nat. rewrite pow_add. field; repeat split; apply pow_nonzero; lra. Qed.

Lemma fs_pow_1e9 n : INR n <= 2 ^ 23 -> (1 + f64_u) ^ n - 1 <= / 10 ^ 9.
Proof.
  intros Hn. pose proof fs_u_pos as Hu.
  assert (Ht : INR n * f64_u <= / 2 ^ 30) by (rewrite <- fs_two23_u; apply Rmult_le_compat_r; lra).
  assert (H30 : / 2 ^ 30 < 1) by lra.
  pose proof (fs_pow_le_inv n _ Ht H30) as H. eapply Rle_trans; [apply Rplus_le_compat_r; exact H|]. lra.
Qed.
