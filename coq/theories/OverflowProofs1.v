(* OverflowProofs1.v — C07, clause "overflows a signed integer", part 1: the combinatorial bounds.
     wsum g wts          S = the sum of all edge weights of g
     ov_weight_nodup_le  a duplicate-free list of edge ids weighs at most S
     ov_weight_pairs_le  a duplicate-free list of (edge id, bit) pairs weighs at most 2S
     ckey / csteps       every step of the cover graph (BidirSpec.v) gets the key (edge, sign of the copy of the
                         smaller endpoint); two steps with the same key have the same two end points
     ov_simple_le_2S     a cover walk that repeats no cover vertex has length <= 2S
     ov_shortcut         every cover walk contains a vertex-simple one with the same ends, not longer
     ov_cdist_bounds     a cover distance lies in [0, 2S]; ov_cdist_simple: it is attained by a vertex-simple walk
     ov_two_paths        two vertex-simple cover walks such that no step of the first starts in a vertex touched
                         by the second have total length <= 2S
   No axioms. *)
From Coq Require Import List Arith Bool ZArith Lia Permutation.
From Parmcb Require Import GraphModel GF2Model GF2Proofs GraphSpec GraphLemmas McbSpec ForestModel
     HeapModel HeapSpec HeapProofs SvaModel SvaSpec SignedModel SignedZModel SignedProofs RefProofs1
     BidirSpec BidirProofs1.
Import ListNotations.

Local Open Scope Z_scope.

(* S: the sum of all edge weights *)
Definition wsum (g : graph) (wts : list Z) : Z := weight wts (seq 0 (ne g)).

(* ---- sums over duplicate-free lists ------------------------------------------------------------------ *)

Lemma ov_weight_incl_le g wts : positive_weights g wts ->
  forall l L, NoDup l -> incl l L -> weight wts l <= weight wts L.
Proof.
  intros Hpw. induction l as [|e l IH]; intros L Hnd Hincl.
  - change (weight wts []) with 0. eapply rf_weight_nonneg; exact Hpw.
  - inversion Hnd as [|? ? Hnin Hnd']; subst.
    assert (HeL : In e L) by (apply Hincl; left; reflexivity).
    apply in_split in HeL as (L1 & L2 & ->).
    assert (Hincl' : incl l (L1 ++ L2)).
    { intros x Hx. assert (Hx' : In x (L1 ++ e :: L2)) by (apply Hincl; right; exact Hx).
      apply in_app_iff in Hx' as [Hx'|[<-|Hx']]; [apply in_app_iff; left; exact Hx'|contradiction|
        apply in_app_iff; right; exact Hx']. }
    specialize (IH (L1 ++ L2) Hnd' Hincl').
    rewrite rf_weight_cons. rewrite rf_weight_app in *. rewrite rf_weight_cons. lia.
Qed.

Lemma ov_weight_nodup_le g wts l : positive_weights g wts -> NoDup l ->
  (forall e, In e l -> (e < ne g)%nat) -> weight wts l <= wsum g wts.
Proof.
  intros Hpw Hnd Hlt. apply (ov_weight_incl_le g wts Hpw); [exact Hnd|].
  intros e He. apply in_seq. specialize (Hlt e He). lia.
Qed.

Lemma ov_wsum_nonneg g wts : positive_weights g wts -> 0 <= wsum g wts.
Proof. intros H. eapply rf_weight_nonneg; exact H. Qed.

Lemma ov_wt_le_wsum g wts e : positive_weights g wts -> (e < ne g)%nat -> wt wts e <= wsum g wts.
Proof.
  intros Hpw He. pose proof (ov_weight_nodup_le g wts [e] Hpw) as H.
  rewrite rf_weight_cons in H. change (weight wts []) with 0 in H. rewrite Z.add_0_r in H. apply H.
  - constructor; [intros []|constructor].
  - intros x [<-|[]]. exact He.
Qed.

(* the edges of the pairs carrying the bit b *)
Definition pside (b : bool) (l : list (nat * bool)) : list nat :=
  map fst (filter (fun p => Bool.eqb (snd p) b) l).

Lemma ov_pside_in b l e : In e (pside b l) <-> In (e, b) l.
Proof.
  unfold pside. rewrite in_map_iff. split.
  - intros ([e' b'] & E & Hin). cbn [fst] in E. subst e'. apply filter_In in Hin as [Hin Hb].
    cbn [snd] in Hb. apply Bool.eqb_prop in Hb. subst b'. exact Hin.
  - intros Hin. exists (e, b). split; [reflexivity|]. apply filter_In. split; [exact Hin|].
    cbn [snd]. apply Bool.eqb_reflx.
Qed.

Lemma ov_pside_nodup b l : NoDup l -> NoDup (pside b l).
Proof.
  induction l as [|[e b'] l IH]; intros Hnd; [constructor|].
  inversion Hnd as [|? ? Hnin Hnd']; subst. unfold pside. cbn [filter snd].
  destruct (Bool.eqb b' b) eqn:Eb.
  - apply Bool.eqb_prop in Eb. subst b'. cbn [map fst]. constructor; [|apply IH; exact Hnd'].
    fold (pside b l). rewrite ov_pside_in. exact Hnin.
  - apply IH. exact Hnd'.
Qed.

Lemma ov_weight_psides wts l :
  weight wts (map fst l) = weight wts (pside true l) + weight wts (pside false l).
Proof.
  induction l as [|[e b] l IH]; [reflexivity|].
  cbn [map fst]. rewrite rf_weight_cons, IH. unfold pside. cbn [filter snd].
  destruct b; cbn [Bool.eqb map fst]; rewrite rf_weight_cons; lia.
Qed.

Lemma ov_weight_pairs_le g wts (l : list (nat * bool)) : positive_weights g wts -> NoDup l ->
  (forall p, In p l -> (fst p < ne g)%nat) -> weight wts (map fst l) <= 2 * wsum g wts.
Proof.
  intros Hpw Hnd Hlt. rewrite ov_weight_psides.
  assert (H : forall b, weight wts (pside b l) <= wsum g wts).
  { intros b. apply ov_weight_nodup_le; [exact Hpw|apply ov_pside_nodup; exact Hnd|].
    intros e He. apply ov_pside_in in He. exact (Hlt _ He). }
  pose proof (H true). pose proof (H false). lia.
Qed.

(* ---- steps of the cover graph and their keys ------------------------------------------------------- *)

(* the steps (from, edge, to) of the walk p started in x *)
Fixpoint csteps (x : nat) (p : list (nat * nat)) : list (nat * nat * nat) :=
  match p with
  | [] => []
  | (e, y) :: p' => (x, e, y) :: csteps y p'
  end.

(* key of a step: its edge and the sign of the copy of its smaller end vertex *)
Definition ckey (n : nat) (st : nat * nat * nat) : nat * bool :=
  let '(x, e, y) := st in
  (e, if Nat.ltb (vertex_of n x) (vertex_of n y) then sign_of n x else sign_of n y).

Lemma ov_csteps_edges n x p : map fst (map (ckey n) (csteps x p)) = wedges p.
Proof.
  revert x. induction p as [|[e y] p IH]; intros x; [reflexivity|].
  cbn [csteps map ckey fst wedges]. f_equal. apply IH.
Qed.

Lemma ov_xorb_cancel a b m : xorb a m = xorb b m -> a = b.
Proof. destruct a, b, m; cbn; congruence. Qed.

Section Cover.
  Variable P : sparams Z.
  Local Notation g := (sp_g Z P).
  Local Notation n := (nv (sp_g Z P)).
  Local Notation wts := (sp_wts Z P).
  Local Notation S := (wsum (sp_g Z P) (sp_wts Z P)).
  Hypothesis Hs : simple_graph g.
  Hypothesis Hpw : positive_weights g wts.

  (* two steps with the same key have the same pair of end points *)
  Lemma ov_key_ends x e y u e' v : cstep P x e y -> cstep P u e' v ->
    ckey n (x, e, y) = ckey n (u, e', v) -> (x = u /\ y = v) \/ (x = v /\ y = u).
  Proof.
    intros (Hx & Hy & Hj & Hsg & _) (Hu & Hv & Hj' & Hsg' & _) Ek.
    unfold ckey in Ek. injection Ek as <- Ek.
    destruct (gl_simple_joins _ _ _ _ Hs Hj) as (_ & _ & Hne).
    destruct (rf_joins_fun _ _ _ _ _ _ Hj Hj') as [[E1 E2]|[E1 E2]].
    - left. rewrite <- E1, <- E2 in Ek.
      destruct (Nat.ltb (vertex_of n x) (vertex_of n y)).
      + assert (x = u) by (apply (bd_signed_eq n); assumption). subst u. split; [reflexivity|].
        apply (bd_signed_eq n); [assumption|assumption|congruence|]. rewrite Hsg, Hsg'. reflexivity.
      + assert (y = v) by (apply (bd_signed_eq n); assumption). subst v. split; [|reflexivity].
        apply (bd_signed_eq n); [assumption|assumption|congruence|].
        rewrite Hsg' in Hsg. apply ov_xorb_cancel in Hsg. symmetry. exact Hsg.
    - right. rewrite <- E1, <- E2 in Ek.
      destruct (Nat.ltb_spec (vertex_of n x) (vertex_of n y)) as [Hlt|Hge].
      + destruct (Nat.ltb_spec (vertex_of n y) (vertex_of n x)) as [Hlt'|_]; [lia|].
        assert (x = v) by (apply (bd_signed_eq n); assumption). subst v. split; [reflexivity|].
        apply (bd_signed_eq n); [assumption|assumption|congruence|].
        rewrite Hsg' in Hsg. rewrite Hsg. destruct (sign_of n u), (memb e (sp_signed Z P)); reflexivity.
      + destruct (Nat.ltb_spec (vertex_of n y) (vertex_of n x)) as [_|Hge']; [|lia].
        assert (y = u) by (apply (bd_signed_eq n); assumption). subst u. split; [|reflexivity].
        apply (bd_signed_eq n); [assumption|assumption|congruence|].
        rewrite Hsg in Hsg'. rewrite Hsg'. destruct (sign_of n x), (memb e (sp_signed Z P)); reflexivity.
  Qed.

  (* a step of a walk splits it *)
  Lemma ov_csteps_split : forall p y z u e v, cwalk P y p z -> In (u, e, v) (csteps y p) ->
    exists p1 p2, p = p1 ++ (e, v) :: p2 /\ cwalk P y p1 u /\ cstep P u e v /\ cwalk P v p2 z.
  Proof.
    induction p as [|[e0 y0] p IH]; intros y z u e v Hw Hin; [destruct Hin|].
    inversion Hw as [|? ? ? ? ? Hst Hw']; subst. cbn [csteps] in Hin. destruct Hin as [E|Hin].
    - injection E as <- <- <-. exists [], p. split; [reflexivity|]. split; [constructor; apply Hst|].
      split; [exact Hst|exact Hw'].
    - destruct (IH y0 z u e v Hw' Hin) as (p1 & p2 & -> & H1 & H2 & H3).
      exists ((e0, y0) :: p1), p2. split; [reflexivity|]. split; [econstructor; eassumption|].
      split; assumption.
  Qed.

  (* a vertex of a walk splits it *)
  Lemma ov_vertex_split : forall p y z x, cwalk P y p z -> In x (y :: map snd p) ->
    exists p1 p2, p = p1 ++ p2 /\ cwalk P y p1 x /\ cwalk P x p2 z.
  Proof.
    induction p as [|[e0 y0] p IH]; intros y z x Hw Hin.
    - inversion Hw; subst. destruct Hin as [<-|[]]. exists [], []. auto.
    - destruct Hin as [<-|Hin].
      + exists [], ((e0, y0) :: p). split; [reflexivity|]. split; [|exact Hw].
        constructor. eapply bd_cwalk_start_lt. exact Hw.
      + inversion Hw as [|? ? ? ? ? Hst Hw']; subst. cbn [map snd] in Hin.
        destruct (IH y0 z x Hw' Hin) as (p1 & p2 & -> & H1 & H2).
        exists ((e0, y0) :: p1), p2. split; [reflexivity|]. split; [econstructor; eassumption|exact H2].
  Qed.

  Lemma ov_csteps_ends p y z u e v : cwalk P y p z -> In (u, e, v) (csteps y p) ->
    In u (y :: map snd p) /\ In v (map snd p).
  Proof.
    revert y. induction p as [|[e0 y0] p IH]; intros y Hw Hin; [destruct Hin|].
    inversion Hw as [|? ? ? ? ? Hst Hw']; subst. cbn [csteps] in Hin. cbn [map snd].
    destruct Hin as [E|Hin].
    - injection E as <- <- <-. split; left; reflexivity.
    - destruct (IH y0 Hw' Hin) as [H1 H2]. split; right; assumption.
  Qed.

  (* the keys of a vertex-simple walk are pairwise different *)
  Lemma ov_simple_keys : forall p x z, cwalk P x p z -> NoDup (x :: map snd p) ->
    NoDup (map (ckey n) (csteps x p)).
  Proof.
    induction p as [|[e y] p IH]; intros x z Hw Hnd; [constructor|].
    inversion Hw as [|? ? ? ? ? Hst Hw']; subst. cbn [map snd] in Hnd.
    inversion Hnd as [|? ? Hx Hnd']; subst.
    cbn [csteps map]. constructor; [|eapply IH; eassumption].
    intros Hin. apply in_map_iff in Hin as ([[u e'] v] & Ek & Hin).
    destruct (ov_csteps_split p y z u e' v Hw' Hin) as (_ & _ & _ & _ & Hst' & _).
    destruct (ov_csteps_ends p y z u e' v Hw' Hin) as [Hu Hv].
    destruct (ov_key_ends x e y u e' v Hst Hst' (eq_sym Ek)) as [[-> _]|[-> _]].
    - apply Hx. exact Hu.
    - apply Hx. right. exact Hv.
  Qed.

  Lemma ov_csteps_lt p y z st : cwalk P y p z -> In st (csteps y p) -> (fst (ckey n st) < ne g)%nat.
  Proof.
    destruct st as [[u e] v]. intros Hw Hin.
    destruct (ov_csteps_split p y z u e v Hw Hin) as (_ & _ & _ & _ & Hst & _).
    cbn [ckey fst]. eapply bd_cstep_edge_lt. exact Hst.
  Qed.

  Lemma ov_clen_keys x p : clen P p = weight wts (map fst (map (ckey n) (csteps x p))).
  Proof. rewrite ov_csteps_edges. reflexivity. Qed.

  Lemma ov_simple_le_2S p x z : cwalk P x p z -> NoDup (x :: map snd p) -> clen P p <= 2 * S.
  Proof.
    intros Hw Hnd. rewrite (ov_clen_keys x). apply ov_weight_pairs_le; [exact Hpw| |].
    - eapply ov_simple_keys; eassumption.
    - intros k Hk. apply in_map_iff in Hk as (st & <- & Hin). eapply ov_csteps_lt; eassumption.
  Qed.

  (* ---- shortcutting ------------------------------------------------------------------------------- *)

  Lemma ov_suffix : forall p y z x, cwalk P y p z -> NoDup (y :: map snd p) -> In x (y :: map snd p) ->
    exists q, cwalk P x q z /\ NoDup (x :: map snd q) /\ clen P q <= clen P p.
  Proof.
    induction p as [|[e0 y0] p IH]; intros y z x Hw Hnd Hin.
    - destruct Hin as [<-|[]]. exists []. split; [exact Hw|]. split; [exact Hnd|lia].
    - destruct (Nat.eq_dec y x) as [<-|Hne].
      + exists ((e0, y0) :: p). split; [exact Hw|]. split; [exact Hnd|lia].
      + destruct Hin as [E|Hin]; [contradiction|].
        inversion Hw as [|? ? ? ? ? Hst Hw']; subst. cbn [map snd] in Hnd, Hin.
        inversion Hnd as [|? ? _ Hnd']; subst.
        destruct (IH y0 z x Hw' Hnd' Hin) as (q & Hq & Hndq & Hle).
        exists q. split; [exact Hq|]. split; [exact Hndq|].
        rewrite bd_clen_cons. pose proof (bd_cstep_wt_pos P Hpw _ _ _ Hst). lia.
  Qed.

  Lemma ov_shortcut : forall p x z, cwalk P x p z ->
    exists p', cwalk P x p' z /\ NoDup (x :: map snd p') /\ clen P p' <= clen P p.
  Proof.
    induction p as [|[e y] p IH]; intros x z Hw.
    - exists []. split; [exact Hw|]. split; [constructor; [intros []|constructor]|lia].
    - inversion Hw as [|? ? ? ? ? Hst Hw']; subst.
      destruct (IH y z Hw') as (p' & Hp' & Hnd' & Hle).
      pose proof (bd_cstep_wt_pos P Hpw _ _ _ Hst) as Hwe.
      destruct (in_dec Nat.eq_dec x (y :: map snd p')) as [Hin|Hnin].
      + destruct (ov_suffix p' y z x Hp' Hnd' Hin) as (q & Hq & Hndq & Hleq).
        exists q. split; [exact Hq|]. split; [exact Hndq|]. rewrite bd_clen_cons. lia.
      + exists ((e, y) :: p'). split; [econstructor; eassumption|].
        split; [cbn [map snd]; constructor; assumption|]. rewrite !bd_clen_cons. lia.
  Qed.

  (* a distance is attained by a vertex-simple walk *)
  Lemma ov_cdist_simple s x d : cdist P s x d ->
    exists p, cwalk P s p x /\ NoDup (s :: map snd p) /\ clen P p = d.
  Proof.
    intros [(p & Hp & El) Hmin]. destruct (ov_shortcut p s x Hp) as (p' & Hp' & Hnd & Hle).
    exists p'. split; [exact Hp'|]. split; [exact Hnd|]. specialize (Hmin p' Hp'). lia.
  Qed.

  Lemma ov_cdist_bounds s x d : cdist P s x d -> 0 <= d <= 2 * S.
  Proof.
    intros H. destruct (ov_cdist_simple s x d H) as (p & Hp & Hnd & <-).
    split; [apply bd_clen_nonneg; exact Hpw|eapply ov_simple_le_2S; eassumption].
  Qed.

  (* a proper prefix of a walk is strictly shorter *)
  Lemma ov_split_len p1 p2 x y z : cwalk P x p1 y -> cwalk P y p2 z ->
    clen P p1 <= clen P (p1 ++ p2) /\ (clen P p1 = clen P (p1 ++ p2) -> p2 = [] /\ y = z).
  Proof.
    intros H1 H2. rewrite bd_clen_app. pose proof (bd_clen_nonneg P p2 Hpw) as H0. split; [lia|].
    intros E. destruct H2 as [y Hy|y e y' p2 z Hst H2]; [auto|].
    rewrite bd_clen_cons in E. pose proof (bd_cstep_wt_pos P Hpw _ _ _ Hst).
    pose proof (bd_clen_nonneg P p2 Hpw). lia.
  Qed.

  (* ---- two vertex-simple walks that do not interfere --------------------------------------------- *)

  Lemma ov_two_paths (QA QB : nat -> Prop) pa s x pb t y :
    cwalk P s pa x -> NoDup (s :: map snd pa) -> cwalk P t pb y -> NoDup (t :: map snd pb) ->
    (forall u e v, In (u, e, v) (csteps s pa) -> QA u) ->
    (forall u, In u (t :: map snd pb) -> QB u) ->
    (forall u, QA u -> QB u -> False) ->
    clen P pa + clen P pb <= 2 * S.
  Proof.
    intros Ha Hnda Hb Hndb HQA HQB Hdis.
    rewrite (ov_clen_keys s pa), (ov_clen_keys t pb), <- rf_weight_app, <- !map_app.
    apply ov_weight_pairs_le; [exact Hpw| |].
    - rewrite map_app. apply gl_NoDup_app; [eapply ov_simple_keys; eassumption|eapply ov_simple_keys; eassumption|].
      intros k Hka Hkb. apply in_map_iff in Hka as ([[u e] v] & <- & Hina).
      apply in_map_iff in Hkb as ([[u' e'] v'] & Ek & Hinb).
      destruct (ov_csteps_split pa s x u e v Ha Hina) as (_ & _ & _ & _ & Hst & _).
      destruct (ov_csteps_split pb t y u' e' v' Hb Hinb) as (_ & _ & _ & _ & Hst' & _).
      destruct (ov_csteps_ends pb t y u' e' v' Hb Hinb) as [Hu' Hv'].
      destruct (ov_key_ends u e v u' e' v' Hst Hst' (eq_sym Ek)) as [[-> _]|[-> _]].
      + apply (Hdis u'); [eapply HQA; exact Hina|apply HQB; exact Hu'].
      + apply (Hdis v'); [eapply HQA; exact Hina|apply HQB; right; exact Hv'].
    - intros k Hk. apply in_map_iff in Hk as (st & <- & Hin). apply in_app_iff in Hin as [Hin|Hin];
        [exact (ov_csteps_lt pa s x st Ha Hin)|exact (ov_csteps_lt pb t y st Hb Hin)].
  Qed.

End Cover.
