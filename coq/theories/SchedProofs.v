(* SchedProofs.v — lemmas about SchedModel.v and ParSignedModel.v (property C03).
   1. tree_of_bits: size, fuel independence (the fuel-exhausted answer is never produced with fuel >= len).
   2. schedule independence of a running-minimum reduction (DESIGN Appendix B8): for EVERY schedule tree, every search
      that is limit-monotone and the left-biased cycle_min join, the reduction returns a minimum of the unlimited results.
      A second, more robust form needs only a global minimum that some index always delivers (reduce_global_min).
   3. the chunks of a parallel_for partition the range; the push order is a permutation of the range.
   4. update_chunk: frame, read dependence, commutation, and "any partition of (k, N) in any order = update_supports".
   5. the bodies of ParSignedModel are running-minimum bodies (lifting over the error value of the search model). *)
From Coq Require Import List Arith Bool Lia Permutation.
From Parmcb Require Import GraphModel GF2Model SvaModel SignedModel SchedModel ParSignedModel.
Import ListNotations.

(* ------------------------------------------------------------------------------------------------------------------ *)
(* 1. tree_of_bits                                                                                                     *)
(* ------------------------------------------------------------------------------------------------------------------ *)

Lemma tree_of_bits_size bits : forall fuel pos len, size (fst (tree_of_bits fuel bits pos len)) = len.
Proof.
  induction fuel as [|f IH]; intros pos len; cbn [tree_of_bits]; [reflexivity|].
  destruct (Nat.ltb len 2) eqn:E2; [reflexivity|].
  destruct (negb (bit_at bits pos)); [reflexivity|].
  destruct (tree_of_bits f bits (pos + 3) (len / 2)) as [a p1] eqn:Ea.
  destruct (tree_of_bits f bits p1 (len - len / 2)) as [b p2] eqn:Eb.
  pose proof (IH (pos + 3) (len / 2)) as Ha. rewrite Ea in Ha. cbn [fst] in Ha.
  pose proof (IH p1 (len - len / 2)) as Hb. rewrite Eb in Hb. cbn [fst] in Hb.
  apply Nat.ltb_ge in E2.
  assert (len / 2 <= len) by (apply Nat.div_le_upper_bound; lia).
  destruct (bit_at bits (pos + 1)); cbn [fst size]; lia.
Qed.

Lemma half_lt len : 2 <= len -> len / 2 < len /\ len - len / 2 < len /\ 1 <= len / 2.
Proof.
  intros H.
  assert (len / 2 < len) by (apply Nat.div_lt; lia).
  assert (1 <= len / 2) by (apply Nat.div_le_lower_bound; lia).
  lia.
Qed.

(* with fuel >= len the result does not depend on the fuel: the `O` branch is reached only with len < 2, where it
   coincides with the regular answer *)
Lemma tree_of_bits_fuel bits : forall f1 f2 pos len, len <= f1 -> len <= f2 ->
  tree_of_bits f1 bits pos len = tree_of_bits f2 bits pos len.
Proof.
  induction f1 as [|f1 IH]; intros f2 pos len H1 H2.
  - assert (len = 0) by lia. subst. destruct f2; reflexivity.
  - destruct f2 as [|f2].
    + assert (len = 0) by lia. subst. reflexivity.
    + cbn [tree_of_bits]. destruct (Nat.ltb len 2) eqn:E2; [reflexivity|].
      destruct (negb (bit_at bits pos)); [reflexivity|].
      apply Nat.ltb_ge in E2. destruct (half_lt len E2) as (Ha & Hb & _).
      rewrite (IH f2 (pos + 3) (len / 2)) by lia.
      destruct (tree_of_bits f2 bits (pos + 3) (len / 2)) as [a p1].
      rewrite (IH f2 p1 (len - len / 2)) by lia. reflexivity.
Qed.

Lemma sched_of_bits_size bits pos len : size (fst (sched_of_bits bits pos len)) = len.
Proof. apply tree_of_bits_size. Qed.

(* the unfolding the shim implements: divisible range, bit = 1 *)
Lemma sched_of_bits_split bits pos len : 2 <= len -> bit_at bits pos = true ->
  sched_of_bits bits pos len =
  let (a, p1) := sched_of_bits bits (pos + 3) (len / 2) in
  let (b, p2) := sched_of_bits bits p1 (len - len / 2) in
  ((if bit_at bits (pos + 1) then Fork (bit_at bits (pos + 2)) a b else Seq (bit_at bits (pos + 2)) a b), p2).
Proof.
  intros H2 Hb. unfold sched_of_bits. destruct len as [|n]; [lia|]. cbn [tree_of_bits].
  destruct (Nat.ltb (S n) 2) eqn:E; [apply Nat.ltb_lt in E; lia|]. rewrite Hb. cbn [negb].
  destruct (half_lt (S n) H2) as (Ha & Hb' & _).
  rewrite (tree_of_bits_fuel bits n (S n / 2) (pos + 3) (S n / 2)) by lia.
  destruct (tree_of_bits (S n / 2) bits (pos + 3) (S n / 2)) as [a p1].
  rewrite (tree_of_bits_fuel bits n (S n - S n / 2) p1 (S n - S n / 2)) by lia.
  reflexivity.
Qed.

Lemma sched_of_bits_run bits pos len : 2 <= len -> bit_at bits pos = false ->
  sched_of_bits bits pos len = (Run len, S pos).
Proof.
  intros H2 Hb. unfold sched_of_bits. destruct len as [|n]; [lia|]. cbn [tree_of_bits].
  destruct (Nat.ltb (S n) 2) eqn:E; [apply Nat.ltb_lt in E; lia|]. rewrite Hb. reflexivity.
Qed.

Lemma sched_of_bits_small bits pos len : len < 2 -> sched_of_bits bits pos len = (Run len, pos).
Proof.
  intros H. unfold sched_of_bits. destruct len as [|n]; [reflexivity|]. cbn [tree_of_bits].
  destruct (Nat.ltb (S n) 2) eqn:E; [reflexivity|]. apply Nat.ltb_ge in E. lia.
Qed.

(* ------------------------------------------------------------------------------------------------------------------ *)
(* 2. running-minimum reductions                                                                                       *)
(* ------------------------------------------------------------------------------------------------------------------ *)

Section RunMin.
  Variables R W : Type.
  Variable weight : R -> W.
  Variable wltb : W -> W -> bool.
  (* a strict weak order: what std::less is on the exact domain (and on non-NaN doubles) *)
  Hypothesis wltb_irrefl : forall a, wltb a a = false.
  Hypothesis wltb_trans : forall a b c, wltb a b = true -> wltb b c = true -> wltb a c = true.
  Hypothesis wltb_neg_trans : forall a b c, wltb a b = false -> wltb b c = false -> wltb a c = false.

  (* the search of index i under an optional weight limit *)
  Variable res : nat -> option W -> option R.

  Definition rm_better (x : R) (acc : option R) : bool :=
    match acc with None => true | Some a => wltb (weight x) (weight a) end.
  (* the loop body: search with the running minimum as limit, keep the result if strictly better *)
  Definition rm_body (i : nat) (acc : option R) : option R :=
    match res i (option_map weight acc) with
    | Some x => if rm_better x acc then Some x else acc
    | None => acc
    end.
  (* cycle_min: not-found is the identity, left operand wins ties *)
  Definition rm_join (c1 c2 : option R) : option R :=
    match c1, c2 with
    | Some a, Some b => if negb (wltb (weight b) (weight a)) then c1 else c2
    | Some _, None => c1
    | None, _ => c2
    end.

  Lemma wltb_asym a b : wltb a b = true -> wltb b a = false.
  Proof.
    intros H. destruct (wltb b a) eqn:E; [|reflexivity].
    rewrite <- (wltb_irrefl a). symmetry. eapply wltb_trans; eassumption.
  Qed.

  (* --- 2a. from limit-monotonicity ---------------------------------------------------------------------------- *)

  (* with a limit the search returns either a result strictly below the limit whose weight is that of the unlimited
     result, or nothing — and nothing only if the unlimited result is not below the limit *)
  Definition limit_monotone : Prop :=
    forall i l,
      match res i (Some l) with
      | Some x => wltb (weight x) l = true /\ exists y, res i None = Some y /\ weight y = weight x
      | None => forall y, res i None = Some y -> wltb (weight y) l = false
      end.

  (* the weights the reduction of [lo, lo+len) started from acc may choose from *)
  Definition src (acc : option R) (lo len : nat) (w : W) : Prop :=
    (exists a, acc = Some a /\ weight a = w) \/
    (exists i y, lo <= i < lo + len /\ res i None = Some y /\ weight y = w).

  (* out is a minimum of the sources: its weight is one of them, and it is found and not above any of them *)
  Definition is_min (acc : option R) (lo len : nat) (out : option R) : Prop :=
    (forall x, out = Some x -> src acc lo len (weight x)) /\
    (forall w, src acc lo len w -> exists x, out = Some x /\ wltb w (weight x) = false).

  Lemma is_min_nil acc lo : is_min acc lo 0 acc.
  Proof.
    split.
    - intros x Hx. left. exists x. auto.
    - intros w [(a & Ha & Hw)|(i & y & Hi & _)]; [|lia].
      exists a. split; [assumption|]. rewrite Hw. apply wltb_irrefl.
  Qed.

  Lemma is_min_step (LM : limit_monotone) acc i : is_min acc i 1 (rm_body i acc).
  Proof.
    unfold rm_body. destruct acc as [a|]; cbn [option_map].
    - pose proof (LM i (weight a)) as H. destruct (res i (Some (weight a))) as [x|].
      + destruct H as (Hlt & y & Hy & Hw). cbn [rm_better]. rewrite Hlt. split.
        * intros x' Hx'. injection Hx' as <-. right. exists i, y. repeat split; try lia; assumption.
        * intros w [(a' & Ha' & Hw')|(j & y' & Hj & Hy' & Hw')].
          -- injection Ha' as <-. exists x. split; [reflexivity|]. rewrite <- Hw'. apply wltb_asym, Hlt.
          -- assert (j = i) by lia. subst j. rewrite Hy in Hy'. injection Hy' as <-.
             exists x. split; [reflexivity|]. rewrite <- Hw', Hw. apply wltb_irrefl.
      + split.
        * intros x Hx. left. exists x. auto.
        * intros w [(a' & Ha' & Hw')|(j & y' & Hj & Hy' & Hw')].
          -- injection Ha' as <-. exists a. split; [reflexivity|]. rewrite Hw'. apply wltb_irrefl.
          -- assert (j = i) by lia. subst j. exists a. split; [reflexivity|].
             rewrite <- Hw'. apply H, Hy'.
    - destruct (res i None) as [x|] eqn:E; cbn [rm_better].
      + split.
        * intros x' Hx'. injection Hx' as <-. right. exists i, x. repeat split; try lia; assumption.
        * intros w [(a' & Ha' & _)|(j & y' & Hj & Hy' & Hw')]; [discriminate|].
          assert (j = i) by lia. subst j. rewrite E in Hy'. injection Hy' as <-.
          exists x. split; [reflexivity|]. rewrite Hw'. apply wltb_irrefl.
      + split.
        * intros x Hx. discriminate.
        * intros w [(a' & Ha' & _)|(j & y' & Hj & Hy' & Hw')]; [discriminate|].
          assert (j = i) by lia. subst j. rewrite E in Hy'. discriminate.
  Qed.

  (* sequential composition: the second part continues with the value of the first *)
  Lemma is_min_seq acc lo n1 n2 mid out :
    is_min acc lo n1 mid -> is_min mid (lo + n1) n2 out -> is_min acc lo (n1 + n2) out.
  Proof.
    intros [H1a H1b] [H2a H2b]. split.
    - intros x Hx. destruct (H2a x Hx) as [(m & Hm & Hw)|(i & y & Hi & Hy & Hw)].
      + destruct (H1a m Hm) as [(a & Ha & Hwa)|(i & y & Hi & Hy & Hwy)].
        * left. exists a. split; [assumption|]. congruence.
        * right. exists i, y. repeat split; try lia; congruence.
      + right. exists i, y. repeat split; try lia; assumption.
    - intros w Hsrc.
      assert (Hfirst : src acc lo n1 w -> exists x, out = Some x /\ wltb w (weight x) = false).
      { intros Hs. destruct (H1b w Hs) as (m & Hm & Hwm).
        destruct (H2b (weight m)) as (x & Hx & Hmx); [left; exists m; auto|].
        exists x. split; [assumption|]. eapply wltb_neg_trans; eassumption. }
      destruct Hsrc as [(a & Ha & Hw)|(i & y & Hi & Hy & Hw)].
      + apply Hfirst. left. exists a. auto.
      + destruct (Nat.lt_ge_cases i (lo + n1)) as [Hlt|Hge].
        * apply Hfirst. right. exists i, y. repeat split; try lia; assumption.
        * apply H2b. right. exists i, y. repeat split; try lia; assumption.
  Qed.

  (* forked composition: the second part starts from the identity, results are joined left-biased *)
  Lemma is_min_fork acc lo n1 n2 l r :
    is_min acc lo n1 l -> is_min None (lo + n1) n2 r -> is_min acc lo (n1 + n2) (rm_join l r).
  Proof.
    intros [H1a H1b] [H2a H2b].
    assert (Hl : forall x, l = Some x -> src acc lo (n1 + n2) (weight x)).
    { intros x Hx. destruct (H1a x Hx) as [(a & Ha & Hw)|(i & y & Hi & Hy & Hw)].
      - left. exists a. auto.
      - right. exists i, y. repeat split; try lia; assumption. }
    assert (Hr : forall x, r = Some x -> src acc lo (n1 + n2) (weight x)).
    { intros x Hx. destruct (H2a x Hx) as [(a & Ha & _)|(i & y & Hi & Hy & Hw)]; [discriminate|].
      right. exists i, y. repeat split; try lia; assumption. }
    split.
    - intros x Hx. unfold rm_join in Hx. destruct l as [a|], r as [b|].
      + destruct (negb (wltb (weight b) (weight a))); injection Hx as <-; auto.
      + injection Hx as <-. auto.
      + injection Hx as <-. auto.
      + discriminate.
    - intros w Hsrc.
      assert (Hcase : src acc lo n1 w \/ src None (lo + n1) n2 w).
      { destruct Hsrc as [(a & Ha & Hw)|(i & y & Hi & Hy & Hw)].
        - left. left. exists a. auto.
        - destruct (Nat.lt_ge_cases i (lo + n1)).
          + left. right. exists i, y. repeat split; try lia; assumption.
          + right. right. exists i, y. repeat split; try lia; assumption. }
      destruct Hcase as [Hs|Hs].
      + destruct (H1b w Hs) as (a & -> & Hwa). unfold rm_join. destruct r as [b|].
        * destruct (wltb (weight b) (weight a)) eqn:E; cbn [negb].
          -- exists b. split; [reflexivity|].
             destruct (wltb w (weight b)) eqn:E2; [|reflexivity].
             rewrite <- Hwa. symmetry. eapply wltb_trans; eassumption.
          -- exists a. auto.
        * exists a. auto.
      + destruct (H2b w Hs) as (b & -> & Hwb). unfold rm_join. destruct l as [a|].
        * destruct (wltb (weight b) (weight a)) eqn:E; cbn [negb].
          -- exists b. auto.
          -- exists a. split; [reflexivity|]. eapply wltb_neg_trans; [exact Hwb|exact E].
        * exists b. auto.
  Qed.

  Lemma is_min_chunk (LM : limit_monotone) : forall len lo acc,
    is_min acc lo len (run_chunk (option R) rm_body lo len acc).
  Proof.
    unfold run_chunk. induction len as [|n IH]; intros lo acc.
    - apply is_min_nil.
    - cbn [seq fold_left]. change (S n) with (1 + n).
      eapply is_min_seq; [apply (is_min_step LM)|].
      replace (lo + 1) with (S lo) by lia. apply IH.
  Qed.

  Lemma is_min_eval (LM : limit_monotone) : forall t lo acc,
    is_min acc lo (size t) (eval_reduce (option R) rm_body rm_join None t lo acc).
  Proof.
    induction t as [len|rf a IHa b IHb|rf a IHa b IHb]; intros lo acc; cbn [eval_reduce size].
    - apply (is_min_chunk LM).
    - eapply is_min_seq; [apply IHa|apply IHb].
    - apply is_min_fork; [apply IHa|apply IHb].
  Qed.

  (* B8 / C03a: every schedule tree (arbitrary split points), limit-monotone search, left-biased cycle_min *)
  Theorem reduce_schedule_independent (LM : limit_monotone) t lo :
    let out := parallel_reduce (option R) rm_body rm_join None t lo in
    (out = None <-> forall i, lo <= i < lo + size t -> res i None = None) /\
    (forall x, out = Some x ->
       (exists i y, lo <= i < lo + size t /\ res i None = Some y /\ weight y = weight x) /\
       (forall j y, lo <= j < lo + size t -> res j None = Some y -> wltb (weight y) (weight x) = false)).
  Proof.
    cbv zeta. unfold parallel_reduce.
    destruct (is_min_eval LM t lo None) as [Ha Hb].
    set (out := eval_reduce (option R) rm_body rm_join None t lo None) in *.
    split; [split|].
    - intros Hnone i Hi. destruct (res i None) as [y|] eqn:E; [|reflexivity].
      destruct (Hb (weight y)) as (x & Hx & _); [right; exists i, y; auto|]. congruence.
    - intros Hall. destruct out as [x|] eqn:E; [|reflexivity].
      destruct (Ha x eq_refl) as [(a & Hc & _)|(i & y & Hi & Hy & _)]; [discriminate|].
      rewrite (Hall i Hi) in Hy. discriminate.
    - intros x Hx. split.
      + destruct (Ha x Hx) as [(a & Hc & _)|(i & y & Hi & Hy & Hw)]; [discriminate|].
        exists i, y. auto.
      + intros j y Hj Hy. destruct (Hb (weight y)) as (x' & Hx' & Hle); [right; exists j, y; auto|].
        rewrite Hx in Hx'. injection Hx' as <-. exact Hle.
  Qed.

  (* two schedules: same found-ness and equivalent weights *)
  Corollary reduce_two_schedules (LM : limit_monotone) t1 t2 lo : size t1 = size t2 ->
    match parallel_reduce (option R) rm_body rm_join None t1 lo,
          parallel_reduce (option R) rm_body rm_join None t2 lo with
    | Some x1, Some x2 => wltb (weight x1) (weight x2) = false /\ wltb (weight x2) (weight x1) = false
    | None, None => True
    | _, _ => False
    end.
  Proof.
    intros Hs.
    destruct (reduce_schedule_independent LM t1 lo) as [[N1 N1'] S1].
    destruct (reduce_schedule_independent LM t2 lo) as [[N2 N2'] S2]. cbv zeta in *.
    destruct (parallel_reduce (option R) rm_body rm_join None t1 lo) as [x1|] eqn:E1;
    destruct (parallel_reduce (option R) rm_body rm_join None t2 lo) as [x2|] eqn:E2.
    - destruct (S1 x1 eq_refl) as ((i1 & y1 & Hi1 & Hy1 & Hw1) & Hmin1).
      destruct (S2 x2 eq_refl) as ((i2 & y2 & Hi2 & Hy2 & Hw2) & Hmin2).
      split.
      + rewrite <- Hw1. apply (Hmin2 i1 y1); [lia|assumption].
      + rewrite <- Hw2. apply (Hmin1 i2 y2); [lia|assumption].
    - destruct (S1 x1 eq_refl) as ((i1 & y1 & Hi1 & Hy1 & _) & _).
      rewrite (N2 eq_refl i1) in Hy1 by lia. discriminate.
    - destruct (S2 x2 eq_refl) as ((i2 & y2 & Hi2 & Hy2 & _) & _).
      rewrite (N1 eq_refl i2) in Hy2 by lia. discriminate.
    - exact I.
  Qed.

  (* --- 2b. from a global minimum that some index always delivers ------------------------------------------------ *)
  (* This form does not ask each index to behave monotonically (the duplicate-edge rejection of the search makes the
     answer of a single index depend on tie-breaking): it is enough that every answer respects its limit and is not
     below a bound Mw, and that one index i0 of the range delivers weight Mw under every limit that admits it. *)
  Section GlobalMin.
    Variable Mw : W.
    Definition weqv (a b : W) : Prop := wltb a b = false /\ wltb b a = false.
    Hypothesis res_sound : forall i l x, res i l = Some x -> wltb (weight x) Mw = false.
    Hypothesis res_limit : forall i l x, res i (Some l) = Some x -> wltb (weight x) l = true.
    Variable i0 : nat.
    Hypothesis res_complete : forall l, (match l with Some lv => wltb Mw lv = true | None => True end) ->
                                        exists x, res i0 l = Some x /\ weqv (weight x) Mw.

    Definition ok (acc : option R) : Prop := forall a, acc = Some a -> wltb (weight a) Mw = false.
    Definition isM (acc : option R) : Prop := exists a, acc = Some a /\ weqv (weight a) Mw.

    Lemma isM_ok acc : isM acc -> ok acc.
    Proof. intros (a & -> & Ha & _) a' H. injection H as <-. exact Ha. Qed.

    Lemma ok_body i acc : ok acc -> ok (rm_body i acc).
    Proof.
      intros Hok. unfold rm_body. destruct (res i (option_map weight acc)) as [x|] eqn:E; [|exact Hok].
      destruct (rm_better x acc); [|exact Hok].
      intros a Ha. injection Ha as <-. eapply res_sound, E.
    Qed.

    Lemma isM_body i acc : isM acc -> isM (rm_body i acc).
    Proof.
      intros (a & -> & Ha1 & Ha2). unfold rm_body. cbn [option_map].
      destruct (res i (Some (weight a))) as [x|] eqn:E; [|exists a; repeat split; auto].
      pose proof (res_limit _ _ _ E) as Hlt. pose proof (res_sound _ _ _ E) as Hge.
      rewrite (wltb_neg_trans _ _ _ Hge Ha2) in Hlt. discriminate.
    Qed.

    Lemma isM_body_i0 acc : ok acc -> isM (rm_body i0 acc).
    Proof.
      intros Hok. destruct acc as [a|].
      - destruct (wltb Mw (weight a)) eqn:E.
        + unfold rm_body. cbn [option_map].
          destruct (res_complete (Some (weight a)) E) as (x & Hx & Hx1 & Hx2). rewrite Hx. cbn [rm_better].
          destruct (wltb (weight x) (weight a)) eqn:E2.
          * exists x. repeat split; auto.
          * rewrite (wltb_neg_trans _ _ _ Hx2 E2) in E. discriminate.
        + apply isM_body. exists a. repeat split; auto.
      - unfold rm_body. cbn [option_map]. destruct (res_complete None I) as (x & Hx & Hx12). rewrite Hx.
        cbn [rm_better]. exists x. auto.
    Qed.

    Lemma ok_join l r : ok l -> ok r -> ok (rm_join l r).
    Proof.
      intros Hl Hr. unfold rm_join. destruct l as [a|], r as [b|]; auto.
      destruct (negb (wltb (weight b) (weight a))); auto.
    Qed.

    Lemma isM_join_l l r : isM l -> ok r -> isM (rm_join l r).
    Proof.
      intros (a & -> & Ha1 & Ha2) Hr. unfold rm_join. destruct r as [b|]; [|exists a; repeat split; auto].
      destruct (wltb (weight b) (weight a)) eqn:E; cbn [negb]; [|exists a; repeat split; auto].
      rewrite (wltb_neg_trans _ _ _ (Hr b eq_refl) Ha2) in E. discriminate.
    Qed.

    Lemma isM_join_r l r : ok l -> isM r -> isM (rm_join l r).
    Proof.
      intros Hl (b & -> & Hb1 & Hb2). unfold rm_join. destruct l as [a|]; [|exists b; repeat split; auto].
      destruct (wltb (weight b) (weight a)) eqn:E; cbn [negb]; [exists b; repeat split; auto|].
      exists a. split; [reflexivity|]. split; [apply Hl; reflexivity|]. eapply wltb_neg_trans; eassumption.
    Qed.

    Lemma gm_chunk : forall len lo acc,
      let out := run_chunk (option R) rm_body lo len acc in
      (ok acc -> ok out) /\ (isM acc -> isM out) /\ (lo <= i0 < lo + len -> ok acc -> isM out).
    Proof.
      unfold run_chunk. induction len as [|n IH]; intros lo acc; cbn [seq fold_left]; cbv zeta.
      - repeat split; auto. lia.
      - destruct (IH (S lo) (rm_body lo acc)) as (I1 & I2 & I3). cbv zeta in *. repeat split.
        + intros H. apply I1, ok_body, H.
        + intros H. apply I2, isM_body, H.
        + intros Hi H. destruct (Nat.eq_dec lo i0) as [->|Hne].
          * apply I2, isM_body_i0, H.
          * apply I3; [lia|apply ok_body, H].
    Qed.

    Lemma gm_eval : forall t lo acc,
      let out := eval_reduce (option R) rm_body rm_join None t lo acc in
      (ok acc -> ok out) /\ (isM acc -> isM out) /\ (lo <= i0 < lo + size t -> ok acc -> isM out).
    Proof.
      assert (okN : ok None) by (intros a H; discriminate).
      induction t as [len|rf a IHa b IHb|rf a IHa b IHb]; intros lo acc; cbn [eval_reduce size]; cbv zeta.
      - apply gm_chunk.
      - destruct (IHa lo acc) as (A1 & A2 & A3).
        destruct (IHb (lo + size a) (eval_reduce (option R) rm_body rm_join None a lo acc)) as (B1 & B2 & B3).
        cbv zeta in *. repeat split.
        + auto.
        + auto.
        + intros Hi H. destruct (Nat.lt_ge_cases i0 (lo + size a)).
          * apply B2, A3; [lia|assumption].
          * apply B3; [lia|auto].
      - destruct (IHa lo acc) as (A1 & A2 & A3).
        destruct (IHb (lo + size a) None) as (B1 & B2 & B3). cbv zeta in *. repeat split.
        + intros H. apply ok_join; auto.
        + intros H. apply isM_join_l; auto.
        + intros Hi H. destruct (Nat.lt_ge_cases i0 (lo + size a)).
          * apply isM_join_l; [apply A3; [lia|assumption]|auto].
          * apply isM_join_r; [auto|apply B3; [lia|assumption]].
    Qed.

    Theorem reduce_global_min t lo : lo <= i0 < lo + size t ->
      exists x, parallel_reduce (option R) rm_body rm_join None t lo = Some x /\ weqv (weight x) Mw.
    Proof.
      intros Hi. destruct (gm_eval t lo None) as (_ & _ & H). apply H; [assumption|].
      intros a Ha. discriminate.
    Qed.
  End GlobalMin.
End RunMin.

(* ------------------------------------------------------------------------------------------------------------------ *)
(* 3. parallel_for: the chunks partition the range, the push order is a permutation                                   *)
(* ------------------------------------------------------------------------------------------------------------------ *)

Definition chunk_indices (c : nat * nat) : list nat := seq (fst c) (snd c).

Lemma exec_order_eq t lo : exec_order t lo = flat_map chunk_indices (chunks_of t lo).
Proof. reflexivity. Qed.

Theorem exec_order_perm : forall t lo, Permutation (exec_order t lo) (seq lo (size t)).
Proof.
  unfold exec_order.
  induction t as [len|rf a IHa b IHb|rf a IHa b IHb]; intros lo; cbn [chunks_of size].
  - cbn [flat_map fst snd]. rewrite app_nil_r. apply Permutation_refl.
  - rewrite seq_app. destruct rf; rewrite flat_map_app.
    + eapply Permutation_trans; [apply Permutation_app_comm|]. apply Permutation_app; [apply IHa|apply IHb].
    + apply Permutation_app; [apply IHa|apply IHb].
  - rewrite seq_app. destruct rf; rewrite flat_map_app.
    + eapply Permutation_trans; [apply Permutation_app_comm|]. apply Permutation_app; [apply IHa|apply IHb].
    + apply Permutation_app; [apply IHa|apply IHb].
Qed.

Lemma exec_order_length t lo : length (exec_order t lo) = size t.
Proof. rewrite (Permutation_length (exec_order_perm t lo)). apply seq_length. Qed.

Lemma exec_order_NoDup t lo : NoDup (exec_order t lo).
Proof. eapply Permutation_NoDup; [apply Permutation_sym, exec_order_perm|apply seq_NoDup]. Qed.

Lemma exec_order_In t lo i : In i (exec_order t lo) <-> lo <= i < lo + size t.
Proof.
  split; intros H.
  - apply in_seq. eapply Permutation_in; [apply exec_order_perm|exact H].
  - eapply Permutation_in; [apply Permutation_sym, exec_order_perm|]. apply in_seq. exact H.
Qed.

Lemma map_nth_seq (E : list nat) : map (fun p => nth p E 0) (seq 0 (length E)) = E.
Proof.
  apply nth_ext with (d := 0) (d' := 0); [rewrite map_length, seq_length; reflexivity|].
  intros n Hn. rewrite map_length, seq_length in Hn.
  rewrite (nth_indep _ 0 (nth 0 E 0)) by (rewrite map_length, seq_length; exact Hn).
  rewrite (map_nth (fun p => nth p E 0)), seq_nth by assumption. reflexivity.
Qed.

Lemma valid_perm_Permutation perm m : valid_perm perm m = true -> Permutation perm (seq 0 m).
Proof.
  unfold valid_perm. rewrite andb_true_iff, Nat.eqb_eq, forallb_forall. intros [Hlen Hall].
  apply Permutation_sym, NoDup_Permutation_bis.
  - apply seq_NoDup.
  - rewrite seq_length. lia.
  - intros i Hi. specialize (Hall i Hi). unfold memb in Hall. apply existsb_exists in Hall.
    destruct Hall as (x & Hx & E). apply Nat.eqb_eq in E. subst. exact Hx.
Qed.

(* every explicit insertion order keeps the pushed elements: a permutation of the push sequence *)
Lemma shuffle_perm perm E : Permutation (shuffle perm E) E.
Proof.
  unfold shuffle. destruct (valid_perm perm (length E)) eqn:V; [|apply Permutation_refl].
  eapply Permutation_trans; [apply Permutation_map, valid_perm_Permutation, V|].
  rewrite map_nth_seq. apply Permutation_refl.
Qed.

(* the supports after the initialising parallel_for are a permutation of the unit vectors, for every schedule and every
   explicit insertion order *)
Theorem initial_supports_perm t perm :
  Permutation (initial_supports t perm) (map (fun i => [i]) (seq 0 (size t))).
Proof.
  unfold initial_supports. apply Permutation_map.
  eapply Permutation_trans; [apply shuffle_perm|apply exec_order_perm].
Qed.

(* ------------------------------------------------------------------------------------------------------------------ *)
(* 4. the support update: footprints and order independence                                                            *)
(* ------------------------------------------------------------------------------------------------------------------ *)

Lemma nth_map_combine_seq (f : nat * vec -> vec) : forall sup s i, i < length sup ->
  nth i (map f (combine (seq s (length sup)) sup)) [] = f (s + i, nth i sup []).
Proof.
  induction sup as [|x sup IH]; intros s i Hi; cbn [length] in *; [lia|].
  cbn [seq combine map]. destruct i as [|i]; cbn [nth].
  - rewrite Nat.add_0_r. reflexivity.
  - rewrite IH by lia. f_equal. f_equal. lia.
Qed.

Lemma update_chunk_length k cy b l sup : length (update_chunk k cy b l sup) = length sup.
Proof. unfold update_chunk. rewrite map_length, combine_length, seq_length. apply Nat.min_id. Qed.

Lemma nth_update_chunk k cy b l sup i : i < length sup ->
  nth i (update_chunk k cy b l sup) [] =
  if Nat.leb b i && Nat.ltb i (b + l) && vdot (nth i sup []) cy then vadd (nth i sup []) (nth k sup []) else nth i sup [].
Proof. intros Hi. unfold update_chunk. rewrite nth_map_combine_seq by assumption. reflexivity. Qed.

Lemma update_supports_length' sup k cy : length (update_supports sup k cy) = length sup.
Proof. unfold update_supports. rewrite map_length, combine_length, seq_length. apply Nat.min_id. Qed.

Lemma nth_update_supports' sup k cy i : i < length sup ->
  nth i (update_supports sup k cy) [] =
  if Nat.ltb k i && vdot (nth i sup []) cy then vadd (nth i sup []) (nth k sup []) else nth i sup [].
Proof. intros Hi. unfold update_supports. rewrite nth_map_combine_seq by assumption. reflexivity. Qed.

Definition in_chunk (i : nat) (c : nat * nat) : bool := Nat.leb (fst c) i && Nat.ltb i (fst c + snd c).
Definition in_chunks (i : nat) (cs : list (nat * nat)) : bool := existsb (in_chunk i) cs.

Lemma in_chunk_In i c : in_chunk i c = true <-> In i (chunk_indices c).
Proof.
  unfold in_chunk, chunk_indices. rewrite in_seq, andb_true_iff, Nat.leb_le, Nat.ltb_lt. reflexivity.
Qed.

Lemma in_chunks_In i cs : in_chunks i cs = true <-> In i (flat_map chunk_indices cs).
Proof.
  unfold in_chunks. rewrite existsb_exists, in_flat_map. split.
  - intros (c & Hc & H). exists c. split; [assumption|]. apply in_chunk_In, H.
  - intros (c & Hc & H). exists c. split; [assumption|]. apply in_chunk_In, H.
Qed.

Lemma NoDup_app_disjoint (A : Type) (l1 l2 : list A) x : NoDup (l1 ++ l2) -> In x l1 -> In x l2 -> False.
Proof.
  induction l1 as [|y l1 IH]; intros Hnd H1 H2; [destruct H1|].
  cbn [app] in Hnd. inversion Hnd as [|? ? Hnotin Hnd']; subst.
  destruct H1 as [->|H1].
  - apply Hnotin, in_or_app. right. exact H2.
  - apply IH; assumption.
Qed.

Lemma NoDup_app_r (A : Type) (l1 l2 : list A) : NoDup (l1 ++ l2) -> NoDup l2.
Proof. induction l1 as [|x l IHl]; intros H; [exact H|]. inversion H; subst. auto. Qed.

(* the chunk tasks, run one after the other in the given order *)
Definition run_chunks (k : nat) (cy : vec) (cs : list (nat * nat)) (sup : list vec) : list vec :=
  fold_left (fun st c => update_chunk k cy (fst c) (snd c) st) cs sup.

Lemma run_chunks_length k cy : forall cs sup, length (run_chunks k cy cs sup) = length sup.
Proof.
  unfold run_chunks. induction cs as [|c cs IH]; intros sup; cbn [fold_left]; [reflexivity|].
  rewrite IH. apply update_chunk_length.
Qed.

(* pointwise effect of any sequence of pairwise disjoint chunks none of which contains k *)
Lemma nth_run_chunks k cy : forall cs sup,
  k < length sup -> NoDup (flat_map chunk_indices cs) -> in_chunks k cs = false ->
  forall i, i < length sup ->
  nth i (run_chunks k cy cs sup) [] =
  if in_chunks i cs && vdot (nth i sup []) cy then vadd (nth i sup []) (nth k sup []) else nth i sup [].
Proof.
  unfold run_chunks.
  induction cs as [|c cs IH]; intros sup Hk Hnd Hkc i Hi; cbn [fold_left]; [reflexivity|].
  cbn [flat_map] in Hnd. cbn [in_chunks existsb] in Hkc. apply orb_false_iff in Hkc. destruct Hkc as [Hkc1 Hkc2].
  assert (Hnd' : NoDup (flat_map chunk_indices cs)).
  { clear -Hnd. induction (chunk_indices c) as [|x l IHl]; [exact Hnd|]. inversion Hnd; subst. auto. }
  rewrite IH; try rewrite update_chunk_length; try assumption.
  rewrite !nth_update_chunk by assumption.
  fold (in_chunk k c). rewrite Hkc1. cbn [andb].
  cbn [in_chunks existsb]. fold (in_chunks i cs). fold (in_chunk i c).
  destruct (in_chunks i cs) eqn:Ers.
  - assert (Ec : in_chunk i c = false).
    { destruct (in_chunk i c) eqn:Ec; [|reflexivity]. exfalso.
      eapply (NoDup_app_disjoint _ _ _ i Hnd); [apply in_chunk_In, Ec|apply in_chunks_In, Ers]. }
    rewrite Ec. cbn [andb orb]. reflexivity.
  - rewrite orb_false_r. cbn [andb].
    destruct (in_chunk i c && vdot (nth i sup []) cy); reflexivity.
Qed.

(* C03b, semantic core: ANY partition of the rows k+1 .. N-1 into chunks, executed in ANY order, has the effect of the
   sequential update loop *)
Theorem run_chunks_any_partition k cy cs sup : k < length sup ->
  Permutation (flat_map chunk_indices cs) (seq (S k) (length sup - S k)) ->
  run_chunks k cy cs sup = update_supports sup k cy.
Proof.
  intros Hk Hperm.
  assert (Hnd : NoDup (flat_map chunk_indices cs))
    by (eapply Permutation_NoDup; [apply Permutation_sym, Hperm|apply seq_NoDup]).
  assert (Hin : forall i, in_chunks i cs = true <-> S k <= i < length sup).
  { intros i. rewrite in_chunks_In. split; intros H.
    - apply (Permutation_in _ Hperm) in H. apply in_seq in H. lia.
    - apply (Permutation_in _ (Permutation_sym Hperm)). apply in_seq. lia. }
  assert (Hkc : in_chunks k cs = false).
  { destruct (in_chunks k cs) eqn:E; [|reflexivity]. apply Hin in E. lia. }
  apply nth_ext with (d := []) (d' := []).
  - rewrite run_chunks_length, update_supports_length'. reflexivity.
  - intros i Hi. rewrite run_chunks_length in Hi.
    rewrite nth_run_chunks, nth_update_supports' by assumption.
    destruct (Nat.ltb k i) eqn:Eki.
    + apply Nat.ltb_lt in Eki. assert (E : in_chunks i cs = true) by (apply Hin; lia). rewrite E. reflexivity.
    + apply Nat.ltb_ge in Eki. destruct (in_chunks i cs) eqn:E; [apply Hin in E; lia|reflexivity].
Qed.

(* the updating parallel_for of the model, for every schedule tree *)
Theorem parallel_for_update_any_schedule k cy t sup : S k + size t = length sup ->
  parallel_for (list vec) (update_chunk k cy) t (S k) sup = update_supports sup k cy.
Proof.
  intros Hlen. change (parallel_for (list vec) (update_chunk k cy) t (S k) sup) with (run_chunks k cy (chunks_of t (S k)) sup).
  apply run_chunks_any_partition; [lia|].
  replace (length sup - S k) with (size t) by lia. apply (exec_order_perm t (S k)).
Qed.

(* two chunk tasks commute (pairwise non-interference) *)
Theorem update_chunk_commute k cy A B sup : k < length sup ->
  NoDup (chunk_indices A ++ chunk_indices B) -> in_chunk k A = false -> in_chunk k B = false ->
  update_chunk k cy (fst A) (snd A) (update_chunk k cy (fst B) (snd B) sup) =
  update_chunk k cy (fst B) (snd B) (update_chunk k cy (fst A) (snd A) sup).
Proof.
  intros Hk Hnd HA HB.
  change (run_chunks k cy [B; A] sup = run_chunks k cy [A; B] sup).
  apply nth_ext with (d := []) (d' := []); [rewrite !run_chunks_length; reflexivity|].
  intros i Hi. rewrite run_chunks_length in Hi.
  rewrite !nth_run_chunks; try assumption.
  - cbn [in_chunks existsb]. rewrite !orb_false_r, (orb_comm (in_chunk i B)). reflexivity.
  - cbn [flat_map]. rewrite app_nil_r. exact Hnd.
  - cbn [in_chunks existsb]. rewrite HA, HB. reflexivity.
  - cbn [flat_map]. rewrite app_nil_r.
    eapply Permutation_NoDup; [apply Permutation_app_comm|exact Hnd].
  - cbn [in_chunks existsb]. rewrite HA, HB. reflexivity.
Qed.

(* abstract memory locations and the footprint of a support-update task, read off the source:
     for i in chunk: if (support[i] * cyclek == 1) support[i] += support[k]
   writes support[i] for i in the chunk, reads those rows and support[k] (cyclek and k are task-private / const) *)
Inductive loc := SupportRow (i : nat).
Definition chunk_writes (c : nat * nat) : list loc := map SupportRow (chunk_indices c).
Definition chunk_reads (k : nat) (c : nat * nat) : list loc := SupportRow k :: chunk_writes c.

Lemma in_chunk_writes i c : In (SupportRow i) (chunk_writes c) <-> In i (chunk_indices c).
Proof.
  unfold chunk_writes. rewrite in_map_iff. split.
  - intros (j & Hj & Hin). injection Hj as ->. exact Hin.
  - intros H. exists i. auto.
Qed.

(* the footprint is adequate for the model's task function: nothing outside the write set changes ... *)
Lemma update_chunk_frame k cy c sup i : i < length sup -> ~ In (SupportRow i) (chunk_writes c) ->
  nth i (update_chunk k cy (fst c) (snd c) sup) [] = nth i sup [].
Proof.
  intros Hi Hnot. rewrite nth_update_chunk by assumption. fold (in_chunk i c).
  destruct (in_chunk i c) eqn:E; [|reflexivity].
  exfalso. apply Hnot, in_chunk_writes, in_chunk_In, E.
Qed.

(* ... and what is written depends only on the read set *)
Lemma update_chunk_reads_only k cy c sup1 sup2 : length sup1 = length sup2 ->
  (forall j, In (SupportRow j) (chunk_reads k c) -> nth j sup1 [] = nth j sup2 []) ->
  forall i, i < length sup1 -> In (SupportRow i) (chunk_writes c) ->
  nth i (update_chunk k cy (fst c) (snd c) sup1) [] = nth i (update_chunk k cy (fst c) (snd c) sup2) [].
Proof.
  intros Hlen Hagree i Hi Hw.
  rewrite (nth_update_chunk k cy (fst c) (snd c) sup1 i Hi).
  rewrite (nth_update_chunk k cy (fst c) (snd c) sup2 i) by (rewrite Hlen in Hi; exact Hi).
  pose proof (Hagree i (or_intror Hw)) as E1. pose proof (Hagree k (or_introl eq_refl)) as E2.
  unfold vec in *. rewrite E1, E2. reflexivity.
Qed.

(* for every partition of (k, N): a location written by one task is neither read nor written by any other task *)
Theorem footprints_disjoint k cs l1 A l2 B l3 N :
  Permutation (flat_map chunk_indices cs) (seq (S k) (N - S k)) -> cs = l1 ++ A :: l2 ++ B :: l3 ->
  forall x, (In x (chunk_writes A) -> ~ In x (chunk_reads k B)) /\ (In x (chunk_writes B) -> ~ In x (chunk_reads k A)).
Proof.
  intros Hperm -> [i].
  assert (Hnd : NoDup (flat_map chunk_indices (l1 ++ A :: l2 ++ B :: l3)))
    by (eapply Permutation_NoDup; [apply Permutation_sym, Hperm|apply seq_NoDup]).
  assert (Hrange : forall j, In j (flat_map chunk_indices (l1 ++ A :: l2 ++ B :: l3)) -> S k <= j).
  { intros j Hj. apply (Permutation_in _ Hperm) in Hj. apply in_seq in Hj. lia. }
  rewrite flat_map_app in Hnd, Hrange. cbn [flat_map] in Hnd, Hrange. rewrite flat_map_app in Hnd, Hrange.
  cbn [flat_map] in Hnd, Hrange.
  assert (HA : forall j, In j (chunk_indices A) -> S k <= j).
  { intros j Hj. apply Hrange, in_or_app. right. apply in_or_app. left. exact Hj. }
  assert (HB : forall j, In j (chunk_indices B) -> S k <= j).
  { intros j Hj. apply Hrange, in_or_app. right. apply in_or_app. right. apply in_or_app. right.
    apply in_or_app. left. exact Hj. }
  assert (HAB : In i (chunk_indices A) -> In i (chunk_indices B) -> False).
  { intros Ha Hb. apply NoDup_app_r in Hnd.
    eapply (NoDup_app_disjoint _ _ _ i Hnd); [exact Ha|].
    apply in_or_app. right. apply in_or_app. left. exact Hb. }
  split; intros Hw [Hk|Hr].
  - injection Hk as ->. apply in_chunk_writes, HA in Hw. lia.
  - apply in_chunk_writes in Hw, Hr. auto.
  - injection Hk as ->. apply in_chunk_writes, HB in Hw. lia.
  - apply in_chunk_writes in Hw, Hr. auto.
Qed.

(* ------------------------------------------------------------------------------------------------------------------ *)
(* 5. the reductions of ParSignedModel are running-minimum reductions                                                  *)
(* ------------------------------------------------------------------------------------------------------------------ *)

Section Lift.
  Variable A : Type.
  Variable step : nat -> option A -> option A.
  Variable join : option A -> option A -> option A.
  Variable pstep : nat -> A -> A.
  Variable pjoin : A -> A -> A.
  Variable pid : A.
  Hypothesis join_some : forall x y, join (Some x) (Some y) = Some (pjoin x y).

  Lemma run_chunk_lift : forall len lo a,
    (forall i x, lo <= i < lo + len -> step i (Some x) = Some (pstep i x)) ->
    run_chunk (option A) step lo len (Some a) = Some (run_chunk A pstep lo len a).
  Proof.
    unfold run_chunk. induction len as [|n IH]; intros lo a H; cbn [seq fold_left]; [reflexivity|].
    rewrite H by lia. apply IH. intros i x Hi. apply H. lia.
  Qed.

  Lemma eval_reduce_lift : forall t lo a,
    (forall i x, lo <= i < lo + size t -> step i (Some x) = Some (pstep i x)) ->
    eval_reduce (option A) step join (Some pid) t lo (Some a) = Some (eval_reduce A pstep pjoin pid t lo a).
  Proof.
    induction t as [len|rf a IHa b IHb|rf a IHa b IHb]; intros lo x H; cbn [eval_reduce size] in *.
    - apply run_chunk_lift, H.
    - rewrite IHa by (intros; apply H; lia). apply IHb. intros; apply H; lia.
    - rewrite IHa by (intros; apply H; lia). rewrite IHb by (intros; apply H; lia). apply join_some.
  Qed.
End Lift.

Section ParInst.
  Variable W : Type.
  Variable w0 : W.
  Variable wadd : W -> W -> W.
  Variable wltb : W -> W -> bool.
  Hypothesis wltb_irrefl : forall a, wltb a a = false.
  Hypothesis wltb_trans : forall a b c, wltb a b = true -> wltb b c = true -> wltb a c = true.
  Hypothesis wltb_neg_trans : forall a b c, wltb a b = false -> wltb b c = false -> wltb a c = false.

  Notation R := (list nat * W)%type.
  Definition cw : R -> W := snd.

  Lemma cycle_min_is_rm_join c1 c2 : cycle_min W wltb c1 c2 = rm_join R W cw wltb c1 c2.
  Proof. destruct c1 as [[a wa]|], c2 as [[b wb]|]; reflexivity. Qed.

  Lemma join_err_some x y : join_err W wltb (Some x) (Some y) = Some (rm_join R W cw wltb x y).
  Proof. cbn [join_err]. rewrite cycle_min_is_rm_join. reflexivity. Qed.

  Lemma limit_of_cw best : limit_of W best = option_map cw best.
  Proof. destruct best as [[c w]|]; reflexivity. Qed.

  Lemma better_cw w c best : better W wltb w best = rm_better R W cw wltb (c, w) best.
  Proof. destruct best as [[c' w']|]; reflexivity. Qed.

  Variable g : graph.
  Variable wts : list W.
  Variable signed : list nat.

  (* --- find_all_vertices ------------------------------------------------------------------------------------- *)
  (* the search of vertex i as a function of the limit *)
  Definition all_res (i : nat) (l : option W) : option R :=
    match bidirectional_signed_dijkstra W w0 wadd wltb
            {| sp_g := g; sp_wts := wts; sp_signed := signed; sp_hidden := []; sp_use_hidden := false; sp_limit := l |}
            i true i false with
    | Found _ c w => Some (c, w)
    | _ => None
    end.

  Lemma all_vertices_step_pure i best :
    all_vertices_step W w0 wadd wltb g wts signed i (Some best) <> None ->
    all_vertices_step W w0 wadd wltb g wts signed i (Some best) = Some (rm_body R W cw wltb all_res i best).
  Proof.
    unfold all_vertices_step, rm_body, all_res. rewrite limit_of_cw.
    destruct (bidirectional_signed_dijkstra W w0 wadd wltb _ i true i false) as [c w| |]; intros H.
    - rewrite (better_cw w c). reflexivity.
    - reflexivity.
    - congruence.
  Qed.

  (* --- find_less_than_vertices ------------------------------------------------------------------------------- *)
  Variable sev : list nat.
  (* the search of signed edge number i as a function of the limit: the closed cycle, if it beats the limit *)
  Definition hid_res (i : nat) (l : option W) : option R :=
    match nth_error sev i with
    | None => None
    | Some se =>
        match ends g se with
        | None => None
        | Some (sv, su) =>
            match bidirectional_signed_dijkstra W w0 wadd wltb
                    {| sp_g := g; sp_wts := wts; sp_signed := signed; sp_hidden := skipn i sev; sp_use_hidden := true;
                       sp_limit := l |} sv true su true with
            | Found _ c w =>
                if memb se c then None
                else
                  let w' := wadd w (wtof W w0 wts se) in
                  if (match l with None => true | Some lv => wltb w' lv end) then Some (set_insert se c, w') else None
            | _ => None
            end
        end
    end.

  Lemma hidden_step_pure i best :
    hidden_step W w0 wadd wltb g wts signed sev i (Some best) <> None ->
    hidden_step W w0 wadd wltb g wts signed sev i (Some best) = Some (rm_body R W cw wltb hid_res i best).
  Proof.
    unfold hidden_step, rm_body, hid_res. rewrite limit_of_cw.
    destruct (nth_error sev i) as [se|]; [|congruence].
    destruct (ends g se) as [[sv su]|]; [|congruence].
    destruct (bidirectional_signed_dijkstra W w0 wadd wltb _ sv true su true) as [c w| |]; intros H.
    - destruct (memb se c); [reflexivity|]. cbv zeta.
      destruct best as [[c' w']|]; cbn [option_map cw snd better rm_better].
      + destruct (wltb (wadd w (wtof W w0 wts se)) w') eqn:E; cbn [rm_better cw snd]; [rewrite E|]; reflexivity.
      + reflexivity.
    - reflexivity.
    - congruence.
  Qed.

  (* --- schedule independence of the two reductions of OddCycleFinder ----------------------------------------- *)
  Definition min_result (res : nat -> option W -> option R) (len : nat) (out : option R) : Prop :=
    (out = None <-> forall i, i < len -> res i None = None) /\
    (forall x, out = Some x ->
       (exists i y, i < len /\ res i None = Some y /\ cw y = cw x) /\
       (forall j y, j < len -> res j None = Some y -> wltb (cw y) (cw x) = false)).

  Lemma reduce_inst step res t :
    (forall i best, i < size t -> step i (Some best) <> None -> step i (Some best) = Some (rm_body R W cw wltb res i best)) ->
    (forall i best, i < size t -> step i (Some best) <> None) ->
    limit_monotone R W cw wltb res ->
    exists out, parallel_reduce (racc W) step (join_err W wltb) (ident_err W) t 0 = Some out /\ min_result res (size t) out.
  Proof.
    intros Hpure Hnoerr LM. unfold parallel_reduce, ident_err.
    rewrite (eval_reduce_lift (cyc_t W) step (join_err W wltb) (rm_body R W cw wltb res) (rm_join R W cw wltb) None join_err_some).
    2:{ intros i x Hi. apply Hpure; [lia|apply Hnoerr; lia]. }
    eexists. split; [reflexivity|].
    destruct (reduce_schedule_independent R W cw wltb wltb_irrefl wltb_trans wltb_neg_trans res LM t 0) as [Hn Hs].
    cbv zeta in Hn, Hs. unfold parallel_reduce in Hn, Hs. split.
    - rewrite Hn. split; intros H i Hi; apply H; lia.
    - intros x Hx. destruct (Hs x Hx) as ((i & y & Hi & Hy & Hw) & Hmin). split.
      + exists i, y. repeat split; try lia; assumption.
      + intros j y' Hj. apply Hmin. lia.
  Qed.

  (* find_all_vertices under EVERY schedule tree: if the search model produces no error value and is limit-monotone,
     the result is found iff some vertex finds a cycle without limit, and its weight is the minimum of those *)
  Theorem find_all_vertices_any_schedule t :
    (forall i best, i < size t -> all_vertices_step W w0 wadd wltb g wts signed i (Some best) <> None) ->
    limit_monotone R W cw wltb all_res ->
    exists out, parallel_reduce (racc W) (all_vertices_step W w0 wadd wltb g wts signed) (join_err W wltb) (ident_err W) t 0
                = Some out /\ min_result all_res (size t) out.
  Proof. intros Hne LM. apply reduce_inst; auto. intros i best _. apply all_vertices_step_pure. Qed.

  Theorem find_less_than_vertices_any_schedule t :
    (forall i best, i < size t -> hidden_step W w0 wadd wltb g wts signed sev i (Some best) <> None) ->
    limit_monotone R W cw wltb hid_res ->
    exists out, parallel_reduce (racc W) (hidden_step W w0 wadd wltb g wts signed sev) (join_err W wltb) (ident_err W) t 0
                = Some out /\ min_result hid_res (size t) out.
  Proof. intros Hne LM. apply reduce_inst; auto. intros i best _. apply hidden_step_pure. Qed.
End ParInst.

(* ------------------------------------------------------------------------------------------------------------------ *)
(* 6. the parallel run is a run of the generic support-vector loop of SvaModel.v                                       *)
(* ------------------------------------------------------------------------------------------------------------------ *)

Lemma set_nth_length (A : Type) : forall (l : list A) i x, length (set_nth l i x) = length l.
Proof. induction l as [|y l IH]; intros [|i] x; cbn [set_nth length]; auto. Qed.

Lemma swap_nth_length' sup a b : length (swap_nth sup a b) = length sup.
Proof. unfold swap_nth. rewrite !set_nth_length. reflexivity. Qed.

Section Refine.
  Variable W : Type.
  Variable w0 : W.
  Variable wadd : W -> W -> W.
  Variable wltb : W -> W -> bool.
  Variable eord : nat -> nat.
  Variable bits : list bool.
  Variable g : graph.
  Variable wts : list W.
  Variable fi : forest_index.

  Definition to_phase (r : racc W) : phase_result W :=
    match r with
    | None => PError
    | Some None => PNone
    | Some (Some (c, w)) => PFound c w
    end.

  Notation pfind := (find W w0 wadd wltb eord bits g wts fi).
  Notation sel := (select_min_support_tbb (fi_csd fi)).

  Lemma sva_phases_search_ext (s1 s2 : nat -> vec -> phase_result W) : forall ks sup acc total,
    (forall k S, In k ks -> s1 k S = s2 k S) ->
    sva_phases W wadd sel s1 fi ks sup acc total = sva_phases W wadd sel s2 fi ks sup acc total.
  Proof.
    induction ks as [|k ks IH]; intros sup acc total H; cbn [sva_phases]; [reflexivity|].
    rewrite (H k) by (left; reflexivity).
    destruct (s2 k _) as [c w| |]; try reflexivity.
    apply IH. intros k' S Hk'. apply H. right. exact Hk'.
  Qed.

  (* every schedule: the run is `sva_phases` with the no-early-exit selection and SOME per-phase search each of whose
     answers is an answer of OddCycleFinder::find (at some stream position) — the supports evolve exactly as in the
     sequential loop, whatever the partition and order of the updating parallel_for *)
  Theorem par_phases_is_sva_phases : forall ks sup pos acc total,
    NoDup ks -> (forall k, In k ks -> k < fi_csd fi) -> length sup = fi_csd fi ->
    exists search : nat -> vec -> phase_result W,
      fst (par_phases W w0 wadd wltb eord bits g wts fi ks sup pos acc total)
      = sva_phases W wadd sel search fi ks sup acc total /\
      (forall k S, exists p, search k S = to_phase (fst (pfind S p))).
  Proof.
    induction ks as [|k ks IH]; intros sup pos acc total Hnd Hlt Hlen.
    - exists (fun _ S => to_phase (fst (pfind S 0))). split; [reflexivity|]. intros k S. exists 0. reflexivity.
    - cbn [par_phases sva_phases].
      set (ms := sel k sup). set (S1 := if Nat.eqb ms k then sup else swap_nth sup k ms).
      assert (HlenS1 : length S1 = fi_csd fi).
      { unfold S1. destruct (Nat.eqb ms k); [assumption|]. rewrite swap_nth_length'. assumption. }
      destruct (pfind (nth k S1 []) pos) as [r pos1] eqn:Efind.
      inversion Hnd as [|? ? Hnotin Hnd']; subst.
      destruct r as [[[c w]|]|].
      + destruct (sched_of_bits bits pos1 (fi_csd fi - S k)) as [t pos2] eqn:Esched.
        assert (Hk : k < fi_csd fi) by (apply Hlt; left; reflexivity).
        assert (Hsize : size t = fi_csd fi - S k).
        { pose proof (sched_of_bits_size bits pos1 (fi_csd fi - S k)) as Hs. rewrite Esched in Hs. exact Hs. }
        rewrite parallel_for_update_any_schedule by lia.
        destruct (IH (update_supports S1 k (edges_to_indices fi c)) pos2 (c :: acc) (wadd total w)) as (search' & Hrun & Hans).
        * exact Hnd'.
        * intros k' Hk'. apply Hlt. right. exact Hk'.
        * rewrite update_supports_length'. exact HlenS1.
        * exists (fun k' S => if Nat.eqb k' k then to_phase (fst (pfind S pos)) else search' k' S). split.
          -- rewrite Nat.eqb_refl, Efind. cbn [fst to_phase]. rewrite Hrun.
             apply sva_phases_search_ext. intros k' S Hk'.
             destruct (Nat.eqb k' k) eqn:E; [|reflexivity].
             apply Nat.eqb_eq in E. subst k'. contradiction.
          -- intros k' S. destruct (Nat.eqb k' k); [exists pos; reflexivity|apply Hans].
      + exists (fun _ S => to_phase (fst (pfind S pos))). split.
        * rewrite Efind. reflexivity.
        * intros k' S. exists pos. reflexivity.
      + exists (fun _ S => to_phase (fst (pfind S pos))). split.
        * rewrite Efind. reflexivity.
        * intros k' S. exists pos. reflexivity.
  Qed.

  (* the whole entry point: a run of the generic loop started from a PERMUTATION of the unit vectors *)
  Theorem mcb_sva_signed_tbb_is_sva_run perm roots fi' : create_index g roots = Some fi' -> fi' = fi ->
    exists (init : list vec) (search : nat -> vec -> phase_result W),
      Permutation init (map (fun i => [i]) (seq 0 (fi_csd fi))) /\
      fst (mcb_sva_signed_tbb W w0 wadd wltb eord bits perm g wts roots)
      = sva_phases W wadd sel search fi (seq 0 (fi_csd fi)) init [] w0 /\
      (forall k S, exists p, search k S = to_phase (fst (pfind S p))).
  Proof.
    intros Hci ->. unfold mcb_sva_signed_tbb. rewrite Hci.
    destruct (sched_of_bits bits 0 (fi_csd fi)) as [t0 pos0] eqn:E0.
    assert (Hsize : size t0 = fi_csd fi).
    { pose proof (sched_of_bits_size bits 0 (fi_csd fi)) as Hs. rewrite E0 in Hs. exact Hs. }
    destruct (par_phases_is_sva_phases (seq 0 (fi_csd fi)) (initial_supports t0 perm) pos0 [] w0) as (search & Hrun & Hans).
    - apply seq_NoDup.
    - intros k Hk. apply in_seq in Hk. lia.
    - rewrite (Permutation_length (initial_supports_perm t0 perm)), map_length, seq_length. exact Hsize.
    - exists (initial_supports t0 perm), search. split; [|split; assumption].
      rewrite <- Hsize. apply initial_supports_perm.
  Qed.
End Refine.
