(* ApproxGlobalProofs4.v — C06_global, assembly.

   The family emitted by the approximate algorithm is  [translated spanner cycles Z_0..Z_{N'-1}] ++ [one cycle per
   dropped edge d_0..d_{l-1}].  It is the output of an abstract run of de Pina's scheme on the cycle space of g
   (DePinaSpec) with witnesses addressed by index (ApproxGlobalProofs1.ipair):
       k <  N' :  <S_k, X> = parity of X w.r.t. the extension to g of the signed edge set Sg_k of the exact phase on
                  the spanner (a dropped edge carries the parity of its stretch path, ApproxGlobalProofs3.ext);
       k >= N' :  <S_k, X> = [d_{k-N'} in X].
   The pairing is linear, the run is triangular, and every phase is a t-approximation (t = 2k-1) of the minimum odd
   simple cycle of g (ApproxGlobalProofs3.ag_spanner_bound / ag_dropped_bound), so by the approximate exchange
   theorem (ApproxGlobalProofs1.depina_approx) the total weight is at most t times the weight of ANY cycle basis.

     ag_core             the statement for one spanner, a signed run of the exact phase on it and the run of the
                         dropped-edge loop:  wh(Cs) + dw <= t * w(B')  for every cycle basis B' of g.
     ag_run_global       approx_run with ANY exact phase that returns a minimum cycle basis of the spanner and its
                         weight:  returned value <= (2k-1) * w(B')  for every cycle basis B' of g
                         (every minimum cycle basis of the spanner weighs the same as the one of a signed run,
                         ApproxGlobalProofs2.ag_sign_run_exists).
     ag_global           = Properties_C06.C06_global_stmt.
     ag_signed_global    premise-free, approx_mcb_sva_signed: for every simple graph with positive weights, k >= 1,
                         weight-sorted scan order, all oracles: the run returns ApproxOk, the result is a cycle basis
                         of g, the returned value is its total weight, and
                             opt <= returned value <= (2k-1) * opt     for the optimum opt (OptSpec.is_opt).
   Prefix ag_.  No axioms. *)
From Coq Require Import List Arith Bool ZArith Lia Sorted Permutation.
From Parmcb Require Import GF2Model GF2Proofs GraphModel GraphSpec GF2Lin McbSpec DePinaSpec DePinaProofs GraphLemmas
  SpannerModel SpannerProofs SvaModel SignedModel SignedZModel RefModel RefProofs1 DijkstraModel ApproxModel OptSpec
  ApproxProofsRelabel ApproxProofs ApproxProofsBasis ApproxProofsRun ApproxProofsEdge ApproxProofsSignedFull
  ApproxGlobalProofs1 ApproxGlobalProofs2 ApproxGlobalProofs3.
Import ListNotations.

Lemma ag_Forall2_nth {A B} (Q : A -> B -> Prop) l l' : Forall2 Q l l' ->
  forall i da db, i < length l -> Q (nth i l da) (nth i l' db).
Proof.
  induction 1 as [|a b l l' Hab _ IH]; intros i da db Hi; [cbn [length] in Hi; lia|].
  destruct i as [|i]; cbn [nth]; [exact Hab|]. apply IH. cbn [length] in Hi. lia.
Qed.

Lemma ag_dropped_each g w sp : forall ds total dcs t',
  dropped_cycles g w sp ds total = inr (dcs, t') ->
  Forall2 (fun e cyc => exists cw, dropped_cycle g w sp e = inr (cyc, cw)) ds dcs.
Proof.
  induction ds as [|e ds IH]; intros total dcs t' H; cbn [dropped_cycles] in H.
  - injection H as <- _. constructor.
  - destruct (dropped_cycle g w sp e) as [err|[cyc cw]] eqn:E; [discriminate|].
    destruct (dropped_cycles g w sp ds (total + cw)) as [err|[cs t'']] eqn:E2; [discriminate|].
    injection H as <- _. constructor; [exists cw; exact E|]. eapply IH; eauto.
Qed.

Lemma ag_total_weight_sets w dcs : Forall (@NoDup nat) dcs ->
  total_weight w (map set_of_list dcs) = total_weight w dcs.
Proof.
  induction 1 as [|c dcs Hc _ IH]; [reflexivity|].
  cbn [map]. rewrite !ap_total_weight_cons, IH, (rf_weight_set_of_list w c Hc). reflexivity.
Qed.

Section Core.
  Variable g : graph.
  Hypothesis Hg : simple_graph g.
  Variable sp : spanner.
  Hypothesis Hsub : sp_sub g sp.
  Hypothesis HP : Permutation (retained sp ++ dropped sp) (seq 0 (ne g)).
  Variable w : list Z.
  Hypothesis Hlen : length w = ne g.
  Hypothesis Hpos : Forall (fun x => (0 < x)%Z) w.
  Variable t : Z.
  Hypothesis Ht : (1 <= t)%Z.
  Variable P : nat -> list (nat * nat).
  Hypothesis HPath : forall e u v, In e (dropped sp) -> ends g e = Some (u, v) ->
    walk g u (P e) v /\ incl (wedges (P e)) (retained sp)
    /\ (weight w (wedges (P e)) <= t * wt w e)%Z.

  Notation R := (retained sp).
  Notation D := (dropped sp).
  Notation h := (sp_graph sp).
  Notation wh := (spanner_weights w sp).

  Variables Sg Cs : list (list nat).
  Hypothesis Hrun : sign_run h wh Sg Cs.
  Variable dcs : list (list nat).
  Variable dw : Z.
  Hypothesis Hdr : dropped_cycles g w sp D 0%Z = inr (dcs, dw).

  Let N' := length Cs.
  Let DC := map set_of_list dcs.
  Let Csg := map (fwd sp) Cs ++ DC.

  Definition ag_F (k : nat) (X : vec) : bool :=
    if k <? N' then oddf (ext sp P (rsg sp (nth k Sg []))) X else mem X (nth (k - N') D 0).

  Lemma ag_Hpath : forall e u v, In e D -> ends g e = Some (u, v) ->
    exists p, walk g u p v /\ incl (wedges p) R.
  Proof. intros e u v He Hends. destruct (HPath e u v He Hends) as (H1 & H2 & _). exists (P e). auto. Qed.

  Lemma ag_Cs_basis : cycle_basis h Cs.
  Proof. destruct Hrun as (_ & _ & _ & (H & _)). exact H. Qed.

  Lemma ag_Cs_cs : Forall (in_cycle_space h) Cs.
  Proof. exact (ap_Cs_cs g Hg sp Hsub HP Cs ag_Cs_basis). Qed.

  Lemma ag_Ck k : k < N' -> sorted (nth k Cs []) /\ Forall (domR sp) (nth k Cs []).
  Proof.
    intros Hk. pose proof ag_Cs_cs as H. rewrite Forall_forall in H.
    specialize (H (nth k Cs []) (nth_In _ _ Hk)). split; [apply H|eapply ap_cs_h_dom; eauto].
  Qed.

  Lemma ag_DC_private : Forall2 (private g sp) D DC.
  Proof. exact (ap_dcs_private g Hg sp Hsub HP ag_Hpath w dcs dw Hdr). Qed.

  Lemma ag_dcs_good : Forall2 (good_cycle g sp) D dcs.
  Proof. exact (ap_dropped_cycles g Hg sp Hsub HP ag_Hpath w D 0%Z dcs dw (incl_refl _) Hdr). Qed.

  Lemma ag_len_dcs : length dcs = length D.
  Proof. symmetry. exact (ap_Forall2_length _ _ _ ag_dcs_good). Qed.

  Lemma ag_len_DC : length DC = length D.
  Proof. unfold DC. rewrite map_length. exact ag_len_dcs. Qed.

  Lemma ag_len_Csg : length Csg = N' + length D.
  Proof. unfold Csg. rewrite app_length, map_length. f_equal. exact ag_len_DC. Qed.

  Lemma ag_lt_Csg k : k < length Csg -> k < N' + length D.
  Proof.
    intros H. eapply Nat.lt_le_trans; [exact H|]. apply Nat.eq_le_incl. exact ag_len_Csg.
  Qed.

  Lemma ag_nth_lo k : k < N' -> nth k Csg [] = fwd sp (nth k Cs []).
  Proof.
    intros Hk. unfold Csg. rewrite app_nth1 by (rewrite map_length; exact Hk).
    apply (ag_nth_map_lt (fwd sp) Cs k [] []). exact Hk.
  Qed.

  Lemma ag_nth_hi k : N' <= k -> nth k Csg [] = nth (k - N') DC [].
  Proof.
    intros Hk. unfold Csg. rewrite app_nth2 by (rewrite map_length; exact Hk).
    rewrite map_length. reflexivity.
  Qed.

  Lemma ag_Csg_basis : cycle_basis g Csg.
  Proof. exact (ap_glue_basis g Hg sp Hsub HP Cs ag_Cs_basis DC ag_DC_private). Qed.

  Lemma ag_F_linear : pair_linear (in_cycle_space g) (ipair ag_F).
  Proof.
    apply ag_ipair_linear.
    - intros k. unfold ag_F. destruct (k <? N'); reflexivity.
    - intros k a b (Sa & _) (Sb & _). unfold ag_F. destruct (k <? N').
      + apply ag_oddf_vadd.
      + apply vadd_mem; assumption.
  Qed.

  Lemma ag_private_i i : i < length D -> private g sp (nth i D 0) (nth i DC []).
  Proof. intros Hi. exact (ag_Forall2_nth _ _ _ ag_DC_private i 0 [] Hi). Qed.

  Lemma ag_triangular : triangular (ipair ag_F) (ag_units (length Csg)) Csg.
  Proof.
    destruct Hrun as (HlS & Hmoc & Hlow & _). fold N' in Hmoc, Hlow.
    apply ag_ipair_triangular.
    - intros k Hk. apply ag_lt_Csg in Hk. unfold ag_F.
      destruct (Nat.ltb_spec k N') as [Hlt|Hge].
      + rewrite ag_nth_lo by exact Hlt. destruct (ag_Ck k Hlt) as (HS & HD).
        rewrite (ag_ext_fwd g sp HP P _ _ HS HD). destruct (Hmoc k Hlt) as (_ & Ho & _). exact Ho.
      + rewrite ag_nth_hi by exact Hge.
        destruct (ag_private_i (k - N') ltac:(lia)) as (_ & Hin & _). apply mem_In. exact Hin.
    - intros j k Hjk Hk. apply ag_lt_Csg in Hk. unfold ag_F.
      destruct (Nat.ltb_spec k N') as [Hlt|Hge].
      + assert (Hj : j < N') by lia. rewrite ag_nth_lo by exact Hj. destruct (ag_Ck j Hj) as (HS & HD).
        rewrite (ag_ext_fwd g sp HP P _ _ HS HD). apply Hlow; assumption.
      + assert (Hd : In (nth (k - N') D 0) D) by (apply nth_In; lia).
        destruct (Nat.lt_ge_cases j N') as [Hj|Hj].
        * rewrite ag_nth_lo by exact Hj. destruct (ag_Ck j Hj) as (_ & HD).
          exact (ag_fwd_no_dropped g sp HP _ _ HD Hd).
        * rewrite ag_nth_hi by exact Hj.
          destruct (ag_private_i (j - N') ltac:(lia)) as (_ & _ & Hsup).
          apply ap_mem_false_notin. intros Hin. destruct (Hsup _ Hin) as [E|Hr].
          -- pose proof (ap_D_nodup g sp HP) as Hnd.
             apply (proj1 (NoDup_nth D 0) Hnd) in E; lia.
          -- exact (ap_RD_disjoint g sp HP _ Hr Hd).
  Qed.

  Lemma ag_phase_bound k Dc : k < length Csg -> simple_cycle g Dc ->
    ipair ag_F (nth k (ag_units (length Csg)) []) Dc = true ->
    (weight w (nth k Csg []) <= t * weight w Dc)%Z.
  Proof.
    intros Hk HDc Hp. rewrite ag_nth_units in Hp by exact Hk. cbn [ipair] in Hp.
    apply ag_lt_Csg in Hk. unfold ag_F in Hp.
    destruct Hrun as (_ & Hmoc & _ & _). fold N' in Hmoc.
    destruct (Nat.ltb_spec k N') as [Hlt|Hge].
    - rewrite ag_nth_lo by exact Hlt. destruct (ag_Ck k Hlt) as (HS & HD).
      assert (Hinj : forall i j, domR sp i -> domR sp j -> tr sp i = tr sp j -> i = j) by (eapply ap_fwd_inj; eauto).
      unfold fwd.
      rewrite (rl_weight (domR sp) (tr sp) Hinj wh w (fun i Hi => ap_wt_h sp w i Hi) _ (gl_sorted_NoDup _ HS) HD).
      exact (ag_spanner_bound g Hg sp Hsub HP w Hlen Hpos t Ht P HPath _ _ Dc (Hmoc k Hlt) HDc Hp).
    - rewrite ag_nth_hi by exact Hge. set (i := k - N') in *.
      assert (Hi : i < length D) by (unfold i; lia).
      assert (Hd : In (nth i D 0) D) by (apply nth_In; exact Hi).
      destruct (ag_Forall2_nth _ _ _ (ag_dropped_each g w sp D 0%Z dcs dw Hdr) i 0 [] Hi) as (cw & Hcw).
      destruct (ag_Forall2_nth _ _ _ ag_dcs_good i 0 [] Hi) as (_ & Hnd & _).
      unfold DC. rewrite (ag_nth_map_lt set_of_list dcs i [] []) by (rewrite ag_len_dcs; exact Hi).
      rewrite (rf_weight_set_of_list w _ Hnd), <- (ap_dropped_cycle_weight _ _ _ _ _ _ Hcw).
      apply mem_In in Hp.
      exact (ag_dropped_bound g Hg sp Hsub HP w Hlen Hpos t Ht P HPath _ _ cw Dc Hd Hcw HDc Hp).
  Qed.

  Lemma ag_total_Csg : total_weight w Csg = (total_weight wh Cs + dw)%Z.
  Proof.
    unfold Csg. rewrite ap_total_weight_app.
    assert (Hinj : forall i j, domR sp i -> domR sp j -> tr sp i = tr sp j -> i = j) by (eapply ap_fwd_inj; eauto).
    assert (E1 : total_weight w (map (fwd sp) Cs) = total_weight wh Cs).
    { apply (rl_total_weight (domR sp) (tr sp) Hinj wh w).
      - intros i Hi. apply ap_wt_h; exact Hi.
      - eapply Forall_impl; [|exact ag_Cs_cs]. intros C HC. apply HC.
      - eapply Forall_impl; [|exact ag_Cs_cs]. intros C HC. eapply ap_cs_h_dom; eauto. }
    rewrite E1. unfold DC. rewrite ag_total_weight_sets.
    - rewrite (ap_dropped_cycles_weight _ _ _ _ _ _ _ Hdr). lia.
    - pose proof ag_dcs_good as H. clear -H. induction H as [|e c ds cs' (_ & H1 & _) _ IH]; constructor; auto.
  Qed.

  Theorem ag_core B' : cycle_basis g B' -> (total_weight wh Cs + dw <= t * total_weight w B')%Z.
  Proof.
    intros HB'. rewrite <- ag_total_Csg.
    apply (depina_approx_basis g w t (ipair ag_F) (ag_units (length Csg)) Csg B' Hg).
    - apply (ag_wt_nonneg g w Hlen Hpos).
    - lia.
    - exact ag_F_linear.
    - destruct ag_Csg_basis as (H & _). eapply Forall_impl; [|exact H].
      intros C HC. apply simple_cycle_in_cycle_space; assumption.
    - exact ag_triangular.
    - exact ag_phase_bound.
    - exact HB'.
  Qed.
End Core.

(* ---- the run of the model ------------------------------------------------------------------------- *)

(* the stretch paths of C15, chosen once for every dropped edge *)
Lemma ag_stretch_paths g w k scan sp :
  simple_graph g -> positive_weights g w -> 1 <= k -> Permutation scan (seq 0 (ne g)) ->
  Sorted (fun a b => (wt w a <= wt w b)%Z) scan -> construct_spanner g k scan = SpOk sp ->
  exists P : nat -> list (nat * nat),
    forall e u v, In e (dropped sp) -> ends g e = Some (u, v) ->
      walk g u (P e) v /\ incl (wedges (P e)) (retained sp)
      /\ (weight w (wedges (P e)) <= Z.of_nat (2 * k - 1) * wt w e)%Z.
Proof.
  intros Hg (Hlen & Hpos) Hk HP HS Hsp.
  destruct (ap_spanner_facts g k scan sp Hg HP Hsp) as (Hsub & HPerm & _).
  assert (Hnn : Forall (fun x => (0 <= x)%Z) w) by (eapply Forall_impl; [|exact Hpos]; intros x Hx; cbn in Hx; lia).
  destruct (construct_spanner_stretch g w k scan Hg Hlen Hnn Hk HP HS) as (sp' & Hsp' & Hstretch).
  rewrite Hsp in Hsp'. injection Hsp' as <-.
  destruct (ag_choice [] (dropped sp)
           (fun e p => forall u v, ends g e = Some (u, v) ->
              walk g u p v /\ incl (wedges p) (retained sp)
              /\ (weight w (wedges p) <= Z.of_nat (2 * k - 1) * wt w e)%Z)) as (P & HPP);
    [|exists P; intros e u v He Hends; exact (HPP e He u v Hends)].
  intros e He.
  pose proof (ends_nth_ge g e (ap_D_lt g sp HPerm e He)) as Hends.
  destruct (nth e (ge g) (0, 0)) as [a b].
  destruct (Hstretch e a b He Hends) as (p & H1 & H2 & H3).
  exists p. intros u v E. rewrite Hends in E. injection E as <- <-. auto.
Qed.

(* (3a) as a statement about the model: the cycle emitted for a dropped edge e weighs at most (2k-1) times ANY simple
   cycle of g through e *)
Theorem ag_edge_vs_cycle g w k scan sp e cyc cw Dc :
  simple_graph g -> positive_weights g w -> 1 <= k -> Permutation scan (seq 0 (ne g)) ->
  Sorted (fun a b => (wt w a <= wt w b)%Z) scan ->
  construct_spanner g k scan = SpOk sp -> In e (dropped sp) ->
  dropped_cycle g w sp e = inr (cyc, cw) ->
  simple_cycle g Dc -> In e Dc -> (cw <= Z.of_nat (2 * k - 1) * weight w Dc)%Z.
Proof.
  intros Hg Hw Hk HP HS Hsp He Hdc HDc HeDc.
  destruct (ap_spanner_facts g k scan sp Hg HP Hsp) as (Hsub & HPerm & _).
  destruct (ag_stretch_paths g w k scan sp Hg Hw Hk HP HS Hsp) as (P & HPath).
  destruct Hw as (Hlen & Hpos).
  assert (Ht : (1 <= Z.of_nat (2 * k - 1))%Z) by lia.
  exact (ag_dropped_bound g Hg sp Hsub HPerm w Hlen Hpos _ Ht P HPath e cyc cw Dc He Hdc HDc HeDc).
Qed.

Lemma ag_min_basis_weight h wh B1 B2 :
  min_cycle_basis h wh B1 -> min_cycle_basis h wh B2 -> total_weight wh B1 = total_weight wh B2.
Proof. intros (H1 & M1) (H2 & M2). pose proof (M1 B2 H2). pose proof (M2 B1 H1). lia. Qed.

Theorem ag_run_global (exact : graph -> list Z -> sva_result Z) g w k scan cycles total B' :
  simple_graph g -> positive_weights g w -> Permutation scan (seq 0 (ne g)) ->
  Sorted (fun a b => (wt w a <= wt w b)%Z) scan ->
  (forall sp cs t sup, construct_spanner g k scan = SpOk sp ->
     exact (sp_graph sp) (spanner_weights w sp) = SvaOk cs t sup ->
     min_cycle_basis (sp_graph sp) (spanner_weights w sp) cs /\ t = total_weight (spanner_weights w sp) cs) ->
  approx_run exact g w k scan = ApproxOk cycles total ->
  cycle_basis g B' ->
  (total <= Z.of_nat (2 * k - 1) * total_weight w B')%Z.
Proof.
  intros Hg Hw HP HS Hex Hrun HB'.
  destruct (ap_run_inv _ _ _ _ _ _ _ Hrun) as (sp & cs & sw & sup & tcs & dcs & dw & Hsp & Hk & Eex & Etr & Edr & -> & ->).
  destruct (ap_spanner_facts g k scan sp Hg HP Hsp) as (Hsub & HPerm & _).
  destruct (Hex sp cs sw sup Hsp Eex) as (Hmin & ->).
  destruct (ag_stretch_paths g w k scan sp Hg Hw Hk HP HS Hsp) as (P & HPath).
  pose proof Hw as (Hlen & Hpos).
  destruct (ag_sign_run_exists (sp_graph sp) (spanner_weights w sp)) as (Sg & Cs & Hsr).
  { eapply ap_sp_simple; eauto. }
  { split; [eapply ap_spanner_weights_length; eauto|eapply ap_spanner_weights_pos; eauto]. }
  assert (Ht : (1 <= Z.of_nat (2 * k - 1))%Z) by lia.
  pose proof (ag_core g Hg sp Hsub HPerm w Hlen Hpos _ Ht P HPath Sg Cs Hsr dcs dw Edr B' HB') as Hc.
  destruct Hsr as (_ & _ & _ & Hmin').
  rewrite (ag_min_basis_weight _ _ _ _ Hmin Hmin'). lia.
Qed.

(* the statement kept as a Definition in Properties_C06.v (B a minimum cycle basis) *)
Theorem ag_global (exact : graph -> list Z -> sva_result Z) g w k scan cycles total B :
  simple_graph g -> positive_weights g w -> Permutation scan (seq 0 (ne g)) ->
  Sorted (fun a b => (wt w a <= wt w b)%Z) scan ->
  (forall sp cs t sup, construct_spanner g k scan = SpOk sp ->
     exact (sp_graph sp) (spanner_weights w sp) = SvaOk cs t sup ->
     min_cycle_basis (sp_graph sp) (spanner_weights w sp) cs /\ t = total_weight (spanner_weights w sp) cs) ->
  approx_run exact g w k scan = ApproxOk cycles total ->
  min_cycle_basis g w B ->
  (total <= Z.of_nat (2 * k - 1) * total_weight w B)%Z.
Proof.
  intros Hg Hw HP HS Hex Hrun (HB & _). eapply ag_run_global; eauto.
Qed.

(* against the optimum *)
Theorem ag_run_global_opt (exact : graph -> list Z -> sva_result Z) g w k scan cycles total x :
  simple_graph g -> positive_weights g w -> Permutation scan (seq 0 (ne g)) ->
  Sorted (fun a b => (wt w a <= wt w b)%Z) scan ->
  (forall sp cs t sup, construct_spanner g k scan = SpOk sp ->
     exact (sp_graph sp) (spanner_weights w sp) = SvaOk cs t sup ->
     min_cycle_basis (sp_graph sp) (spanner_weights w sp) cs /\ t = total_weight (spanner_weights w sp) cs) ->
  approx_run exact g w k scan = ApproxOk cycles total ->
  is_opt g w x ->
  (x <= total <= Z.of_nat (2 * k - 1) * x)%Z.
Proof.
  intros Hg Hw HP HS Hex Hrun (B & HB & <-). split.
  - (* the output is a cycle basis of g and the returned value is its weight *)
    destruct (ap_run_inv _ _ _ _ _ _ _ Hrun) as (sp & cs & sw & sup & tcs & dcs & dw & Hsp & Hk & Eex & Etr & Edr & E1 & E2).
    destruct (ap_spanner_facts g k scan sp Hg HP Hsp) as (Hsub & HPerm & Hpath).
    destruct (Hex sp cs sw sup Hsp Eex) as ((Hcs & _) & Hsw).
    assert (Hpath' : forall e u v, In e (dropped sp) -> ends g e = Some (u, v) ->
              exists p, walk g u p v /\ incl (wedges p) (retained sp)).
    { intros e u v He Hends. destruct (Hpath e u v He Hends) as (p & H1 & H2 & _). exists p; auto. }
    pose proof (ap_emitted_basis g Hg sp Hsub HPerm Hpath' w cs Hcs tcs dcs dw Etr Edr) as Hbasis.
    pose proof (ap_emitted_lists g Hg sp Hsub HPerm Hpath' w cs Hcs tcs dcs dw Etr Edr) as Hlists.
    assert (Htot : total = total_weight w cycles).
    { apply (ap_run_weight exact g w k scan cycles total); [|exact Hrun].
      intros sp0 cs0 t0 sup0 H1 H2. apply (Hex sp0 cs0 t0 sup0 H1 H2). }
    destruct HB as (_ & HBmin). specialize (HBmin _ Hbasis). rewrite <- E1 in HBmin, Hlists.
    rewrite ag_total_weight_sets in HBmin; [lia|].
    eapply Forall_impl; [|exact Hlists]. intros c (Hc & _). exact Hc.
  - eapply ag_global; eauto.
Qed.

(* ---- approx_mcb_sva_signed, premise-free ---------------------------------------------------------- *)

Lemma ag_signed_exact g w k scan roots eord :
  simple_graph g -> positive_weights g w -> Permutation scan (seq 0 (ne g)) ->
  (forall v, v < nv g -> In v roots) ->
  forall sp cs t sup, construct_spanner g k scan = SpOk sp ->
    mcb_sva_signed_Z (sp_graph sp) (spanner_weights w sp) roots eord = SvaOk cs t sup ->
    min_cycle_basis (sp_graph sp) (spanner_weights w sp) cs /\ t = total_weight (spanner_weights w sp) cs.
Proof.
  intros Hg Hw HP Hroots sp cs t sup Hsp Hr.
  destruct (ap_signed_exact_free g w k scan roots eord sp Hg Hw HP Hroots Hsp) as (cs' & t' & sup' & E & Hmin & Ht & _).
  rewrite E in Hr. injection Hr as <- <- _. split; assumption.
Qed.

Theorem ag_signed_global g w k scan roots eord :
  simple_graph g -> positive_weights g w -> 1 <= k -> Permutation scan (seq 0 (ne g)) ->
  Sorted (fun a b => (wt w a <= wt w b)%Z) scan ->
  (forall v, v < nv g -> In v roots) ->
  exists cycles total,
    approx_sva_signed_Z g w k scan roots eord = ApproxOk cycles total
    /\ cycle_basis g (map set_of_list cycles)
    /\ total = total_weight w cycles
    /\ (forall B', cycle_basis g B' -> (total <= Z.of_nat (2 * k - 1) * total_weight w B')%Z)
    /\ (forall x, is_opt g w x -> (x <= total <= Z.of_nat (2 * k - 1) * x)%Z).
Proof.
  intros Hg Hw Hk HP HS Hroots.
  destruct (ap_signed_full g w k scan roots eord Hg Hw Hk HP Hroots) as (cycles & total & Hrun & Hb & _ & _ & Htot).
  exists cycles, total. split; [exact Hrun|]. split; [exact Hb|]. split; [exact Htot|].
  unfold approx_sva_signed_Z in Hrun.
  pose proof (ag_signed_exact g w k scan roots eord Hg Hw HP Hroots) as Hex.
  split.
  - intros B' HB'.
    exact (ag_run_global (fun h wh => mcb_sva_signed_Z h wh roots eord) g w k scan cycles total B' Hg Hw HP HS Hex Hrun HB').
  - intros x Hx.
    exact (ag_run_global_opt (fun h wh => mcb_sva_signed_Z h wh roots eord) g w k scan cycles total x Hg Hw HP HS Hex Hrun Hx).
Qed.

Print Assumptions ag_core.
Print Assumptions ag_edge_vs_cycle.
Print Assumptions ag_run_global.
Print Assumptions ag_global.
Print Assumptions ag_run_global_opt.
Print Assumptions ag_signed_global.
