(* Properties_C10.v — read_dimacs_from_file and the input validators (include/parmcb/util.hpp) describe the file
   faithfully.  Only statements; each closed by [exact <lemma>] and followed by Print Assumptions.

   Model: DimacsModel.v ([read] = the reader after pending/c10-fix-newline.patch, [read_orig] = the reader at the
   pinned commit; both follow util.hpp:110-148 line by line: fgets with the 1024-byte buffer, strlen, the newline
   "eating", dispatch on buffer[0], the sscanf directives actually used, the 1-based std::map, default weight 1).
   Texts are quantified through their abstract syntax [layout]: ignored lines (comments 'c'/'#', blank lines, any line
   not starting with p/a/e) anywhere, a problem line with any name, 'a' or 'e' edge lines, optional weight, any
   amount of blanks (space, \t, \v, \f, \r) between and after the fields (so "\r\n" line ends are covered), optional
   signs and leading zeros, weights as arbitrary decimal literals [sign] digits [. digits] [(e|E) [sign] digits],
   last line with or without '\n'.  [render l] is the byte string, [denot l] the graph it describes
   (declared vertex count; one edge per edge line, in file order, 0-based endpoints, exact rational weight, 1 when
   omitted).  [layout_ok] is decidable and says: every line is shorter than the buffer (<= 1022 bytes + '\n'),
   no NUL / '\n' inside lines, vertex numbers are in 1..n and representable as int, n <= 2^64-2.

   Scope: weights are exact rationals; the decimal -> binary64 rounding of strtod is outside the model (the
   correspondence check compares the real reader's doubles with the correctly rounded model value).  Number
   conversions that ISO C leaves undefined (value not representable) and %lf inputs outside the decimal grammar
   (hex floats, inf/nan, dangling exponent) are explicit non-values of the model (RUndef / RUnsup), never produced
   on well-formed layouts by the theorems below.  Graph type: vecS/vecS undirected adjacency_list, as the demos. *)
From Coq Require Import ZArith List Bool QArith Qreduction.
From Parmcb Require Import DimacsModel DimacsScanProofs DimacsProofs DimacsPrintProofs DimacsValProofs.
Import ListNotations.
Local Open Scope Z_scope.

(* ---- the reader ---------------------------------------------------------------------- *)

(* Every well-formed DIMACS text is read as exactly the graph it describes, whether or not its final line ends
   with a newline. *)
Theorem C10_roundtrip :
  forall l : layout, layout_ok l = true -> read (render l) = ROk (denot l).
Proof. exact read_render. Qed.
Print Assumptions C10_roundtrip.

(* Every graph with decimal weights m/10^k (any vertex count <= 2^64-2, any edge list with endpoints in range,
   multigraphs and loops allowed) whose canonical lines fit the buffer has a well-formed text denoting it ... *)
Theorem C10_layout_complete :
  forall (nl : bool) (g : dgraph), dprintable g ->
  layout_ok (canonical_layout nl g) = true /\ denot (canonical_layout nl g) = graph_of_dgraph g.
Proof. exact canonical_layout_spec. Qed.
Print Assumptions C10_layout_complete.

(* ... and printing then reading gives the graph back (final newline present or not). *)
Theorem C10_roundtrip_print :
  forall (nl : bool) (g : dgraph), dprintable g -> read (print_dimacs nl g) = ROk (graph_of_dgraph g).
Proof. exact read_print. Qed.
Print Assumptions C10_roundtrip_print.

(* Defect D3: the reader at the pinned commit misreads "p edge 3 1\ne 1 3 15" (no final newline): weight 1
   instead of 15.  The text is a well-formed layout, so the round-trip statement fails for read_orig. *)
Theorem C10_orig_refuted :
  layout_ok d3_layout = true /\ l_final_nl d3_layout = false /\
  denot d3_layout = (3, [(0, 2, 15 # 1)]) /\
  read_orig (render d3_layout) = ROk (3, [(0, 2, 1 # 1)]) /\
  read_orig (render d3_layout) <> ROk (denot d3_layout).
Proof. exact read_orig_refuted. Qed.
Print Assumptions C10_orig_refuted.

(* The missing final newline is the only thing the original reader gets wrong on well-formed texts. *)
Theorem C10_orig_roundtrip_newline :
  forall l : layout, layout_ok l = true -> l_final_nl l = true -> read_orig (render l) = ROk (denot l).
Proof. exact read_orig_render_nl. Qed.
Print Assumptions C10_orig_roundtrip_newline.

(* An edge line naming a vertex outside 1..n raises the error, whatever follows it in the file.  The line is in the
   right format with both numbers representable as int ([edge_fmt]); n + 2^31 <= 2^64 excludes the wrap-around of
   negative ints converted to std::size_t keys. *)
Theorem C10_undeclared :
  forall (l : layout) (e : edge_lit) (rest : list byte),
  layout_ok l = true -> l_final_nl l = true ->
  edge_fmt e = true -> declared (fst (denot l)) e = false -> fst (denot l) <= 2 ^ 64 - 2 ^ 31 - 1 ->
  rest = [] \/ (exists r, rest = 10 :: r) ->
  read (render l ++ render_edge e ++ rest) = RThrow.
Proof. exact read_undeclared. Qed.
Print Assumptions C10_undeclared.

(* The model's loop fuel is never exhausted, on any byte string. *)
Theorem C10_no_fuel : forall s : list byte, read s <> RFuel /\ read_orig s <> RFuel.
Proof. exact read_no_fuel. Qed.
Print Assumptions C10_no_fuel.

(* ---- the validators ------------------------------------------------------------------ *)

Theorem C10_has_loops :
  forall g : graph, has_loops g = true <-> exists e, In e (snd g) /\ is_loop e.
Proof. exact has_loops_spec. Qed.
Print Assumptions C10_has_loops.

Theorem C10_has_non_positive_weights :
  forall g : graph, has_non_positive_weights g = true <-> exists e, In e (snd g) /\ (e_wt e <= 0)%Q.
Proof. exact has_nonpos_spec. Qed.
Print Assumptions C10_has_non_positive_weights.

(* On an arbitrary multigraph has_multiple_edges answers true exactly when there is a repeated unordered pair
   OR a self-loop (out_edges lists a loop twice, so its vertex is inserted twice into the neighbour set). *)
Theorem C10_has_multiple_edges :
  forall g : graph, graph_wf g ->
  (has_multiple_edges g = true <-> (exists e, In e (snd g) /\ is_loop e) \/ Repeat (snd g)).
Proof. exact has_multiple_edges_spec. Qed.
Print Assumptions C10_has_multiple_edges.

(* On loop-free multigraphs: exactly the repeated pairs. *)
Theorem C10_has_multiple_edges_loop_free :
  forall g : graph, graph_wf g -> has_loops g = false -> (has_multiple_edges g = true <-> Repeat (snd g)).
Proof. exact has_multiple_edges_loop_free. Qed.
Print Assumptions C10_has_multiple_edges_loop_free.

(* [Repeat] says: two different positions of the edge list carry the same unordered pair. *)
Theorem C10_repeat_positions :
  forall (es : list wedge) (d : wedge),
  Repeat es <-> exists i j, (i < j < length es)%nat /\ same_pair (nth i es d) (nth j es d).
Proof. exact Repeat_index. Qed.
Print Assumptions C10_repeat_positions.

(* ---- non-vacuity --------------------------------------------------------------------- *)

(* "c demo\r\n\n# x\np  sp\t4 3 \r\ne 1 2\r\na +2 03 -1.50e+1\n# mid\ne 4 4 .25\t"   (no final newline) *)
Definition demo_layout : layout :=
  mkLayout
    [[99; 32; 100; 101; 109; 111; 13]; []; [35; 32; 120]]
    (mkProb [32; 32] [115; 112] [9] (mkInt None [52]) (Some ([32], mkInt None [51])) [32; 13])
    [LEdge (mkEdge 101 [32] (mkInt None [49]) [32] (mkInt None [50]) None [13]);
     LEdge (mkEdge 97 [32] (mkInt (Some false) [50]) [32] (mkInt None [48; 51])
                   (Some ([32], mkW (Some true) [49] (Some [53; 48]) (Some (101, Some false, [49])))) []);
     LSkip [35; 32; 109; 105; 100];
     LEdge (mkEdge 101 [32] (mkInt None [52]) [32] (mkInt None [52]) (Some ([32], mkW None [] (Some [50; 53]) None)) [9])]
    false.

Example C10_roundtrip_nonvacuous :
  layout_ok demo_layout = true /\
  denot demo_layout = (4, [(0, 1, 1 # 1); (1, 2, (-15) # 1); (3, 3, 1 # 4)]) /\
  read (render demo_layout) = ROk (4, [(0, 1, 1 # 1); (1, 2, (-15) # 1); (3, 3, 1 # 4)]).
Proof. split; [vm_compute; reflexivity|]. split; vm_compute; reflexivity. Qed.

Example C10_print_nonvacuous :
  let g : dgraph := (3, [(0, 1, (1, 0%nat)); (1, 2, (-15, 1%nat)); (2, 2, (5, 3%nat))]) in
  dprintable g /\
  print_dimacs false g =
    [112; 32; 101; 100; 103; 101; 32; 51; 32; 51; 10;           (* p edge 3 3 *)
     101; 32; 49; 32; 50; 10;                                   (* e 1 2      *)
     101; 32; 50; 32; 51; 32; 45; 49; 46; 53; 10;               (* e 2 3 -1.5 *)
     101; 32; 51; 32; 51; 32; 48; 46; 48; 48; 53].              (* e 3 3 0.005 *)
Proof.
  split; [|vm_compute; reflexivity].
  unfold dprintable. split; [vm_compute; split; congruence|]. split; [vm_compute; congruence|].
  split; [|vm_compute; reflexivity].
  intros e [<-|[<-|[<-|[]]]]; vm_compute; repeat split; congruence.
Qed.

Example C10_undeclared_nonvacuous :
  let l := mkLayout [] (mkProb [32] [101] [32] (mkInt None [51]) None []) [] true in
  let e := mkEdge 101 [32] (mkInt None [49]) [32] (mkInt None [52]) None [] in       (* "e 1 4" after "p e 3" *)
  layout_ok l = true /\ edge_fmt e = true /\ declared (fst (denot l)) e = false /\
  read (render l ++ render_edge e ++ []) = RThrow.
Proof. split; [vm_compute; reflexivity|]. split; [vm_compute; reflexivity|]. split; vm_compute; reflexivity. Qed.

Example C10_validators_nonvacuous :
  let g : graph := (3, [(0, 1, 1 # 1); (1, 2, 0 # 1); (1, 0, 5 # 2)]) in
  graph_wf g /\ has_loops g = false /\ has_multiple_edges g = true /\ has_non_positive_weights g = true /\
  Repeat (snd g) /\
  has_multiple_edges (3, [(1, 1, 1 # 1)]) = true.
Proof.
  split.
  { intros e [<-|[<-|[<-|[]]]]; vm_compute; repeat split; congruence. }
  split; [vm_compute; reflexivity|]. split; [vm_compute; reflexivity|]. split; [vm_compute; reflexivity|].
  split; [|vm_compute; reflexivity].
  apply (Rep_here _ _ (1, 0, 5 # 2)); [right; left; reflexivity|]. right. split; reflexivity.
Qed.
