(* ApproxProofsRun.v — from the executable model ApproxModel.approx_run to the structure lemmas of
   ApproxProofs / ApproxProofsBasis: the predecessor walk of a dropped edge is a simple path of the spanner
   (pred_tree from ApproxProofsDijkstra), the emitted list is that path translated plus the edge — a "private"
   simple cycle —, the translated spanner cycles are canonical images, the returned value is the accumulated
   weight.  Final lemmas: ap_run_basis, ap_run_weight, ap_run_k0, ap_k1_nothing_dropped, ap_run_k1_min.  Prefix ap_. *)
From Coq Require Import List Arith Bool Lia ZArith Permutation Sorted.
From Parmcb Require Import GraphModel GF2Model GF2Proofs GF2Lin GraphSpec GraphLemmas McbSpec DePinaSpec DePinaProofs
  SpannerModel SpannerProofs SvaModel DijkstraModel ApproxModel
  ApproxProofsDijkstra ApproxProofsRelabel ApproxProofs ApproxProofsBasis.
Import ListNotations.

Lemma ap_total_weight_app w A B : total_weight w (A ++ B) = (total_weight w A + total_weight w B)%Z.
Proof.
  unfold total_weight. induction A as [|a A IH]; cbn [app map fold_right]; [lia|]. rewrite IH. lia.
Qed.

Lemma ap_total_weight_cons w a B : total_weight w (a :: B) = (weight w a + total_weight w B)%Z.
Proof. reflexivity. Qed.

Lemma ap_weight_snoc w l e : weight w (l ++ [e]) = (weight w l + nth e w 0)%Z.
Proof.
  rewrite rl_weight_app. replace (weight w [e]) with (nth e w 0%Z); [reflexivity|].
  unfold weight, wt. cbn [map fold_right]. lia.
Qed.

Lemma ap_NoDup_bounded_length n l : NoDup l -> (forall x, In x l -> x < n) -> length l <= n.
Proof.
  intros Hnd Hlt. rewrite <- (seq_length n 0). apply NoDup_incl_length; [exact Hnd|].
  intros x Hx. apply in_seq. specialize (Hlt x Hx). lia.
Qed.

(* ---- the predecessor walk ----------------------------------------------------------------------- *)

(* the accumulated weight, with no assumption at all *)
Lemma ap_chain_weight h R w pred : forall fuel cur cyc acc c a,
  pred_chain fuel h R w pred cur cyc acc = Some (c, a) ->
  exists suffix, c = cyc ++ suffix /\ a = (acc + weight w suffix)%Z.
Proof.
  induction fuel as [|fuel IH]; intros cur cyc acc c a H; [discriminate|].
  cbn [pred_chain] in H. destruct (nth cur pred None) as [se|].
  - destruct (nth_error R se) as [ae|]; [|discriminate]. destruct (ends h se) as [[x y]|]; [|discriminate].
    destruct (Nat.eqb (if Nat.eqb y cur then x else y) cur); [discriminate|].
    apply IH in H as (suf & -> & ->). exists (ae :: suf). rewrite <- app_assoc. split; [reflexivity|].
    rewrite rl_weight_cons. unfold wt. lia.
  - injection H as <- <-. exists []. rewrite app_nil_r. split; [reflexivity|]. unfold weight; cbn. lia.
Qed.

(* the walk follows the predecessor array *)
Fixpoint follows (pred : list (option nat)) (cur : nat) (p : list (nat * nat)) : Prop :=
  match p with
  | [] => nth cur pred None = None
  | (e, y) :: p' => nth cur pred None = Some e /\ follows pred y p'
  end.

Section Chain.
  Variable h : graph.
  Variable R : list nat.
  Hypothesis HR : length R = ne h.
  Variable w : list Z.
  Variable s : nat.
  Hypothesis Hs : s < nv h.
  Variable pred : list (option nat).

  Notation trR := (fun i => nth i R 0).

  Lemma ap_chain l : tree_order h pred l -> (forall x, In x l -> nth x pred None = None -> x = s) ->
    forall cur fuel cyc acc, In cur l -> length l < fuel ->
    exists p, walk h cur p s /\ NoDup (cur :: wverts p) /\ incl (cur :: wverts p) l /\ follows pred cur p /\
      pred_chain fuel h R w pred cur cyc acc
      = Some (cyc ++ map trR (wedges p), (acc + weight w (map trR (wedges p)))%Z).
  Proof.
    induction 1 as [|u older Ht IH Hnin Hp]; intros Hnone cur fuel cyc acc Hin Hfuel; [destruct Hin|].
    assert (Hnone' : forall x, In x older -> nth x pred None = None -> x = s)
      by (intros x Hx; apply Hnone; right; exact Hx).
    cbn [length] in Hfuel. destruct Hin as [<-|Hin].
    - destruct fuel as [|fuel]; [lia|]. cbn [pred_chain]. destruct (nth u pred None) as [se|] eqn:E.
      + destruct (Hp se eq_refl) as (p0 & Hj & Hp0).
        assert (Hne : u <> p0) by (intros ->; contradiction).
        assert (Hse : se < length R) by (rewrite HR; eapply gl_joins_lt; eauto).
        rewrite (nth_error_nth' R 0%nat Hse).
        destruct (IH Hnone' p0 fuel (cyc ++ [nth se R 0%nat]) (acc + nth (nth se R 0%nat) w 0)%Z Hp0 ltac:(lia))
          as (q & Hwq & Hndq & Hinq & Hfq & Eq).
        exists ((se, p0) :: q). split; [econstructor; eauto|]. split; [|split; [|split; [split; [exact E|exact Hfq]|]]].
        * cbn [wverts map snd]. fold (wverts q). constructor; [|exact Hndq].
          intros Hc. apply Hnin, Hinq, Hc.
        * cbn [wverts map snd]. fold (wverts q). intros x [<-|Hx]; [left; reflexivity|right; apply Hinq, Hx].
        * assert (Hother : exists a b, ends h se = Some (a, b) /\ (if Nat.eqb b u then a else b) = p0).
          { destruct Hj as [Hj|Hj]; rewrite Hj; eexists; eexists; (split; [reflexivity|]).
            - destruct (Nat.eqb_spec p0 u); [congruence|reflexivity].
            - rewrite Nat.eqb_refl. reflexivity. }
          destruct Hother as (a & b & -> & ->).
          destruct (Nat.eqb_spec p0 u) as [Hc|_]; [congruence|].
          rewrite Eq. cbn [wedges map fst]. fold (wedges q). rewrite <- app_assoc. cbn [app].
          rewrite rl_weight_cons. unfold wt. f_equal. f_equal. lia.
      + assert (Hus : u = s) by (apply Hnone; [left; reflexivity|exact E]). subst u.
        exists []. split; [constructor; exact Hs|]. split; [repeat constructor; intros []|]. split; [|split; [exact E|]].
        * intros x [<-|[]]. left; reflexivity.
        * cbn [wedges map]. rewrite app_nil_r. unfold weight; cbn [map fold_right]. rewrite Z.add_0_r. reflexivity.
    - destruct (IH Hnone' cur fuel cyc acc Hin ltac:(lia)) as (q & H1 & H2 & H3 & H4 & H5).
      exists q. repeat split; auto. intros x Hx. right. apply H3, Hx.
  Qed.
End Chain.

(* ---- translation ----------------------------------------------------------------------------------- *)

Lemma ap_translate_cycle R c t : translate_cycle R c = Some t ->
  Forall (fun i => i < length R) c /\ t = map (fun i => nth i R 0) c.
Proof.
  revert t. induction c as [|se c IH]; intros t H; cbn [translate_cycle] in H.
  - injection H as <-. split; [constructor|reflexivity].
  - destruct (nth_error R se) as [e|] eqn:E; [|discriminate].
    destruct (translate_cycle R c) as [r|]; [|discriminate]. injection H as <-.
    destruct (IH r eq_refl) as (HF & ->). split.
    + constructor; [apply nth_error_Some; rewrite E; discriminate|exact HF].
    + cbn [map]. f_equal. symmetry. apply (nth_error_nth _ _ _ E).
Qed.

Lemma ap_translate_cycles R cs ts : translate_cycles R cs = Some ts ->
  Forall (Forall (fun i => i < length R)) cs /\ ts = map (map (fun i => nth i R 0)) cs.
Proof.
  revert ts. induction cs as [|c cs IH]; intros ts H; cbn [translate_cycles] in H.
  - injection H as <-. split; [constructor|reflexivity].
  - destruct (translate_cycle R c) as [t|] eqn:E; [|discriminate].
    destruct (translate_cycles R cs) as [r|]; [|discriminate]. injection H as <-.
    destruct (IH r eq_refl) as (HF & ->). destruct (ap_translate_cycle R c t E) as (Hc & ->).
    split; [constructor; assumption|reflexivity].
Qed.

Lemma ap_translate_cycle_total R c : Forall (fun i => i < length R) c -> translate_cycle R c <> None.
Proof.
  induction 1 as [|i c Hi _ IH]; cbn [translate_cycle]; [discriminate|].
  destruct (nth_error R i) eqn:E; [|apply nth_error_None in E; lia].
  destruct (translate_cycle R c); [discriminate|contradiction].
Qed.

Lemma ap_translate_cycles_total R cs : Forall (Forall (fun i => i < length R)) cs -> translate_cycles R cs <> None.
Proof.
  induction 1 as [|c cs Hc _ IH]; cbn [translate_cycles]; [discriminate|].
  destruct (translate_cycle R c) eqn:E; [|exfalso; eapply ap_translate_cycle_total; eauto].
  destruct (translate_cycles R cs); [discriminate|contradiction].
Qed.

(* ---- one dropped edge ---------------------------------------------------------------------------------- *)

(* the weight, unconditionally *)
Lemma ap_dropped_cycle_weight g w sp e cyc cw : dropped_cycle g w sp e = inr (cyc, cw) -> cw = weight w cyc.
Proof.
  unfold dropped_cycle. destruct (ends g e) as [[v u]|]; [|discriminate].
  destruct (dijkstra _ _ _ _ _ _ v) as [dist pred| |]; try discriminate.
  destruct (pred_chain _ _ _ _ _ _ _ _) as [[c a]|] eqn:E; [|discriminate].
  intros H. injection H as <- <-. apply ap_chain_weight in E as (suf & -> & ->). cbn [app].
  rewrite ap_weight_snoc. lia.
Qed.

Lemma ap_dropped_cycles_weight g w sp : forall ds total dcs t,
  dropped_cycles g w sp ds total = inr (dcs, t) -> t = (total + total_weight w dcs)%Z.
Proof.
  induction ds as [|e ds IH]; intros total dcs t H; cbn [dropped_cycles] in H.
  - injection H as <- <-. unfold total_weight; cbn. lia.
  - destruct (dropped_cycle g w sp e) as [err|[cyc cw]] eqn:E; [discriminate|].
    destruct (dropped_cycles g w sp ds (total + cw)) as [err|[cs t']] eqn:E2; [discriminate|].
    injection H as <- <-. apply IH in E2. apply ap_dropped_cycle_weight in E. subst.
    rewrite ap_total_weight_cons. lia.
Qed.

Section Run.
  Variable g : graph.
  Hypothesis Hg : simple_graph g.
  Variable sp : spanner.
  Hypothesis Hsub : sp_sub g sp.
  Hypothesis HP : Permutation (retained sp ++ dropped sp) (seq 0 (ne g)).
  Hypothesis Hpath : forall e u v, In e (dropped sp) -> ends g e = Some (u, v) ->
    exists p, walk g u p v /\ incl (wedges p) (retained sp).
  Variable w : list Z.

  Notation R := (retained sp).
  Notation D := (dropped sp).
  Notation h := (sp_graph sp).

  Definition good_cycle (e : nat) (cyc : list nat) : Prop :=
    private g sp e (set_of_list cyc) /\ NoDup cyc /\ (forall x, In x cyc -> x < ne g).

  Lemma ap_dropped_cycle e cyc cw : In e D -> dropped_cycle g w sp e = inr (cyc, cw) -> good_cycle e cyc.
  Proof.
    intros He. unfold dropped_cycle.
    pose proof (ends_nth_ge g e (ap_D_lt g sp HP e He)) as Hends.
    destruct (nth e (ge g) (0, 0)) as [v u]. rewrite Hends.
    destruct (simple_ends g e v u Hg Hends) as (Hv & Hu & Hvu).
    destruct (dijkstra _ _ _ _ _ _ v) as [dist pred| |] eqn:Edj; try discriminate.
    destruct (pred_chain _ _ _ _ _ _ _ _) as [[c0 a0]|] eqn:Ech; [|discriminate].
    intros H. injection H as <- _.
    assert (Hvh : v < nv h) by (rewrite (ap_nv_h g sp Hsub); exact Hv).
    destruct (dijkstra_pred_tree _ _ _ _ h _ v Hvh _ _ Edj) as (ord & HT).
    (* u is reached *)
    destruct (Hpath e v u He Hends) as (p1 & Hw1 & Hin1).
    destruct (g_walk_to_sp g sp v p1 u Hsub Hw1 Hin1) as (p1' & Hw1' & _).
    assert (Huo : In u ord) by (eapply pred_tree_reach; eauto; apply (pt_src _ _ _ _ HT)).
    (* the chain is a simple path *)
    assert (Hnone : forall x, In x ord -> nth x pred None = None -> x = v).
    { intros x Hx Hn. destruct (Nat.eq_dec x v) as [E|Hne]; [exact E|].
      exfalso. apply (proj1 (pt_mem _ _ _ _ HT x Hne) Hx). exact Hn. }
    assert (Hlen : length ord < S (nv g)).
    { rewrite <- (ap_nv_h g sp Hsub). apply Nat.lt_succ_r.
      apply ap_NoDup_bounded_length; [eapply tree_order_NoDup, (pt_tree _ _ _ _ HT)|apply (pt_range _ _ _ _ HT)]. }
    destruct (ap_chain h R (eq_sym (ap_ne_h g sp Hsub)) w v Hvh pred ord (pt_tree _ _ _ _ HT) Hnone
                u (S (nv g)) [] 0%Z Huo Hlen) as (q & Hwq & Hndq & _ & _ & Eq).
    rewrite Eq in Ech. injection Ech as <- _. cbn [app].
    (* translate the path to g *)
    assert (Hdq : Forall (domR sp) (wedges q)).
    { apply Forall_forall. intros i Hi. unfold domR. rewrite <- (ap_ne_h g sp Hsub).
      eapply gl_walk_edges_lt; eauto. }
    assert (Hfe : forall i, domR sp i -> i < ne h /\ ends h i = ends g (tr sp i)) by (eapply ap_fwd_ends; eauto).
    pose proof (rl_walk h g (domR sp) (tr sp) (ap_nv_h g sp Hsub) Hfe u q v Hwq Hdq) as Hwp.
    set (p := map (rl_step (tr sp)) q) in *.
    assert (Ewe : wedges p = map (fun i => nth i R 0) (wedges q)) by (unfold p; apply rl_wedges).
    assert (Ewv : wverts p = wverts q) by (unfold p; apply rl_wverts).
    rewrite <- Ewe.
    assert (HinR : forall x, In x (wedges p) -> In x R).
    { intros x Hx. rewrite Ewe in Hx. apply in_map_iff in Hx as (i & <- & Hi).
      rewrite Forall_forall in Hdq. apply nth_In, Hdq, Hi. }
    assert (Hne : ~ In e (wedges p)) by (intros Hc; exact (ap_RD_disjoint g sp HP e (HinR e Hc) He)).
    assert (Hj : joins g e v u) by (left; exact Hends).
    rewrite <- Ewv in Hndq.
    destruct (ap_close_path g e v u p Hj Hwp Hndq Hne) as (Hsc & Hnd).
    split; [split; [exact Hsc|split]|split; [exact Hnd|]].
    - apply rl_set_of_list_In, in_or_app. right; left; reflexivity.
    - intros x Hx. apply rl_set_of_list_In, in_app_or in Hx as [Hx|[<-|[]]]; [right; apply HinR, Hx|left; reflexivity].
    - intros x Hx. apply in_app_or in Hx as [Hx|[<-|[]]]; [apply (ap_R_lt g sp Hsub), HinR, Hx|apply (ap_D_lt g sp HP), He].
  Qed.

  Lemma ap_dropped_cycles : forall ds total dcs t, incl ds D ->
    dropped_cycles g w sp ds total = inr (dcs, t) -> Forall2 good_cycle ds dcs.
  Proof.
    induction ds as [|e ds IH]; intros total dcs t Hincl H; cbn [dropped_cycles] in H.
    - injection H as <- _. constructor.
    - destruct (dropped_cycle g w sp e) as [err|[cyc cw]] eqn:E; [discriminate|].
      destruct (dropped_cycles g w sp ds (total + cw)) as [err|[cs t']] eqn:E2; [discriminate|].
      injection H as <- _. constructor.
      + eapply ap_dropped_cycle; eauto. apply Hincl. left; reflexivity.
      + eapply IH; eauto. intros x Hx. apply Hincl. right; exact Hx.
  Qed.

  (* the emitted family *)
  Variable cs : list vec.                    (* what the exact phase returned for the spanner *)
  Hypothesis Hcs : cycle_basis h cs.
  Variables tcs dcs : list (list nat).
  Variable dw : Z.
  Hypothesis Htr : translate_cycles R cs = Some tcs.
  Hypothesis Hdr : dropped_cycles g w sp D 0%Z = inr (dcs, dw).

  Lemma ap_tcs_sets : map set_of_list tcs = map (fwd sp) cs.
  Proof.
    destruct (ap_translate_cycles _ _ _ Htr) as (_ & Et). rewrite Et, map_map. apply map_ext. intros C. reflexivity.
  Qed.

  Lemma ap_dcs_private : Forall2 (private g sp) D (map set_of_list dcs).
  Proof.
    pose proof (ap_dropped_cycles D 0%Z dcs dw (incl_refl _) Hdr) as H.
    clear -H. induction H as [|e c ds cs' (Hp & _) _ IH]; cbn [map]; constructor; auto.
  Qed.

  Lemma ap_emitted_basis : cycle_basis g (map set_of_list (tcs ++ dcs)).
  Proof.
    rewrite map_app, ap_tcs_sets. apply (ap_glue_basis g Hg sp Hsub HP cs Hcs). exact ap_dcs_private.
  Qed.

  Lemma ap_emitted_lists : Forall (fun c => NoDup c /\ forall e, In e c -> e < ne g) (tcs ++ dcs).
  Proof.
    apply Forall_app. split.
    - destruct (ap_translate_cycles _ _ _ Htr) as (Hdom & Et). rewrite Et.
      pose proof (ap_Cs_sorted g Hg sp Hsub HP cs Hcs) as HS.
      apply Forall_forall. intros c Hc. apply in_map_iff in Hc as (C & <- & HC).
      rewrite Forall_forall in Hdom, HS. split.
      + assert (Hinj : forall i j, domR sp i -> domR sp j -> tr sp i = tr sp j -> i = j) by (eapply ap_fwd_inj; eauto).
        apply (rl_map_NoDup (domR sp) (tr sp) Hinj); [apply gl_sorted_NoDup, HS, HC|apply Hdom, HC].
      + intros e He. apply in_map_iff in He as (i & <- & Hi). apply (ap_R_lt g sp Hsub), nth_In.
        specialize (Hdom C HC). rewrite Forall_forall in Hdom. apply Hdom, Hi.
    - pose proof (ap_dropped_cycles D 0%Z dcs dw (incl_refl _) Hdr) as H.
      clear -H. induction H as [|e c ds cs' (_ & H1 & H2) _ IH]; constructor; auto.
  Qed.

  Lemma ap_emitted_count : has_cycle_space_dimension h (length cs) ->
    has_cycle_space_dimension g (length (tcs ++ dcs)).
  Proof.
    intros HN. rewrite app_length.
    destruct (ap_translate_cycles _ _ _ Htr) as (_ & Et). rewrite Et, map_length.
    pose proof (ap_dropped_cycles D 0%Z dcs dw (incl_refl _) Hdr) as H.
    rewrite <- (ap_Forall2_length _ _ _ H). exact (ap_dimension g Hg sp Hsub HP Hpath _ HN).
  Qed.
End Run.

(* the weight of the translated spanner cycles, under the caller's weights *)
Lemma ap_translated_weight sp w cs tcs : translate_cycles (retained sp) cs = Some tcs ->
  total_weight w tcs = total_weight (spanner_weights w sp) cs.
Proof.
  intros H. destruct (ap_translate_cycles _ _ _ H) as (Hdom & ->). clear H. unfold total_weight.
  induction Hdom as [|C cs HC _ IH]; [reflexivity|]. cbn [map fold_right]. rewrite IH. f_equal.
  apply (ap_weight_map sp w C). exact HC.
Qed.

(* ---- inversion of approx_run ---------------------------------------------------------------------------- *)

Lemma ap_run_inv exact g w k scan cycles total :
  approx_run exact g w k scan = ApproxOk cycles total ->
  exists sp cs sw sup tcs dcs dw,
    construct_spanner g k scan = SpOk sp /\ 1 <= k /\
    exact (sp_graph sp) (spanner_weights w sp) = SvaOk cs sw sup /\
    translate_cycles (retained sp) cs = Some tcs /\
    dropped_cycles g w sp (dropped sp) 0%Z = inr (dcs, dw) /\
    cycles = tcs ++ dcs /\ total = ((0 + sw) + dw)%Z.
Proof.
  unfold approx_run. destruct (construct_spanner g k scan) as [sp| | |] eqn:Esp; try discriminate.
  destruct (Nat.ltb_spec k 1) as [|Hk]; [discriminate|].
  destruct (existsb _ _); [discriminate|].
  destruct (exact _ _) as [cs sw sup| | |] eqn:Eex; try discriminate.
  destruct (translate_cycles _ _) as [tcs|] eqn:Etr; [|discriminate].
  destruct (dropped_cycles _ _ _ _ _) as [err|[dcs dw]] eqn:Edr; [discriminate|].
  intros H. injection H as <- <-. exists sp, cs, sw, sup, tcs, dcs, dw. repeat split; auto.
Qed.

(* what construct_spanner provides for every scan order *)
Lemma ap_spanner_facts g k scan sp : simple_graph g -> Permutation scan (seq 0 (ne g)) ->
  construct_spanner g k scan = SpOk sp ->
  sp_sub g sp /\ Permutation (retained sp ++ dropped sp) (seq 0 (ne g)) /\
  (forall e u v, In e (dropped sp) -> ends g e = Some (u, v) ->
     exists p, walk g u p v /\ incl (wedges p) (retained sp) /\ within (max_hops k) (length p)).
Proof.
  intros Hg HP Hsp.
  assert (HS : StronglySorted (fun a b => (wt [] a <= wt [] b)%Z) scan).
  { clear. induction scan as [|a l IH]; constructor; auto. apply Forall_forall; intros x _. rewrite !wt_nil; lia. }
  destruct (construct_spanner_inv g [] k scan Hg HP HS) as (sp' & Hsp' & HI).
  rewrite Hsp in Hsp'. injection Hsp' as <-.
  split; [|split].
  - eapply SInv_sub; [|exact (fun e He => He)|exact HI]. apply scan_in_range; exact HP.
  - eapply Permutation_trans; [apply (S_perm _ _ _ _ _ HI)|exact HP].
  - intros e u v He Hends. destruct (S_path _ _ _ _ _ HI e u v He Hends) as (p & H1 & H2 & H3 & _).
    exists p. auto.
Qed.

(* ---- the final lemmas ------------------------------------------------------------------------------------- *)

(* the premise on the exact phase, stated for the one call approx_run makes *)
Definition exact_basis_on_spanner (exact : graph -> list Z -> sva_result Z) (g : graph) (w : list Z) (k : nat)
           (scan : list nat) : Prop :=
  forall sp cs t sup, construct_spanner g k scan = SpOk sp ->
    exact (sp_graph sp) (spanner_weights w sp) = SvaOk cs t sup ->
    cycle_basis (sp_graph sp) cs /\ has_cycle_space_dimension (sp_graph sp) (length cs).

Definition exact_weight_on_spanner (exact : graph -> list Z -> sva_result Z) (g : graph) (w : list Z) (k : nat)
           (scan : list nat) : Prop :=
  forall sp cs t sup, construct_spanner g k scan = SpOk sp ->
    exact (sp_graph sp) (spanner_weights w sp) = SvaOk cs t sup ->
    t = total_weight (spanner_weights w sp) cs.

Definition exact_min_on_spanner (exact : graph -> list Z -> sva_result Z) (g : graph) (w : list Z) (k : nat)
           (scan : list nat) : Prop :=
  forall sp cs t sup, construct_spanner g k scan = SpOk sp ->
    exact (sp_graph sp) (spanner_weights w sp) = SvaOk cs t sup ->
    min_cycle_basis (sp_graph sp) (spanner_weights w sp) cs.

Theorem ap_run_basis exact g w k scan cycles total :
  simple_graph g -> Permutation scan (seq 0 (ne g)) ->
  exact_basis_on_spanner exact g w k scan ->
  approx_run exact g w k scan = ApproxOk cycles total ->
  cycle_basis g (map set_of_list cycles)
  /\ has_cycle_space_dimension g (length cycles)
  /\ Forall (fun c => NoDup c /\ forall e, In e c -> e < ne g) cycles.
Proof.
  intros Hg HP Hex Hrun.
  destruct (ap_run_inv _ _ _ _ _ _ _ Hrun) as (sp & cs & sw & sup & tcs & dcs & dw & Hsp & Hk & Eex & Etr & Edr & -> & _).
  destruct (ap_spanner_facts g k scan sp Hg HP Hsp) as (Hsub & HPerm & Hpath).
  destruct (Hex sp cs sw sup Hsp Eex) as (Hcs & Hdim).
  assert (Hpath' : forall e u v, In e (dropped sp) -> ends g e = Some (u, v) ->
            exists p, walk g u p v /\ incl (wedges p) (retained sp)).
  { intros e u v He Hends. destruct (Hpath e u v He Hends) as (p & H1 & H2 & _). exists p; auto. }
  split; [|split].
  - eapply ap_emitted_basis; eauto.
  - eapply ap_emitted_count; eauto.
  - eapply ap_emitted_lists; eauto.
Qed.

Theorem ap_run_weight exact g w k scan cycles total :
  exact_weight_on_spanner exact g w k scan ->
  approx_run exact g w k scan = ApproxOk cycles total ->
  total = total_weight w cycles.
Proof.
  intros Hex Hrun.
  destruct (ap_run_inv _ _ _ _ _ _ _ Hrun) as (sp & cs & sw & sup & tcs & dcs & dw & Hsp & Hk & Eex & Etr & Edr & -> & ->).
  rewrite ap_total_weight_app, (ap_translated_weight sp w cs tcs Etr), <- (Hex sp cs sw sup Hsp Eex).
  rewrite (ap_dropped_cycles_weight _ _ _ _ _ _ _ Edr). lia.
Qed.

(* k = 0: never a result; on a simple graph the throw is reached (the constructor has built the spanner) *)
Theorem ap_run_k0_never_ok exact g w scan cycles total : approx_run exact g w 0 scan <> ApproxOk cycles total.
Proof. unfold approx_run. destruct (construct_spanner g 0 scan); discriminate. Qed.

Theorem ap_run_k0 exact g w scan :
  simple_graph g -> Permutation scan (seq 0 (ne g)) -> approx_run exact g w 0 scan = ApproxThrow.
Proof.
  intros Hg HP. destruct (construct_spanner_k0_total g scan Hg HP) as (sp & Hsp).
  unfold approx_run. rewrite Hsp. reflexivity.
Qed.

(* k = 1: nothing is dropped *)
Theorem ap_k1_nothing_dropped g scan sp :
  simple_graph g -> Permutation scan (seq 0 (ne g)) -> construct_spanner g 1 scan = SpOk sp -> dropped sp = [].
Proof.
  intros Hg HP Hsp. destruct (ap_spanner_facts g 1 scan sp Hg HP Hsp) as (Hsub & HPerm & Hpath).
  assert (Hno : forall e, In e (dropped sp) -> False);
    [|destruct (dropped sp) as [|e ds]; [reflexivity|exfalso; apply (Hno e); left; reflexivity]].
  intros e He.
  pose proof (ends_nth_ge g e (ap_D_lt g sp HPerm e He)) as Hends.
  destruct (nth e (ge g) (0, 0)) as [u v].
  destruct (simple_ends g e u v Hg Hends) as (_ & _ & Huv).
  destruct (Hpath e u v He Hends) as (p & Hw & Hincl & Hlen). cbn in Hlen.
  destruct p as [|[a y] p]; [inversion Hw; subst; contradiction|].
  destruct p as [|? p]; [|cbn [length] in Hlen; lia].
  inversion Hw as [|? ? ? ? ? Hj Hw']; subst. inversion Hw'; subst.
  assert (Ea : a = e) by (eapply ap_simple_joins_unique; eauto; left; exact Hends). subst a.
  apply (ap_RD_disjoint g sp HPerm e); [apply Hincl; left; reflexivity|exact He].
Qed.

Theorem ap_run_k1_min exact g w scan cycles total :
  simple_graph g -> Permutation scan (seq 0 (ne g)) ->
  exact_min_on_spanner exact g w 1 scan ->
  approx_run exact g w 1 scan = ApproxOk cycles total ->
  min_cycle_basis g w (map set_of_list cycles).
Proof.
  intros Hg HP Hex Hrun.
  destruct (ap_run_inv _ _ _ _ _ _ _ Hrun) as (sp & cs & sw & sup & tcs & dcs & dw & Hsp & Hk & Eex & Etr & Edr & -> & _).
  destruct (ap_spanner_facts g 1 scan sp Hg HP Hsp) as (Hsub & HPerm & _).
  pose proof (ap_k1_nothing_dropped g scan sp Hg HP Hsp) as HD.
  rewrite HD in Edr. cbn [dropped_cycles] in Edr. injection Edr as <- _. rewrite app_nil_r.
  destruct (ap_translate_cycles _ _ _ Etr) as (_ & ->). rewrite map_map.
  rewrite (map_ext _ (fwd sp)) by reflexivity.
  apply (ap_all_kept_min g Hg sp Hsub HPerm HD w cs). exact (Hex sp cs sw sup Hsp Eex).
Qed.

(* helper for the concrete non-vacuity examples of Properties_C05 / Properties_C06 *)
Lemma ap_lt_9_In v : v < 9 -> In v [0; 1; 2; 3; 4; 5; 6; 7; 8].
Proof. intros Hv. do 9 (destruct v as [|v]; [cbn [In]; tauto|]). exfalso. lia. Qed.
