(* ApproxGlobalProofs3.v — the graph-theoretic part of C06_global: replacing every dropped edge of a walk by a
   stretch-t path of retained edges, and the two per-phase t-approximation bounds.

   Setting: g simple with positive weights, sp a spanner of g (retained/dropped partition the edges, the spanner
   graph h is the relabelled subgraph of the retained edges), t >= 1, and for every dropped edge e = (u,v) a chosen
   walk P e from u to v over retained edges with  w(P e) <= t * w(e)   (C15_stretch, t = 2k-1).

     ag_subst_walk     every walk of g can be turned into a walk with the same ends over retained edges only, of
                       weight <= t * (weight of the walk), whose parity w.r.t. any sign function f on the retained
                       edges is the parity of the original walk w.r.t. the extended sign function  ext f
                       (a dropped edge gets the parity of its path).
     ag_dropped_bound  (3a) the cycle emitted for a dropped edge e weighs <= t * w(D) for EVERY simple cycle D of g
                       through e  (D - e is a walk between the ends of e; substitute; the plain Dijkstra on the
                       spanner is optimal, ApproxProofsEdge.ap_dropped_cycle_bound).
     ag_spanner_bound  (3b) if C is a minimum simple cycle of the spanner among those odd w.r.t. the signed edge
                       set sg, then  wh(C) <= t * w(D)  for every simple cycle D of g that is odd w.r.t. the
                       extension of sg  (substitute, move the closed walk to the spanner, shortcut it to an odd
                       simple cycle of no greater weight: RefProofs1.rf_shortcut_simple_cycle).
     ag_ext_fwd        the extension agrees with sg on translated spanner cycles.
   Prefix ag_.  No axioms. *)
From Coq Require Import List Arith Bool ZArith Lia Sorted Permutation.
From Parmcb Require Import GF2Model GF2Proofs GraphModel GraphSpec GF2Lin McbSpec DePinaSpec DePinaProofs GraphLemmas
  SpannerModel SpannerProofs RefModel RefProofs1 RefProofs5 DijkstraModel ApproxModel
  ApproxProofsRelabel ApproxProofs ApproxProofsBasis ApproxProofsRun ApproxProofsEdge ApproxGlobalProofs1.
Import ListNotations.

(* finite choice over a list of naturals *)
Lemma ag_choice {A} (d : A) (l : list nat) (Q : nat -> A -> Prop) :
  (forall e, In e l -> exists p, Q e p) -> exists P : nat -> A, forall e, In e l -> Q e (P e).
Proof.
  induction l as [|a l IH]; intros H.
  - exists (fun _ => d). intros e [].
  - destruct IH as (P' & HP'); [intros e He; apply H; right; exact He|].
    destruct (H a (or_introl eq_refl)) as (p & Hp).
    exists (fun e => if Nat.eqb e a then p else P' e). intros e He.
    destruct (Nat.eqb_spec e a) as [->|Hne]; [exact Hp|].
    destruct He as [E|He]; [congruence|]. apply HP'; exact He.
Qed.

Section Subst.
  Variable g : graph.
  Hypothesis Hg : simple_graph g.
  Variable sp : spanner.
  Hypothesis Hsub : sp_sub g sp.
  Hypothesis HP : Permutation (retained sp ++ dropped sp) (seq 0 (ne g)).
  Variable w : list Z.
  Hypothesis Hlen : length w = ne g.
  Hypothesis Hpos : Forall (fun x => (0 < x)%Z) w.
  Variable t : Z.
  Hypothesis Ht : (1 <= t)%Z.
  Variable P : nat -> list (nat * nat).
  Hypothesis HPath : forall e u v, In e (dropped sp) -> ends g e = Some (u, v) ->
    walk g u (P e) v /\ incl (wedges (P e)) (retained sp)
    /\ (weight w (wedges (P e)) <= t * wt w e)%Z.

  Notation R := (retained sp).
  Notation D := (dropped sp).
  Notation h := (sp_graph sp).
  Notation wh := (spanner_weights w sp).

  Lemma ag_wt_nonneg e : (0 <= wt w e)%Z.
  Proof.
    unfold wt. destruct (nth_in_or_default e w 0%Z) as [Hin|E]; [|rewrite E; lia].
    rewrite Forall_forall in Hpos. apply Hpos in Hin. lia.
  Qed.

  Lemma ag_pw_g : positive_weights g w.
  Proof. split; assumption. Qed.

  Lemma ag_pw_h : positive_weights h wh.
  Proof.
    split; [eapply ap_spanner_weights_length; eauto|eapply ap_spanner_weights_pos; eauto].
  Qed.

  Lemma ag_h_simple : simple_graph h.
  Proof. eapply ap_sp_simple; eauto. Qed.

  (* the sign of an edge of g induced by a sign function on the retained edges *)
  Definition ext (f : nat -> bool) (e : nat) : bool :=
    if memb e R then f e else oddf f (wedges (P e)).

  Lemma ag_ext_R f e : In e R -> ext f e = f e.
  Proof. intros He. unfold ext. apply gl_memb_In in He. rewrite He. reflexivity. Qed.

  Lemma ag_ext_D f e : In e D -> ext f e = oddf f (wedges (P e)).
  Proof.
    intros He. unfold ext. destruct (memb e R) eqn:E; [|reflexivity].
    apply gl_memb_In in E. exfalso. exact (ap_RD_disjoint g sp HP e E He).
  Qed.

  Lemma ag_subst_walk x p z : walk g x p z ->
    exists q, walk g x q z /\ incl (wedges q) R
      /\ (weight w (wedges q) <= t * weight w (wedges p))%Z
      /\ forall f, oddf f (wedges q) = oddf (ext f) (wedges p).
  Proof.
    induction 1 as [x Hx|x e y p z Hj Hw IH].
    - exists []. split; [constructor; exact Hx|]. split; [intros a []|].
      split; [unfold weight; cbn [wedges map fold_right]; lia|]. intros f. reflexivity.
    - destruct IH as (q' & Hw' & Hin' & Hle' & Hodd').
      pose proof (ag_wt_nonneg e) as Hwe.
      cbn [wedges map fst]. fold (wedges p).
      destruct (ap_RD_cover g sp HP e (gl_joins_lt g e x y Hj)) as [HeR|HeD].
      + exists ((e, y) :: q'). split; [econstructor; eauto|].
        cbn [wedges map fst]. fold (wedges q'). split; [|split].
        * intros a [<-|Ha]; [exact HeR|apply Hin'; exact Ha].
        * rewrite !ag_weight_cons. nia.
        * intros f. rewrite !ag_oddf_cons, Hodd', (ag_ext_R f e HeR). reflexivity.
      + assert (Hq1 : exists q1, walk g x q1 y /\ Permutation (wedges q1) (wedges (P e))).
        { destruct Hj as [He|He].
          - destruct (HPath e x y HeD He) as (H1 & _). exists (P e). split; [exact H1|apply Permutation_refl].
          - destruct (HPath e y x HeD He) as (H1 & _). exists (revw y (P e)).
            split; [apply rf_revw_walk; assumption|].
            rewrite rf_revw_edges. apply Permutation_sym, Permutation_rev. }
        destruct Hq1 as (q1 & Hw1 & Hperm).
        assert (HPe : incl (wedges (P e)) R /\ (weight w (wedges (P e)) <= t * wt w e)%Z).
        { destruct Hj as [He|He]; [destruct (HPath e x y HeD He) as (_ & H2 & H3)
                                  |destruct (HPath e y x HeD He) as (_ & H2 & H3)]; split; assumption. }
        destruct HPe as (HinP & HleP).
        exists (q1 ++ q'). split; [eapply gl_walk_app; eauto|].
        rewrite (rf_wedges_app q1 q'). split; [|split].
        * intros a Ha. apply in_app_or in Ha as [Ha|Ha]; [|apply Hin'; exact Ha].
          apply HinP. eapply Permutation_in; [exact Hperm|exact Ha].
        * rewrite ag_weight_app, ag_weight_cons, (ag_weight_perm w _ _ Hperm). nia.
        * intros f. rewrite ag_oddf_app, ag_oddf_cons, Hodd', (ag_ext_D f e HeD).
          rewrite (ag_oddf_perm f _ _ Hperm). reflexivity.
  Qed.

  (* a simple cycle as a closed walk whose edge list is a permutation of the cycle *)
  Lemma ag_cycle_walk Dc : simple_cycle g Dc ->
    exists x p, walk g x p x /\ Permutation Dc (wedges p).
  Proof.
    intros (_ & HS & x & p & Hw & Hnde & _ & HE). exists x, p. split; [exact Hw|].
    apply NoDup_Permutation; [apply gl_sorted_NoDup; exact HS|exact Hnde|exact HE].
  Qed.

  (* ---- (3a) the cycle of a dropped edge ------------------------------------------------------------ *)

  Lemma ag_dropped_bound e cyc cw Dc :
    In e D -> dropped_cycle g w sp e = inr (cyc, cw) ->
    simple_cycle g Dc -> In e Dc -> (cw <= t * weight w Dc)%Z.
  Proof.
    intros He Hdc HDc HeDc.
    destruct (ag_cycle_walk Dc HDc) as (x & p & Hw & Hperm).
    rewrite (ag_weight_perm w _ _ Hperm).
    assert (Hin : In e (wedges p)) by (eapply Permutation_in; eauto).
    unfold wedges in Hin. apply in_map_iff in Hin as ([e' y] & E & Hin). cbn [fst] in E. subst e'.
    apply in_split in Hin as (p1 & p2 & ->).
    destruct (rf_walk_app_inv g Hg _ _ _ _ Hw) as (a & Hw1 & Hw2).
    inversion Hw2 as [|? ? ? ? ? Hj Hw3]; subst.
    pose proof (gl_walk_app g y p2 x p1 a Hw3 Hw1) as Hr.
    destruct (ag_subst_walk y (p2 ++ p1) a Hr) as (q & Hwq & Hinq & Hleq & _).
    pose proof (ag_wt_nonneg e) as Hwe.
    assert (Hwp : weight w (wedges (p1 ++ (e, y) :: p2))
                  = (weight w (wedges (p2 ++ p1)) + wt w e)%Z).
    { unfold wedges. rewrite !map_app. cbn [map fst]. rewrite !ag_weight_app, ag_weight_cons. lia. }
    rewrite Hwp.
    assert (Hb : (cw <= weight w (wedges q) + wt w e)%Z).
    { destruct Hj as [Hends|Hends].
      - (* ends g e = (a, y): the walk has to go from a to y *)
        pose proof (rf_revw_walk g Hg q y a Hwq) as Hwr.
        pose proof (ap_dropped_cycle_bound g Hg sp Hsub HP w Hlen Hpos e a y (revw y q) cyc cw He Hends Hwr) as Hb.
        rewrite rf_revw_edges in Hb.
        rewrite (ag_weight_perm w _ _ (Permutation_sym (Permutation_rev (wedges q)))) in Hb.
        apply Hb; [|exact Hdc]. intros b Hb'. apply Hinq. apply in_rev. exact Hb'.
      - exact (ap_dropped_cycle_bound g Hg sp Hsub HP w Hlen Hpos e y a q cyc cw He Hends Hwq Hinq Hdc). }
    nia.
  Qed.

  (* ---- (3b) a phase of the exact algorithm on the spanner ------------------------------------------ *)

  (* the sign function on retained edges induced by a signed edge set of the spanner *)
  Definition rsg (sg : list nat) (e : nat) : bool := memb (tri sp e) sg.

  Lemma ag_oddb_oddf sg l : oddb sg l = oddf (fun e => memb e sg) l.
  Proof. reflexivity. Qed.

  Lemma ag_spanner_bound sg C Dc :
    min_odd_cycle h wh (fun X => oddb sg X = true) C ->
    simple_cycle g Dc -> oddf (ext (rsg sg)) Dc = true ->
    (weight wh C <= t * weight w Dc)%Z.
  Proof.
    intros (_ & _ & Hmin) HDc Hodd.
    destruct (ag_cycle_walk Dc HDc) as (x & p & Hw & Hperm).
    rewrite (ag_weight_perm w _ _ Hperm). rewrite (ag_oddf_perm _ _ _ Hperm) in Hodd.
    destruct (ag_subst_walk x p x Hw) as (q & Hwq & Hinq & Hleq & Hoddq).
    rewrite <- Hoddq in Hodd.
    (* the closed walk, seen in the spanner *)
    assert (Hbe : forall e0, domE sp e0 -> e0 < ne g /\ ends g e0 = ends h (tri sp e0)) by (eapply ap_bwd_ends; eauto).
    assert (Hdq : Forall (domE sp) (wedges q)) by (apply Forall_forall; exact Hinq).
    pose proof (rl_walk g h (domE sp) (tri sp) (eq_sym (ap_nv_h g sp Hsub)) Hbe x q x Hwq Hdq) as Hwh.
    assert (Hoh : oddb sg (wedges (map (rl_step (tri sp)) q)) = true).
    { rewrite rl_wedges, ag_oddb_oddf, ag_oddf_map. exact Hodd. }
    destruct (rf_shortcut_simple_cycle h wh sg ag_h_simple ag_pw_h _ x Hwh Hoh) as (p' & _ & Hsc & Ho & Hle).
    rewrite rl_wedges, (ap_weight_back sp w q Hinq) in Hle.
    specialize (Hmin _ Hsc Ho). lia.
  Qed.

  (* ---- the extension on translated spanner cycles --------------------------------------------------- *)

  Lemma ag_ext_fwd sg C : sorted C -> Forall (domR sp) C ->
    oddf (ext (rsg sg)) (fwd sp C) = oddb sg C.
  Proof.
    intros HS HD.
    assert (Hinj : forall i j, domR sp i -> domR sp j -> tr sp i = tr sp j -> i = j) by (eapply ap_fwd_inj; eauto).
    unfold fwd. rewrite <- (ag_oddf_perm _ _ _ (rl_trv_perm (domR sp) (tr sp) Hinj C (gl_sorted_NoDup C HS) HD)).
    rewrite ag_oddf_map, ag_oddb_oddf. apply ag_oddf_ext. intros i Hi.
    rewrite Forall_forall in HD. specialize (HD i Hi).
    rewrite ag_ext_R by (apply ap_tr_In; exact HD). unfold rsg.
    rewrite (ap_tri_tr g sp HP i HD). reflexivity.
  Qed.

  Lemma ag_fwd_no_dropped C d : Forall (domR sp) C -> In d D -> mem (fwd sp C) d = false.
  Proof.
    intros HD Hd. apply ap_mem_false_notin. intros Hin.
    pose proof (ap_fwd_in_R sp C HD) as H. rewrite Forall_forall in H.
    exact (ap_RD_disjoint g sp HP d (H d Hin) Hd).
  Qed.
End Subst.

Print Assumptions ag_subst_walk.
Print Assumptions ag_dropped_bound.
Print Assumptions ag_spanner_bound.
