(* HeapProofs.v — the 4-ary indirect heap of HeapModel.v is a correct priority queue (statements: HeapSpec.v). *)
From Coq Require Import List Arith Bool Permutation Lia ZifyBool ZArith.
From Parmcb Require Import HeapModel HeapSpec SignedModel.
Import ListNotations.

(* ---- positions -------------------------------------------------------------------------------- *)

Lemma hparent_lt j : 0 < j -> hparent j < j.
Proof. unfold hparent. intros Hj. pose proof (Nat.div_mod (j - 1) 4 ltac:(lia)) as H. lia. Qed.

Lemma hparent_iff j i : 0 < j -> (hparent j = i <-> 4 * i + 1 <= j <= 4 * i + 4).
Proof. unfold hparent. intros Hj. pose proof (Nat.div_mod (j - 1) 4 ltac:(lia)) as H.
  pose proof (Nat.mod_upper_bound (j - 1) 4 ltac:(lia)) as H'. lia. Qed.

(* ---- arrays ----------------------------------------------------------------------------------- *)

Lemma hset_nth_length {A} (l : list A) : forall i x, length (set_nth l i x) = length l.
Proof.
  induction l as [|y l IH]; intros i x; [reflexivity|].
  destruct i as [|i]; cbn [set_nth length]; auto.
Qed.

Lemma hnth_set_nth {A} (l : list A) : forall i x j d, i < length l ->
  nth j (set_nth l i x) d = if Nat.eqb j i then x else nth j l d.
Proof.
  induction l as [|y l IH]; intros i x j d Hi; [cbn [length] in Hi; lia|].
  destruct i as [|i]; cbn [set_nth].
  - destruct j as [|j]; reflexivity.
  - destruct j as [|j]; [reflexivity|]. cbn [nth length] in *. rewrite IH by lia. reflexivity.
Qed.

Definition swap (data : list nat) (i j : nat) : list nat :=
  set_nth (set_nth data i (nth j data 0)) j (nth i data 0).

Lemma swap_length data i j : length (swap data i j) = length data.
Proof. unfold swap. rewrite !hset_nth_length. reflexivity. Qed.

Lemma nth_swap data i j k : i < length data -> j < length data ->
  nth k (swap data i j) 0 =
  if Nat.eqb k j then nth i data 0 else if Nat.eqb k i then nth j data 0 else nth k data 0.
Proof.
  intros Hi Hj. unfold swap.
  rewrite hnth_set_nth by (rewrite hset_nth_length; exact Hj).
  destruct (Nat.eqb k j); [reflexivity|]. rewrite hnth_set_nth by exact Hi. reflexivity.
Qed.

Lemma swap_NoDup data i j : NoDup data -> i < length data -> j < length data ->
  NoDup (swap data i j).
Proof.
  intros Hnd Hi Hj. rewrite (NoDup_nth _ 0) in Hnd. rewrite (NoDup_nth _ 0).
  intros x y Hx Hy E. rewrite swap_length in Hx, Hy. rewrite !nth_swap in E by assumption.
  destruct (Nat.eqb_spec x j) as [Exj|Exj]; destruct (Nat.eqb_spec y j) as [Eyj|Eyj];
  destruct (Nat.eqb_spec x i) as [Exi|Exi]; destruct (Nat.eqb_spec y i) as [Eyi|Eyi];
  try lia; apply Hnd in E; lia.
Qed.

Lemma swap_In data i j x : i < length data -> j < length data ->
  In x data -> In x (swap data i j).
Proof.
  intros Hi Hj Hin. destruct (In_nth _ _ 0 Hin) as (k & Hk & Ek).
  destruct (Nat.eq_dec k j) as [Ekj|Ekj].
  - rewrite <- Ek. subst k.
    replace (nth j data 0) with (nth i (swap data i j) 0).
    + apply nth_In. rewrite swap_length. exact Hi.
    + rewrite nth_swap by assumption. rewrite Nat.eqb_refl.
      destruct (Nat.eqb_spec i j) as [E|E]; [subst; reflexivity|reflexivity].
  - destruct (Nat.eq_dec k i) as [Eki|Eki].
    + rewrite <- Ek. subst k.
      replace (nth i data 0) with (nth j (swap data i j) 0).
      * apply nth_In. rewrite swap_length. exact Hj.
      * rewrite nth_swap by assumption. rewrite Nat.eqb_refl. reflexivity.
    + rewrite <- Ek.
      replace (nth k data 0) with (nth k (swap data i j) 0).
      * apply nth_In. rewrite swap_length. exact Hk.
      * rewrite nth_swap by assumption.
        destruct (Nat.eqb_spec k j) as [E|E]; [lia|].
        destruct (Nat.eqb_spec k i) as [E'|E']; [lia|]. reflexivity.
Qed.

Lemma swap_swap data i j : i < length data -> j < length data ->
  swap (swap data i j) i j = data.
Proof.
  intros Hi Hj. apply (nth_ext _ _ 0 0).
  - rewrite !swap_length. reflexivity.
  - intros k Hk. rewrite !swap_length in Hk.
    rewrite nth_swap by (rewrite swap_length; assumption).
    rewrite !nth_swap by assumption. rewrite !Nat.eqb_refl.
    destruct (Nat.eqb_spec k j) as [E|E].
    + subst k. destruct (Nat.eqb_spec i j) as [E'|E']; [subst; reflexivity|reflexivity].
    + destruct (Nat.eqb_spec k i) as [E'|E']; [|reflexivity].
      subst k. reflexivity.
Qed.

Lemma swap_perm data i j : NoDup data -> i < length data -> j < length data ->
  Permutation data (swap data i j).
Proof.
  intros Hnd Hi Hj. apply NoDup_Permutation.
  - exact Hnd.
  - apply swap_NoDup; assumption.
  - intros x. split.
    + apply swap_In; assumption.
    + intros Hin. rewrite <- (swap_swap data i j) by assumption.
      apply swap_In; rewrite ?swap_length; assumption.
Qed.

Lemma nth_firstn_lt {A} : forall n (l : list A) k d, k < n -> nth k (firstn n l) d = nth k l d.
Proof.
  induction n as [|n IH]; intros l k d Hk; [lia|].
  destruct l as [|x l]; [reflexivity|]. destruct k as [|k]; [reflexivity|].
  cbn [firstn nth]. apply IH. lia.
Qed.

Lemma nth_skipn_add {A} : forall m (l : list A) k d, nth k (skipn m l) d = nth (m + k) l d.
Proof.
  induction m as [|m IH]; intros l k d; [reflexivity|].
  destruct l as [|x l]; [destruct k; reflexivity|].
  cbn [skipn plus nth]. apply IH.
Qed.

Lemma skipn_cons_inv {A} : forall i (cl : list A) c r d, skipn i cl = c :: r ->
  i < length cl /\ nth i cl d = c /\ skipn (S i) cl = r.
Proof.
  induction i as [|i IH]; intros cl c r d E.
  - destruct cl as [|x cl]; [discriminate|]. cbn [skipn] in E. inversion E; subst.
    cbn [length nth skipn]. repeat split. lia.
  - destruct cl as [|x cl]; [discriminate|]. cbn [skipn] in E.
    destruct (IH cl c r d E) as (H1 & H2 & H3). cbn [length nth]. repeat split; [lia|exact H2|exact H3].
Qed.

(* ---- the order -------------------------------------------------------------------------------- *)

Section Order.
  Variable K : Type.
  Variable kltb : K -> K -> bool.
  Hypothesis swo : strict_weak_order K kltb.
  Notation kle := (kle K kltb).

  Lemma kle_refl a : kle a a.
  Proof. apply (swo_irrefl _ _ swo). Qed.

  Lemma kle_trans a b c : kle a b -> kle b c -> kle a c.
  Proof. apply (swo_le_trans _ _ swo). Qed.

  Lemma klt_kle a b : kltb a b = true -> kle a b.
  Proof.
    intros Hab. unfold HeapSpec.kle. destruct (kltb b a) eqn:Eba; [|reflexivity].
    pose proof (swo_trans _ _ swo a b a Hab Eba) as H. rewrite (swo_irrefl _ _ swo) in H. discriminate.
  Qed.

  Lemma klt_kle_trans a b c : kltb a b = true -> kle b c -> kle a c.
  Proof. intros Hab Hbc. eapply kle_trans; [apply klt_kle; exact Hab|exact Hbc]. Qed.

  (* ---- sift-up: the hole invariant ------------------------------------------------------------ *)

  Definition up_inv (a : nat -> K) (n i : nat) : Prop :=
    (forall j, 0 < j < n -> j <> i -> kle (a (hparent j)) (a j)) /\
    (forall j, 0 < j < n -> hparent j = i -> 0 < i -> kle (a (hparent i)) (a j)).

  Lemma up_step a a' n i :
    up_inv a n i -> 0 < i < n -> kltb (a i) (a (hparent i)) = true ->
    (forall k, a' k = if Nat.eqb k (hparent i) then a i else if Nat.eqb k i then a (hparent i) else a k) ->
    up_inv a' n (hparent i).
  Proof.
    intros [H1 H2] Hi Hlt Ha'. pose proof (hparent_lt i (proj1 Hi)) as Hp. split.
    - intros j Hj Hjp. pose proof (hparent_lt j (proj1 Hj)) as Hpj. rewrite !Ha'.
      destruct (Nat.eqb_spec j (hparent i)) as [E1|E1]; [lia|].
      destruct (Nat.eqb_spec j i) as [E2|E2].
      + subst j. rewrite Nat.eqb_refl. apply klt_kle. exact Hlt.
      + destruct (Nat.eqb_spec (hparent j) (hparent i)) as [E3|E3].
        * apply (klt_kle_trans _ _ _ Hlt). rewrite <- E3. apply H1; assumption.
        * destruct (Nat.eqb_spec (hparent j) i) as [E4|E4].
          -- apply H2; [assumption|assumption|lia].
          -- apply H1; assumption.
    - intros j Hj Hjp Hp0. pose proof (hparent_lt j (proj1 Hj)) as Hpj.
      pose proof (hparent_lt (hparent i) Hp0) as Hpp. rewrite !Ha'.
      destruct (Nat.eqb_spec (hparent (hparent i)) (hparent i)) as [E1|E1]; [lia|].
      destruct (Nat.eqb_spec (hparent (hparent i)) i) as [E2|E2]; [lia|].
      destruct (Nat.eqb_spec j (hparent i)) as [E3|E3]; [lia|].
      assert (Hpe : kle (a (hparent (hparent i))) (a (hparent i))) by (apply H1; lia).
      destruct (Nat.eqb_spec j i) as [E4|E4]; [exact Hpe|].
      apply (kle_trans _ _ _ Hpe). rewrite <- Hjp. apply H1; assumption.
  Qed.

  (* ---- sift-down ------------------------------------------------------------------------------ *)

  Definition down_inv (a : nat -> K) (n i : nat) : Prop :=
    (forall j, 0 < j < n -> hparent j <> i -> kle (a (hparent j)) (a j)) /\
    (forall j, 0 < j < n -> hparent j = i -> 0 < i -> kle (a (hparent i)) (a j)).

  Lemma down_step a a' n i ci :
    down_inv a n i -> 0 < ci < n -> hparent ci = i ->
    (forall j, 0 < j < n -> hparent j = i -> kle (a ci) (a j)) ->
    kltb (a ci) (a i) = true ->
    (forall k, a' k = if Nat.eqb k ci then a i else if Nat.eqb k i then a ci else a k) ->
    down_inv a' n ci.
  Proof.
    intros [H1 H2] Hci Hpc Hmin Hlt Ha'. pose proof (hparent_lt ci (proj1 Hci)) as Hp. split.
    - intros j Hj Hjp. pose proof (hparent_lt j (proj1 Hj)) as Hpj. rewrite !Ha'.
      destruct (Nat.eqb_spec (hparent j) ci) as [E1|E1]; [lia|].
      destruct (Nat.eqb_spec (hparent j) i) as [E2|E2].
      + destruct (Nat.eqb_spec j ci) as [E3|E3]; [apply klt_kle; exact Hlt|].
        destruct (Nat.eqb_spec j i) as [E4|E4]; [lia|]. apply Hmin; assumption.
      + destruct (Nat.eqb_spec j ci) as [E3|E3]; [subst j; lia|].
        destruct (Nat.eqb_spec j i) as [E4|E4].
        * subst j. apply H2; [exact Hci|exact Hpc|lia].
        * apply H1; assumption.
    - intros j Hj Hjp Hc0. pose proof (hparent_lt j (proj1 Hj)) as Hpj. rewrite !Ha'. rewrite Hpc.
      destruct (Nat.eqb_spec i ci) as [E1|E1]; [lia|]. rewrite Nat.eqb_refl.
      destruct (Nat.eqb_spec j ci) as [E2|E2]; [lia|].
      destruct (Nat.eqb_spec j i) as [E3|E3]; [lia|].
      rewrite <- Hjp. apply H1; [assumption|lia].
  Qed.

  (* ---- with the arrays ------------------------------------------------------------------------ *)
  Variable key : nat -> K.
  Notation heap_ok := (heap_ok K kltb key).
  Notation sift_up := (sift_up K kltb key).
  Notation sift_down := (sift_down K kltb key).
  Notation smallest_child := (smallest_child K kltb key).
  Notation arr data := (fun k => key (nth k data 0)).

  Lemma sift_up_S fuel data i : 0 < i ->
    sift_up (S fuel) data i =
    if kltb (key (nth i data 0)) (key (nth (hparent i) data 0))
    then sift_up fuel (swap data i (hparent i)) (hparent i) else data.
  Proof. intros Hi. destruct i as [|i]; [lia|reflexivity]. Qed.

  Lemma sift_up_correct : forall fuel data i,
    i <= fuel -> i < length data -> NoDup data -> up_inv (arr data) (length data) i ->
    heap_ok (sift_up fuel data i) /\ Permutation data (sift_up fuel data i).
  Proof.
    induction fuel as [|fuel IH]; intros data i Hf Hi Hnd Hinv.
    - assert (i = 0) by lia. subst i. cbn [HeapModel.sift_up]. split; [|apply Permutation_refl].
      split; [exact Hnd|]. intros j Hj. apply (proj1 Hinv); lia.
    - destruct (Nat.eq_dec i 0) as [Ei|Ei].
      + subst i. cbn [HeapModel.sift_up]. split; [|apply Permutation_refl].
        split; [exact Hnd|]. intros j Hj. apply (proj1 Hinv); lia.
      + rewrite sift_up_S by lia. pose proof (hparent_lt i ltac:(lia)) as Hp.
        destruct (kltb (key (nth i data 0)) (key (nth (hparent i) data 0))) eqn:Elt.
        * destruct (IH (swap data i (hparent i)) (hparent i)) as [Hok Hperm].
          -- lia.
          -- rewrite swap_length. lia.
          -- apply swap_NoDup; [exact Hnd|lia|lia].
          -- rewrite swap_length.
             apply (up_step (arr data) _ (length data) i Hinv); [lia|exact Elt|].
             intros k. cbv beta. rewrite nth_swap by lia.
             destruct (Nat.eqb k (hparent i)); [reflexivity|].
             destruct (Nat.eqb k i); reflexivity.
          -- split; [exact Hok|]. eapply Permutation_trans; [|exact Hperm].
             apply swap_perm; [exact Hnd|lia|lia].
        * split; [|apply Permutation_refl]. split; [exact Hnd|].
          intros j Hj. destruct (Nat.eq_dec j i) as [Eji|Eji].
          -- subst j. exact Elt.
          -- apply (proj1 Hinv); assumption.
  Qed.

  Lemma sift_down_S fuel data i :
    sift_down (S fuel) data i =
    match firstn 4 (skipn (4 * i + 1) data) with
    | [] => data
    | c0 :: cs =>
        let '(si, sk) := smallest_child cs 1 0 (key c0) in
        if kltb sk (key (nth i data 0))
        then sift_down fuel (swap data i (4 * i + 1 + si)) (4 * i + 1 + si) else data
    end.
  Proof. reflexivity. Qed.

  Lemma smallest_child_spec : forall cs cl i besti bestk,
    skipn i cl = cs -> besti < i -> i <= length cl -> bestk = key (nth besti cl 0) ->
    (forall k, k < i -> kle bestk (key (nth k cl 0))) ->
    let '(si, sk) := smallest_child cs i besti bestk in
    si < length cl /\ sk = key (nth si cl 0) /\ forall k, k < length cl -> kle sk (key (nth k cl 0)).
  Proof.
    induction cs as [|c r IH]; intros cl i besti bestk Hsk Hb Hil Hbk Hmin.
    - cbn [HeapModel.smallest_child].
      assert (Hlen : length (skipn i cl) = 0) by (rewrite Hsk; reflexivity).
      rewrite skipn_length in Hlen. assert (i = length cl) by lia. subst i.
      repeat split; [exact Hb|exact Hbk|exact Hmin].
    - cbn [HeapModel.smallest_child].
      destruct (skipn_cons_inv i cl c r 0 Hsk) as (Hi & Hc & Hr).
      destruct (kltb (key c) bestk) eqn:Elt.
      + apply IH; [exact Hr|lia|lia|rewrite Hc; reflexivity|].
        intros k Hk. destruct (Nat.eq_dec k i) as [E|E].
        * subst k. rewrite Hc. apply kle_refl.
        * apply (klt_kle_trans _ _ _ Elt). apply Hmin. lia.
      + apply IH; [exact Hr|lia|lia|exact Hbk|].
        intros k Hk. destruct (Nat.eq_dec k i) as [E|E].
        * subst k. rewrite Hc. exact Elt.
        * apply Hmin. lia.
  Qed.

  Lemma sift_down_correct : forall fuel data i,
    length data <= fuel + i -> NoDup data -> down_inv (arr data) (length data) i ->
    heap_ok (sift_down fuel data i) /\ Permutation data (sift_down fuel data i).
  Proof.
    induction fuel as [|fuel IH]; intros data i Hf Hnd Hinv.
    - cbn [HeapModel.sift_down]. split; [|apply Permutation_refl]. split; [exact Hnd|].
      intros j Hj. pose proof (hparent_lt j (proj1 Hj)) as Hpj. apply (proj1 Hinv); lia.
    - rewrite sift_down_S.
      set (fc := 4 * i + 1). set (cl := firstn 4 (skipn fc data)).
      assert (Hlen : length cl = Nat.min 4 (length data - fc))
        by (unfold cl; rewrite firstn_length, skipn_length; reflexivity).
      assert (Hnth : forall k, k < length cl -> nth k cl 0 = nth (fc + k) data 0).
      { intros k Hk. unfold cl. rewrite nth_firstn_lt by lia. apply nth_skipn_add. }
      destruct cl as [|c0 cs] eqn:Ecl.
      + (* no children *)
        cbn [length] in Hlen. split; [|apply Permutation_refl]. split; [exact Hnd|].
        intros j Hj. apply (proj1 Hinv); [exact Hj|].
        intros Hp. apply (hparent_iff j i (proj1 Hj)) in Hp. unfold fc in Hlen. lia.
      + pose proof (smallest_child_spec cs (c0 :: cs) 1 0 (key c0)) as Hsc.
        destruct (smallest_child cs 1 0 (key c0)) as [si sk].
        destruct Hsc as (Hsi & Hsk & Hmin).
        { reflexivity. } { lia. } { cbn [length]. lia. } { reflexivity. }
        { intros k Hk. assert (k = 0) by lia. subst k. apply kle_refl. }
        rewrite Hnth in Hsk by exact Hsi.
        assert (Hci : fc + si < length data) by lia.
        assert (Hmin' : forall j, 0 < j < length data -> hparent j = i ->
                  kle sk (key (nth j data 0))).
        { intros j Hj Hp. apply (hparent_iff j i (proj1 Hj)) in Hp.
          replace j with (fc + (j - fc)) by (unfold fc; lia).
          rewrite <- Hnth by (unfold fc in *; lia). apply Hmin. unfold fc in *. lia. }
        assert (Hpc : hparent (fc + si) = i).
        { apply hparent_iff; [unfold fc; lia|]. unfold fc. rewrite Hlen in Hsi. lia. }
        destruct (kltb sk (key (nth i data 0))) eqn:Elt.
        * assert (Hi : i < length data) by (unfold fc in Hci; lia).
          destruct (IH (swap data i (fc + si)) (fc + si)) as [Hok Hperm].
          -- rewrite swap_length. unfold fc. lia.
          -- apply swap_NoDup; assumption.
          -- rewrite swap_length.
             apply (down_step (arr data) _ (length data) i (fc + si) Hinv).
             ++ unfold fc. lia.
             ++ exact Hpc.
             ++ cbv beta. rewrite <- Hsk. exact Hmin'.
             ++ cbv beta. rewrite <- Hsk. exact Elt.
             ++ intros k. cbv beta. rewrite nth_swap by assumption.
                destruct (Nat.eqb k (fc + si)); [reflexivity|].
                destruct (Nat.eqb k i); reflexivity.
          -- split; [exact Hok|]. eapply Permutation_trans; [|exact Hperm].
             apply swap_perm; assumption.
        * split; [|apply Permutation_refl]. split; [exact Hnd|].
          intros j Hj. destruct (Nat.eq_dec (hparent j) i) as [Ep|Ep].
          -- rewrite Ep. fold (kle (key (nth i data 0)) (key (nth j data 0))).
             apply (kle_trans _ sk); [exact Elt|]. apply Hmin'; assumption.
          -- apply (proj1 Hinv); assumption.
  Qed.

  (* ---- the priority-queue operations ---------------------------------------------------------- *)

  Lemma heap_root_min data : heap_ok data ->
    forall i, i < length data -> kle (key (nth 0 data 0)) (key (nth i data 0)).
  Proof.
    intros [_ Hord] i. induction i as [i IH] using lt_wf_ind. intros Hi.
    destruct (Nat.eq_dec i 0) as [E|E]; [subst i; apply kle_refl|].
    pose proof (hparent_lt i ltac:(lia)) as Hp.
    apply (kle_trans _ (key (nth (hparent i) data 0))).
    - apply IH; lia.
    - apply Hord. lia.
  Qed.

  Lemma heap_top_min_aux data u : heap_ok data -> heap_top data = Some u ->
    In u data /\ forall v, In v data -> kltb (key v) (key u) = false.
  Proof.
    intros Hok Htop. destruct data as [|x data]; [discriminate|].
    cbn in Htop. inversion Htop; subst x. split; [left; reflexivity|].
    intros v Hv. destruct (In_nth _ _ 0 Hv) as (i & Hi & Ei).
    pose proof (heap_root_min _ Hok i Hi) as H. rewrite Ei in H. exact H.
  Qed.

  Lemma heap_push_aux data v : heap_ok data -> ~ In v data ->
    heap_ok (heap_push K kltb key data v) /\ Permutation (v :: data) (heap_push K kltb key data v).
  Proof.
    intros [Hnd Hord] Hv. unfold heap_push.
    assert (Hnd' : NoDup (data ++ [v])).
    { apply (Permutation_NoDup (Permutation_cons_append data v)). constructor; assumption. }
    destruct (sift_up_correct (S (length data)) (data ++ [v]) (length data)) as [Hok Hperm].
    - lia.
    - rewrite app_length. cbn [length]. lia.
    - exact Hnd'.
    - rewrite app_length. cbn [length]. split.
      + intros j Hj Hne. pose proof (hparent_lt j (proj1 Hj)) as Hp. cbv beta.
        rewrite !app_nth1 by lia. apply Hord. lia.
      + intros j Hj Hp. pose proof (hparent_lt j (proj1 Hj)) as Hp'. lia.
    - split; [exact Hok|]. eapply Permutation_trans; [|exact Hperm]. apply Permutation_cons_append.
  Qed.

  Lemma heap_pop_aux data u : heap_ok data -> heap_top data = Some u ->
    heap_ok (heap_pop K kltb key data) /\ Permutation data (u :: heap_pop K kltb key data).
  Proof.
    intros [Hnd Hord] Htop. destruct data as [|x t]; [discriminate|].
    cbn in Htop. inversion Htop; subst x.
    destruct t as [|y t'].
    - cbn [heap_pop]. split; [|apply Permutation_refl]. split; [constructor|].
      intros j Hj. cbn [length] in Hj. lia.
    - set (t := y :: t') in *.
      assert (Ht : t <> []) by discriminate.
      change (heap_pop K kltb key (u :: t))
        with (sift_down (S (length (u :: t))) (last t 0 :: removelast t) 0).
      pose proof (app_removelast_last 0 Ht) as Et.
      set (r := removelast t) in *. set (l := last t 0) in *.
      assert (Hpt : Permutation t (l :: r)).
      { rewrite Et at 1. apply Permutation_sym, Permutation_cons_append. }
      assert (Hnd' : NoDup (l :: r)).
      { apply (Permutation_NoDup Hpt). inversion Hnd; assumption. }
      assert (Hlen : length t = S (length r)).
      { rewrite Et at 1. rewrite app_length. cbn [length]. lia. }
      destruct (sift_down_correct (S (length (u :: t))) (l :: r) 0) as [Hok Hperm].
      + cbn [length]. lia.
      + exact Hnd'.
      + split.
        * intros j Hj Hp. pose proof (hparent_lt j (proj1 Hj)) as Hp'. cbv beta.
          cbn [length] in Hj.
          destruct j as [|j]; [lia|]. destruct (hparent (S j)) as [|pj] eqn:Epj; [lia|].
          cbn [nth].
          assert (H := Hord (S j)). rewrite Epj in H. cbn [nth length] in H.
          rewrite Et in H. rewrite !app_nth1 in H by lia. apply H.
          rewrite app_length. cbn [length]. lia.
        * intros j Hj Hp Hlt. lia.
      + split; [exact Hok|]. constructor.
        eapply Permutation_trans; [exact Hpt|exact Hperm].
  Qed.

  Lemma find_pos_spec v : forall data s,
    match find_pos v data s with
    | Some p => s <= p /\ p - s < length data /\ nth (p - s) data 0 = v
    | None => ~ In v data
    end.
  Proof.
    induction data as [|x data IH]; intros s; cbn [find_pos].
    - intros [].
    - destruct (Nat.eqb_spec x v) as [E|E].
      + replace (s - s) with 0 by lia. cbn [length nth]. repeat split; [lia|lia|exact E].
      + specialize (IH (S s)). destruct (find_pos v data (S s)) as [p|].
        * destruct IH as (H1 & H2 & H3). cbn [length].
          replace (p - s) with (S (p - S s)) by lia. cbn [nth]. repeat split; [lia|lia|exact H3].
        * intros [H|H]; [exact (E H)|exact (IH H)].
  Qed.

  Lemma heap_update_aux (key0 : nat -> K) data v :
    HeapSpec.heap_ok K kltb key0 data -> In v data ->
    (forall x, x <> v -> key x = key0 x) -> kltb (key0 v) (key v) = false ->
    exists d', heap_update K kltb key data v = Some d' /\ heap_ok d' /\ Permutation data d'.
  Proof.
    intros [Hnd Hord] Hin Hkey Hdec. unfold heap_update.
    pose proof (find_pos_spec v data 0) as Hfp.
    destruct (find_pos v data 0) as [i|]; [|contradiction].
    rewrite Nat.sub_0_r in Hfp. destruct Hfp as (_ & Hi & Hv).
    eexists. split; [reflexivity|].
    assert (Hne : forall j, j < length data -> j <> i -> nth j data 0 <> v).
    { intros j Hj Hji E. rewrite <- Hv in E. rewrite (NoDup_nth _ 0) in Hnd.
      apply Hnd in E; [exact (Hji E)|exact Hj|exact Hi]. }
    apply sift_up_correct; [lia|exact Hi|exact Hnd|]. split.
    - intros j Hj Hji. pose proof (hparent_lt j (proj1 Hj)) as Hp. cbv beta.
      rewrite (Hkey (nth j data 0)) by (apply Hne; lia).
      destruct (Nat.eq_dec (hparent j) i) as [E|E].
      + rewrite E, Hv. apply (kle_trans _ (key0 v)); [exact Hdec|].
        rewrite <- Hv, <- E. apply Hord. exact Hj.
      + rewrite Hkey by (apply Hne; lia). apply Hord. exact Hj.
    - intros j Hj Hp Hi0. pose proof (hparent_lt j (proj1 Hj)) as Hpj.
      pose proof (hparent_lt i Hi0) as Hpi. cbv beta.
      rewrite (Hkey (nth j data 0)) by (apply Hne; lia).
      rewrite Hkey by (apply Hne; lia).
      apply (kle_trans _ (key0 (nth i data 0))); [apply Hord; lia|].
      rewrite <- Hp. apply Hord. exact Hj.
  Qed.

  Lemma heap_update_absent_aux data v : ~ In v data -> heap_update K kltb key data v = None.
  Proof.
    intros Hv. unfold heap_update. pose proof (find_pos_spec v data 0) as Hfp.
    destruct (find_pos v data 0) as [i|]; [|reflexivity].
    destruct Hfp as (_ & Hi & E). exfalso. apply Hv. rewrite <- E. apply nth_In. exact Hi.
  Qed.
End Order.

(* ---- the statements of HeapSpec.v --------------------------------------------------------------- *)

Theorem heap_top_min K kltb : heap_top_min_stmt K kltb.
Proof. intros key data u Hswo Hok Htop. exact (heap_top_min_aux K kltb Hswo key data u Hok Htop). Qed.

Theorem heap_push_correct K kltb : heap_push_stmt K kltb.
Proof. intros key data v Hswo Hok Hv. exact (heap_push_aux K kltb Hswo key data v Hok Hv). Qed.

Theorem heap_pop_correct K kltb : heap_pop_stmt K kltb.
Proof. intros key data u Hswo Hok Htop. exact (heap_pop_aux K kltb Hswo key data u Hok Htop). Qed.

Theorem heap_update_correct K kltb : heap_update_stmt K kltb.
Proof.
  intros key key' data v Hswo Hok Hin Hkey Hdec.
  exact (heap_update_aux K kltb Hswo key' key data v Hok Hin Hkey Hdec).
Qed.

Theorem heap_update_absent K kltb : heap_update_absent_stmt K kltb.
Proof. intros key data v Hv. exact (heap_update_absent_aux K kltb key data v Hv). Qed.

(* ---- the keys of the search frontiers (SignedModel.klt over Z) ---------------------------------- *)

Lemma klt_strict_weak_order : strict_weak_order (option Z) (klt Z Z.ltb).
Proof.
  split.
  - intros [a|]; cbn [klt]; [apply Z.ltb_irrefl|reflexivity].
  - intros [a|] [b|] [c|]; cbn [klt]; try congruence. intros H1 H2. lia.
  - unfold kle. intros [a|] [b|] [c|]; cbn [klt]; try congruence. intros H1 H2. lia.
Qed.

(* non-vacuity: a concrete heap over Z keys satisfying heap_ok, and the operations on it *)
Example heap_ok_nonvacuous :
  let key := fun v : nat => nth v [Some 5%Z; Some 1%Z; Some 3%Z; None; Some 1%Z; Some 7%Z; Some 2%Z] None in
  let h0 := fold_left (heap_push (option Z) (klt Z Z.ltb) key) [0; 2; 3; 4; 5; 6; 1] [] in
  heap_ok (option Z) (klt Z Z.ltb) key h0 /\ length h0 = 7 /\ heap_top h0 = Some 4.
Proof.
  cbv zeta. split; [|split; reflexivity].
  split.
  - vm_compute. repeat constructor; cbn; intuition congruence.
  - intros i Hi. vm_compute in Hi.
    do 7 (destruct i as [|i]; [try lia; reflexivity|]). lia.
Qed.

Print Assumptions heap_top_min.
Print Assumptions heap_push_correct.
Print Assumptions heap_pop_correct.
Print Assumptions heap_update_correct.
Print Assumptions heap_update_absent.
Print Assumptions klt_strict_weak_order.
