(* FpOverflowProofs1.v — C18 / C07 (signed overflow) for fp<T>::ext_gcd and get_mult_inverse:
     gstep_tr_fst, gloop_tr_fst, ext_gcd_tr_fst, mult_inverse_tr_fst
                         erasure: the traced functions of FpOverflowModel.v return exactly what the models return
     ovinv               the loop invariant behind the bounds: with c = slot i ("current") and o = slot 1-i,
                           _a[c]*|_x[o]| + _a[o]*|_x[c]| = lo,   _a[c]*|_y[o]| + _a[o]*|_y[c]| = hi,
                         the two coefficients of a pair have opposite signs (or one is zero)
     gloop_tr_bound      every value of the loop is bounded by hi = max(|a|,|b|), every divisor is positive
     ext_gcd_tr_bound    every traced value of ext_gcd is bounded by max(1,|a|,|b|); with the assertion of
                         PARMCB_INVARIANTS_CHECK compiled in, by max(1,|a|,|b|,|a|*|b|/2)
     mult_inverse_tr_bound
   No axioms. *)
From Coq Require Import ZArith List Bool Lia Znumtheory.
From Parmcb Require Import FpModel FpProofs FpOverflowModel.
Import ListNotations.
Local Open Scope Z_scope.

(* ---- traces ------------------------------------------------------------------------------ *)

Lemma trace_in_app lo hi t1 t2 : trace_in lo hi t1 -> trace_in lo hi t2 -> trace_in lo hi (t1 ++ t2).
Proof. intros H1 H2. apply Forall_app. split; assumption. Qed.

Lemma trace_in_nil lo hi : trace_in lo hi [].
Proof. constructor. Qed.

Lemma trace_in_cons lo hi e t : tev_in lo hi e -> trace_in lo hi t -> trace_in lo hi (e :: t).
Proof. intros H1 H2. constructor; assumption. Qed.

Lemma trace_in_mono lo hi lo' hi' t : lo' <= lo -> hi <= hi' -> trace_in lo hi t -> trace_in lo' hi' t.
Proof.
  intros Hl Hh H. eapply Forall_impl; [|exact H].
  intros [v|d]; cbn [tev_in]; lia.
Qed.

Lemma val_in M v : Z.abs v <= M -> tev_in (- M) M (Val v).
Proof. cbn [tev_in]. lia. Qed.

Lemma dvs_in M d : 0 < d <= M -> tev_in (- M) M (Dvs d).
Proof. cbn [tev_in]. lia. Qed.

(* ---- erasure ----------------------------------------------------------------------------- *)

Lemma gstep_tr_fst s : fst (gstep_tr s) = gstep s.
Proof.
  unfold gstep_tr, gstep.
  destruct (Z.rem (sel (idx s) (a0 s) (a1 s)) (sel (negb (idx s)) (a0 s) (a1 s)) =? 0); reflexivity.
Qed.

Lemma gloop_tr_fst : forall n s, fst (gloop_tr n s) = gloop n s.
Proof.
  induction n as [|n IH]; intros s; [reflexivity|].
  cbn [gloop_tr gloop]. rewrite <- gstep_tr_fst.
  destruct (gstep_tr s) as [[r|s'] t]; cbn [fst]; [reflexivity|].
  rewrite <- IH. destruct (gloop_tr n s') as [res t']. reflexivity.
Qed.

Lemma abs_tr_fst a : fst (abs_tr a) = if a <? 0 then - a else a.
Proof. unfold abs_tr. destruct (a <? 0); reflexivity. Qed.

Lemma ext_gcd_tr_fst chk a b : fst (ext_gcd_tr chk a b) = ext_gcd a b.
Proof.
  unfold ext_gcd_tr, ext_gcd.
  pose proof (abs_tr_fst a) as Ha. pose proof (abs_tr_fst b) as Hb.
  destruct (abs_tr a) as [a' ta]. destruct (abs_tr b) as [b' tb]. cbn [fst] in Ha, Hb.
  rewrite <- Ha, <- Hb.
  destruct (a' =? 0); [reflexivity|]. destruct (b' =? 0); [reflexivity|].
  rewrite <- gloop_tr_fst.
  destruct (gloop_tr _ _) as [[[[g xr] yr]|] tl]; cbn [fst]; [|reflexivity].
  destruct (b' >? a'); reflexivity.
Qed.

Lemma mult_inverse_tr_fst chk a p : fst (mult_inverse_tr chk a p) = mult_inverse a p.
Proof.
  unfold mult_inverse_tr, mult_inverse. destruct (p <=? 0); [reflexivity|].
  rewrite <- (ext_gcd_tr_fst chk a p).
  destruct (ext_gcd_tr chk a p) as [[g x y|] t]; reflexivity.
Qed.

(* ---- the current / other slot -------------------------------------------------------------- *)

Definition ca (s : gstate) := sel (idx s) (a0 s) (a1 s).
Definition oa (s : gstate) := sel (negb (idx s)) (a0 s) (a1 s).
Definition cx (s : gstate) := sel (idx s) (x0 s) (x1 s).
Definition ox (s : gstate) := sel (negb (idx s)) (x0 s) (x1 s).
Definition cy (s : gstate) := sel (idx s) (y0 s) (y1 s).
Definition oy (s : gstate) := sel (negb (idx s)) (y0 s) (y1 s).

Lemma gstep_tr_break s : Z.rem (ca s) (oa s) = 0 ->
  gstep_tr s = (inl (oa s, ox s, oy s),
                [Dvs (oa s); Val (Z.quot (ca s) (oa s)); Dvs (oa s); Val (Z.rem (ca s) (oa s))]).
Proof.
  unfold ca, oa, ox, oy, gstep_tr. intros E. rewrite E. reflexivity.
Qed.

Lemma gstep_tr_cont s : Z.rem (ca s) (oa s) <> 0 ->
  exists s',
    gstep_tr s = (inr s',
       [Dvs (oa s); Val (Z.quot (ca s) (oa s)); Dvs (oa s); Val (Z.rem (ca s) (oa s));
        Dvs (oa s); Val (Z.rem (ca s) (oa s));
        Val (Z.quot (ca s) (oa s) * ox s); Val (cx s - Z.quot (ca s) (oa s) * ox s);
        Val (Z.quot (ca s) (oa s) * oy s); Val (cy s - Z.quot (ca s) (oa s) * oy s)]) /\
    ca s' = oa s /\ oa s' = Z.rem (ca s) (oa s) /\
    cx s' = ox s /\ ox s' = cx s - Z.quot (ca s) (oa s) * ox s /\
    cy s' = oy s /\ oy s' = cy s - Z.quot (ca s) (oa s) * oy s.
Proof.
  unfold ca, oa, cx, ox, cy, oy, gstep_tr. intros E. apply Z.eqb_neq in E. rewrite E.
  destruct s as [A0 A1 X0 X1 Y0 Y1 i]; cbn [a0 a1 x0 x1 y0 y1 idx] in *.
  destruct i; cbn [sel negb] in *; eexists; (split; [reflexivity|]);
    cbn [a0 a1 x0 x1 y0 y1 idx sel negb]; repeat split; reflexivity.
Qed.

(* ---- the invariant ------------------------------------------------------------------------- *)

Definition ovinv (hi lo : Z) (s : gstate) : Prop :=
  0 < oa s /\ oa s <= ca s /\ ca s <= hi /\ oa s <= lo /\
  cx s * ox s <= 0 /\ cy s * oy s <= 0 /\
  ca s * Z.abs (ox s) + oa s * Z.abs (cx s) = lo /\
  ca s * Z.abs (oy s) + oa s * Z.abs (cy s) = hi /\
  (oa s < ca s \/ (ox s = 0 /\ oy s = 1)).

(* u and v of opposite sign (or zero): no cancellation in u - q*v *)
Lemma abs_sub_opp u v q : u * v <= 0 -> 0 <= q ->
  Z.abs (u - q * v) = Z.abs u + q * Z.abs v /\ v * (u - q * v) <= 0.
Proof.
  intros Huv Hq.
  assert (C : u = 0 \/ v = 0 \/ (0 < u /\ v < 0) \/ (u < 0 /\ 0 < v)) by nia.
  destruct C as [->|[->|[[Hu Hv]|[Hu Hv]]]].
  - split; [|nia]. replace (0 - q * v) with (- (q * v)) by ring.
    rewrite Z.abs_opp, Z.abs_mul, (Z.abs_eq q) by lia. cbn [Z.abs]. lia.
  - rewrite Z.mul_0_r, Z.sub_0_r. cbn [Z.abs]. lia.
  - assert (q * v <= 0) by nia. split; [|nia].
    rewrite (Z.abs_eq (u - q * v)), (Z.abs_eq u), (Z.abs_neq v) by lia. ring.
  - assert (0 <= q * v) by nia. split; [|nia].
    rewrite (Z.abs_neq (u - q * v)), (Z.abs_neq u), (Z.abs_eq v) by lia. ring.
Qed.

(* ---- arithmetic core (over atoms: no Z.abs, no case explosion for lia) --------------------- *)

Lemma le_mul_l t k : 0 <= t -> 1 <= k -> t <= k * t.
Proof. intros Ht Hk. replace t with (1 * t) at 1 by ring. apply Z.mul_le_mono_nonneg_r; assumption. Qed.

(* from  A*b' + O*b = L  with 1 <= O <= A and b, b' >= 0:  b <= L and b' <= L *)
Lemma ident_bounds A O b b' L : 0 < O -> O <= A -> 0 <= b -> 0 <= b' -> A * b' + O * b = L ->
  b <= L /\ b' <= L.
Proof.
  intros HO HA Hb Hb' E.
  pose proof (le_mul_l b O Hb ltac:(lia)) as H1.
  pose proof (le_mul_l b' A Hb' ltac:(lia)) as H2.
  assert (H3 : 0 <= A * b') by (apply Z.mul_nonneg_nonneg; lia).
  assert (H4 : 0 <= O * b) by (apply Z.mul_nonneg_nonneg; lia).
  clear - H1 H2 H3 H4 E. split; lia.
Qed.

(* the identity after one step: O*(b + q*b') + r*b' = L *)
Lemma ident_step A O q r b b' L : A = q * O + r -> A * b' + O * b = L -> O * (b + q * b') + r * b' = L.
Proof. intros -> <-. ring. Qed.

Lemma ovinv_coeff hi lo s : ovinv hi lo s ->
  Z.abs (cx s) <= lo /\ Z.abs (ox s) <= lo /\ Z.abs (cy s) <= hi /\ Z.abs (oy s) <= hi.
Proof.
  intros (Po & Ole & Chi & Olo & Sx & Sy & Ix & Iy & _).
  destruct (ident_bounds _ _ _ _ _ Po Ole (Z.abs_nonneg (cx s)) (Z.abs_nonneg (ox s)) Ix) as [B1 B2].
  destruct (ident_bounds _ _ _ _ _ Po Ole (Z.abs_nonneg (cy s)) (Z.abs_nonneg (oy s)) Iy) as [B3 B4].
  repeat split; assumption.
Qed.

Lemma quot_facts a b : 0 < b -> b <= a ->
  1 <= Z.quot a b <= a /\ 0 <= Z.rem a b < b /\ a = Z.quot a b * b + Z.rem a b.
Proof.
  intros Hb Hab.
  rewrite Z.rem_mod_nonneg, Z.quot_div_nonneg by lia.
  pose proof (Z.mod_pos_bound a b Hb) as Hm.
  pose proof (Z.div_mod a b ltac:(lia)) as Hd.
  assert (Hq : 1 <= a / b) by (apply Z.div_le_lower_bound; lia).
  assert (Hqa : a / b <= a) by (apply Z.div_le_upper_bound; [lia|]; apply le_mul_l; lia).
  rewrite (Z.mul_comm (a / b) b).
  clear - Hm Hd Hq Hqa. repeat split; lia.
Qed.

Lemma abs_q_mul q v : 0 <= q -> Z.abs (q * v) = q * Z.abs v.
Proof. intros H. rewrite Z.abs_mul, (Z.abs_eq q) by exact H. reflexivity. Qed.

(* the events of one continuing iteration *)
Lemma cont_events M d q r qx x' qy y' :
  0 < d <= M -> Z.abs q <= M -> Z.abs r <= M -> Z.abs qx <= M -> Z.abs x' <= M -> Z.abs qy <= M -> Z.abs y' <= M ->
  trace_in (- M) M [Dvs d; Val q; Dvs d; Val r; Dvs d; Val r; Val qx; Val x'; Val qy; Val y'].
Proof.
  intros Hd Hq Hr Hqx Hx Hqy Hy.
  repeat apply trace_in_cons; try apply trace_in_nil; try (apply dvs_in; exact Hd); apply val_in; assumption.
Qed.

Lemma break_events M d q r : 0 < d <= M -> Z.abs q <= M -> Z.abs r <= M ->
  trace_in (- M) M [Dvs d; Val q; Dvs d; Val r].
Proof.
  intros Hd Hq Hr.
  repeat apply trace_in_cons; try apply trace_in_nil; try (apply dvs_in; exact Hd); apply val_in; assumption.
Qed.

(* one continuing iteration: the invariant is kept, the events are bounded *)
Lemma ovinv_cont hi lo M s s' t : lo <= hi -> hi <= M -> ovinv hi lo s ->
  gstep_tr s = (inr s', t) -> ovinv hi lo s' /\ trace_in (- M) M t.
Proof.
  intros Hlh HM I E.
  destruct (Z.eq_dec (Z.rem (ca s) (oa s)) 0) as [R0|R0].
  { rewrite (gstep_tr_break s R0) in E. discriminate. }
  destruct (gstep_tr_cont s R0) as (s1 & E1 & Hca & Hoa & Hcx & Hox & Hcy & Hoy).
  rewrite E1 in E. injection E as <- <-.
  pose proof I as (Po & Ole & Chi & Olo & Sx & Sy & Ix & Iy & _).
  destruct (quot_facts (ca s) (oa s) Po Ole) as ((Q1 & Qle) & (Rn & Rlt) & Dm).
  set (q := Z.quot (ca s) (oa s)) in *. set (r := Z.rem (ca s) (oa s)) in *.
  assert (Hq0 : 0 <= q) by (clear - Q1; lia).
  destruct (abs_sub_opp (cx s) (ox s) q Sx Hq0) as [Ax Sx'].
  destruct (abs_sub_opp (cy s) (oy s) q Sy Hq0) as [Ay Sy'].
  pose proof (ident_step _ _ _ _ _ _ _ Dm Ix) as Ix'.
  pose proof (ident_step _ _ _ _ _ _ _ Dm Iy) as Iy'.
  rewrite <- Ax in Ix'. rewrite <- Ay in Iy'.
  assert (Rpos : 0 < r) by (clear - Rn R0; lia).
  assert (I' : ovinv hi lo s1).
  { unfold ovinv. rewrite Hca, Hoa, Hcx, Hox, Hcy, Hoy. fold q r.
    split; [exact Rpos|]. split; [clear - Rlt; lia|]. split; [clear - Olo Hlh; lia|].
    split; [clear - Rlt Olo; lia|]. split; [exact Sx'|]. split; [exact Sy'|].
    split; [exact Ix'|]. split; [exact Iy'|]. left. exact Rlt. }
  split; [exact I'|].
  (* bounds of the new coefficients from the new identities, with r >= 1 <= oa *)
  assert (Hro : r <= oa s) by (clear - Rlt; lia).
  destruct (ident_bounds _ _ _ _ _ Rpos Hro (Z.abs_nonneg (ox s)) (Z.abs_nonneg (cx s - q * ox s)) Ix') as [_ Bx].
  destruct (ident_bounds _ _ _ _ _ Rpos Hro (Z.abs_nonneg (oy s)) (Z.abs_nonneg (cy s - q * oy s)) Iy') as [_ By].
  assert (Qx : Z.abs (q * ox s) <= lo).
  { rewrite abs_q_mul by exact Hq0. rewrite Ax in Bx. pose proof (Z.abs_nonneg (cx s)) as N.
    clear - Bx N. lia. }
  assert (Qy : Z.abs (q * oy s) <= hi).
  { rewrite abs_q_mul by exact Hq0. rewrite Ay in By. pose proof (Z.abs_nonneg (cy s)) as N.
    clear - By N. lia. }
  apply cont_events.
  - clear - Po Ole Chi HM. lia.
  - rewrite Z.abs_eq by exact Hq0. clear - Qle Chi HM. lia.
  - rewrite Z.abs_eq by exact Rn. clear - Rlt Ole Chi HM. lia.
  - clear - Qx Hlh HM. lia.
  - clear - Bx Hlh HM. lia.
  - clear - Qy HM. lia.
  - clear - By HM. lia.
Qed.

(* the breaking iteration *)
Lemma ovinv_break hi lo M s res t : lo <= hi -> hi <= M -> ovinv hi lo s ->
  gstep_tr s = (inl res, t) ->
  trace_in (- M) M t /\
  let '(g, xr, yr) := res in
  Z.abs xr <= lo /\ Z.abs yr <= hi /\
  ((2 * Z.abs xr <= lo /\ 2 * Z.abs yr <= hi) \/ (xr = 0 /\ yr = 1)).
Proof.
  intros Hlh HM I E.
  destruct (Z.eq_dec (Z.rem (ca s) (oa s)) 0) as [R0|R0].
  2:{ destruct (gstep_tr_cont s R0) as (s1 & E1 & _). rewrite E1 in E. discriminate. }
  rewrite (gstep_tr_break s R0) in E. injection E as <- <-.
  pose proof I as (Po & Ole & Chi & Olo & Sx & Sy & Ix & Iy & D).
  destruct (quot_facts (ca s) (oa s) Po Ole) as ((Q1 & Qle) & (Rn & Rlt) & Dm).
  destruct (ovinv_coeff hi lo s I) as (B1 & B2 & B3 & B4).
  split.
  - apply break_events.
    + clear - Po Ole Chi HM. lia.
    + rewrite Z.abs_eq by (clear - Q1; lia). clear - Qle Chi HM. lia.
    + rewrite R0. cbn [Z.abs]. clear - Po Ole Chi HM. lia.
  - split; [exact B2|]. split; [exact B4|].
    destruct D as [D|D]; [left|right; exact D].
    rewrite R0, Z.add_0_r in Dm.
    assert (H2q : 2 <= Z.quot (ca s) (oa s)).
    { destruct (Z.eq_dec (Z.quot (ca s) (oa s)) 1) as [Q|Q]; [rewrite Q in Dm; clear - Dm D; lia|clear - Q Q1; lia]. }
    assert (H2c : 2 <= ca s).
    { rewrite Dm. replace 2 with (2 * 1) by reflexivity. apply Z.mul_le_mono_nonneg; clear - H2q Po; lia. }
    pose proof (Z.abs_nonneg (cx s)) as N1. pose proof (Z.abs_nonneg (ox s)) as N2.
    pose proof (Z.abs_nonneg (cy s)) as N3. pose proof (Z.abs_nonneg (oy s)) as N4.
    assert (P1 : 0 <= oa s * Z.abs (cx s)) by (apply Z.mul_nonneg_nonneg; [clear - Po; lia|exact N1]).
    assert (P2 : 0 <= oa s * Z.abs (cy s)) by (apply Z.mul_nonneg_nonneg; [clear - Po; lia|exact N3]).
    assert (P3 : 2 * Z.abs (ox s) <= ca s * Z.abs (ox s)) by (apply Z.mul_le_mono_nonneg_r; assumption).
    assert (P4 : 2 * Z.abs (oy s) <= ca s * Z.abs (oy s)) by (apply Z.mul_le_mono_nonneg_r; assumption).
    split; [clear - P1 P3 Ix; lia|clear - P2 P4 Iy; lia].
Qed.

(* the whole loop: termination within the fuel, the model's result, all events bounded *)
Lemma gloop_tr_bound hi lo M : lo <= hi -> hi <= M ->
  forall (n : nat) s, ginv hi lo s -> ovinv hi lo s -> a0 s * a1 s < 2 ^ Z.of_nat n ->
  exists g xr yr tl,
    gloop_tr n s = (Some (g, xr, yr), tl) /\ trace_in (- M) M tl /\
    g = Z.gcd hi lo /\ 0 < g /\ g = xr * hi + yr * lo /\
    Z.abs xr <= lo /\ Z.abs yr <= hi /\
    ((2 * Z.abs xr <= lo /\ 2 * Z.abs yr <= hi) \/ (xr = 0 /\ yr = 1)).
Proof.
  intros Hlh HM. induction n as [|n IH]; intros s G I Hlt.
  - exfalso. destruct G as (P0 & P1 & _). cbn in Hlt. nia.
  - cbn [gloop_tr]. pose proof (gstep_tr_fst s) as F.
    destruct (gstep_tr s) as [[[[g x] y]|s'] t] eqn:E; cbn [fst] in F.
    + exists g, x, y, t.
      destruct (ovinv_break hi lo M s (g, x, y) t Hlh HM I E) as (T & B1 & B2 & B3).
      destruct (gstep_inl hi lo s g x y G (eq_sym F)) as (G1 & G2 & G3).
      repeat split; auto.
    + destruct (ovinv_cont hi lo M s s' t Hlh HM I E) as (I' & T).
      destruct (gstep_inr hi lo s s' G (eq_sym F)) as [G' Hh].
      destruct (IH s' G' I') as (g & x & y & tl & E' & T' & R).
      { rewrite Nat2Z.inj_succ, Z.pow_succ_r in Hlt by lia. lia. }
      exists g, x, y, (t ++ tl). rewrite E'. split; [reflexivity|].
      split; [apply trace_in_app; assumption|exact R].
Qed.

Lemma ovinv_init hi lo : 0 < lo -> lo <= hi ->
  ovinv hi lo {| a0 := hi; a1 := lo; x0 := 1; x1 := 0; y0 := 0; y1 := 1; idx := false |}.
Proof.
  intros Hl Hle. unfold ovinv, ca, oa, cx, ox, cy, oy; cbn [a0 a1 x0 x1 y0 y1 idx sel negb].
  cbn [Z.abs]. repeat split; try lia.
Qed.

Lemma ginv_init hi lo : 0 < lo -> lo <= hi ->
  ginv hi lo {| a0 := hi; a1 := lo; x0 := 1; x1 := 0; y0 := 0; y1 := 1; idx := false |}.
Proof.
  intros Hl Hle. unfold ginv; cbn [a0 a1 x0 x1 y0 y1 idx sel negb]. repeat split; lia.
Qed.

(* ---- ext_gcd ------------------------------------------------------------------------------- *)

(* the bound: max(1,|a|,|b|); with the assertion compiled in, also |a|*|b|/2 *)
Definition gcd_bound (chk : bool) (a b : Z) : Z :=
  let M := Z.max 1 (Z.max (Z.abs a) (Z.abs b)) in
  if chk then Z.max M (Z.abs a * Z.abs b / 2) else M.

Lemma abs_tr_spec a : abs_tr a = (Z.abs a, if a <? 0 then [Val (Z.abs a)] else []).
Proof. unfold abs_tr. destruct (Z.ltb_spec a 0); f_equal; try lia. f_equal. f_equal. lia. Qed.

Lemma half_le u v : 2 * u <= v -> u <= v / 2.
Proof. intros H. apply Z.div_le_lower_bound; lia. Qed.

Lemma events4 N v1 v2 v3 v4 : Z.abs v1 <= N -> Z.abs v2 <= N -> Z.abs v3 <= N -> Z.abs v4 <= N ->
  trace_in (- N) N [Val v1; Val v2; Val v3; Val v4].
Proof.
  intros H1 H2 H3 H4. repeat apply trace_in_cons; try apply trace_in_nil; apply val_in; assumption.
Qed.

Lemma events5 N v1 v2 v3 v4 v5 : Z.abs v1 <= N -> Z.abs v2 <= N -> Z.abs v3 <= N -> Z.abs v4 <= N -> Z.abs v5 <= N ->
  trace_in (- N) N [Val v1; Val v2; Val v3; Val v4; Val v5].
Proof.
  intros H1 H2 H3 H4 H5. repeat apply trace_in_cons; try apply trace_in_nil; apply val_in; assumption.
Qed.

Lemma abs_facts a :
  0 <= Z.abs a /\ (if a <? 0 then - Z.abs a else Z.abs a) = a /\
  a * (if a <? 0 then -1 else 1) = Z.abs a /\ Z.abs (if a <? 0 then -1 else 1) = 1.
Proof. destruct (Z.ltb_spec a 0); cbn [Z.abs]; repeat split; lia. Qed.

Lemma gcd_bound_facts chk a b : exists M,
  1 <= M /\ Z.abs a <= M /\ Z.abs b <= M /\ M <= gcd_bound chk a b /\
  (chk = true -> Z.abs a * Z.abs b / 2 <= gcd_bound chk a b).
Proof.
  exists (Z.max 1 (Z.max (Z.abs a) (Z.abs b))). unfold gcd_bound.
  destruct chk; repeat split; try lia; intros; try discriminate; lia.
Qed.

Theorem ext_gcd_tr_bound : forall chk a b,
  trace_in (- gcd_bound chk a b) (gcd_bound chk a b) (snd (ext_gcd_tr chk a b)).
Proof.
  intros chk a b.
  unfold ext_gcd_tr. rewrite !abs_tr_spec.
  destruct (abs_facts a) as (HA0 & HAa & HAs & HAu).
  destruct (abs_facts b) as (HB0 & HBb & HBs & HBu).
  destruct (gcd_bound_facts chk a b) as (M & HM1 & HMa & HMb & HMN & HNc).
  set (N := gcd_bound chk a b) in *. clearbody N.
  assert (Haa : Z.abs a = a \/ Z.abs a = - a) by lia.
  assert (Hbb : Z.abs b = b \/ Z.abs b = - b) by lia.
  set (A := Z.abs a) in *. set (B := Z.abs b) in *. clearbody A B.
  set (sa := if a <? 0 then -1 else 1) in *. set (sb := if b <? 0 then -1 else 1) in *.
  assert (Hsa1 : Z.abs sa <= M) by lia. assert (Hsb1 : Z.abs sb <= M) by lia.
  assert (T0 : trace_in (- N) N ([Val a; Val b; Val 1; Val 0; Val 0; Val 1] ++
            (if a <? 0 then [Val A] else []) ++ (if b <? 0 then [Val B] else []))).
  { repeat apply trace_in_app; [|destruct (a <? 0)|destruct (b <? 0)];
      repeat apply trace_in_cons; try apply trace_in_nil; apply val_in; cbn [Z.abs]; lia. }
  destruct (Z.eqb_spec A 0) as [Ea|Ea].
  { cbn [snd]. apply trace_in_app; [exact T0|].
    repeat apply trace_in_cons; try apply trace_in_nil; apply val_in; cbn [Z.abs]; lia. }
  destruct (Z.eqb_spec B 0) as [Eb|Eb].
  { cbn [snd]. apply trace_in_app; [exact T0|].
    repeat apply trace_in_cons; try apply trace_in_nil; apply val_in; cbn [Z.abs]; lia. }
  set (hi := if B >? A then B else A).
  set (lo := if B >? A then A else B).
  assert (Hhl : 0 < lo /\ lo <= hi /\ hi <= M /\ hi * lo = A * B).
  { unfold hi, lo. destruct (Z.gtb_spec B A); repeat split; lia. }
  destruct Hhl as (Hl & Hle & HhM & Hprod).
  destruct (gloop_tr_bound hi lo M Hle HhM (gfuel hi lo) _ (ginv_init hi lo Hl Hle) (ovinv_init hi lo Hl Hle))
    as (g & xr & yr & tl & -> & Tl & Hg & Hgp & Hbez & Bx & By & D).
  { cbn [a0 a1]. apply gfuel_enough; lia. }
  cbn [snd].
  assert (Hgle : g <= lo).
  { rewrite Hg. apply Z.divide_pos_le; [lia|]. apply Z.gcd_divide_r. }
  clear Hg.
  rewrite HAa, HBb.
  apply trace_in_app; [exact T0|]. clear T0.
  apply trace_in_app; [eapply trace_in_mono; [| |exact Tl]; lia|]. clear Tl.
  set (xx := if B >? A then yr else xr) in *. set (yy := if B >? A then xr else yr) in *.
  assert (Hxy : Z.abs xx <= M /\ Z.abs yy <= M /\ g = xx * A + yy * B /\
                ((2 * (A * Z.abs xx) <= hi * lo /\ 2 * (B * Z.abs yy) <= hi * lo) \/
                 (A * Z.abs xx <= M /\ B * Z.abs yy <= M))).
  { unfold xx, yy, hi, lo in *. clear xx yy.
    pose proof (Z.abs_nonneg xr). pose proof (Z.abs_nonneg yr).
    destruct (Z.gtb_spec B A) as [Hs|Hs].
    - split; [lia|]. split; [lia|]. split; [lia|].
      destruct D as [[D1 D2]|[-> ->]]; [left|right; cbn [Z.abs]; lia].
      split.
      + replace (2 * (A * Z.abs yr)) with (A * (2 * Z.abs yr)) by ring.
        rewrite (Z.mul_comm B A). apply Z.mul_le_mono_nonneg_l; lia.
      + replace (2 * (B * Z.abs xr)) with (B * (2 * Z.abs xr)) by ring.
        apply Z.mul_le_mono_nonneg_l; lia.
    - split; [lia|]. split; [lia|]. split; [lia|].
      destruct D as [[D1 D2]|[-> ->]]; [left|right; cbn [Z.abs]; lia].
      split.
      + replace (2 * (A * Z.abs xr)) with (A * (2 * Z.abs xr)) by ring.
        apply Z.mul_le_mono_nonneg_l; lia.
      + replace (2 * (B * Z.abs yr)) with (B * (2 * Z.abs yr)) by ring.
        rewrite (Z.mul_comm A B). apply Z.mul_le_mono_nonneg_l; lia. }
  clearbody xx yy. clear D Bx By Hbez.
  destruct Hxy as (Hx & Hy & Hbez & Hprods).
  assert (Hx' : Z.abs (xx * sa) = Z.abs xx) by (rewrite Z.abs_mul, HAu; ring).
  assert (Hy' : Z.abs (yy * sb) = Z.abs yy) by (rewrite Z.abs_mul, HBu; ring).
  assert (HabsA : Z.abs a = A) by (clear - HA0 Haa; lia).
  assert (HabsB : Z.abs b = B) by (clear - HB0 Hbb; lia).
  apply trace_in_app.
  { apply events4.
    - rewrite HAu. clear - HM1 HMN. lia.
    - rewrite Hx'. clear - Hx HMN. lia.
    - rewrite HBu. clear - HM1 HMN. lia.
    - rewrite Hy'. clear - Hy HMN. lia. }
  destruct chk; [|apply trace_in_nil].
  specialize (HNc eq_refl).
  (* the assertion: a*x + b*y = g, |a*x| and |b*y| at most hi*lo/2 (or lo when the loop body never ran) *)
  assert (Hsum : a * (xx * sa) + b * (yy * sb) = g).
  { replace (a * (xx * sa) + b * (yy * sb)) with (xx * (a * sa) + yy * (b * sb)) by ring.
    rewrite HAs, HBs. symmetry. exact Hbez. }
  assert (Hax : Z.abs (a * (xx * sa)) = A * Z.abs xx).
  { rewrite Z.abs_mul, Hx', HabsA. reflexivity. }
  assert (Hby : Z.abs (b * (yy * sb)) = B * Z.abs yy).
  { rewrite Z.abs_mul, Hy', HabsB. reflexivity. }
  assert (Hfin : A * Z.abs xx <= N /\ B * Z.abs yy <= N).
  { destruct Hprods as [[P1 P2]|[P1 P2]].
    - rewrite Hprod in P1, P2. apply half_le in P1. apply half_le in P2. clear - P1 P2 HNc. lia.
    - clear - P1 P2 HMN. lia. }
  destruct Hfin as [F1 F2].
  apply events5.
  - rewrite HabsA. clear - HMa HMN. lia.
  - rewrite Hax. exact F1.
  - rewrite HabsB. clear - HMb HMN. lia.
  - rewrite Hby. exact F2.
  - rewrite Hsum, Z.abs_eq by (clear - Hgp; lia). clear - Hgle Hle HhM HMN. lia.
Qed.

(* the traced ext_gcd never runs out of fuel (corollary of erasure and FpProofs.ext_gcd_correct) *)
Lemma ext_gcd_tr_ok chk a b : (a, b) <> (0, 0) ->
  exists g x y, fst (ext_gcd_tr chk a b) = GcdOk g x y /\ g = Z.gcd a b /\ 0 <= g /\ a * x + b * y = g.
Proof. intros H. rewrite ext_gcd_tr_fst. apply ext_gcd_correct. exact H. Qed.

(* a bounded signed type with values -maxT-1 .. maxT: arguments above the minimum value suffice
   (assertions compiled out) *)
Corollary ext_gcd_tr_fits : forall maxT a b, 1 <= maxT -> Z.abs a <= maxT -> Z.abs b <= maxT ->
  trace_in (- maxT) maxT (snd (ext_gcd_tr false a b)).
Proof.
  intros maxT a b H1 Ha Hb. eapply trace_in_mono; [| |apply ext_gcd_tr_bound];
    unfold gcd_bound; lia.
Qed.

(* with the assertion: additionally |a|*|b| <= 2*maxT + 1 *)
Corollary ext_gcd_tr_fits_chk : forall maxT a b, 1 <= maxT -> Z.abs a <= maxT -> Z.abs b <= maxT ->
  Z.abs a * Z.abs b / 2 <= maxT ->
  trace_in (- maxT) maxT (snd (ext_gcd_tr true a b)).
Proof.
  intros maxT a b H1 Ha Hb Hp. eapply trace_in_mono; [| |apply ext_gcd_tr_bound];
    unfold gcd_bound; lia.
Qed.

(* ---- get_mult_inverse ---------------------------------------------------------------------- *)

Theorem mult_inverse_tr_bound : forall chk a p,
  trace_in (- gcd_bound chk a p) (gcd_bound chk a p) (snd (mult_inverse_tr chk a p)).
Proof.
  intros chk a p. unfold mult_inverse_tr.
  destruct (Z.leb_spec p 0) as [Hp|Hp].
  - cbn [snd]. assert (Z.max 1 (Z.max (Z.abs a) (Z.abs p)) <= gcd_bound chk a p)
      by (unfold gcd_bound; destruct chk; lia).
    repeat apply trace_in_cons; try apply trace_in_nil; apply val_in; lia.
  - pose proof (ext_gcd_tr_bound chk a p) as H.
    destruct (ext_gcd_tr chk a p) as [[g x y|] t]; exact H.
Qed.

Corollary mult_inverse_tr_fits : forall maxT a p, 1 <= maxT -> Z.abs a <= maxT -> Z.abs p <= maxT ->
  trace_in (- maxT) maxT (snd (mult_inverse_tr false a p)).
Proof.
  intros maxT a p H1 Ha Hp.
  eapply trace_in_mono; [| |apply mult_inverse_tr_bound]; unfold gcd_bound; lia.
Qed.
