(* LexSPProofs.v — part (i) of C12, generic in the weight type: the structural invariant of lex_dijkstra
   (LexSPModel.v), the tree built by SPTree::initialize and the first-in-path labels.
   Main results (Section LexSPGen):
     lx_dijkstra_inv     a successful run of lex_dijkstra ends with an empty queue in a state satisfying lx_inv
     lx_dijkstra_errors  it never returns LxFuel / LxNoNode, and not LxRange on a simple graph
     lx_loop_rule        proof rule for the main loop (re-used with a stronger invariant in LexSPProofsDist.v)
     lx_sptree_ok        sptree succeeds whenever lex_dijkstra does, and the tree it returns satisfies lx_tree_spec
   Prefix lx_. *)
From Coq Require Import List Arith Bool Lia ZArith Permutation.
From Parmcb Require Import GraphModel GraphSpec GraphLemmas HeapModel LexSPModel LexSPProofsHeap.
Import ListNotations.

(* ---- small list facts ------------------------------------------------------------------- *)

Lemma lx_nth_const {A} (c : A) : forall n a i d, i < n -> nth i (map (fun _ => c) (seq a n)) d = c.
Proof.
  induction n as [|n IH]; intros a i d Hi; [lia|].
  destruct i as [|i]; cbn [seq map nth]; auto. apply IH; lia.
Qed.

Lemma lx_const_length {A} (c : A) n a : length (map (fun _ : nat => c) (seq a n)) = n.
Proof. rewrite map_length, seq_length. reflexivity. Qed.

Lemma lx_nth_const_default {A} (c : A) n a i : nth i (map (fun _ : nat => c) (seq a n)) c = c.
Proof.
  destruct (Nat.lt_ge_cases i n) as [H|H]; [apply lx_nth_const; exact H|].
  apply nth_overflow. rewrite lx_const_length. exact H.
Qed.

Lemma lx_NoDup_bound (l : list nat) n : NoDup l -> (forall x, In x l -> x < n) -> length l <= n.
Proof.
  intros Hnd Hb. rewrite <- (seq_length n 0). apply NoDup_incl_length; auto.
  intros x Hx. apply in_seq. specialize (Hb x Hx). lia.
Qed.

Lemma lx_NoDup_app_disj {A} (a b : list A) x : NoDup (a ++ b) -> In x a -> In x b -> False.
Proof.
  induction a as [|y a IH]; intros Nd Ha Hb; [destruct Ha|].
  cbn [app] in Nd. inversion Nd as [|? ? Hy Nd']; subst.
  destruct Ha as [->|Ha]; [apply Hy; apply in_or_app; right; exact Hb|eauto].
Qed.

(* opposite vs joins *)
Lemma lx_opposite_joins g e v u : opposite g e v = Some u -> joins g e u v.
Proof.
  unfold opposite, joins. destruct (ends g e) as [[a b]|]; [|discriminate].
  destruct (Nat.eqb_spec a v) as [->|Ha].
  - intros [= ->]. right; reflexivity.
  - destruct (Nat.eqb_spec b v) as [->|Hb]; [|discriminate]. intros [= ->]. left; reflexivity.
Qed.

Lemma lx_joins_opposite g e u v : joins g e u v -> u <> v -> opposite g e v = Some u.
Proof.
  unfold opposite, joins. intros [H|H] Hne; rewrite H.
  - destruct (Nat.eqb_spec u v); [contradiction|]. rewrite Nat.eqb_refl. reflexivity.
  - rewrite Nat.eqb_refl. reflexivity.
Qed.

Section LexSPGen.
  Variable W : Type.
  Variable w0 : W.
  Variable wadd : W -> W -> W.
  Variable wltb : W -> W -> bool.

  Notation label := (label W).
  Notation lx_state := (lx_state W).
  Notation lx_ltb := (lx_ltb W wltb).
  Notation lx_key := (lx_key W w0).
  Notation lx_default := (lx_default W w0).
  Notation lx_wt := (lx_wt W w0).
  Notation lx_combine := (lx_combine W w0 wadd).
  Notation lx_relax := (lx_relax W w0 wadd wltb).
  Notation lx_loop := (lx_loop W w0 wadd wltb).
  Notation lx_init := (lx_init W w0 wltb).
  Notation lex_dijkstra := (lex_dijkstra W w0 wadd wltb).
  Notation sp_node := (sp_node W).
  Notation sp_tree := (sp_tree W).
  Notation lx_mk_nodes := (lx_mk_nodes W w0).
  Notation lx_link_step := (lx_link_step W).
  Notation lx_children := (lx_children W).
  Notation lx_first_loop := (lx_first_loop W).
  Notation sptree := (sptree W w0 wadd wltb).
  Notation sp_node_of := (sp_node_of W).
  Notation sp_first := (sp_first W).
  Notation hpush := (heap_push label lx_ltb).
  Notation hpop := (heap_pop label lx_ltb).
  Notation hupdate := (heap_update label lx_ltb).

  (* weight of a walk, accumulated in walk order as the code does: ((w0 + w1) + w2) + ... *)
  Definition lx_wsum (wts : list W) (p : list (nat * nat)) : W :=
    fold_left (fun acc ev => wadd acc (lx_wt wts (fst ev))) p w0.

  Lemma lx_wsum_snoc wts p e v : lx_wsum wts (p ++ [(e, v)]) = wadd (lx_wsum wts p) (lx_wt wts e).
  Proof. unfold lx_wsum. rewrite fold_left_app. reflexivity. Qed.

  Section Run.
    Variable g : graph.
    Variable wts : list W.
    Variable s : nat.

    Definition lx_visited (st : lx_state) (v : nat) : Prop := v = s \/ nth v (lx_pred st) None <> None.

    (* the structural invariant; D = the vertices popped so far (ghost) *)
    Record lx_inv (st : lx_state) (D : list nat) : Prop := {
      li_len_lex : length (lx_lex st) = nv g;
      li_len_dist : length (lx_dist st) = nv g;
      li_len_pred : length (lx_pred st) = nv g;
      li_s_lt : s < nv g;
      li_s_pred : nth s (lx_pred st) None = None;
      li_s_lex : lx_key (lx_lex st) s = {| l_dist := w0; l_cnt := 0; l_set := [s] |};
      li_nodup : NoDup (D ++ lx_heap st);
      li_range : forall x, In x (D ++ lx_heap st) -> x < nv g /\ lx_visited st x;
      li_vis : forall x, lx_visited st x -> In x (D ++ lx_heap st);
      li_pred : forall v e, nth v (lx_pred st) None = Some e ->
          v < nv g /\ v <> s /\
          exists u, joins g e u v /\ u <> v /\ In u D /\
                    l_dist (lx_key (lx_lex st) v) = wadd (l_dist (lx_key (lx_lex st) u)) (lx_wt wts e) /\
                    l_cnt (lx_key (lx_lex st) v) = l_cnt (lx_key (lx_lex st) u) + 1 /\
                    nth v (lx_dist st) None = Some (l_dist (lx_key (lx_lex st) v))
    }.

    Lemma lx_key_set_eq lex w c : w < length lex -> lx_key (set_nth lex w c) w = c.
    Proof. intros H. unfold LexSPModel.lx_key. apply hp_nth_set_nth_eq; exact H. Qed.

    Lemma lx_key_set_neq lex w c v : w <> v -> lx_key (set_nth lex w c) v = lx_key lex v.
    Proof. intros H. unfold LexSPModel.lx_key. apply hp_nth_set_nth_neq; exact H. Qed.

    (* ---- one relaxation ------------------------------------------------------------- *)

    (* what a successful relaxation of the out-edge (e, w) of the popped vertex u does *)
    Inductive lx_relax_case (u : nat) (d_u : label) (e w : nat) (st st' : lx_state) : Prop :=
    | lrc_skip : st' = st -> (w = u \/ w = s \/
                              (nth w (lx_pred st) None <> None /\
                               lx_ltb (lx_combine wts d_u e u w) (lx_key (lx_lex st) w) = false)) ->
                 lx_relax_case u d_u e w st st'
    | lrc_new : w <> u -> w <> s -> w < nv g -> nth w (lx_pred st) None = None ->
                st' = {| lx_lex := set_nth (lx_lex st) w (lx_combine wts d_u e u w);
                         lx_dist := set_nth (lx_dist st) w (Some (l_dist (lx_combine wts d_u e u w)));
                         lx_pred := set_nth (lx_pred st) w (Some e);
                         lx_heap := hpush (lx_key (set_nth (lx_lex st) w (lx_combine wts d_u e u w))) (lx_heap st) w |} ->
                lx_relax_case u d_u e w st st'
    | lrc_upd : forall h', w <> u -> w <> s -> w < nv g -> nth w (lx_pred st) None <> None ->
                lx_ltb (lx_combine wts d_u e u w) (lx_key (lx_lex st) w) = true ->
                hupdate (lx_key (set_nth (lx_lex st) w (lx_combine wts d_u e u w))) (lx_heap st) w = Some h' ->
                st' = {| lx_lex := set_nth (lx_lex st) w (lx_combine wts d_u e u w);
                         lx_dist := set_nth (lx_dist st) w (Some (l_dist (lx_combine wts d_u e u w)));
                         lx_pred := set_nth (lx_pred st) w (Some e);
                         lx_heap := h' |} ->
                lx_relax_case u d_u e w st st'.

    Lemma lx_relax_cases u d_u e w st st' :
      lx_relax g wts s u d_u (LxOk st) (e, w) = LxOk st' -> lx_relax_case u d_u e w st st'.
    Proof.
      unfold LexSPModel.lx_relax.
      destruct (Nat.eqb_spec w u) as [->|Hwu]; [intros [= <-]; apply lrc_skip; auto|].
      destruct (Nat.eqb_spec w s) as [->|Hws]; [intros [= <-]; apply lrc_skip; auto|].
      destruct (Nat.ltb_spec w (nv g)) as [Hlt|Hge]; cbn [negb]; [|discriminate].
      destruct (nth w (lx_pred st) None) as [e0|] eqn:Ep.
      - destruct (LexSPModel.lx_ltb W wltb _ _) eqn:El.
        + destruct (heap_update _ _ _ _ _) as [h'|] eqn:Eu; [|discriminate].
          intros [= <-]. eapply lrc_upd; eauto. rewrite Ep; discriminate.
        + intros [= <-]. apply lrc_skip; auto. right; right. split; [rewrite Ep; discriminate|exact El].
      - intros [= <-]. apply lrc_new; auto.
    Qed.

    (* which error values a relaxation can produce *)
    Lemma lx_relax_result u d_u e w st :
      (exists st', lx_relax g wts s u d_u (LxOk st) (e, w) = LxOk st') \/
      (lx_relax g wts s u d_u (LxOk st) (e, w) = LxRange /\ ~ w < nv g) \/
      (lx_relax g wts s u d_u (LxOk st) (e, w) = LxNotInHeap /\ w <> u /\ w <> s /\
         nth w (lx_pred st) None <> None /\ ~ In w (lx_heap st) /\
         lx_ltb (lx_combine wts d_u e u w) (lx_key (lx_lex st) w) = true).
    Proof.
      unfold LexSPModel.lx_relax.
      destruct (Nat.eqb_spec w u) as [->|Hwu]; [left; eauto|].
      destruct (Nat.eqb_spec w s) as [->|Hws]; [left; eauto|].
      destruct (Nat.ltb_spec w (nv g)) as [Hlt|Hge]; cbn [negb]; [|right; left; split; [reflexivity|lia]].
      destruct (nth w (lx_pred st) None) as [e0|] eqn:Ep; [|left; eauto].
      destruct (LexSPModel.lx_ltb W wltb _ _) eqn:El; [|left; eauto].
      destruct (heap_update _ _ _ _ _) as [h'|] eqn:Eu; [left; eauto|].
      right; right. apply hp_update_none in Eu. repeat split; auto. discriminate.
    Qed.

    Lemma lx_relax_err r ew u d_u : (forall st, r <> LxOk st) -> lx_relax g wts s u d_u r ew = r.
    Proof. intros H. destruct r; try reflexivity. exfalso; eapply H; reflexivity. Qed.

    (* inner invariant while the out-edges of the popped vertex u are scanned *)
    Definition lx_inner (u : nat) (d_u : label) (st : lx_state) (D : list nat) : Prop :=
      lx_inv st D /\ In u D /\ lx_key (lx_lex st) u = d_u.

    Lemma lx_visited_mono st st' w e :
      lx_pred st' = set_nth (lx_pred st) w (Some e) ->
      forall x, lx_visited st x -> lx_visited st' x.
    Proof.
      intros Hp x [->|Hx]; [left; reflexivity|]. right. rewrite Hp.
      destruct (Nat.eq_dec w x) as [->|Hne].
      - destruct (Nat.lt_ge_cases x (length (lx_pred st))) as [Hl|Hl].
        + rewrite hp_nth_set_nth_eq by exact Hl. discriminate.
        + rewrite nth_overflow in Hx by exact Hl. contradiction.
      - rewrite hp_nth_set_nth_neq by exact Hne. exact Hx.
    Qed.

    Lemma lx_relax_inner u d_u e w st st' D :
      joins g e u w -> lx_inner u d_u st D ->
      lx_relax g wts s u d_u (LxOk st) (e, w) = LxOk st' -> lx_inner u d_u st' D.
    Proof.
      intros Hj [Hinv [HuD Hdu]] Hr. apply lx_relax_cases in Hr.
      destruct Hinv as [L1 L2 L3 Ss Sp Sl Nd Rg Vs Pr].
      assert (Hcommon : forall h',
        w <> u -> w <> s -> w < nv g ->
        Permutation h' (if in_dec Nat.eq_dec w (lx_heap st) then lx_heap st else w :: lx_heap st) ->
        (nth w (lx_pred st) None = None -> ~ In w (lx_heap st)) ->
        (nth w (lx_pred st) None <> None -> In w (lx_heap st)) ->
        lx_inner u d_u {| lx_lex := set_nth (lx_lex st) w (lx_combine wts d_u e u w);
                          lx_dist := set_nth (lx_dist st) w (Some (l_dist (lx_combine wts d_u e u w)));
                          lx_pred := set_nth (lx_pred st) w (Some e);
                          lx_heap := h' |} D).
      { intros h' Hwu Hws Hwn Hperm Hnew Hold.
        set (c := lx_combine wts d_u e u w).
        set (st1 := {| lx_lex := set_nth (lx_lex st) w c; lx_dist := set_nth (lx_dist st) w (Some (l_dist c));
                       lx_pred := set_nth (lx_pred st) w (Some e); lx_heap := h' |}).
        assert (Hmono : forall x, lx_visited st x -> lx_visited st1 x)
          by (apply (lx_visited_mono st st1 w e); reflexivity).
        assert (HwD : ~ In w D).
        { intros HwD. destruct (in_dec Nat.eq_dec w (lx_heap st)) as [Hin|Hnin].
          - eapply lx_NoDup_app_disj; eauto.
          - destruct (nth w (lx_pred st) None) eqn:Ep.
            + apply Hnin, Hold. discriminate.
            + destruct (Rg w (in_or_app _ _ _ (or_introl HwD))) as [_ [Hc|Hc]]; [contradiction|].
              apply Hc; exact Ep. }
        assert (Hw1 : lx_visited st1 w).
        { right. cbn [lx_pred st1]. rewrite hp_nth_set_nth_eq by lia. discriminate. }
        assert (Hin1 : forall x, In x (D ++ h') <-> x = w \/ In x (D ++ lx_heap st)).
        { intros x. rewrite !in_app_iff. split.
          - intros [Hx|Hx]; [auto|]. apply (Permutation_in _ Hperm) in Hx.
            destruct (in_dec Nat.eq_dec w (lx_heap st)); [auto|]. destruct Hx as [<-|Hx]; auto.
          - intros [->|[Hx|Hx]]; auto.
            + right. apply (Permutation_in _ (Permutation_sym Hperm)).
              destruct (in_dec Nat.eq_dec w (lx_heap st)); [auto|left; reflexivity].
            + right. apply (Permutation_in _ (Permutation_sym Hperm)).
              destruct (in_dec Nat.eq_dec w (lx_heap st)); [auto|right; exact Hx]. }
        split; [|split; [exact HuD|]].
        2:{ unfold st1; cbn [lx_lex]. rewrite lx_key_set_neq by exact Hwu. exact Hdu. }
        constructor; unfold st1; cbn [lx_lex lx_dist lx_pred lx_heap]; try (rewrite hp_set_nth_length; assumption); auto.
        - rewrite hp_nth_set_nth_neq by exact Hws. exact Sp.
        - rewrite lx_key_set_neq by exact Hws. exact Sl.
        - (* NoDup *)
          destruct (in_dec Nat.eq_dec w (lx_heap st)) as [Hin|Hnin].
          + eapply Permutation_NoDup; [|exact Nd]. apply Permutation_app_head. apply Permutation_sym; exact Hperm.
          + eapply Permutation_NoDup; [apply Permutation_app_head; apply Permutation_sym; exact Hperm|].
            eapply Permutation_NoDup; [apply Permutation_middle|]. constructor; auto.
            intros Hc. apply in_app_iff in Hc as [Hc|Hc]; auto.
        - intros x Hx. apply Hin1 in Hx as [->|Hx]; [split; auto|].
          destruct (Rg x Hx) as [R1 R2]. split; auto.
        - intros x Hx. apply Hin1. destruct (Nat.eq_dec x w) as [->|Hxw]; [auto|]. right. apply Vs.
          destruct Hx as [->|Hx]; [left; reflexivity|]. right.
          cbn [lx_pred st1] in Hx. rewrite hp_nth_set_nth_neq in Hx by auto. exact Hx.
        - intros v e' Hv. destruct (Nat.eq_dec v w) as [->|Hvw].
          + rewrite hp_nth_set_nth_eq in Hv by lia. injection Hv as <-.
            split; [exact Hwn|]. split; [exact Hws|]. exists u.
            rewrite lx_key_set_eq by lia. rewrite lx_key_set_neq by exact Hwu.
            rewrite hp_nth_set_nth_eq by lia. rewrite Hdu.
            repeat split; auto.
          + rewrite hp_nth_set_nth_neq in Hv by auto.
            destruct (Pr v e' Hv) as [P1 [P2 [u' [Q1 [Q2 [Q3 [Q4 [Q5 Q6]]]]]]]].
            split; [exact P1|]. split; [exact P2|]. exists u'.
            assert (Hu'w : w <> u') by (intros ->; contradiction).
            rewrite !lx_key_set_neq by auto. rewrite hp_nth_set_nth_neq by auto.
            repeat split; auto. }
      destruct Hr as [Heq _|Hwu Hws Hwn Hp Heq|h' Hwu Hws Hwn Hp Hlt Hup Heq]; subst st'.
      - split; [constructor; auto|split; auto].
      - assert (Hnin : ~ In w (lx_heap st)).
        { intros Hin. destruct (Rg w (in_or_app _ _ _ (or_intror Hin))) as [_ [Hc|Hc]]; auto. }
        apply Hcommon; auto; try (intros Hc; contradiction).
        destruct (in_dec Nat.eq_dec w (lx_heap st)); [contradiction|]. apply hp_push_perm.
      - apply hp_update_some in Hup as [Hin Hperm].
        apply Hcommon; auto; try (intros Hc; contradiction).
        destruct (in_dec Nat.eq_dec w (lx_heap st)); [exact Hperm|contradiction].
    Qed.

    (* the whole scan of out_edges(u) *)
    Lemma lx_fold_inner u d_u D : forall (es : list (nat * nat)) st st',
      (forall e w, In (e, w) es -> joins g e u w) -> lx_inner u d_u st D ->
      fold_left (lx_relax g wts s u d_u) es (LxOk st) = LxOk st' -> lx_inner u d_u st' D.
    Proof.
      induction es as [|[e w] es IH]; intros st st' Hes Hin Hf; cbn [fold_left] in Hf.
      - injection Hf as <-. exact Hin.
      - destruct (lx_relax g wts s u d_u (LxOk st) (e, w)) as [st1| | | |] eqn:E1.
        + eapply IH; [intros; apply Hes; right; eauto| |exact Hf].
          eapply lx_relax_inner; [apply Hes; left; reflexivity|exact Hin|exact E1].
        + exfalso. clear - Hf. induction es as [|x es IH]; cbn [fold_left] in Hf; [discriminate|].
          rewrite lx_relax_err in Hf by discriminate. auto.
        + exfalso. clear - Hf. induction es as [|x es IH]; cbn [fold_left] in Hf; [discriminate|].
          rewrite lx_relax_err in Hf by discriminate. auto.
        + exfalso. clear - Hf. induction es as [|x es IH]; cbn [fold_left] in Hf; [discriminate|].
          rewrite lx_relax_err in Hf by discriminate. auto.
        + exfalso. clear - Hf. induction es as [|x es IH]; cbn [fold_left] in Hf; [discriminate|].
          rewrite lx_relax_err in Hf by discriminate. auto.
    Qed.

    Lemma lx_fold_err u d_u r : (forall st, r <> LxOk st) ->
      forall es, fold_left (lx_relax g wts s u d_u) es r = r.
    Proof.
      intros H es. induction es as [|x es IH]; cbn [fold_left]; [reflexivity|].
      rewrite lx_relax_err by exact H. exact IH.
    Qed.

    (* ---- one iteration of the while loop -------------------------------------------- *)

    Definition lx_popped (st : lx_state) : lx_state :=
      {| lx_lex := lx_lex st; lx_dist := lx_dist st; lx_pred := lx_pred st;
         lx_heap := hpop (lx_key (lx_lex st)) (lx_heap st) |}.

    Definition lx_step (st : lx_state) (u : nat) : lx_result lx_state :=
      fold_left (lx_relax g wts s u (lx_key (lx_lex st) u)) (out_edges g u) (LxOk (lx_popped st)).

    Lemma lx_loop_unfold fuel st :
      lx_loop (S fuel) g wts s st =
      match heap_top (lx_heap st) with
      | None => LxOk st
      | Some u => match lx_step st u with LxOk st' => lx_loop fuel g wts s st' | err => err end
      end.
    Proof. cbn [LexSPModel.lx_loop]. destruct st as [lex dist pred heap]; reflexivity. Qed.

    Lemma lx_heap_top_cons (h : list nat) u : heap_top h = Some u -> exists r, h = u :: r.
    Proof. destruct h as [|x r]; cbn [heap_top hd_error]; [discriminate|]. intros [= ->]. eauto. Qed.

    Lemma lx_pop_perm key u r : Permutation (heap_pop label lx_ltb key (u :: r)) r.
    Proof. eapply Permutation_cons_inv. apply hp_pop_perm. Qed.

    Lemma lx_popped_inner st D u :
      lx_inv st D -> heap_top (lx_heap st) = Some u ->
      lx_inner u (lx_key (lx_lex st) u) (lx_popped st) (D ++ [u]).
    Proof.
      intros [L1 L2 L3 Ss Sp Sl Nd Rg Vs Pr] Ht. apply lx_heap_top_cons in Ht as [r Hr].
      pose proof (lx_pop_perm (lx_key (lx_lex st)) u r) as Hperm. rewrite <- Hr in Hperm.
      assert (Hin : forall x, In x ((D ++ [u]) ++ lx_heap (lx_popped st)) <-> In x (D ++ lx_heap st)).
      { intros x. cbn [lx_heap lx_popped]. rewrite !in_app_iff. rewrite Hr at 2. cbn [In].
        split.
        - intros [[Hx|[<-|[]]]|Hx]; auto. right; right. eapply Permutation_in; eauto.
        - intros [Hx|[<-|Hx]]; auto. right. eapply Permutation_in; [apply Permutation_sym; exact Hperm|exact Hx]. }
      split; [|split; [apply in_or_app; right; left; reflexivity|reflexivity]].
      constructor; cbn [lx_lex lx_dist lx_pred lx_heap lx_popped]; auto.
      - rewrite <- app_assoc. cbn [app].
        eapply Permutation_NoDup; [|exact Nd]. apply Permutation_app_head. rewrite Hr.
        apply perm_skip. apply Permutation_sym. rewrite Hr in Hperm. exact Hperm.
      - intros x Hx. apply Hin in Hx. apply Rg in Hx. exact Hx.
      - intros x Hx. apply Hin. apply Vs. exact Hx.
      - intros v e Hv. destruct (Pr v e Hv) as [P1 [P2 [u' [Q1 [Q2 [Q3 Q4]]]]]].
        split; auto. split; auto. exists u'. repeat split; try tauto. apply in_or_app; left; exact Q3.
    Qed.

    Lemma lx_step_inv st D u st' :
      lx_inv st D -> heap_top (lx_heap st) = Some u -> lx_step st u = LxOk st' -> lx_inv st' (D ++ [u]).
    Proof.
      intros Hinv Ht Hs. unfold lx_step in Hs.
      eapply lx_fold_inner in Hs; [destruct Hs as [H _]; exact H| |apply lx_popped_inner; auto].
      intros e w Hew. apply gl_out_edges_joins. exact Hew.
    Qed.

    Lemma lx_inv_bound st D : lx_inv st D -> length D + length (lx_heap st) <= nv g.
    Proof.
      intros Hinv. rewrite <- app_length. apply lx_NoDup_bound; [apply (li_nodup _ _ Hinv)|].
      intros x Hx. apply (li_range _ _ Hinv). exact Hx.
    Qed.

    (* proof rule for the loop: any invariant P that implies the structural bound and is preserved by a
       successful iteration holds, with an empty queue, at the end of every successful run; the run does not
       run out of fuel; an error can only come from an iteration *)
    Lemma lx_loop_rule (P : lx_state -> list nat -> Prop) :
      (forall st D, P st D -> length D + length (lx_heap st) <= nv g) ->
      (forall st D u st', P st D -> heap_top (lx_heap st) = Some u -> lx_step st u = LxOk st' -> P st' (D ++ [u])) ->
      forall fuel st D, P st D -> nv g + 1 <= length D + fuel ->
      match lx_loop fuel g wts s st with
      | LxOk st' => exists D', P st' D' /\ lx_heap st' = []
      | LxFuel => False
      | err => exists st1 D1 u, P st1 D1 /\ heap_top (lx_heap st1) = Some u /\ lx_step st1 u = err
      end.
    Proof.
      intros Hbound Hstep. induction fuel as [|fuel IH]; intros st D HP Hf.
      - pose proof (Hbound _ _ HP) as Hb.
        destruct st as [lex dist pred heap]. cbn [LexSPModel.lx_loop lx_heap] in *.
        destruct heap as [|x r]; cbn [heap_top hd_error length] in *; [|lia].
        exists D. split; [exact HP|reflexivity].
      - rewrite lx_loop_unfold. destruct (heap_top (lx_heap st)) as [u|] eqn:Et.
        + destruct (lx_step st u) as [st1| | | |] eqn:Es.
          * apply (IH st1 (D ++ [u])); [eapply Hstep; eauto|]. rewrite app_length. cbn [length]. lia.
          * exfalso. unfold lx_step in Es.
            assert (Hno : forall es r, fold_left (lx_relax g wts s u (lx_key (lx_lex st) u)) es r = LxFuel ->
                                       r = LxFuel \/ exists st0 ew, lx_relax g wts s u (lx_key (lx_lex st) u) (LxOk st0) ew = LxFuel).
            { induction es as [|x es IHes]; intros r Hr; cbn [fold_left] in Hr; [left; exact Hr|].
              apply IHes in Hr as [Hr|Hr]; [|right; exact Hr].
              destruct r as [st0| | | |]; try (cbn in Hr; discriminate); [right; eauto|left; reflexivity]. }
            apply Hno in Es as [Es|[st0 [[e w] Es]]]; [discriminate|].
            destruct (lx_relax_result u (lx_key (lx_lex st) u) e w st0) as [[st2 H2]|[[H2 _]|[H2 _]]];
              rewrite H2 in Es; discriminate.
          * exists st, D, u. auto.
          * exists st, D, u. auto.
          * exists st, D, u. auto.
        + destruct st as [lex dist pred heap]. cbn [lx_heap] in *.
          destruct heap; [|discriminate]. exists D. split; [exact HP|reflexivity].
    Qed.

    (* ---- the initial state ------------------------------------------------------------- *)

    Lemma lx_init_inv : s < nv g -> lx_inv (lx_init g s) [].
    Proof.
      intros Hs. unfold LexSPModel.lx_init.
      set (lex0 := map (fun _ => lx_default) (seq 0 (nv g))).
      set (lab_s := {| l_dist := w0; l_cnt := 0; l_set := [s] |}).
      assert (Hheap : hpush (lx_key (set_nth lex0 s lab_s)) [] s = [s]) by reflexivity.
      rewrite Hheap.
      assert (Hnone : forall v, nth v (map (fun _ : nat => @None nat) (seq 0 (nv g))) None = None)
        by (intros v; apply lx_nth_const_default).
      constructor; cbn [lx_lex lx_dist lx_pred lx_heap app]; auto.
      - rewrite hp_set_nth_length. apply lx_const_length.
      - apply lx_const_length.
      - apply lx_const_length.
      - apply lx_key_set_eq. unfold lex0. rewrite lx_const_length. exact Hs.
      - constructor; [intros []|constructor].
      - intros x [<-|[]]. split; [exact Hs|left; reflexivity].
      - intros x [->|Hx]; [left; reflexivity|]. cbn [lx_pred] in Hx. rewrite Hnone in Hx. contradiction.
      - intros v e Hv. rewrite Hnone in Hv. discriminate.
    Qed.

    (* a successful run ends with an empty queue and the invariant *)
    Theorem lx_dijkstra_inv st :
      lex_dijkstra g wts s = LxOk st -> exists D, lx_inv st D /\ lx_heap st = [] /\ s < nv g.
    Proof.
      unfold LexSPModel.lex_dijkstra. destruct (Nat.ltb_spec s (nv g)) as [Hs|Hs]; cbn [negb]; [|discriminate].
      intros Hrun.
      pose proof (lx_loop_rule lx_inv lx_inv_bound lx_step_inv (S (nv g)) (lx_init g s) [] (lx_init_inv Hs)) as H.
      cbn [length] in H. specialize (H ltac:(lia)). rewrite Hrun in H.
      destruct H as [D [H1 H2]]. exists D. auto.
    Qed.

    (* out-of-range only on graphs with dangling endpoints *)
    Lemma lx_step_range st D u :
      simple_graph g -> lx_inv st D -> heap_top (lx_heap st) = Some u -> lx_step st u <> LxRange.
    Proof.
      intros Hsg Hinv Ht. unfold lx_step.
      assert (Hes : forall e w, In (e, w) (out_edges g u) -> w < nv g).
      { intros e w Hew. apply gl_out_edges_joins in Hew. apply (gl_simple_joins g e u w Hsg Hew). }
      revert Hes. generalize (out_edges g u) as es. generalize (lx_popped st) as st0.
      intros st0 es. revert st0. induction es as [|[e w] es IH]; intros st0 Hes; cbn [fold_left]; [discriminate|].
      destruct (lx_relax_result u (lx_key (lx_lex st) u) e w st0) as [[st2 H2]|[[H2 Hw]|[H2 _]]]; rewrite H2.
      - apply IH. intros; eapply Hes; right; eauto.
      - exfalso. apply Hw. eapply Hes; left; reflexivity.
      - rewrite lx_fold_err by discriminate. discriminate.
    Qed.

    Theorem lx_dijkstra_errors :
      lex_dijkstra g wts s <> LxFuel /\ lex_dijkstra g wts s <> LxNoNode /\
      (simple_graph g -> s < nv g -> lex_dijkstra g wts s <> LxRange).
    Proof.
      unfold LexSPModel.lex_dijkstra. destruct (Nat.ltb_spec s (nv g)) as [Hs|Hs]; cbn [negb].
      2:{ repeat split; try discriminate. intros; lia. }
      pose proof (lx_loop_rule lx_inv lx_inv_bound lx_step_inv (S (nv g)) (lx_init g s) [] (lx_init_inv Hs)) as H.
      cbn [length] in H. specialize (H ltac:(lia)).
      destruct (lx_loop (S (nv g)) g wts s (lx_init g s)) as [st'| | | |] eqn:E.
      - split; [discriminate|split; [discriminate|intros _ _; discriminate]].
      - destruct H.
      - destruct H as [st1 [D1 [u [H1 [H2 H3]]]]]. split; [discriminate|split; [discriminate|]].
        intros Hsg _ _. eapply lx_step_range; eauto.
      - split; [discriminate|split; [discriminate|intros _ _; discriminate]].
      - exfalso. destruct H as [st1 [D1 [u [H1 [H2 H3]]]]]. unfold lx_step in H3.
        assert (Hno : forall es r, fold_left (lx_relax g wts s u (lx_key (lx_lex st1) u)) es r = LxNoNode -> r = LxNoNode).
        { induction es as [|[e w] es IHes]; intros r Hr; cbn [fold_left] in Hr; [exact Hr|].
          apply IHes in Hr. destruct r as [st0| | | |]; try (cbn in Hr; discriminate); [|reflexivity].
          destruct (lx_relax_result u (lx_key (lx_lex st1) u) e w st0) as [[st2 H4]|[[H4 _]|[H4 _]]];
            rewrite H4 in Hr; discriminate. }
        apply Hno in H3. discriminate.
    Qed.

    (* ---- tree walks over a node table ------------------------------------------------------ *)

    (* lx_twalk nodes x p v: p leads from the node x down to the node v, every step (e, c) entering c through
       c's predecessor edge e from c's parent *)
    Inductive lx_twalk (nodes : list (option sp_node)) (x : nat) : list (nat * nat) -> nat -> Prop :=
    | ltw_nil : nth x nodes None <> None -> lx_twalk nodes x [] x
    | ltw_snoc : forall p u e v nd, lx_twalk nodes x p u -> nth v nodes None = Some nd -> sn_pred nd = Some e ->
                 opposite g e v = Some u -> lx_twalk nodes x (p ++ [(e, v)]) v.

    Lemma lx_twalk_end nodes x p v : lx_twalk nodes x p v -> nth v nodes None <> None.
    Proof. intros H; destruct H as [Hx|p u e v nd _ Hv _ _]; auto. rewrite Hv; discriminate. Qed.

    Lemma lx_twalk_start nodes x p v : lx_twalk nodes x p v -> nth x nodes None <> None.
    Proof. induction 1; auto. Qed.

    Lemma lx_twalk_app nodes x p u q v : lx_twalk nodes x p u -> lx_twalk nodes u q v -> lx_twalk nodes x (p ++ q) v.
    Proof.
      intros Hp Hq. induction Hq as [Hu|q u' e v nd Hq IH Hv He Ho].
      - rewrite app_nil_r. exact Hp.
      - rewrite app_assoc. eapply ltw_snoc; eauto.
    Qed.

    Lemma lx_twalk_front nodes x p v : lx_twalk nodes x p v ->
      (p = [] /\ v = x) \/
      exists e c q nd, p = (e, c) :: q /\ nth c nodes None = Some nd /\ sn_pred nd = Some e /\
                       opposite g e c = Some x /\ lx_twalk nodes c q v.
    Proof.
      induction 1 as [Hx|p u e v nd Hp IH Hv He Ho]; [left; auto|]. right.
      destruct IH as [[-> ->]|[e' [c [q [nd' [-> [H1 [H2 [H3 H4]]]]]]]]].
      - exists e, v, [], nd. cbn [app]. repeat split; auto. apply ltw_nil. rewrite Hv; discriminate.
      - exists e', c, (q ++ [(e, v)]), nd'. cbn [app]. repeat split; auto. eapply ltw_snoc; eauto.
    Qed.

    Lemma lx_twalk_walk nodes x p v : length nodes = nv g -> lx_twalk nodes x p v -> walk g x p v.
    Proof.
      intros Hlen. assert (Hlt : forall y, nth y nodes None <> None -> y < nv g).
      { intros y Hy. rewrite <- Hlen. destruct (Nat.lt_ge_cases y (length nodes)) as [H|H]; auto.
        rewrite nth_overflow in Hy by exact H. contradiction. }
      induction 1 as [Hx|p u e v nd Hp IH Hv He Ho].
      - constructor. auto.
      - eapply gl_walk_app; [exact IH|]. econstructor; [apply lx_opposite_joins; exact Ho|].
        constructor. apply Hlt. rewrite Hv; discriminate.
    Qed.

    (* below a root without predecessor edge, tree walks are unique *)
    Lemma lx_twalk_unique nodes r nd_r :
      nth r nodes None = Some nd_r -> sn_pred nd_r = None ->
      forall p v, lx_twalk nodes r p v -> forall p', lx_twalk nodes r p' v -> p = p'.
    Proof.
      intros Hr Hr0. induction 1 as [Hx|p u e v nd Hp IH Hv He Ho]; intros p' H'.
      - inversion H' as [|q u' e' ? nd' Hq Hv' He' Ho']; subst; auto.
        rewrite Hr in Hv'. injection Hv' as <-. congruence.
      - inversion H' as [Hy|q u' e' ? nd' Hq Hv' He' Ho']; subst.
        + rewrite Hr in Hv. injection Hv as <-. congruence.
        + rewrite Hv in Hv'. injection Hv' as <-. rewrite He in He'. injection He' as <-.
          rewrite Ho in Ho'. injection Ho' as <-. f_equal. apply IH. exact Hq.
    Qed.

    Definition lx_par (nodes : list (option sp_node)) (v : nat) : option nat :=
      match nth v nodes None with
      | Some nd => match sn_pred nd with Some e => opposite g e v | None => None end
      | None => None
      end.

    Lemma lx_twalk_step nodes x p u v :
      lx_twalk nodes x p u -> nth v nodes None <> None -> lx_par nodes v = Some u ->
      exists e, lx_twalk nodes x (p ++ [(e, v)]) v.
    Proof.
      intros Hp Hv Hpar. unfold lx_par in Hpar. destruct (nth v nodes None) as [nd|] eqn:En; [|contradiction].
      destruct (sn_pred nd) as [e|] eqn:Ee; [|discriminate]. exists e. eapply ltw_snoc; eauto.
    Qed.

    (* ---- compute_first_in_path -------------------------------------------------------- *)
    Section FirstLoop.
      Variable nodes : list (option sp_node).
      Variable root : sp_node.
      Hypothesis T_len : length nodes = nv g.
      Hypothesis T_root : nth s nodes None = Some root.
      Hypothesis T_root_pred : sn_pred root = None.
      Hypothesis T_children : forall u nd, nth u nodes None = Some nd ->
        NoDup (sn_children nd) /\
        forall c, In c (sn_children nd) <-> (nth c nodes None <> None /\ lx_par nodes c = Some u).
      Hypothesis T_chain : forall v, nth v nodes None <> None -> exists p, lx_twalk nodes s p v.

      (* the label vertex x must receive *)
      Definition lx_lab (x i : nat) : Prop :=
        (x = s /\ i = s) \/
        (x <> s /\ nth i nodes None <> None /\ lx_par nodes i = Some s /\ exists q, lx_twalk nodes i q x).

      Let isnode (v : nat) : Prop := nth v nodes None <> None.

      Lemma lx_isnode_lt v : isnode v -> v < nv g.
      Proof.
        unfold isnode. intros Hv. rewrite <- T_len. destruct (Nat.lt_ge_cases v (length nodes)) as [H|H]; auto.
        rewrite nth_overflow in Hv by exact H. contradiction.
      Qed.

      Lemma lx_par_root : lx_par nodes s = None.
      Proof. unfold lx_par. rewrite T_root, T_root_pred. reflexivity. Qed.

      Record lx_dfs_inv (stack : list (nat * nat)) (first popped : list nat) : Prop := {
        di_nodup : NoDup (map snd stack ++ popped);
        di_stack : forall i x, In (i, x) stack -> isnode x /\ lx_lab x i;
        di_par : forall x, In x (map snd stack ++ popped) -> x = s \/ exists u, lx_par nodes x = Some u /\ In u popped;
        di_done : forall x, In x popped -> lx_lab x (nth x first 0);
        di_todo : forall v, isnode v -> In v popped \/ exists i x q, In (i, x) stack /\ lx_twalk nodes x q v;
        di_len : length first = nv g
      }.

      Lemma lx_first_loop_ok : forall fuel stack first popped,
        lx_dfs_inv stack first popped -> nv g + 1 <= length popped + fuel ->
        exists first', lx_first_loop fuel s nodes stack first = LxOk first' /\ length first' = nv g /\
                       forall v, isnode v -> lx_lab v (nth v first' 0).
      Proof.
        induction fuel as [|fuel IH]; intros stack first popped Hinv Hf.
        - assert (Hb : length (map snd stack ++ popped) <= nv g).
          { apply lx_NoDup_bound; [apply (di_nodup _ _ _ Hinv)|].
            intros x Hx. apply in_app_iff in Hx as [Hx|Hx].
            - apply in_map_iff in Hx as [[i y] [<- Hy]]. apply lx_isnode_lt. eapply di_stack; eauto.
            - destruct (di_done _ _ _ Hinv x Hx) as [[-> _]|[_ [_ [_ [q Hq]]]]].
              + apply lx_isnode_lt. unfold isnode. rewrite T_root. discriminate.
              + apply lx_isnode_lt. eapply lx_twalk_end; eauto. }
          rewrite app_length, map_length in Hb.
          destruct stack as [|[i x] rest]; [|cbn [length] in Hb; lia].
          exists first. cbn [LexSPModel.lx_first_loop]. split; [reflexivity|]. split; [apply (di_len _ _ _ Hinv)|].
          intros v Hv. destruct (di_todo _ _ _ Hinv v Hv) as [Hp|[i [x [q [[] _]]]]].
          apply (di_done _ _ _ Hinv). exact Hp.
        - destruct stack as [|[info x] rest].
          { exists first. cbn [LexSPModel.lx_first_loop]. split; [reflexivity|]. split; [apply (di_len _ _ _ Hinv)|].
            intros v Hv. destruct (di_todo _ _ _ Hinv v Hv) as [Hp|[i [x [q [[] _]]]]].
            apply (di_done _ _ _ Hinv). exact Hp. }
          destruct Hinv as [Nd Stk Par Done Todo Len].
          destruct (Stk info x (or_introl eq_refl)) as [Hx Hlab].
          assert (Hxlt : x < nv g) by (apply lx_isnode_lt; exact Hx).
          unfold isnode in Hx. destruct (nth x nodes None) as [ndx|] eqn:Endx; [|contradiction]. clear Hx.
          destruct (T_children x ndx Endx) as [Hcs_nd Hcs].
          set (cs := sn_children ndx) in *.
          set (inf := fun c : nat => if Nat.eqb x s then c else info).
          assert (Hunf : lx_first_loop (S fuel) s nodes ((info, x) :: rest) first =
                         lx_first_loop fuel s nodes (rev (map (fun c => (inf c, c)) cs) ++ rest) (set_nth first x info)).
          { cbn [LexSPModel.lx_first_loop]. unfold LexSPModel.lx_children. rewrite Endx. fold cs. unfold inf.
            destruct (Nat.eqb_spec x s) as [Hxs|Hxs]; [|reflexivity].
            destruct Hlab as [[_ ->]|[Hc _]]; [|contradiction]. rewrite Hxs. reflexivity. }
          rewrite Hunf. apply (IH _ _ (x :: popped)); [|cbn [length]; lia].
          (* facts about the children *)
          assert (Hc_par : forall c, In c cs -> isnode c /\ lx_par nodes c = Some x) by (intros c Hc; apply Hcs; exact Hc).
          assert (Hc_ne_s : forall c, In c cs -> c <> s).
          { intros c Hc ->. destruct (Hc_par s Hc) as [_ Hp]. rewrite lx_par_root in Hp. discriminate. }
          assert (Hx_in : In x (map snd ((info, x) :: rest) ++ popped)) by (left; reflexivity).
          assert (Hx_notpopped : ~ In x popped).
          { cbn [map snd app] in Nd. inversion Nd as [|? ? Hn _]; subst. intros Hc. apply Hn. apply in_or_app; right; exact Hc. }
          assert (Hc_fresh : forall c, In c cs -> ~ In c (map snd ((info, x) :: rest) ++ popped)).
          { intros c Hc Hin. destruct (Par c Hin) as [->|[u [Hu Hup]]]; [eapply Hc_ne_s; eauto|].
            destruct (Hc_par c Hc) as [_ Hp]. rewrite Hp in Hu. injection Hu as <-. contradiction. }
          assert (Hmapsnd : map snd (rev (map (fun c => (inf c, c)) cs) ++ rest) = rev cs ++ map snd rest).
          { rewrite map_app, map_rev, map_map. cbn [snd]. rewrite map_id. reflexivity. }
          constructor.
          + rewrite Hmapsnd, <- app_assoc. apply gl_NoDup_app.
            * apply NoDup_rev. exact Hcs_nd.
            * eapply Permutation_NoDup; [apply Permutation_middle|]. exact Nd.
            * intros c Hc Hin. apply in_rev in Hc. apply (Hc_fresh c Hc).
              cbn [map snd app]. apply in_app_iff in Hin as [Hin|[<-|Hin]]; [right|left; reflexivity|right];
                apply in_or_app; auto.
          + intros i y Hy. apply in_app_iff in Hy as [Hy|Hy]; [|apply Stk; right; exact Hy].
            apply in_rev in Hy. apply in_map_iff in Hy as [c [Hc Hcin]]. injection Hc as <- <-.
            destruct (Hc_par c Hcin) as [Hcn Hcp]. split; [exact Hcn|]. right.
            split; [apply Hc_ne_s; exact Hcin|]. unfold inf.
            destruct (Nat.eqb_spec x s) as [Hxs|Hxs].
            * subst x. split; [exact Hcn|]. split; [exact Hcp|]. exists []. apply ltw_nil. exact Hcn.
            * destruct Hlab as [[Hc _]|[_ [Hi1 [Hi2 [q Hq]]]]]; [contradiction|].
              split; [exact Hi1|]. split; [exact Hi2|].
              destruct (lx_twalk_step nodes info q x c Hq Hcn Hcp) as [e He]. eauto.
          + intros y Hy. rewrite Hmapsnd, <- app_assoc in Hy.
            apply in_app_iff in Hy as [Hy|Hy].
            * apply in_rev in Hy. right. exists x. split; [apply Hc_par; exact Hy|left; reflexivity].
            * assert (Hy' : In y (map snd ((info, x) :: rest) ++ popped)).
              { cbn [map snd app]. apply in_app_iff in Hy as [Hy|[<-|Hy]]; [right|left; reflexivity|right];
                  apply in_or_app; auto. }
              destruct (Par y Hy') as [->|[u [Hu Hup]]]; [left; reflexivity|].
              right. exists u. split; [exact Hu|right; exact Hup].
          + intros y [<-|Hy].
            * rewrite hp_nth_set_nth_eq by lia. exact Hlab.
            * rewrite hp_nth_set_nth_neq by (intros ->; contradiction). apply Done; exact Hy.
          + intros v Hv. destruct (Todo v Hv) as [Hp|[i [y [q [[Hy|Hy] Hq]]]]].
            * left; right; exact Hp.
            * injection Hy as <- <-. apply lx_twalk_front in Hq as [[_ ->]|[e [c [q' [nd [_ [Hc1 [Hc2 [Hc3 Hc4]]]]]]]]].
              -- left; left; reflexivity.
              -- right. exists (inf c), c, q'. split; [|exact Hc4].
                 apply in_or_app; left. apply -> in_rev. apply in_map_iff. exists c. split; [reflexivity|].
                 apply Hcs. split; [rewrite Hc1; discriminate|]. unfold lx_par. rewrite Hc1, Hc2. exact Hc3.
            * right. exists i, y, q. split; [apply in_or_app; right; exact Hy|exact Hq].
          + rewrite hp_set_nth_length. exact Len.
      Qed.

      Lemma lx_first_ok :
        exists first, lx_first_loop (S (nv g)) s nodes [(s, s)] (map (fun _ => 0) (seq 0 (nv g))) = LxOk first /\
                      length first = nv g /\ forall v, nth v nodes None <> None -> lx_lab v (nth v first 0).
      Proof.
        apply (lx_first_loop_ok _ _ _ []); [|cbn [length]; lia].
        assert (Hs : isnode s) by (unfold isnode; rewrite T_root; discriminate).
        constructor; cbn [map snd app].
        - constructor; [intros []|constructor].
        - intros i x [Hx|[]]. injection Hx as <- <-. split; [exact Hs|left; auto].
        - intros x [<-|[]]. left; reflexivity.
        - intros x [].
        - intros v Hv. right. destruct (T_chain v Hv) as [p Hp]. exists s, s, p. split; [left; reflexivity|exact Hp].
        - apply lx_const_length.
      Qed.
    End FirstLoop.

    (* ---- "create tree nodes and mapping" ------------------------------------------------ *)

    Definition lx_node0 (dist : list (option W)) (pred : list (option nat)) (v : nat) : option sp_node :=
      if Nat.eqb v s then Some {| sn_weight := w0; sn_pred := None; sn_children := [] |}
      else match nth v pred None with
           | Some e => match nth v dist None with
                       | Some d => Some {| sn_weight := d; sn_pred := Some e; sn_children := [] |}
                       | None => None
                       end
           | None => None
           end.

    Lemma lx_mk_nodes_ok dist pred :
      (forall v e, nth v pred None = Some e -> nth v dist None <> None) ->
      forall vs, lx_mk_nodes s dist pred vs = LxOk (map (lx_node0 dist pred) vs).
    Proof.
      intros H. induction vs as [|v vs IH]; cbn [LexSPModel.lx_mk_nodes map]; [reflexivity|].
      rewrite IH. cbn beta iota. unfold lx_node0. destruct (Nat.eqb v s); [reflexivity|].
      destruct (nth v pred None) as [e|] eqn:Ep; [|reflexivity].
      destruct (nth v dist None) as [d|] eqn:Ed; [reflexivity|]. exfalso. eapply H; eauto.
    Qed.

    Lemma lx_nth_map_seq {A} (f : nat -> A) n v d : v < n -> nth v (map f (seq 0 n)) d = f v.
    Proof.
      intros Hv. rewrite (nth_indep _ d (f 0)) by (rewrite map_length, seq_length; exact Hv).
      rewrite map_nth. rewrite seq_nth by exact Hv. reflexivity.
    Qed.

    Lemma lx_nth_some_lt {A} (l : list (option A)) i x : nth i l None = Some x -> i < length l.
    Proof.
      intros H. destruct (Nat.lt_ge_cases i (length l)) as [Hl|Hl]; auto.
      rewrite nth_overflow in H by exact Hl. discriminate.
    Qed.

    (* ---- "link tree nodes" -------------------------------------------------------------- *)

    Definition lx_is_child (pred : list (option nat)) (u v : nat) : bool :=
      match nth v pred None with
      | Some e => match opposite g e v with Some u' => Nat.eqb u' u | None => false end
      | None => false
      end.

    Definition lx_add_children (nd : sp_node) (cs : list nat) : sp_node :=
      {| sn_weight := sn_weight nd; sn_pred := sn_pred nd; sn_children := sn_children nd ++ cs |}.

    Lemma lx_link_ok pred : forall vs nodes,
      (forall v e, In v vs -> nth v pred None = Some e ->
                   exists u, opposite g e v = Some u /\ nth u nodes None <> None) ->
      exists nodes', fold_left (lx_link_step g pred) vs (LxOk nodes) = LxOk nodes' /\
        length nodes' = length nodes /\
        forall u, nth u nodes' None =
                  match nth u nodes None with
                  | Some nd => Some (lx_add_children nd (filter (lx_is_child pred u) vs))
                  | None => None
                  end.
    Proof.
      induction vs as [|v vs IH]; intros nodes H.
      - exists nodes. split; [reflexivity|]. split; [reflexivity|]. intros u.
        destruct (nth u nodes None) as [nd|]; [|reflexivity]. unfold lx_add_children. cbn [filter].
        rewrite app_nil_r. destruct nd; reflexivity.
      - cbn [fold_left]. destruct (nth v pred None) as [e|] eqn:Ep.
        + destruct (H v e (or_introl eq_refl) Ep) as [u0 [Ho Hn]].
          destruct (nth u0 nodes None) as [nu|] eqn:Enu; [|contradiction].
          set (nodes1 := set_nth nodes u0 (Some (lx_add_children nu [v]))).
          assert (Hstep : lx_link_step g pred (LxOk nodes) v = LxOk nodes1).
          { unfold LexSPModel.lx_link_step. rewrite Ep, Ho, Enu. reflexivity. }
          rewrite Hstep. pose proof (lx_nth_some_lt _ _ _ Enu) as Hu0.
          destruct (IH nodes1) as [nodes' [Hf [Hl Hc]]].
          { intros v' e' Hv' Ep'. destruct (H v' e' (or_intror Hv') Ep') as [u [Hou Hnu]].
            exists u. split; [exact Hou|]. unfold nodes1. destruct (Nat.eq_dec u0 u) as [->|Hne].
            - rewrite hp_nth_set_nth_eq by exact Hu0. discriminate.
            - rewrite hp_nth_set_nth_neq by exact Hne. exact Hnu. }
          exists nodes'. split; [exact Hf|]. split; [rewrite Hl; unfold nodes1; apply hp_set_nth_length|].
          intros u. rewrite Hc. unfold nodes1. destruct (Nat.eq_dec u0 u) as [->|Hne].
          * rewrite hp_nth_set_nth_eq by exact Hu0. rewrite Enu. f_equal.
            cbn [filter]. unfold lx_is_child at 2. rewrite Ep, Ho, Nat.eqb_refl.
            unfold lx_add_children. cbn [sn_weight sn_pred sn_children]. rewrite <- app_assoc. reflexivity.
          * rewrite hp_nth_set_nth_neq by exact Hne. cbn [filter]. unfold lx_is_child at 2. rewrite Ep, Ho.
            destruct (Nat.eqb_spec u0 u); [contradiction|]. reflexivity.
        + assert (Hstep : lx_link_step g pred (LxOk nodes) v = LxOk nodes).
          { unfold LexSPModel.lx_link_step. rewrite Ep. reflexivity. }
          rewrite Hstep. destruct (IH nodes) as [nodes' [Hf [Hl Hc]]].
          { intros v' e' Hv' Ep'. apply (H v' e'); [right; exact Hv'|exact Ep']. }
          exists nodes'. split; [exact Hf|]. split; [exact Hl|]. intros u. rewrite Hc.
          cbn [filter]. unfold lx_is_child at 2. rewrite Ep. reflexivity.
    Qed.

    (* ---- the tree returned by SPTree::initialize ------------------------------------------- *)

    Record lx_tree_spec (t : sp_tree) : Prop := {
      ts_src : st_src t = s;
      ts_len : length (st_nodes t) = nv g;
      ts_flen : length (st_first t) = nv g;
      ts_root : exists nd, sp_node_of t s = Some nd /\ sn_pred nd = None /\ sn_weight nd = w0;
      ts_nonroot : forall v nd, sp_node_of t v = Some nd -> v <> s ->
                   exists e u, sn_pred nd = Some e /\ opposite g e v = Some u /\ sp_node_of t u <> None;
      ts_chain : forall v, sp_node_of t v <> None -> exists p, lx_twalk (st_nodes t) s p v;
      ts_weight : forall v nd p, sp_node_of t v = Some nd -> lx_twalk (st_nodes t) s p v ->
                  sn_weight nd = lx_wsum wts p;
      ts_first_root : sp_first t s = s;
      ts_first : forall v, v <> s -> sp_node_of t v <> None ->
                 exists e q, lx_twalk (st_nodes t) s ((e, sp_first t v) :: q) v;
      ts_children : forall u nd, sp_node_of t u = Some nd ->
                    sn_children nd = filter (fun c => match lx_par (st_nodes t) c with
                                                      | Some u' => Nat.eqb u' u | None => false end)
                                            (seq 0 (nv g))
    }.

    Theorem lx_sptree_ok st :
      lex_dijkstra g wts s = LxOk st ->
      exists t, sptree g wts s = LxOk t /\ lx_tree_spec t /\
                (forall v, sp_node_of t v <> None <-> (v < nv g /\ lx_visited st v)) /\
                (forall v nd, sp_node_of t v = Some nd -> sn_weight nd = l_dist (lx_key (lx_lex st) v)).
    Proof.
      intros Hrun. destruct (lx_dijkstra_inv st Hrun) as [D [Hinv [Hheap Hs]]].
      destruct Hinv as [L1 L2 L3 _ Sp Sl Nd Rg Vs Pr]. rewrite Hheap, app_nil_r in *.
      set (dist := lx_dist st) in *. set (pred := lx_pred st) in *. set (lex := lx_lex st) in *.
      set (n := nv g) in *.
      (* node creation *)
      assert (Hmk : lx_mk_nodes s dist pred (seq 0 n) = LxOk (map (lx_node0 dist pred) (seq 0 n))).
      { apply lx_mk_nodes_ok. intros v e Hv. destruct (Pr v e Hv) as [_ [_ [u [_ [_ [_ [_ [_ Hd]]]]]]]].
        rewrite Hd. discriminate. }
      set (nodes0 := map (lx_node0 dist pred) (seq 0 n)) in *.
      assert (Hn0 : forall v, nth v nodes0 None = if Nat.ltb v n then lx_node0 dist pred v else None).
      { intros v. destruct (Nat.ltb_spec v n) as [Hv|Hv]; [apply lx_nth_map_seq; exact Hv|].
        apply nth_overflow. unfold nodes0. rewrite map_length, seq_length. exact Hv. }
      assert (Hn0s : lx_node0 dist pred s = Some {| sn_weight := w0; sn_pred := None; sn_children := [] |}).
      { unfold lx_node0. rewrite Nat.eqb_refl. reflexivity. }
      assert (Hn0v : forall v e, v <> s -> nth v pred None = Some e ->
                lx_node0 dist pred v = Some {| sn_weight := l_dist (lx_key lex v); sn_pred := Some e; sn_children := [] |}).
      { intros v e Hvs Hv. unfold lx_node0. destruct (Nat.eqb_spec v s); [contradiction|]. rewrite Hv.
        destruct (Pr v e Hv) as [_ [_ [u [_ [_ [_ [_ [_ Hd]]]]]]]]. fold dist in Hd. rewrite Hd. reflexivity. }
      assert (Hn0none : forall v, v <> s -> nth v pred None = None -> lx_node0 dist pred v = None).
      { intros v Hvs Hv. unfold lx_node0. destruct (Nat.eqb_spec v s); [contradiction|]. rewrite Hv. reflexivity. }
      assert (Hvis0 : forall v, v < n -> (lx_node0 dist pred v <> None <-> lx_visited st v)).
      { intros v Hv. destruct (Nat.eq_dec v s) as [->|Hvs].
        - rewrite Hn0s. split; [intros _; left; reflexivity|discriminate].
        - unfold lx_visited. fold pred. destruct (nth v pred None) as [e|] eqn:Ep.
          + rewrite (Hn0v v e Hvs Ep). split; [intros _; right; discriminate|discriminate].
          + rewrite (Hn0none v Hvs Ep). split; [contradiction|]. intros [Hc|Hc]; contradiction. }
      (* linking *)
      destruct (lx_link_ok pred (seq 0 n) nodes0) as [nodes [Hlink [Hlen Hnodes]]].
      { intros v e Hv Ep. destruct (Pr v e Ep) as [_ [_ [u [Hj [Hne [HuD _]]]]]].
        exists u. split; [apply lx_joins_opposite; auto|].
        destruct (Rg u HuD) as [Hun Huv]. rewrite Hn0. destruct (Nat.ltb_spec u n); [|lia].
        apply Hvis0; auto. }
      assert (Hlenn : length nodes = n) by (rewrite Hlen; unfold nodes0; rewrite map_length, seq_length; reflexivity).
      set (chs := fun u => filter (lx_is_child pred u) (seq 0 n)).
      assert (Hnd : forall v, nth v nodes None =
                    if Nat.ltb v n then option_map (fun nd => lx_add_children nd (chs v)) (lx_node0 dist pred v) else None).
      { intros v. rewrite Hnodes, Hn0. destruct (Nat.ltb v n); [|reflexivity].
        destruct (lx_node0 dist pred v); reflexivity. }
      assert (Hnd_s : nth s nodes None = Some (lx_add_children {| sn_weight := w0; sn_pred := None; sn_children := [] |} (chs s))).
      { rewrite Hnd. destruct (Nat.ltb_spec s n); [|lia]. rewrite Hn0s. reflexivity. }
      assert (Hnd_node : forall v, nth v nodes None <> None <-> (v < n /\ lx_visited st v)).
      { intros v. rewrite Hnd. destruct (Nat.ltb_spec v n) as [Hv|Hv].
        - rewrite <- (Hvis0 v Hv). destruct (lx_node0 dist pred v); cbn [option_map]; split.
          + intros _. split; [exact Hv|discriminate].
          + intros _. discriminate.
          + intros Hc. contradiction.
          + intros [_ Hc]; exact Hc.
        - split; [contradiction|lia]. }
      assert (Hnd_pred : forall v nd, nth v nodes None = Some nd ->
                (v = s /\ sn_pred nd = None /\ sn_weight nd = w0) \/
                (v <> s /\ exists e, nth v pred None = Some e /\ sn_pred nd = Some e /\ sn_weight nd = l_dist (lx_key lex v))).
      { intros v nd Hv. rewrite Hnd in Hv. destruct (Nat.ltb_spec v n) as [Hvn|Hvn]; [|discriminate].
        destruct (Nat.eq_dec v s) as [->|Hvs].
        - rewrite Hn0s in Hv. cbn [option_map] in Hv. injection Hv as <-. left. auto.
        - right. split; [exact Hvs|]. destruct (nth v pred None) as [e|] eqn:Ep.
          + rewrite (Hn0v v e Hvs Ep) in Hv. cbn [option_map] in Hv. injection Hv as <-. exists e. auto.
          + rewrite (Hn0none v Hvs Ep) in Hv. discriminate. }
      assert (Hpar : forall v, lx_par nodes v = if Nat.eqb v s then None
                                               else match nth v pred None with Some e => opposite g e v | None => None end).
      { intros v. unfold lx_par. destruct (nth v nodes None) as [nd|] eqn:Env.
        - destruct (Hnd_pred v nd Env) as [[-> [Hp _]]|[Hvs [e [Ep [Hp _]]]]].
          + rewrite Hp, Nat.eqb_refl. reflexivity.
          + destruct (Nat.eqb_spec v s); [contradiction|]. rewrite Hp, Ep. reflexivity.
        - destruct (Nat.eqb_spec v s) as [->|Hvs]; [reflexivity|].
          destruct (nth v pred None) as [e|] eqn:Ep; [|reflexivity]. exfalso.
          assert (Hc : nth v nodes None <> None); [|contradiction].
          apply Hnd_node. destruct (Pr v e Ep) as [Hvn _]. split; [exact Hvn|]. right. fold pred. rewrite Ep. discriminate. }
      assert (Hchild : forall u c, lx_is_child pred u c = match lx_par nodes c with Some u' => Nat.eqb u' u | None => false end).
      { intros u c. rewrite Hpar. unfold lx_is_child. destruct (Nat.eqb_spec c s) as [->|Hcs]; [|destruct (nth c pred None); reflexivity].
        fold pred in Sp. rewrite Sp. reflexivity. }
      assert (Hnd_ch : forall u nd, nth u nodes None = Some nd -> sn_children nd = chs u).
      { intros u nd Hu. rewrite Hnd in Hu. destruct (Nat.ltb u n); [|discriminate].
        destruct (lx_node0 dist pred u) as [nd0|] eqn:E0; [|discriminate]. cbn [option_map] in Hu. injection Hu as <-.
        unfold lx_node0 in E0. destruct (Nat.eqb u s); [injection E0 as <-; reflexivity|].
        destruct (nth u pred None); [|discriminate]. destruct (nth u dist None); [|discriminate].
        injection E0 as <-. reflexivity. }
      (* hypotheses of the first-in-path loop *)
      assert (TC : forall u nd, nth u nodes None = Some nd ->
                NoDup (sn_children nd) /\
                forall c, In c (sn_children nd) <-> (nth c nodes None <> None /\ lx_par nodes c = Some u)).
      { intros u nd Hu. rewrite (Hnd_ch u nd Hu). unfold chs. split; [apply NoDup_filter, seq_NoDup|].
        intros c. rewrite filter_In, in_seq, Hchild. split.
        - intros [Hc Hp]. destruct (lx_par nodes c) as [u'|] eqn:Ep; [|discriminate].
          apply Nat.eqb_eq in Hp. subst u'. split; [|reflexivity].
          rewrite Hpar in Ep. destruct (Nat.eqb_spec c s) as [|Hcs]; [discriminate|].
          apply Hnd_node. split; [lia|]. right. fold pred. destruct (nth c pred None); [discriminate|discriminate].
        - intros [Hc Hp]. rewrite Hp, Nat.eqb_refl. apply Hnd_node in Hc. split; [lia|reflexivity]. }
      assert (Tchain : forall v, nth v nodes None <> None -> exists p, lx_twalk nodes s p v).
      { assert (Hk : forall k v, v < n -> lx_visited st v -> l_cnt (lx_key lex v) = k -> exists p, lx_twalk nodes s p v).
        { induction k as [|k IHk]; intros v Hvn Hvis Hcnt.
          - destruct (Nat.eq_dec v s) as [->|Hvs]; [exists []; apply ltw_nil; rewrite Hnd_s; discriminate|].
            destruct Hvis as [Hc|Hvis]; [contradiction|]. fold pred in Hvis.
            destruct (nth v pred None) as [e|] eqn:Ep; [|contradiction].
            destruct (Pr v e Ep) as [_ [_ [u [_ [_ [_ [_ [Hc _]]]]]]]]. fold lex in Hc. lia.
          - destruct (Nat.eq_dec v s) as [->|Hvs]; [exists []; apply ltw_nil; rewrite Hnd_s; discriminate|].
            destruct Hvis as [Hc|Hvis]; [contradiction|]. fold pred in Hvis.
            destruct (nth v pred None) as [e|] eqn:Ep; [|contradiction].
            destruct (Pr v e Ep) as [_ [_ [u [Hj [Hne [HuD [_ [Hc _]]]]]]]]. fold lex in Hc.
            destruct (Rg u HuD) as [Hun Huv].
            destruct (IHk u Hun Huv ltac:(lia)) as [p Hp].
            assert (Hvnode : nth v nodes None <> None).
            { apply Hnd_node. split; [exact Hvn|]. right. fold pred. rewrite Ep. discriminate. }
            destruct (nth v nodes None) as [nd|] eqn:Env; [|contradiction].
            destruct (Hnd_pred v nd Env) as [[Hc' _]|[_ [e' [Ep' [Hpe _]]]]]; [contradiction|].
            rewrite Ep in Ep'. injection Ep' as <-.
            exists (p ++ [(e, v)]). eapply ltw_snoc; eauto. apply lx_joins_opposite; auto. }
        intros v Hv. apply Hnd_node in Hv as [Hvn Hvis]. eapply Hk; eauto. }
      destruct (lx_first_ok nodes _ Hlenn Hnd_s eq_refl TC Tchain) as [first [Hfirst [Hflen Hlab]]].
      (* assemble *)
      set (t := {| st_src := s; st_nodes := nodes; st_first := first |}).
      exists t. split.
      { unfold LexSPModel.sptree. rewrite Hrun. fold dist pred n. rewrite Hmk. fold nodes0. rewrite Hlink.
        unfold n. rewrite Hfirst. reflexivity. }
      assert (Hlexw : forall p v, lx_twalk nodes s p v -> l_dist (lx_key lex v) = lx_wsum wts p).
      { induction 1 as [_|p u e v nd Hp IH Hv He Ho].
        - fold lex in Sl. rewrite Sl. reflexivity.
        - rewrite lx_wsum_snoc, <- IH.
          destruct (Hnd_pred v nd Hv) as [[_ [Hc _]]|[_ [e' [Ep [Hpe _]]]]]; [congruence|].
          rewrite He in Hpe. injection Hpe as <-.
          destruct (Pr v e Ep) as [_ [_ [u' [Hj [Hne [_ [Hd _]]]]]]].
          pose proof (lx_joins_opposite g e u' v Hj Hne) as Ho'. rewrite Ho in Ho'. injection Ho' as <-.
          exact Hd. }
      split; [|split].
      - constructor; cbn [st_src st_nodes st_first t]; unfold LexSPModel.sp_node_of, LexSPModel.sp_first; cbn [st_nodes st_first t]; auto.
        + eexists. split; [exact Hnd_s|]. split; reflexivity.
        + intros v nd Hv Hvs. destruct (Hnd_pred v nd Hv) as [[Hc _]|[_ [e [Ep [Hpe _]]]]]; [contradiction|].
          destruct (Pr v e Ep) as [_ [_ [u [Hj [Hne [HuD _]]]]]]. exists e, u. split; [exact Hpe|].
          split; [apply lx_joins_opposite; auto|]. apply Hnd_node. apply Rg. exact HuD.
        + intros v nd p Hv Hp. rewrite <- (Hlexw p v Hp).
          destruct (Hnd_pred v nd Hv) as [[-> [_ Hw]]|[_ [e [_ [_ Hw]]]]]; [|exact Hw].
          rewrite Hw. fold lex in Sl. rewrite Sl. reflexivity.
        + assert (Hsn : nth s nodes None <> None) by (rewrite Hnd_s; discriminate).
          destruct (Hlab s Hsn) as [[_ H]|[Hc _]]; [exact H|contradiction].
        + intros v Hvs Hv. destruct (Hlab v Hv) as [[Hc _]|[_ [Hi [Hip [q Hq]]]]]; [contradiction|].
          set (i := nth v first 0) in *.
          unfold lx_par in Hip. destruct (nth i nodes None) as [ndi|] eqn:Eni; [|discriminate].
          destruct (sn_pred ndi) as [e|] eqn:Epi; [|discriminate].
          exists e, q. change ((e, i) :: q) with (([] ++ [(e, i)]) ++ q).
          eapply lx_twalk_app; [|exact Hq]. eapply ltw_snoc; eauto. apply ltw_nil. rewrite Hnd_s; discriminate.
        + intros u nd Hu. rewrite (Hnd_ch u nd Hu). unfold chs. apply filter_ext. intros c. apply Hchild.
      - intros v. unfold LexSPModel.sp_node_of. cbn [st_nodes t]. apply Hnd_node.
      - intros v nd Hv. unfold LexSPModel.sp_node_of in Hv. cbn [st_nodes t] in Hv.
        destruct (Hnd_pred v nd Hv) as [[-> [_ Hw]]|[_ [e [_ [_ Hw]]]]]; [|exact Hw].
        rewrite Hw. fold lex in Sl. rewrite Sl. reflexivity.
    Qed.

    (* sptree fails exactly when lex_dijkstra does, with the same error *)
    Lemma lx_sptree_err :
      (forall st, lex_dijkstra g wts s <> LxOk st) ->
      match lex_dijkstra g wts s with
      | LxOk _ => False
      | LxFuel => sptree g wts s = LxFuel
      | LxRange => sptree g wts s = LxRange
      | LxNotInHeap => sptree g wts s = LxNotInHeap
      | LxNoNode => sptree g wts s = LxNoNode
      end.
    Proof.
      intros H. unfold LexSPModel.sptree. destruct (lex_dijkstra g wts s) as [st| | | |]; try reflexivity.
      eapply H; reflexivity.
    Qed.

    (* every tree that sptree returns satisfies the tree specification *)
    Lemma lx_sptree_spec t : sptree g wts s = LxOk t -> lx_tree_spec t.
    Proof.
      intros Ht. destruct (lex_dijkstra g wts s) as [st| | | |] eqn:E.
      - destruct (lx_sptree_ok st E) as [t' [Ht' [Hspec _]]]. rewrite Ht in Ht'. injection Ht' as <-. exact Hspec.
      - pose proof lx_sptree_err as H. rewrite E in H. rewrite H in Ht; [discriminate|discriminate].
      - pose proof lx_sptree_err as H. rewrite E in H. rewrite H in Ht; [discriminate|discriminate].
      - pose proof lx_sptree_err as H. rewrite E in H. rewrite H in Ht; [discriminate|discriminate].
      - pose proof lx_sptree_err as H. rewrite E in H. rewrite H in Ht; [discriminate|discriminate].
    Qed.
  End Run.

  (* the trees of a list of sources: one successful sptree per source, in order *)
  Lemma lx_all_ok g wts : forall ss,
    (forall s, In s ss -> exists t, sptree g wts s = LxOk t) ->
    exists ts, lx_all W w0 wadd wltb g wts ss = LxOk ts /\
               Forall2 (fun s t => sptree g wts s = LxOk t) ss ts.
  Proof.
    induction ss as [|s ss IH]; intros H; cbn [lx_all].
    - exists []. split; [reflexivity|constructor].
    - destruct (H s (or_introl eq_refl)) as [t Ht]. rewrite Ht.
      destruct IH as [ts [E F]]; [intros s' Hs'; apply H; right; exact Hs'|].
      rewrite E. exists (t :: ts). split; [reflexivity|constructor; auto].
  Qed.
End LexSPGen.
