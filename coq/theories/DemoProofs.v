(* DemoProofs.v — lemmas about DemoModel.v (property C11).  The final statements are restated in Properties_C11.v. *)
From Coq Require Import ZArith List Bool Lia.
From Parmcb Require Import DemoModel.
Import ListNotations.
Open Scope Z_scope.

(* ---------------------------------------------------------------------------------------------------------------- *)
(* specification vocabulary                                                                                          *)
(* ---------------------------------------------------------------------------------------------------------------- *)
(* the graph violates at least one precondition of the library *)
Definition invalid (v : verdicts) : Prop := v_loops v = true \/ v_multi v = true \/ v_nonpos v = true.
Definition valid (v : verdicts) : Prop := v_loops v = false /\ v_multi v = false /\ v_nonpos v = false.

Lemma valid_or_invalid : forall v, valid v \/ invalid v.
Proof. intros [[] [] []]; unfold valid, invalid; cbn; tauto. Qed.

Lemma valid_not_invalid : forall v, valid v -> ~ invalid v.
Proof. intros v (H1 & H2 & H3) [H | [H | H]]; congruence. Qed.

(* the command line is well formed, asks for a run and names a readable file *)
Definition runnable (o : opts) : Prop :=
  o_parse_error o = false /\ o_help o = false /\ o_input_given o = true /\ o_file_opens o = true.

(* the diagnostic the gate must give: the first violated precondition in the order loops, multiple edges, weights *)
Definition gate_diag (v : verdicts) : diag :=
  if v_loops v then DLoops else if v_multi v then DMulti else if v_nonpos v then DNonPos else DNone.

(* the documented priority of the algorithm options: signed > fvstrees > isotrees (isotrees = neither of the others) *)
Definition priority (o : opts) : family :=
  if o_signed o then Signed else if o_fvstrees o then FvsTrees else IsoTrees.

(* a stdout line that only exists when an algorithm was selected or has run *)
Definition algo_line {W} (l : line W) : bool :=
  match l with LUsingK _ _ | LUsingAlgo _ | LWeight _ | LCycles | LTime | LStats => true | _ => false end.
Definition is_weight {W} (l : line W) : bool := match l with LWeight _ => true | _ => false end.

(* "nothing of an algorithm": no entry point called, no algorithm line on stdout *)
Definition no_algorithm {W} (r : outcome W) : Prop := o_run r = None /\ forallb (fun l => negb (algo_line l)) (o_out r) = true.

(* the printed weights, in order *)
Definition printed_weights {W} (r : outcome W) : list (line W) := filter is_weight (o_out r).

(* ---------------------------------------------------------------------------------------------------------------- *)
(* dispatch = priority                                                                                               *)
(* ---------------------------------------------------------------------------------------------------------------- *)
Lemma mcb_dispatch_priority : forall o, mcb_dispatch o = CallMcb (priority o) (o_parallel o).
Proof. intros o; unfold mcb_dispatch, priority; destruct (o_signed o), (o_fvstrees o), (o_parallel o); reflexivity. Qed.

Lemma approx_dispatch_priority : forall o k, approx_dispatch o k = CallApprox (priority o) (o_parallel o) k.
Proof. intros o k; unfold approx_dispatch, priority; destruct (o_signed o), (o_fvstrees o), (o_parallel o); reflexivity. Qed.

Lemma mpi_dispatch_priority : forall o, mpi_dispatch o = CallMpi (priority o).
Proof. intros o; unfold mpi_dispatch, priority; destruct (o_signed o), (o_fvstrees o); reflexivity. Qed.

Lemma report_weights : forall W (o : opts) (w : W), filter is_weight (report o w) = [LWeight w].
Proof. intros W o w; unfold report; destruct (o_printcycles o), (o_verbose o); reflexivity. Qed.

(* ---------------------------------------------------------------------------------------------------------------- *)
(* the three sequential programs: gate                                                                               *)
(* ---------------------------------------------------------------------------------------------------------------- *)
Ltac front o :=
  unfold front_end; destruct (o_parse_error o) eqn:Epe; [|destruct (o_help o) eqn:Eh; [|destruct (o_input_given o) eqn:Ei]]; cbn.

(* on an invalid graph no option combination whatsoever makes a program call the library or print an algorithm line *)
Lemma gate_no_algorithm_mcb : forall W (run : call -> W) o v, invalid v -> no_algorithm (demo_mcb run o v).
Proof.
  intros W run o v Hv; unfold demo_mcb, no_algorithm; front o; try (split; reflexivity).
  destruct (o_file_opens o); cbn; [|split; reflexivity].
  destruct (v_loops v) eqn:E1; [split; reflexivity|].
  destruct (v_multi v) eqn:E2; [split; reflexivity|].
  destruct (v_nonpos v) eqn:E3; [split; reflexivity|].
  exfalso; destruct Hv as [H | [H | H]]; congruence.
Qed.

Lemma gate_no_algorithm_approx : forall W (run : call -> W) o v, invalid v -> no_algorithm (demo_approx run o v).
Proof.
  intros W run o v Hv; unfold demo_approx, no_algorithm; front o; try (split; reflexivity).
  destruct (o_file_opens o); cbn; [|split; reflexivity].
  destruct (v_loops v) eqn:E1; [split; reflexivity|].
  destruct (v_multi v) eqn:E2; [split; reflexivity|].
  destruct (v_nonpos v) eqn:E3; [split; reflexivity|].
  exfalso; destruct Hv as [H | [H | H]]; congruence.
Qed.

Lemma gate_no_algorithm_stats : forall W (run : call -> W) o v, invalid v -> no_algorithm (demo_stats run o v).
Proof.
  intros W run o v Hv; unfold demo_stats, no_algorithm; front o; try (split; reflexivity).
  destruct (o_file_opens o); cbn; [|split; reflexivity].
  destruct (v_loops v) eqn:E1; [split; reflexivity|].
  destruct (v_multi v) eqn:E2; [split; reflexivity|].
  destruct (v_nonpos v) eqn:E3; [split; reflexivity|].
  exfalso; destruct Hv as [H | [H | H]]; congruence.
Qed.

(* unless --help was given (and parsed), an invalid graph gives a non-zero status and a diagnostic *)
Lemma gate_status_mcb : forall W (run : call -> W) o v, invalid v -> o_help o = false ->
  o_status (demo_mcb run o v) <> 0 /\ o_diag (demo_mcb run o v) <> DNone.
Proof.
  intros W run o v Hv Hh; unfold demo_mcb; front o; try (split; discriminate); try congruence.
  destruct (o_file_opens o); cbn; [|split; discriminate].
  destruct (v_loops v) eqn:E1; [split; discriminate|].
  destruct (v_multi v) eqn:E2; [split; discriminate|].
  destruct (v_nonpos v) eqn:E3; [split; discriminate|].
  exfalso; destruct Hv as [H | [H | H]]; congruence.
Qed.

Lemma gate_status_approx : forall W (run : call -> W) o v, invalid v -> o_help o = false ->
  o_status (demo_approx run o v) <> 0 /\ o_diag (demo_approx run o v) <> DNone.
Proof.
  intros W run o v Hv Hh; unfold demo_approx; front o; try (split; discriminate); try congruence.
  destruct (o_file_opens o); cbn; [|split; discriminate].
  destruct (v_loops v) eqn:E1; [split; discriminate|].
  destruct (v_multi v) eqn:E2; [split; discriminate|].
  destruct (v_nonpos v) eqn:E3; [split; discriminate|].
  exfalso; destruct Hv as [H | [H | H]]; congruence.
Qed.

Lemma gate_status_stats : forall W (run : call -> W) o v, invalid v -> o_help o = false ->
  o_status (demo_stats run o v) <> 0 /\ o_diag (demo_stats run o v) <> DNone.
Proof.
  intros W run o v Hv Hh; unfold demo_stats; front o; try (split; discriminate); try congruence.
  destruct (o_file_opens o); cbn; [|split; discriminate].
  destruct (v_loops v) eqn:E1; [split; discriminate|].
  destruct (v_multi v) eqn:E2; [split; discriminate|].
  destruct (v_nonpos v) eqn:E3; [split; discriminate|].
  exfalso; destruct Hv as [H | [H | H]]; congruence.
Qed.

Definition gate_holds {W} (r : outcome W) : Prop := o_status r <> 0 /\ o_diag r <> DNone /\ no_algorithm r.

Lemma gate_all : forall W (run : call -> W) o v, invalid v -> o_help o = false ->
  gate_holds (demo_mcb run o v) /\ gate_holds (demo_approx run o v) /\ gate_holds (demo_stats run o v).
Proof.
  intros W run o v Hv Hh; unfold gate_holds.
  pose proof (gate_status_mcb W run o v Hv Hh) as [? ?]. pose proof (gate_no_algorithm_mcb W run o v Hv).
  pose proof (gate_status_approx W run o v Hv Hh) as [? ?]. pose proof (gate_no_algorithm_approx W run o v Hv).
  pose proof (gate_status_stats W run o v Hv Hh) as [? ?]. pose proof (gate_no_algorithm_stats W run o v Hv).
  tauto.
Qed.

(* even with --help: nothing of an algorithm on an invalid graph *)
Lemma gate_all_no_algorithm : forall W (run : call -> W) o v, invalid v ->
  no_algorithm (demo_mcb run o v) /\ no_algorithm (demo_approx run o v) /\ no_algorithm (demo_stats run o v).
Proof.
  intros W run o v Hv; repeat split;
    first [apply gate_no_algorithm_mcb | apply gate_no_algorithm_approx | apply gate_no_algorithm_stats]; exact Hv.
Qed.

(* on a runnable command line the outcome is exactly: EXIT_FAILURE, the first violated precondition, empty stdout *)
Lemma gate_exact : forall W (run : call -> W) o v, invalid v -> runnable o ->
  demo_mcb run o v = fail (gate_diag v) [] /\ demo_approx run o v = fail (gate_diag v) [] /\
  demo_stats run o v = fail (gate_diag v) [] /\ gate_diag v <> DNone.
Proof.
  intros W run o v Hv (Hp & Hh & Hi & Hf).
  unfold demo_mcb, demo_approx, demo_stats, front_end, gate_diag; rewrite Hp, Hh, Hi, Hf; cbn.
  destruct (v_loops v) eqn:E1; [repeat split; discriminate|].
  destruct (v_multi v) eqn:E2; [repeat split; discriminate|].
  destruct (v_nonpos v) eqn:E3; [repeat split; discriminate|].
  exfalso; destruct Hv as [H | [H | H]]; congruence.
Qed.

(* ---------------------------------------------------------------------------------------------------------------- *)
(* the three sequential programs: dispatch on a valid graph                                                          *)
(* ---------------------------------------------------------------------------------------------------------------- *)
Lemma dispatch_mcb : forall W (run : call -> W) o v, valid v -> runnable o ->
  let r := demo_mcb run o v in
  let c := CallMcb (priority o) (o_parallel o) in
  o_status r = 0 /\ o_diag r = DNone /\ o_run r = Some c /\ printed_weights r = [LWeight (run c)] /\
  In (LUsingAlgo c) (o_out r).
Proof.
  intros W run o v (H1 & H2 & H3) (Hp & Hh & Hi & Hf); cbn zeta.
  unfold demo_mcb, front_end, printed_weights; rewrite Hp, Hh, Hi, Hf, H1, H2, H3; cbn.
  rewrite mcb_dispatch_priority. destruct (o_printcycles o), (o_verbose o); cbn; repeat split; auto.
Qed.

Lemma dispatch_approx : forall W (run : call -> W) o v, valid v -> runnable o -> 1 < size_t_of_int (o_k o) ->
  let r := demo_approx run o v in
  let c := CallApprox (priority o) (o_parallel o) (size_t_of_int (o_k o)) in
  o_status r = 0 /\ o_diag r = DNone /\ o_run r = Some c /\ printed_weights r = [LWeight (run c)] /\
  In (LUsingAlgo c) (o_out r).
Proof.
  intros W run o v (H1 & H2 & H3) (Hp & Hh & Hi & Hf) Hk; cbn zeta.
  unfold demo_approx, front_end, printed_weights; rewrite Hp, Hh, Hi, Hf, H1, H2, H3; cbn -[size_t_of_int Z.mul Z.sub Z.pow Z.modulo].
  destruct (size_t_of_int (o_k o) <=? 1) eqn:E; [apply Z.leb_le in E; lia|].
  cbn -[size_t_of_int Z.mul Z.sub Z.pow Z.modulo].
  rewrite approx_dispatch_priority. destruct (o_printcycles o), (o_verbose o); cbn -[size_t_of_int Z.mul Z.sub Z.pow Z.modulo]; repeat split; auto.
Qed.

(* k <= 1 (after the conversion to std::size_t): rejected after the size lines, nothing of an algorithm *)
Lemma approx_bad_k : forall W (run : call -> W) o v, valid v -> runnable o -> size_t_of_int (o_k o) <= 1 ->
  demo_approx run o v = fail DBadK [LSize].
Proof.
  intros W run o v (H1 & H2 & H3) (Hp & Hh & Hi & Hf) Hk.
  unfold demo_approx, front_end; rewrite Hp, Hh, Hi, Hf, H1, H2, H3; cbn -[size_t_of_int].
  destruct (size_t_of_int (o_k o) <=? 1) eqn:E; [reflexivity | apply Z.leb_gt in E; lia].
Qed.

(* for an int k the demo accepts exactly k >= 2 and the negative values (which wrap to huge std::size_t values) *)
Lemma size_t_of_int_accepts : forall k, - 2 ^ 31 <= k < 2 ^ 31 -> (1 < size_t_of_int k <-> (2 <= k \/ k < 0)).
Proof.
  intros k Hk; unfold size_t_of_int.
  destruct (Z_lt_le_dec k 0) as [Hn | Hn].
  - assert (E : k mod 2 ^ 64 = k + 2 ^ 64).
    { symmetry; apply Z.mod_unique with (q := -1); lia. }
    rewrite E; lia.
  - rewrite Z.mod_small by lia. lia.
Qed.

Lemma dispatch_stats : forall W (run : call -> W) o v, valid v -> runnable o ->
  demo_stats run o v = {| o_status := 0; o_diag := DNone; o_run := Some CallStats; o_out := [LSize; LStats] |}.
Proof.
  intros W run o v (H1 & H2 & H3) (Hp & Hh & Hi & Hf).
  unfold demo_stats, front_end; rewrite Hp, Hh, Hi, Hf, H1, H2, H3; reflexivity.
Qed.

(* the selection depends on the algorithm options only through the priority; verbose/printcycles/cores/isotrees do not
   influence which entry point is called *)
Lemma dispatch_mcb_only_priority : forall W (run : call -> W) o o' v, valid v -> runnable o -> runnable o' ->
  priority o = priority o' -> o_parallel o = o_parallel o' ->
  o_run (demo_mcb run o v) = o_run (demo_mcb run o' v) /\ printed_weights (demo_mcb run o v) = printed_weights (demo_mcb run o' v).
Proof.
  intros W run o o' v Hv Ho Ho' Hp Hpar.
  destruct (dispatch_mcb W run o v Hv Ho) as (_ & _ & R1 & W1 & _).
  destruct (dispatch_mcb W run o' v Hv Ho') as (_ & _ & R2 & W2 & _).
  rewrite R1, R2, W1, W2, Hp, Hpar; split; reflexivity.
Qed.

(* ---------------------------------------------------------------------------------------------------------------- *)
(* the MPI program                                                                                                   *)
(* ---------------------------------------------------------------------------------------------------------------- *)
Lemma forallb_pointwise : forall (f g : nat -> bool) l, (forall a, f a = g a) -> forallb f l = forallb g l.
Proof. intros f g l H; induction l as [|a l IH]; cbn; [reflexivity | rewrite H, IH; reflexivity]. Qed.

Lemma existsb_pointwise : forall (f g : nat -> bool) l, (forall a, f a = g a) -> existsb f l = existsb g l.
Proof. intros f g l H; induction l as [|a l IH]; cbn; [reflexivity | rewrite H, IH; reflexivity]. Qed.

Lemma forallb_seq_true : forall (f : nat -> bool) s n, (forall r, f r = true) -> forallb f (seq s n) = true.
Proof. intros f s n H; revert s; induction n as [|n IH]; intros s; cbn; [reflexivity | rewrite H, IH; reflexivity]. Qed.

Lemma existsb_seq_false : forall (f : nat -> bool) s n, (forall r, f r = false) -> existsb f (seq s n) = false.
Proof. intros f s n H; revert s; induction n as [|n IH]; intros s; cbn; [reflexivity | rewrite H, IH; reflexivity]. Qed.

Lemma existsb_seq_hit : forall (f : nat -> bool) n r, (r < n)%nat -> f r = true -> existsb f (seq 0 n) = true.
Proof.
  intros f n r Hr Hf; apply existsb_exists; exists r; split; [apply in_seq; lia | exact Hf].
Qed.

Lemma forallb_seq_miss : forall (f : nat -> bool) n r, (r < n)%nat -> f r = false -> forallb f (seq 0 n) = false.
Proof.
  intros f n r Hr Hf; destruct (forallb f (seq 0 n)) eqn:E; [|reflexivity].
  rewrite forallb_forall in E. rewrite E in Hf; [discriminate | apply in_seq; lia].
Qed.

(* fixed program, invalid graph: every rank leaves before the library call *)
Lemma mpi_pre_fixed_invalid : forall W o v rank, invalid v -> is_enter (@mpi_pre_fixed W o v rank) = false.
Proof.
  intros W o v rank Hv; unfold mpi_pre_fixed; front o; try reflexivity.
  destruct (o_file_opens o); cbn; [|reflexivity].
  destruct (v_loops v) eqn:E1; [reflexivity|].
  destruct (v_multi v) eqn:E2; [reflexivity|].
  destruct (v_nonpos v) eqn:E3; [reflexivity|].
  exfalso; destruct Hv as [H | [H | H]]; congruence.
Qed.

(* C11_mpi_gate: for every P and every rank the process terminates, with a non-zero status unless --help, having called
   nothing; rank 0 has written a diagnostic *)
Lemma mpi_gate_fixed : forall W (run : call -> W) o v P rank, invalid v -> o_help o = false ->
  exists r, demo_mpi run o v P rank = Exited r /\ o_status r <> 0 /\ no_algorithm r /\ (rank = 0%nat -> o_diag r <> DNone).
Proof.
  intros W run o v P rank Hv Hh.
  unfold demo_mpi, mpi_join.
  rewrite (existsb_seq_false (fun r' => is_enter (mpi_pre_fixed o v r')) 0 P (fun r' => mpi_pre_fixed_invalid W o v r' Hv)).
  unfold mpi_pre_fixed, no_algorithm; front o; try congruence.
  - eexists; split; [reflexivity|]; cbn; repeat split; try discriminate.
  - destruct (o_file_opens o); cbn.
    + destruct (v_loops v) eqn:E1; [eexists; split; [reflexivity|]; cbn; repeat split; try discriminate; intros ->; cbn; discriminate|].
      destruct (v_multi v) eqn:E2; [eexists; split; [reflexivity|]; cbn; repeat split; try discriminate; intros ->; cbn; discriminate|].
      destruct (v_nonpos v) eqn:E3; [eexists; split; [reflexivity|]; cbn; repeat split; try discriminate; intros ->; cbn; discriminate|].
      exfalso; destruct Hv as [H | [H | H]]; congruence.
    + eexists; split; [reflexivity|]; cbn; repeat split; try discriminate.
  - eexists; split; [reflexivity|]; cbn; repeat split; try discriminate.
Qed.

(* with --help as well: every rank terminates having called nothing *)
Lemma mpi_gate_fixed_terminates : forall W (run : call -> W) o v P rank, invalid v ->
  exists r, demo_mpi run o v P rank = Exited r /\ no_algorithm r.
Proof.
  intros W run o v P rank Hv.
  unfold demo_mpi, mpi_join.
  rewrite (existsb_seq_false (fun r' => is_enter (mpi_pre_fixed o v r')) 0 P (fun r' => mpi_pre_fixed_invalid W o v r' Hv)).
  pose proof (mpi_pre_fixed_invalid W o v rank Hv) as Hne.
  destruct (mpi_pre_fixed o v rank) as [fz r | c out] eqn:E; [|discriminate].
  exists r; split; [rewrite andb_false_r; reflexivity|].
  revert E; unfold mpi_pre_fixed, no_algorithm; front o.
  - intros E; inversion E; subst; split; reflexivity.
  - intros E; inversion E; subst; split; reflexivity.
  - destruct (o_file_opens o); cbn.
    + destruct (v_loops v); [intros E; inversion E; subst; split; reflexivity|].
      destruct (v_multi v); [intros E; inversion E; subst; split; reflexivity|].
      destruct (v_nonpos v); [intros E; inversion E; subst; split; reflexivity|].
      destruct (Nat.eqb rank 0); discriminate.
    + intros E; inversion E; subst; split; reflexivity.
  - intros E; inversion E; subst; split; reflexivity.
Qed.

(* as found: runnable command line, invalid graph, P >= 2: rank 0 returns from main and waits in MPI_Finalize, every other
   rank waits in the collective of the entry point it called ON THE INVALID GRAPH: no process of the job terminates *)
Lemma mpi_orig_hangs : forall W (run : call -> W) o v P rank, invalid v -> runnable o -> (2 <= P)%nat -> (rank < P)%nat ->
  (rank = 0%nat -> demo_mpi_orig run o v P rank = FinalizeWait (fail (gate_diag v) [LProcessor])) /\
  (rank <> 0%nat -> demo_mpi_orig run o v P rank = Deadlock (CallMpi (priority o)) [LProcessor]).
Proof.
  intros W run o v P rank Hv (Hp & Hh & Hi & Hf) HP Hr.
  assert (H0 : is_enter (@mpi_pre_orig W o v 0) = false).
  { unfold mpi_pre_orig, front_end; rewrite Hp, Hh, Hi, Hf; cbn.
    destruct (v_loops v) eqn:E1; [reflexivity|]. destruct (v_multi v) eqn:E2; [reflexivity|].
    destruct (v_nonpos v) eqn:E3; [reflexivity|]. exfalso; destruct Hv as [H | [H | H]]; congruence. }
  assert (H1 : is_enter (@mpi_pre_orig W o v 1) = true).
  { unfold mpi_pre_orig, front_end; rewrite Hp, Hh, Hi, Hf; reflexivity. }
  unfold demo_mpi_orig, mpi_join.
  rewrite (forallb_seq_miss (fun r => is_enter (mpi_pre_orig o v r)) P 0 ltac:(lia) H0).
  rewrite (existsb_seq_hit (fun r => is_enter (mpi_pre_orig o v r)) P 1 ltac:(lia) H1).
  split.
  - intros ->. unfold mpi_pre_orig, front_end, gate_diag; rewrite Hp, Hh, Hi, Hf; cbn.
    destruct (v_loops v) eqn:E1; [reflexivity|]. destruct (v_multi v) eqn:E2; [reflexivity|].
    destruct (v_nonpos v) eqn:E3; [reflexivity|]. exfalso; destruct Hv as [H | [H | H]]; congruence.
  - intros Hne. unfold mpi_pre_orig, front_end; rewrite Hp, Hh, Hi, Hf; cbn.
    destruct (Nat.eqb rank 0) eqn:E; [apply Nat.eqb_eq in E; contradiction|].
    rewrite mpi_dispatch_priority; reflexivity.
Qed.

(* valid graph: every rank enters; both versions of the program coincide *)
Lemma mpi_pre_valid : forall W o v rank, valid v -> runnable o ->
  @mpi_pre_fixed W o v rank = mpi_pre_orig o v rank /\ is_enter (@mpi_pre_fixed W o v rank) = true.
Proof.
  intros W o v rank (H1 & H2 & H3) (Hp & Hh & Hi & Hf).
  unfold mpi_pre_fixed, mpi_pre_orig, front_end; rewrite Hp, Hh, Hi, Hf, H1, H2, H3; cbn.
  destruct (Nat.eqb rank 0); split; reflexivity.
Qed.

Lemma mpi_dispatch_fixed : forall W (run : call -> W) o v P rank, valid v -> runnable o ->
  let c := CallMpi (priority o) in
  exists r, demo_mpi run o v P rank = Exited r /\ o_status r = 0 /\ o_diag r = DNone /\ o_run r = Some c /\
            (rank = 0%nat -> printed_weights r = [LWeight (run c)] /\ In (LUsingAlgo c) (o_out r)) /\
            (rank <> 0%nat -> o_out r = [LProcessor]).
Proof.
  intros W run o v P rank Hv Ho; cbn zeta.
  unfold demo_mpi, mpi_join.
  rewrite (forallb_seq_true (fun r => is_enter (mpi_pre_fixed o v r)) 0 P (fun r => proj2 (mpi_pre_valid W o v r Hv Ho))).
  destruct Hv as (H1 & H2 & H3); destruct Ho as (Hp & Hh & Hi & Hf).
  unfold mpi_pre_fixed, front_end; rewrite Hp, Hh, Hi, Hf, H1, H2, H3; cbn.
  rewrite mpi_dispatch_priority.
  destruct (Nat.eqb rank 0) eqn:E.
  - eexists; split; [reflexivity|]; unfold mpi_post, printed_weights; rewrite E; cbn.
    apply Nat.eqb_eq in E. destruct (o_printcycles o), (o_verbose o); cbn; repeat split; auto; intros; contradiction.
  - eexists; split; [reflexivity|]; unfold mpi_post; rewrite E; cbn.
    repeat split; auto; apply Nat.eqb_neq in E; intros; contradiction.
Qed.

Lemma mpi_orig_eq_fixed_valid : forall W (run : call -> W) o v P rank, valid v -> runnable o ->
  demo_mpi_orig run o v P rank = demo_mpi run o v P rank.
Proof.
  intros W run o v P rank Hv Ho. unfold demo_mpi_orig, demo_mpi, mpi_join.
  rewrite (proj1 (mpi_pre_valid W o v rank Hv Ho)).
  assert (Hpt : forall a, is_enter (@mpi_pre_orig W o v a) = is_enter (@mpi_pre_fixed W o v a)).
  { intros a; rewrite (proj1 (mpi_pre_valid W o v a Hv Ho)); reflexivity. }
  pose proof (forallb_pointwise _ _ (seq 0 P) Hpt) as Hfa.
  pose proof (existsb_pointwise _ _ (seq 0 P) Hpt) as Hex.
  rewrite Hfa, Hex; reflexivity.
Qed.

(* a single process: the program as found is fine (rank 0 is the only rank and it validates) *)
Lemma mpi_orig_single : forall W (run : call -> W) o v, invalid v -> o_help o = false ->
  exists r, demo_mpi_orig run o v 1 0 = Exited r /\ o_status r <> 0 /\ o_diag r <> DNone /\ no_algorithm r.
Proof.
  intros W run o v Hv Hh. unfold demo_mpi_orig, mpi_join, no_algorithm; cbn [seq forallb existsb].
  unfold mpi_pre_orig; front o; try congruence.
  - eexists; split; [reflexivity|]; cbn; repeat split; discriminate.
  - destruct (o_file_opens o); cbn.
    + destruct (v_loops v) eqn:E1; [eexists; split; [reflexivity|]; cbn; repeat split; discriminate|].
      destruct (v_multi v) eqn:E2; [eexists; split; [reflexivity|]; cbn; repeat split; discriminate|].
      destruct (v_nonpos v) eqn:E3; [eexists; split; [reflexivity|]; cbn; repeat split; discriminate|].
      exfalso; destruct Hv as [H | [H | H]]; congruence.
    + eexists; split; [reflexivity|]; cbn; repeat split; discriminate.
  - eexists; split; [reflexivity|]; cbn; repeat split; discriminate.
Qed.

(* ---------------------------------------------------------------------------------------------------------------- *)
(* packaged statements for Properties_C11.v                                                                          *)
(* ---------------------------------------------------------------------------------------------------------------- *)
Definition dispatch_ok {W} (run : call -> W) (r : outcome W) (c : call) : Prop :=
  o_status r = 0 /\ o_diag r = DNone /\ o_run r = Some c /\ printed_weights r = [LWeight (run c)] /\ In (LUsingAlgo c) (o_out r).

Lemma dispatch_all : forall W (run : call -> W) o v, valid v -> runnable o ->
  dispatch_ok run (demo_mcb run o v) (CallMcb (priority o) (o_parallel o)) /\
  (1 < size_t_of_int (o_k o) ->
   dispatch_ok run (demo_approx run o v) (CallApprox (priority o) (o_parallel o) (size_t_of_int (o_k o)))) /\
  (size_t_of_int (o_k o) <= 1 -> demo_approx run o v = fail DBadK [LSize]) /\
  demo_stats run o v = {| o_status := 0; o_diag := DNone; o_run := Some CallStats; o_out := [LSize; LStats] |}.
Proof.
  intros W run o v Hv Ho; unfold dispatch_ok. split; [|split; [|split]].
  - exact (dispatch_mcb W run o v Hv Ho).
  - intros Hk; exact (dispatch_approx W run o v Hv Ho Hk).
  - intros Hk; exact (approx_bad_k W run o v Hv Ho Hk).
  - exact (dispatch_stats W run o v Hv Ho).
Qed.

(* D7 in the model: default options, a graph with a self-loop, two processes, rank 1 *)
Definition v_loop : verdicts := {| v_loops := true; v_multi := false; v_nonpos := false |}.
Definition v_ok : verdicts := {| v_loops := false; v_multi := false; v_nonpos := false |}.

Lemma mpi_orig_refuted : exists (o : opts) (v : verdicts) (P rank : nat),
  invalid v /\ runnable o /\ (rank < P)%nat /\
  forall W (run : call -> W), terminates (demo_mpi_orig run o v P rank) = false /\
                              demo_mpi_orig run o v P rank = Deadlock (CallMpi Signed) [LProcessor].
Proof.
  exists default_opts, v_loop, 2%nat, 1%nat. repeat split; try reflexivity.
  - left; reflexivity.
  - lia.
Qed.

Lemma runnable_default : runnable default_opts.
Proof. repeat split. Qed.
Lemma valid_v_ok : valid v_ok.
Proof. repeat split. Qed.
Lemma invalid_v_loop : invalid v_loop.
Proof. left; reflexivity. Qed.
