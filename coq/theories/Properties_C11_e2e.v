(* Properties_C11_e2e.v — C11 END TO END: from the bytes of the DIMACS file to the exit status, the diagnostic and the number
   after "MCB weight = ".  Only statements; each closed by [exact <lemma>] (proofs: DemoE2E.v) and followed by
   Print Assumptions.  Composition of
       C10_roundtrip (reader) + C10_has_* (validators) + C11_gate / C11_dispatch (mains) +
       C02_signed, C02_fvs_trees, C02_iso_trees, C03_signed_tbb, C04c_result_fixed (entry points return a minimum cycle basis
       and its weight) + C06_global_signed (approximate) + C08_opt_unique / C08_scale_any (the optimum is a function of the
       weighted graph).

   Vocabulary (DemoE2E.v).
     l : layout, layout_ok l = true     every text the DIMACS theorem covers; [render l] its bytes, [denot l] the multigraph it
                                        denotes (0-based endpoints, file order, exact rational weights).
     demo_*_file run o bytes            reader model -> the three validator models -> main ([run gr c] = the value entry point
                                        c returned on the graph gr that was read); FRan r = the reader returned and the main
                                        ended with outcome r.
     defective gr / clean gr            gr has / has not a self-loop, a repeated unordered pair, a weight <= 0.
     to_graph gr, scaled_weights d gr   the graph and the integer weight list the entry-point models are run on: same vertex
                                        count, same edges in the same order (C11_e2e_conversion), each weight multiplied by a
                                        common denominator d of the file's reduced weights ([common_den d gr]); d = 1 and
                                        [int_weights] (the numerators) for files with integer weights ([integer_weights]).
     file_domain d l                    layout_ok l, clean (denot l), common_den d (denot l).
     can_return P g w c x               x is a value the model of entry point c can return on (g, w): existential over all
                                        oracles of that model (root order covering the vertices, pointer order, TBB schedule bit
                                        stream and insertion order, greedy_fvs picks and the accepted std::sort resolution,
                                        reduction trees of the P ranks, spanner scan order).  Defined ([covered]) for
                                        CallMcb Signed false/true, CallMcb FvsTrees false, CallMcb IsoTrees false,
                                        CallMpi Signed, CallApprox Signed false k.
   WHAT IS COVERED.
     * gate: every well-formed text, every option record, all four programs, every P and rank — premise-free.
     * optimum, premise-free ("the value is one the model can return"): mcb-dimacs with --signed (sequential and TBB, every
       schedule), --fvstrees / isotrees with --parallel false; mcb-dimacs-mpi --signed for every P >= 1;
       approx-mcb-dimacs --signed --parallel false with 2 <= k.
     * optimum modulo the explicit premise "the value the entry point returned is the optimum" (no exact model of the entry
       point exists): mcb-dimacs --fvstrees/isotrees with --parallel true (mcb_sva_fvs_trees_tbb, mcb_sva_iso_trees_tbb);
       mcb-dimacs-mpi --fvstrees / isotrees (mcb_sva_fvs_trees_tbb_mpi, mcb_sva_iso_trees_tbb_mpi).  NOT stated at all:
       approx-mcb-dimacs with --parallel true or with a tree flavour (no model; only C11_dispatch applies).
   WEIGHTS.  The statements are about files whose weights have a common denominator d (every decimal file has one) and about
   the entry-point models run on the d-scaled INTEGER graph; for integer files (d = 1) this is the graph of the file itself
   (C11_e2e_optimum_int).  For d > 1 the theorems do not claim that the double-precision run on the unscaled weights prints
   (optimum of the scaled graph)/d — exact arithmetic of the real run is C09's subject; C11_e2e_scaled_opt_coherent only shows
   that this rational does not depend on d.  Process plumbing, the lock-step MPI semantics and the file-open/command-line facts
   ([runnable o]) are as in Properties_C11.v. *)
From Coq Require Import ZArith List Bool QArith Permutation Lia.
From Parmcb Require Import DimacsModel DimacsValProofs GraphModel GraphSpec McbSpec OptSpec DemoModel DemoProofs DemoE2E.
Import ListNotations.
Local Open Scope Z_scope.

(* ---- the bridge between the two graph representations ------------------------------------------------------------------- *)

(* the conversion keeps the vertex count, the number and order of the edges, their endpoints, and scales the weights *)
Theorem C11_e2e_conversion : forall (d : positive) (gr : DimacsModel.graph) (i : nat),
  nv (to_graph gr) = Z.to_nat (fst gr) /\ ne (to_graph gr) = length (snd gr) /\
  length (scaled_weights d gr) = ne (to_graph gr) /\
  ends (to_graph gr) i = option_map conv_edge (nth_error (snd gr) i) /\
  (forall e, nth_error (snd gr) i = Some e ->
     nth_error (scaled_weights d gr) i = Some (scaled_weight d (e_wt e)) /\
     ((Zpos (Qden (e_wt e)) | Zpos d) -> (inject_Z (scaled_weight d (e_wt e)) == inject_Z (Zpos d) * e_wt e)%Q)).
Proof.
  intros d gr i. split; [apply to_graph_nv|]. split; [apply to_graph_ne|]. split; [apply scaled_weights_length|].
  split; [apply to_graph_ends|]. intros e He. split; [exact (scaled_weights_nth d gr i e He)|apply scaled_weight_value].
Qed.
Print Assumptions C11_e2e_conversion.

(* what the reader returns on a well-formed text has its endpoints among the declared vertices *)
Theorem C11_e2e_read_wf : forall l : layout, layout_ok l = true -> graph_wf (denot l).
Proof. exact denot_wf. Qed.
Print Assumptions C11_e2e_read_wf.

(* the three validators answer false exactly when the converted graph is simple with positive weights, i.e. exactly on the
   domain of C01-C06 *)
Theorem C11_e2e_validators_iff_domain : forall (d : positive) (gr : DimacsModel.graph), graph_wf gr -> common_den d gr ->
  (valid (verdicts_of gr) <-> simple_graph (to_graph gr) /\ positive_weights (to_graph gr) (scaled_weights d gr)).
Proof. exact valid_iff_domain. Qed.
Print Assumptions C11_e2e_validators_iff_domain.

Theorem C11_e2e_validators_iff_defect : forall gr : DimacsModel.graph, graph_wf gr ->
  (defective gr <-> invalid (verdicts_of gr)) /\ (clean gr <-> valid (verdicts_of gr)).
Proof. intros gr H. split; [exact (verdicts_invalid gr H)|exact (verdicts_valid gr H)]. Qed.
Print Assumptions C11_e2e_validators_iff_defect.

(* ---- gate ------------------------------------------------------------------------------------------------------------------ *)

(* The text denotes a multigraph with a self-loop, a repeated pair or a non-positive weight; every option record without
   --help: the three sequential programs end with a non-zero status, a diagnostic, no entry point called and no algorithm
   line (no "Using ...", no "MCB weight = ...") *)
Theorem C11_e2e_gate : forall (W : Type) (run : DimacsModel.graph -> call -> W) (l : layout) (o : opts),
  layout_ok l = true -> defective (denot l) -> o_help o = false ->
  exists r1 r2 r3,
    demo_mcb_file run o (render l) = FRan r1 /\ demo_approx_file run o (render l) = FRan r2 /\
    demo_stats_file run o (render l) = FRan r3 /\ gate_holds r1 /\ gate_holds r2 /\ gate_holds r3.
Proof. exact e2e_gate. Qed.
Print Assumptions C11_e2e_gate.

(* ... on a runnable command line exactly: EXIT_FAILURE, empty stdout, and the diagnostic of the FIRST defect of the denoted
   multigraph in the order self-loop, repeated pair, non-positive weight *)
Theorem C11_e2e_gate_exact : forall (W : Type) (run : DimacsModel.graph -> call -> W) (l : layout) (o : opts),
  layout_ok l = true -> defective (denot l) -> runnable o ->
  exists d, first_defect_diag (denot l) d /\ d <> DNone /\
    demo_mcb_file run o (render l) = FRan (fail d []) /\ demo_approx_file run o (render l) = FRan (fail d []) /\
    demo_stats_file run o (render l) = FRan (fail d []).
Proof. exact e2e_gate_exact. Qed.
Print Assumptions C11_e2e_gate_exact.

(* the MPI program (after pending/c11-fix-mpi-gate.patch): every rank of every job size terminates with a non-zero status
   without entering a collective; rank 0 writes the diagnostic *)
Theorem C11_e2e_mpi_gate : forall (W : Type) (run : DimacsModel.graph -> call -> W) (l : layout) (o : opts) (P rank : nat),
  layout_ok l = true -> defective (denot l) -> o_help o = false ->
  exists r, demo_mpi_file run o (render l) P rank = FRan (Exited r) /\
            o_status r <> 0 /\ no_algorithm r /\ (rank = 0%nat -> o_diag r <> DNone).
Proof. exact e2e_mpi_gate. Qed.
Print Assumptions C11_e2e_mpi_gate.

Theorem C11_e2e_mpi_gate_exact : forall (W : Type) (run : DimacsModel.graph -> call -> W) (l : layout) (o : opts) (P rank : nat),
  layout_ok l = true -> defective (denot l) -> runnable o ->
  exists d, first_defect_diag (denot l) d /\ d <> DNone /\
    demo_mpi_file run o (render l) P rank = FRan (Exited (fail (if Nat.eqb rank 0 then d else DNone) [LProcessor])).
Proof. exact e2e_mpi_gate_exact. Qed.
Print Assumptions C11_e2e_mpi_gate_exact.

(* ---- every value a covered exact entry point can return is THE optimum ------------------------------------------------------- *)

Theorem C11_e2e_entry_point_returns_opt : forall (P : nat) (g : GraphModel.graph) (w : list Z) (c : call) (x : Z),
  simple_graph g -> positive_weights g w -> (is_mpi c = true -> (1 <= P)%nat) -> exact_call c = true ->
  can_return P g w c x -> is_opt g w x.
Proof. exact can_return_exact_opt. Qed.
Print Assumptions C11_e2e_entry_point_returns_opt.

(* ... and such a value exists for every file of the domain (the hypothesis [can_return] below is satisfiable) *)
Theorem C11_e2e_sound_value_exists : forall (l : layout) (d : positive) (c : call) (P : nat),
  file_domain d l -> (1 <= P)%nat -> exact_call c = true -> covered c = true ->
  exists x, can_return P (to_graph (denot l)) (scaled_weights d (denot l)) c x.
Proof. exact e2e_sound_value_exists. Qed.
Print Assumptions C11_e2e_sound_value_exists.

(* ---- mcb-dimacs prints the optimum -------------------------------------------------------------------------------------------- *)

(* Files with positive INTEGER weights denoting a simple graph, every runnable option record whose selected entry point is
   covered (can_return is False for the others): status 0, no diagnostic, the selected entry point is called and announced,
   exactly one weight line, and it carries the unique optimum of the file's graph. *)
Theorem C11_e2e_optimum_int : forall (run : DimacsModel.graph -> call -> Z) (l : layout) (o : opts) (P : nat),
  layout_ok l = true -> clean (denot l) -> integer_weights (denot l) -> runnable o ->
  let gr := denot l in let c := CallMcb (priority o) (o_parallel o) in
  can_return P (to_graph gr) (int_weights gr) c (run gr c) ->
  exists r, demo_mcb_file run o (render l) = FRan r /\
            o_status r = 0 /\ o_diag r = DNone /\ o_run r = Some c /\ In (LUsingAlgo c) (o_out r) /\
            printed_weights r = [LWeight (run gr c)] /\ is_opt (to_graph gr) (int_weights gr) (run gr c).
Proof. exact e2e_optimum_int. Qed.
Print Assumptions C11_e2e_optimum_int.

(* the same for weights with a common denominator d, on the d-scaled graph *)
Theorem C11_e2e_optimum : forall (run : DimacsModel.graph -> call -> Z) (l : layout) (d : positive) (o : opts) (P : nat),
  file_domain d l -> runnable o ->
  let gr := denot l in let c := CallMcb (priority o) (o_parallel o) in
  can_return P (to_graph gr) (scaled_weights d gr) c (run gr c) ->
  exists r, demo_mcb_file run o (render l) = FRan r /\ dispatch_ok (run gr) r c /\
            printed_weights r = [LWeight (run gr c)] /\ is_opt (to_graph gr) (scaled_weights d gr) (run gr c).
Proof. exact e2e_optimum. Qed.
Print Assumptions C11_e2e_optimum.

(* EVERY selected entry point (in particular the uncovered mcb_sva_fvs_trees_tbb / mcb_sva_iso_trees_tbb), with the explicit
   premise that the value it returned is the optimum *)
Theorem C11_e2e_optimum_modulo_entry_point :
  forall (run : DimacsModel.graph -> call -> Z) (l : layout) (d : positive) (o : opts),
  file_domain d l -> runnable o ->
  let gr := denot l in let c := CallMcb (priority o) (o_parallel o) in
  is_opt (to_graph gr) (scaled_weights d gr) (run gr c) ->
  exists r, demo_mcb_file run o (render l) = FRan r /\ dispatch_ok (run gr) r c /\
            printed_weights r = [LWeight (run gr c)] /\ is_opt (to_graph gr) (scaled_weights d gr) (run gr c).
Proof. exact e2e_optimum_modulo_entry_point. Qed.
Print Assumptions C11_e2e_optimum_modulo_entry_point.

(* any two runnable option records — two executions with their own schedules and oracles — print the same weight *)
Theorem C11_e2e_options_agree :
  forall (run1 run2 : DimacsModel.graph -> call -> Z) (l : layout) (d : positive) (o1 o2 : opts) (P1 P2 : nat),
  file_domain d l -> runnable o1 -> runnable o2 ->
  let gr := denot l in
  let c1 := CallMcb (priority o1) (o_parallel o1) in let c2 := CallMcb (priority o2) (o_parallel o2) in
  can_return P1 (to_graph gr) (scaled_weights d gr) c1 (run1 gr c1) ->
  can_return P2 (to_graph gr) (scaled_weights d gr) c2 (run2 gr c2) ->
  exists r1 r2 x, demo_mcb_file run1 o1 (render l) = FRan r1 /\ demo_mcb_file run2 o2 (render l) = FRan r2 /\
                  printed_weights r1 = [LWeight x] /\ printed_weights r2 = [LWeight x] /\
                  is_opt (to_graph gr) (scaled_weights d gr) x.
Proof. exact e2e_options_agree. Qed.
Print Assumptions C11_e2e_options_agree.

Theorem C11_e2e_options_agree_modulo_entry_point :
  forall (run1 run2 : DimacsModel.graph -> call -> Z) (l : layout) (d : positive) (o1 o2 : opts),
  file_domain d l -> runnable o1 -> runnable o2 ->
  let gr := denot l in
  let c1 := CallMcb (priority o1) (o_parallel o1) in let c2 := CallMcb (priority o2) (o_parallel o2) in
  is_opt (to_graph gr) (scaled_weights d gr) (run1 gr c1) -> is_opt (to_graph gr) (scaled_weights d gr) (run2 gr c2) ->
  exists r1 r2 x, demo_mcb_file run1 o1 (render l) = FRan r1 /\ demo_mcb_file run2 o2 (render l) = FRan r2 /\
                  printed_weights r1 = [LWeight x] /\ printed_weights r2 = [LWeight x].
Proof. exact e2e_options_agree_modulo_entry_point. Qed.
Print Assumptions C11_e2e_options_agree_modulo_entry_point.

(* ---- mcb-dimacs-mpi ------------------------------------------------------------------------------------------------------------ *)

(* --signed (the default), every P >= 1 and every rank < P, every reduction tree: all ranks terminate with status 0 having
   called mcb_sva_signed_mpi; rank 0 prints exactly one weight line, carrying the optimum; the others print their processor
   line only *)
Theorem C11_e2e_mpi_optimum :
  forall (run : DimacsModel.graph -> call -> Z) (l : layout) (d : positive) (o : opts) (P rank : nat),
  file_domain d l -> runnable o -> (rank < P)%nat -> priority o = Signed ->
  let gr := denot l in let c := CallMpi Signed in
  can_return P (to_graph gr) (scaled_weights d gr) c (run gr c) ->
  exists r, demo_mpi_file run o (render l) P rank = FRan (Exited r) /\
            o_status r = 0 /\ o_diag r = DNone /\ o_run r = Some c /\
            (rank = 0%nat -> printed_weights r = [LWeight (run gr c)] /\ In (LUsingAlgo c) (o_out r) /\
                             is_opt (to_graph gr) (scaled_weights d gr) (run gr c)) /\
            (rank <> 0%nat -> o_out r = [LProcessor]).
Proof. exact e2e_mpi_optimum. Qed.
Print Assumptions C11_e2e_mpi_optimum.

(* every flavour (in particular the uncovered mcb_sva_fvs_trees_tbb_mpi / mcb_sva_iso_trees_tbb_mpi), explicit premise *)
Theorem C11_e2e_mpi_optimum_modulo_entry_point :
  forall (run : DimacsModel.graph -> call -> Z) (l : layout) (d : positive) (o : opts) (P rank : nat),
  file_domain d l -> runnable o ->
  let gr := denot l in let c := CallMpi (priority o) in
  is_opt (to_graph gr) (scaled_weights d gr) (run gr c) ->
  exists r, demo_mpi_file run o (render l) P rank = FRan (Exited r) /\
            o_status r = 0 /\ o_diag r = DNone /\ o_run r = Some c /\
            (rank = 0%nat -> printed_weights r = [LWeight (run gr c)] /\ In (LUsingAlgo c) (o_out r) /\
                             is_opt (to_graph gr) (scaled_weights d gr) (run gr c)) /\
            (rank <> 0%nat -> o_out r = [LProcessor]).
Proof. exact e2e_mpi_optimum_modulo_entry_point. Qed.
Print Assumptions C11_e2e_mpi_optimum_modulo_entry_point.

(* mcb-dimacs (any covered flavour) and mcb-dimacs-mpi --signed (any P) print the same weight on the same file *)
Theorem C11_e2e_mcb_mpi_agree :
  forall (run1 run2 : DimacsModel.graph -> call -> Z) (l : layout) (d : positive) (o1 o2 : opts) (P0 P : nat),
  file_domain d l -> runnable o1 -> runnable o2 -> (1 <= P)%nat -> priority o2 = Signed ->
  let gr := denot l in let c1 := CallMcb (priority o1) (o_parallel o1) in
  can_return P0 (to_graph gr) (scaled_weights d gr) c1 (run1 gr c1) ->
  can_return P (to_graph gr) (scaled_weights d gr) (CallMpi Signed) (run2 gr (CallMpi Signed)) ->
  exists r1 r2 x, demo_mcb_file run1 o1 (render l) = FRan r1 /\ demo_mpi_file run2 o2 (render l) P 0 = FRan (Exited r2) /\
                  printed_weights r1 = [LWeight x] /\ printed_weights r2 = [LWeight x] /\
                  is_opt (to_graph gr) (scaled_weights d gr) x.
Proof. exact e2e_mcb_mpi_agree. Qed.
Print Assumptions C11_e2e_mcb_mpi_agree.

(* ---- approx-mcb-dimacs --------------------------------------------------------------------------------------------------------- *)

(* --signed --parallel false --k k with 2 <= k (< 2^63: every int): approx_mcb_sva_signed is called with this k and the printed
   value lies between the optimum and (2k-1) times the optimum *)
Theorem C11_e2e_approx_signed :
  forall (run : DimacsModel.graph -> call -> Z) (l : layout) (d : positive) (o : opts) (P : nat),
  file_domain d l -> runnable o -> priority o = Signed -> o_parallel o = false -> 2 <= o_k o < 2 ^ 63 ->
  let gr := denot l in let k := o_k o in let c := CallApprox Signed false k in
  can_return P (to_graph gr) (scaled_weights d gr) c (run gr c) ->
  exists r opt, demo_approx_file run o (render l) = FRan r /\ dispatch_ok (run gr) r c /\
                printed_weights r = [LWeight (run gr c)] /\
                is_opt (to_graph gr) (scaled_weights d gr) opt /\ opt <= run gr c <= (2 * k - 1) * opt.
Proof. exact e2e_approx_signed. Qed.
Print Assumptions C11_e2e_approx_signed.

(* k <= 1 is rejected after the two size lines, whatever the flavour *)
Theorem C11_e2e_approx_bad_k :
  forall (W : Type) (run : DimacsModel.graph -> call -> W) (l : layout) (d : positive) (o : opts),
  file_domain d l -> runnable o -> size_t_of_int (o_k o) <= 1 ->
  demo_approx_file run o (render l) = FRan (fail DBadK [LSize]).
Proof. exact e2e_approx_bad_k. Qed.
Print Assumptions C11_e2e_approx_bad_k.

(* ---- weights ------------------------------------------------------------------------------------------------------------------- *)

(* integer files are the case d = 1 and the weight list is the list of numerators *)
Theorem C11_e2e_integer_files : forall l : layout, layout_ok l = true -> clean (denot l) -> integer_weights (denot l) ->
  file_domain 1 l /\ scaled_weights 1 (denot l) = int_weights (denot l).
Proof. exact file_domain_int. Qed.
Print Assumptions C11_e2e_integer_files.

(* (optimum of the d-scaled graph) / d does not depend on the common denominator d *)
Theorem C11_e2e_scaled_opt_coherent : forall (d d' : positive) (gr : DimacsModel.graph) (x x' : Z),
  common_den d gr -> common_den d' gr ->
  is_opt (to_graph gr) (scaled_weights d gr) x -> is_opt (to_graph gr) (scaled_weights d' gr) x' ->
  x * Zpos d' = x' * Zpos d.
Proof. exact scaled_opt_coherent. Qed.
Print Assumptions C11_e2e_scaled_opt_coherent.

(* ---- non-vacuity --------------------------------------------------------------------------------------------------------------- *)

(* "p edge 3 3\ne 1 2 3\ne 2 3 4\ne 3 1 5\n": the triangle with weights 3, 4, 5 *)
Definition tri_layout : layout := canonical_layout true (3, [(0, 1, (3, 0%nat)); (1, 2, (4, 0%nat)); (2, 0, (5, 0%nat))]).
Definition tri_graph : GraphModel.graph := {| nv := 3; ge := [(0, 1); (1, 2); (2, 0)]%nat |}.

Example tri_domain : layout_ok tri_layout = true /\ clean (denot tri_layout) /\ integer_weights (denot tri_layout).
Proof.
  assert (Hl : layout_ok tri_layout = true) by (vm_compute; reflexivity).
  split; [exact Hl|]. split.
  - apply (verdicts_valid _ (denot_wf _ Hl)). vm_compute. repeat split; reflexivity.
  - intros e He. vm_compute in He. destruct He as [<-|[<-|[<-|[]]]]; reflexivity.
Qed.

Example C11_e2e_optimum_nonvacuous :
  render tri_layout = [112; 32; 101; 100; 103; 101; 32; 51; 32; 51; 10;     (* p edge 3 3 *)
                       101; 32; 49; 32; 50; 32; 51; 10;                     (* e 1 2 3    *)
                       101; 32; 50; 32; 51; 32; 52; 10;                     (* e 2 3 4    *)
                       101; 32; 51; 32; 49; 32; 53; 10] /\                  (* e 3 1 5    *)
  layout_ok tri_layout = true /\ clean (denot tri_layout) /\ integer_weights (denot tri_layout) /\
  to_graph (denot tri_layout) = tri_graph /\ int_weights (denot tri_layout) = [3; 4; 5] /\
  (* default options select mcb_sva_signed_tbb; its model can return 12 (and nothing else, by the theorem) ... *)
  can_return 0 tri_graph [3; 4; 5] (CallMcb Signed true) 12 /\
  can_return 0 tri_graph [3; 4; 5] (CallMcb FvsTrees false) 12 /\
  can_return 3 tri_graph [3; 4; 5] (CallMpi Signed) 12 /\
  is_opt tri_graph [3; 4; 5] 12 /\
  (* ... and the composed program prints it *)
  demo_mcb_file (fun _ _ => 12) default_opts (render tri_layout)
  = FRan {| o_status := 0; o_diag := DNone; o_run := Some (CallMcb Signed true);
            o_out := [LSize; LUsingAlgo (CallMcb Signed true); LWeight 12] |} /\
  demo_mpi_file (fun _ _ => 12) default_opts (render tri_layout) 3 0
  = FRan (Exited {| o_status := 0; o_diag := DNone; o_run := Some (CallMpi Signed);
                    o_out := [LProcessor; LSize; LUsingAlgo (CallMpi Signed); LWeight 12] |}).
Proof.
  destruct tri_domain as (Hl & Hc & Hi).
  assert (Htb : can_return 0 tri_graph [3; 4; 5] (CallMcb Signed true) 12).
  { cbn [can_return]. exists [0; 1; 2]%nat, [], [], []. do 3 eexists. split; [|vm_compute; reflexivity].
    intros v Hv. cbn in Hv. do 3 (destruct v as [|v]; [cbn; tauto|]). exfalso. do 3 apply Nat.succ_lt_mono in Hv. inversion Hv. }
  split; [vm_compute; reflexivity|]. split; [exact Hl|]. split; [exact Hc|]. split; [exact Hi|].
  split; [vm_compute; reflexivity|]. split; [vm_compute; reflexivity|]. split; [exact Htb|].
  split.
  { cbn [can_return]. exists [0; 1; 2]%nat, [0]%nat, [0]%nat, [[0; 1; 2]]%nat.
    split; [|split; vm_compute; reflexivity].
    intros v Hv. cbn in Hv. do 3 (destruct v as [|v]; [cbn; tauto|]). exfalso. do 3 apply Nat.succ_lt_mono in Hv. inversion Hv. }
  split.
  { cbn [can_return]. exists [0; 1; 2]%nat, (fun _ => MpiModel.boost_reduce_tree 3). do 3 eexists.
    split; [|split; [intros _; apply MpiProofs1.rtree_okb_ok; vm_compute; reflexivity|left; vm_compute; reflexivity]].
    intros v Hv. cbn in Hv. do 3 (destruct v as [|v]; [cbn; tauto|]). exfalso. do 3 apply Nat.succ_lt_mono in Hv. inversion Hv. }
  split.
  { apply (C11_e2e_entry_point_returns_opt 0 tri_graph [3; 4; 5] (CallMcb Signed true) 12);
      [vm_compute; reflexivity|split; [reflexivity|repeat constructor]|discriminate|reflexivity|exact Htb]. }
  split; vm_compute; reflexivity.
Qed.

(* "p edge 2 3\ne 1 2\ne 2 1 2.5\ne 2 2 -1\n": a repeated pair, a self-loop AND a negative weight — the loop is reported *)
Definition bad_layout : layout :=
  canonical_layout true (2, [(0, 1, (1, 0%nat)); (1, 0, (25, 1%nat)); (1, 1, (-1, 0%nat))]).

Example C11_e2e_gate_nonvacuous :
  layout_ok bad_layout = true /\ defective (denot bad_layout) /\
  has_self_loop (denot bad_layout) /\ has_repeated_pair (denot bad_layout) /\ has_bad_weight (denot bad_layout) /\
  denot bad_layout = (2, [(0, 1, 1 # 1); (1, 0, 5 # 2); (1, 1, (-1) # 1)]) /\
  demo_mcb_file (fun _ _ => 0) default_opts (render bad_layout) = FRan (fail DLoops []) /\
  demo_mpi_file (fun _ _ => 0) default_opts (render bad_layout) 3 0 = FRan (Exited (fail DLoops [LProcessor])) /\
  demo_mpi_file (fun _ _ => 0) default_opts (render bad_layout) 3 2 = FRan (Exited (fail DNone [LProcessor])).
Proof.
  assert (Hl : layout_ok bad_layout = true) by (vm_compute; reflexivity).
  assert (HL : has_self_loop (denot bad_layout)).
  { exists (1, 1, (-1) # 1). split; [vm_compute; tauto|reflexivity]. }
  split; [exact Hl|]. split; [left; exact HL|]. split; [exact HL|].
  split.
  { unfold has_repeated_pair. apply (Rep_here (0, 1, 1 # 1) _ (1, 0, 5 # 2)); [vm_compute; tauto|]. right. split; reflexivity. }
  split.
  { exists (1, 1, (-1) # 1). split; [vm_compute; tauto|]. vm_compute. discriminate. }
  repeat split; vm_compute; reflexivity.
Qed.

(* "p edge 3 3\ne 1 2 1.5\ne 2 3 2\ne 3 1 2.5\n": common denominator 2, scaled weights 3, 4, 5 — the scaled optimum is 12, i.e.
   the rational optimum 6; with the denominator 4 the scaled optimum is 24 *)
Definition half_layout : layout := canonical_layout true (3, [(0, 1, (15, 1%nat)); (1, 2, (2, 0%nat)); (2, 0, (25, 1%nat))]).

Example C11_e2e_scaled_nonvacuous :
  file_domain 2 half_layout /\ file_domain 4 half_layout /\ ~ integer_weights (denot half_layout) /\
  to_graph (denot half_layout) = tri_graph /\
  scaled_weights 2 (denot half_layout) = [3; 4; 5] /\ scaled_weights 4 (denot half_layout) = [6; 8; 10] /\
  is_opt tri_graph [3; 4; 5] 12 /\ forall x, is_opt tri_graph [6; 8; 10] x -> x = 24.
Proof.
  assert (Hl : layout_ok half_layout = true) by (vm_compute; reflexivity).
  assert (Hc : clean (denot half_layout)).
  { apply (verdicts_valid _ (denot_wf _ Hl)). vm_compute. repeat split; reflexivity. }
  assert (H2 : common_den 2 (denot half_layout)).
  { intros e He. vm_compute in He. destruct He as [<-|[<-|[<-|[]]]]; cbn; [exists 1|exists 2|exists 1]; reflexivity. }
  assert (H4 : common_den 4 (denot half_layout)).
  { intros e He. vm_compute in He. destruct He as [<-|[<-|[<-|[]]]]; cbn; [exists 2|exists 4|exists 2]; reflexivity. }
  assert (Hopt : is_opt tri_graph [3; 4; 5] 12).
  { destruct C11_e2e_optimum_nonvacuous as (_ & _ & _ & _ & _ & _ & _ & _ & _ & H & _). exact H. }
  split; [split; [exact Hl|split; [exact Hc|exact H2]]|]. split; [split; [exact Hl|split; [exact Hc|exact H4]]|].
  split.
  { intros Hi. specialize (Hi (0, 1, 3 # 2)). cbn in Hi. assert (X : (2 = 1)%positive) by (apply Hi; vm_compute; tauto). discriminate. }
  split; [vm_compute; reflexivity|]. split; [vm_compute; reflexivity|]. split; [vm_compute; reflexivity|].
  split; [exact Hopt|]. intros x Hx.
  assert (E2 : scaled_weights 2 (denot half_layout) = [3; 4; 5]) by (vm_compute; reflexivity).
  assert (E4 : scaled_weights 4 (denot half_layout) = [6; 8; 10]) by (vm_compute; reflexivity).
  assert (Eg : to_graph (denot half_layout) = tri_graph) by (vm_compute; reflexivity).
  pose proof (C11_e2e_scaled_opt_coherent 2 4 (denot half_layout) 12 x H2 H4) as H. rewrite E2, E4, Eg in H.
  specialize (H Hopt Hx). lia.
Qed.
