(* ApproxParModel.v — executable model of the TBB flavour of the approximate algorithms
     include/parmcb/detail/approx_spanner.hpp   NonSpannerEdgesCycleBuilder<Graph, WeightMap, true>
                                                (construct_cycles_for_non_spanner_edges, the is_tbb_enabled overload),
                                                BaseApproxSpannerAlgorithm<.., .., ExactAlgorithm, true>
     include/parmcb/parmcb_approx_sva_signed_tbb.hpp   approx_mcb_sva_signed_tbb   (exact phase: mcb_sva_signed_tbb)
     include/parmcb/parmcb_approx_sva_trees_tbb.hpp    approx_mcb_sva_fvs_trees_tbb (exact phase: mcb_sva_fvs_trees_tbb),
                                                       approx_mcb_sva_iso_trees_tbb (exact phase: mcb_sva_iso_trees_tbb)
   on the exact domain (Z weights), on top of ApproxModel.v (spanner, translation, the per-edge cycle `dropped_cycle`: the
   statements inside the TBB lambda are the statements of the sequential loop body, character for character up to the
   last two) and the TBB semantics of SchedModel.v.  Definitions only; proofs in ApproxParProofs*.v, statements in
   Properties_C03_approx.v.

   What the TBB builder does, in order:
     tbb::concurrent_vector<std::list<Edge>> cycles;  tbb::concurrent_vector<WeightType> cycles_weights;
     tbb::parallel_for(blocked_range<size_t>(0, _non_spanner_edges.size()), [&](r) {
         for (i = r.begin(); i != r.end(); ++i) {
             e = _non_spanner_edges.at(i);  ... plain dijkstra on the SPANNER from source(e), predecessor walk from
             target(e), translated edges + e, weight under the CALLER's map ...                   (= dropped_cycle)
             cycles.push_back(cycle_edgelist);          <- TWO SEPARATE pushes on two different containers:
             cycles_weights.push_back(weight);             under real concurrency the insertion order of `cycles` and the
         } });                                             insertion order of `cycles_weights` are independent of each other
     total_weight = tbb::parallel_reduce(range_type(cycles_weights.begin(), cycles_weights.end()), WeightType(),
                        [](range_type const &r, WeightType init) { return std::accumulate(r.begin(), r.end(), init); },
                        std::plus<WeightType>());
     std::copy(cycles.begin(), cycles.end(), out);   return total_weight;
   so the i-th emitted cycle and the i-th summed weight need not belong to the same edge; only the multiset of cycles and
   the sum are determined.

   Oracles.  `bits`: the schedule stream; every parallel construct reads its schedule tree at the current position
   (SchedModel.sched_of_bits) and the position is threaded through the run in program order, exactly as the shim's global
   position is (harness/shim/tbb/verif_sched.h): constructor (no parallel construct), exact phase, the builder's
   parallel_for, the builder's parallel_reduce.  The chunks of the parallel_for run one after the other in the order the
   tree prescribes (chunks_of), each chunk pushing (cycle, weight) per index — the interleaving the shim executes.
   `perm_c`, `perm_w`: explicit insertion orders of `cycles` and of `cycles_weights` (pushes of different tasks may
   interleave in ways no sequential execution of the chunks produces, and differently for the two containers): the
   pushed elements e_0 .. e_{m-1} (execution order) are rearranged so that position j holds e_{perm[j]}; an invalid
   permutation is ignored (ParSignedModel.valid_perm, as the shim does).  The shim applies ONE permutation to both
   containers (perm_c = perm_w); harness/c05_tbb.cpp also drives them apart.  The theorems quantify over all schedule
   trees (not only those a bit stream yields) and all pairs (perm_c, perm_w).

   The exact phase is a parameter returning its answer and the stream position after it (it starts at position 0):
   the signed entry point instantiates it with ParSignedModel.mcb_sva_signed_tbb_Z on the spanner with the SPANNER's
   oracles; for the tree-based entry points the answer and the position are supplied (recovered from the run).

   Explicit error values instead of silent totalisation: _non_spanner_edges.at(i) out of range (TbbAt) and an index of
   the reduction outside cycles_weights (TbbRange) — shown unreachable in ApproxParProofs1.v. *)
From Coq Require Export ZArith.
From Parmcb Require Export ApproxModel SchedModel ParSignedModel.

(* the explicit push permutation on a container of any element type (ParSignedModel.shuffle for nat): position j holds
   e_{perm[j]}; the default of nth is not reachable (valid_perm bounds every entry) *)
Definition shuffle_gen {A : Type} (d : A) (perm : list nat) (E : list A) : list A :=
  if valid_perm perm (length E) then map (fun p => nth p E d) perm else E.

Inductive tbb_error :=
| TbbSeq (e : approx_error)   (* an error value of the per-edge model (as in the sequential builder) *)
| TbbAt                       (* _non_spanner_edges.at(i): std::out_of_range *)
| TbbRange.                   (* the reduction was handed an index outside cycles_weights *)

(* the two concurrent_vectors *)
Definition cv_state : Type := (tbb_error + (list (list nat) * list Z))%type.

(* one iteration of the for loop inside the parallel_for lambda *)
Definition tbb_iter (g : graph) (w : list Z) (sp : spanner) (ds : list nat) (st : cv_state) (i : nat) : cv_state :=
  match st with
  | inl err => inl err
  | inr (cycles, weights) =>
      match nth_error ds i with
      | None => inl TbbAt
      | Some e =>
          match dropped_cycle g w sp e with
          | inl err => inl (TbbSeq err)
          | inr (cyc, cw) => inr (cycles ++ [cyc], weights ++ [cw])     (* cycles.push_back; cycles_weights.push_back *)
          end
      end
  end.

(* the lambda on the chunk [b, b + l) *)
Definition tbb_chunk (g : graph) (w : list Z) (sp : spanner) (ds : list nat) (b l : nat) (st : cv_state) : cv_state :=
  fold_left (tbb_iter g w sp ds) (seq b l) st.

(* the parallel_for under the schedule tree t1, then the insertion orders *)
Definition tbb_fill (g : graph) (w : list Z) (sp : spanner) (ds : list nat) (t1 : sched) (perm_c perm_w : list nat)
  : cv_state :=
  match parallel_for cv_state (tbb_chunk g w sp ds) t1 0 (inr ([], [])) with
  | inl err => inl err
  | inr (cycles, weights) => inr (shuffle_gen [] perm_c cycles, shuffle_gen 0%Z perm_w weights)
  end.

(* the parallel_reduce over cycles_weights: identity WeightType() = 0, the body std::accumulate(r.begin(), r.end(), init)
   adds the elements of its chunk to init from left to right, join = std::plus.  None = an index outside the container. *)
Definition sum_step (ws : list Z) (i : nat) (acc : option Z) : option Z :=
  match acc, nth_error ws i with
  | Some a, Some x => Some (a + x)%Z
  | _, _ => None
  end.
Definition sum_join (a b : option Z) : option Z :=
  match a, b with
  | Some x, Some y => Some (x + y)%Z
  | _, _ => None
  end.
Definition tbb_sum (t2 : sched) (ws : list Z) : option Z :=
  parallel_reduce (option Z) (sum_step ws) sum_join (Some 0%Z) t2 0.

(* NonSpannerEdgesCycleBuilder<.., .., true>::operator() from stream position pos: emitted cycles, returned total,
   position after the two constructs *)
Definition tbb_builder (bits : list bool) (g : graph) (w : list Z) (sp : spanner) (pos : nat)
           (perm_c perm_w : list nat) : (tbb_error + (list (list nat) * Z)) * nat :=
  let ds := dropped sp in
  let (t1, pos1) := sched_of_bits bits pos (length ds) in
  match tbb_fill g w sp ds t1 perm_c perm_w with
  | inl err => (inl err, pos1)
  | inr (cycles, weights) =>
      let (t2, pos2) := sched_of_bits bits pos1 (length weights) in
      match tbb_sum t2 weights with
      | None => (inl TbbRange, pos2)
      | Some total => (inr (cycles, total), pos2)
      end
  end.

Inductive tbb_result :=
| TbbRun (r : approx_result)       (* as the sequential model: ApproxOk / ApproxThrow / ApproxError *)
| TbbFail (e : tbb_error).

Section ApproxTbb.
  (* the exact phase on (spanner graph, spanner weights), started at stream position 0 *)
  Variable exact : graph -> list Z -> sva_result Z * nat.
  Variable bits : list bool.

  (* BaseApproxSpannerAlgorithm<.., .., ExactAlgorithm, true>: constructor + run; second component = schedule bits
     consumed *)
  Definition approx_run_tbb (g : graph) (w : list Z) (k : nat) (scan : list nat) (perm_c perm_w : list nat)
    : tbb_result * nat :=
    match construct_spanner g k scan with
    | SpOk sp =>
        if Nat.ltb k 1 then (TbbRun ApproxThrow, 0)
        else if existsb (fun e => Z.ltb (nth e w 0%Z) 0%Z) (seq 0 (ne g)) then (TbbRun ApproxThrow, 0)
        else
          let (r, pos) := exact (sp_graph sp) (spanner_weights w sp) in
          match r with
          | SvaOk scycles sw _ =>
              match translate_cycles (retained sp) scycles with
              | None => (TbbRun (ApproxError AeMap), pos)
              | Some tcycles =>
                  let (b, pos') := tbb_builder bits g w sp pos perm_c perm_w in
                  match b with
                  | inl (TbbSeq err) => (TbbRun (ApproxError err), pos')
                  | inl err => (TbbFail err, pos')
                  | inr (dcycles, dw) => (TbbRun (ApproxOk (tcycles ++ dcycles) ((0 + sw) + dw)%Z), pos')
                  end
              end
          | _ => (TbbRun (ApproxError AeExact), pos)
          end
    | _ => (TbbRun (ApproxError AeSpanner), 0)
    end.
End ApproxTbb.

(* approx_mcb_sva_signed_tbb: the exact phase is mcb_sva_signed_tbb on the spanner; `roots` / `eord` are the oracles of
   the SPANNER graph, `perm1` the insertion order of the exact phase's concurrently pushed initial supports *)
Definition approx_sva_signed_tbb_Z (g : graph) (w : list Z) (k : nat) (scan roots eord : list nat) (bits : list bool)
           (perm1 perm_c perm_w : list nat) : tbb_result * nat :=
  approx_run_tbb (fun h wh => mcb_sva_signed_tbb_Z h wh roots eord bits perm1) bits g w k scan perm_c perm_w.

(* the tree-based TBB entry points with the exact phase's answer and the stream position after it supplied *)
Definition approx_sva_given_tbb (scycles : list (list nat)) (sw : Z) (pos1 : nat) (g : graph) (w : list Z) (k : nat)
           (scan : list nat) (bits : list bool) (perm_c perm_w : list nat) : tbb_result * nat :=
  approx_run_tbb (fun _ _ => (SvaOk scycles sw [], pos1)) bits g w k scan perm_c perm_w.
