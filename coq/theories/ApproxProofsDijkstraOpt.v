(* ApproxProofsDijkstraOpt.v — the plain Dijkstra of DijkstraModel.v on Z weights that are non-negative:
   the run never produces an error value (no update of a vertex that has left the queue, enough fuel), the
   distances are tree distances (dist[w] = dist[pred-parent w] + weight of the predecessor edge) and they are
   minimal (dist[v] <= weight of every walk from the source).  Uses the heap-order lemmas of LexSPProofsHeap
   (heap property projected through a measure; the measure min(d, M) / M for "unset" works for every bound M,
   and the invariant is kept for all M at once).  Prefix dz_. *)
From Coq Require Import List Arith Bool Lia ZArith Permutation.
From Parmcb Require Import GraphModel HeapModel GraphSpec GraphLemmas SpannerProofs LexSPProofsHeap DijkstraModel
  ApproxProofsDijkstra.
Import ListNotations.

Definition mM (M : Z) (k : option Z) : Z := match k with Some x => Z.min x M | None => M end.

Lemma mM_lt M a b : dj_klt Z Z.ltb a b = true -> (mM M a <= mM M b)%Z.
Proof.
  destruct a as [x|], b as [y|]; cbn [dj_klt mM]; try discriminate; [|lia].
  intros H. apply Z.ltb_lt in H. lia.
Qed.

Lemma mM_ge M a b : dj_klt Z Z.ltb a b = false -> (mM M b <= mM M a)%Z.
Proof.
  destruct a as [x|], b as [y|]; cbn [dj_klt mM]; try discriminate; try lia.
Qed.

Lemma dz_NoDup_app_r {A} (a b : list A) : NoDup (a ++ b) -> NoDup b.
Proof. induction a as [|x a IH]; intros H; [exact H|]. cbn [app] in H. inversion H; subst. auto. Qed.

Lemma dz_nth_all_none {A B} (l : list A) : forall v, nth v (map (fun _ => @None B) l) None = None.
Proof. induction l as [|a l IH]; intros [|v]; cbn [map nth]; auto. Qed.

Section Opt.
  Variable h : graph.
  Hypothesis Hwf : wfg h.
  Variable wts : list Z.
  Variable s : nat.
  Hypothesis Hs : s < nv h.
  Hypothesis Hnn : forall e, (0 <= dj_wt Z 0%Z wts e)%Z.

  Notation relax := (dj_relax Z 0%Z Z.add Z.ltb (nv h) wts s).
  Notation klt := (dj_klt Z Z.ltb).
  Notation wte := (dj_wt Z 0%Z wts).
  Notation DI := (DInv Z h s).

  Definition Dd (st : dj_state Z) (v : nat) (d : Z) : Prop := nth v (dj_dist Z st) None = Some d.

  Lemma Dd_fun st v d d' : Dd st v d -> Dd st v d' -> d = d'.
  Proof. unfold Dd. intros H H'. rewrite H in H'. injection H' as ->. reflexivity. Qed.

  Record XInv (pend : nat -> nat -> nat -> Prop) (st : dj_state Z) (ord : list nat) : Prop := {
    x_dlen : length (dj_dist Z st) = nv h;
    x_src : Dd st s 0%Z;
    x_dist : forall v, In v (ord ++ dj_heap Z st) -> exists d, Dd st v d /\ (0 <= d)%Z;
    x_some : forall v d, Dd st v d -> In v (ord ++ dj_heap Z st);
    x_heap : forall M, hp_heap (option Z) (mM M) (dj_key Z (dj_dist Z st)) (dj_heap Z st);
    x_mono : forall x y dx dy, In x ord -> In y (dj_heap Z st) -> Dd st x dx -> Dd st y dy -> (dx <= dy)%Z;
    x_max : forall u0 rest x dx du, ord = u0 :: rest -> In x ord -> Dd st x dx -> Dd st u0 du -> (dx <= du)%Z;
    x_tree : forall w e, nth w (dj_pred Z st) None = Some e ->
               exists p dp dw, joins h e w p /\ In p ord /\ Dd st p dp /\ Dd st w dw /\ dw = (dp + wte e)%Z;
    x_tri : forall x e y, In x ord -> joins h e x y ->
               pend x e y \/ (exists dx dy, Dd st x dx /\ Dd st y dy /\ (dy <= dx + wte e)%Z)
  }.

  (* ---- one relaxation, with the distances ------------------------------------------------------- *)
  Lemma dz_relax_spec u du st e w st' :
    relax u du (Some st) (e, w) = Some st' ->
    (st' = st /\ (w = u \/ w = s \/ exists e0 dw, nth w (dj_pred Z st) None = Some e0 /\ Dd st w dw /\ (dw <= du + wte e)%Z))
    \/ (w <> u /\ w <> s /\ w < nv h
        /\ dj_pred Z st' = set_nth (dj_pred Z st) w (Some e)
        /\ dj_dist Z st' = set_nth (dj_dist Z st) w (Some (du + wte e)%Z)
        /\ ((nth w (dj_pred Z st) None = None
             /\ dj_heap Z st' = heap_push (option Z) klt (dj_key Z (dj_dist Z st')) (dj_heap Z st) w)
            \/ (exists e0 dw, nth w (dj_pred Z st) None = Some e0 /\ Dd st w dw /\ (du + wte e < dw)%Z
                /\ heap_update (option Z) klt (dj_key Z (dj_dist Z st')) (dj_heap Z st) w = Some (dj_heap Z st')))).
  Proof.
    unfold dj_relax, Dd.
    destruct (Nat.eqb_spec w u) as [Hwu|Hwu]; [intros H; injection H as <-; left; auto|].
    destruct (Nat.eqb_spec w s) as [Hws|Hws]; [intros H; injection H as <-; left; auto|].
    destruct (Nat.leb_spec (nv h) w) as [Hge|Hlt]; [discriminate|].
    destruct (nth w (dj_pred Z st) None) as [e0|] eqn:Ep.
    - destruct (nth w (dj_dist Z st) None) as [dw|] eqn:Ed; [|discriminate].
      destruct (Z.ltb_spec (du + wte e) dw) as [Hlt'|Hge'].
      + destruct (heap_update _ _ _ (dj_heap Z st) w) as [h'|] eqn:Eu; [|discriminate].
        intros H; injection H as <-. right. cbn [dj_pred dj_heap dj_dist].
        repeat split; auto. right. exists e0, dw. auto.
      + intros H; injection H as <-. left. split; auto. right; right. exists e0, dw. auto.
    - intros H; injection H as <-. right. cbn [dj_pred dj_heap dj_dist]. repeat split; auto.
  Qed.

  Lemma dz_relax_not_none u du ord0 st e w pend :
    DI pend st (u :: ord0) -> XInv pend st (u :: ord0) -> Dd st u du -> joins h e u w ->
    relax u du (Some st) (e, w) <> None.
  Proof.
    intros I X Hdu Hj. unfold dj_relax.
    destruct (Nat.eqb_spec w u) as [Hwu|Hwu]; [discriminate|].
    destruct (Nat.eqb_spec w s) as [Hws|Hws]; [discriminate|].
    destruct (joins_range h e u w Hwf Hj) as (_ & Hwn).
    destruct (Nat.leb_spec (nv h) w) as [Hge|_]; [lia|].
    destruct (nth w (dj_pred Z st) None) as [e0|] eqn:Ep; [|discriminate].
    assert (Hin : In w ((u :: ord0) ++ dj_heap Z st)) by (apply (d_mem _ _ _ _ _ _ I w Hws); rewrite Ep; discriminate).
    destruct (x_dist _ _ _ X w Hin) as (dw & Hdw & _). unfold Dd in Hdw. rewrite Hdw.
    destruct (Z.ltb_spec (du + wte e) dw) as [Hlt|_]; [|discriminate].
    destruct (heap_update _ _ _ (dj_heap Z st) w) eqn:Eu; [discriminate|].
    apply hp_update_none in Eu. apply in_app_or in Hin as [Hin|Hin]; [|contradiction].
    pose proof (x_max _ _ _ X u ord0 w dw du eq_refl Hin Hdw Hdu) as Hle. specialize (Hnn e). lia.
  Qed.

  Lemma dz_relax_inv u ord0 du st e w rest st' :
    DI (pend_of u ((e, w) :: rest)) st (u :: ord0) -> XInv (pend_of u ((e, w) :: rest)) st (u :: ord0) ->
    Dd st u du -> joins h e u w ->
    relax u du (Some st) (e, w) = Some st' ->
    XInv (pend_of u rest) st' (u :: ord0) /\ Dd st' u du.
  Proof.
    intros I X Hdu Hj Hr.
    destruct (x_dist _ _ _ X u (or_introl eq_refl)) as (du' & Hdu' & Hdu0).
    rewrite <- (Dd_fun _ _ _ _ Hdu Hdu') in Hdu0. clear du' Hdu'.
    pose proof (Hnn e) as Hwe.
    apply dz_relax_spec in Hr.
    destruct Hr as [[-> Hwhy]|(Hwu & Hws & Hwn & Hpred & Hdist & Hcase)].
    - split; [|exact Hdu]. constructor; try apply X.
      intros x e' y Hx Hj'. destruct (x_tri _ _ _ X x e' y Hx Hj') as [[-> [E|Hin]]|Hin]; auto.
      + injection E as <- <-. right. destruct Hwhy as [->|[->|(e0 & dw & _ & Hdw & Hle)]].
        * exists du, du. repeat split; auto. lia.
        * exists du, 0%Z. repeat split; auto; [apply X|lia].
        * exists du, dw. auto.
      + left. split; auto.
    - set (c := (du + wte e)%Z) in *.
      assert (Hlen : w < length (dj_dist Z st)) by (rewrite (x_dlen _ _ _ X); exact Hwn).
      assert (HDo : forall v d, v <> w -> (Dd st' v d <-> Dd st v d)).
      { intros v d Hv. unfold Dd. rewrite Hdist, nth_set_nth_neq by congruence. reflexivity. }
      assert (HDw : Dd st' w c) by (unfold Dd; rewrite Hdist; apply nth_set_nth_eq; exact Hlen).
      assert (Hplen : w < length (dj_pred Z st)) by (rewrite (d_len _ _ _ _ _ _ I); exact Hwn).
      assert (HPo : forall v, v <> w -> nth v (dj_pred Z st') None = nth v (dj_pred Z st) None).
      { intros v Hv. rewrite Hpred. apply nth_set_nth_neq. congruence. }
      assert (HPw : nth w (dj_pred Z st') None = Some e) by (rewrite Hpred; apply nth_set_nth_eq; exact Hplen).
      pose proof (d_nodup _ _ _ _ _ _ I) as Hnd.
      assert (Hnord : ~ In w (u :: ord0)).
      { destruct Hcase as [[Hnone _]|(e0 & dw & Hp & _ & _ & Hup)].
        - intros Hin. apply (d_mem _ _ _ _ _ _ I w Hws); [apply in_or_app; left; exact Hin|exact Hnone].
        - apply hp_update_some in Hup as [Hin _]. intros Hin'. exact (NoDup_app_disjoint w _ _ Hnd Hin' Hin). }
      assert (Hheap : (forall v, In v (dj_heap Z st') <-> (v = w \/ In v (dj_heap Z st)))).
      { destruct Hcase as [[_ Hh]|(e0 & dw & _ & _ & _ & Hup)].
        - rewrite Hh. intros v. split.
          + intros Hv. apply (Permutation_in _ (hp_push_perm _ _ _ _ _)) in Hv. destruct Hv as [<-|Hv]; auto.
          + intros Hv. apply (Permutation_in _ (Permutation_sym (hp_push_perm _ _ _ _ _))). destruct Hv as [->|Hv]; [left; reflexivity|right; exact Hv].
        - apply hp_update_some in Hup as [Hin Hperm]. intros v. split.
          + intros Hv. right. apply (Permutation_in _ Hperm); exact Hv.
          + intros [->|Hv]; apply (Permutation_in _ (Permutation_sym Hperm)); assumption. }
      assert (Hle_ord : forall x dx, In x (u :: ord0) -> Dd st x dx -> (dx <= du)%Z).
      { intros x dx Hx Hdx. exact (x_max _ _ _ X u ord0 x dx du eq_refl Hx Hdx Hdu). }
      assert (Hkeyw : dj_key Z (dj_dist Z st') w = Some c) by exact HDw.
      assert (Hkeyo : forall v, v <> w -> dj_key Z (dj_dist Z st') v = dj_key Z (dj_dist Z st) v).
      { intros v Hv. unfold dj_key. rewrite Hdist, nth_set_nth_neq by congruence. reflexivity. }
      split; [|apply HDo; [congruence|exact Hdu]].
      constructor.
      + rewrite Hdist, set_nth_length. apply X.
      + apply HDo; [congruence|apply X].
      + intros v Hv. destruct (Nat.eq_dec v w) as [->|Hvw]; [exists c; split; [exact HDw|unfold c; lia]|].
        destruct (x_dist _ _ _ X v) as (d & Hd & Hd0).
        { apply in_app_or in Hv as [Hv|Hv]; apply in_or_app; [left; exact Hv|right].
          apply Hheap in Hv as [?|Hv]; [contradiction|exact Hv]. }
        exists d. split; [apply HDo; assumption|exact Hd0].
      + intros v d Hd. destruct (Nat.eq_dec v w) as [->|Hvw].
        * apply in_or_app. right. apply Hheap. left; reflexivity.
        * apply HDo in Hd; [|exact Hvw]. apply (x_some _ _ _ X) in Hd.
          apply in_app_or in Hd as [Hd|Hd]; apply in_or_app; [left; exact Hd|right; apply Hheap; right; exact Hd].
      + intros M. destruct Hcase as [[Hnone Hh]|(e0 & dw & Hp & Hdw & Hlt & Hup)].
        * rewrite Hh. apply (hp_push_heap _ _ _ (mM_lt M) (mM_ge M)).
          apply (hp_heap_key_ext _ _ _ _ _ (x_heap _ _ _ X M)).
          intros x Hx. apply Hkeyo. intros ->.
          apply (d_mem _ _ _ _ _ _ I w Hws); [apply in_or_app; right; exact Hx|exact Hnone].
        * apply (hp_update_heap _ _ _ (mM_lt M) (mM_ge M) (dj_key Z (dj_dist Z st)) _ (dj_heap Z st) w);
            [exact (dz_NoDup_app_r _ _ Hnd)|apply X| |
             |exact Hup].
          -- intros x _ Hx. apply Hkeyo; exact Hx.
          -- rewrite Hkeyw. unfold dj_key. unfold Dd in Hdw. rewrite Hdw. cbn [mM]. lia.
      + intros x y dx dy Hx Hy Hdx Hdy.
        assert (Hxw : x <> w) by (intros ->; contradiction).
        apply HDo in Hdx; [|exact Hxw]. pose proof (Hle_ord x dx Hx Hdx) as Hxu.
        destruct (Nat.eq_dec y w) as [->|Hyw].
        * rewrite (Dd_fun _ _ _ _ Hdy HDw). unfold c. lia.
        * apply HDo in Hdy; [|exact Hyw]. apply Hheap in Hy as [?|Hy]; [contradiction|].
          exact (x_mono _ _ _ X x y dx dy Hx Hy Hdx Hdy).
      + intros u0 rest0 x dx du0 E Hx Hdx Hdu'. injection E as <- <-.
        assert (Hxw : x <> w) by (intros ->; contradiction).
        apply HDo in Hdx; [|exact Hxw]. apply HDo in Hdu'; [|congruence].
        exact (x_max _ _ _ X u ord0 x dx du0 eq_refl Hx Hdx Hdu').
      + intros v e' Hv. destruct (Nat.eq_dec v w) as [->|Hvw].
        * rewrite HPw in Hv. injection Hv as <-. exists u, du, c.
          repeat split; [apply gl_joins_sym; exact Hj|left; reflexivity|apply HDo; [congruence|exact Hdu]|exact HDw].
        * rewrite HPo in Hv by exact Hvw.
          destruct (x_tree _ _ _ X v e' Hv) as (p & dp & dv & H1 & H2 & H3 & H4 & H5).
          exists p, dp, dv. repeat split; auto; apply HDo; auto. intros ->; contradiction.
      + intros x e' y Hx Hj'.
        assert (Hxw : x <> w) by (intros ->; contradiction).
        destruct (x_tri _ _ _ X x e' y Hx Hj') as [[-> [E|Hin]]|(dx & dy & Hdx & Hdy & Hle)].
        * injection E as <- <-. right. exists du, c. repeat split; [apply HDo; [congruence|exact Hdu]|exact HDw|unfold c; lia].
        * left. split; auto.
        * right. destruct (Nat.eq_dec y w) as [->|Hyw].
          -- exists dx, c. split; [apply HDo; assumption|]. split; [exact HDw|].
             destruct Hcase as [[Hnone _]|(e0 & dw & _ & Hdw & Hlt & _)].
             ++ exfalso. apply (d_mem _ _ _ _ _ _ I w Hws); [apply (x_some _ _ _ X w dy Hdy)|exact Hnone].
             ++ rewrite (Dd_fun _ _ _ _ Hdy Hdw) in Hle. unfold c. lia.
          -- exists dx, dy. repeat split; auto; apply HDo; assumption.
  Qed.

  Lemma dz_fold_inv u ord0 du : forall rest st,
    DI (pend_of u rest) st (u :: ord0) -> XInv (pend_of u rest) st (u :: ord0) -> Dd st u du ->
    (forall e y, In (e, y) rest -> joins h e u y) ->
    exists st', fold_left (relax u du) rest (Some st) = Some st'
      /\ DI (pend_of u []) st' (u :: ord0) /\ XInv (pend_of u []) st' (u :: ord0).
  Proof.
    induction rest as [|[e w] rest IH]; intros st I X Hdu Hj.
    - exists st. auto.
    - cbn [fold_left].
      assert (Hje : joins h e u w) by (apply Hj; left; reflexivity).
      destruct (relax u du (Some st) (e, w)) as [st1|] eqn:E1;
        [|exfalso; eapply dz_relax_not_none; eauto].
      destruct (dz_relax_inv u ord0 du st e w rest st1 I X Hdu Hje E1) as (X1 & Hdu1).
      pose proof (dj_relax_inv Z 0%Z Z.add Z.ltb h wts s u ord0 du st e w rest st1 I Hje E1) as I1.
      apply (IH st1 I1 X1 Hdu1). intros e' y Hin. apply Hj. right; exact Hin.
  Qed.

  Lemma dz_init_inv : XInv (fun _ _ _ => False) (dj_init Z 0%Z (nv h) s) [].
  Proof.
    assert (Hlen : s < length (map (fun _ : nat => @None Z) (seq 0 (nv h)))) by (rewrite map_length, seq_length; exact Hs).
    assert (Hnone : forall v, nth v (map (fun _ : nat => @None Z) (seq 0 (nv h))) None = None).
    { intros v. apply dz_nth_all_none. }
    assert (Hd : forall v d, Dd (dj_init Z 0%Z (nv h) s) v d -> v = s /\ d = 0%Z).
    { intros v d. unfold Dd, dj_init; cbn [dj_dist]. destruct (Nat.eq_dec v s) as [->|Hv].
      - rewrite nth_set_nth_eq by exact Hlen. intros E; injection E as <-. auto.
      - rewrite nth_set_nth_neq by congruence. rewrite Hnone. discriminate. }
    assert (Hs0 : Dd (dj_init Z 0%Z (nv h) s) s 0%Z).
    { unfold Dd, dj_init; cbn [dj_dist]. apply nth_set_nth_eq. exact Hlen. }
    constructor; cbn [app].
    - unfold dj_init; cbn [dj_dist]. rewrite set_nth_length, map_length, seq_length. reflexivity.
    - exact Hs0.
    - intros v [<-|[]]. exists 0%Z. split; [exact Hs0|lia].
    - intros v d Hvd. destruct (Hd v d Hvd) as [-> _]. left; reflexivity.
    - intros M j Hj. cbn [dj_init dj_heap length] in Hj. lia.
    - intros x y dx dy [].
    - intros u0 rest x dx du E. discriminate.
    - intros w e H. unfold dj_init in H; cbn [dj_pred] in H.
      rewrite nth_all_none in H. discriminate.
    - intros x e y [].
  Qed.

  Lemma dz_pop_inv st ord u r du :
    DI (fun _ _ _ => False) st ord -> XInv (fun _ _ _ => False) st ord -> dj_heap Z st = u :: r -> Dd st u du ->
    XInv (pend_of u (out_edges h u)) (dj_popped Z Z.ltb st) (u :: ord).
  Proof.
    intros I X Eh Hdu.
    destruct (dj_pop_inv Z Z.ltb h s st ord u r I Eh) as (_ & Hpop & Huo & Hur).
    set (s1 := dj_popped Z Z.ltb st) in *.
    assert (HD : forall v d, Dd s1 v d <-> Dd st v d) by (intros; reflexivity).
    assert (Hsub : forall y, In y (dj_heap Z s1) -> In y (dj_heap Z st)).
    { intros y Hy. rewrite Eh. right. apply (Permutation_in _ Hpop); exact Hy. }
    assert (Hset : forall x, In x ((u :: ord) ++ dj_heap Z s1) <-> In x (ord ++ dj_heap Z st)).
    { intros x. rewrite Eh. cbn [app In]. rewrite !in_app_iff. cbn [In]. split.
      - intros [->|[Hx|Hx]]; auto. right; right. apply (Permutation_in _ Hpop); exact Hx.
      - intros [Hx|[->|Hx]]; auto. right; right. apply (Permutation_in _ (Permutation_sym Hpop)); exact Hx. }
    assert (Htop : forall y dy, In y (dj_heap Z st) -> Dd st y dy -> (du <= dy)%Z).
    { intros y dy Hy Hdy. apply (In_nth _ _ 0) in Hy as (j & Hj & Ey).
      pose proof (hp_heap_top _ _ _ _ (x_heap _ _ _ X (Z.max du dy + 1)%Z) j Hj) as Hle.
      rewrite Ey, Eh in Hle. cbn [nth] in Hle. unfold dj_key in Hle.
      unfold Dd in Hdu, Hdy. rewrite Hdu, Hdy in Hle. cbn [mM] in Hle. lia. }
    constructor.
    - apply X.
    - apply X.
    - intros v Hv. apply Hset in Hv. exact (x_dist _ _ _ X v Hv).
    - intros v d Hd. apply Hset. exact (x_some _ _ _ X v d Hd).
    - intros M. unfold s1, dj_popped; cbn [dj_heap dj_dist].
      apply (hp_pop_heap _ _ _ (mM_lt M) (mM_ge M)). apply X.
    - intros x y dx dy [<-|Hx] Hy Hdx Hdy.
      + rewrite (Dd_fun _ _ _ _ Hdx Hdu). apply (Htop y dy (Hsub y Hy) Hdy).
      + exact (x_mono _ _ _ X x y dx dy Hx (Hsub y Hy) Hdx Hdy).
    - intros u0 rest x dx du0 E Hx Hdx Hdu0. injection E as <- <-.
      rewrite (Dd_fun _ _ _ _ Hdu0 Hdu). destruct Hx as [<-|Hx].
      + rewrite (Dd_fun _ _ _ _ Hdx Hdu). lia.
      + apply (x_mono _ _ _ X x u dx du Hx); [rewrite Eh; left; reflexivity|exact Hdx|exact Hdu].
    - intros w e Hw. destruct (x_tree _ _ _ X w e Hw) as (p & dp & dw & H1 & H2 & H3 & H4 & H5).
      exists p, dp, dw. repeat split; auto. right; exact H2.
    - intros x e y [<-|Hx] Hj.
      + left. split; [reflexivity|]. apply out_edges_complete; exact Hj.
      + destruct (x_tri _ _ _ X x e y Hx Hj) as [[]|H]. right. exact H.
  Qed.

  Lemma dz_done_inv st u ord : XInv (pend_of u []) st (u :: ord) -> XInv (fun _ _ _ => False) st (u :: ord).
  Proof.
    intros X. constructor; try apply X.
    intros x e y Hx Hj. destruct (x_tri _ _ _ X x e y Hx Hj) as [[_ []]|H]. right; exact H.
  Qed.

  (* what the final state says *)
  Record dist_tree (dist : list (option Z)) (pred : list (option nat)) (ord : list nat) : Prop := {
    dt_tree : pred_tree h s pred ord;
    dt_src : nth s dist None = Some 0%Z;
    dt_pred : forall w e, nth w pred None = Some e ->
      exists p dp dw, joins h e w p /\ nth p dist None = Some dp /\ nth w dist None = Some dw /\ dw = (dp + wte e)%Z;
    dt_min : forall p v, walk h s p v -> exists dv, nth v dist None = Some dv /\ (dv <= weight wts (wedges p))%Z
  }.

  Lemma dz_final st ord : DI (fun _ _ _ => False) st ord -> XInv (fun _ _ _ => False) st ord -> dj_heap Z st = [] ->
    dist_tree (dj_dist Z st) (dj_pred Z st) ord.
  Proof.
    intros I X Eh. pose proof (dj_final_inv Z h s st ord I Eh) as HT. constructor.
    - exact HT.
    - apply X.
    - intros w e Hw. destruct (x_tree _ _ _ X w e Hw) as (p & dp & dw & H1 & _ & H3 & H4 & H5).
      exists p, dp, dw. auto.
    - assert (Hgen : forall x p v, walk h x p v -> forall dx, In x ord -> Dd st x dx ->
                exists dv, Dd st v dv /\ (dv <= dx + weight wts (wedges p))%Z).
      { intros x p v Hw. induction Hw as [x Hx|x e y p z Hj Hw IH]; intros dx Hin Hdx.
        - exists dx. split; [exact Hdx|]. unfold weight; cbn. lia.
        - destruct (x_tri _ _ _ X x e y Hin Hj) as [[]|(dx' & dy & Hdx' & Hdy & Hle)].
          rewrite <- (Dd_fun _ _ _ _ Hdx Hdx') in Hle.
          assert (Hy : In y ord).
          { pose proof (x_some _ _ _ X y dy Hdy) as H. rewrite Eh, app_nil_r in H. exact H. }
          destruct (IH dy Hy Hdy) as (dv & Hdv & Hle2). exists dv. split; [exact Hdv|].
          cbn [wedges map fst]. fold (wedges p). unfold weight in *. cbn [map fold_right]. unfold wt, dj_wt in *. lia. }
      intros p v Hw. destruct (Hgen s p v Hw 0%Z) as (dv & Hdv & Hle).
      + apply (pt_src _ _ _ _ HT).
      + apply X.
      + exists dv. split; [exact Hdv|lia].
  Qed.

  Lemma dz_loop : forall fuel st ord,
    DI (fun _ _ _ => False) st ord -> XInv (fun _ _ _ => False) st ord -> nv h - length ord < fuel ->
    exists dist pred ord', dj_loop Z 0%Z Z.add Z.ltb fuel h wts s st = DjOk dist pred /\ dist_tree dist pred ord'.
  Proof.
    induction fuel as [|fuel IH]; intros st ord I X Hf; [lia|].
    cbn [dj_loop]. destruct (dj_heap Z st) as [|u r] eqn:Eh.
    - exists (dj_dist Z st), (dj_pred Z st), ord. split; [reflexivity|apply dz_final; assumption].
    - assert (Hu : In u (ord ++ dj_heap Z st)) by (rewrite Eh; apply in_or_app; right; left; reflexivity).
      destruct (x_dist _ _ _ X u Hu) as (du & Hdu & _). unfold Dd in Hdu. rewrite Hdu.
      destruct (dj_pop_inv Z Z.ltb h s st ord u r I Eh) as (I1 & _ & Huo & _).
      pose proof (dz_pop_inv st ord u r du I X Eh Hdu) as X1.
      unfold dj_popped in I1, X1. rewrite Eh in I1, X1.
      match goal with |- context [fold_left ?f ?l (Some ?st1)] =>
        destruct (dz_fold_inv u ord du l st1 I1 X1 Hdu) as (st2 & -> & I2 & X2) end.
      { intros e y Hin. apply out_edges_sound; exact Hin. }
      apply (IH st2 (u :: ord) (dj_done_inv Z h s st2 u ord I2) (dz_done_inv st2 u ord X2)).
      assert (Hlen : length (u :: ord) <= nv h).
      { rewrite <- (seq_length (nv h) 0). apply NoDup_incl_length.
        - constructor; [exact Huo|]. pose proof (d_nodup _ _ _ _ _ _ I) as Hnd.
          clear -Hnd. induction ord as [|a l IHl]; [constructor|]. cbn [app] in Hnd. inversion Hnd; subst.
          constructor; [intros Hc; apply H1, in_or_app; left; exact Hc|auto].
        - intros x Hx. apply in_seq. split; [lia|]. cbn [plus].
          apply (d_range _ _ _ _ _ _ I). destruct Hx as [<-|Hx]; [exact Hu|apply in_or_app; left; exact Hx]. }
      cbn [length] in *. lia.
  Qed.

  Theorem dijkstra_total_opt :
    exists dist pred ord, dijkstra Z 0%Z Z.add Z.ltb h wts s = DjOk dist pred /\ dist_tree dist pred ord.
  Proof.
    unfold dijkstra. destruct (Nat.ltb_spec s (nv h)) as [_|Hc]; [|lia].
    apply (dz_loop (S (nv h)) _ []); [apply dj_init_inv; exact Hs|apply dz_init_inv|cbn [length]; lia].
  Qed.
End Opt.

(* the statement without the auxiliary records *)
Theorem dijkstra_correct h wts s :
  (forall e x y, ends h e = Some (x, y) -> x < nv h /\ y < nv h) -> s < nv h ->
  (forall e, (0 <= nth e wts 0)%Z) ->
  exists dist pred,
    dijkstra Z 0%Z Z.add Z.ltb h wts s = DjOk dist pred
    /\ nth s dist None = Some 0%Z
    /\ (forall p v, walk h s p v -> exists dv, nth v dist None = Some dv /\ (dv <= weight wts (wedges p))%Z)
    /\ (forall w e, nth w pred None = Some e ->
          exists p dp dw, joins h e w p /\ nth p dist None = Some dp /\ nth w dist None = Some dw
                          /\ dw = (dp + nth e wts 0)%Z).
Proof.
  intros Hwf Hs Hnn. destruct (dijkstra_total_opt h Hwf wts s Hs Hnn) as (dist & pred & ord & E & HT).
  exists dist, pred. split; [exact E|]. split; [apply (dt_src _ _ _ _ _ _ HT)|]. split; [apply (dt_min _ _ _ _ _ _ HT)|].
  apply (dt_pred _ _ _ _ _ _ HT).
Qed.
