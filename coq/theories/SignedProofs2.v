(* SignedProofs2.v — the two optimality premises of the modulo-search theorems of SignedProofs.v
   (signed_search_min, signed_search_total) are SATISFIABLE: a per-instance certificate check.

   For a concrete instance (g, wts, roots, eord) the canonical witnesses are the finitely many non-empty
   sorted subsets of 0..csd-1.  phase_certb compares, for one witness, the answer of the signed phase
   with the answer of the VERIFIED reference search (RefModel.ref_phase, minimal by
   RefProofs3.rf_ref_phase_min): same weight, a simple cycle, the reported weight is the weight of the
   cycle.  If the check passes for all witnesses, both premises hold for that instance
   (signed_premises_by_cert).  This is used for the non-vacuity examples of Properties_C01/C02; it is a
   per-instance validation, not a proof of optimality of the search.  No axioms. *)
From Coq Require Import List Arith Bool ZArith Lia Sorted.
From Parmcb Require Import GraphModel GF2Model GF2Proofs GraphSpec GraphLemmas GF2Lin McbSpec DePinaSpec
     ForestModel ForestProofs SvaModel SvaSpec SvaProofs SignedModel SignedZModel SignedProofs
     RefModel RefProofs1 RefProofs2 RefProofs3.
Import ListNotations.

(* ---- all sorted lists over a .. a+n-1 ------------------------------------------------------------ *)

Fixpoint subseqs (a n : nat) : list (list nat) :=
  match n with
  | O => [[]]
  | S n' => map (cons a) (subseqs (S a) n') ++ subseqs (S a) n'
  end.

Lemma subseqs_complete n : forall a S, sorted S -> (forall i, In i S -> a <= i < a + n) ->
  In S (subseqs a n).
Proof.
  induction n as [|n IH]; intros a S SS HB.
  - destruct S as [|x S]; [left; reflexivity|]. specialize (HB x (or_introl eq_refl)). lia.
  - cbn [subseqs]. apply in_app_iff. destruct S as [|x S].
    + right. apply IH; [apply sorted_nil|intros i []].
    + apply sorted_inv in SS as [SS' Hx]. rewrite Forall_forall in Hx.
      destruct (Nat.eq_dec x a) as [->|Hne].
      * left. apply in_map. apply IH; [exact SS'|].
        intros i Hi. specialize (Hx i Hi). specialize (HB i (or_intror Hi)). lia.
      * right. pose proof (HB x (or_introl eq_refl)) as Hxa. apply IH.
        { apply sorted_cons; [exact SS'|]. apply Forall_forall; exact Hx. }
        intros i [<-|Hi]; [lia|]. specialize (Hx i Hi). specialize (HB i (or_intror Hi)). lia.
Qed.

Definition witnesses (csd : nat) : list vec :=
  filter (fun S => match S with [] => false | _ => true end) (subseqs 0 csd).

Lemma witnesses_complete fi S : canonical_witness fi S -> In S (witnesses (fi_csd fi)).
Proof.
  intros (SS & Hne & HB). apply filter_In. split.
  - apply subseqs_complete; [exact SS|]. intros i Hi. specialize (HB i Hi). lia.
  - destruct S; [congruence|reflexivity].
Qed.

(* ---- the certificate for one witness ------------------------------------------------------------ *)

Definition phase_certb (g : graph) (wts : list Z) (eord : nat -> nat) (fi : forest_index) (S : vec) : bool :=
  match signed_phase Z 0%Z Z.add Z.ltb eord g wts fi 0 S, ref_phase g wts fi 0 S with
  | PFound c w, PFound c' w' =>
      is_simple_cycle_rawb g c && Z.eqb w (weight wts c) && Z.eqb w w'
  | _, _ => false
  end.

Lemma sg_set_of_list_sorted_id l : sorted l -> set_of_list l = l.
Proof.
  intros Sl. apply sorted_ext; [apply set_of_list_sorted|exact Sl|].
  intros i. apply eq_true_iff_eq. rewrite !mem_In. apply rf_set_of_list_In.
Qed.

Lemma phase_cert_ok g wts roots eord fi S : simple_graph g -> positive_weights g wts ->
  (forall v, v < nv g -> In v roots) -> create_index g roots = Some fi ->
  canonical_witness fi S -> phase_certb g wts eord fi S = true ->
  (exists c w, signed_phase Z 0%Z Z.add Z.ltb eord g wts fi 0 S = PFound c w)
  /\ forall c w, signed_phase Z 0%Z Z.add Z.ltb eord g wts fi 0 S = PFound c w ->
       min_odd_cycle g wts (fun D => pairing fi S D = true) c /\ w = weight wts c.
Proof.
  intros Hs Hpw Hr Hci HS Hc. unfold phase_certb in Hc.
  destruct (signed_phase Z 0%Z Z.add Z.ltb eord g wts fi 0 S) as [c w| |] eqn:Esp; try discriminate.
  destruct (ref_phase g wts fi 0 S) as [c' w'| |] eqn:Erp; try discriminate.
  apply andb_true_iff in Hc as [Hc Hww']. apply andb_true_iff in Hc as [Hsc Hw].
  apply Z.eqb_eq in Hww', Hw.
  split; [exists c, w; reflexivity|]. intros c0 w1 E. injection E as <- <-.
  destruct (signed_phase_sound Z 0%Z Z.add Z.ltb eord g wts roots fi Hs Hr Hci 0 S c w HS Esp)
    as [(Sc & _) Hodd].
  destruct (rf_is_simple_cycle_rawb_sound g c Hsc) as [_ Hcyc].
  rewrite (sg_set_of_list_sorted_id c Sc) in Hcyc.
  destruct (rf_ref_phase_min g wts roots fi Hs Hpw Hr Hci 0 S c' w' Erp) as [(_ & _ & Hmin) Hw'].
  split; [|exact Hw]. split; [exact Hcyc|]. split; [exact Hodd|].
  intros D HD HoD. specialize (Hmin D HD HoD). lia.
Qed.

(* ---- all witnesses: both premises hold for this instance --------------------------------------- *)

Definition signed_certb (g : graph) (wts : list Z) (eord : nat -> nat) (fi : forest_index) : bool :=
  forallb (phase_certb g wts eord fi) (witnesses (fi_csd fi)).

Theorem signed_premises_by_cert g wts roots eord fi : simple_graph g -> positive_weights g wts ->
  (forall v, v < nv g -> In v roots) -> create_index g roots = Some fi ->
  signed_certb g wts eord fi = true ->
  signed_search_min g wts eord fi /\ signed_search_total g wts eord fi.
Proof.
  intros Hs Hpw Hr Hci Hc. unfold signed_certb in Hc. rewrite forallb_forall in Hc.
  split.
  - intros k S c w HS E.
    destruct (phase_cert_ok g wts roots eord fi S Hs Hpw Hr Hci HS (Hc S (witnesses_complete fi S HS)))
      as [_ Hmin].
    apply Hmin. exact E.
  - intros k S SS Hne HB.
    assert (HS : canonical_witness fi S) by (split; [exact SS|split; assumption]).
    destruct (phase_cert_ok g wts roots eord fi S Hs Hpw Hr Hci HS (Hc S (witnesses_complete fi S HS)))
      as [Hex _].
    exact Hex.
Qed.

(* ---- the instance used by the non-vacuity examples: K4, unit weights ---------------------------- *)

Definition sg_k4 : graph := {| nv := 4; ge := [(0,1);(0,2);(0,3);(1,2);(1,3);(2,3)] |}.
Definition sg_k4_wts : list Z := [1;1;1;1;1;1]%Z.
Definition sg_k4_roots : list nat := [3;0;1;2;3].
Definition sg_k4_eord : list nat := [0;1;2;3;4;5].

Lemma sg_k4_simple : simple_graph sg_k4.
Proof. reflexivity. Qed.

Lemma sg_k4_positive : positive_weights sg_k4 sg_k4_wts.
Proof. split; [reflexivity|]. repeat constructor. Qed.

Lemma sg_k4_roots_cover : forall v, v < nv sg_k4 -> In v sg_k4_roots.
Proof.
  intros v Hv. cbn [nv sg_k4] in Hv. unfold sg_k4_roots.
  destruct v as [|[|[|[|v]]]]; cbn [In]; try lia; auto.
Qed.

Lemma sg_k4_premises : forall fi, create_index sg_k4 sg_k4_roots = Some fi ->
  signed_search_min sg_k4 sg_k4_wts (fun e => nth e sg_k4_eord 0) fi
  /\ signed_search_total sg_k4 sg_k4_wts (fun e => nth e sg_k4_eord 0) fi.
Proof.
  intros fi Hci.
  apply (signed_premises_by_cert sg_k4 sg_k4_wts sg_k4_roots _ fi
           sg_k4_simple sg_k4_positive sg_k4_roots_cover Hci).
  vm_compute in Hci. injection Hci as <-. vm_compute. reflexivity.
Qed.

Lemma sg_k4_run : mcb_sva_signed_Z sg_k4 sg_k4_wts sg_k4_roots sg_k4_eord
                  = SvaOk [[0;1;3];[0;2;4];[1;2;5]] 9%Z [[0];[0;1];[1;2]].
Proof. vm_compute. reflexivity. Qed.

Print Assumptions signed_premises_by_cert.
Print Assumptions sg_k4_premises.
