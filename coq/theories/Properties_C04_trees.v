(* Properties_C04_trees.v — C04 for the four tree-based MPI entry points (mcb_sva_{fvs,iso}_trees[_tbb]_mpi), PREMISE-FREE.
   Only final statements (model: MpiTreesModel.v on top of LexSPModel / CandidatesModel / TreesModel / MpiModel; proofs:
   MpiTreesProofs1-3.v).  Supersedes the "modulo an abstract per-chunk lookup" statement C04c_result_trees_modulo_lookup of
   Properties_C04.v: the per-rank computation is modelled exactly as coded —

     rank 0 serialises every candidate as (root vertex, forest index of the edge), cuts the list into P ceil-stride chunks and
     scatters them; rank r groups its chunk per root in ascending vertex order, REBUILDS one shortest-path tree per distinct
     root (tree id = position in that order), re-runs the restricted create_candidate_cycles on the listed edges (same three
     filters, weight recomputed from the rebuilt tree), sorts by recorded weight (the order among equal weights is an oracle:
     `arr r`, checked by mt_arr_okb to be what std::sort guarantees), looks up on ITS trees and ITS sorted vector (sequential
     flavour: first answering candidate; TBB flavour: any answer accepted by mt_rank_accept_tbb_Z = "found iff some local
     candidate answers, then one of minimum answer weight", which every schedule of the parallel_reduce satisfies), converts
     the answer to forest indices; SerializableMinOddCycleMinOp (ties to the right operand) reduces along an arbitrary tree
     over the ranks; rank 0 updates the supports, converts back and emits.

   Vocabulary.  mu_key ts c = (root of c's tree in ts, edge of c, recorded weight of c).  mt_local_Z g wts fi chunk = the trees
   and the UNSORTED candidate vector a rank builds from a chunk.  mt_rank_cands_Z b g wts roots picks P r = the same for rank r
   of the run (what `arr r` arranges).  silent = returned without emitting.  rtree_ok P t = t is a binary tree whose leaves are
   the ranks 0..P-1, each once.  Exact domain: Z weights, simple_graph, positive_weights, roots mentioning every vertex.

   Not covered by theorems: progress of the real MPI runtime; the double-precision computation of the stride; that the TBB
   parallel_reduce satisfies the acceptance relation under every schedule (exact model: ParTreesModel.v of another work
   package; here it is the hypothesis mw_accepted, checked on every real run by tools/props/c04.py). *)
From Coq Require Import List Arith Bool ZArith Permutation Sorted.
From Parmcb Require Import GraphModel GraphSpec McbSpec ForestModel SvaModel SvaSpec LexSPModel FvsModel CandidatesModel
     TreesModel MpiModel MpiProofs1 MpiProofs4 MpiTreesModel MpiTreesProofs1 MpiTreesProofs2 MpiTreesProofs3 MpiTreesProofs4
     Properties_C02_trees.
Import ListNotations.

(* C04b for the rank-dependent lookup: no deadlock, for every weight type, every lookup, every P >= 1 and all reduction trees
   over valid ranks; ranks other than 0 are silent; rank 0 holds what the sequential support-vector loop computes with the
   reduction of the ranks' local answers as its per-phase search *)
Theorem C04b_no_deadlock_trees_ranked : forall (W : Type) (w0 : W) (wadd : W -> W -> W) (wltb : W -> W -> bool)
    (fi : forest_index) (P : nat) (rtree_of : nat -> rtree) (cands : list (nat * nat))
    (lookup : nat -> list (nat * nat) -> nat -> vec -> lres W),
  1 <= P -> (forall k r, In r (rleaves (rtree_of k)) -> r < P) ->
  exists r0 rest,
    run_spmd W wltb fi P rtree_of (spmd_trees_ranked W w0 wadd fi P cands lookup) = Done (r0 :: rest)
    /\ length rest = P - 1 /\ Forall (silent w0 fi) rest
    /\ to_sva W r0 = sva_run W w0 wadd select_none
                       (MpiProofs2.glob_search W wltb fi (mw_act W P cands lookup) P rtree_of) fi.
Proof. exact mw_ranked_no_deadlock. Qed.
Print Assumptions C04b_no_deadlock_trees_ranked.

(* the phase-by-phase trace mt_trace_run — what the correspondence compares with every rank's reported local minima, the
   reductions and rank 0's emission — IS rank 0's run: for every weight type, every family of local lookups, P >= 1 and reduction
   trees over valid ranks, rank 0 of the SPMD program emits exactly the cycles the trace's reductions deliver (an empty list for a
   phase without cycle), in phase order, and returns the sum of their weights *)
Theorem C04_trace_is_run : forall (W : Type) (w0 : W) (wadd : W -> W -> W) (wltb : W -> W -> bool)
    (fi : forest_index) (P : nat) (rtree_of : nat -> rtree) (cands : list (nat * nat))
    (lookup : nat -> list (nat * nat) -> nat -> vec -> lres W),
  1 <= P -> (forall k r, In r (rleaves (rtree_of k)) -> r < P) ->
  let tr := mt_trace_run W wltb fi P rtree_of (fun r k Sv => lookup r (slice P r cands) k Sv) in
  exists sup fail rest,
    run_spmd W wltb fi P rtree_of (spmd_trees_ranked W w0 wadd fi P cands lookup)
    = Done (RankOut (mx_emitted W tr) (mx_total W wadd tr w0) sup fail :: rest)
    /\ length rest = P - 1 /\ Forall (silent w0 fi) rest.
Proof. exact mx_trace_run. Qed.
Print Assumptions C04_trace_is_run.

(* C04c_local_collection: for each of the three builders, every P >= 1 and every rank r (also r >= P, also when P exceeds the
   number of candidates: the chunk is then empty and so is the local collection) the serialisation on rank 0 does not fail,
   the rank rebuilds its chunk without error into trees that ARE the model's trees of their roots, one per distinct root in
   ascending order, and the (root, edge, weight) triples of its candidate vector are a permutation of those of its slice of
   rank 0's collection — every scattered candidate passes the restricted filters again with the same weight, none is
   duplicated or lost, whether or not a root's candidates are split across ranks; the ranks' vectors together are rank 0's
   collection *)
Theorem C04c_local_collection : forall b g wts roots picks fi trees0 cands0 P,
  simple_graph g -> (forall v, v < nv g -> In v roots) -> create_index g roots = Some fi ->
  tb_collection Z 0%Z Z.add Z.ltb b g wts picks = CdOk (trees0, cands0) -> 1 <= P ->
  exists ser,
    mt_ser_all Z fi trees0 cands0 = Some ser /\ length ser = length cands0
    /\ (forall r, exists ts L,
          mt_local_Z g wts fi (slice P r ser) = MtOk (ts, L)
          /\ Forall (fun t => sptree_Z g wts (st_src t) = LxOk t) ts
          /\ StronglySorted lt (map (@st_src Z) ts)
          /\ Permutation (map (mu_key Z ts) L) (map (mu_key Z trees0) (slice P r cands0)))
    /\ (forall locals,
          Forall2 (fun r tl => mt_local_Z g wts fi (slice P r ser) = MtOk tl) (seq 0 P) locals ->
          Permutation (concat (map (fun tl => map (mu_key Z (fst tl)) (snd tl)) locals))
                      (map (mu_key Z trees0) cands0)).
Proof. exact mw_local_collection. Qed.
Print Assumptions C04c_local_collection.

(* ... an empty chunk (P exceeds the number of candidates) gives no tree, no candidate and the answer "not found" *)
Theorem C04c_empty_chunk : forall g wts fi k Sv,
  mt_local_Z g wts fi [] = MtOk ([], [])
  /\ mt_rank_lookup_seq_Z g wts fi [] [] k Sv = Some None
  /\ mt_rank_accept_tbb_Z g wts fi [] Sv None = true.
Proof. intros. repeat split. Qed.
Print Assumptions C04c_empty_chunk.

(* C04c, mcb_sva_fvs_trees_mpi: for EVERY simple graph with positive integer weights, every root order of the spanning forest,
   every complete run of greedy_fvs, every P >= 1, every family of reduction trees and every family of valid per-rank sort
   arrangements: no deadlock, the ranks other than 0 emit nothing, rank 0 gets m - n + c simple cycles forming a MINIMUM cycle
   basis, and the returned value is its total weight *)
Theorem C04c_result_fvs_trees_mpi : forall g wts roots picks fvs P arr rtree_of,
  simple_graph g -> positive_weights g wts -> (forall v, v < nv g -> In v roots) ->
  greedy_fvs g picks = FvsOk fvs ->
  1 <= P -> (forall k, rtree_ok P (rtree_of k)) ->
  (forall r ts L, r < P -> mt_rank_cands_Z TbFvs g wts roots picks P r = Some (ts, L) -> mt_arr_okb Z Z.ltb L (arr r) = true) ->
  exists fi cycles total sup rest,
    create_index g roots = Some fi
    /\ mcb_sva_trees_mpi_seq_Z TbFvs g wts roots picks P arr rtree_of = MtRun Z (Done (RankOut cycles total sup None :: rest))
    /\ length rest = P - 1 /\ Forall (silent 0%Z fi) rest
    /\ min_cycle_basis g wts cycles /\ total = total_weight wts cycles
    /\ has_cycle_space_dimension g (length cycles).
Proof. exact mw_fvs_trees_mpi. Qed.
Print Assumptions C04c_result_fvs_trees_mpi.

(* C04c, mcb_sva_iso_trees_mpi *)
Theorem C04c_result_iso_trees_mpi : forall g wts roots picks P arr rtree_of,
  simple_graph g -> positive_weights g wts -> (forall v, v < nv g -> In v roots) ->
  1 <= P -> (forall k, rtree_ok P (rtree_of k)) ->
  (forall r ts L, r < P -> mt_rank_cands_Z TbIso g wts roots picks P r = Some (ts, L) -> mt_arr_okb Z Z.ltb L (arr r) = true) ->
  exists fi cycles total sup rest,
    create_index g roots = Some fi
    /\ mcb_sva_trees_mpi_seq_Z TbIso g wts roots picks P arr rtree_of = MtRun Z (Done (RankOut cycles total sup None :: rest))
    /\ length rest = P - 1 /\ Forall (silent 0%Z fi) rest
    /\ min_cycle_basis g wts cycles /\ total = total_weight wts cycles
    /\ has_cycle_space_dimension g (length cycles).
Proof. exact mw_iso_trees_mpi. Qed.
Print Assumptions C04c_result_iso_trees_mpi.

(* C04c, mcb_sva_fvs_trees_tbb_mpi / mcb_sva_iso_trees_tbb_mpi: the same for EVERY family of local lookups all of whose answers
   are accepted (mw_accepted: for every rank, chunk and witness the answer is "not found" when no local candidate answers and
   otherwise the answer of a local candidate of minimum answer weight) — whatever the TBB schedules were *)
Theorem C04c_result_fvs_trees_tbb_mpi : forall g wts roots picks fvs P lookup rtree_of,
  simple_graph g -> positive_weights g wts -> (forall v, v < nv g -> In v roots) ->
  greedy_fvs g picks = FvsOk fvs ->
  1 <= P -> (forall k, rtree_ok P (rtree_of k)) -> mw_accepted g wts lookup ->
  exists fi cycles total sup rest,
    create_index g roots = Some fi
    /\ mcb_sva_trees_mpi_gen_Z TbFvs g wts roots picks P lookup rtree_of = MtRun Z (Done (RankOut cycles total sup None :: rest))
    /\ length rest = P - 1 /\ Forall (silent 0%Z fi) rest
    /\ min_cycle_basis g wts cycles /\ total = total_weight wts cycles
    /\ has_cycle_space_dimension g (length cycles).
Proof. exact mw_fvs_trees_tbb_mpi. Qed.
Print Assumptions C04c_result_fvs_trees_tbb_mpi.

Theorem C04c_result_iso_trees_tbb_mpi : forall g wts roots picks P lookup rtree_of,
  simple_graph g -> positive_weights g wts -> (forall v, v < nv g -> In v roots) ->
  1 <= P -> (forall k, rtree_ok P (rtree_of k)) -> mw_accepted g wts lookup ->
  exists fi cycles total sup rest,
    create_index g roots = Some fi
    /\ mcb_sva_trees_mpi_gen_Z TbIso g wts roots picks P lookup rtree_of = MtRun Z (Done (RankOut cycles total sup None :: rest))
    /\ length rest = P - 1 /\ Forall (silent 0%Z fi) rest
    /\ min_cycle_basis g wts cycles /\ total = total_weight wts cycles
    /\ has_cycle_space_dimension g (length cycles).
Proof. exact mw_iso_trees_tbb_mpi. Qed.
Print Assumptions C04c_result_iso_trees_tbb_mpi.

(* ---- non-vacuity ------------------------------------------------------------------------------------------------------ *)
(* the theta graph of Properties_C02_trees.v (cycles 7, 8, 9; optimum 15), FVS = {1}: rank 0's collection has the two
   candidates (root 1, forest index 3) and (root 1, forest index 5).  With P = 3 ranks the candidates of root 1 are SPLIT
   across ranks 0 and 1 (both rebuild the tree of vertex 1) and rank 2 receives an empty chunk; the arrangements [0], [0], []
   are valid, Boost's reduction tree is a valid tree, and the model returns the minimum basis with weight 15 *)
Definition c04t_arr (r : nat) : list nat := nth r [[0]; [0]; []] [].

Example C04c_fvs_nonvacuous :
  simple_graph c02t_g /\ positive_weights c02t_g c02t_w /\ (forall v, v < nv c02t_g -> In v c02t_roots)
  /\ greedy_fvs c02t_g [1] = FvsOk [1] /\ 1 <= 3 /\ (forall k : nat, rtree_ok 3 (boost_reduce_tree 3))
  /\ (forall r ts L, r < 3 -> mt_rank_cands_Z TbFvs c02t_g c02t_w c02t_roots [1] 3 r = Some (ts, L) ->
        mt_arr_okb Z Z.ltb L (c04t_arr r) = true)
  /\ option_map snd (mt_all_pairs_Z TbFvs c02t_g c02t_w c02t_roots [1]) = Some [(1, 3); (1, 5)]
  /\ map (fun r => option_map (fun tl => (map (@st_src Z) (fst tl), map (fun c => (c_tree c, c_edge c, c_weight c)) (snd tl)))
                              (mt_rank_cands_Z TbFvs c02t_g c02t_w c02t_roots [1] 3 r)) [0; 1; 2]
     = [Some ([1], [(0, 2, 7%Z)]); Some ([1], [(0, 5, 8%Z)]); Some ([], [])]
  /\ exists sup rest,
       mcb_sva_trees_mpi_seq_Z TbFvs c02t_g c02t_w c02t_roots [1] 3 c04t_arr (fun _ => boost_reduce_tree 3)
       = MtRun Z (Done (RankOut [[0;1;2;3;4];[0;1;5;6;7]] 15%Z sup None :: rest)).
Proof.
  destruct C02_trees_nonvacuous as (H1 & H2 & H3 & H4 & _).
  split; [exact H1|]. split; [exact H2|]. split; [exact H3|]. split; [exact H4|]. split; [auto|].
  split; [intros _; apply rtree_okb_ok; reflexivity|].
  split.
  { intros r ts L Hr. destruct r as [|[|[|r]]]; [| | |exfalso; do 3 apply Nat.succ_lt_mono in Hr; inversion Hr];
      vm_compute; intros [= <- <-]; reflexivity. }
  split; [vm_compute; reflexivity|]. split; [vm_compute; reflexivity|].
  eexists; eexists. vm_compute. reflexivity.
Qed.

(* the isometric builder on the same graph, P = 2: two candidates per rank, arrangement [0; 1] (already sorted: 7, 8) *)
Example C04c_iso_nonvacuous :
  (forall r ts L, r < 2 -> mt_rank_cands_Z TbIso c02t_g c02t_w c02t_roots [] 2 r = Some (ts, L) ->
     mt_arr_okb Z Z.ltb L [0; 1] = true)
  /\ rtree_ok 2 (boost_reduce_tree 2)
  /\ exists cycles sup rest,
       mcb_sva_trees_mpi_seq_Z TbIso c02t_g c02t_w c02t_roots [] 2 (fun _ => [0; 1]) (fun _ => boost_reduce_tree 2)
       = MtRun Z (Done (RankOut cycles 15%Z sup None :: rest)).
Proof.
  split.
  { intros r ts L Hr. destruct r as [|[|r]]; [| |exfalso; do 2 apply Nat.succ_lt_mono in Hr; inversion Hr];
      vm_compute; intros [= <- <-]; reflexivity. }
  split; [apply rtree_okb_ok; reflexivity|].
  eexists; eexists; eexists. vm_compute. reflexivity.
Qed.

(* the acceptance hypothesis of the TBB statements is satisfiable: the sequential lookup under the identity arrangement of an
   already sorted vector is accepted on the example *)
Example C04c_tbb_accept_nonvacuous :
  forallb (fun r => match mt_all_pairs_Z TbFvs c02t_g c02t_w c02t_roots [1] with
                    | Some (fi, ser) =>
                        match mt_rank_lookup_seq_Z c02t_g c02t_w fi (c04t_arr r) (slice 3 r ser) 0 [0] with
                        | Some b => mt_rank_accept_tbb_Z c02t_g c02t_w fi (slice 3 r ser) [0] b
                        | None => false
                        end
                    | None => false
                    end) [0; 1; 2] = true.
Proof. vm_compute. reflexivity. Qed.
