(* MpiTreesModel.v — the four tree-based MPI entry points, per rank, exactly as coded
     include/parmcb/mpi/parmcb_sva_trees.hpp   _mcb_sva_trees_mpi (mcb_sva_{fvs,iso}_trees[_tbb]_mpi)
     include/parmcb/sptrees.hpp                SPTree::create_candidate_cycles(begin, end)  (the RESTRICTED overload),
                                               CandidateCycleToSerializableConverter, SerializableCandidateCycle,
                                               ShortestOddCycleLookup (sequential flavour: exact; TBB flavour: acceptance)
   on top of LexSPModel.v (SPTree), CandidatesModel.v (the builders on rank 0, cd_of_edge = the filters of
   create_candidate_cycles), TreesModel.v (update_parities, CandidateCycleBuilder), MpiModel.v (collectives in lock
   step, `spmd_trees`, ceil-stride chunks, SerializableMinOddCycleMinOp, reduction trees).  Definitions only; proofs in
   MpiTreesProofs*.v, final statements in Properties_C04_trees.v.

   What the C++ does.
     rank 0   CyclesBuilder()(g, w, trees, cycles); every candidate (tree id, edge) becomes the serialisable pair
              (trees.at(id).source(), forest_index(edge))  [mt_ser]; the pairs are cut into P ceil-stride chunks and
              scattered [MpiModel.chunks / spmd_trees].
     rank r   groups its chunk per root vertex in a std::map<Vertex, std::vector<Edge>> — ascending vertex, the edges of
              one vertex in chunk order; Edge e = forest_index(t.e) = reverse_index[t.e], UNCHECKED  [mt_group];
              iterates the map: SPTree tree(trees.size(), g, ..., p.first) — the tree id is the POSITION in the map
              iteration — and tree.create_candidate_cycles(p.second.begin(), p.second.end()): the listed edges only, each
              through the same three filters as on rank 0 (tree edge / missing node / equal first-in-path) and with the
              weight w(e) + node(source)->weight() + node(target)->weight() recomputed from the REBUILT tree  [mt_build];
              std::sort(cycles, a.weight() < b.weight())  [oracle `arr`, see below]; ShortestOddCycleLookup on ITS trees and
              ITS sorted cycles.
     phase k  broadcast S_k; signed_edges = convert_edges(S_k); local lookup; the answer as forest indices
              (SerializableMinOddCycle: edges, weight, exists); reduce with SerializableMinOddCycleMinOp to rank 0; rank 0
              updates the supports, converts back, emits  [MpiModel.phases / bookkeep / mpi_min].
   The trees and the sorted vector are built once before the loop; the model recomputes them in every phase (they are
   functions of (g, w, chunk, arr) only).  Every rank builds its own ForestIndex; the model uses one `fi` (the BFS root order of
   an unordered_set filled in the same order is the same in every process; the check compares the ranks' ROOTS).

   Nondeterminism.
     * std::sort is not stable: the order among local candidates of equal recorded weight is unspecified and may differ
       from rank to rank.  Rank r's sorted vector is `map (nth . cycles) (arr r)` for an oracle `arr r` (positions in the
       unsorted local vector); the model checks what std::sort guarantees — a permutation, and no later element is
       strictly lighter than an earlier one (mt_arr_okb) — and reports MtBadOracle otherwise.  Theorems quantify over every
       family of valid arrangements; the check recovers `arr r` from the order the rank reports.
     * the sequential lookup returns the answer of the FIRST candidate of the sorted vector for which
       CandidateCycleBuilder says true, evaluating nothing after it (mt_scan: lazy, unlike TreesModel.tl_eval).
     * the TBB lookup (tbb::parallel_reduce with a running minimum + weight limit, joined with cycle_min) returns, under
       every schedule, the answer of an answering candidate whose ANSWER weight is minimum among the answering local
       candidates, or not-found if none answers: mt_min_accept is that relation (executable).  An exact model of the
       schedules is ParTreesModel.v (another work package); the statements here are over any local lookup accepted by
       mt_min_accept.
     * boost::mpi::reduce: any tree over the ranks (MpiModel.rtree / rtree_of).

   Errors the C++ would meet as exceptions or undefined behaviour are explicit: MtRange (trees.at() out of range,
   index.at(e) missing, reverse_index[i] beyond the vector, an edge id without endpoints), MtTree (the SPTree constructor's
   model failed), MtBadOracle. *)
From Coq Require Export ZArith.
From Parmcb Require Export GraphModel GF2Model ForestModel SvaModel LexSPModel FvsModel CandidatesModel TreesModel MpiModel.

Inductive mt_result (A : Type) : Type :=
| MtOk (a : A)
| MtRange
| MtTree
| MtBadOracle.
Arguments MtOk {A} a.
Arguments MtRange {A}.
Arguments MtTree {A}.
Arguments MtBadOracle {A}.

(* ---- std::map<Vertex, std::vector<.>>: an association list with strictly increasing keys ------------------------- *)
(* if (find(s) == end) insert(s, {}); m[s].push_back(a) *)
Fixpoint mt_pv_add {A} (s : nat) (a : A) (m : list (nat * list A)) : list (nat * list A) :=
  match m with
  | [] => [(s, [a])]
  | (x, l) :: r =>
      if Nat.ltb s x then (s, [a]) :: m
      else if Nat.eqb s x then (x, l ++ [a]) :: r
      else (x, l) :: mt_pv_add s a r
  end.

(* for (t : candidate_cycles) ... : the pairs in chunk order *)
Definition mt_pv_group {A} (xs : list (nat * A)) : list (nat * list A) :=
  fold_left (fun m sa => mt_pv_add (fst sa) (snd sa) m) xs [].

Section MpiTrees.
  Variable W : Type.
  Variable w0 : W.
  Variable wadd : W -> W -> W.
  Variable wltb : W -> W -> bool.

  Notation cand := (cand W).
  Notation sp_tree := (sp_tree W).

  (* ---- rank 0: CandidateCycleToSerializableConverter ------------------------------------------------------------ *)

  (* SerializableCandidateCycle(trees.at(cycle.tree()).source(), forest_index(cycle.edge())) *)
  Definition mt_ser (fi : forest_index) (trees : list sp_tree) (c : cand) : option (nat * nat) :=
    match nth_error trees (c_tree c), fi_index fi (c_edge c) with
    | Some t, Some i => Some (st_src t, i)
    | _, _ => None
    end.

  (* for (c : cycles) all_candidate_cycles.push_back(converter(c)) *)
  Fixpoint mt_ser_all (fi : forest_index) (trees : list sp_tree) (cs : list cand) : option (list (nat * nat)) :=
    match cs with
    | [] => Some []
    | c :: r =>
        match mt_ser fi trees c, mt_ser_all fi trees r with
        | Some p, Some l => Some (p :: l)
        | _, _ => None
        end
    end.

  (* ---- rank r: group, rebuild, restricted create_candidate_cycles ------------------------------------------------- *)

  (* Vertex s = t.v; Edge e = forest_index(t.e) *)
  Fixpoint mt_decode (fi : forest_index) (chunk : list (nat * nat)) : option (list (nat * nat)) :=
    match chunk with
    | [] => Some []
    | (s, i) :: r =>
        match fi_edge fi i, mt_decode fi r with
        | Some e, Some l => Some ((s, e) :: l)
        | _, _ => None
        end
    end.

  (* perVertexCandidates *)
  Definition mt_group (fi : forest_index) (chunk : list (nat * nat)) : option (list (nat * list nat)) :=
    match mt_decode fi chunk with
    | Some xs => Some (mt_pv_group xs)
    | None => None
    end.

  (* tree.create_candidate_cycles(begin, end): the loop over the PROVIDED edges; source(e), target(e) = ends g e *)
  Fixpoint mt_create (g : graph) (wts : list W) (id : nat) (t : sp_tree) (tes : list nat) (es : list nat)
    : option (list cand) :=
    match es with
    | [] => Some []
    | e :: r =>
        match ends g e, mt_create g wts id t tes r with
        | Some ab, Some l => Some (cd_of_edge W w0 wadd wts id t tes (e, ab) ++ l)
        | _, _ => None
        end
    end.

  (* for (p : perVertexCandidates) { SPTree tree(trees.size(), g, ..., p.first); trees.push_back(tree);
                                     cycles.insert(end, tree.create_candidate_cycles(p.second.begin(), p.second.end())) }
     `id` = trees.size() on entry *)
  Fixpoint mt_build (g : graph) (wts : list W) (m : list (nat * list nat)) (id : nat)
    : mt_result (list sp_tree * list cand) :=
    match m with
    | [] => MtOk ([], [])
    | (x, es) :: r =>
        match sptree W w0 wadd wltb g wts x with
        | LxOk t =>
            match mt_create g wts id t (cd_tree_edges W t) es with
            | Some cs =>
                match mt_build g wts r (S id) with
                | MtOk (ts, l) => MtOk (t :: ts, cs ++ l)
                | err => err
                end
            | None => MtRange
            end
        | _ => MtTree
        end
    end.

  (* the rank's trees and its candidate vector BEFORE the sort *)
  Definition mt_local (g : graph) (wts : list W) (fi : forest_index) (chunk : list (nat * nat))
    : mt_result (list sp_tree * list cand) :=
    match mt_group fi chunk with
    | Some m => mt_build g wts m 0
    | None => MtRange
    end.

  (* ---- std::sort(cycles, a.weight() < b.weight()) under the arrangement oracle ------------------------------------- *)

  (* no later element is strictly lighter than an earlier one *)
  Fixpoint mt_sortedb (l : list cand) : bool :=
    match l with
    | [] => true
    | c :: r => forallb (fun d => negb (wltb (c_weight d) (c_weight c))) r && mt_sortedb r
    end.

  Definition mt_arrange (l : list cand) (arr : list nat) : list (option cand) := map (nth_error l) arr.

  Fixpoint mt_all_some {A} (l : list (option A)) : option (list A) :=
    match l with
    | [] => Some []
    | Some a :: r => match mt_all_some r with Some r' => Some (a :: r') | None => None end
    | None :: _ => None
    end.

  (* arr is a permutation of the positions 0..|l|-1 and the arranged vector is sorted *)
  Definition mt_sort (l : list cand) (arr : list nat) : mt_result (list cand) :=
    if list_eq_dec Nat.eq_dec (sort_nat arr) (seq 0 (length l)) then
      match mt_all_some (mt_arrange l arr) with
      | Some s => if mt_sortedb s then MtOk s else MtBadOracle
      | None => MtBadOracle
      end
    else MtBadOracle.

  Definition mt_arr_okb (l : list cand) (arr : list nat) : bool :=
    match mt_sort l arr with MtOk _ => true | _ => false end.

  (* ---- ShortestOddCycleLookup<.., false>: the sorted scan, lazily --------------------------------------------------- *)

  (* for (c : cycles) { cc = builder(trees, c, edges, false, _); if (get<2>(cc)) return cc; }  return min; *)
  Fixpoint mt_scan (g : graph) (wts : list W) (trees : list sp_tree) (pars : list (list bool)) (sg : list nat)
           (cs : list cand) : tr_result (option (list nat * W)) :=
    match cs with
    | [] => TrOk None
    | c :: r =>
        match tc_build W w0 wadd g wts trees pars sg c with
        | TrOk (TcFound cy w) => TrOk (Some (cy, w))
        | TrOk TcNot => mt_scan g wts trees pars sg r
        | TrNoNode => TrNoNode | TrRange => TrRange | TrFuel => TrFuel
        end
    end.

  Definition mt_lookup_seq (g : graph) (wts : list W) (trees : list sp_tree) (sorted : list cand) (sg : list nat)
    : tr_result (option (list nat * W)) :=
    match tp_all W g trees sg with
    | TrOk pars => mt_scan g wts trees pars sg sorted
    | TrNoNode => TrNoNode | TrRange => TrRange | TrFuel => TrFuel
    end.

  Definition mt_lres (x : tr_result (option (list nat * W))) : lres W :=
    match x with TrOk b => Some b | _ => None end.

  (* what rank r (chunk, arrangement) hands to the reduce in the phase with witness Sv — sequential flavour *)
  Definition mt_rank_lookup_seq (g : graph) (wts : list W) (fi : forest_index) (arr : list nat)
             (chunk : list (nat * nat)) (k : nat) (Sv : vec) : lres W :=
    match mt_local g wts fi chunk with
    | MtOk (trees, cs) =>
        match mt_sort cs arr with
        | MtOk sorted => mt_lres (mt_lookup_seq g wts trees sorted (indices_to_edges fi Sv))
        | _ => None
        end
    | _ => None
    end.

  (* ---- ShortestOddCycleLookup<.., true>: acceptance ------------------------------------------------------------------ *)

  (* b is "not found" and nothing answers, or the answer of an answering entry and no answering entry has a strictly
     smaller ANSWER weight (equality of weights through the strict order: neither is smaller) *)
  Definition mt_min_accept (l : list (cand * tc_answer W)) (b : option (list nat * W)) : bool :=
    match b with
    | None => forallb (fun x => negb (tl_found W x)) l
    | Some (cy, w) =>
        existsb (fun x => match snd x with
                          | TcFound c' w' => list_eqb c' cy && negb (wltb w' w) && negb (wltb w w')
                          | TcNot => false
                          end) l
        && forallb (fun x => match snd x with TcFound _ w' => negb (wltb w' w) | TcNot => true end) l
    end.

  (* rank r's local answer b is acceptable for the TBB flavour in the phase with witness Sv *)
  Definition mt_rank_accept_tbb (g : graph) (wts : list W) (fi : forest_index) (chunk : list (nat * nat))
             (Sv : vec) (b : option (list nat * W)) : bool :=
    match mt_local g wts fi chunk with
    | MtOk (trees, cs) =>
        match tl_answers W w0 wadd g wts trees cs (indices_to_edges fi Sv) with
        | TrOk l => mt_min_accept l b
        | _ => false
        end
    | _ => false
    end.

  (* ---- the SPMD program ------------------------------------------------------------------------------------------ *)

  (* MpiModel.spmd_trees with a lookup that may depend on the rank (its own sort arrangement / its own schedule) *)
  Definition spmd_trees_ranked (fi : forest_index) (P : nat) (cands : list (nat * nat))
             (lookup : nat -> list (nat * nat) -> nat -> vec -> lres W) (r : nat) : prog (payload W) (rank_result W) :=
    spmd_trees W w0 wadd fi P cands (lookup r) r.

  Inductive mt_run :=
  | MtRun (o : outcome (rank_result W))
  | MtNoIndex                               (* ForestIndex failed (never on simple graphs, C16) *)
  | MtNoCollection                          (* the builder's model ended in an error value *)
  | MtSerError.                             (* trees.at() / index.at() would throw on rank 0 *)

  (* _mcb_sva_trees_mpi for any per-rank local lookup; `picks` = pick oracle of greedy_fvs (FVS builder only) *)
  Definition mcb_sva_trees_mpi_gen (b : tbuilder) (g : graph) (wts : list W) (roots picks : list nat) (P : nat)
             (lookup : forest_index -> nat -> list (nat * nat) -> nat -> vec -> lres W) (rtree_of : nat -> rtree) : mt_run :=
    match create_index g roots with
    | None => MtNoIndex
    | Some fi =>
        match tb_collection W w0 wadd wltb b g wts picks with
        | CdOk (trees, cands) =>
            match mt_ser_all fi trees cands with
            | Some ser => MtRun (run_spmd W wltb fi P rtree_of (spmd_trees_ranked fi P ser (lookup fi)))
            | None => MtSerError
            end
        | _ => MtNoCollection
        end
    end.

  (* mcb_sva_{fvs,iso}_trees_mpi: `arr r` = rank r's sort arrangement *)
  Definition mcb_sva_trees_mpi_seq (b : tbuilder) (g : graph) (wts : list W) (roots picks : list nat) (P : nat)
             (arr : nat -> list nat) (rtree_of : nat -> rtree) : mt_run :=
    mcb_sva_trees_mpi_gen b g wts roots picks P (fun fi r => mt_rank_lookup_seq g wts fi (arr r)) rtree_of.

  (* ---- observables for the correspondence ------------------------------------------------------------------------- *)

  (* rank 0's serialised candidate list *)
  Definition mt_all_pairs (b : tbuilder) (g : graph) (wts : list W) (roots picks : list nat)
    : option (forest_index * list (nat * nat)) :=
    match create_index g roots with
    | None => None
    | Some fi =>
        match tb_collection W w0 wadd wltb b g wts picks with
        | CdOk (trees, cands) =>
            match mt_ser_all fi trees cands with Some ser => Some (fi, ser) | None => None end
        | _ => None
        end
    end.

  (* the unsorted candidate vector of rank r (with the roots of its trees), None on any error *)
  Definition mt_rank_cands (b : tbuilder) (g : graph) (wts : list W) (roots picks : list nat) (P r : nat)
    : option (list sp_tree * list cand) :=
    match mt_all_pairs b g wts roots picks with
    | Some (fi, ser) =>
        match mt_local g wts fi (slice P r ser) with MtOk tc => Some tc | _ => None end
    | None => None
    end.

  (* the run phase by phase, for ANY family of local answers: per phase (witness, the ranks' local answers, what the reduce
     delivers to rank 0); the supports are updated with the delivered cycle exactly as bookkeep does.  With
     local = mt_rank_lookup_seq this is the trace of mcb_sva_trees_mpi_seq; with the answers a run reported it replays
     that run (TBB flavour: each reported answer is then judged with mt_rank_accept_tbb). *)
  Fixpoint mt_trace (fi : forest_index) (P : nat) (rtree_of : nat -> rtree) (local : nat -> nat -> vec -> lres W)
           (ks : list nat) (sup : list vec) : list (vec * list (lres W) * lres W) :=
    match ks with
    | [] => []
    | k :: ks' =>
        let Sv := nth k sup [] in
        let locals := map (fun r => local r k Sv) (seq 0 P) in
        let glob := match reval (payload W) (mpi_min W wltb) (map (encode W fi) locals) (rtree_of k) with
                    | Some x => decode W fi x
                    | None => None
                    end in
        let sup' := match glob with
                    | Some (Some (c, _)) => update_supports sup k (edges_to_indices fi c)
                    | _ => sup
                    end in
        (Sv, locals, glob) :: mt_trace fi P rtree_of local ks' sup'
    end.

  Definition mt_trace_run (fi : forest_index) (P : nat) (rtree_of : nat -> rtree) (local : nat -> nat -> vec -> lres W)
    : list (vec * list (lres W) * lres W) :=
    mt_trace fi P rtree_of local (seq 0 (fi_csd fi)) (map (fun i => [i]) (seq 0 (fi_csd fi))).
End MpiTrees.

(* ---- the exact-domain instances -------------------------------------------------------------------------------- *)
Definition mt_local_Z := mt_local Z 0%Z Z.add Z.ltb.
Definition mt_sort_Z := mt_sort Z Z.ltb.
Definition mt_rank_lookup_seq_Z := mt_rank_lookup_seq Z 0%Z Z.add Z.ltb.
Definition mt_rank_accept_tbb_Z := mt_rank_accept_tbb Z 0%Z Z.add Z.ltb.
Definition mt_all_pairs_Z := mt_all_pairs Z 0%Z Z.add Z.ltb.
Definition mt_rank_cands_Z := mt_rank_cands Z 0%Z Z.add Z.ltb.
Definition mcb_sva_trees_mpi_gen_Z := mcb_sva_trees_mpi_gen Z 0%Z Z.add Z.ltb.
Definition mcb_sva_trees_mpi_seq_Z := mcb_sva_trees_mpi_seq Z 0%Z Z.add Z.ltb.
Definition mt_trace_run_Z := mt_trace_run Z Z.ltb.
