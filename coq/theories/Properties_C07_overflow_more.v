(* Properties_C07_overflow_more.v — C07, clause "no signed integer overflow on valid inputs whose total weight fits the weight
   type", for the code paths that Properties_C07.v (C07_overflow_search / C07_overflow_total: the sequential signed variant) does
   not cover: the tree-based exact variants (sequential and TBB lookup), the approximate variants (sequential and TBB cycle
   builder) and the TBB / MPI flavours of the signed variant.  Only statements; each closed by [exact <lemma>] and followed by
   Print Assumptions (all "Closed under the global context").

   METHOD (as in Properties_C07.v).  The Z models describe the C++ instantiated with `int` weights exactly as long as no sum
   formed with closed_plus / + / += leaves the int range.  OverflowTreesModel.v restates the model functions with a TRACE
   — X_tr returns (result of X, every sum X forms, in order, including sums that are formed and then dropped) — proves that the
   first component IS the existing model (erasure: `fst (X_tr ..) = X ..`), and OverflowTreesProofs1-8.v bound every element
   of the trace.   S = wsum g wts = the sum of all edge weights, wmax = the largest edge weight (wmax <= S),
   N = m - n + c = the number of emitted cycles (N <= m, C07_overflow_dimension_le_m).

   RESULTS                                                                           every sum formed lies in
   1  lex_dijkstra / SPTree, any source          C07_overflow_lex                    [0, S + wmax]: each tentative distance is
                                                                                      d + w(e), d a popped distance in [0, S];
                                                 C07_overflow_sptree_nodes           stored node weights in [0, S];
                                                 C07_overflow_lex_S_refuted          the bound S is FALSE for tentative distances
                                                                                      (the edge back to the parent: path 0-1-2 with
                                                                                      weights 1, 5 forms 6 + 5 = 11 > S = 6)
   2  create_candidate_cycles, all builders      C07_overflow_candidates             [0, S]: w(e) + dist(a) and ... + dist(b) — the sum
                                                 C07_overflow_collection             is formed AFTER the first-in-path filter, the
                                                                                      candidate is a simple cycle (C14); with the trees'
                                                                                      tentative distances: [0, S + wmax]
      CandidateCycleBuilder (with/without limit) C07_overflow_builder                [0, S] at EVERY step of both root-path loops, also
                                                                                      for candidates rejected later (an edge is added only
                                                                                      if it is new: the running cycle_weight is the weight
                                                                                      of a duplicate-free edge list), any trees, any limit
   3  mcb_sva_trees (fvs / iso / horton),        C07_overflow_trees_accept           [0, S + wmax] or a running total in [0, total];
      every accepted run                         C07_overflow_trees_accept_coarse    total = weight of EVERY minimum cycle basis <= N * S
      ... TBB lookup, every schedule,            C07_overflow_trees_tbb              the same, for EVERY value of the identity weight
      arrangement and identity weight            C07_overflow_trees_tbb_coarse       numeric_limits<int>::max: it is only ever COMPARED
                                                                                      (limit test short-circuited by use_weight_limit =
                                                                                      false, `<` in the running minimum and in cycle_min),
                                                                                      never an operand of + — the bounds do not depend
                                                                                      on it.  (On an input with NO cycle in a phase the
                                                                                      C++ would add it: known finding D9c; excluded on
                                                                                      valid inputs by C03_*_trees_tbb.)
   4  parmcb::dijkstra (plain)                   C07_overflow_dijkstra               [0, S_h + wmax_h] on the graph h it runs on
      one dropped edge of the approx. builder    C07_overflow_dropped_cycle          Dijkstra on the spanner: [0, S + wmax]; the
                                                                                      predecessor walk's weight += w(ae) and the final
                                                                                      += w(e): [0, S] (sharper than S + w(e): the cycle is
                                                                                      duplicate-free)
      approx_run, any exact phase                C07_overflow_approx_run             sums of the exact phase, [0, S + wmax], or [0, total];
      approx_mcb_sva_signed (seq. and TBB)       C07_overflow_approx_signed(_tbb)    [0, 2S + 2wmax] or [0, total]; total = weight of the
                                                                                      emitted family <= N * S
   5  mcb_sva_signed_tbb, every schedule         C07_overflow_signed_tbb             [0, 2S + 2wmax] or [0, total] (every search call
      MPI: a rank's local search                 C07_overflow_mpi_local              satisfies the hypotheses of C07_overflow_search: the
                                                                                      limit is the weight of a cycle found before, <= S)

   SUFFICIENT PRECONDITION for `int` weights, per variant (INT_MAX = 2147483647; with "<" instead of "<=" no sum can equal
   the sentinel numeric_limits<int>::max() either):
     tree-based exact (fvs/iso/horton, sequential and TBB)   S + wmax <= INT_MAX  and  weight(MCB) <= INT_MAX;
                                                              implied by  max(2, N) * S <= INT_MAX
     signed exact, sequential / TBB / MPI local searches      2S + 2wmax <= INT_MAX  and  weight(MCB) <= INT_MAX;
                                                              implied by  max(4, N) * S <= INT_MAX                (Properties_C07.v)
     approximate (signed exact phase, sequential and TBB)     2S + 2wmax <= INT_MAX  and  returned total <= INT_MAX;
                                                              implied by  max(4, N) * S <= INT_MAX
   In particular the generators' domain predicate gen.int_domain_ok,  (m + 4) * S <= INT_MAX,  IS sufficient for every
   variant — also for the approximate ones although the emitted family may weigh up to (2k-1) * opt: every emitted cycle is a
   simple cycle of the caller's graph (weight <= S) and there are N <= m of them (C07_overflow_approx_domain_ok; no
   counterexample exists, so there is no C07_overflow_approx_domain_refuted).
   NOT COVERED (stated, not asserted): the whole MPI run (collectives + rank 0's running total) is not traced — only every
   rank's local search is; the returned total is the weight of a minimum cycle basis by C04c_result_fixed, and rank 0 adds
   the same non-negative weights as the sequential loop (C07_overflow_mpi_run_stmt).  The approximate tree-based entry points
   are covered by C07_overflow_approx_run with the exact phase as a parameter (its own sums: item 3 on the spanner). *)
From Coq Require Import List Arith Bool ZArith Permutation.
From Parmcb Require Import GraphModel GF2Model GraphSpec McbSpec ForestModel SvaModel LexSPModel FvsModel CandidatesModel
     TreesModel SchedModel ParTreesModel SpannerModel DijkstraModel ApproxModel ParSignedModel ApproxParModel
     SignedModel SignedZModel MpiModel MpiSignedModel SignedProofs2 Properties_C02_trees
     OverflowProofs1 OverflowProofs3 OverflowProofs4 OverflowTreesModel OverflowTreesProofs1 OverflowTreesProofs2
     OverflowTreesProofs3 OverflowTreesProofs4 OverflowTreesProofs5 OverflowTreesProofs6 OverflowTreesProofs7
     OverflowTreesProofs8.
Import ListNotations.

(* ---- 1. lex_dijkstra / SPTree ------------------------------------------------------------------------------------------ *)

Theorem C07_overflow_lex : forall g wts s, simple_graph g -> positive_weights g wts ->
  fst (lex_dijkstra_tr g wts s) = lex_dijkstra Z 0%Z Z.add Z.ltb g wts s
  /\ fst (sptree_tr g wts s) = sptree_Z g wts s /\ snd (sptree_tr g wts s) = snd (lex_dijkstra_tr g wts s)
  /\ Forall (fun v => exists d e, v = (d + wt wts e)%Z /\ (0 <= d <= wsum g wts)%Z /\ e < ne g) (snd (lex_dijkstra_tr g wts s))
  /\ Forall (fun v => (0 <= v <= wsum g wts + wmax wts)%Z) (snd (lex_dijkstra_tr g wts s))
  /\ (wsum g wts + wmax wts <= 2 * wsum g wts)%Z.
Proof. exact ovt_overflow_lex. Qed.
Print Assumptions C07_overflow_lex.

Theorem C07_overflow_sptree_nodes : forall g wts s t v nd, simple_graph g -> positive_weights g wts ->
  sptree_Z g wts s = LxOk t -> sp_node_of Z t v = Some nd -> (0 <= sn_weight nd <= wsum g wts)%Z.
Proof. exact ovt_overflow_node_weights. Qed.
Print Assumptions C07_overflow_sptree_nodes.

(* the bound [0, S] asked for the tentative distances does not hold: the out-edge back to the parent is combined too *)
Theorem C07_overflow_lex_S_refuted :
  simple_graph ovt_p3 /\ positive_weights ovt_p3 ovt_p3_wts /\ wsum ovt_p3 ovt_p3_wts = 6%Z /\ wmax ovt_p3_wts = 5%Z
  /\ snd (lex_dijkstra_tr ovt_p3 ovt_p3_wts 0) = [1; 6; 11]%Z
  /\ ~ Forall (fun v => (0 <= v <= wsum ovt_p3 ovt_p3_wts)%Z) (snd (lex_dijkstra_tr ovt_p3 ovt_p3_wts 0)).
Proof. exact ovt_lex_S_refuted. Qed.
Print Assumptions C07_overflow_lex_S_refuted.

(* ---- 2. candidates and CandidateCycleBuilder -------------------------------------------------------------------------- *)

Theorem C07_overflow_candidates : forall g wts roots trees cs, simple_graph g -> positive_weights g wts ->
  cycles_of_roots Z 0%Z Z.add Z.ltb g wts roots = CdOk (trees, cs) ->
  fst (cd_cycles_of_trees_tr g wts trees) = cs
  /\ Forall (fun v => (0 <= v <= wsum g wts)%Z) (snd (cd_cycles_of_trees_tr g wts trees))
  /\ Forall (fun c => (0 <= c_weight c <= wsum g wts)%Z) cs.
Proof. exact ovt_overflow_candidates. Qed.
Print Assumptions C07_overflow_candidates.

Theorem C07_overflow_collection : forall b g wts picks, simple_graph g -> positive_weights g wts ->
  fst (tb_collection_tr b g wts picks) = tb_collection Z 0%Z Z.add Z.ltb b g wts picks
  /\ Forall (fun v => (0 <= v <= wsum g wts + wmax wts)%Z) (snd (tb_collection_tr b g wts picks)).
Proof. exact ovt_overflow_collection. Qed.
Print Assumptions C07_overflow_collection.

(* any trees, any parity fields, any candidate, any weight limit *)
Theorem C07_overflow_builder : forall g wts trees pars sg c (use : bool) (lim : Z), positive_weights g wts ->
  fst (tc_build_tr g wts trees pars sg c) = tc_build Z 0%Z Z.add g wts trees pars sg c
  /\ Forall (fun v => (0 <= v <= wsum g wts)%Z) (snd (tc_build_tr g wts trees pars sg c))
  /\ (forall C w, tc_build Z 0%Z Z.add g wts trees pars sg c = TrOk (TcFound C w) -> (0 <= w <= wsum g wts)%Z)
  /\ fst (tc_build_limit_tr g wts trees pars sg c use lim) = tc_build_limit_Z g wts trees pars sg c use lim
  /\ Forall (fun v => (0 <= v <= wsum g wts)%Z) (snd (tc_build_limit_tr g wts trees pars sg c use lim))
  /\ (forall C w, tc_build_limit_Z g wts trees pars sg c use lim = TrOk (TcFound C w) -> (0 <= w <= wsum g wts)%Z).
Proof. exact ovt_overflow_builder. Qed.
Print Assumptions C07_overflow_builder.

(* ---- 3. mcb_sva_trees: every accepted run, sequential and TBB lookup ------------------------------------------------- *)

Theorem C07_overflow_trees_accept :
  forall (b : tbuilder) (g : graph) (wts : list Z) (roots picks : list nat) (cycles : list (list nat)) (total : Z),
  simple_graph g -> positive_weights g wts -> (forall v, v < nv g -> In v roots) ->
  mcb_sva_trees_accept_Z b g wts roots picks cycles = Some total ->
  fst (mcb_sva_trees_replay_tr b g wts roots picks cycles) = mcb_sva_trees_replay_Z b g wts roots picks cycles
  /\ min_cycle_basis g wts cycles /\ total = total_weight wts cycles
  /\ (forall B', min_cycle_basis g wts B' -> total_weight wts B' = total)
  /\ (0 <= total <= Z.of_nat (length cycles) * wsum g wts)%Z
  /\ Forall (fun v => (0 <= v <= wsum g wts + wmax wts)%Z \/ (0 <= v <= total)%Z)
            (snd (mcb_sva_trees_replay_tr b g wts roots picks cycles))
  /\ forall M, (wsum g wts + wmax wts <= M)%Z -> (total <= M)%Z ->
       Forall (fun v => (0 <= v <= M)%Z) (snd (mcb_sva_trees_replay_tr b g wts roots picks cycles)).
Proof. exact ovt_overflow_trees_accept. Qed.
Print Assumptions C07_overflow_trees_accept.

Theorem C07_overflow_trees_accept_coarse :
  forall (b : tbuilder) (g : graph) (wts : list Z) (roots picks : list nat) (cycles : list (list nat)) (total M : Z),
  simple_graph g -> positive_weights g wts -> (forall v, v < nv g -> In v roots) ->
  mcb_sva_trees_accept_Z b g wts roots picks cycles = Some total ->
  (Z.max 2 (Z.of_nat (length cycles)) * wsum g wts <= M)%Z ->
  Forall (fun v => (0 <= v <= M)%Z) (snd (mcb_sva_trees_replay_tr b g wts roots picks cycles)) /\ (total <= M)%Z.
Proof. exact ovt_overflow_trees_accept_coarse. Qed.
Print Assumptions C07_overflow_trees_accept_coarse.

(* the lookup of any phase under any lookup resolution (also for runs that are not accepted): before a run is known to
   succeed the j-th running total is at most j * S *)
Theorem C07_overflow_trees_any_run :
  forall g wts, simple_graph g -> positive_weights g wts ->
  forall b roots picks
         (search : list (sp_tree Z) -> list (cand Z) -> forest_index -> nat -> vec -> phase_result Z * list Z),
  (forall trees cands fi k Sv, Forall (inrange (wsum g wts)) (snd (search trees cands fi k Sv))
                               /\ forall c w, fst (search trees cands fi k Sv) = PFound c w -> inrange (wsum g wts) w) ->
  (forall fi, create_index g roots = Some fi ->
     Forall (fun v => inrange (wsum g wts + wmax wts) v \/ (0 <= v <= Z.of_nat (fi_csd fi) * wsum g wts)%Z)
            (snd (mcb_sva_trees_tr b g wts roots picks search)))
  /\ forall cycles T sup, fst (mcb_sva_trees_tr b g wts roots picks search) = TRun (SvaOk cycles T sup) ->
       Forall (fun v => inrange (wsum g wts + wmax wts) v \/ (0 <= v <= T)%Z) (snd (mcb_sva_trees_tr b g wts roots picks search)).
Proof. exact ovt_trees_tr. Qed.
Print Assumptions C07_overflow_trees_any_run.

(* TBB: for EVERY identity weight wmaxv — the bounds do not mention it: it is never an operand of a sum *)
Theorem C07_overflow_trees_tbb :
  forall (b : tbuilder) (g : graph) (wts : list Z) (roots picks : list nat),
  simple_graph g -> positive_weights g wts -> (forall v, v < nv g -> In v roots) -> ovt_builder_ok b g picks ->
  exists fi trees cands,
    create_index g roots = Some fi /\ tb_collection Z 0%Z Z.add Z.ltb b g wts picks = CdOk (trees, cands) /\
    forall (wmaxv : Z) (bits : list bool) (arr : list nat), pt_valid_arr arr (length cands) = true ->
    exists cycles total sup pos,
      mcb_sva_trees_tbb_Z wmaxv b g wts roots picks arr bits = (PtRun (SvaOk cycles total sup), pos)
      /\ fst (mcb_sva_trees_tbb_tr wmaxv b g wts roots picks arr bits) = (PtRun (SvaOk cycles total sup), pos)
      /\ min_cycle_basis g wts cycles /\ total = total_weight wts cycles
      /\ (forall B', min_cycle_basis g wts B' -> total_weight wts B' = total)
      /\ (0 <= total <= Z.of_nat (length cycles) * wsum g wts)%Z
      /\ Forall (fun v => (0 <= v <= wsum g wts + wmax wts)%Z \/ (0 <= v <= total)%Z)
                (snd (mcb_sva_trees_tbb_tr wmaxv b g wts roots picks arr bits))
      /\ forall M, (wsum g wts + wmax wts <= M)%Z -> (total <= M)%Z ->
           Forall (fun v => (0 <= v <= M)%Z) (snd (mcb_sva_trees_tbb_tr wmaxv b g wts roots picks arr bits)).
Proof. exact ovt_overflow_trees_tbb. Qed.
Print Assumptions C07_overflow_trees_tbb.

Theorem C07_overflow_trees_tbb_coarse :
  forall (b : tbuilder) (g : graph) (wts : list Z) (roots picks : list nat),
  simple_graph g -> positive_weights g wts -> (forall v, v < nv g -> In v roots) -> ovt_builder_ok b g picks ->
  exists fi trees cands,
    create_index g roots = Some fi /\ tb_collection Z 0%Z Z.add Z.ltb b g wts picks = CdOk (trees, cands) /\
    forall (wmaxv : Z) (bits : list bool) (arr : list nat) (M : Z), pt_valid_arr arr (length cands) = true ->
    exists cycles total sup pos,
      mcb_sva_trees_tbb_Z wmaxv b g wts roots picks arr bits = (PtRun (SvaOk cycles total sup), pos)
      /\ has_cycle_space_dimension g (length cycles)
      /\ ((Z.max 2 (Z.of_nat (length cycles)) * wsum g wts <= M)%Z ->
          Forall (fun v => (0 <= v <= M)%Z) (snd (mcb_sva_trees_tbb_tr wmaxv b g wts roots picks arr bits)) /\ (total <= M)%Z).
Proof. exact ovt_overflow_trees_tbb_coarse. Qed.
Print Assumptions C07_overflow_trees_tbb_coarse.

(* one call of the TBB lookup, every pair of schedule trees, every identity weight *)
Theorem C07_overflow_trees_tbb_lookup :
  forall g wts, positive_weights g wts ->
  forall (wmaxv : Z) trees sorted sg (t1 t2 : sched) pars0,
  fst (pt_lookup_sched_tr wmaxv g wts trees sorted sg t1 t2 pars0) = pt_lookup_sched_Z wmaxv g wts trees sorted sg t1 t2 pars0
  /\ Forall (inrange (wsum g wts)) (snd (pt_lookup_sched_tr wmaxv g wts trees sorted sg t1 t2 pars0))
  /\ forall c w pars, fst (pt_lookup_sched_tr wmaxv g wts trees sorted sg t1 t2 pars0) = TrOk ((c, w, true), pars) ->
       inrange (wsum g wts) w.
Proof. exact ovt_overflow_tbb_lookup. Qed.
Print Assumptions C07_overflow_trees_tbb_lookup.

(* ---- 4. the plain Dijkstra and the approximate algorithms ------------------------------------------------------------ *)

Theorem C07_overflow_dijkstra : forall h wts s, simple_graph h -> positive_weights h wts ->
  fst (dijkstra_tr h wts s) = dijkstra Z 0%Z Z.add Z.ltb h wts s
  /\ Forall (fun v => (0 <= v <= wsum h wts + wmax wts)%Z) (snd (dijkstra_tr h wts s)).
Proof. exact ovt_dijkstra_plain_tr. Qed.
Print Assumptions C07_overflow_dijkstra.

Theorem C07_overflow_dropped_cycle : forall g w k scan sp e cyc cw,
  simple_graph g -> positive_weights g w -> Permutation scan (seq 0 (ne g)) ->
  construct_spanner g k scan = SpOk sp -> In e (dropped sp) ->
  dropped_cycle g w sp e = inr (cyc, cw) ->
  fst (dropped_cycle_tr g w sp e) = dropped_cycle g w sp e
  /\ Forall (fun v => (0 <= v <= wsum g w + wmax w)%Z) (snd (dropped_cycle_tr g w sp e))
  /\ (0 <= cw <= wsum g w)%Z /\ NoDup cyc /\ cw = weight w cyc.
Proof. exact ovt_overflow_dropped_cycle. Qed.
Print Assumptions C07_overflow_dropped_cycle.

(* the spanner's own S and wmax are below the caller's *)
Theorem C07_overflow_spanner_sums : forall g w k scan sp,
  simple_graph g -> positive_weights g w -> Permutation scan (seq 0 (ne g)) -> construct_spanner g k scan = SpOk sp ->
  simple_graph (sp_graph sp) /\ positive_weights (sp_graph sp) (spanner_weights w sp)
  /\ (wsum (sp_graph sp) (spanner_weights w sp) <= wsum g w)%Z /\ (wmax (spanner_weights w sp) <= wmax w)%Z.
Proof. exact ovt_overflow_spanner_sums. Qed.
Print Assumptions C07_overflow_spanner_sums.

(* any exact phase whose answer on the spanner is a cycle basis returned with its weight; Pe = what is known about its sums *)
Theorem C07_overflow_approx_run :
  forall (exact_tr : graph -> list Z -> sva_result Z * list Z) (Pe : Z -> Prop) g w k scan cycles total,
  simple_graph g -> positive_weights g w -> Permutation scan (seq 0 (ne g)) ->
  (forall sp cs t sup, construct_spanner g k scan = SpOk sp ->
     fst (exact_tr (sp_graph sp) (spanner_weights w sp)) = SvaOk cs t sup ->
     cycle_basis (sp_graph sp) cs /\ has_cycle_space_dimension (sp_graph sp) (length cs)
     /\ t = total_weight (spanner_weights w sp) cs
     /\ Forall Pe (snd (exact_tr (sp_graph sp) (spanner_weights w sp)))) ->
  fst (approx_run_tr exact_tr g w k scan) = ApproxOk cycles total ->
  total = total_weight w cycles
  /\ has_cycle_space_dimension g (length cycles)
  /\ (0 <= total <= Z.of_nat (length cycles) * wsum g w)%Z
  /\ Forall (fun v => Pe v \/ (0 <= v <= wsum g w + wmax w)%Z \/ (0 <= v <= total)%Z)
            (snd (approx_run_tr exact_tr g w k scan)).
Proof. exact ovt_approx_run_tr. Qed.
Print Assumptions C07_overflow_approx_run.

Theorem C07_overflow_approx_signed : forall g w k scan roots eord,
  simple_graph g -> positive_weights g w -> 1 <= k -> Permutation scan (seq 0 (ne g)) ->
  (forall v, v < nv g -> In v roots) ->
  exists cycles total,
    approx_sva_signed_Z g w k scan roots eord = ApproxOk cycles total
    /\ fst (approx_sva_signed_Z_tr g w k scan roots eord) = approx_sva_signed_Z g w k scan roots eord
    /\ total = total_weight w cycles
    /\ has_cycle_space_dimension g (length cycles) /\ length cycles <= ne g
    /\ (0 <= total <= Z.of_nat (length cycles) * wsum g w)%Z
    /\ Forall (fun v => (0 <= v <= 2 * wsum g w + 2 * wmax w)%Z \/ (0 <= v <= total)%Z)
              (snd (approx_sva_signed_Z_tr g w k scan roots eord))
    /\ (forall M, (2 * wsum g w + 2 * wmax w <= M)%Z -> (total <= M)%Z ->
          Forall (fun v => (0 <= v <= M)%Z) (snd (approx_sva_signed_Z_tr g w k scan roots eord)))
    /\ (forall M, (Z.max 4 (Z.of_nat (length cycles)) * wsum g w <= M)%Z ->
          Forall (fun v => (0 <= v <= M)%Z) (snd (approx_sva_signed_Z_tr g w k scan roots eord)) /\ (total <= M)%Z)
    /\ (forall M, ((Z.of_nat (ne g) + 4) * wsum g w <= M)%Z ->
          Forall (fun v => (0 <= v <= M)%Z) (snd (approx_sva_signed_Z_tr g w k scan roots eord)) /\ (total <= M)%Z).
Proof. exact ovt_overflow_approx_signed. Qed.
Print Assumptions C07_overflow_approx_signed.

Theorem C07_overflow_approx_signed_tbb :
  forall g w k scan roots eord (bits : list bool) (perm1 perm_c perm_w : list nat),
  simple_graph g -> positive_weights g w -> 1 <= k -> Permutation scan (seq 0 (ne g)) ->
  (forall v, v < nv g -> In v roots) ->
  exists cycles total pos,
    approx_sva_signed_tbb_Z g w k scan roots eord bits perm1 perm_c perm_w = (TbbRun (ApproxOk cycles total), pos)
    /\ fst (approx_sva_signed_tbb_Z_tr g w k scan roots eord bits perm1 perm_c perm_w) = (TbbRun (ApproxOk cycles total), pos)
    /\ total = total_weight w cycles
    /\ has_cycle_space_dimension g (length cycles) /\ length cycles <= ne g
    /\ (0 <= total <= Z.of_nat (length cycles) * wsum g w)%Z
    /\ Forall (fun v => (0 <= v <= 2 * wsum g w + 2 * wmax w)%Z \/ (0 <= v <= total)%Z)
              (snd (approx_sva_signed_tbb_Z_tr g w k scan roots eord bits perm1 perm_c perm_w))
    /\ (forall M, (2 * wsum g w + 2 * wmax w <= M)%Z -> (total <= M)%Z ->
          Forall (fun v => (0 <= v <= M)%Z) (snd (approx_sva_signed_tbb_Z_tr g w k scan roots eord bits perm1 perm_c perm_w)))
    /\ (forall M, ((Z.of_nat (ne g) + 4) * wsum g w <= M)%Z ->
          Forall (fun v => (0 <= v <= M)%Z) (snd (approx_sva_signed_tbb_Z_tr g w k scan roots eord bits perm1 perm_c perm_w))
          /\ (total <= M)%Z).
Proof. exact ovt_overflow_approx_signed_tbb. Qed.
Print Assumptions C07_overflow_approx_signed_tbb.

(* the generators' predicate (m + 4) * S <= INT_MAX is sufficient for the approximate total: N <= m emitted simple cycles *)
Theorem C07_overflow_dimension_le_m : forall g N, has_cycle_space_dimension g N -> N <= ne g.
Proof. exact ovt_dimension_le_m. Qed.
Print Assumptions C07_overflow_dimension_le_m.

Theorem C07_overflow_approx_domain_ok : forall g w k scan roots eord,
  simple_graph g -> positive_weights g w -> 1 <= k -> Permutation scan (seq 0 (ne g)) ->
  (forall v, v < nv g -> In v roots) ->
  ((Z.of_nat (ne g) + 4) * wsum g w <= 2147483647)%Z ->
  exists cycles total,
    approx_sva_signed_Z g w k scan roots eord = ApproxOk cycles total
    /\ Forall (fun v => (0 <= v <= 2147483647)%Z) (snd (approx_sva_signed_Z_tr g w k scan roots eord))
    /\ (total <= 2147483647)%Z.
Proof. exact ovt_overflow_approx_domain_ok. Qed.
Print Assumptions C07_overflow_approx_domain_ok.

(* ---- 5. the TBB and MPI flavours of the signed variant ---------------------------------------------------------------- *)

Theorem C07_overflow_signed_tbb :
  forall (g : graph) (wts : list Z) (roots eord : list nat) (bits : list bool) (perm : list nat),
  simple_graph g -> positive_weights g wts -> (forall v, v < nv g -> In v roots) ->
  exists cycles total sup pos,
    mcb_sva_signed_tbb_Z g wts roots eord bits perm = (SvaOk cycles total sup, pos)
    /\ fst (mcb_sva_signed_tbb_Z_tr g wts roots eord bits perm) = (SvaOk cycles total sup, pos)
    /\ min_cycle_basis g wts cycles /\ has_cycle_space_dimension g (length cycles)
    /\ total = total_weight wts cycles
    /\ (forall B', min_cycle_basis g wts B' -> total_weight wts B' = total)
    /\ (0 <= total <= Z.of_nat (length cycles) * wsum g wts)%Z
    /\ Forall (fun v => (0 <= v <= 2 * wsum g wts + 2 * wmax wts)%Z \/ (0 <= v <= total)%Z)
              (snd (mcb_sva_signed_tbb_Z_tr g wts roots eord bits perm))
    /\ forall M, (2 * wsum g wts + 2 * wmax wts <= M)%Z -> (total <= M)%Z ->
         Forall (fun v => (0 <= v <= M)%Z) (snd (mcb_sva_signed_tbb_Z_tr g wts roots eord bits perm)).
Proof. exact ovt_overflow_signed_tbb. Qed.
Print Assumptions C07_overflow_signed_tbb.

(* one call of OddCycleFinder::find at any stream position, any witness *)
Theorem C07_overflow_signed_tbb_find : forall g wts, simple_graph g -> positive_weights g wts ->
  forall eord bits fi Sv pos,
  fst (par_find_tr eord bits g wts fi Sv pos) = ParSignedModel.find Z 0%Z Z.add Z.ltb eord bits g wts fi Sv pos
  /\ Forall (inrange (2 * wsum g wts + 2 * wmax wts)) (snd (par_find_tr eord bits g wts fi Sv pos))
  /\ ovt_goodacc g wts (fst (fst (par_find_tr eord bits g wts fi Sv pos))).
Proof. exact ovt_overflow_signed_tbb_find. Qed.
Print Assumptions C07_overflow_signed_tbb_find.

(* MPI: the local search of rank r (any world size P, any per-rank sort key), any witness *)
Theorem C07_overflow_mpi_local : forall g wts, simple_graph g -> positive_weights g wts ->
  forall P ord fi r Sv,
  fst (mpi_signed_local_tr g wts P ord fi r Sv) = mpi_signed_local g wts P ord fi r Sv
  /\ Forall (inrange (2 * wsum g wts + 2 * wmax wts)) (snd (mpi_signed_local_tr g wts P ord fi r Sv))
  /\ forall c w, fst (mpi_signed_local_tr g wts P ord fi r Sv) = Some (Some (c, w)) -> (0 <= w <= wsum g wts)%Z.
Proof. exact ovt_mpi_local_tr. Qed.
Print Assumptions C07_overflow_mpi_local.

(* STATED, NOT PROVED (no traced model of the SPMD scheduler MpiModel.run): every sum formed by any rank during a whole MPI
   run of the signed variant is a sum of a local search or a running total of rank 0 below the returned total *)
Definition C07_overflow_mpi_run_stmt : Prop :=
  forall (run_tr : graph -> list Z -> list nat -> nat -> (nat -> rtree) -> list Z) g wts roots P rtree_of,
    simple_graph g -> positive_weights g wts -> (forall v, v < nv g -> In v roots) -> 1 <= P ->
    exists total, (forall B, min_cycle_basis g wts B -> total_weight wts B = total) /\
      Forall (fun v => (0 <= v <= 2 * wsum g wts + 2 * wmax wts)%Z \/ (0 <= v <= total)%Z) (run_tr g wts roots P rtree_of).

(* ---- non-vacuity --------------------------------------------------------------------------------------------------------
   the theta graph of Properties_C02_trees.v (paths of weight 3, 4, 5 between 0 and 1; S = 12, wmax = 3, optimum 15 > S):
   the hypotheses hold, the run of the real mcb_sva_fvs_trees is accepted, and the 31 sums of the traced replay are computed
   (13 tentative distances of the one tree, 2 x 2 candidate sums, 8 builder sums and the running total 7 in phase 0,
   4 builder sums and the running total 15 in phase 1): all <= S + wmax = 15 or <= total = 15 *)
Example C07_overflow_trees_nonvacuous :
  simple_graph c02t_g /\ positive_weights c02t_g c02t_w /\ (forall v, v < nv c02t_g -> In v c02t_roots) /\
  wsum c02t_g c02t_w = 12%Z /\ wmax c02t_w = 3%Z /\
  (Z.max 2 2 * wsum c02t_g c02t_w <= 2147483647)%Z /\
  mcb_sva_trees_accept_Z TbFvs c02t_g c02t_w c02t_roots [1] [[0;1;2;3;4];[0;1;5;6;7]] = Some 15%Z /\
  snd (mcb_sva_trees_replay_tr TbFvs c02t_g c02t_w c02t_roots [1] [[0;1;2;3;4];[0;1;5;6;7]])
  = [1; 2; 3; 3; 3; 4; 5; 4; 4; 4; 4; 5; 5;  4; 7; 4; 8;  3; 4; 5; 7; 3; 4; 5; 8;  7;  3; 4; 5; 8;  15]%Z /\
  (* the isometric variant on the same input: 158 sums, the largest is the returned total *)
  mcb_sva_trees_accept_Z TbIso c02t_g c02t_w c02t_roots [] [[0;1;2;3;4];[0;1;5;6;7]] = Some 15%Z /\
  length (snd (mcb_sva_trees_replay_tr TbIso c02t_g c02t_w c02t_roots [] [[0;1;2;3;4];[0;1;5;6;7]])) = 158 /\
  fold_right Z.max 0%Z (snd (mcb_sva_trees_replay_tr TbIso c02t_g c02t_w c02t_roots [] [[0;1;2;3;4];[0;1;5;6;7]])) = 15%Z /\
  (* TBB lookup, identity weight INT_MAX, all-ones schedule stream, the arrangement "heavier candidate first" *)
  mcb_sva_trees_tbb_tr 2147483647 TbFvs c02t_g c02t_w c02t_roots [1] [1;0] [true]
  = (PtRun (SvaOk [[0;1;2;3;4];[0;1;5;6;7]] 15%Z [[0];[0;1]]), 6,
     [1; 2; 3; 3; 3; 4; 5; 4; 4; 4; 4; 5; 5; 4; 7; 4; 8;  3; 4; 5; 8; 3; 4; 5; 7;  7;  3; 4; 5; 8;  15]%Z).
Proof.
  split; [reflexivity|]. split; [split; [reflexivity|repeat constructor]|].
  split; [exact (proj1 (proj2 (proj2 C02_trees_nonvacuous)))|].
  destruct ovt_theta_sums as [ES EW]. rewrite ES, EW. split; [reflexivity|]. split; [reflexivity|]. split; [discriminate|].
  destruct ovt_theta_fvs_trace as [E1 E2]. split; [exact E1|]. split; [exact E2|].
  destruct ovt_theta_iso_trace as (E3 & E4 & E5). split; [exact E3|]. split; [exact E4|]. split; [exact E5|].
  exact ovt_theta_tbb_trace.
Qed.

(* K4 with unit weights (the instance of C07_overflow_nonvacuous): lex_dijkstra and the plain Dijkstra from vertex 0 form the
   same 9 tentative distances; Horton's collection: 99 sums, the largest is the returned total 9 = 3 triangles *)
Example C07_overflow_k4_nonvacuous :
  simple_graph sg_k4 /\ positive_weights sg_k4 sg_k4_wts /\ (forall v, v < nv sg_k4 -> In v sg_k4_roots) /\
  wsum sg_k4 sg_k4_wts = 6%Z /\ wmax sg_k4_wts = 1%Z /\
  snd (lex_dijkstra_tr sg_k4 sg_k4_wts 0) = [1; 1; 1; 2; 2; 2; 2; 2; 2]%Z /\
  snd (dijkstra_tr sg_k4 sg_k4_wts 0) = [1; 1; 1; 2; 2; 2; 2; 2; 2]%Z /\
  mcb_sva_trees_accept_Z TbHorton sg_k4 sg_k4_wts sg_k4_roots [] [[0;1;3];[0;2;4];[1;2;5]] = Some 9%Z /\
  length (snd (mcb_sva_trees_replay_tr TbHorton sg_k4 sg_k4_wts sg_k4_roots [] [[0;1;3];[0;2;4];[1;2;5]])) = 99 /\
  fold_right Z.max 0%Z (snd (mcb_sva_trees_replay_tr TbHorton sg_k4 sg_k4_wts sg_k4_roots [] [[0;1;3];[0;2;4];[1;2;5]])) = 9%Z.
Proof.
  split; [exact sg_k4_simple|]. split; [exact sg_k4_positive|]. split; [exact sg_k4_roots_cover|].
  destruct ovt_k4_lex_trace as (E1 & E2 & ES & EW). split; [exact ES|]. split; [exact EW|]. split; [exact E1|]. split; [exact E2|].
  exact ovt_k4_horton_trace.
Qed.

(* the approximate algorithms on the graph of C05_nonvacuous (K4 + pendant edge + 5-cycle, k = 2; S = 21, wmax = 5,
   m = 12: (m + 4) * S = 336): sequential and TBB builder return 24 with the largest sum 24; the builder alone with the
   exact phase's answer supplied forms the 65 sums listed *)
Example C07_overflow_approx_nonvacuous :
  simple_graph ovt_ag /\ positive_weights ovt_ag ovt_aw /\ Permutation ovt_ascan (seq 0 (ne ovt_ag))
  /\ (forall v, v < nv ovt_ag -> In v ovt_aroots)
  /\ wsum ovt_ag ovt_aw = 21%Z /\ wmax ovt_aw = 5%Z
  /\ ((Z.of_nat (ne ovt_ag) + 4) * wsum ovt_ag ovt_aw <= 2147483647)%Z
  /\ fst (approx_sva_signed_Z_tr ovt_ag ovt_aw 2 ovt_ascan ovt_aroots ovt_aeord)
     = ApproxOk [[10; 7; 8; 9; 11]; [1; 0; 3]; [2; 0; 4]; [2; 1; 5]] 24%Z
  /\ length (snd (approx_sva_signed_Z_tr ovt_ag ovt_aw 2 ovt_ascan ovt_aroots ovt_aeord)) = 79
  /\ fold_right Z.max 0%Z (snd (approx_sva_signed_Z_tr ovt_ag ovt_aw 2 ovt_ascan ovt_aroots ovt_aeord)) = 24%Z
  /\ fst (approx_sva_signed_tbb_Z_tr ovt_ag ovt_aw 2 ovt_ascan ovt_aroots ovt_aeord [true] [] [] [])
     = (TbbRun (ApproxOk [[10; 7; 8; 9; 11]; [2; 1; 5]; [2; 0; 4]; [1; 0; 3]] 24%Z), 12)
  /\ fold_right Z.max 0%Z (snd (approx_sva_signed_tbb_Z_tr ovt_ag ovt_aw 2 ovt_ascan ovt_aroots ovt_aeord [true] [] [] [])) = 24%Z
  /\ approx_run_tr (fun _ _ => (SvaOk [[0;1;2;3;4]] 5%Z [], [])) ovt_ag ovt_aw 2 ovt_ascan
     = (ApproxOk [[6; 0; 1; 10; 7]; [1; 0; 3]; [2; 0; 4]; [2; 1; 5]] 20%Z,
        [5;
         1; 2; 3; 3; 4; 5; 5; 5; 9; 6; 6; 7; 7; 8; 8; 9; 13;  1; 2;  4;  4;
         1; 2; 3; 3; 4; 5; 5; 5; 9; 6; 6; 7; 7; 8; 8; 9; 13;  2; 3;  5;  9;
         1; 2; 3; 3; 4; 5; 5; 5; 9; 6; 6; 7; 7; 8; 8; 9; 13;  2; 3;  6;  15;
         20]%Z).
Proof.
  destruct ovt_approx_instance as (H1 & H2 & H3 & H4 & ES & EW).
  split; [exact H1|]. split; [exact H2|]. split; [exact H3|]. split; [exact H4|]. split; [exact ES|]. split; [exact EW|].
  split; [rewrite ES; discriminate|].
  destruct ovt_approx_trace as (E1 & E2 & E3 & E4 & E5).
  split; [exact E1|]. split; [exact E2|]. split; [exact E3|]. split; [exact E4|]. split; [exact E5|].
  exact ovt_approx_builder_trace.
Qed.
