(* MpiProofs5.v — C04c for the four tree variants at the level of the candidate list (no exact model of the
   per-chunk lookup exists): IF the lookup built from any contiguous piece cands[lo, lo+len) of rank 0's candidate
   list returns a minimum of that piece (`lookup_premise`: an optimum per candidate position, `acc_ok` over the
   piece, and every odd simple cycle is covered by a candidate that is not heavier — Horton/FVS sufficiency, B7),
   THEN for every P >= 1 and all reduction trees the scatter in ceil-stride chunks + per-rank lookup + reduce gives
   rank 0 a minimum cycle basis and leaves the other ranks silent.  The same premise with (lo, len) = (0, |cands|) is
   what the sequential tree variants need. *)
From Coq Require Import List Arith Bool ZArith Lia Permutation.
From Parmcb Require Import GraphSpec GraphLemmas GF2Proofs McbSpec ForestProofs SvaSpec SvaProofs
  RefModel RefProofs2 RefProofs3 RefProofs4
  MpiModel MpiProofs1 MpiProofs2 MpiProofs3 MpiProofs4.
Import ListNotations.

Section Trees.
  Variables (g : graph) (wts : list Z) (roots : list nat) (fi : forest_index).
  Hypothesis Hs : simple_graph g.
  Hypothesis Hpw : positive_weights g wts.
  Hypothesis Hr : forall v, v < nv g -> In v roots.
  Hypothesis Hci : create_index g roots = Some fi.
  Variable P : nat.
  Variable rtree_of : nat -> rtree.
  Variable cands : list (nat * nat).
  Variable lookup : list (nat * nat) -> nat -> vec -> lres Z.
  Hypothesis HP : 1 <= P.
  Hypothesis Htree : forall k, rtree_ok P (rtree_of k).

  Definition lookup_premise : Prop :=
    forall k Sv, canonical_witness fi Sv ->
      exists opt : nat -> option Z,
        complete g wts fi Sv opt (length cands)
        /\ forall lo len, lo + len <= length cands ->
             exists b, lookup (firstn len (skipn lo cands)) k Sv = Some b
                       /\ acc_ok g wts fi Sv opt (fun i => lo <= i < lo + len) b.

  Hypothesis Hprem : lookup_premise.

  Notation act := (trees_act Z P cands lookup).
  Notation search := (glob_search Z Z.ltb fi act P rtree_of).

  Lemma trees_locals k Sv opt :
    (forall lo len, lo + len <= length cands ->
       exists b, lookup (firstn len (skipn lo cands)) k Sv = Some b
                 /\ acc_ok g wts fi Sv opt (fun i => lo <= i < lo + len) b) ->
    forall r, r < P ->
      exists b, lookup (slice P r cands) k Sv = Some b /\ acc_ok g wts fi Sv opt (in_slice (length cands) P r) b.
  Proof.
    intros H r _. unfold slice.
    set (total := length cands). set (lo := slice_lo total P r). set (len := slice_len total P r).
    destruct (Nat.le_gt_cases (lo + len) total) as [Hle|Hgt].
    - destruct (H lo len Hle) as (b & Eb & Hacc). exists b. split; [exact Eb|].
      eapply acc_ok_ext; [|exact Hacc]. intros j; cbn beta. unfold in_slice. fold total lo len. lia.
    - assert (Hlen : len = 0) by (unfold len, slice_len in *; fold lo in Hgt |- *; lia).
      rewrite Hlen. destruct (H 0 0 (Nat.le_0_l _)) as (b & Eb & Hacc). cbn [firstn] in *.
      exists b. split; [exact Eb|]. eapply acc_ok_ext; [|exact Hacc].
      intros j; cbn beta. unfold in_slice. fold total lo len. lia.
  Qed.

  Lemma trees_search_min : search_min_c g wts fi search.
  Proof.
    intros k Sv c w HS E. destruct (Hprem k Sv HS) as (opt & Hcomp & Hrange).
    unfold glob_search, glob in E. cbn [trees_act local_of] in E.
    match type of E with match ?x with _ => _ end = _ => destruct x as [[[c0 w0]|]|] eqn:Ex; try discriminate end.
    injection E as <- <-.
    apply (reduce_slices_min g wts roots fi Hs Hr Hci Sv opt P (length cands)
             (fun r => lookup (slice P r cands) k Sv) (rtree_of k) c0 w0 HP (Htree k) Hcomp).
    - apply trees_locals. exact Hrange.
    - exact Ex.
  Qed.

  Lemma trees_search_total : search_total fi search.
  Proof.
    intros k Sv SS Sne Sb.
    destruct (rf_odd_cycle_exists g roots fi Sv Hs Hr Hci SS Sne Sb) as (D & HD & HoD).
    destruct (rf_simple_cycle_edges g D HD) as (SD & VD).
    destruct (Hprem k Sv (conj SS (conj Sne Sb))) as (opt & Hcomp & Hrange).
    assert (HoD' : oddS fi Sv D).
    { unfold oddS. rewrite (rf_bridge g roots fi Sv D Hs Hr Hci SS Sb SD VD). exact HoD. }
    destruct (reduce_slices_found g wts fi Sv opt P (length cands) (fun r => lookup (slice P r cands) k Sv)
                (rtree_of k) D HP (Htree k) Hcomp (trees_locals k Sv opt Hrange) HD HoD') as (c & w & E).
    unfold glob_search, glob. cbn [trees_act local_of]. rewrite E. eexists; eexists; reflexivity.
  Qed.

  Theorem mpi_trees_min :
    exists cycles total sup rest,
      run_spmd Z Z.ltb fi P rtree_of (spmd_trees Z 0%Z Z.add fi P cands lookup)
      = Done (RankOut cycles total sup None :: rest)
      /\ length rest = P - 1 /\ Forall (silent 0%Z fi) rest
      /\ min_cycle_basis g wts cycles /\ total = total_weight wts cycles
      /\ has_cycle_space_dimension g (length cycles).
  Proof.
    assert (Htree' : forall k r, In r (rleaves (rtree_of k)) -> r < P)
      by (intros k r; apply rtree_ok_lt, Htree).
    destruct (mpi_trees_no_deadlock Z 0%Z Z.add Z.ltb fi P rtree_of cands lookup HP Htree')
      as (r0 & rest & Erun & Hlen & Hsil & Esva).
    pose proof trees_search_min as Hmin. pose proof trees_search_total as Htot.
    pose proof (search_min_c_sound g wts fi search Hs Hmin) as Hsnd.
    destruct (sva_generic_total_c g roots fi Z 0%Z Z.add select_none search Hs Hr Hci
                (select_none_ok (fi_csd fi)) Hsnd Htot) as (cycles & total & sup & Hrun).
    destruct (sva_generic_min_c g wts roots fi select_none search cycles total sup Hs Hpw Hr Hci
                (select_none_ok (fi_csd fi)) Hmin Hrun) as (Hmcb & Hw & Hdim).
    rewrite Hrun in Esva.
    assert (E0 : r0 = RankOut cycles total sup None).
    { destruct r0 as [cy tw sp [[[|] kk]|]|kk]; cbn [to_sva] in Esva; try discriminate.
      injection Esva as -> -> ->. reflexivity. }
    subst r0. exists cycles, total, sup, rest. repeat (split; [assumption|]). assumption.
  Qed.
End Trees.

(* the lookup premise is satisfiable: the weighted triangle with its single candidate *)
Lemma tri_lookup_premise : lookup_premise tri_g tri_w tri_fi tri_cands tri_lookup.
Proof.
  intros k Sv HS. destruct (tri_facts Sv HS) as (-> & Hc & Hmin).
  exists (fun i => if Nat.eqb i 0 then Some 9%Z else None). split.
  - intros D HD HoD. exists 0, 9%Z. split; [cbn; lia|]. split; [reflexivity|apply Hmin; assumption].
  - intros lo len Hle. cbn [tri_cands length] in Hle.
    destruct len as [|len].
    + exists None. split; [reflexivity|]. cbn [acc_ok]. intros i Hi. lia.
    + assert (lo = 0 /\ len = 0) as (-> & ->) by lia.
      exists (Some ([0; 1; 2], 9%Z)). split; [reflexivity|]. cbn [acc_ok snd]. split; [exact Hc|]. split.
      * exists 0. split; [lia|reflexivity].
      * intros i o Hi. assert (i = 0) as -> by lia. cbn. intros E; injection E as <-. lia.
Qed.
