(* IsoProofsA1.v — the nodes of the cycle graph of ISOCyclesBuilder (model: CandidatesModel.iso_cycles).
   Setting: horton_cycles_Z g wts = CdOk (trees, allcycles), cv = filter cd_is_circuit allcycles (the vertices of cycles_g).
     isoa_node_walk     the closed walk of a node: P(x,u) ++ e ++ reverse P(x,v), e = (u, v) in stored orientation
     isoa_node          every node has a node walk; it is a simple cycle walk, represented from its root        (A1)
     isoa_node_walk_fun the node walk is unique
     isoa_node_data     nodes of both endpoints exist in the tree of the node; the recorded weight
     isoa_node_exists   every representation P(x,a) ++ e ++ reverse P(x,b) that is a simple cycle walk is the node walk
                        of a node, found by cd_lookup                                                           (A2)
   Prefix isoa_. *)
From Coq Require Import List Arith Bool Lia ZArith Permutation.
From Parmcb Require Import GraphModel GF2Model GraphSpec GraphLemmas HeapModel LexSPModel FvsModel CandidatesModel
     LexSPProofsHeap LexSPProofs LexSPProofsDist LexSPProofsCons1 LexSPProofsCons2 LexSPProofsCons5
     CandidatesProofs CandidatesProofsZ IsoProofs0.
Import ListNotations.

Definition isoa_node_walk (g : graph) (wts : list Z) (trees : list (sp_tree Z)) (c : cand Z) (x : nat)
           (w : list (nat * nat)) : Prop :=
  exists t u v pa pb, nth_error trees (c_tree c) = Some t /\ c_tree c = x /\ sptree_Z g wts x = LxOk t /\
    ends g (c_edge c) = Some (u, v) /\ c12_twalk g t pa u /\ c12_twalk g t pb v /\
    w = pa ++ (c_edge c, v) :: lc_rev x pb.

Lemma isoa_cz_rev : forall p x, cz_rev x p = lc_rev x p.
Proof.
  induction p as [|[e y] p IH]; intros x; cbn [cz_rev lc_rev]; [reflexivity|]. rewrite IH. reflexivity.
Qed.

Lemma isoa_joins_fun g e a b a' b' : joins g e a b -> joins g e a' b' ->
  (a = a' /\ b = b') \/ (a = b' /\ b = a').
Proof. unfold joins. intros [H|H] [H'|H']; rewrite H in H'; inversion H'; auto. Qed.

(* cd_lookup: the last position carrying the key *)
Lemma isoa_lookup_spec (x e : nat) : forall (cv : list (cand Z)) i found,
  (exists c, In c cv /\ c_tree c = x /\ c_edge c = e) ->
  exists j c', cd_lookup Z x e cv i found = Some (i + j) /\ nth_error cv j = Some c' /\ c_tree c' = x /\ c_edge c' = e.
Proof.
  assert (Hno : forall (cv : list (cand Z)) i found,
            (forall c, In c cv -> ~ (c_tree c = x /\ c_edge c = e)) -> cd_lookup Z x e cv i found = found).
  { induction cv as [|c cv IH]; intros i found Hn; cbn [cd_lookup]; [reflexivity|].
    rewrite IH by (intros c' Hc'; apply Hn; right; exact Hc').
    destruct (Nat.eqb_spec (c_tree c) x) as [E1|E1]; cbn [andb]; [|reflexivity].
    destruct (Nat.eqb_spec (c_edge c) e) as [E2|E2]; [|reflexivity].
    exfalso. apply (Hn c); [left; reflexivity|auto]. }
  assert (Hdec : forall (cv : list (cand Z)),
            (exists c, In c cv /\ c_tree c = x /\ c_edge c = e) \/ (forall c, In c cv -> ~ (c_tree c = x /\ c_edge c = e))).
  { induction cv as [|c cv IH]; [right; intros c []|].
    destruct IH as [[c' [H1 H2]]|IH]; [left; exists c'; split; [right; exact H1|exact H2]|].
    destruct (Nat.eq_dec (c_tree c) x) as [E1|E1].
    - destruct (Nat.eq_dec (c_edge c) e) as [E2|E2].
      + left. exists c. split; [left; reflexivity|auto].
      + right. intros c' [<-|Hc']; [tauto|apply IH; exact Hc'].
    - right. intros c' [<-|Hc']; [tauto|apply IH; exact Hc']. }
  induction cv as [|c cv IH]; intros i found [c0 [Hin [H1 H2]]]; [destruct Hin|].
  cbn [cd_lookup]. destruct (Hdec cv) as [Hex|Hn].
  - destruct (IH (S i) (if Nat.eqb (c_tree c) x && Nat.eqb (c_edge c) e then Some i else found) Hex)
      as [j [c' [Hl [Hn [E1 E2]]]]].
    exists (S j), c'. rewrite Hl. split; [f_equal; lia|]. cbn [nth_error]. auto.
  - rewrite Hno by exact Hn. destruct Hin as [<-|Hin]; [|exfalso; apply (Hn c0 Hin); auto].
    rewrite H1, H2, !Nat.eqb_refl. cbn [andb]. exists 0, c. rewrite Nat.add_0_r. cbn [nth_error]. auto.
Qed.

Section Nodes.
  Variable g : graph.
  Variable wts : list Z.
  Hypothesis Hsg : simple_graph g.
  Hypothesis Hpos : positive_weights g wts.
  Variable trees : list (sp_tree Z).
  Variable allcycles : list (cand Z).
  Hypothesis Hh : horton_cycles_Z g wts = CdOk (trees, allcycles).

  Notation cv := (filter (cd_is_circuit Z g trees) allcycles).

  (* ---- the trees ------------------------------------------------------------------------------------------- *)
  Lemma isoa_F2 : Forall2 (fun s t => sptree_Z g wts s = LxOk t) (seq 0 (nv g)) trees.
  Proof. unfold horton_cycles_Z, horton_cycles in Hh. apply cd_cycles_of_roots_inv in Hh as [F _]. exact F. Qed.

  Lemma isoa_allcycles : allcycles = cd_cycles_of_trees Z 0%Z Z.add g wts trees.
  Proof. unfold horton_cycles_Z, horton_cycles in Hh. apply cd_cycles_of_roots_inv in Hh as [_ E]. exact E. Qed.

  Lemma isoa_tree_nth s t : nth_error trees s = Some t <-> s < nv g /\ sptree_Z g wts s = LxOk t.
  Proof.
    split.
    - intros Hn. destruct (proj2 (cd_Forall2_nth _ _ _ isoa_F2 s) t Hn) as [r [Hr Ht]].
      assert (Hlt : s < nv g).
      { assert (Hs : nth_error (seq 0 (nv g)) s <> None) by (rewrite Hr; discriminate).
        apply nth_error_Some in Hs. rewrite seq_length in Hs. exact Hs. }
      rewrite gl_seq_nth_error in Hr by exact Hlt. injection Hr as <-. auto.
    - intros [Hlt Ht].
      assert (Hs : nth_error (seq 0 (nv g)) s = Some s) by (rewrite gl_seq_nth_error by exact Hlt; reflexivity).
      destruct (proj1 (cd_Forall2_nth _ _ _ isoa_F2 s) s Hs) as [t' [Hn Ht']].
      rewrite Ht in Ht'. injection Ht' as <-. exact Hn.
  Qed.

  Lemma isoa_tree_exists x : x < nv g -> exists t, nth_error trees x = Some t /\ sptree_Z g wts x = LxOk t.
  Proof.
    intros Hx. destruct (lz_C12_dist g wts x Hsg Hpos Hx) as [t [Ht _]]. exists t. split; [|exact Ht].
    apply isoa_tree_nth. auto.
  Qed.

  Lemma isoa_tree_src x t : sptree_Z g wts x = LxOk t -> st_src t = x /\ x < nv g.
  Proof. apply cd_sptree_src. Qed.

  Lemma isoa_tree_spec x t : sptree_Z g wts x = LxOk t -> lx_tree_spec Z 0%Z Z.add g wts x t.
  Proof. apply lx_sptree_spec. Qed.

  (* c12_twalk is the tree walk from x *)
  Lemma isoa_twalk_iff x t p y : sptree_Z g wts x = LxOk t ->
    (c12_twalk g t p y <-> lx_twalk Z g (st_nodes t) x p y).
  Proof. intros Ht. unfold c12_twalk. destruct (isoa_tree_src x t Ht) as [-> _]. reflexivity. Qed.

  Lemma isoa_twalk_uniq x t p p' y : sptree_Z g wts x = LxOk t -> c12_twalk g t p y -> c12_twalk g t p' y -> p = p'.
  Proof.
    intros Ht Hp Hp'. apply (proj1 (isoa_twalk_iff x t _ _ Ht)) in Hp. apply (proj1 (isoa_twalk_iff x t _ _ Ht)) in Hp'.
    exact (cd_twalk_uniq Z 0%Z Z.add g wts x t (isoa_tree_spec x t Ht) p y p' Hp Hp').
  Qed.

  Lemma isoa_twalk_walk x t p y : sptree_Z g wts x = LxOk t -> c12_twalk g t p y -> walk g x p y.
  Proof.
    intros Ht Hp. apply (proj1 (isoa_twalk_iff x t _ _ Ht)) in Hp.
    exact (lx_twalk_walk Z g (st_nodes t) x p y (ts_len _ _ _ _ _ _ _ (isoa_tree_spec x t Ht)) Hp).
  Qed.

  Lemma isoa_twalk_lexmin x t p y : sptree_Z g wts x = LxOk t -> c12_twalk g t p y -> lc_lexmin g wts x p y.
  Proof. intros Ht Hp. eapply lc_tree_lexmin; eauto. Qed.

  (* a lexmin walk is the tree walk *)
  Lemma isoa_lexmin_twalk x t p y : sptree_Z g wts x = LxOk t -> lc_lexmin g wts x p y -> c12_twalk g t p y.
  Proof.
    intros Ht Hp. pose proof (iso_lexmin_walk g wts x p y Hp) as Hw.
    destruct (isoa_tree_src x t Ht) as [_ Hx].
    destruct (lz_C12_dist g wts x Hsg Hpos Hx) as [t' [Ht' [Hok [Hnode _]]]].
    rewrite Ht in Ht'. injection Ht' as <-.
    assert (Hy : sp_node_of Z t y <> None) by (apply Hnode; exists p; exact Hw).
    destruct (sp_node_of Z t y) as [nd|] eqn:End; [|contradiction].
    destruct (c12_chain _ _ _ _ Hok y nd End) as [q [Hq _]].
    rewrite (lc_lexmin_unique g wts Hsg Hpos p q x y Hp (isoa_twalk_lexmin x t q y Ht Hq)). exact Hq.
  Qed.

  Lemma isoa_twalk_node x t p y : sptree_Z g wts x = LxOk t -> c12_twalk g t p y -> sp_node_of Z t y <> None.
  Proof. intros Ht Hp. unfold c12_twalk in Hp. exact (lx_twalk_end Z g _ _ _ _ Hp). Qed.

  Lemma isoa_twalk_nil x t : sptree_Z g wts x = LxOk t -> c12_twalk g t [] x.
  Proof.
    intros Ht. apply (isoa_twalk_iff x t _ _ Ht). apply ltw_nil.
    destruct (cd_root_node Z 0%Z Z.add g wts x t (isoa_tree_spec x t Ht)) as [nd [H1 _]]. rewrite H1. discriminate.
  Qed.

  Lemma isoa_twalk_root x t p : sptree_Z g wts x = LxOk t -> c12_twalk g t p x -> p = [].
  Proof. intros Ht Hp. exact (isoa_twalk_uniq x t p [] x Ht Hp (isoa_twalk_nil x t Ht)). Qed.

  (* first labels *)
  Lemma isoa_first_root x t : sptree_Z g wts x = LxOk t -> sp_first Z t x = x.
  Proof. intros Ht. exact (ts_first_root _ _ _ _ _ _ _ (isoa_tree_spec x t Ht)). Qed.

  Lemma isoa_first_hd x t e z q y : sptree_Z g wts x = LxOk t -> c12_twalk g t ((e, z) :: q) y -> sp_first Z t y = z.
  Proof.
    intros Ht Hp. apply (proj1 (isoa_twalk_iff x t _ _ Ht)) in Hp.
    assert (Hne : (e, z) :: q <> []) by discriminate.
    pose proof (cd_first_hd Z 0%Z Z.add g wts x t (isoa_tree_spec x t Ht) _ y Hp Hne) as H.
    cbn [cd_hdv] in H. injection H as H. auto.
  Qed.

  Lemma isoa_first_ne_root x t v : sptree_Z g wts x = LxOk t -> v <> x -> sp_node_of Z t v <> None -> sp_first Z t v <> x.
  Proof.
    intros Ht Hv Hn. pose proof (isoa_tree_spec x t Ht) as Hspec.
    destruct (ts_first _ _ _ _ _ _ _ Hspec v Hv Hn) as [e [q Hq]].
    apply lx_twalk_front in Hq as [[Hc _]|[e' [c [q' [nd [Heq [_ [_ [Ho _]]]]]]]]]; [discriminate|].
    injection Heq as <- <- <-. apply lx_opposite_joins in Ho.
    destruct (gl_simple_joins g e x (sp_first Z t v) Hsg Ho) as (_ & _ & Hne). auto.
  Qed.

  (* ---- A1: the nodes ----------------------------------------------------------------------------------------- *)
  Lemma isoa_cv_In c : In c cv <->
    In c allcycles /\ cd_is_circuit Z g trees c = true.
  Proof. apply filter_In. Qed.

  Lemma isoa_cand c : In c cv -> exists t, nth_error trees (c_tree c) = Some t /\ sptree_Z g wts (c_tree c) = LxOk t /\
    cd_is_cand Z 0%Z Z.add g wts (c_tree c) t c.
  Proof.
    intros Hc. apply isoa_cv_In in Hc as [Hc _]. rewrite isoa_allcycles in Hc.
    apply cd_cycles_of_trees_In in Hc as [t [Hn Hcand]]. exists t. split; [exact Hn|]. split; [|exact Hcand].
    apply isoa_tree_nth in Hn. tauto.
  Qed.

  Theorem isoa_node c : In c cv ->
    exists x w, isoa_node_walk g wts trees c x w /\ x < nv g /\ iso_cycle_walk g x w /\ iso_rep g wts x w.
  Proof.
    intros Hc. destruct (isoa_cand c Hc) as [t [Hn [Ht Hcand]]].
    set (x := c_tree c) in *.
    destruct (isoa_tree_src x t Ht) as [Hsrc Hx].
    destruct (cz_candidate_cycle g wts x t Hsg Hpos (isoa_tree_spec x t Ht) x c Hcand)
      as (a & b & pa & pb & C & He & Hpa & Hpb & _ & _ & _ & _ & Hw & HndE & HndV & _ & _ & _).
    rewrite isoa_cz_rev in Hw, HndE, HndV.
    apply (proj2 (isoa_twalk_iff x t _ _ Ht)) in Hpa. apply (proj2 (isoa_twalk_iff x t _ _ Ht)) in Hpb.
    exists x, (pa ++ (c_edge c, b) :: lc_rev x pb). split; [|split; [exact Hx|split]].
    - exists t, a, b, pa, pb. auto 10.
    - split; [exact Hw|]. split; [exact HndV|]. split; [exact HndE|]. destruct pa; discriminate.
    - exists pa, (c_edge c), a, b, pb. split; [left; exact He|].
      split; [eapply isoa_twalk_lexmin; eauto|]. split; [eapply isoa_twalk_lexmin; eauto|reflexivity].
  Qed.

  Lemma isoa_node_walk_fun c x w x' w' :
    isoa_node_walk g wts trees c x w -> isoa_node_walk g wts trees c x' w' -> x = x' /\ w = w'.
  Proof.
    intros (t & u & v & pa & pb & Hn & Hx & Ht & He & Hpa & Hpb & ->)
           (t' & u' & v' & pa' & pb' & Hn' & Hx' & Ht' & He' & Hpa' & Hpb' & ->).
    subst x' x. split; [reflexivity|]. rewrite Hn in Hn'. injection Hn' as <-. rewrite He in He'. injection He' as <- <-.
    rewrite (isoa_twalk_uniq _ t pa pa' u Ht Hpa Hpa'), (isoa_twalk_uniq _ t pb pb' v Ht Hpb Hpb'). reflexivity.
  Qed.

  Lemma isoa_node_data c : In c cv ->
    exists t a b na nb, nth_error trees (c_tree c) = Some t /\ ends g (c_edge c) = Some (a, b) /\
      sp_node_of Z t a = Some na /\ sp_node_of Z t b = Some nb /\
      c_weight c = Z.add (Z.add (lx_wt Z 0%Z wts (c_edge c)) (sn_weight na)) (sn_weight nb).
  Proof.
    intros Hc. destruct (isoa_cand c Hc) as [t [Hn [_ [_ (a & b & na & nb & He & _ & Ha & Hb & _ & Hw)]]]].
    exists t, a, b, na, nb. auto.
  Qed.
  (* ---- A2: every represented simple cycle walk is a node ------------------------------------------------------ *)

  (* (i) the closing edge of a simple closed walk over two tree walks is no tree edge *)
  Lemma isoa_not_tree_edge x t e a b pa pb : sptree_Z g wts x = LxOk t -> joins g e a b ->
    c12_twalk g t pa a -> c12_twalk g t pb b -> ~ In e (wedges pa) -> ~ In e (wedges pb) ->
    ~ In e (cd_tree_edges Z t).
  Proof.
    intros Ht Hj Hpa Hpb Hea Heb Hin. pose proof (isoa_tree_spec x t Ht) as Hspec.
    unfold cd_tree_edges in Hin. apply in_flat_map in Hin as [o [Ho He]].
    destruct o as [nd|]; [|destruct He]. destruct (sn_pred nd) as [e'|] eqn:Ep; [|destruct He].
    destruct He as [->|[]]. apply (In_nth _ _ None) in Ho as [y [_ Hy]].
    assert (Hys : y <> x).
    { intros ->. destruct (ts_root _ _ _ _ _ _ _ Hspec) as [ndr [Hr1 [Hr2 _]]]. unfold sp_node_of in Hr1.
      rewrite Hy in Hr1. injection Hr1 as <-. congruence. }
    destruct (ts_nonroot _ _ _ _ _ _ _ Hspec y nd Hy Hys) as [e' [u [Hp' [Hou _]]]].
    rewrite Ep in Hp'. injection Hp' as <-.
    pose proof (lx_opposite_joins g e y u Hou) as Hj'.
    apply (proj1 (isoa_twalk_iff x t _ _ Ht)) in Hpa. apply (proj1 (isoa_twalk_iff x t _ _ Ht)) in Hpb.
    destruct (isoa_joins_fun g e a b u y Hj Hj') as [[-> ->]|[-> ->]].
    - assert (Hpb' : lx_twalk Z g (st_nodes t) x (pa ++ [(e, y)]) y) by (eapply ltw_snoc; eauto).
      pose proof (cd_twalk_uniq Z 0%Z Z.add g wts x t Hspec _ _ _ Hpb Hpb') as ->.
      apply Heb. rewrite lc_wedges_app. apply in_or_app. right. left. reflexivity.
    - assert (Hpa' : lx_twalk Z g (st_nodes t) x (pb ++ [(e, y)]) y) by (eapply ltw_snoc; eauto).
      pose proof (cd_twalk_uniq Z 0%Z Z.add g wts x t Hspec _ _ _ Hpa Hpa') as ->.
      apply Hea. rewrite lc_wedges_app. apply in_or_app. right. left. reflexivity.
  Qed.

  Lemma isoa_walk_nil_inv x y : walk g x [] y -> y = x.
  Proof. intros H. inversion H; subst. reflexivity. Qed.

  (* (ii) the first labels of the two ends differ *)
  Lemma isoa_firsts_differ x t e a b pa pb : sptree_Z g wts x = LxOk t -> joins g e a b ->
    c12_twalk g t pa a -> c12_twalk g t pb b -> NoDup (wverts (pa ++ (e, b) :: lc_rev x pb)) ->
    sp_first Z t a <> sp_first Z t b.
  Proof.
    intros Ht Hj Hpa Hpb Hnd.
    pose proof (isoa_twalk_walk x t pa a Ht Hpa) as Hwa. pose proof (isoa_twalk_walk x t pb b Ht Hpb) as Hwb.
    destruct (gl_simple_joins g e a b Hsg Hj) as (_ & _ & Hab).
    destruct pa as [|[e1 z1] qa].
    - apply isoa_walk_nil_inv in Hwa. subst a. rewrite (isoa_first_root x t Ht). intros Hf. symmetry in Hf. revert Hf.
      apply (isoa_first_ne_root x t b Ht); [auto|]. eapply isoa_twalk_node; eauto.
    - destruct pb as [|[e2 z2] qb].
      + apply isoa_walk_nil_inv in Hwb. subst b. rewrite (isoa_first_root x t Ht).
        apply (isoa_first_ne_root x t a Ht); [auto|]. eapply isoa_twalk_node; eauto.
      + rewrite (isoa_first_hd x t e1 z1 qa a Ht Hpa), (isoa_first_hd x t e2 z2 qb b Ht Hpb). intros ->.
        rewrite lc_wverts_app in Hnd.
        apply (lc_nodup_app_disj _ _ z2 Hnd).
        * rewrite lc_wverts_cons. left. reflexivity.
        * rewrite lc_wverts_cons. apply (lc_rev_verts g _ x b Hwb z2). right. rewrite lc_wverts_cons. left. reflexivity.
  Qed.

  Theorem isoa_node_exists x e a b pa pb : x < nv g -> ends g e = Some (a, b) ->
    lc_lexmin g wts x pa a -> lc_lexmin g wts x pb b ->
    iso_cycle_walk g x (pa ++ (e, b) :: lc_rev x pb) ->
    exists j c, cd_lookup Z x e cv 0 None = Some j /\ nth_error cv j = Some c /\ c_tree c = x /\ c_edge c = e /\
                isoa_node_walk g wts trees c x (pa ++ (e, b) :: lc_rev x pb).
  Proof.
    intros Hx He Hla Hlb (Hw & HndV & HndE & _).
    destruct (isoa_tree_exists x Hx) as [t [Hn Ht]].
    pose proof (isoa_lexmin_twalk x t pa a Ht Hla) as Hpa. pose proof (isoa_lexmin_twalk x t pb b Ht Hlb) as Hpb.
    assert (Hj : joins g e a b) by (left; exact He).
    rewrite lc_wedges_app, lc_wedges_cons, (lc_rev_wedges pb x) in HndE.
    assert (Hea : ~ In e (wedges pa)).
    { intros Hin. apply (lc_nodup_app_disj _ _ e HndE Hin). left. reflexivity. }
    assert (Heb : ~ In e (wedges pb)).
    { intros Hin. apply lc_nodup_app_r in HndE. inversion HndE as [|? ? Hnot _]; subst. apply Hnot.
      apply -> in_rev. exact Hin. }
    pose proof (isoa_not_tree_edge x t e a b pa pb Ht Hj Hpa Hpb Hea Heb) as Hnt.
    pose proof (isoa_firsts_differ x t e a b pa pb Ht Hj Hpa Hpb HndV) as Hfd.
    pose proof (isoa_twalk_node x t pa a Ht Hpa) as Hna. pose proof (isoa_twalk_node x t pb b Ht Hpb) as Hnb.
    destruct (sp_node_of Z t a) as [na|] eqn:Ena; [|contradiction].
    destruct (sp_node_of Z t b) as [nb|] eqn:Enb; [|contradiction].
    set (c0 := {| c_tree := x; c_edge := e;
                  c_weight := Z.add (Z.add (lx_wt Z 0%Z wts e) (sn_weight na)) (sn_weight nb) |}).
    assert (Hc0 : In c0 cv).
    { apply isoa_cv_In. split.
      - rewrite isoa_allcycles. apply cd_cycles_of_trees_In. exists t. cbn [c0 c_tree]. split; [exact Hn|].
        split; [reflexivity|]. cbn [c_edge c_weight]. exists a, b, na, nb.
        split; [exact He|]. split; [apply gl_memb_false; exact Hnt|]. auto.
      - unfold cd_is_circuit. cbn [c0 c_tree c_edge]. rewrite Hn, He.
        destruct (Nat.eqb_spec (sp_first Z t a) (sp_first Z t b)); [contradiction|reflexivity]. }
    destruct (isoa_lookup_spec x e cv 0 None) as [j [c' [Hl [Hj' [E1 E2]]]]].
    { exists c0. split; [exact Hc0|]. split; reflexivity. }
    exists j, c'. split; [exact Hl|]. split; [exact Hj'|]. split; [exact E1|]. split; [exact E2|].
    exists t, a, b, pa, pb. rewrite E1, E2. auto 10.
  Qed.
End Nodes.

Print Assumptions isoa_node.
Print Assumptions isoa_node_walk_fun.
Print Assumptions isoa_node_data.
Print Assumptions isoa_node_exists.
