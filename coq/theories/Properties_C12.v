(* Properties_C12.v — C12: shortest-path trees are exact (and mutually consistent).
   Model: LexSPModel.v (lex_dijkstra over the exact 4-ary indirect heap, SPTree::initialize, first-in-path
   labels); vocabulary: c12_tree_ok / c12_twalk in LexSPProofsDist.v, walk / connected / weight in GraphSpec.v.

   Proved here, for EVERY simple graph, weight list and source:
     C12_tree_partial  (no assumption on the weights) the model never runs out of fuel, never leaves the vertex
                       range and never dereferences a missing node; if it returns a tree, then nodes exist only for
                       vertices connected to s, the predecessor chain of every node is the unique tree walk from s
                       (so the predecessor edges form a tree rooted at s), it is a walk of g whose weight is the
                       stored value, first(s) = s and first(v) is the root's child on v's tree walk, and children
                       are listed in vertex order.  (`_partial`: optimality and absence of the queue.update failure
                       are in C12_dist, consistency is not proved.)
     C12_dist          positive weights: the tree IS returned, a vertex has a node iff it is connected to s, and
                       the stored value is <= the weight of every walk from s (and attained by the tree walk): it
                       is the true shortest distance.
     C12_all           the trees of all sources (as the cycle builders construct them) exist.
   NOT proved: C12_consistent_statement (reversal symmetry and sub-path closure across sources) — kept as a
   Definition; covered by the exact correspondence plus the independent judge of tools/props/c12.py. *)
From Coq Require Import List Arith ZArith.
From Parmcb Require Import GraphModel GraphSpec LexSPModel LexSPProofs LexSPProofsDist.
Import ListNotations.

Theorem C12_tree_partial : forall g wts s,
  simple_graph g -> s < nv g ->
  match sptree_Z g wts s with
  | LxOk t => c12_tree_ok g wts s t
  | LxNotInHeap => True
  | _ => False
  end.
Proof. exact lz_C12_tree_partial. Qed.
Print Assumptions C12_tree_partial.

Theorem C12_dist : forall g wts s,
  simple_graph g -> positive_weights g wts -> s < nv g ->
  exists t, sptree_Z g wts s = LxOk t /\ c12_tree_ok g wts s t /\
            (forall v, sp_node_of Z t v <> None <-> connected g s v) /\
            (forall v nd p, sp_node_of Z t v = Some nd -> walk g s p v ->
                            (sn_weight nd <= weight wts (wedges p))%Z).
Proof. exact lz_C12_dist. Qed.
Print Assumptions C12_dist.

Theorem C12_all : forall g wts,
  simple_graph g -> positive_weights g wts ->
  exists ts, sptrees_all_Z g wts = LxOk ts /\
             Forall2 (fun s t => sptree_Z g wts s = LxOk t) (seq 0 (nv g)) ts.
Proof. exact lz_C12_all. Qed.
Print Assumptions C12_all.

(* the hypotheses are satisfiable on a graph with ties: the unit-weight 4-cycle 0-1-2-3-0 plus a pendant vertex and
   an isolated one; from source 0 the two shortest paths to 2 tie and the one through vertex 1 is chosen *)
Definition c12_ex_g : graph := {| nv := 6; ge := [(0, 1); (1, 2); (2, 3); (3, 0); (2, 4)] |}.
Definition c12_ex_w : list Z := [1; 1; 1; 1; 2]%Z.

Example C12_nonvacuous :
  simple_graph c12_ex_g /\ positive_weights c12_ex_g c12_ex_w /\
  exists t, sptree_Z c12_ex_g c12_ex_w 0 = LxOk t /\
            option_map (@sn_weight Z) (sp_node_of Z t 4) = Some 4%Z /\
            sp_first Z t 4 = 1 /\ sp_parent Z c12_ex_g t 2 = Some 1 /\ sp_node_of Z t 5 = None.
Proof.
  split; [reflexivity|]. split; [split; [reflexivity|repeat constructor]|].
  eexists. split; [vm_compute; reflexivity|]. vm_compute. repeat split.
Qed.
