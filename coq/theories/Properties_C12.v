(* Properties_C12.v — C12: shortest-path trees are exact (and mutually consistent).
   Model: LexSPModel.v (lex_dijkstra over the exact 4-ary indirect heap, SPTree::initialize, first-in-path
   labels); vocabulary: c12_tree_ok / c12_twalk in LexSPProofsDist.v, walk / connected / weight in GraphSpec.v.

   Proved here, for EVERY simple graph, weight list and source:
     C12_tree_partial  (no assumption on the weights) the model never runs out of fuel, never leaves the vertex
                       range and never dereferences a missing node; if it returns a tree, then nodes exist only for
                       vertices connected to s, the predecessor chain of every node is the unique tree walk from s
                       (so the predecessor edges form a tree rooted at s), it is a walk of g whose weight is the
                       stored value, first(s) = s and first(v) is the root's child on v's tree walk, and children
                       are listed in vertex order.  (`_partial`: optimality and absence of the queue.update failure
                       are in C12_dist, consistency is not proved.)
     C12_dist          positive weights: the tree IS returned, a vertex has a node iff it is connected to s, and
                       the stored value is <= the weight of every walk from s (and attained by the tree walk): it
                       is the true shortest distance.
     C12_all           the trees of all sources (as the cycle builders construct them) exist.
   Cross-source consistency (positive weights; proofs in LexSPProofsCons1..5.v), at the end of this file:
     C12_tree_is_lexmin      the tree walk from the source s to v is a shortest s-v walk whose label (weight, number
                             of edges, vertex set; order lc_LT = LexDistanceCompare on labels of simple paths) is not
                             above the label of any shortest s-v walk; such a walk is unique (C12_lexmin_unique).
     C12_consistent_reverse  the tree walk u -> v (in the tree of u) is the tree walk v -> u (in the tree of v)
                             backwards: same edges in reverse order (and the same vertices).
     C12_consistent_subpath  every sub-walk of a tree walk is the tree walk between its endpoints, in the tree of
                             its first vertex.
     C12_consistent          = LexSPProofsDist.C12_consistent_statement (the two clauses together). *)
From Coq Require Import List Arith ZArith.
From Parmcb Require Import GraphModel GraphSpec LexSPModel LexSPProofs LexSPProofsDist.
From Parmcb Require Import LexSPProofsCons1 LexSPProofsCons2 LexSPProofsCons5.
Import ListNotations.

Theorem C12_tree_partial : forall g wts s,
  simple_graph g -> s < nv g ->
  match sptree_Z g wts s with
  | LxOk t => c12_tree_ok g wts s t
  | LxNotInHeap => True
  | _ => False
  end.
Proof. exact lz_C12_tree_partial. Qed.
Print Assumptions C12_tree_partial.

Theorem C12_dist : forall g wts s,
  simple_graph g -> positive_weights g wts -> s < nv g ->
  exists t, sptree_Z g wts s = LxOk t /\ c12_tree_ok g wts s t /\
            (forall v, sp_node_of Z t v <> None <-> connected g s v) /\
            (forall v nd p, sp_node_of Z t v = Some nd -> walk g s p v ->
                            (sn_weight nd <= weight wts (wedges p))%Z).
Proof. exact lz_C12_dist. Qed.
Print Assumptions C12_dist.

Theorem C12_all : forall g wts,
  simple_graph g -> positive_weights g wts ->
  exists ts, sptrees_all_Z g wts = LxOk ts /\
             Forall2 (fun s t => sptree_Z g wts s = LxOk t) (seq 0 (nv g)) ts.
Proof. exact lz_C12_all. Qed.
Print Assumptions C12_all.

(* the hypotheses are satisfiable on a graph with ties: the unit-weight 4-cycle 0-1-2-3-0 plus a pendant vertex and
   an isolated one; from source 0 the two shortest paths to 2 tie and the one through vertex 1 is chosen *)
Definition c12_ex_g : graph := {| nv := 6; ge := [(0, 1); (1, 2); (2, 3); (3, 0); (2, 4)] |}.
Definition c12_ex_w : list Z := [1; 1; 1; 1; 2]%Z.

Example C12_nonvacuous :
  simple_graph c12_ex_g /\ positive_weights c12_ex_g c12_ex_w /\
  exists t, sptree_Z c12_ex_g c12_ex_w 0 = LxOk t /\
            option_map (@sn_weight Z) (sp_node_of Z t 4) = Some 4%Z /\
            sp_first Z t 4 = 1 /\ sp_parent Z c12_ex_g t 2 = Some 1 /\ sp_node_of Z t 5 = None.
Proof.
  split; [reflexivity|]. split; [split; [reflexivity|repeat constructor]|].
  eexists. split; [vm_compute; reflexivity|]. vm_compute. repeat split.
Qed.

(* ---- consistency across sources ---------------------------------------------------------------------------
   Vocabulary (LexSPProofsCons1.v): lc_pl wts x p = the label (lz_sum wts p, length p, x :: wverts p) of the walk p
   from x; lc_LT = the lexicographic order on labels: weight, then number of edges, then "the least vertex of the
   symmetric difference of the two vertex sets belongs to the smaller one" — on labels of simple paths this is
   exactly LexDistanceCompare (LexSPProofsCons1.lc_ltb_LT); lc_shortest g wts x p y = p is an x-y walk of minimum
   weight; lc_lexmin g wts x p y = p is shortest and no shortest x-y walk has a label lc_LT-below that of p;
   lc_rev x p = the walk p from x, backwards (same edges in reverse order, each paired with the vertex it now
   reaches). *)

Theorem C12_tree_is_lexmin : forall g wts s t p v,
  simple_graph g -> positive_weights g wts ->
  sptree_Z g wts s = LxOk t -> c12_twalk g t p v -> lc_lexmin g wts s p v.
Proof. exact lc_tree_lexmin. Qed.
Print Assumptions C12_tree_is_lexmin.

Theorem C12_lexmin_unique : forall g wts,
  simple_graph g -> positive_weights g wts ->
  forall p q x y, lc_lexmin g wts x p y -> lc_lexmin g wts x q y -> p = q.
Proof. exact lc_lexmin_unique. Qed.
Print Assumptions C12_lexmin_unique.

Theorem C12_consistent_reverse : forall g wts,
  simple_graph g -> positive_weights g wts ->
  forall u v tu tv p q,
    sptree_Z g wts u = LxOk tu -> sptree_Z g wts v = LxOk tv ->
    c12_twalk g tu p v -> c12_twalk g tv q u ->
    q = lc_rev u p /\ wedges q = rev (wedges p).
Proof. exact lc_C12_reverse. Qed.
Print Assumptions C12_consistent_reverse.

Theorem C12_consistent_subpath : forall g wts,
  simple_graph g -> positive_weights g wts ->
  forall u v tu p, sptree_Z g wts u = LxOk tu -> c12_twalk g tu p v ->
  forall p1 p2 p3 x y tx, p = p1 ++ p2 ++ p3 -> walk g u p1 x -> walk g x p2 y ->
                          sptree_Z g wts x = LxOk tx -> c12_twalk g tx p2 y.
Proof. exact lc_C12_subpath. Qed.
Print Assumptions C12_consistent_subpath.

Theorem C12_consistent : C12_consistent_statement.
Proof. exact lc_C12_consistent. Qed.
Print Assumptions C12_consistent.

(* non-vacuity on a graph with ties: the unit-weight 4-cycle 0-1-2-3-0.  The two shortest 0-2 walks tie in weight and
   number of edges; both trees choose the one through vertex 1, the walk 2 -> 0 of tree 2 is the walk 0 -> 2 of tree 0
   backwards, and the sub-walk 1 -> 2 of the latter is the tree walk of tree 1 *)
Definition c12_c4_g : graph := {| nv := 4; ge := [(0, 1); (1, 2); (2, 3); (3, 0)] |}.
Definition c12_c4_w : list Z := [1; 1; 1; 1]%Z.

Example C12_consistent_nonvacuous :
  simple_graph c12_c4_g /\ positive_weights c12_c4_g c12_c4_w /\
  exists t0 t2 t1,
    sptree_Z c12_c4_g c12_c4_w 0 = LxOk t0 /\ sptree_Z c12_c4_g c12_c4_w 2 = LxOk t2 /\
    sptree_Z c12_c4_g c12_c4_w 1 = LxOk t1 /\
    c12_twalk c12_c4_g t0 [(0, 1); (1, 2)] 2 /\ c12_twalk c12_c4_g t2 [(1, 1); (0, 0)] 0 /\
    wedges [(1, 1); (0, 0)] = rev (wedges [(0, 1); (1, 2)]) /\
    [(1, 1); (0, 0)] = lc_rev 0 [(0, 1); (1, 2)] /\
    c12_twalk c12_c4_g t1 [(1, 2)] 2.
Proof.
  split; [reflexivity|]. split; [split; [reflexivity|repeat constructor]|].
  eexists. eexists. eexists. split; [vm_compute; reflexivity|]. split; [vm_compute; reflexivity|].
  split; [vm_compute; reflexivity|].
  unfold c12_twalk. cbn [st_nodes st_src].
  split; [|split; [|split; [reflexivity|split; [reflexivity|]]]].
  - change [(0, 1); (1, 2)] with (([] ++ [(0, 1)]) ++ [(1, 2)]).
    eapply ltw_snoc; [eapply ltw_snoc; [apply ltw_nil; discriminate| | |]| | |]; reflexivity.
  - change [(1, 1); (0, 0)] with (([] ++ [(1, 1)]) ++ [(0, 0)]).
    eapply ltw_snoc; [eapply ltw_snoc; [apply ltw_nil; discriminate| | |]| | |]; reflexivity.
  - change [(1, 2)] with ([] ++ [(1, 2)]).
    eapply ltw_snoc; [apply ltw_nil; discriminate| | |]; reflexivity.
Qed.
