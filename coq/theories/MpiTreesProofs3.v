(* MpiTreesProofs3.v — the MPI tree variants as a whole (MpiTreesModel.mcb_sva_trees_mpi_gen / _seq):
     mw_ranked_run / mw_ranked_no_deadlock   the SPMD program with a rank-dependent lookup never deadlocks (any weight type,
                                             any lookup, any reduction trees): C04b for spmd_trees_ranked
     mw_local_collection                     C04c_local_collection: every rank's rebuilt collection is its slice of rank 0's,
                                             hence their union is rank 0's collection
     mw_result                               for every family of local lookups that answer a local minimum (mv_local_min),
                                             rank 0 ends with a minimum cycle basis — from sufficiency of rank 0's collection,
                                             the local collection lemma and the min-over-a-partition argument of MpiProofs3
     mw_result_seq / mw_result_accept        the sequential flavour under every family of valid sort arrangements; any
                                             flavour whose local answers are accepted by mt_min_accept (TBB, every schedule)
   Prefix mw_. *)
From Coq Require Import List Arith Bool Lia ZArith Permutation.
From Parmcb Require Import GraphModel GraphSpec GraphLemmas GF2Model GF2Proofs McbSpec ForestModel ForestProofs
     LexSPModel FvsModel FvsProofs CandidatesModel CandidatesProofs CandidatesProofsZ SvaModel SvaSpec SvaProofs
     RefModel RefProofs2 RefProofs3 RefProofs4 TreesModel TreesProofs2 TreesProofs3 TreesProofs4 TreesProofs5
     IsoProofsF2
     MpiModel MpiProofs1 MpiProofs2 MpiProofs3 MpiProofs4 MpiTreesModel MpiTreesProofs1 MpiTreesProofs2.
Import ListNotations.

(* ---- lock step (any weight type) -------------------------------------------------------------------------------------- *)
Section Ranked.
  Variable W : Type.
  Variable w0 : W.
  Variable wadd : W -> W -> W.
  Variable wltb : W -> W -> bool.
  Variable fi : forest_index.
  Variable P : nat.
  Variable rtree_of : nat -> rtree.
  Variable cands : list (nat * nat).
  Variable lookup : nat -> list (nat * nat) -> nat -> vec -> lres W.

  Hypothesis HP : 1 <= P.
  Hypothesis Htree : forall k r, In r (rleaves (rtree_of k)) -> r < P.

  (* after the scatter rank r looks up in ITS chunk with ITS lookup *)
  Definition mw_act (r k : nat) (Sv : vec) : action W := ARed (lookup r (slice P r cands) k Sv).

  Theorem mw_ranked_run :
    run_spmd W wltb fi P rtree_of (spmd_trees_ranked W w0 wadd fi P cands lookup)
    = Done (map (fun r => finish W (rank_state W w0 fi
                                      (phases0 W wadd wltb fi mw_act P rtree_of (seq 0 (fi_csd fi)) (init_state W w0 fi)) r))
                (seq 0 P)).
  Proof.
    unfold run_spmd, spmd_fuel.
    set (mine := fun r => if Nat.eqb r 0 then chunks W P cands else []).
    set (cont := fun (r : nat) (m : payload W) =>
           match m with
           | PCand cs => phases W wadd fi r (fun k Sv => ARed (lookup r cs k Sv)) (seq 0 (fi_csd fi)) (init_state W w0 fi)
           | _ => Ret (RankProtocol 0)
           end).
    change (spmd_trees_ranked W w0 wadd fi P cands lookup) with (fun r => Scatter 0 (mine r) (cont r)).
    replace (2 * fi_csd fi + 3) with (S (2 * fi_csd fi + 2)) by lia.
    rewrite (seq_P P HP) at 1. cbn [map MpiModel.run].
    rewrite <- (map_cons (fun r => Scatter 0 (mine r) (cont r)) 0 (seq 1 (P - 1))), <- (seq_P P HP).
    rewrite all_scatter_map, nth_error_map_seq by lia.
    change (mine 0) with (chunks W P cands). unfold chunks. rewrite !map_length, seq_length, Nat.eqb_refl.
    rewrite combine_map_map, map_map. cbn [fst snd]. unfold cont.
    rewrite (map_ext_in _ (fun r => phases W wadd fi r (mw_act r) (seq 0 (fi_csd fi))
                                           (rank_state W w0 fi (init_state W w0 fi) r))).
    2:{ intros r _. unfold rank_state. destruct (Nat.eqb r 0); reflexivity. }
    apply run_phases.
    - exact HP.
    - intros r k Sv _. reflexivity.
    - exact Htree.
    - rewrite seq_length. lia.
  Qed.

  Theorem mw_ranked_no_deadlock :
    exists r0 rest,
      run_spmd W wltb fi P rtree_of (spmd_trees_ranked W w0 wadd fi P cands lookup) = Done (r0 :: rest)
      /\ length rest = P - 1 /\ Forall (silent w0 fi) rest
      /\ to_sva W r0 = sva_run W w0 wadd select_none (glob_search W wltb fi mw_act P rtree_of) fi.
  Proof.
    rewrite mw_ranked_run. rewrite (seq_P P HP). cbn [map]. eexists; eexists. split; [reflexivity|].
    split; [rewrite map_length, seq_length; reflexivity|]. split.
    - apply Forall_forall. intros x Hx. apply in_map_iff in Hx as (r & <- & Hr). apply in_seq in Hr.
      unfold rank_state. destruct (Nat.eqb_spec r 0); [lia|]. reflexivity.
    - cbn [rank_state Nat.eqb]. apply spmd_plain_rank0.
  Qed.
End Ranked.

(* ---- the result (exact domain) ---------------------------------------------------------------------------------------- *)
Section Result.
  Variables (g : graph) (wts : list Z) (roots : list nat) (fi : forest_index).
  Hypothesis Hsg : simple_graph g.
  Hypothesis Hpos : positive_weights g wts.
  Hypothesis Hr : forall v, v < nv g -> In v roots.
  Hypothesis Hci : create_index g roots = Some fi.

  Variables (trees0 : list (sp_tree Z)) (cands0 : list (cand Z)).
  Hypothesis Hcol0 : trees_collection_ok g wts trees0 cands0.
  Hypothesis Hcands0 : forall c, In c cands0 ->
    exists t, nth_error trees0 (c_tree c) = Some t /\ cd_is_cand Z 0%Z Z.add g wts (c_tree c) t c.
  Hypothesis Hsuf : collection_sufficient g wts fi trees0 cands0.

  Notation ser0 := (map (mu_ser Z fi trees0) cands0).

  Variable P : nat.
  Variable rtree_of : nat -> rtree.
  Hypothesis HP : 1 <= P.
  Hypothesis Htree : forall k, rtree_ok P (rtree_of k).

  Lemma mw_ser_all : mt_ser_all Z fi trees0 cands0 = Some ser0.
  Proof.
    apply (mu_ser_all Z 0%Z Z.add g wts roots fi Hsg Hr Hci trees0 cands0 Hcands0). apply incl_refl.
  Qed.

  Lemma mw_chunk r : slice P r ser0 = map (mu_ser Z fi trees0) (slice P r cands0).
  Proof. apply mv_slice_map. Qed.

  Lemma mw_slice_incl r : incl (slice P r cands0) cands0.
  Proof. intros c Hc. apply mv_slice_In in Hc as (i & _ & Hn). eapply nth_error_In; eauto. Qed.

  (* C04c_local_collection, one rank: the chunk is rebuilt into a sound collection whose (root, edge, weight) triples are a
     permutation of those of the rank's slice of rank 0's collection *)
  Lemma mw_local r :
    exists ts L,
      mt_local_Z g wts fi (slice P r ser0) = MtOk (ts, L)
      /\ Forall (fun t => sptree_Z g wts (st_src t) = LxOk t) ts
      /\ Permutation (map (mu_key Z ts) L) (map (mu_key Z trees0) (slice P r cands0))
      /\ StronglySorted lt (map (@st_src Z) ts).
  Proof.
    destruct Hcol0 as [HF _].
    destruct (mu_local Z 0%Z Z.add Z.ltb g wts roots fi Hsg Hr Hci trees0 cands0 HF Hcands0 _ (mw_slice_incl r))
      as (ts & L & Hl & H1 & H2 & _ & (_ & Hss) & Hf2).
    exists ts, L. rewrite mw_chunk. split; [exact Hl|]. split; [exact H1|]. split; [exact H2|].
    replace (map (@st_src Z) ts) with (map fst (mu_groups Z trees0 (slice P r cands0))); [exact Hss|].
    clear -Hf2. induction Hf2 as [|xl t m ts' H _ IH]; [reflexivity|]. cbn [map]. rewrite IH, H. reflexivity.
  Qed.

  (* ... all ranks together: nothing lost, nothing duplicated *)
  Lemma mw_union (locals : list (list (sp_tree Z) * list (cand Z))) :
    Forall2 (fun r tl => mt_local_Z g wts fi (slice P r ser0) = MtOk tl) (seq 0 P) locals ->
    Permutation (concat (map (fun tl => map (mu_key Z (fst tl)) (snd tl)) locals)) (map (mu_key Z trees0) cands0).
  Proof.
    intros HF.
    assert (Hgen : forall rs locs, Forall2 (fun r tl => mt_local_Z g wts fi (slice P r ser0) = MtOk tl) rs locs ->
              Permutation (concat (map (fun tl => map (mu_key Z (fst tl)) (snd tl)) locs))
                          (concat (map (fun r => map (mu_key Z trees0) (slice P r cands0)) rs))).
    { intros rs locs H. induction H as [|r tl rs' locs' Hl _ IH]; [reflexivity|]. cbn [map concat].
      apply Permutation_app; [|exact IH]. destruct (mw_local r) as (ts & L & Hl' & _ & Hp & _).
      rewrite Hl in Hl'. injection Hl' as ->. exact Hp. }
    rewrite (Hgen _ _ HF).
    assert (E : map (mu_key Z trees0) cands0
                = concat (map (fun r => map (mu_key Z trees0) (slice P r cands0)) (seq 0 P))).
    { rewrite <- (slices_concat P cands0 HP) at 1. rewrite concat_map, map_map. reflexivity. }
    rewrite E. reflexivity.
  Qed.

  (* ---- any family of local lookups that answer a local minimum -------------------------------------------------- *)
  Variable lookup : nat -> list (nat * nat) -> nat -> vec -> lres Z.
  Hypothesis Hlookup : forall r k Sv ts L, r < P -> canonical_witness fi Sv ->
    mt_local_Z g wts fi (slice P r ser0) = MtOk (ts, L) ->
    exists b, lookup r (slice P r ser0) k Sv = Some b /\ mv_local_min g wts ts L (indices_to_edges fi Sv) b.

  Notation act := (mw_act Z P ser0 lookup).
  Notation search := (glob_search Z Z.ltb fi act P rtree_of).

  Lemma mw_answers Sv : exists l0,
    map fst l0 = cands0 /\ Forall (tl_entry_ok g wts trees0 (indices_to_edges fi Sv)) l0.
  Proof.
    destruct Hcol0 as [HF Hs].
    destruct (tb_answers_ok g wts Hsg trees0 cands0 (indices_to_edges fi Sv) HF Hs) as [l [_ [Hm Hf]]]. eauto.
  Qed.

  Lemma mw_locals k Sv l0 : canonical_witness fi Sv ->
    map fst l0 = cands0 -> Forall (tl_entry_ok g wts trees0 (indices_to_edges fi Sv)) l0 ->
    forall r, r < P ->
      exists b, lookup r (slice P r ser0) k Sv = Some b
                /\ acc_ok g wts fi Sv (mv_opt l0) (in_slice (length cands0) P r) b.
  Proof.
    intros HS Hm Hf r HrP. destruct (mw_local r) as (ts & L & Hl & _).
    destruct (Hlookup r k Sv ts L HrP HS Hl) as [b [Eb Hmin]]. exists b. split; [exact Eb|].
    apply (mv_acc_ok g wts roots fi Hsg Hr Hci trees0 cands0 Hcol0 Hcands0 Sv HS l0 Hm Hf
             (slice P r cands0) ts L).
    - intros c. apply mv_slice_In.
    - rewrite <- mw_chunk. exact Hl.
    - exact Hmin.
  Qed.

  Lemma mw_search_min : search_min_c g wts fi search.
  Proof.
    intros k Sv c w HS E. destruct (mw_answers Sv) as (l0 & Hm & Hf).
    unfold glob_search, glob in E. cbn [mw_act local_of] in E.
    match type of E with match ?x with _ => _ end = _ => destruct x as [[[c0 w0]|]|] eqn:Ex; try discriminate end.
    injection E as <- <-.
    apply (reduce_slices_min g wts roots fi Hsg Hr Hci Sv (mv_opt l0) P (length cands0)
             (fun r => lookup r (slice P r ser0) k Sv) (rtree_of k) c0 w0 HP (Htree k)).
    - apply (mv_complete g wts roots fi Hsg Hr Hci trees0 cands0 Hcol0 Sv HS l0 Hm Hf Hsuf).
    - apply mw_locals; assumption.
    - exact Ex.
  Qed.

  Lemma mw_search_total : search_total fi search.
  Proof.
    intros k Sv SS Sne Sb.
    assert (HS : canonical_witness fi Sv) by (split; [|split]; assumption).
    destruct (rf_odd_cycle_exists g roots fi Sv Hsg Hr Hci SS Sne Sb) as (D & HD & HoD).
    destruct (rf_simple_cycle_edges g D HD) as (SD & VD).
    destruct (mw_answers Sv) as (l0 & Hm & Hf).
    assert (HoD' : oddS fi Sv D).
    { unfold oddS. rewrite (rf_bridge g roots fi Sv D Hsg Hr Hci SS Sb SD VD). exact HoD. }
    destruct (reduce_slices_found g wts fi Sv (mv_opt l0) P (length cands0)
                (fun r => lookup r (slice P r ser0) k Sv) (rtree_of k) D HP (Htree k)
                (mv_complete g wts roots fi Hsg Hr Hci trees0 cands0 Hcol0 Sv HS l0 Hm Hf Hsuf)
                (mw_locals k Sv l0 HS Hm Hf) HD HoD') as (c & w & E).
    unfold glob_search, glob. cbn [mw_act local_of]. rewrite E. eexists; eexists; reflexivity.
  Qed.

  Theorem mw_result :
    exists cycles total sup rest,
      run_spmd Z Z.ltb fi P rtree_of (spmd_trees_ranked Z 0%Z Z.add fi P ser0 lookup)
      = Done (RankOut cycles total sup None :: rest)
      /\ length rest = P - 1 /\ Forall (silent 0%Z fi) rest
      /\ min_cycle_basis g wts cycles /\ total = total_weight wts cycles
      /\ has_cycle_space_dimension g (length cycles).
  Proof.
    assert (Htree' : forall k r, In r (rleaves (rtree_of k)) -> r < P)
      by (intros k r; apply rtree_ok_lt, Htree).
    destruct (mw_ranked_no_deadlock Z 0%Z Z.add Z.ltb fi P rtree_of ser0 lookup HP Htree')
      as (r0 & rest & Erun & Hlen & Hsil & Esva).
    pose proof mw_search_min as Hmin. pose proof mw_search_total as Htot.
    pose proof (search_min_c_sound g wts fi search Hsg Hmin) as Hsnd.
    destruct (sva_generic_total_c g roots fi Z 0%Z Z.add select_none search Hsg Hr Hci
                (select_none_ok (fi_csd fi)) Hsnd Htot) as (cycles & total & sup & Hrun).
    destruct (sva_generic_min_c g wts roots fi select_none search cycles total sup Hsg Hpos Hr Hci
                (select_none_ok (fi_csd fi)) Hmin Hrun) as (Hmcb & Hw & Hdim).
    rewrite Hrun in Esva.
    assert (E0 : r0 = RankOut cycles total sup None).
    { destruct r0 as [cy tw sp [[[|] kk]|]|kk]; cbn [to_sva] in Esva; try discriminate.
      injection Esva as -> -> ->. reflexivity. }
    subst r0. exists cycles, total, sup, rest. repeat (split; [assumption|]). assumption.
  Qed.
End Result.

(* ---- the entry points -------------------------------------------------------------------------------------------------- *)

(* every builder's collection is sound, made of candidates of its trees, and sufficient *)
Lemma mw_builder_facts b g wts picks trees cands : simple_graph g -> positive_weights g wts ->
  tb_collection Z 0%Z Z.add Z.ltb b g wts picks = CdOk (trees, cands) ->
  trees_collection_ok g wts trees cands
  /\ (forall c, In c cands -> exists t, nth_error trees (c_tree c) = Some t /\ cd_is_cand Z 0%Z Z.add g wts (c_tree c) t c)
  /\ collection_sufficient_all g wts trees cands.
Proof.
  intros Hsg Hpos H. split; [eapply tr_collection_ok; eauto|].
  split; [apply (mu_collection_facts Z 0%Z Z.add Z.ltb b g wts picks trees cands H)|].
  destruct b; cbn [tb_collection] in H.
  - eapply horton_sufficient; eauto.
  - eapply fvs_sufficient; eauto.
  - eapply iso_sufficient; eauto.
Qed.

Section Entry.
  Variables (b : tbuilder) (g : graph) (wts : list Z) (roots picks : list nat).
  Hypothesis Hsg : simple_graph g.
  Hypothesis Hpos : positive_weights g wts.
  Hypothesis Hr : forall v, v < nv g -> In v roots.
  Variables (trees0 : list (sp_tree Z)) (cands0 : list (cand Z)).
  Hypothesis Hcol : tb_collection Z 0%Z Z.add Z.ltb b g wts picks = CdOk (trees0, cands0).
  Variable P : nat.
  Variable rtree_of : nat -> rtree.
  Hypothesis HP : 1 <= P.
  Hypothesis Htree : forall k, rtree_ok P (rtree_of k).

  Lemma mw_index : exists fi, create_index g roots = Some fi.
  Proof. destruct (create_index_correct g roots Hsg Hr) as (fi & E & _). eauto. Qed.

  (* the generic entry point: any family of lookups whose answers are local minima *)
  Theorem mw_entry_gen (lookup : forest_index -> nat -> list (nat * nat) -> nat -> vec -> lres Z) :
    (forall fi ser r k Sv ts L, create_index g roots = Some fi -> mt_ser_all Z fi trees0 cands0 = Some ser ->
       r < P -> canonical_witness fi Sv -> mt_local_Z g wts fi (slice P r ser) = MtOk (ts, L) ->
       exists bb, lookup fi r (slice P r ser) k Sv = Some bb /\ mv_local_min g wts ts L (indices_to_edges fi Sv) bb) ->
    exists fi cycles total sup rest,
      create_index g roots = Some fi
      /\ mcb_sva_trees_mpi_gen_Z b g wts roots picks P lookup rtree_of = MtRun Z (Done (RankOut cycles total sup None :: rest))
      /\ length rest = P - 1 /\ Forall (silent 0%Z fi) rest
      /\ min_cycle_basis g wts cycles /\ total = total_weight wts cycles
      /\ has_cycle_space_dimension g (length cycles).
  Proof.
    intros Hlk. destruct mw_index as [fi Hci].
    destruct (mw_builder_facts b g wts picks trees0 cands0 Hsg Hpos Hcol) as (Hcol0 & Hcands0 & Hsuf).
    pose proof (mw_ser_all g wts roots fi Hsg Hr Hci trees0 cands0 Hcands0) as Hser.
    destruct (mw_result g wts roots fi Hsg Hpos Hr Hci trees0 cands0 Hcol0 Hcands0
                (tr_sufficient_all_canonical g wts fi trees0 cands0 Hsuf) P rtree_of HP Htree (lookup fi))
      as (cycles & total & sup & rest & Hrun & H).
    { intros r k Sv ts L HrP HS Hl. apply (Hlk fi _ r k Sv ts L Hci Hser HrP HS Hl). }
    exists fi, cycles, total, sup, rest. split; [exact Hci|]. split; [|exact H].
    unfold mcb_sva_trees_mpi_gen_Z, mcb_sva_trees_mpi_gen. rewrite Hci, Hcol, Hser, Hrun. reflexivity.
  Qed.

  (* what the valid arrangements are about: rank r's unsorted vector *)
  Lemma mw_rank_cands fi ser r ts L : create_index g roots = Some fi -> mt_ser_all Z fi trees0 cands0 = Some ser ->
    mt_local_Z g wts fi (slice P r ser) = MtOk (ts, L) ->
    mt_rank_cands_Z b g wts roots picks P r = Some (ts, L).
  Proof.
    intros Hci Hser Hl. unfold mt_rank_cands_Z, mt_rank_cands, mt_all_pairs. rewrite Hci, Hcol, Hser.
    unfold mt_local_Z in Hl. rewrite Hl. reflexivity.
  Qed.

  (* sequential flavour: every family of valid sort arrangements *)
  Theorem mw_entry_seq (arr : nat -> list nat) :
    (forall r ts L, r < P -> mt_rank_cands_Z b g wts roots picks P r = Some (ts, L) -> mt_arr_okb Z Z.ltb L (arr r) = true) ->
    exists fi cycles total sup rest,
      create_index g roots = Some fi
      /\ mcb_sva_trees_mpi_seq_Z b g wts roots picks P arr rtree_of = MtRun Z (Done (RankOut cycles total sup None :: rest))
      /\ length rest = P - 1 /\ Forall (silent 0%Z fi) rest
      /\ min_cycle_basis g wts cycles /\ total = total_weight wts cycles
      /\ has_cycle_space_dimension g (length cycles).
  Proof.
    intros Harr. apply mw_entry_gen.
    intros fi ser r k Sv ts L Hci Hser HrP HS Hl.
    destruct (mw_builder_facts b g wts picks trees0 cands0 Hsg Hpos Hcol) as (Hcol0 & Hcands0 & _).
    pose proof (mw_ser_all g wts roots fi Hsg Hr Hci trees0 cands0 Hcands0) as Hser'.
    rewrite Hser in Hser'. injection Hser' as ->.
    pose proof (Harr r ts L HrP (mw_rank_cands fi _ r ts L Hci Hser Hl)) as Hok.
    unfold mt_arr_okb in Hok. destruct (mt_sort Z Z.ltb L (arr r)) as [sorted| | |] eqn:Es; try discriminate.
    rewrite mw_chunk in Hl.
    destruct (mv_seq_lookup g wts roots fi Hsg Hr Hci trees0 cands0 Hcol0 Hcands0
                (slice P r cands0) (mw_slice_incl cands0 P r) ts L Hl (arr r) sorted (indices_to_edges fi Sv) Es)
      as [bb [Eb Hmin]].
    exists bb. split; [|exact Hmin].
    unfold mt_rank_lookup_seq. rewrite mw_chunk. unfold mt_local_Z in Hl. rewrite Hl, Es, Eb. reflexivity.
  Qed.

  (* any flavour whose local answers are accepted (TBB: every schedule) *)
  Theorem mw_entry_accept (lookup : forest_index -> nat -> list (nat * nat) -> nat -> vec -> lres Z) :
    (forall fi r chunk k Sv, exists bb, lookup fi r chunk k Sv = Some bb /\
                                        mt_rank_accept_tbb_Z g wts fi chunk Sv bb = true) ->
    exists fi cycles total sup rest,
      create_index g roots = Some fi
      /\ mcb_sva_trees_mpi_gen_Z b g wts roots picks P lookup rtree_of = MtRun Z (Done (RankOut cycles total sup None :: rest))
      /\ length rest = P - 1 /\ Forall (silent 0%Z fi) rest
      /\ min_cycle_basis g wts cycles /\ total = total_weight wts cycles
      /\ has_cycle_space_dimension g (length cycles).
  Proof.
    intros Hacc. apply mw_entry_gen.
    intros fi ser r k Sv ts L Hci Hser HrP HS Hl.
    destruct (mw_builder_facts b g wts picks trees0 cands0 Hsg Hpos Hcol) as (Hcol0 & Hcands0 & _).
    pose proof (mw_ser_all g wts roots fi Hsg Hr Hci trees0 cands0 Hcands0) as Hser'.
    rewrite Hser in Hser'. injection Hser' as ->.
    destruct (Hacc fi r (slice P r (map (mu_ser Z fi trees0) cands0)) k Sv) as [bb [Eb Hok]].
    exists bb. split; [exact Eb|].
    unfold mt_rank_accept_tbb_Z, mt_rank_accept_tbb in Hok. unfold mt_local_Z in Hl. rewrite Hl in Hok.
    rewrite mw_chunk in Hl.
    apply (mv_tbb_lookup g wts roots fi Hsg Hr Hci trees0 cands0 Hcol0 Hcands0
             (slice P r cands0) (mw_slice_incl cands0 P r) ts L Hl).
    fold (tl_answers_Z g wts ts L (indices_to_edges fi Sv)) in Hok.
    destruct (tl_answers_Z g wts ts L (indices_to_edges fi Sv)) as [l| | |]; try discriminate. eauto.
  Qed.
End Entry.

(* ---- the four entry points, premise-free ----------------------------------------------------------------------------- *)

(* mcb_sva_fvs_trees_mpi: every complete run of greedy_fvs, every P >= 1, all reduction trees, all valid sort arrangements *)
Theorem mw_fvs_trees_mpi g wts roots picks fvs P arr rtree_of :
  simple_graph g -> positive_weights g wts -> (forall v, v < nv g -> In v roots) ->
  greedy_fvs g picks = FvsOk fvs ->
  1 <= P -> (forall k, rtree_ok P (rtree_of k)) ->
  (forall r ts L, r < P -> mt_rank_cands_Z TbFvs g wts roots picks P r = Some (ts, L) -> mt_arr_okb Z Z.ltb L (arr r) = true) ->
  exists fi cycles total sup rest,
    create_index g roots = Some fi
    /\ mcb_sva_trees_mpi_seq_Z TbFvs g wts roots picks P arr rtree_of = MtRun Z (Done (RankOut cycles total sup None :: rest))
    /\ length rest = P - 1 /\ Forall (silent 0%Z fi) rest
    /\ min_cycle_basis g wts cycles /\ total = total_weight wts cycles
    /\ has_cycle_space_dimension g (length cycles).
Proof.
  intros Hsg Hpos Hr Hf HP Htree Harr.
  destruct (proj2 (cz_C14_total g wts Hsg Hpos) picks fvs Hf) as (trees & cands & Hc).
  exact (mw_entry_seq TbFvs g wts roots picks Hsg Hpos Hr trees cands Hc P rtree_of HP Htree arr Harr).
Qed.

(* mcb_sva_iso_trees_mpi *)
Theorem mw_iso_trees_mpi g wts roots picks P arr rtree_of :
  simple_graph g -> positive_weights g wts -> (forall v, v < nv g -> In v roots) ->
  1 <= P -> (forall k, rtree_ok P (rtree_of k)) ->
  (forall r ts L, r < P -> mt_rank_cands_Z TbIso g wts roots picks P r = Some (ts, L) -> mt_arr_okb Z Z.ltb L (arr r) = true) ->
  exists fi cycles total sup rest,
    create_index g roots = Some fi
    /\ mcb_sva_trees_mpi_seq_Z TbIso g wts roots picks P arr rtree_of = MtRun Z (Done (RankOut cycles total sup None :: rest))
    /\ length rest = P - 1 /\ Forall (silent 0%Z fi) rest
    /\ min_cycle_basis g wts cycles /\ total = total_weight wts cycles
    /\ has_cycle_space_dimension g (length cycles).
Proof.
  intros Hsg Hpos Hr HP Htree Harr.
  destruct (iso_total g wts Hsg Hpos) as (trees & cands & Hc).
  exact (mw_entry_seq TbIso g wts roots picks Hsg Hpos Hr trees cands Hc P rtree_of HP Htree arr Harr).
Qed.

(* mcb_sva_fvs_trees_tbb_mpi / mcb_sva_iso_trees_tbb_mpi: any local lookup whose every answer is accepted by
   mt_rank_accept_tbb_Z ("found iff some local candidate answers, and then one of minimum answer weight") *)
Definition mw_accepted (g : graph) (wts : list Z)
           (lookup : forest_index -> nat -> list (nat * nat) -> nat -> vec -> lres Z) : Prop :=
  forall fi r chunk k Sv, exists bb, lookup fi r chunk k Sv = Some bb /\ mt_rank_accept_tbb_Z g wts fi chunk Sv bb = true.

Theorem mw_fvs_trees_tbb_mpi g wts roots picks fvs P lookup rtree_of :
  simple_graph g -> positive_weights g wts -> (forall v, v < nv g -> In v roots) ->
  greedy_fvs g picks = FvsOk fvs ->
  1 <= P -> (forall k, rtree_ok P (rtree_of k)) -> mw_accepted g wts lookup ->
  exists fi cycles total sup rest,
    create_index g roots = Some fi
    /\ mcb_sva_trees_mpi_gen_Z TbFvs g wts roots picks P lookup rtree_of = MtRun Z (Done (RankOut cycles total sup None :: rest))
    /\ length rest = P - 1 /\ Forall (silent 0%Z fi) rest
    /\ min_cycle_basis g wts cycles /\ total = total_weight wts cycles
    /\ has_cycle_space_dimension g (length cycles).
Proof.
  intros Hsg Hpos Hr Hf HP Htree Hacc.
  destruct (proj2 (cz_C14_total g wts Hsg Hpos) picks fvs Hf) as (trees & cands & Hc).
  exact (mw_entry_accept TbFvs g wts roots picks Hsg Hpos Hr trees cands Hc P rtree_of HP Htree lookup Hacc).
Qed.

Theorem mw_iso_trees_tbb_mpi g wts roots picks P lookup rtree_of :
  simple_graph g -> positive_weights g wts -> (forall v, v < nv g -> In v roots) ->
  1 <= P -> (forall k, rtree_ok P (rtree_of k)) -> mw_accepted g wts lookup ->
  exists fi cycles total sup rest,
    create_index g roots = Some fi
    /\ mcb_sva_trees_mpi_gen_Z TbIso g wts roots picks P lookup rtree_of = MtRun Z (Done (RankOut cycles total sup None :: rest))
    /\ length rest = P - 1 /\ Forall (silent 0%Z fi) rest
    /\ min_cycle_basis g wts cycles /\ total = total_weight wts cycles
    /\ has_cycle_space_dimension g (length cycles).
Proof.
  intros Hsg Hpos Hr HP Htree Hacc.
  destruct (iso_total g wts Hsg Hpos) as (trees & cands & Hc).
  exact (mw_entry_accept TbIso g wts roots picks Hsg Hpos Hr trees cands Hc P rtree_of HP Htree lookup Hacc).
Qed.

(* ---- C04c_local_collection, assembled ------------------------------------------------------------------------------- *)
Theorem mw_local_collection b g wts roots picks fi trees0 cands0 P :
  simple_graph g -> (forall v, v < nv g -> In v roots) -> create_index g roots = Some fi ->
  tb_collection Z 0%Z Z.add Z.ltb b g wts picks = CdOk (trees0, cands0) -> 1 <= P ->
  exists ser,
    mt_ser_all Z fi trees0 cands0 = Some ser /\ length ser = length cands0
    /\ (forall r, exists ts L,
          mt_local_Z g wts fi (slice P r ser) = MtOk (ts, L)
          /\ Forall (fun t => sptree_Z g wts (st_src t) = LxOk t) ts
          /\ StronglySorted lt (map (@st_src Z) ts)
          /\ Permutation (map (mu_key Z ts) L) (map (mu_key Z trees0) (slice P r cands0)))
    /\ (forall locals,
          Forall2 (fun r tl => mt_local_Z g wts fi (slice P r ser) = MtOk tl) (seq 0 P) locals ->
          Permutation (concat (map (fun tl => map (mu_key Z (fst tl)) (snd tl)) locals))
                      (map (mu_key Z trees0) cands0)).
Proof.
  intros Hsg Hr Hci Hcol HP.
  destruct (mu_collection_facts Z 0%Z Z.add Z.ltb b g wts picks trees0 cands0 Hcol) as [HF Hcands0].
  assert (Hcol0 : Forall (fun t => sptree_Z g wts (st_src t) = LxOk t) trees0) by exact HF.
  exists (map (mu_ser Z fi trees0) cands0).
  split; [apply (mw_ser_all g wts roots fi Hsg Hr Hci trees0 cands0 Hcands0)|].
  split; [apply map_length|]. split.
  - intros r.
    destruct (mu_local Z 0%Z Z.add Z.ltb g wts roots fi Hsg Hr Hci trees0 cands0 HF Hcands0 _ (mw_slice_incl cands0 P r))
      as (ts & L & Hl & H1 & H2 & _ & (_ & Hss) & Hf2).
    exists ts, L. rewrite mw_chunk. split; [exact Hl|]. split; [exact H1|]. split; [|exact H2].
    replace (map (@st_src Z) ts) with (map fst (mu_groups Z trees0 (slice P r cands0))); [exact Hss|].
    clear -Hf2. induction Hf2 as [|xl t m ts' H _ IH]; [reflexivity|]. cbn [map]. rewrite IH, H. reflexivity.
  - intros locals HF2.
    assert (Hgen : forall rs locs,
              Forall2 (fun r tl => mt_local_Z g wts fi (slice P r (map (mu_ser Z fi trees0) cands0)) = MtOk tl) rs locs ->
              Permutation (concat (map (fun tl => map (mu_key Z (fst tl)) (snd tl)) locs))
                          (concat (map (fun r => map (mu_key Z trees0) (slice P r cands0)) rs))).
    { intros rs locs H. induction H as [|r tl rs' locs' Hl _ IH]; [reflexivity|]. cbn [map concat].
      apply Permutation_app; [|exact IH].
      destruct (mu_local Z 0%Z Z.add Z.ltb g wts roots fi Hsg Hr Hci trees0 cands0 HF Hcands0 _ (mw_slice_incl cands0 P r))
        as (ts & L & Hl' & _ & Hp & _).
      rewrite mw_chunk in Hl. unfold mt_local_Z in Hl. rewrite Hl in Hl'. injection Hl' as ->. exact Hp. }
    rewrite (Hgen _ _ HF2).
    assert (E : map (mu_key Z trees0) cands0
                = concat (map (fun r => map (mu_key Z trees0) (slice P r cands0)) (seq 0 P))).
    { rewrite <- (slices_concat P cands0 HP) at 1. rewrite concat_map, map_map. reflexivity. }
    rewrite E. reflexivity.
Qed.
