(* DimacsShiftProofs.v — the reader of DimacsModel.v is "shift invariant" in the graph it starts from:
   reading a text into a graph that already has k vertices and the edges e0 (and, as in the C++, a fresh local
   vertex_map and an unassigned nnodes) gives the outcome of reading it into the empty graph, with every new
   vertex descriptor shifted by k and the caller's edges in front.  Proof: a relation between the two runs'
   states that is preserved by every line (add_vertices and the map lookups commute with the shift), then
   induction on the loop fuel. *)
From Coq Require Import ZArith List Bool QArith Qreduction Lia ZifyBool.
From Parmcb Require Import DimacsModel DimacsScanProofs DimacsProofs.
Import ListNotations.
Local Open Scope Z_scope.

Definition shift_edge (k : Z) (e : wedge) : wedge := let '(u, v, w) := e in (u + k, v + k, w).

(* read_dimacs_from_file called on a graph with k vertices and the edges e0 *)
Definition read_into (strip : list byte -> option (list byte)) (k : Z) (e0 : list wedge) (s : list byte) : result :=
  read_loop strip (S (length s)) (mkState k [] None e0) s.

Definition shift_result (k : Z) (e0 : list wedge) (r : result) : result :=
  match r with
  | ROk (n, es) => ROk (n + k, e0 ++ map (shift_edge k) es)
  | r' => r'
  end.

(* ---- the relation between the two runs ---- *)

Definition shift_vmap (k : Z) (m : list (Z * Z)) : list (Z * Z) :=
  map (fun kd : Z * Z => let '(key, d) := kd in (key, d + k)) m.

(* st2 is st1 shifted by k with e0 in front *)
Definition shifted (k : Z) (e0 : list wedge) (st1 st2 : state) : Prop :=
  st_nv st2 = st_nv st1 + k /\
  st_vmap st2 = shift_vmap k (st_vmap st1) /\
  st_nnodes st2 = st_nnodes st1 /\
  st_edges st2 = e0 ++ map (shift_edge k) (st_edges st1).

Definition shifted_outcome (k : Z) (e0 : list wedge) (o1 o2 : outcome) : Prop :=
  match o1, o2 with
  | Next st1, Next st2 => shifted k e0 st1 st2
  | Throw, Throw => True
  | Undef, Undef => True
  | Unsup, Unsup => True
  | Nonterm, Nonterm => True
  | _, _ => False
  end.

Lemma shifted_init k e0 : shifted k e0 init_state (mkState k [] None e0).
Proof. unfold shifted, init_state. cbn. repeat split. symmetry. apply app_nil_r. Qed.

(* ---- the pieces commute with the shift ---- *)

Lemma vfind_shift k key : forall m, vfind key (shift_vmap k m) = option_map (fun d => d + k) (vfind key m).
Proof.
  induction m as [|[key' d] m IH]; [reflexivity|]. cbn [shift_vmap map vfind].
  destruct (key =? key'); [reflexivity|]. exact IH.
Qed.

Lemma add_vertices_shift k : forall cnt i nv vm,
  add_vertices cnt i (nv + k) (shift_vmap k vm) =
  (fst (add_vertices cnt i nv vm) + k, shift_vmap k (snd (add_vertices cnt i nv vm))).
Proof.
  induction cnt as [|cnt IH]; intros i nv vm; cbn [add_vertices]; [reflexivity|].
  replace (nv + k + 1) with (nv + 1 + k) by lia.
  change ((i, nv + k) :: shift_vmap k vm) with (shift_vmap k ((i, nv) :: vm)). apply IH.
Qed.

Lemma do_problem_shift k e0 st1 st2 b :
  shifted k e0 st1 st2 -> shifted_outcome k e0 (do_problem st1 b) (do_problem st2 b).
Proof.
  intros (Hnv & Hvm & Hnn & Hed). unfold do_problem. rewrite Hnn.
  destruct (scan_problem b) as [|v|]; [| |exact I].
  - destruct (st_nnodes st1) as [n|]; [|exact I].
    destruct (n =? 2 ^ 64 - 1); [exact I|].
    rewrite Hnv, Hvm, add_vertices_shift.
    destruct (add_vertices (Z.to_nat n) 1 (st_nv st1) (st_vmap st1)) as [nv vm]. cbn [fst snd].
    repeat split; assumption.
  - destruct (v =? 2 ^ 64 - 1); [exact I|].
    rewrite Hnv, Hvm, add_vertices_shift.
    destruct (add_vertices (Z.to_nat v) 1 (st_nv st1) (st_vmap st1)) as [nv vm]. cbn [fst snd].
    repeat split; assumption.
Qed.

Lemma do_edge_shift k e0 st1 st2 b :
  shifted k e0 st1 st2 -> shifted_outcome k e0 (do_edge st1 b) (do_edge st2 b).
Proof.
  intros (Hnv & Hvm & Hnn & Hed). unfold do_edge.
  destruct (scan_int (skip_ws (tl b))) as [rs r1| | |]; try exact I.
  destruct (scan_int (skip_ws r1)) as [rt r2| | |]; try exact I.
  - assert (forall rw,
      shifted_outcome k e0
        match vfind (rs mod 2 ^ 64) (st_vmap st1) with
        | None => Throw
        | Some sd =>
            match vfind (rt mod 2 ^ 64) (st_vmap st1) with
            | None => Throw
            | Some td => Next (mkState (st_nv st1) (st_vmap st1) (st_nnodes st1) (st_edges st1 ++ [(sd, td, rw)]))
            end
        end
        match vfind (rs mod 2 ^ 64) (st_vmap st2) with
        | None => Throw
        | Some sd =>
            match vfind (rt mod 2 ^ 64) (st_vmap st2) with
            | None => Throw
            | Some td => Next (mkState (st_nv st2) (st_vmap st2) (st_nnodes st2) (st_edges st2 ++ [(sd, td, rw)]))
            end
        end) as Hadd.
    { intros rw. rewrite Hvm, !vfind_shift.
      destruct (vfind (rs mod 2 ^ 64) (st_vmap st1)) as [sd|]; cbn [option_map]; [|exact I].
      destruct (vfind (rt mod 2 ^ 64) (st_vmap st1)) as [td|]; cbn [option_map]; [|exact I].
      cbn [shifted_outcome]. unfold shifted. cbn [st_nv st_vmap st_nnodes st_edges].
      rewrite <- Hvm. repeat split; try assumption.
      rewrite Hed, map_app, app_assoc. reflexivity. }
    destruct (scan_float (skip_ws r2)) as [w r3| | |]; [apply Hadd|apply Hadd|exact I|exact I].
  - rewrite Hvm, vfind_shift.
    destruct (vfind (rs mod 2 ^ 64) (st_vmap st1)); cbn [option_map]; exact I.
Qed.

Lemma process_line_shift k e0 st1 st2 b :
  shifted k e0 st1 st2 -> shifted_outcome k e0 (process_line st1 b) (process_line st2 b).
Proof.
  intros H. unfold process_line. destruct b as [|c b]; [exact H|].
  destruct ((c =? 99) || (c =? 35)); [exact H|].
  destruct (c =? 112); [apply do_problem_shift; exact H|].
  destruct ((c =? 97) || (c =? 101)); [apply do_edge_shift; exact H|exact H].
Qed.

(* ---- the loop ---- *)

Lemma read_loop_shift strip k e0 : forall fuel st1 st2 s,
  shifted k e0 st1 st2 -> read_loop strip fuel st2 s = shift_result k e0 (read_loop strip fuel st1 s).
Proof.
  induction fuel as [|fuel IH]; intros st1 st2 s H; [reflexivity|]. rewrite !read_loop_unfold.
  destruct (fgets 1023 s) as [[|c chunk] rest].
  - destruct H as (Hnv & _ & _ & Hed). unfold result_of_state. cbn [shift_result]. rewrite Hnv, Hed. reflexivity.
  - destruct (strip (cstr (c :: chunk))) as [b|]; [|reflexivity].
    pose proof (process_line_shift k e0 st1 st2 b H) as HP.
    destruct (process_line st1 b) as [st1'| | | |], (process_line st2 b) as [st2'| | | |];
      cbn [shifted_outcome] in HP; try contradiction; cbn [finish]; try reflexivity.
    apply IH. exact HP.
Qed.

Theorem read_into_shift strip k e0 s : read_into strip k e0 s = shift_result k e0 (read_with strip s).
Proof. unfold read_into, read_with. apply read_loop_shift. apply shifted_init. Qed.

(* ---- the statements of Properties_C10_shift.v ---- *)

Theorem read_into_shift_both k e0 s :
  read_into strip_fixed k e0 s = shift_result k e0 (read s) /\
  read_into strip_orig k e0 s = shift_result k e0 (read_orig s).
Proof. split; apply read_into_shift. Qed.

(* the outcome class is the same: in particular the undeclared-vertex error is raised in exactly the same cases *)
Lemma shift_result_class k e0 r :
  (shift_result k e0 r = RThrow <-> r = RThrow) /\
  (shift_result k e0 r = RUndef <-> r = RUndef) /\
  (shift_result k e0 r = RUnsup <-> r = RUnsup) /\
  (shift_result k e0 r = RNonterm <-> r = RNonterm) /\
  (shift_result k e0 r = RFuel <-> r = RFuel) /\
  ((exists g, shift_result k e0 r = ROk g) <-> (exists g, r = ROk g)).
Proof.
  destruct r as [[n es]| | | | |]; cbn [shift_result]; repeat split; intros H; try discriminate H; try reflexivity;
    try (destruct H as [g H]; discriminate H); eexists; reflexivity.
Qed.

Theorem read_into_throw k e0 s :
  (read_into strip_fixed k e0 s = RThrow <-> read s = RThrow) /\
  (read_into strip_orig k e0 s = RThrow <-> read_orig s = RThrow).
Proof. split; rewrite read_into_shift; apply shift_result_class. Qed.

Theorem read_into_class strip k e0 s :
  (read_into strip k e0 s = RThrow <-> read_with strip s = RThrow) /\
  (read_into strip k e0 s = RUndef <-> read_with strip s = RUndef) /\
  (read_into strip k e0 s = RUnsup <-> read_with strip s = RUnsup) /\
  (read_into strip k e0 s = RNonterm <-> read_with strip s = RNonterm) /\
  (read_into strip k e0 s = RFuel <-> read_with strip s = RFuel) /\
  ((exists g, read_into strip k e0 s = ROk g) <-> (exists g, read_with strip s = ROk g)).
Proof. rewrite read_into_shift. apply shift_result_class. Qed.

(* on a well-formed text: the described graph is added next to the caller's vertices and edges *)
Theorem read_into_render k e0 l :
  layout_ok l = true ->
  read_into strip_fixed k e0 (render l) = ROk (fst (denot l) + k, e0 ++ map (shift_edge k) (snd (denot l))).
Proof.
  intros Hok. rewrite read_into_shift. change (read_with strip_fixed) with read. rewrite (read_render l Hok).
  destruct (denot l) as [n es]. reflexivity.
Qed.

Theorem read_into_no_fuel k e0 s : read_into strip_fixed k e0 s <> RFuel /\ read_into strip_orig k e0 s <> RFuel.
Proof.
  destruct (read_no_fuel s) as [H1 H2].
  split; intros H; apply (proj1 (proj1 (proj2 (proj2 (proj2 (proj2 (read_into_class _ k e0 s))))))) in H; auto.
Qed.
