(* RefProofs6.v — proofs about RefModel.v, part 6: COMPLETENESS of the verified checkers basis_checkb and
   mcb_checkb, and the dimension theorem for cycle bases.  Prefix c6_ / rf_.

     c6_progress                  mid-run invariant + the next given cycle is NOT a combination of the earlier
                                  ones  ==>  some remaining witness (position >= k) is odd w.r.t. it
                                  (else back substitution over the first k rows would produce a non-zero
                                  element of the cycle space orthogonal to every witness)
     c6_run                       hence the verification run of basis_checkb accepts the first n given cycles,
                                  for every n <= min (csd, number of given cycles), and the loop invariant
                                  SvaProofs.sva_inv holds afterwards
     c6_length_le / c6_length_ge  an independent family of simple cycles has at most csd members (after csd
                                  accepted phases the prefix spans, so the next member would be dependent);
                                  a spanning one has at least csd (otherwise the witness of the next phase has
                                  an odd fundamental cycle, which is a combination of cycles it is orthogonal to)
     rf_cycle_basis_length_index  |B| = fi_csd fi for EVERY cycle basis B (the dimension theorem; no Steinitz
                                  exchange is needed: the run of the scheme itself is the Gaussian elimination)
     rf_cycle_basis_length        every cycle basis of a simple graph has exactly m - n + c members
     rf_basis_checkb_complete     a family of duplicate-free raw cycles whose canonical forms are a cycle basis
                                  is accepted by basis_checkb
     rf_mcb_checkb_complete       … a minimum cycle basis is accepted by mcb_checkb
     rf_basis_checkb_decides / rf_mcb_checkb_decides   the checkers DECIDE the two predicates
     rf_*_decides_raw             … with raw_simple_cycle (NoDup + simple cycle) spelt out for every member
     rf_basis_checkb_reject / rf_mcb_checkb_reject     a rejection proves "not a (minimum) cycle basis"

   No axioms. *)
From Coq Require Import List Arith Bool ZArith Lia Sorted.
From Parmcb Require Import GraphModel GF2Model GF2Proofs GF2Lin GraphSpec GraphLemmas McbSpec DePinaSpec
  DePinaProofs ForestModel ForestProofs SvaModel SvaSpec SvaProofs RefModel RefProofs1 RefProofs2 RefProofs3
  RefProofs4 RefProofs5.
Import ListNotations.

(* ---- small list facts ------------------------------------------------------------------------------ *)

Lemma c6_nth_firstn {A} (d : A) : forall (l : list A) k j, j < k -> nth j (firstn k l) d = nth j l d.
Proof.
  induction l as [|x l IH]; intros k j Hj; [rewrite firstn_nil; reflexivity|].
  destruct k as [|k]; [lia|]. cbn [firstn]. destruct j as [|j]; [reflexivity|].
  cbn [nth]. apply IH. lia.
Qed.

Lemma c6_In_firstn {A} : forall (l : list A) k x, In x (firstn k l) -> In x l.
Proof.
  induction l as [|y l IH]; intros k x H; [rewrite firstn_nil in H; exact H|].
  destruct k as [|k]; [destruct H|]. cbn [firstn] in H. destruct H as [<-|H]; [left; reflexivity|].
  right. eapply IH; exact H.
Qed.

Lemma c6_Forall_firstn {A} (P : A -> Prop) (l : list A) k : Forall P l -> Forall P (firstn k l).
Proof.
  intros H. rewrite Forall_forall in *. intros x Hx. apply H. eapply c6_In_firstn; exact Hx.
Qed.

Lemma c6_firstn_S (Cs : list vec) : forall k, k < length Cs ->
  firstn (S k) Cs = firstn k Cs ++ [nth k Cs []].
Proof.
  induction Cs as [|C Cs IH]; intros k Hk; [cbn [length] in Hk; lia|]. cbn [length] in Hk.
  destruct k as [|k]; [reflexivity|]. rewrite (firstn_cons (S k)), (firstn_cons k), IH by lia. reflexivity.
Qed.

Lemma c6_nth_error_nth {A} (d : A) : forall (Cs : list A) k, k < length Cs ->
  nth_error Cs k = Some (nth k Cs d).
Proof.
  induction Cs as [|C Cs IH]; intros k Hk; [cbn [length] in Hk; lia|]. cbn [length] in Hk.
  destruct k as [|k]; [reflexivity|]. cbn [nth_error nth]. apply IH. lia.
Qed.

(* ---- independence: no member is a combination of the earlier ones ------------------------------- *)

Lemma c6_indep_mid (L1 : list vec) D L2 : Forall sorted (L1 ++ D :: L2) -> indep (L1 ++ D :: L2) ->
  ~ inspan L1 D.
Proof.
  intros HS Hind (m & Hm & Hc).
  apply Forall_app in HS as [H1 H2]. inversion H2 as [|D' L2' HD H2']; subst D' L2'.
  specialize (Hind (m ++ true :: repeat false (length L2))).
  assert (Hall : forallb negb (m ++ true :: repeat false (length L2)) = true).
  { apply Hind.
    - rewrite !app_length. cbn [length]. rewrite repeat_length. lia.
    - rewrite comb_mid by auto. rewrite Hc, comb_repeat_false, vadd_nil_r.
      apply sorted_ext; [apply vadd_sorted; assumption|apply sorted_nil|].
      intros i. rewrite vadd_mem by assumption. destruct (mem D i); reflexivity. }
  rewrite forallb_app in Hall. cbn [forallb negb] in Hall. rewrite andb_false_r in Hall. discriminate.
Qed.

Lemma c6_indep_prefix (Cc : list vec) k : Forall sorted Cc -> indep Cc -> k < length Cc ->
  ~ inspan (firstn k Cc) (nth k Cc []).
Proof.
  intros HS Hind Hk. pose proof (nth_split_at Cc k [] Hk) as E.
  apply (c6_indep_mid (firstn k Cc) (nth k Cc []) (skipn (S k) Cc)); rewrite <- E; assumption.
Qed.

(* ---- the verification run on an independent family of simple cycles ------------------------------ *)

Section Run.
  Variables (g : graph) (roots : list nat) (fi : forest_index).
  Hypothesis Hs : simple_graph g.
  Hypothesis Hr : forall v, v < nv g -> In v roots.
  Hypothesis Hci : create_index g roots = Some fi.
  Variable Cc : list vec.
  Hypothesis HCs : Forall (simple_cycle g) Cc.
  Hypothesis Hind : indep Cc.

  Local Notation N := (fi_csd fi).
  Local Notation select := (chk_select fi Cc).
  Local Notation search := (chk_search fi Cc).
  Local Notation inV := (in_cycle_space g).
  Local Notation pair := (pairing fi).

  Lemma c6_snd : search_sound_c g fi search.
  Proof. apply search_sound_weaken, rf_chk_search_sound; assumption. Qed.

  Lemma c6_sel : select_ok N select.
  Proof. apply rf_chk_select_ok. Qed.

  Lemma c6_sub : subspace inV.
  Proof. apply cycle_space_subspace. Qed.

  Lemma c6_lin : pair_linear inV pair.
  Proof. exact (pairing_linear_cs g roots fi Hs Hr Hci). Qed.

  Lemma c6_inV : Forall inV Cc.
  Proof.
    eapply Forall_impl; [|exact HCs]. intros D HD. apply simple_cycle_in_cycle_space; assumption.
  Qed.

  Lemma c6_sorted : Forall sorted Cc.
  Proof. eapply Forall_impl; [|exact c6_inV]. intros D (HD & _). exact HD. Qed.

  (* the diagonal: phase j accepted C_j because its witness is odd w.r.t. it *)
  Lemma c6_diag k sup Cs j : sva_inv fi Z search k sup Cs -> j < k -> k <= N ->
    pair (nth j sup []) (nth j Cs []) = true.
  Proof.
    intros I Hj Hk. destruct (inv_found _ _ _ _ _ _ I j Hj) as (w & Hsr).
    assert (HjN : j < N) by lia.
    exact (proj2 (c6_snd _ _ _ _ (sva_inv_row _ _ _ _ _ _ j I HjN) Hsr)).
  Qed.

  (* the supports of any stage of the run are non-degenerate on the cycle space *)
  Lemma c6_nondeg k sup Cs : sva_inv fi Z search k sup Cs -> nondegenerate inV pair sup.
  Proof.
    intros I. pose proof (inv_len _ _ _ _ _ _ I) as Il.
    assert (Hlt : forall i, i < length sup -> i < N) by (intros i Hi; rewrite <- Il; exact Hi).
    assert (Hgt : forall i, i < N -> i < length sup) by (intros i Hi; rewrite Il; exact Hi).
    apply (nondegenerate_of_orth g roots fi Hs Hr Hci).
    - intros i Hi. apply Hlt in Hi.
      split; [apply (inv_sorted _ _ _ _ _ _ I)|apply (inv_bounded _ _ _ _ _ _ I)]; exact Hi.
    - intros v Sv Bv Hv. apply (inv_orthc _ _ _ _ _ _ I v Sv Bv). intros i Hi. apply Hv, Hgt, Hi.
  Qed.

  (* the first k rows and the first k cycles are a triangular system *)
  Lemma c6_triangular k sup : sva_inv fi Z search k sup (firstn k Cc) -> k <= length Cc ->
    triangular pair (firstn k sup) (firstn k Cc).
  Proof.
    intros I HkL. pose proof (inv_len _ _ _ _ _ _ I) as Il. pose proof (inv_k _ _ _ _ _ _ I) as Ik.
    assert (Hl : length (firstn k Cc) = k) by (rewrite firstn_length; lia).
    split; [rewrite !firstn_length; lia|]. rewrite Hl. split.
    - intros j Hj. rewrite c6_nth_firstn by exact Hj. eapply c6_diag; eauto.
    - intros i j Hij Hj. rewrite c6_nth_firstn by exact Hj.
      apply (inv_low _ _ _ _ _ _ I); lia.
  Qed.

  (* PROGRESS: some remaining witness is odd w.r.t. the next given cycle *)
  Lemma c6_progress k sup : sva_inv fi Z search k sup (firstn k Cc) -> k < N -> k < length Cc ->
    exists l, In l (seq k (N - k)) /\ pair (nth l sup []) (nth k Cc []) = true.
  Proof.
    intros I HkN HkL.
    destruct (find (fun l => pair (nth l sup []) (nth k Cc [])) (seq k (N - k))) as [l|] eqn:Ef.
    - apply find_some in Ef. exists l. exact Ef.
    - exfalso. pose proof (find_none _ _ Ef) as Hnone. cbv beta in Hnone.
      pose proof c6_inV as HV.
      assert (HV1 : Forall inV (firstn k Cc)) by (apply c6_Forall_firstn; exact HV).
      assert (HCk : inV (nth k Cc [])).
      { rewrite Forall_forall in HV. apply HV, nth_In. exact HkL. }
      assert (Hl : length (firstn k Cc) = k) by (rewrite firstn_length; lia).
      pose proof (c6_triangular k sup I ltac:(lia)) as HT.
      destruct (depina_backsub inV pair c6_sub c6_lin (firstn k sup) (firstn k Cc) (nth k Cc [])
                  HV1 HT HCk (length (firstn k Cc)) (le_n _)) as (X & HX & HO).
      rewrite Hl in HO.
      pose proof (dp_inspan_in inV c6_sub _ _ HV1 HX) as HXV.
      assert (HY : inV (vadd (nth k Cc []) X)) by (apply (dp_sub_add inV c6_sub); assumption).
      assert (E : vadd (nth k Cc []) X = []).
      { apply (c6_nondeg k sup _ I); [exact HY|]. intros i Hi0.
        assert (Hi : i < N) by (rewrite <- (inv_len _ _ _ _ _ _ I); exact Hi0).
        destruct (Nat.lt_ge_cases i k) as [Hlt|Hge].
        - pose proof (HO i ltac:(lia) Hlt) as Hi1. rewrite c6_nth_firstn in Hi1 by exact Hlt. exact Hi1.
        - rewrite (dp_pair_add inV pair c6_lin) by assumption.
          rewrite (Hnone i) by (apply in_seq; lia).
          destruct HX as (m & Hm & <-).
          rewrite (dp_pair_comb_orth inV pair c6_sub c6_lin); [reflexivity|exact HV1|].
          intros j Hj _. rewrite Hl in Hj. apply (inv_low _ _ _ _ _ _ I); lia. }
      apply vadd_eq_nil in E; [|apply (dp_sub_sorted inV c6_sub); assumption
                                |apply (dp_sub_sorted inV c6_sub); assumption].
      apply (c6_indep_prefix Cc k c6_sorted Hind HkL). rewrite E. exact HX.
  Qed.

  (* what chk_select returns when some remaining witness is odd *)
  Lemma c6_chk_select_spec k sup (c : list nat) : @nth_error (list nat) Cc k = Some c ->
    (exists l, In l (seq k (N - k)) /\ pair (nth l sup []) c = true) ->
    In (select k sup) (seq k (N - k)) /\ pair (nth (select k sup) sup []) c = true.
  Proof.
    intros Hc (l0 & Hl0 & Hp0). unfold chk_select. rewrite Hc.
    destruct (find _ _) as [l|] eqn:Ef.
    - apply find_some in Ef. exact Ef.
    - exfalso. pose proof (find_none _ _ Ef l0 Hl0) as Hn. cbv beta in Hn.
      exact (eq_true_false_abs _ Hp0 Hn).
  Qed.

  Lemma c6_chk_search_spec k (S : vec) (c : list nat) : @nth_error (list nat) Cc k = Some c ->
    pair S c = true -> search k S = PFound c 0%Z.
  Proof. intros Hc Hp. unfold chk_search. rewrite Hc. unfold pairing in Hp. rewrite Hp. reflexivity. Qed.

  (* hence phase k of the verification run accepts the k-th given cycle *)
  Lemma c6_phase k sup : sva_inv fi Z search k sup (firstn k Cc) -> k < N -> k < length Cc ->
    search k (nth k (swapped select k sup) []) = PFound (nth k Cc []) 0%Z.
  Proof.
    intros I HkN HkL. pose proof (inv_len _ _ _ _ _ _ I) as Il.
    destruct (c6_progress k sup I HkN HkL) as (l0 & Hl0 & Hp0).
    assert (Hodd : pair (nth k (swapped select k sup) []) (nth k Cc []) = true).
    { destruct (c6_chk_select_spec k sup (nth k Cc [])) as (Hin & Hv).
      - apply c6_nth_error_nth. exact HkL.
      - exists l0. split; [exact Hl0|exact Hp0].
      - apply in_seq in Hin. unfold swapped.
        destruct (Nat.eqb_spec (select k sup) k) as [E|Hne]; [rewrite E in Hv; exact Hv|].
        rewrite nth_swap_nth by lia.
        destruct (Nat.eqb_spec k (select k sup)) as [E|_]; [exfalso; apply Hne; symmetry; exact E|].
        rewrite Nat.eqb_refl. exact Hv. }
    apply c6_chk_search_spec; [apply c6_nth_error_nth; exact HkL|exact Hodd].
  Qed.

  (* THE RUN: n more phases succeed as long as cycles and coordinates remain *)
  Lemma c6_run : forall n k sup acc total, k + n <= N -> k + n <= length Cc ->
    sva_inv fi Z search k sup (rev acc) -> rev acc = firstn k Cc ->
    exists tot supf,
      sva_phases Z Z.add select search fi (seq k n) sup acc total = SvaOk (firstn (k + n) Cc) tot supf
      /\ sva_inv fi Z search (k + n) supf (firstn (k + n) Cc).
  Proof.
    induction n as [|n IH]; intros k sup acc total HN HL I Hacc.
    - cbn [seq sva_phases]. rewrite Nat.add_0_r, <- Hacc. eauto.
    - cbn [seq]. rewrite sva_phases_unfold.
      assert (HkN : k < N) by lia. assert (HkL : k < length Cc) by lia.
      assert (I' : sva_inv fi Z search k sup (firstn k Cc)) by (rewrite <- Hacc; exact I).
      rewrite (c6_phase k sup I' HkN HkL).
      replace (k + S n) with (S k + n) by lia.
      apply IH; [lia|lia| |].
      + cbn [rev]. apply (sva_inv_step g fi Z select search c6_snd c6_sel k sup (rev acc) _ 0%Z);
          [exact I|exact HkN|]. apply c6_phase; assumption.
      + cbn [rev]. rewrite Hacc. symmetry. apply c6_firstn_S. exact HkL.
  Qed.

  Lemma c6_run0 n : n <= N -> n <= length Cc ->
    exists tot supf,
      sva_phases Z Z.add select search fi (seq 0 n) (map (fun i => [i]) (seq 0 N)) [] 0%Z
        = SvaOk (firstn n Cc) tot supf
      /\ sva_inv fi Z search n supf (firstn n Cc).
  Proof.
    intros HN HL. apply (c6_run n 0); [lia|lia| |reflexivity].
    cbn [rev]. apply sva_inv_init.
  Qed.

  (* (a) an independent family of simple cycles has at most csd members *)
  Lemma c6_length_le : length Cc <= N.
  Proof.
    destruct (Nat.le_gt_cases (length Cc) N) as [Hle|Hgt]; [exact Hle|exfalso].
    destruct (c6_run0 N (le_n _) ltac:(lia)) as (tot & supf & _ & I).
    destruct (sva_inv_final g roots fi Hs Hr Hci Z search c6_snd supf _ I) as (_ & _ & HV & HT & Hnd).
    pose proof (depina_spans inV pair c6_sub c6_lin supf (firstn N Cc) HV HT Hnd) as Hsp.
    apply (c6_indep_prefix Cc N c6_sorted Hind Hgt).
    apply Hsp. pose proof c6_inV as HVc. rewrite Forall_forall in HVc. apply HVc, nth_In. exact Hgt.
  Qed.

  (* (b) a spanning one has at least csd members *)
  Lemma c6_length_ge : spans inV Cc -> N <= length Cc.
  Proof.
    intros Hsp. destruct (Nat.le_gt_cases N (length Cc)) as [Hle|Hgt]; [exact Hle|exfalso].
    destruct (c6_run0 (length Cc) ltac:(lia) (le_n _)) as (tot & supf & _ & I).
    rewrite firstn_all in I.
    destruct (sva_inv_row fi Z search _ _ _ (length Cc) I Hgt) as (SS & SN & SB).
    destruct (rf_odd_cycle_exists g roots fi _ Hs Hr Hci SS SN SB) as (D & HD & HoD).
    destruct (rf_simple_cycle_edges g D HD) as (HDs & HDb).
    assert (Hp : pair (nth (length Cc) supf []) D = true).
    { rewrite (rf_bridge g roots fi _ D Hs Hr Hci SS SB HDs HDb). exact HoD. }
    destruct (Hsp D (simple_cycle_in_cycle_space g D Hs HD)) as (m & Hm & Hc).
    rewrite <- Hc in Hp.
    rewrite (dp_pair_comb_orth inV pair c6_sub c6_lin) in Hp; [discriminate|exact c6_inV|].
    intros i Hi _. apply (inv_low _ _ _ _ _ _ I); lia.
  Qed.
End Run.

(* ---- the dimension theorem ------------------------------------------------------------------------ *)

Theorem rf_cycle_basis_length_index g roots fi B :
  simple_graph g -> (forall v, v < nv g -> In v roots) -> create_index g roots = Some fi ->
  cycle_basis g B -> length B = fi_csd fi.
Proof.
  intros Hs Hr Hci (HB & Hind & Hsp).
  pose proof (c6_length_le g roots fi Hs Hr Hci B HB Hind).
  pose proof (c6_length_ge g roots fi Hs Hr Hci B HB Hind Hsp). lia.
Qed.

Theorem rf_cycle_basis_length g B :
  simple_graph g -> cycle_basis g B -> has_cycle_space_dimension g (length B).
Proof.
  intros Hs HB. set (roots := seq 0 (nv g)).
  assert (Hr : forall v, v < nv g -> In v roots) by (intros v Hv; apply in_seq; lia).
  destruct (create_index_correct g roots Hs Hr) as (fi & Hci & _ & _ & _ & _ & Hc & Hd & _).
  rewrite (rf_cycle_basis_length_index g roots fi B Hs Hr Hci HB).
  exists (fi_k fi). split; assumption.
Qed.

(* all cycle bases of a simple graph have the same number of members *)
Corollary rf_cycle_bases_equal_length g B B' :
  simple_graph g -> cycle_basis g B -> cycle_basis g B' -> length B = length B'.
Proof.
  intros Hs HB HB'. set (roots := seq 0 (nv g)).
  assert (Hr : forall v, v < nv g -> In v roots) by (intros v Hv; apply in_seq; lia).
  destruct (create_index_correct g roots Hs Hr) as (fi & Hci & _).
  rewrite (rf_cycle_basis_length_index g roots fi B Hs Hr Hci HB).
  rewrite (rf_cycle_basis_length_index g roots fi B' Hs Hr Hci HB'). reflexivity.
Qed.

(* ---- completeness of basis_checkb ------------------------------------------------------------------ *)

Theorem rf_basis_checkb_complete g roots Cs :
  simple_graph g -> (forall v, v < nv g -> In v roots) ->
  Forall (fun l => NoDup l) Cs -> cycle_basis g (map set_of_list Cs) ->
  basis_checkb g roots Cs = true.
Proof.
  intros Hs Hr HND HB. pose proof HB as (HF & Hind & Hsp).
  destruct (create_index_correct g roots Hs Hr) as (fi & Hci & _).
  pose proof (rf_cycle_basis_length_index g roots fi _ Hs Hr Hci HB) as Hlen.
  unfold basis_checkb. apply andb_true_iff. split.
  - apply forallb_forall. intros l Hl. apply rf_is_simple_cycle_rawb_complete; [exact Hs| |].
    + rewrite Forall_forall in HND. apply HND; exact Hl.
    + rewrite Forall_forall in HF. apply HF, in_map; exact Hl.
  - rewrite Hci. cbv zeta. apply andb_true_iff. split.
    + apply Nat.eqb_eq. rewrite map_length in Hlen. exact Hlen.
    + unfold sva_run.
      destruct (c6_run0 g roots fi Hs Hr Hci (map set_of_list Cs) HF Hind (fi_csd fi) (le_n _) ltac:(lia))
        as (tot & supf & -> & _).
      reflexivity.
Qed.

(* ---- completeness of mcb_checkb --------------------------------------------------------------------- *)

Theorem rf_mcb_checkb_complete_from : sva_generic_min_stmt -> sva_generic_total_stmt ->
  forall g wts roots Cs,
    simple_graph g -> positive_weights g wts -> (forall v, v < nv g -> In v roots) ->
    Forall (fun l => NoDup l) Cs -> min_cycle_basis g wts (map set_of_list Cs) ->
    mcb_checkb g wts roots Cs = true.
Proof.
  intros Hgm Hgt g wts roots Cs Hs Hpw Hr HND HM. pose proof HM as (HB & _).
  unfold mcb_checkb, mcb_check_with. apply andb_true_iff. split.
  - apply rf_basis_checkb_complete; assumption.
  - destruct (rf_opt_weight_total_from Hgt g wts roots Hs Hpw Hr) as (x & Ex). rewrite Ex.
    apply Z.eqb_eq. destruct (rf_opt_weight_from Hgm g wts roots x Hs Hpw Hr Ex) as (Hall & _).
    apply Hall. exact HM.
Qed.

Theorem rf_mcb_checkb_complete g wts roots Cs :
  simple_graph g -> positive_weights g wts -> (forall v, v < nv g -> In v roots) ->
  Forall (fun l => NoDup l) Cs -> min_cycle_basis g wts (map set_of_list Cs) ->
  mcb_checkb g wts roots Cs = true.
Proof. exact (rf_mcb_checkb_complete_from sva_generic_min sva_generic_total g wts roots Cs). Qed.

(* the same for the variant with a precomputed optimum *)
Theorem rf_mcb_check_with_complete g wts roots Cs :
  simple_graph g -> positive_weights g wts -> (forall v, v < nv g -> In v roots) ->
  Forall (fun l => NoDup l) Cs -> min_cycle_basis g wts (map set_of_list Cs) ->
  mcb_check_with (opt_weight g wts roots) g wts roots Cs = true.
Proof. exact (rf_mcb_checkb_complete g wts roots Cs). Qed.

(* ---- the checkers DECIDE ----------------------------------------------------------------------------- *)

Theorem rf_basis_checkb_decides g roots Cs :
  simple_graph g -> (forall v, v < nv g -> In v roots) ->
  (basis_checkb g roots Cs = true <->
   Forall (fun l => NoDup l) Cs /\ cycle_basis g (map set_of_list Cs)).
Proof.
  intros Hs Hr. split.
  - intros H. destruct (rf_basis_checkb_sound_from sva_generic_basis g roots Cs Hs Hr H) as (H1 & H2 & _).
    split; assumption.
  - intros (H1 & H2). apply rf_basis_checkb_complete; assumption.
Qed.

Theorem rf_mcb_checkb_decides g wts roots Cs :
  simple_graph g -> positive_weights g wts -> (forall v, v < nv g -> In v roots) ->
  (mcb_checkb g wts roots Cs = true <->
   Forall (fun l => NoDup l) Cs /\ min_cycle_basis g wts (map set_of_list Cs)).
Proof.
  intros Hs Hpw Hr. split.
  - intros H.
    destruct (rf_mcb_checkb_sound_from sva_generic_basis sva_generic_min g wts roots Cs Hs Hpw Hr H) as (H2 & _).
    split; [|exact H2].
    unfold mcb_checkb, mcb_check_with in H. apply andb_true_iff in H as [Hb _].
    apply (rf_basis_checkb_sound_from sva_generic_basis g roots Cs Hs Hr Hb).
  - intros (H1 & H2). apply rf_mcb_checkb_complete; assumption.
Qed.

(* the same with the full raw simple-cycle predicate of the simple-cycle checker spelt out per member
   (its second half is implied by cycle_basis; stated for direct comparison with
   rf_is_simple_cycle_rawb_sound / _complete) *)
Definition raw_simple_cycle (g : graph) (l : list nat) : Prop := NoDup l /\ simple_cycle g (set_of_list l).

Theorem rf_basis_checkb_decides_raw g roots Cs :
  simple_graph g -> (forall v, v < nv g -> In v roots) ->
  (basis_checkb g roots Cs = true <->
   Forall (raw_simple_cycle g) Cs /\ cycle_basis g (map set_of_list Cs)).
Proof.
  intros Hs Hr. rewrite (rf_basis_checkb_decides g roots Cs Hs Hr). split.
  - intros (H1 & H2). split; [|exact H2]. destruct H2 as (HF & _).
    rewrite Forall_forall in *. intros l Hl. split; [apply H1; exact Hl|apply HF, in_map; exact Hl].
  - intros (H1 & H2). split; [|exact H2]. eapply Forall_impl; [|exact H1]. intros l (Hl & _). exact Hl.
Qed.

Theorem rf_mcb_checkb_decides_raw g wts roots Cs :
  simple_graph g -> positive_weights g wts -> (forall v, v < nv g -> In v roots) ->
  (mcb_checkb g wts roots Cs = true <->
   Forall (raw_simple_cycle g) Cs /\ min_cycle_basis g wts (map set_of_list Cs)).
Proof.
  intros Hs Hpw Hr. rewrite (rf_mcb_checkb_decides g wts roots Cs Hs Hpw Hr). split.
  - intros (H1 & H2). split; [|exact H2]. destruct H2 as ((HF & _) & _).
    rewrite Forall_forall in *. intros l Hl. split; [apply H1; exact Hl|apply HF, in_map; exact Hl].
  - intros (H1 & H2). split; [|exact H2]. eapply Forall_impl; [|exact H1]. intros l (Hl & _). exact Hl.
Qed.

(* a rejection is therefore a proof that the family is NOT a (minimum) cycle basis *)
Corollary rf_basis_checkb_reject g roots Cs :
  simple_graph g -> (forall v, v < nv g -> In v roots) ->
  basis_checkb g roots Cs = false ->
  ~ (Forall (fun l => NoDup l) Cs /\ cycle_basis g (map set_of_list Cs)).
Proof.
  intros Hs Hr H HB. apply (rf_basis_checkb_decides g roots Cs Hs Hr) in HB. rewrite H in HB. discriminate.
Qed.

Corollary rf_mcb_checkb_reject g wts roots Cs :
  simple_graph g -> positive_weights g wts -> (forall v, v < nv g -> In v roots) ->
  mcb_checkb g wts roots Cs = false ->
  ~ (Forall (fun l => NoDup l) Cs /\ min_cycle_basis g wts (map set_of_list Cs)).
Proof.
  intros Hs Hpw Hr H HB. apply (rf_mcb_checkb_decides g wts roots Cs Hs Hpw Hr) in HB.
  rewrite H in HB. discriminate.
Qed.

Print Assumptions rf_cycle_basis_length.
Print Assumptions rf_basis_checkb_complete.
Print Assumptions rf_mcb_checkb_complete.
Print Assumptions rf_basis_checkb_decides.
Print Assumptions rf_mcb_checkb_decides.
Print Assumptions rf_mcb_checkb_decides_raw.
