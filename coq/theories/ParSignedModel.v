(* ParSignedModel.v — executable model of include/parmcb/parmcb_sva_signed_tbb.hpp
     detail::OddCycleFinder (find, find_single_edge, find_all_vertices, find_less_than_vertices) and mcb_sva_signed_tbb,
   built from the search of SignedModel.v (bidirectional_signed_dijkstra, modelled exactly), the support-vector helpers
   of SvaModel.v and the TBB semantics of SchedModel.v.  Generic in the weight type; the Z instance at the end is what
   the correspondence check of C03 runs against the real code compiled against the controllable fake TBB.
   Definitions only.

   Oracles: `roots` (BFS root order, ForestModel), `eord` (pointer order of the edge descriptors: iteration order of the
   std::set<Edge> holding the signed edges) and `bits`, the schedule stream: every tbb::parallel_for / parallel_reduce
   of the run reads its schedule tree from `bits` at the current position (SchedModel.tree_of_bits), and the position is
   threaded through the whole run in program order, exactly as the shim's global position is; `perm`, an optional explicit
   insertion order of the concurrently pushed initial supports (pushes of different tasks may interleave in ways no
   sequential execution of the chunks produces; the shim rearranges the pushed elements accordingly, verif_sched.h).

   Differences from the sequential mcb_sva_signed that this model reproduces:
     * the initial supports are push_back'ed from inside a parallel_for: they arrive in the execution order of the
       schedule, i.e. support[] starts as a permutation of the unit vectors;
     * the sparsest-support scan has NO early exit (`size < 5`);
     * a witness with exactly one signed edge goes to find_single_edge: the search runs with an EMPTY signed set and
       hidden = {se}, without limit;
     * |S| >= n: parallel_reduce over the vertices; otherwise parallel_reduce over the signed edges in pointer order,
       search i hiding the suffix se_i.. of that order; both with the running minimum of the *current accumulator* as
       limit and `cycle_min` (left-biased, not-found = identity) as join;
     * the supports k+1.. are updated by a parallel_for.
   Deliberate deviation: when a phase finds no cycle the C++ carries on with an empty cycle and weight
   numeric_limits::max (there is no assert in the TBB variant); the model stops with the explicit value SvaNoCycle k. *)
From Coq Require Import ZArith.
From Parmcb Require Export SignedModel SchedModel.

Section ParSigned.
  Variable W : Type.
  Variable w0 : W.
  Variable wadd : W -> W -> W.
  Variable wltb : W -> W -> bool.           (* std::less *)
  Variable eord : nat -> nat.               (* rank of an edge id in pointer order *)
  Variable bits : list bool.                (* the schedule stream *)

  (* std::tuple<std::set<Edge>, WeightType, bool>: None = (.., .., false) *)
  Definition cyc_t : Type := option (list nat * W).
  (* the same with the error value of the search model on top: None = SearchError / broken invariant *)
  Definition racc : Type := option cyc_t.

  (* the lambda cycle_min (identical in find_all_vertices and find_less_than_vertices) *)
  Definition cycle_min (c1 c2 : cyc_t) : cyc_t :=
    match c1, c2 with
    | Some (_, w1), Some (_, w2) => if negb (wltb w2 w1) then c1 else c2
    | Some _, None => c1
    | None, _ => c2
    end.
  Definition join_err (a b : racc) : racc :=
    match a, b with Some x, Some y => Some (cycle_min x y) | _, _ => None end.
  Definition ident_err : racc := Some None.

  (* one iteration of the loop in the body of find_all_vertices: vertices[i] = i *)
  Definition all_vertices_step (g : graph) (wts : list W) (signed : list nat) (i : nat) (acc : racc) : racc :=
    match acc with
    | None => None
    | Some best =>
        let P := {| sp_g := g; sp_wts := wts; sp_signed := signed; sp_hidden := [];
                    sp_use_hidden := false; sp_limit := limit_of W best |} in
        match bidirectional_signed_dijkstra W w0 wadd wltb P i true i false with
        | SearchError _ => None
        | NotFound _ => Some best
        | Found _ c w => Some (if better W wltb w best then Some (c, w) else best)
        end
    end.

  (* one iteration of the loop in the body of find_less_than_vertices: sev = signed_edges_as_vector,
     hidden_edges_per_edge.at(sev[i]) = {sev[i], sev[i+1], ...} *)
  Definition hidden_step (g : graph) (wts : list W) (signed sev : list nat) (i : nat) (acc : racc) : racc :=
    match acc with
    | None => None
    | Some best =>
        match nth_error sev i with
        | None => None                         (* .at(i) out of range: not reachable, i < |sev| *)
        | Some se =>
            match ends g se with
            | None => None
            | Some (sv, su) =>
                let P := {| sp_g := g; sp_wts := wts; sp_signed := signed; sp_hidden := skipn i sev;
                            sp_use_hidden := true; sp_limit := limit_of W best |} in
                match bidirectional_signed_dijkstra W w0 wadd wltb P sv true su true with
                | SearchError _ => None
                | NotFound _ => Some best
                | Found _ c w =>
                    if memb se c then Some best
                    else
                      let w' := wadd w (wtof W w0 wts se) in
                      Some (if better W wltb w' best then Some (set_insert se c, w') else best)
                end
            end
        end
    end.

  (* find_single_edge: signed set EMPTY, hidden = {se}, no limit; `best` is the default tuple (not found) *)
  Definition find_single_edge (g : graph) (wts : list W) (se : nat) : racc :=
    match ends g se with
    | None => None
    | Some (sv, su) =>
        let P := {| sp_g := g; sp_wts := wts; sp_signed := []; sp_hidden := [se];
                    sp_use_hidden := true; sp_limit := None |} in
        match bidirectional_signed_dijkstra W w0 wadd wltb P sv true su true with
        | SearchError _ => None
        | NotFound _ => Some None
        | Found _ c w =>
            if memb se c then Some None
            else Some (Some (set_insert se c, wadd w (wtof W w0 wts se)))
        end
    end.

  (* OddCycleFinder::find(support); returns the result and the new position in the schedule stream *)
  Definition find (g : graph) (wts : list W) (fi : forest_index) (S : vec) (pos : nat) : racc * nat :=
    let signed := indices_to_edges fi S in
    match signed with
    | [se] => (find_single_edge g wts se, pos)
    | _ =>
        if Nat.leb (nv g) (length signed) then
          let (t, pos') := sched_of_bits bits pos (nv g) in
          (parallel_reduce racc (all_vertices_step g wts signed) join_err ident_err t 0, pos')
        else
          let sev := sort_eord eord signed in
          let (t, pos') := sched_of_bits bits pos (length sev) in
          (parallel_reduce racc (hidden_step g wts signed sev) join_err ident_err t 0, pos')
    end.

  (* the sparsest-support scan of the TBB variant: r = k+1 .. csd-1, no early exit *)
  Fixpoint min_support_noexit (sup : list vec) (cur : nat) (rs : list nat) : nat :=
    match rs with
    | [] => cur
    | r :: rs' =>
        min_support_noexit sup (if Nat.ltb (length (nth r sup [])) (length (nth cur sup [])) then r else cur) rs'
    end.
  Definition select_min_support_tbb (csd k : nat) (sup : list vec) : nat :=
    min_support_noexit sup k (seq (S k) (csd - S k)).

  (* the body of the updating parallel_for on the chunk [b, b+l):
       for i in chunk: if (support[i] * cyclek == 1) support[i] += support[k]
     (row k is read when the chunk runs; it is outside every chunk) *)
  Definition update_chunk (k : nat) (cyclek : vec) (b l : nat) (sup : list vec) : list vec :=
    let Sk := nth k sup [] in
    map (fun lS => if Nat.leb b (fst lS) && Nat.ltb (fst lS) (b + l) && vdot (snd lS) cyclek
                   then vadd (snd lS) Sk else snd lS)
        (combine (seq 0 (length sup)) sup).

  (* the main loop from phase k on *)
  Fixpoint par_phases (g : graph) (wts : list W) (fi : forest_index) (ks : list nat) (sup : list vec) (pos : nat)
           (acc : list (list nat)) (total : W) : sva_result W * nat :=
    match ks with
    | [] => (SvaOk (rev acc) total sup, pos)
    | k :: ks' =>
        let csd := fi_csd fi in
        let ms := select_min_support_tbb csd k sup in
        let S1 := if Nat.eqb ms k then sup else swap_nth sup k ms in
        let (r, pos1) := find g wts fi (nth k S1 []) pos in
        match r with
        | None => (SvaError k, pos1)
        | Some None => (SvaNoCycle k, pos1)
        | Some (Some (c, w)) =>
            let cyclek := edges_to_indices fi c in
            let (t, pos2) := sched_of_bits bits pos1 (csd - S k) in
            let S2 := parallel_for (list vec) (update_chunk k cyclek) t (S k) S1 in
            par_phases g wts fi ks' S2 pos2 (c :: acc) (wadd total w)
        end
    end.

  (* the explicit push permutation: pushes e_0 .. e_{m-1} (execution order) are rearranged so that position j holds
     e_{perm[j]}; an invalid permutation is ignored.  (nth's default is not reachable: valid_perm bounds every entry.) *)
  Definition valid_perm (perm : list nat) (m : nat) : bool :=
    Nat.eqb (length perm) m && forallb (fun i => memb i perm) (seq 0 m).
  Definition shuffle (perm : list nat) (E : list nat) : list nat :=
    if valid_perm perm (length E) then map (fun p => nth p E 0) perm else E.

  (* the supports after the initialising parallel_for: unit vectors in push order *)
  Definition initial_supports (t : sched) (perm : list nat) : list vec :=
    map (fun i => [i]) (shuffle perm (exec_order t 0)).

  (* mcb_sva_signed_tbb; the second component is the number of schedule bits consumed *)
  Definition mcb_sva_signed_tbb (perm : list nat) (g : graph) (wts : list W) (roots : list nat) : sva_result W * nat :=
    match create_index g roots with
    | None => (SvaNoIndex, 0)
    | Some fi =>
        let csd := fi_csd fi in
        let (t0, pos0) := sched_of_bits bits 0 csd in
        par_phases g wts fi (seq 0 csd) (initial_supports t0 perm) pos0 [] w0
    end.
End ParSigned.

(* the exact-domain instance run by the correspondence check (extraction group "c03") *)
Definition mcb_sva_signed_tbb_Z (g : graph) (wts : list Z) (roots : list nat) (eord : list nat) (bits : list bool)
           (perm : list nat) : sva_result Z * nat :=
  mcb_sva_signed_tbb Z 0%Z Z.add Z.ltb (fun e => nth e eord 0) bits perm g wts roots.
