(* LexSPProofsHeap.v — lemmas about HeapModel.v (the 4-ary indirect heap) used by the C12 proofs:
   every operation permutes the heap array (push adds, pop removes the top), and a heap property
   *projected through a measure* m : K -> Z is maintained by push / pop / decrease-key for every comparison
   that refines the measure (kltb a b = true -> m a <= m b; kltb a b = false -> m b <= m a).  The comparison
   itself need not be transitive (LexDistanceCompare is not, on arbitrary labels).  Prefix hp_. *)
From Coq Require Import List Arith Bool Lia ZArith Permutation.
From Parmcb Require Import GraphModel HeapModel.
Import ListNotations.

(* ---- set_nth / nth ------------------------------------------------------------------ *)

Lemma hp_set_nth_length {A} (l : list A) : forall i x, length (set_nth l i x) = length l.
Proof.
  induction l as [|y l IH]; intros i x; [reflexivity|].
  destruct i as [|i]; cbn [set_nth length]; auto.
Qed.

Lemma hp_nth_set_nth_eq {A} (l : list A) : forall i x d, i < length l -> nth i (set_nth l i x) d = x.
Proof.
  induction l as [|y l IH]; intros i x d Hi; cbn [length] in Hi; [lia|].
  destruct i as [|i]; cbn [set_nth nth]; auto. apply IH. lia.
Qed.

Lemma hp_nth_set_nth_neq {A} (l : list A) : forall i j x d, i <> j -> nth j (set_nth l i x) d = nth j l d.
Proof.
  induction l as [|y l IH]; intros i j x d Hij; [reflexivity|].
  destruct i as [|i], j as [|j]; cbn [set_nth nth]; auto; try lia; try (apply IH; lia).
Qed.

Lemma hp_nth_set_nth {A} (l : list A) i j x d :
  nth j (set_nth l i x) d = if Nat.eqb i j then (if Nat.ltb i (length l) then x else nth j l d) else nth j l d.
Proof.
  destruct (Nat.eqb_spec i j) as [->|Hne].
  - destruct (Nat.ltb_spec j (length l)) as [Hl|Hl].
    + apply hp_nth_set_nth_eq; exact Hl.
    + rewrite !nth_overflow; auto. rewrite hp_set_nth_length; exact Hl.
  - apply hp_nth_set_nth_neq; exact Hne.
Qed.

Lemma hp_set_nth_perm1 (l : list nat) : forall i a d, i < length l ->
  Permutation (nth i l d :: set_nth l i a) (a :: l).
Proof.
  induction l as [|y l IH]; intros i a d Hi; cbn [length] in Hi; [lia|].
  destruct i as [|i]; cbn [set_nth nth].
  - apply perm_swap.
  - eapply perm_trans; [apply perm_swap|]. eapply perm_trans; [|apply perm_swap].
    apply perm_skip. apply IH. lia.
Qed.

(* swapping two positions (written in the two orders the heap code uses) is a permutation *)
Lemma hp_swap_perm_up (l : list nat) : forall p i, p < i -> i < length l ->
  Permutation (set_nth (set_nth l i (nth p l 0)) p (nth i l 0)) l.
Proof.
  induction l as [|a l IH]; intros p i Hp Hi; cbn [length] in Hi; [lia|].
  destruct i as [|i]; [lia|]. destruct p as [|p]; cbn [set_nth nth].
  - apply hp_set_nth_perm1. lia.
  - apply perm_skip. apply IH; lia.
Qed.

Lemma hp_swap_perm_down (l : list nat) : forall p i, p < i -> i < length l ->
  Permutation (set_nth (set_nth l p (nth i l 0)) i (nth p l 0)) l.
Proof.
  induction l as [|a l IH]; intros p i Hp Hi; cbn [length] in Hi; [lia|].
  destruct i as [|i]; [lia|]. destruct p as [|p]; cbn [set_nth nth].
  - apply hp_set_nth_perm1. lia.
  - apply perm_skip. apply IH; lia.
Qed.

Lemma hp_nth_firstn {A} (l : list A) : forall k i d, i < k -> nth i (firstn k l) d = nth i l d.
Proof.
  induction l as [|y l IH]; intros k i d Hik; [destruct k; reflexivity|].
  destruct k as [|k]; [lia|]. destruct i as [|i]; cbn [firstn nth]; auto. apply IH; lia.
Qed.

Lemma hp_nth_skipn {A} (l : list A) : forall a i d, nth i (skipn a l) d = nth (a + i) l d.
Proof.
  induction l as [|y l IH]; intros a i d.
  - rewrite skipn_nil. generalize (a + i). intros k. destruct i, k; reflexivity.
  - destruct a as [|a]; [reflexivity|]. cbn [skipn plus nth]. apply IH.
Qed.

Lemma hp_children_nth (data : list nat) fc si d :
  si < length (firstn 4 (skipn fc data)) ->
  nth si (firstn 4 (skipn fc data)) d = nth (fc + si) data d /\ si < 4 /\ fc + si < length data.
Proof.
  intros Hsi. rewrite firstn_length, skipn_length in Hsi.
  rewrite hp_nth_firstn by lia. rewrite hp_nth_skipn. lia.
Qed.

Lemma hp_children_length (data : list nat) fc :
  length (firstn 4 (skipn fc data)) = Nat.min 4 (length data - fc).
Proof. rewrite firstn_length, skipn_length. reflexivity. Qed.

(* ---- parent / child arithmetic -------------------------------------------------------- *)

Lemma hp_parent_spec i j : 0 < j -> (hparent j = i <-> 4 * i + 1 <= j <= 4 * i + 4).
Proof.
  intros Hj. unfold hparent.
  pose proof (Nat.div_mod (j - 1) 4 ltac:(lia)) as H1.
  pose proof (Nat.mod_upper_bound (j - 1) 4 ltac:(lia)) as H2.
  split; intros H; [lia|].
  assert (Hq : (j - 1) / 4 < i + 1 /\ i < (j - 1) / 4 + 1); [|lia].
  split.
  - apply Nat.div_lt_upper_bound; lia.
  - destruct (Nat.lt_ge_cases i ((j - 1) / 4 + 1)) as [Hlt|Hge]; auto. exfalso.
    assert (4 * ((j - 1) / 4) + 4 <= 4 * i) by lia. lia.
Qed.

Lemma hp_parent_lt j : 0 < j -> hparent j < j.
Proof.
  intros Hj. unfold hparent. apply Nat.div_lt_upper_bound; lia.
Qed.

(* ---- find_pos ------------------------------------------------------------------------- *)

Lemma hp_find_pos_some v data : forall k i, find_pos v data k = Some i ->
  k <= i /\ i - k < length data /\ nth (i - k) data 0%nat = v.
Proof.
  induction data as [|x r IH]; intros k i H; cbn [find_pos] in H; [discriminate|].
  destruct (Nat.eqb_spec x v) as [->|Hne].
  - inversion H; subst. replace (i - i) with 0 by lia. cbn [length nth]. repeat split; lia.
  - apply IH in H as [H1 [H2 H3]]. cbn [length].
    replace (i - k) with (S (i - S k)) by lia. cbn [nth]. repeat split; auto; lia.
Qed.

Lemma hp_find_pos_none v data : forall k, find_pos v data k = None <-> ~ In v data.
Proof.
  induction data as [|x r IH]; intros k; cbn [find_pos In]; [tauto|].
  destruct (Nat.eqb_spec x v) as [->|Hne].
  - split; [discriminate|]. intros H; exfalso; apply H; auto.
  - rewrite IH. tauto.
Qed.

Section HeapFacts.
  Variable K : Type.
  Variable kltb : K -> K -> bool.

  (* ---- permutation ------------------------------------------------------------------ *)
  Section Perm.
    Variable key : nat -> K.

    Lemma hp_sift_up_perm : forall fuel data i, i < length data ->
      Permutation (sift_up K kltb key fuel data i) data.
    Proof.
      induction fuel as [|fuel IH]; intros data i Hi; cbn [sift_up]; [apply Permutation_refl|].
      destruct i as [|i']; [apply Permutation_refl|].
      set (i := S i') in *. set (p := hparent i).
      assert (Hp : p < i) by (apply hp_parent_lt; unfold i; lia).
      destruct (kltb (key (nth i data 0%nat)) (key (nth p data 0%nat))); [|apply Permutation_refl].
      eapply perm_trans; [apply IH|apply hp_swap_perm_up; auto].
      rewrite !hp_set_nth_length. lia.
    Qed.

    Lemma hp_smallest_child_idx : forall cs i besti bestk si sk,
      smallest_child K kltb key cs i besti bestk = (si, sk) ->
      (si = besti /\ sk = bestk) \/ (i <= si < i + length cs /\ sk = key (nth (si - i) cs 0)).
    Proof.
      induction cs as [|c r IH]; intros i besti bestk si sk H; cbn [smallest_child] in H.
      - inversion H; auto.
      - destruct (kltb (key c) bestk).
        + apply IH in H as [[-> ->]|[H1 H2]].
          * right. replace (i - i) with 0 by lia. cbn [length nth]. split; [lia|reflexivity].
          * right. cbn [length]. split; [lia|]. rewrite H2. f_equal.
            replace (si - i) with (S (si - S i)) by lia. reflexivity.
        + apply IH in H as [[-> ->]|[H1 H2]]; [left; auto|].
          right. cbn [length]. split; [lia|]. rewrite H2. f_equal.
          replace (si - i) with (S (si - S i)) by lia. reflexivity.
    Qed.

    (* in the call made by sift_down the result is a position inside the children list *)
    Lemma hp_smallest_child_call c0 cs si sk :
      smallest_child K kltb key cs 1 0 (key c0) = (si, sk) ->
      si < length (c0 :: cs) /\ sk = key (nth si (c0 :: cs) 0).
    Proof.
      intros H. apply hp_smallest_child_idx in H as [[-> ->]|[H1 H2]]; cbn [length nth].
      - split; [lia|reflexivity].
      - split; [lia|]. rewrite H2. destruct si as [|si]; [lia|]. cbn [nth]. f_equal. f_equal. lia.
    Qed.

    Lemma hp_sift_down_perm : forall fuel data i,
      Permutation (sift_down K kltb key fuel data i) data.
    Proof.
      induction fuel as [|fuel IH]; intros data i; cbn [sift_down]; [apply Permutation_refl|].
      destruct (firstn 4 (skipn (4 * i + 1) data)) as [|c0 cs] eqn:Ech; [apply Permutation_refl|].
      destruct (smallest_child K kltb key cs 1 0 (key c0)) as [si sk] eqn:Esc.
      destruct (kltb sk (key (nth i data 0%nat))); [|apply Permutation_refl].
      apply hp_smallest_child_call in Esc as [Hsi _]. rewrite <- Ech in Hsi.
      apply (hp_children_nth data (4 * i + 1) si 0) in Hsi as [_ [_ Hlt]].
      eapply perm_trans; [apply IH|]. apply hp_swap_perm_down; lia.
    Qed.

    Lemma hp_push_perm data v : Permutation (heap_push K kltb key data v) (v :: data).
    Proof.
      unfold heap_push. eapply perm_trans; [apply hp_sift_up_perm; rewrite app_length; cbn [length]; lia|].
      eapply perm_trans; [apply Permutation_app_comm|]. apply Permutation_refl.
    Qed.

    Lemma hp_pop_perm x r : Permutation (x :: heap_pop K kltb key (x :: r)) (x :: r).
    Proof.
      apply perm_skip. unfold heap_pop. destruct r as [|y r']; [apply Permutation_refl|].
      eapply perm_trans; [apply hp_sift_down_perm|].
      assert (Hne : y :: r' <> []) by discriminate.
      destruct (exists_last Hne) as [r'' [l El]].
      replace (last (x :: y :: r') 0) with l.
      2:{ change (x :: y :: r') with ([x] ++ (y :: r')). rewrite El.
          rewrite app_assoc. rewrite last_last. reflexivity. }
      replace (removelast (x :: y :: r')) with (x :: r'').
      2:{ change (x :: y :: r') with ([x] ++ (y :: r')). rewrite El.
          rewrite app_assoc. rewrite removelast_last. reflexivity. }
      cbn [tl]. rewrite El. eapply perm_trans; [|apply Permutation_app_comm]. apply Permutation_refl.
    Qed.

    Lemma hp_update_some data v h :
      heap_update K kltb key data v = Some h -> In v data /\ Permutation h data.
    Proof.
      unfold heap_update. destruct (find_pos v data 0%nat) as [i|] eqn:E; [|discriminate].
      intros H. replace h with (sift_up K kltb key (S (length data)) data i) by congruence. clear H.
      apply hp_find_pos_some in E as [_ [H2 H3]].
      rewrite Nat.sub_0_r in *. split.
      - rewrite <- H3. apply nth_In; exact H2.
      - apply hp_sift_up_perm; exact H2.
    Qed.

    Lemma hp_update_none data v : heap_update K kltb key data v = None <-> ~ In v data.
    Proof.
      unfold heap_update. destruct (find_pos v data 0%nat) as [i|] eqn:E.
      - split; [discriminate|]. intros Hn. exfalso. apply Hn.
        apply hp_find_pos_some in E as [_ [H2 H3]]. rewrite Nat.sub_0_r in *.
        rewrite <- H3. apply nth_In; exact H2.
      - apply hp_find_pos_none in E. tauto.
    Qed.
  End Perm.

  (* ---- the heap property projected through a measure ----------------------------------- *)
  Variable m : K -> Z.
  Hypothesis m_lt : forall a b, kltb a b = true -> (m a <= m b)%Z.
  Hypothesis m_ge : forall a b, kltb a b = false -> (m b <= m a)%Z.

  Definition hp_heap (key : nat -> K) (data : list nat) : Prop :=
    forall j, 0 < j < length data -> (m (key (nth (hparent j) data 0%nat)) <= m (key (nth j data 0%nat)))%Z.

  Lemma hp_heap_top key data : hp_heap key data ->
    forall j, j < length data -> (m (key (nth 0 data 0%nat)) <= m (key (nth j data 0%nat)))%Z.
  Proof.
    intros Hh j. induction j as [j IH] using lt_wf_ind. intros Hj.
    destruct j as [|j']; [lia|]. set (j := S j') in *.
    assert (Hp : hparent j < j) by (apply hp_parent_lt; unfold j; lia).
    specialize (IH (hparent j) Hp ltac:(lia)). specialize (Hh j ltac:(unfold j in *; lia)). lia.
  Qed.

  Lemma hp_heap_key_ext key key' data :
    hp_heap key data -> (forall x, In x data -> key' x = key x) -> hp_heap key' data.
  Proof.
    intros Hh He j Hj. rewrite !He; [apply Hh; exact Hj| |]; apply nth_In.
    - lia.
    - pose proof (hp_parent_lt j ltac:(lia)). lia.
  Qed.

  Section Order.
    Variable key : nat -> K.
    Notation mk v := (m (key v)).

    (* heap property everywhere except between position i and its parent; children of i already
       dominate the parent of i *)
    Definition hp_up_pre (data : list nat) (i : nat) : Prop :=
      (forall j, 0 < j < length data -> j <> i -> (mk (nth (hparent j) data 0%nat) <= mk (nth j data 0%nat))%Z) /\
      (forall j, 0 < j < length data -> hparent j = i -> 0 < i ->
                 (mk (nth (hparent i) data 0%nat) <= mk (nth j data 0%nat))%Z).

    Lemma hp_sift_up_heap : forall fuel data i, i < fuel -> i < length data ->
      hp_up_pre data i -> hp_heap key (sift_up K kltb key fuel data i).
    Proof.
      induction fuel as [|fuel IH]; intros data i Hf Hi [P1 P2]; [lia|]. cbn [sift_up].
      destruct i as [|i'].
      { intros j Hj. apply P1; lia. }
      set (i := S i') in *. set (p := hparent i).
      assert (Hp : p < i) by (apply hp_parent_lt; unfold i; lia).
      set (vi := nth i data 0%nat). set (vp := nth p data 0%nat).
      destruct (kltb (key vi) (key vp)) eqn:Ek.
      - apply m_lt in Ek.
        apply IH; [lia|rewrite !hp_set_nth_length; lia|].
        set (data' := set_nth (set_nth data i vp) p vi).
        assert (Hlen : length data' = length data) by (unfold data'; rewrite !hp_set_nth_length; reflexivity).
        assert (Hn : forall j, nth j data' 0%nat = if Nat.eqb j p then vi else if Nat.eqb j i then vp else nth j data 0%nat).
        { intros j. unfold data'. rewrite !hp_nth_set_nth, !hp_set_nth_length.
          destruct (Nat.eqb_spec p j) as [->|Hpj].
          - rewrite Nat.eqb_refl. destruct (Nat.ltb_spec j (length data)); [reflexivity|lia].
          - destruct (Nat.eqb_spec j p); [lia|].
            destruct (Nat.eqb_spec i j) as [->|Hij].
            + rewrite Nat.eqb_refl. destruct (Nat.ltb_spec j (length data)); [reflexivity|lia].
            + destruct (Nat.eqb_spec j i); [lia|reflexivity]. }
        split.
        + intros j Hj Hjp. rewrite Hlen in Hj. rewrite !Hn.
          destruct (Nat.eqb_spec j p) as [|_]; [contradiction|].
          destruct (Nat.eqb_spec j i) as [->|Hji].
          * fold p. rewrite Nat.eqb_refl. exact Ek.
          * destruct (Nat.eqb_spec (hparent j) p) as [Epp|Hnpp].
            -- (* sibling of i under p *)
               specialize (P1 j Hj Hji). rewrite Epp in P1. fold vp in P1. lia.
            -- destruct (Nat.eqb_spec (hparent j) i) as [Epi|Hnpi].
               ++ apply (P2 j Hj Epi). unfold i; lia.
               ++ apply P1; auto.
        + intros j Hj Hjp Hp0. rewrite Hlen in Hj. rewrite !Hn.
          assert (Hpp : hparent p < p) by (apply hp_parent_lt; exact Hp0).
          destruct (Nat.eqb_spec (hparent p) p) as [|_]; [lia|].
          destruct (Nat.eqb_spec (hparent p) i) as [|_]; [lia|].
          assert (Hjgt : p < j) by (rewrite <- Hjp; apply hp_parent_lt; lia).
          destruct (Nat.eqb_spec j p) as [|_]; [lia|].
          assert (Hpv : (mk (nth (hparent p) data 0%nat) <= mk vp)%Z) by (apply (P1 p); lia).
          destruct (Nat.eqb_spec j i) as [->|Hji]; [exact Hpv|].
          specialize (P1 j Hj Hji). rewrite Hjp in P1. fold vp in P1. lia.
      - apply m_ge in Ek. intros j Hj.
        destruct (Nat.eq_dec j i) as [->|Hji]; [exact Ek|apply P1; auto].
    Qed.

    (* heap property everywhere except between position i and its children; children of i already
       dominate the parent of i *)
    Definition hp_down_pre (data : list nat) (i : nat) : Prop :=
      (forall j, 0 < j < length data -> hparent j <> i -> (mk (nth (hparent j) data 0%nat) <= mk (nth j data 0%nat))%Z) /\
      (forall j, 0 < j < length data -> hparent j = i -> 0 < i ->
                 (mk (nth (hparent i) data 0%nat) <= mk (nth j data 0%nat))%Z).

    Lemma hp_smallest_child_min : forall cs i besti bestk si sk,
      smallest_child K kltb key cs i besti bestk = (si, sk) ->
      (m sk <= m bestk)%Z /\ forall c, In c cs -> (m sk <= mk c)%Z.
    Proof.
      induction cs as [|c r IH]; intros i besti bestk si sk H; cbn [smallest_child] in H.
      - inversion H; subst. split; [lia|intros c []].
      - destruct (kltb (key c) bestk) eqn:Ek.
        + apply m_lt in Ek. apply IH in H as [H1 H2]. split; [lia|].
          intros c' [<-|Hc']; auto.
        + apply m_ge in Ek. apply IH in H as [H1 H2]. split; [lia|].
          intros c' [<-|Hc']; [lia|auto].
    Qed.

    Lemma hp_sift_down_heap : forall fuel data i, length data <= fuel + i ->
      hp_down_pre data i -> hp_heap key (sift_down K kltb key fuel data i).
    Proof.
      induction fuel as [|fuel IH]; intros data i Hf [Q1 Q2].
      { cbn [sift_down]. intros j Hj. apply Q1; [exact Hj|].
        intros Hc. apply hp_parent_spec in Hc; lia. }
      cbn [sift_down]. set (fc := 4 * i + 1).
      destruct (firstn 4 (skipn fc data)) as [|c0 cs] eqn:Ech.
      { (* no children *)
        intros j Hj. apply Q1; [exact Hj|]. intros Hc. apply hp_parent_spec in Hc; [|lia].
        pose proof (hp_children_length data fc) as Hl. rewrite Ech in Hl. cbn [length] in Hl. lia. }
      destruct (smallest_child K kltb key cs 1 0 (key c0)) as [si sk] eqn:Esc.
      pose proof (hp_smallest_child_min _ _ _ _ _ _ Esc) as [Hm0 Hmc].
      apply hp_smallest_child_call in Esc as [Hsi Hsk].
      assert (Hch : forall t, t < length (c0 :: cs) ->
                nth t (c0 :: cs) 0 = nth (fc + t) data 0%nat /\ t < 4 /\ fc + t < length data).
      { intros t Ht. rewrite <- Ech in *. apply hp_children_nth. exact Ht. }
      assert (Hlen4 : length (c0 :: cs) = Nat.min 4 (length data - fc)).
      { rewrite <- Ech. apply hp_children_length. }
      (* the selected child dominates every child *)
      assert (Hmin : forall j, j < length data -> hparent j = i -> 0 < j -> (m sk <= mk (nth j data 0%nat))%Z).
      { intros j Hj Hpj Hj0. apply hp_parent_spec in Hpj; [|exact Hj0].
        assert (Ht : j - fc < length (c0 :: cs)) by (rewrite Hlen4; unfold fc; lia).
        destruct (Hch _ Ht) as [E _]. replace (fc + (j - fc)) with j in E by (unfold fc; lia).
        rewrite <- E. destruct (j - fc) as [|t] eqn:Et; cbn [nth]; [exact Hm0|].
        apply Hmc. apply nth_In. cbn [length] in Ht. lia. }
      destruct (Hch _ Hsi) as [Esi [Hsi4 Hcilt]]. set (ci := fc + si) in *.
      set (cur := nth i data 0%nat).
      assert (Hcipar : hparent ci = i) by (apply hp_parent_spec; unfold ci, fc; lia).
      assert (Hski : sk = key (nth ci data 0%nat)) by (rewrite Hsk, Esi; reflexivity).
      destruct (kltb sk (key cur)) eqn:Ek.
      - apply m_lt in Ek.
        set (data' := set_nth (set_nth data i (nth ci data 0%nat)) ci cur).
        assert (Hlen : length data' = length data) by (unfold data'; rewrite !hp_set_nth_length; reflexivity).
        assert (Hici : i < ci) by (unfold ci, fc; lia).
        assert (Hn : forall j, nth j data' 0%nat = if Nat.eqb j ci then cur else if Nat.eqb j i then nth ci data 0%nat else nth j data 0%nat).
        { intros j. unfold data'. rewrite !hp_nth_set_nth, !hp_set_nth_length.
          destruct (Nat.eqb_spec ci j) as [->|Hcj].
          - rewrite Nat.eqb_refl. destruct (Nat.ltb_spec j (length data)); [reflexivity|lia].
          - destruct (Nat.eqb_spec j ci); [lia|].
            destruct (Nat.eqb_spec i j) as [->|Hij].
            + rewrite Nat.eqb_refl. destruct (Nat.ltb_spec j (length data)); [reflexivity|lia].
            + destruct (Nat.eqb_spec j i); [lia|reflexivity]. }
        apply IH; [rewrite Hlen; lia|]. split.
        + intros j Hj Hjp. rewrite Hlen in Hj. rewrite !Hn.
          assert (Hpj : hparent j < j) by (apply hp_parent_lt; lia).
          destruct (Nat.eqb_spec j ci) as [->|Hjci].
          * (* j = ci: its parent is i, which now holds the old child *)
            rewrite Hcipar. destruct (Nat.eqb_spec i ci); [lia|]. rewrite Nat.eqb_refl.
            rewrite <- Hski. exact Ek.
          * destruct (Nat.eqb_spec (hparent j) ci) as [|_]; [contradiction|].
            destruct (Nat.eqb_spec j i) as [->|Hji].
            -- (* j = i: new value is the old child; its parent is unchanged *)
               destruct (Nat.eqb_spec (hparent i) i) as [|_]; [lia|].
               apply (Q2 ci); [lia|exact Hcipar|lia].
            -- destruct (Nat.eqb_spec (hparent j) i) as [Epi|Hnpi].
               ++ (* another child of i *) rewrite <- Hski. apply Hmin; lia.
               ++ apply Q1; auto.
        + intros j Hj Hjp Hci0. rewrite Hlen in Hj. rewrite !Hn. rewrite Hcipar.
          destruct (Nat.eqb_spec i ci) as [|_]; [lia|]. rewrite Nat.eqb_refl.
          assert (Hjgt : ci < j) by (rewrite <- Hjp; apply hp_parent_lt; lia).
          destruct (Nat.eqb_spec j ci) as [|_]; [lia|].
          destruct (Nat.eqb_spec j i) as [|_]; [lia|].
          (* grandchild of i through ci: it dominated ci's old value *)
          assert (H1 : (mk (nth (hparent j) data 0%nat) <= mk (nth j data 0%nat))%Z) by (apply Q1; lia).
          rewrite Hjp in H1. rewrite <- Hski in *. lia.
      - apply m_ge in Ek. intros j Hj.
        destruct (Nat.eq_dec (hparent j) i) as [Hpj|Hpj]; [|apply Q1; auto].
        rewrite Hpj. fold cur. specialize (Hmin j ltac:(lia) Hpj ltac:(lia)). lia.
    Qed.

    Lemma hp_push_heap data v : hp_heap key data -> hp_heap key (heap_push K kltb key data v).
    Proof.
      intros Hh. unfold heap_push. apply hp_sift_up_heap; [lia|rewrite app_length; cbn [length]; lia|].
      split.
      - intros j Hj Hne. rewrite app_length in Hj. cbn [length] in Hj.
        pose proof (hp_parent_lt j ltac:(lia)).
        rewrite !app_nth1 by lia. apply Hh. lia.
      - intros j Hj Hpj _. rewrite app_length in Hj. cbn [length] in Hj.
        pose proof (hp_parent_lt j ltac:(lia)). lia.
    Qed.

    Lemma hp_pop_heap data : hp_heap key data -> hp_heap key (heap_pop K kltb key data).
    Proof.
      intros Hh. unfold heap_pop. destruct data as [|x r]; [intros j Hj; cbn [length] in Hj; lia|].
      destruct r as [|y r']; [intros j Hj; cbn [length] in Hj; lia|].
      assert (Hne : y :: r' <> []) by discriminate.
      destruct (exists_last Hne) as [r'' [l El]].
      replace (last (x :: y :: r') 0) with l.
      2:{ change (x :: y :: r') with ([x] ++ (y :: r')). rewrite El.
          rewrite app_assoc. rewrite last_last. reflexivity. }
      replace (removelast (x :: y :: r')) with (x :: r'').
      2:{ change (x :: y :: r') with ([x] ++ (y :: r')). rewrite El.
          rewrite app_assoc. rewrite removelast_last. reflexivity. }
      cbn [tl]. rewrite El in Hh.
      assert (Hl : length (y :: r') = length r'' + 1) by (rewrite El, app_length; reflexivity).
      apply hp_sift_down_heap; [cbn [length] in *; lia|]. split.
      - intros j Hj Hpj. cbn [length] in Hj.
        pose proof (hp_parent_lt j ltac:(lia)) as Hlt.
        specialize (Hh j). cbn [length] in Hh. rewrite app_length in Hh. cbn [length] in Hh.
        specialize (Hh ltac:(lia)).
        destruct j as [|j]; [lia|]. destruct (hparent (S j)) as [|q] eqn:Eq; [contradiction|].
        cbn [nth] in *. rewrite !app_nth1 in Hh by lia. exact Hh.
      - intros j Hj Hpj Hi. lia.
    Qed.
  End Order.

  (* decrease-key: the key of v (and of nothing else in the heap) changes from key to key' and does not grow *)
  Lemma hp_update_heap key key' data v h :
    NoDup data -> hp_heap key data ->
    (forall x, In x data -> x <> v -> key' x = key x) ->
    (m (key' v) <= m (key v))%Z ->
    heap_update K kltb key' data v = Some h -> hp_heap key' h.
  Proof.
    intros Hnd Hh Hext Hdec Hu. unfold heap_update in Hu.
    destruct (find_pos v data 0%nat) as [i|] eqn:E; [|discriminate].
    replace h with (sift_up K kltb key' (S (length data)) data i) by congruence. clear Hu.
    apply hp_find_pos_some in E as [_ [Hi Hv]]. rewrite Nat.sub_0_r in *.
    assert (Huniq : forall j, j < length data -> j <> i -> nth j data 0%nat <> v).
    { intros j Hj Hji Hc. rewrite <- Hv in Hc.
      apply (proj1 (NoDup_nth data 0%nat) Hnd) in Hc; auto. }
    assert (Hk : forall j, j < length data -> (m (key' (nth j data 0%nat)) <= m (key (nth j data 0%nat)))%Z).
    { intros j Hj. destruct (Nat.eq_dec j i) as [->|Hji]; [rewrite Hv; exact Hdec|].
      rewrite Hext; [lia|apply nth_In; exact Hj|apply Huniq; auto]. }
    assert (Hk' : forall j, j < length data -> j <> i -> key' (nth j data 0%nat) = key (nth j data 0%nat)).
    { intros j Hj Hji. apply Hext; [apply nth_In; exact Hj|apply Huniq; auto]. }
    apply hp_sift_up_heap; [lia|exact Hi|]. split.
    - intros j Hj Hji. pose proof (hp_parent_lt j ltac:(lia)).
      rewrite (Hk' j) by (auto; lia). specialize (Hk (hparent j) ltac:(lia)).
      specialize (Hh j Hj). lia.
    - intros j Hj Hpj Hi0. pose proof (hp_parent_lt j ltac:(lia)). pose proof (hp_parent_lt i Hi0).
      rewrite (Hk' j) by lia. rewrite (Hk' (hparent i)) by lia.
      pose proof (Hh j Hj) as H1. rewrite Hpj in H1. pose proof (Hh i ltac:(lia)) as H2. lia.
  Qed.
End HeapFacts.
