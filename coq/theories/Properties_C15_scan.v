(* Properties_C15_scan.v — the scan order that tools/props/c15.py recovers from the implementation's
   answer (recover_scan: weight-sorted merge of the retained and the dropped sequence, retained before
   dropped on ties; merge_scan below mirrors it) reproduces the outcome: whatever weight-sorted
   permutation `scan` std::sort produced, running construct_spanner on the recovered order gives the
   SAME spanner (graph, retained list, dropped list), and the recovered order is itself a weight-sorted
   permutation of the edge ids (a legal value of the oracle, so Theorem C15 applies to that run).
   Holds for every k (k = 0 included); `length w = ne g` is not needed.
   Only statements; each closed by [exact <lemma>] and followed by Print Assumptions. *)
From Coq Require Import List Arith Bool ZArith Sorted Permutation.
From Parmcb Require Import GraphModel GraphSpec SpannerModel SpannerProofs SpannerScanProofs.
Import ListNotations.

Theorem C15_recovered_scan_reproduces :
  forall g w k scan sp,
    simple_graph g ->
    Permutation scan (seq 0 (ne g)) -> Sorted (fun a b => (wt w a <= wt w b)%Z) scan ->
    construct_spanner g k scan = SpOk sp ->
    let scan' := merge_scan w (retained sp) (dropped sp) in
    construct_spanner g k scan' = SpOk sp
    /\ Permutation scan' (seq 0 (ne g))
    /\ Sorted (fun a b => (wt w a <= wt w b)%Z) scan'.
Proof. exact recovered_scan_reproduces. Qed.
Print Assumptions C15_recovered_scan_reproduces.

(* non-vacuity: the graph, weights and scan order of C15_nonvacuous (K4 + pendant edge + 5-cycle,
   weights with ties, k = 2).  The original scan visits the dropped edge 3 before the retained edge 2
   (both of weight 2); the recovered order visits 2 first, so it differs from the original scan, and
   still yields the same spanner. *)
Example C15_recovered_scan_nonvacuous :
  let g := {| nv := 9; ge := [(0,1); (0,2); (0,3); (1,2); (1,3); (2,3); (3,4);
                               (4,5); (5,6); (6,7); (7,8); (8,4)] |} in
  let w := [1; 1; 2; 2; 2; 3; 1; 1; 1; 1; 1; 5]%Z in
  let scan := [6; 0; 1; 10; 7; 8; 9; 3; 2; 4; 5; 11] in
  let sp := {| sp_graph := {| nv := 9; ge := [(3,4); (0,1); (0,2); (7,8); (4,5); (5,6); (6,7);
                                              (0,3); (8,4)] |};
               retained := [6; 0; 1; 10; 7; 8; 9; 2; 11]; dropped := [3; 4; 5] |} in
  simple_graph g
  /\ Permutation scan (seq 0 (ne g)) /\ Sorted (fun a b => (wt w a <= wt w b)%Z) scan
  /\ construct_spanner g 2 scan = SpOk sp
  /\ merge_scan w (retained sp) (dropped sp) = [6; 0; 1; 10; 7; 8; 9; 2; 3; 4; 5; 11]
  /\ merge_scan w (retained sp) (dropped sp) <> scan
  /\ construct_spanner g 2 (merge_scan w (retained sp) (dropped sp)) = SpOk sp.
Proof.
  cbv zeta. split; [vm_compute; reflexivity|].
  split; [apply scan_perm_check; vm_compute; reflexivity|].
  split; [repeat (first [apply Z.leb_le; vm_compute; reflexivity | constructor])|].
  split; [vm_compute; reflexivity|].
  split; [vm_compute; reflexivity|].
  split; [vm_compute; discriminate|].
  vm_compute; reflexivity.
Qed.
