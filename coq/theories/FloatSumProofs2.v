(* FloatSumProofs2.v — the rounding-error bound of FloatSumProofs.v applied to the returned value of the binary64 models
   (property C09).  Prefix fs2_.

   Hypotheses on the weights are computable predicates on doubles: f64_nonneg w (finite and +0.0 <= w) and
   f64_weight_ok w (... and w <= 0x1p+900); fs2_nonneg / fs2_weight_ok turn them into facts about the real value FR w.
   c09_exact_weight wts cycles is the EXACT real sum of the real values of the weights of all edges of all cycles (with
   multiplicity over the cycles; an edge id outside wts counts +0.0, as in the models).
     fs2_list_sharp / fs2_list_bounded / fs2_list_1e9
                        a list of doubles summed left to right from +0.0: |S - sum| <= ((1+u)^(n-1) - 1) sum  (no overflow
                        stated directly / weights <= 2^900 and n <= 2^50);  <= 1e-9 sum for n <= 2^23
     fs2_core_*         any (cycles, ws, total) with every w the left-to-right sum over its cycle (fs_cycle_sum) and total the
                        left-to-right sum of ws: exponent (k-1)+(N-1) (sharp), T = k + total number of edge occurrences
                        (weights <= 2^900, T <= 2^50), relative 1e-9 for T <= 2^23
     fs2_graph_1e9      ... relative 1e-9 for every cycle-space basis of a graph with at most 2^22 = 4194304 edges
     fs2_signed_*       instances for an SvaOk answer of mcb_sva_signed_F   (through FloatProofs.mcb_sva_signed_total_is_fold)
     fs2_trees_*        instances for a run of tf_mcb_sva_trees_go in which every phase found (FloatTreesProofs.ft_go_structural)
   NOT proved here: that SvaOk is reached, and the distance of the exact sum to the true minimum. *)
From Coq Require Import Reals ZArith Floats List Lia Lra Psatz Permutation Sorted.
From Flocq Require Import Core BinarySingleNaN PrimFloat.
From Parmcb Require Import GraphModel GraphSpec GraphLemmas GF2Model McbSpec DePinaSpec SvaModel SignedModel SignedFloatModel LexSPModel
     CandidatesModel TreesModel TreesFloatModel SignedProofs FloatProofs FloatTreesProofs FloatSumProofs.
Import ListNotations.
Local Open Scope R_scope.

(* ---- the hypotheses on the weights, as computable predicates on doubles ------------------------------------- *)

(* finite and >= 0 (as doubles; -0.0 passes and has the real value 0) *)
Definition f64_nonneg (w : PrimFloat.float) : bool := (PrimFloat.is_finite w && (PrimFloat.zero <=? w)%float)%bool.
(* ... and at most 2^900 *)
Definition f64_weight_ok (w : PrimFloat.float) : bool := (f64_nonneg w && (w <=? 0x1p+900)%float)%bool.

Lemma fs2_leb a b : ffin a -> ffin b -> (a <=? b)%float = true -> FR a <= FR b.
Proof.
  intros Fa Fb H. rewrite leb_equiv in H. rewrite Bleb_correct in H by (apply fs_ffin; assumption).
  unfold FR. destruct (Rle_bool_spec (B2R (Prim2B a)) (B2R (Prim2B b))) as [L|L]; [exact L|discriminate].
Qed.

Lemma fs2_nonneg w : f64_nonneg w = true -> fnn w.
Proof.
  unfold f64_nonneg. intros H. apply andb_prop in H as [H1 H2]. split; [exact H1|].
  rewrite <- fs_FR_zero. apply fs2_leb; [exact fs_ffin_zero|exact H1|exact H2].
Qed.

Lemma fs2_FR_2p900 : FR 0x1p+900%float = 2 ^ 900.
Proof.
  unfold FR, Prim2B. rewrite B2R_SF2B.
  replace (Prim2SF 0x1p+900%float) with (S754_finite false 4503599627370496 848) by (vm_compute; reflexivity).
  cbn [SF2R cond_Zopp]. unfold F2R. cbn [Fnum Fexp]. rewrite bpow_powerRZ.
  cbn [powerRZ radix_val radix2]. change (Pos.to_nat 848) with 848%nat.
  change 4503599627370496%Z with (2 ^ Z.of_nat 52)%Z. rewrite <- pow_IZR. change (IZR 2) with 2.
  rewrite <- pow_add. reflexivity.
Qed.

Lemma fs2_weight_ok w : f64_weight_ok w = true -> fnn w /\ FR w <= 2 ^ 900.
Proof.
  unfold f64_weight_ok. intros H. apply andb_prop in H as [H1 H2]. pose proof (fs2_nonneg w H1) as Hn.
  split; [exact Hn|]. rewrite <- fs2_FR_2p900. apply fs2_leb; [exact (proj1 Hn)|reflexivity|exact H2].
Qed.

(* ---- the edge-weight function of the models ------------------------------------------------------------------ *)
Definition fs2_wt (wts : list PrimFloat.float) (e : nat) : PrimFloat.float := nth e wts PrimFloat.zero.

(* the exact real sum of the weights of all edges of all cycles (with multiplicity over the cycles) *)
Definition c09_exact_weight (wts : list PrimFloat.float) (cycles : list (list nat)) : R :=
  rsum (map (fun c => rsum (map (fun e => FR (nth e wts PrimFloat.zero)) c)) cycles).

Lemma fs2_exact_weight wts cycles : c09_exact_weight wts cycles = fs_exact_all (fs2_wt wts) cycles.
Proof. reflexivity. Qed.

Lemma fs2_wt_P (P : PrimFloat.float -> Prop) wts : P PrimFloat.zero -> Forall P wts -> forall e, P (fs2_wt wts e).
Proof.
  intros H0 H e. unfold fs2_wt. destruct (nth_in_or_default e wts PrimFloat.zero) as [Hin| ->]; [|exact H0].
  rewrite Forall_forall in H. apply H. exact Hin.
Qed.

Lemma fs2_wt_fnn wts : Forall (fun w => f64_nonneg w = true) wts -> forall e, fnn (fs2_wt wts e).
Proof.
  intros H. apply (fs2_wt_P fnn); [exact fs_fnn_zero|]. eapply Forall_impl; [|exact H]. exact fs2_nonneg.
Qed.

Lemma fs2_ok_nonneg wts : Forall (fun w => f64_weight_ok w = true) wts -> Forall (fun w => f64_nonneg w = true) wts.
Proof.
  apply Forall_impl. intros w H. unfold f64_weight_ok in H. apply andb_prop in H. exact (proj1 H).
Qed.

Lemma fs2_wt_le wts : Forall (fun w => f64_weight_ok w = true) wts -> forall e, FR (fs2_wt wts e) <= 2 ^ 900.
Proof.
  intros H. apply (fs2_wt_P (fun w => FR w <= 2 ^ 900)).
  - rewrite fs_FR_zero. apply pow_le. lra.
  - eapply Forall_impl; [|exact H]. intros w Hw. exact (proj2 (fs2_weight_ok w Hw)).
Qed.

(* exact <= (number of edge occurrences) * M *)
Lemma fs2_exact_le f M c : (forall e, FR (f e) <= M) -> fs_exact f c <= INR (length c) * M.
Proof.
  intros H. unfold fs_exact. induction c as [|e c IH]; [cbn; lra|].
  cbn [map rsum fold_right]. fold (rsum (map (fun e => FR (f e)) c)). change (length (e :: c)) with (S (length c)).
  rewrite S_INR. specialize (H e). lra.
Qed.

Lemma fs2_exact_all_le f M cs : (forall e, FR (f e) <= M) -> fs_exact_all f cs <= INR (length (concat cs)) * M.
Proof.
  intros H. unfold fs_exact_all. induction cs as [|c cs IH]; [cbn; lra|].
  cbn [map rsum fold_right concat]. fold (rsum (map (fs_exact f) cs)). rewrite app_length, plus_INR.
  pose proof (fs2_exact_le f M c H). lra.
Qed.

Lemma fs2_len_concat (c : list nat) cs : In c cs -> (length c <= length (concat cs))%nat.
Proof.
  induction cs as [|c' cs IH]; intros Hin; [destruct Hin|]. cbn [concat]. rewrite app_length.
  destruct Hin as [->|Hin]; [lia|]. specialize (IH Hin). lia.
Qed.

Lemma fs2_INR_pow n k : (Z.of_nat n <= 2 ^ Z.of_nat k)%Z -> INR n <= 2 ^ k.
Proof. intros H. rewrite INR_IZR_INZ. change 2 with (IZR 2). rewrite pow_IZR. apply IZR_le. exact H. Qed.

(* no overflow: exponent K <= 2^50, exact <= L * 2^900 with L <= 2^100 *)
Lemma fs2_no_overflow K L E : INR K <= 2 ^ 50 -> INR L <= 2 ^ 100 -> 0 <= E -> E <= INR L * 2 ^ 900 ->
  (1 + f64_u) ^ K * E < f64_max.
Proof.
  intros HK HL HE0 HE. pose proof fs_u_pos as Hu.
  assert (Ht : INR K * f64_u <= / 2 ^ 3).
  { replace (/ 2 ^ 3) with (2 ^ 50 * f64_u); [apply Rmult_le_compat_r; lra|].
    unfold f64_u. change 53%nat with (50 + 3)%nat. rewrite pow_add. field; repeat split; apply pow_nonzero; lra. }
  assert (H3 : / 2 ^ 3 < 1) by lra.
  pose proof (fs_pow_le_inv K _ Ht H3) as Hp. pose proof (fs_pow_ge1 K) as Hp1.
  assert (Hp2 : (1 + f64_u) ^ K <= 2) by lra.
  unfold f64_max. change 1024%nat with (24 + (100 + 900))%nat. rewrite !pow_add.
  assert (HM : 0 < 2 ^ 900) by (apply pow_lt; lra). set (M := 2 ^ 900) in *.
  assert (H1 : E <= 2 ^ 100 * M) by (eapply Rle_trans; [exact HE|apply Rmult_le_compat_r; lra]).
  eapply Rle_lt_trans; [apply Rmult_le_compat; [lra|exact HE0|exact Hp2|exact H1]|].
  assert (0 < 2 ^ 100 * M) by (apply Rmult_lt_0_compat; [apply pow_lt|]; lra). lra.
Qed.

(* ---- the three forms of the bound, for any run that satisfies the structural theorem ------------------------- *)
Section Core.
  Variable wts : list PrimFloat.float.
  Variable cycles : list (list nat).
  Variable ws : list PrimFloat.float.
  Variable total : PrimFloat.float.
  Hypothesis Hsum : Forall2 (fs_cycle_sum (fs2_wt wts)) cycles ws.
  Hypothesis Htot : total = fold_left PrimFloat.add ws PrimFloat.zero.

  Definition fs2_err (K : nat) : Prop :=
    PrimFloat.is_finite total = true
    /\ Rabs (FR total - c09_exact_weight wts cycles) <= ((1 + f64_u) ^ K - 1) * c09_exact_weight wts cycles.

  Lemma fs2_core_sharp N :
    Forall (fun w => f64_nonneg w = true) wts -> Forall (fun c => (length c <= N)%nat) cycles ->
    (1 + f64_u) ^ (Nat.pred (length cycles) + Nat.pred N) * c09_exact_weight wts cycles < f64_max ->
    fs2_err (Nat.pred (length cycles) + Nat.pred N).
  Proof.
    intros Hw HN Hov. rewrite fs2_exact_weight in Hov. unfold fs2_err. rewrite fs2_exact_weight, Htot.
    destruct (fs_two_level (fs2_wt wts) (fs2_wt_fnn wts Hw) cycles ws N Hsum HN Hov) as ((H1 & _) & H2).
    split; [exact H1|exact H2].
  Qed.

  Lemma fs2_err_mono K K' : (K <= K')%nat -> Forall (fun w => f64_nonneg w = true) wts -> fs2_err K -> fs2_err K'.
  Proof.
    intros HK Hw (H1 & H2). split; [exact H1|]. eapply Rle_trans; [exact H2|].
    apply Rmult_le_compat_r; [rewrite fs2_exact_weight; apply fs_exact_all_nonneg, fs2_wt_fnn, Hw|].
    pose proof (fs_pow_mono K K' HK). lra.
  Qed.

  (* weights <= 2^900, exponent K0 <= 2^50, at most 2^100 edge occurrences: no overflow *)
  Lemma fs2_core_bounded N :
    Forall (fun w => f64_weight_ok w = true) wts -> Forall (fun c => (length c <= N)%nat) cycles ->
    INR (Nat.pred (length cycles) + Nat.pred N) <= 2 ^ 50 -> INR (length (concat cycles)) <= 2 ^ 100 ->
    fs2_err (Nat.pred (length cycles) + Nat.pred N).
  Proof.
    intros Hw HN HK HL. apply fs2_core_sharp; [apply fs2_ok_nonneg; exact Hw|exact HN|].
    rewrite fs2_exact_weight. eapply fs2_no_overflow; [exact HK|exact HL| |].
    - apply fs_exact_all_nonneg, fs2_wt_fnn, fs2_ok_nonneg, Hw.
    - apply fs2_exact_all_le. apply fs2_wt_le. exact Hw.
  Qed.

  Definition fs2_T : nat := length cycles + length (concat cycles).

  Lemma fs2_core_T : Forall (fun w => f64_weight_ok w = true) wts -> (Z.of_nat fs2_T <= 2 ^ 50)%Z -> fs2_err fs2_T.
  Proof.
    intros Hw HT. apply (fs2_INR_pow _ 50) in HT.
    unfold fs2_T in *.
    assert (HN : Forall (fun c => (length c <= length (concat cycles))%nat) cycles)
      by (apply Forall_forall; intros c Hc; apply fs2_len_concat; exact Hc).
    set (K := (Nat.pred (length cycles) + Nat.pred (length (concat cycles)))%nat).
    assert (HK : (K <= length cycles + length (concat cycles))%nat) by (unfold K; lia).
    apply (fs2_err_mono K _ HK (fs2_ok_nonneg _ Hw)). apply fs2_core_bounded; [exact Hw|exact HN| |].
    - fold K. apply le_INR in HK. lra.
    - rewrite plus_INR in HT. pose proof (pos_INR (length cycles)).
      assert (2 ^ 50 <= 2 ^ 100) by (apply Rle_pow; [lra|lia]). lra.
  Qed.

  Definition fs2_within_1e9 : Prop :=
    PrimFloat.is_finite total = true
    /\ Rabs (FR total - c09_exact_weight wts cycles) <= c09_exact_weight wts cycles / 10 ^ 9.

  Lemma fs2_err_1e9 K : Forall (fun w => f64_nonneg w = true) wts -> INR K <= 2 ^ 23 -> fs2_err K -> fs2_within_1e9.
  Proof.
    intros Hw HK (H1 & H2). split; [exact H1|]. eapply Rle_trans; [exact H2|].
    unfold Rdiv. rewrite Rmult_comm. apply Rmult_le_compat_l; [|apply fs_pow_1e9; exact HK].
    rewrite fs2_exact_weight. apply fs_exact_all_nonneg, fs2_wt_fnn, Hw.
  Qed.

  Lemma fs2_core_1e9 : Forall (fun w => f64_weight_ok w = true) wts -> (Z.of_nat fs2_T <= 2 ^ 23)%Z -> fs2_within_1e9.
  Proof.
    intros Hw HT. apply (fs2_err_1e9 fs2_T (fs2_ok_nonneg _ Hw)).
    - apply (fs2_INR_pow _ 23) in HT. exact HT.
    - apply fs2_core_T; [exact Hw|]. eapply Z.le_trans; [exact HT|]. apply Z.pow_le_mono_r; lia.
  Qed.
End Core.

(* ---- a list of doubles (the generic lemma) --------------------------------------------------------------------- *)

Definition fs2_list_err (ws : list PrimFloat.float) (bound : R) : Prop :=
  let s := fold_left PrimFloat.add ws PrimFloat.zero in
  PrimFloat.is_finite s = true /\ 0 <= FR s /\ Rabs (FR s - rsum (map FR ws)) <= bound * rsum (map FR ws).

Lemma fs2_list_fnn ws : Forall (fun w => f64_nonneg w = true) ws -> Forall fnn ws.
Proof. apply Forall_impl. exact fs2_nonneg. Qed.

Theorem fs2_list_sharp ws : Forall (fun w => f64_nonneg w = true) ws ->
  (1 + f64_u) ^ Nat.pred (length ws) * rsum (map FR ws) < f64_max ->
  fs2_list_err ws ((1 + f64_u) ^ Nat.pred (length ws) - 1).
Proof.
  intros Hw Hov. destruct (fs_sum ws (fs2_list_fnn ws Hw) Hov) as ((H1 & H2) & H3).
  split; [exact H1|]. split; [exact H2|exact H3].
Qed.

Lemma fs2_rsum_le ws M : Forall (fun w => FR w <= M) ws -> rsum (map FR ws) <= INR (length ws) * M.
Proof.
  induction 1 as [|w ws Hw _ IH]; [cbn; lra|]. cbn [map rsum fold_right]. fold (rsum (map FR ws)).
  change (length (w :: ws)) with (S (length ws)). rewrite S_INR. lra.
Qed.

Theorem fs2_list_bounded ws : Forall (fun w => f64_weight_ok w = true) ws -> (Z.of_nat (length ws) <= 2 ^ 50)%Z ->
  fs2_list_err ws ((1 + f64_u) ^ Nat.pred (length ws) - 1).
Proof.
  intros Hw Hn. apply (fs2_INR_pow _ 50) in Hn. apply fs2_list_sharp; [apply fs2_ok_nonneg; exact Hw|].
  apply (fs2_no_overflow _ (length ws)).
  - assert (H : (Nat.pred (length ws) <= length ws)%nat) by lia. apply le_INR in H. lra.
  - assert (2 ^ 50 <= 2 ^ 100) by (apply Rle_pow; [lra|lia]). lra.
  - apply fs_rsum_nonneg, fs_fnn_FR, fs2_list_fnn, fs2_ok_nonneg, Hw.
  - apply fs2_rsum_le. eapply Forall_impl; [|exact Hw]. intros w H. exact (proj2 (fs2_weight_ok w H)).
Qed.

Theorem fs2_list_1e9 ws : Forall (fun w => f64_weight_ok w = true) ws -> (Z.of_nat (length ws) <= 2 ^ 23)%Z ->
  fs2_list_err ws (/ 10 ^ 9).
Proof.
  intros Hw Hn. destruct (fs2_list_bounded ws Hw) as (H1 & H2 & H3).
  { eapply Z.le_trans; [exact Hn|]. apply Z.pow_le_mono_r; lia. }
  split; [exact H1|]. split; [exact H2|]. eapply Rle_trans; [exact H3|].
  apply Rmult_le_compat_r; [apply fs_rsum_nonneg, fs_fnn_FR, fs2_list_fnn, fs2_ok_nonneg, Hw|].
  apply fs_pow_1e9. apply (fs2_INR_pow _ 23) in Hn.
  assert (H : (Nat.pred (length ws) <= length ws)%nat) by lia. apply le_INR in H. lra.
Qed.

(* ---- the per-cycle facts of the structural theorems are instances of fs_cycle_sum ----------------------------- *)

Lemma fs2_sum_of wts c w : sum_of PrimFloat.float f64_zero f64_add wts c w -> fs_cycle_sum (fs2_wt wts) c w.
Proof. intros (l & Hp & ->). left. exists l. split; [exact Hp|reflexivity]. Qed.

Lemma fs2_tree_shape g wts cy w :
  tree_cycle_shape PrimFloat.float f64_zero f64_add g wts cy w -> fs_cycle_sum (fs2_wt wts) cy w.
Proof.
  intros (s & e & a & b & pa & pb & _ & _ & _ & Hnd & Hs & Hin & ->).
  right. exists e, (rev (wedges pa) ++ rev (wedges pb)). split; [|reflexivity].
  apply Permutation_sym. eapply perm_trans; [apply NoDup_Permutation; [apply gl_sorted_NoDup; exact Hs|exact Hnd|exact Hin]|].
  rewrite app_assoc. eapply perm_trans; [apply Permutation_app_comm|]. cbn [app]. apply perm_skip.
  eapply perm_trans; [apply Permutation_app_comm|]. apply Permutation_app; apply Permutation_rev.
Qed.

Lemma fs2_Forall2_impl {A B} (P Q : A -> B -> Prop) l l' : (forall x y, P x y -> Q x y) -> Forall2 P l l' -> Forall2 Q l l'.
Proof. intros H. induction 1; constructor; auto. Qed.

(* ---- sizes in terms of the graph --------------------------------------------------------------------------------- *)

Lemma fs2_NoDup_lt_length l n : NoDup l -> (forall x, In x l -> (x < n)%nat) -> (length l <= n)%nat.
Proof.
  intros Hnd Hlt. rewrite <- (seq_length n 0). apply NoDup_incl_length; [exact Hnd|].
  intros x Hx. apply in_seq. specialize (Hlt x Hx). lia.
Qed.

Lemma fs2_dimension_le g k : has_cycle_space_dimension g k -> (k <= ne g)%nat.
Proof.
  intros (c & (reps & Hl & Hnd & Hlt & _) & He).
  pose proof (fs2_NoDup_lt_length reps (nv g) Hnd Hlt). lia.
Qed.

Lemma fs2_cycle_space_len g cycles : Forall (in_cycle_space g) cycles -> Forall (fun c => (length c <= ne g)%nat) cycles.
Proof.
  apply Forall_impl. intros c (Hs & Hlt & _). apply fs2_NoDup_lt_length; [apply gl_sorted_NoDup; exact Hs|exact Hlt].
Qed.

Lemma fs2_concat_len (cs : list (list nat)) N : Forall (fun c => (length c <= N)%nat) cs -> (length (concat cs) <= length cs * N)%nat.
Proof. induction 1 as [|c cs Hc _ IH]; cbn [concat length]; [lia|]. rewrite app_length. lia. Qed.

(* a basis of a graph with at most 2^22 edges: exponent <= 2^23, at most 2^44 edge occurrences *)
Lemma fs2_graph_1e9 g wts cycles ws total :
  Forall2 (fs_cycle_sum (fs2_wt wts)) cycles ws -> total = fold_left PrimFloat.add ws PrimFloat.zero ->
  Forall (fun w => f64_weight_ok w = true) wts -> (Z.of_nat (ne g) <= 2 ^ 22)%Z ->
  has_cycle_space_dimension g (length cycles) -> Forall (in_cycle_space g) cycles ->
  fs2_within_1e9 wts cycles total.
Proof.
  intros Hsum Htot Hw Hne Hd Hcs. apply fs2_dimension_le in Hd. apply fs2_cycle_space_len in Hcs.
  pose proof (fs2_concat_len cycles (ne g) Hcs) as HL.
  apply (fs2_INR_pow _ 22) in Hne.
  set (K := (Nat.pred (length cycles) + Nat.pred (ne g))%nat).
  assert (HK : INR K <= 2 ^ 23).
  { assert (H : (K <= ne g + ne g)%nat) by (unfold K; lia). apply le_INR in H. rewrite plus_INR in H.
    change (2 ^ 23) with (2 * 2 ^ 22). lra. }
  apply (fs2_err_1e9 wts cycles total K (fs2_ok_nonneg _ Hw) HK).
  apply (fs2_core_bounded wts cycles ws total Hsum Htot (ne g) Hw Hcs).
  - fold K. assert (2 ^ 23 <= 2 ^ 50) by (apply Rle_pow; [lra|lia]). lra.
  - assert (H : (length (concat cycles) <= ne g * ne g)%nat) by nia. apply le_INR in H. rewrite mult_INR in H.
    pose proof (pos_INR (ne g)) as Hp.
    assert (H2 : INR (ne g) * INR (ne g) <= 2 ^ 22 * 2 ^ 22) by (apply Rmult_le_compat; lra).
    rewrite <- pow_add in H2. assert (2 ^ (22 + 22) <= 2 ^ 100) by (apply Rle_pow; [lra|lia]). lra.
Qed.

(* ---- the signed variants ----------------------------------------------------------------------------------------- *)
Section Signed.
  Variable g : graph.
  Variable wts : list PrimFloat.float.
  Variables roots eord : list nat.
  Variable cycles : list (list nat).
  Variable total : PrimFloat.float.
  Variable sup : list vec.
  Hypothesis Hrun : mcb_sva_signed_F g wts roots eord = SvaOk cycles total sup.

  Lemma fs2_signed_fold : exists ws, Forall2 (fs_cycle_sum (fs2_wt wts)) cycles ws
                                     /\ total = fold_left PrimFloat.add ws PrimFloat.zero.
  Proof.
    destruct (mcb_sva_signed_total_is_fold PrimFloat.float f64_zero f64_add f64_ltb (fun e => nth e eord 0%nat)
                g wts roots cycles total sup Hrun) as (ws & _ & HF & Ht).
    exists ws. split; [|exact Ht]. eapply fs2_Forall2_impl; [|exact HF]. apply fs2_sum_of.
  Qed.

  Theorem fs2_signed_sharp N :
    Forall (fun w => f64_nonneg w = true) wts -> Forall (fun c => (length c <= N)%nat) cycles ->
    (1 + f64_u) ^ (Nat.pred (length cycles) + Nat.pred N) * c09_exact_weight wts cycles < f64_max ->
    fs2_err wts cycles total (Nat.pred (length cycles) + Nat.pred N).
  Proof. destruct fs2_signed_fold as (ws & HF & Ht). exact (fs2_core_sharp wts cycles ws total HF Ht N). Qed.

  Theorem fs2_signed_T :
    Forall (fun w => f64_weight_ok w = true) wts -> (Z.of_nat (fs2_T cycles) <= 2 ^ 50)%Z ->
    fs2_err wts cycles total (fs2_T cycles).
  Proof. destruct fs2_signed_fold as (ws & HF & Ht). exact (fs2_core_T wts cycles ws total HF Ht). Qed.

  Theorem fs2_signed_1e9 :
    Forall (fun w => f64_weight_ok w = true) wts -> (Z.of_nat (fs2_T cycles) <= 2 ^ 23)%Z ->
    fs2_within_1e9 wts cycles total.
  Proof. destruct fs2_signed_fold as (ws & HF & Ht). exact (fs2_core_1e9 wts cycles ws total HF Ht). Qed.

  Theorem fs2_signed_graph_1e9 :
    simple_graph g -> (forall v, (v < nv g)%nat -> In v roots) ->
    Forall (fun w => f64_weight_ok w = true) wts -> (Z.of_nat (ne g) <= 2 ^ 22)%Z ->
    fs2_within_1e9 wts cycles total.
  Proof.
    intros Hs Hr Hw Hne. destruct fs2_signed_fold as (ws & HF & Ht).
    destruct (mcb_sva_signed_basis_partial PrimFloat.float f64_zero f64_add f64_ltb (fun e => nth e eord 0%nat)
                g wts roots cycles total sup Hs Hr Hrun) as (Hd & Hcs & _).
    exact (fs2_graph_1e9 g wts cycles ws total HF Ht Hw Hne Hd Hcs).
  Qed.
End Signed.

(* ---- the tree-based variants (the model compared bit-exactly with the code), every phase found ---------------- *)
Section Trees.
  Variable b : tbuilder.
  Variable g : graph.
  Variable wts : list PrimFloat.float.
  Variables roots picks order : list nat.
  Variable phases : list (go_phase PrimFloat.float).
  Variable total : PrimFloat.float.
  Variable sup : list vec.
  Hypothesis Hs : simple_graph g.
  Hypothesis Hr : forall v, (v < nv g)%nat -> In v roots.
  Hypothesis Hrun : tf_mcb_sva_trees_go b g wts roots picks order = GoOk phases total sup.
  Hypothesis Hfound : Forall (fun p => gp_found p = true) phases.

  Lemma fs2_trees_fold :
    has_cycle_space_dimension g (length (map gp_cycle phases)) /\ Forall (in_cycle_space g) (map gp_cycle phases)
    /\ exists ws, Forall2 (fs_cycle_sum (fs2_wt wts)) (map gp_cycle phases) ws
                  /\ total = fold_left PrimFloat.add ws PrimFloat.zero.
  Proof.
    destruct (ft_go_structural PrimFloat.float f64_zero f64_add f64_ltb g wts roots Hs Hr b picks order phases total sup
                Hrun Hfound) as (Hd & Hcs & _ & _ & ws & HF & Ht).
    split; [exact Hd|]. split; [exact Hcs|]. exists ws. split; [|exact Ht].
    eapply fs2_Forall2_impl; [|exact HF]. apply fs2_tree_shape.
  Qed.

  Theorem fs2_trees_sharp N :
    Forall (fun w => f64_nonneg w = true) wts -> Forall (fun c => (length c <= N)%nat) (map gp_cycle phases) ->
    (1 + f64_u) ^ (Nat.pred (length (map gp_cycle phases)) + Nat.pred N) * c09_exact_weight wts (map gp_cycle phases) < f64_max ->
    fs2_err wts (map gp_cycle phases) total (Nat.pred (length (map gp_cycle phases)) + Nat.pred N).
  Proof. destruct fs2_trees_fold as (_ & _ & ws & HF & Ht). exact (fs2_core_sharp wts _ ws total HF Ht N). Qed.

  Theorem fs2_trees_T :
    Forall (fun w => f64_weight_ok w = true) wts -> (Z.of_nat (fs2_T (map gp_cycle phases)) <= 2 ^ 50)%Z ->
    fs2_err wts (map gp_cycle phases) total (fs2_T (map gp_cycle phases)).
  Proof. destruct fs2_trees_fold as (_ & _ & ws & HF & Ht). exact (fs2_core_T wts _ ws total HF Ht). Qed.

  Theorem fs2_trees_1e9 :
    Forall (fun w => f64_weight_ok w = true) wts -> (Z.of_nat (fs2_T (map gp_cycle phases)) <= 2 ^ 23)%Z ->
    fs2_within_1e9 wts (map gp_cycle phases) total.
  Proof. destruct fs2_trees_fold as (_ & _ & ws & HF & Ht). exact (fs2_core_1e9 wts _ ws total HF Ht). Qed.

  Theorem fs2_trees_graph_1e9 :
    Forall (fun w => f64_weight_ok w = true) wts -> (Z.of_nat (ne g) <= 2 ^ 22)%Z ->
    fs2_within_1e9 wts (map gp_cycle phases) total.
  Proof.
    intros Hw Hne. destruct fs2_trees_fold as (Hd & Hcs & ws & HF & Ht).
    exact (fs2_graph_1e9 g wts _ ws total HF Ht Hw Hne Hd Hcs).
  Qed.
End Trees.
