(* OverflowTreesProofs2.v — C07, clause "overflows a signed integer", tree-based variants, part 2:
   the candidate collections, CandidateCycleBuilder, the sequential lookup and the phase loop.
   S = wsum g wts, wmax = the largest edge weight; inS v := 0 <= v <= S.
     ovt_cycles_of_roots_cands   both partial sums of  (w(e) + dist(a)) + dist(b)  of every candidate that
                                 create_candidate_cycles records lie in [0, S] (the sum is formed AFTER the first-in-path
                                 filter; the candidate is a simple cycle and the recorded weight is its weight, C14)
     ovt_collection_tr           Horton / FVS / isometric builder: every sum (tentative distances of all trees, candidate
                                 weights, the weights re-evaluated by the isometric output loop) lies in [0, S + wmax],
                                 the candidate-weight sums in [0, S]
     ovt_path_tr / ovt_build_tr  CandidateCycleBuilder::operator(): the running cycle_weight is, at EVERY step (also for
                                 candidates that are rejected later because an edge repeats), the weight of a duplicate-free
                                 edge list, hence in [0, S]; an answer's weight is in [0, S]     (no hypothesis on the trees)
     ovt_path_limit_tr / ovt_build_limit_tr   the same for the builder with weight limit (TBB flavour), any limit
     ovt_answers_tr, ovt_search_accept_tr, ovt_search_first_tr   the lookup of a phase
     ovt_sva_phases              the phase loop: the running total  mcb_weight += w  is <= j * S after j phases and, on a run
                                 that ends with SvaOk, lies between the current and the returned total
   No axioms. *)
From Coq Require Import List Arith Bool ZArith Lia Permutation.
From Parmcb Require Import GraphModel GF2Model GraphSpec GraphLemmas McbSpec ForestModel SvaModel LexSPModel FvsModel
     CandidatesModel TreesModel ParTreesModel LexSPProofs LexSPProofsDist CandidatesProofs CandidatesProofsZ RefProofs1
     OverflowProofs1 OverflowProofs3 OverflowProofs4 OverflowTreesModel OverflowTreesProofs1.
Import ListNotations.

Local Open Scope Z_scope.

Section Bounds.
  Variables (g : graph) (wts : list Z).
  Hypothesis Hsg : simple_graph g.
  Hypothesis Hpw : positive_weights g wts.
  Local Notation S := (wsum g wts).
  Local Notation inS := (inrange (wsum g wts)).
  Local Notation inSW := (inrange (wsum g wts + wmax wts)).

  Lemma ovt_inS_inSW v : inS v -> inSW v.
  Proof. unfold inrange. pose proof (ov_wmax_nonneg wts). lia. Qed.

  (* ---- B. candidates ------------------------------------------------------------------------------------------- *)

  (* a tree all of whose stored distances are non-negative *)
  Definition ovt_tree_nonneg (t : sp_tree Z) : Prop := forall v nd, sp_node_of Z t v = Some nd -> 0 <= sn_weight nd.

  (* x is non-negative and below the recorded weight of some candidate of l *)
  Definition ovt_below (l : list (cand Z)) (x : Z) : Prop := 0 <= x /\ exists c, In c l /\ x <= c_weight c.

  Lemma ovt_below_incl l l' x : incl l l' -> ovt_below l x -> ovt_below l' x.
  Proof. intros Hi [H0 (c & Hc & Hx)]. split; [exact H0|]. exists c. split; [apply Hi; exact Hc|exact Hx]. Qed.

  Lemma ovt_of_edge_vals id t tes eab : ovt_tree_nonneg t ->
    Forall (ovt_below (fst (cd_of_edge_tr wts id t tes eab))) (snd (cd_of_edge_tr wts id t tes eab)).
  Proof.
    intros Hnn. unfold cd_of_edge_tr. destruct eab as [e [a b]].
    destruct (memb e tes); [constructor|].
    destruct (sp_node_of Z t a) as [v|] eqn:Ea; [|constructor].
    destruct (sp_node_of Z t b) as [u|] eqn:Eb; [|constructor].
    destruct (Nat.eqb (sp_first Z t a) (sp_first Z t b)); [constructor|]. cbv zeta. cbn [fst snd].
    pose proof (Hnn a v Ea) as Hv. pose proof (Hnn b u Eb) as Hu.
    pose proof (rf_wt_nonneg g wts e Hpw) as He. change (lx_wt Z 0 wts e) with (wt wts e).
    constructor; [|constructor; [|constructor]].
    - split; [lia|]. eexists. split; [left; reflexivity|]. cbn [c_weight]. lia.
    - split; [lia|]. eexists. split; [left; reflexivity|]. cbn [c_weight]. lia.
  Qed.

  Lemma ovt_flat_map_below {A : Type} (f : A -> list (cand Z) * list Z) (l : list A) :
    (forall a, In a l -> Forall (ovt_below (fst (f a))) (snd (f a))) ->
    Forall (ovt_below (fst (flat_map_tr f l))) (snd (flat_map_tr f l)).
  Proof.
    unfold flat_map_tr. cbn [fst snd]. induction l as [|a l IH]; intros H; [constructor|].
    cbn [flat_map]. apply Forall_app. split.
    - eapply Forall_impl; [|apply H; left; reflexivity]. intros x. apply ovt_below_incl. apply incl_appl, incl_refl.
    - eapply Forall_impl; [|apply IH; intros a' Ha'; apply H; right; exact Ha'].
      intros x. apply ovt_below_incl. apply incl_appr, incl_refl.
  Qed.

  Lemma ovt_create_vals id t : ovt_tree_nonneg t ->
    Forall (ovt_below (fst (create_candidate_cycles_tr g wts id t))) (snd (create_candidate_cycles_tr g wts id t)).
  Proof. intros Hnn. apply ovt_flat_map_below. intros a _. apply ovt_of_edge_vals. exact Hnn. Qed.

  Lemma ovt_cycles_of_trees_vals trees : (forall t, In t trees -> ovt_tree_nonneg t) ->
    Forall (ovt_below (fst (cd_cycles_of_trees_tr g wts trees))) (snd (cd_cycles_of_trees_tr g wts trees)).
  Proof.
    intros Hnn. apply ovt_flat_map_below. intros [i t] Hin. cbn [fst snd]. apply ovt_create_vals. apply Hnn.
    apply cd_enum_In in Hin as [_ Hn]. eapply nth_error_In. exact Hn.
  Qed.

  Lemma ovt_trees_nonneg roots trees :
    Forall2 (fun s t => sptree Z 0 Z.add Z.ltb g wts s = LxOk t) roots trees -> forall t, In t trees -> ovt_tree_nonneg t.
  Proof.
    intros F t Hin v nd Hv. apply In_nth_error in Hin as [i Hi].
    destruct (proj2 (cd_Forall2_nth _ _ _ F i) t Hi) as (r & _ & Hr).
    apply (ovt_node_weight_bounds g wts r Hsg Hpw t v nd Hr Hv).
  Qed.

  (* the recorded weight of a sound candidate *)
  Lemma ovt_sound_weight trees cs c : c14_sound g wts trees cs -> In c cs -> inS (c_weight c).
  Proof.
    intros Hsound Hc. destruct (Hsound c Hc) as (t & C & _ & _ & (a & b & pa & pb & H)).
    destruct H as (_ & _ & _ & _ & _ & _ & _ & _ & _ & _ & _ & Hcyc & ->).
    apply ov_simple_cycle_weight; assumption.
  Qed.

  Lemma ovt_below_sound trees cs x : c14_sound g wts trees cs -> ovt_below cs x -> inS x.
  Proof.
    intros Hsound [H0 (c & Hc & Hx)]. pose proof (ovt_sound_weight trees cs c Hsound Hc) as [_ H]. split; lia.
  Qed.

  (* the candidate sums of a collection built from a list of roots *)
  Lemma ovt_cycles_of_roots_cands roots trees cs :
    cycles_of_roots Z 0 Z.add Z.ltb g wts roots = CdOk (trees, cs) ->
    fst (cd_cycles_of_trees_tr g wts trees) = cs /\ Forall inS (snd (cd_cycles_of_trees_tr g wts trees)).
  Proof.
    intros Hr. pose proof (cz_roots_sound g wts roots trees cs Hsg Hpw Hr) as Hsound.
    apply cd_cycles_of_roots_inv in Hr as [F ->].
    split; [apply ovt_cycles_of_trees_erase|].
    eapply Forall_impl; [|apply ovt_cycles_of_trees_vals; apply (ovt_trees_nonneg roots); exact F].
    intros x Hx. apply (ovt_below_sound trees _ x Hsound). rewrite <- ovt_cycles_of_trees_erase. exact Hx.
  Qed.

  Lemma ovt_cycles_of_roots_tr roots : Forall inSW (snd (cycles_of_roots_tr g wts roots)).
  Proof.
    unfold cycles_of_roots_tr. cbv zeta.
    pose proof (ovt_cycles_of_roots_erase g wts roots) as Eer. unfold cycles_of_roots_tr in Eer. cbv zeta in Eer.
    assert (Htr : Forall inSW (snd (cd_trees_tr g wts roots))) by (apply (ovt_all_tr g wts Hsg Hpw)).
    destruct (fst (cd_trees_tr g wts roots)) as [ts| | | |] eqn:Et; cbn [snd]; try exact Htr.
    cbn [fst] in Eer. symmetry in Eer. apply ovt_cycles_of_roots_cands in Eer as [_ Hc].
    apply Forall_app. split; [exact Htr|]. eapply Forall_impl; [|exact Hc]. exact ovt_inS_inSW.
  Qed.

  (* the isometric output loop re-evaluates the weight expression of Horton candidates *)
  Lemma ovt_iso_out_tr trees comp badc : forall vs inout,
    (forall i c, In (i, c) vs -> exists t, nth_error trees (c_tree c) = Some t /\ cd_is_cand Z 0 Z.add g wts (c_tree c) t c
                                           /\ ovt_tree_nonneg t /\ inS (c_weight c)) ->
    Forall inS (snd (cd_iso_out_tr g wts trees comp badc vs inout)).
  Proof.
    induction vs as [|[i c] vs IH]; intros inout Hv; [constructor|].
    assert (Hv' : forall i c, In (i, c) vs -> exists t, nth_error trees (c_tree c) = Some t
                     /\ cd_is_cand Z 0 Z.add g wts (c_tree c) t c /\ ovt_tree_nonneg t /\ inS (c_weight c))
      by (intros; eapply Hv; right; eassumption).
    cbn [cd_iso_out_tr]. destruct (nth i comp None) as [k|]; [|constructor].
    destruct (negb (nth k badc false) && negb (nth k inout false)); [|apply IH; exact Hv'].
    destruct (Hv i c (or_introl eq_refl)) as (t & Hn & (_ & a & b & v & u & He & _ & Ha & Hb & _ & Hw) & Hnn & HS).
    rewrite Hn, He, Ha, Hb. cbv zeta.
    specialize (IH (set_nth inout k true) Hv').
    destruct (fst (cd_iso_out_tr g wts trees comp badc vs (set_nth inout k true))); cbn [snd]; try exact IH.
    apply Forall_app. split; [exact IH|].
    pose proof (Hnn a v Ha). pose proof (Hnn b u Hb). pose proof (rf_wt_nonneg g wts (c_edge c) Hpw).
    change (lx_wt Z 0 wts (c_edge c)) with (wt wts (c_edge c)) in *. unfold inrange in *.
    constructor; [lia|]. constructor; [lia|constructor].
  Qed.

  Lemma ovt_iso_tr : Forall inSW (snd (iso_cycles_tr g wts)).
  Proof.
    unfold iso_cycles_tr. cbv zeta.
    pose proof (ovt_cycles_of_roots_tr (seq 0 (nv g))) as Hh. fold (horton_cycles_tr g wts) in Hh.
    pose proof (ovt_horton_erase g wts) as Eh.
    destruct (fst (horton_cycles_tr g wts)) as [[trees allcycles]| | | |]; try exact Hh.
    symmetry in Eh.
    set (cv := filter (cd_is_circuit Z g trees) allcycles).
    destruct (cd_links Z g trees cv cv) as [links| | | |]; try exact Hh.
    match goal with |- context [cd_components ?a ?b ?c ?d] => destruct (cd_components a b c d) as [comp|] end;
      [|exact Hh].
    cbn [snd]. apply Forall_app. split; [exact Hh|].
    eapply Forall_impl; [exact ovt_inS_inSW|]. apply ovt_iso_out_tr.
    intros i c Hin. apply cd_enum_In in Hin as [_ Hn]. apply nth_error_In in Hn. unfold cv in Hn.
    apply filter_In in Hn as [Hn _].
    pose proof (cz_C14_sound_horton g wts trees allcycles Hsg Hpw Eh) as Hsound.
    pose proof (ovt_sound_weight trees allcycles c Hsound Hn) as HS.
    unfold horton_cycles_Z, horton_cycles in Eh. apply cd_cycles_of_roots_inv in Eh as [F ->].
    apply cd_cycles_of_trees_In in Hn as (t & Ht & Hc). exists t. split; [exact Ht|]. split; [exact Hc|].
    split; [|exact HS]. apply (ovt_trees_nonneg (seq 0 (nv g)) trees F). eapply nth_error_In. exact Ht.
  Qed.

  Theorem ovt_collection_tr b picks : Forall inSW (snd (tb_collection_tr b g wts picks)).
  Proof.
    destruct b; cbn [tb_collection_tr].
    - apply ovt_cycles_of_roots_tr.
    - unfold fvs_cycles_tr. destruct (greedy_fvs g picks); try constructor. apply ovt_cycles_of_roots_tr.
    - apply ovt_iso_tr.
  Qed.

  (* ---- C. CandidateCycleBuilder --------------------------------------------------------------------------------- *)

  Lemma ovt_path_tr t : forall fuel w res cw, NoDup res -> cw = weight wts res ->
    Forall inS (snd (tc_path_tr fuel g wts t w res cw))
    /\ forall l' w', fst (tc_path_tr fuel g wts t w res cw) = TrOk (Some (l', w')) -> NoDup l' /\ w' = weight wts l'.
  Proof.
    induction fuel as [|fuel IH]; intros w res cw Hnd Ecw.
    - cbn [tc_path_tr]. destruct (sp_node_of Z t w) as [ws|]; [|split; [constructor|discriminate]].
      destruct (sn_pred ws); cbn [fst snd]; (split; [constructor|]); [discriminate|].
      intros l' w' E. injection E as <- <-. auto.
    - cbn [tc_path_tr]. destruct (sp_node_of Z t w) as [ws|]; [|split; [constructor|discriminate]].
      destruct (sn_pred ws) as [a|]; cbn [fst snd].
      2:{ split; [constructor|]. intros l' w' E. injection E as <- <-. auto. }
      destruct (memb a res) eqn:Em; [split; [constructor|discriminate]|]. cbv zeta.
      apply gl_memb_false in Em.
      assert (Hnd' : NoDup (a :: res)) by (constructor; assumption).
      assert (Ecw' : cw + lx_wt Z 0 wts a = weight wts (a :: res)).
      { rewrite rf_weight_cons. change (lx_wt Z 0 wts a) with (wt wts a). lia. }
      assert (HinS : inS (cw + lx_wt Z 0 wts a)) by (rewrite Ecw'; apply ovt_weight_nodup; assumption).
      destruct (opposite g a w) as [w'|]; cbn [fst snd].
      + destruct (IH w' (a :: res) _ Hnd' Ecw') as [H1 H2]. split; [constructor; assumption|exact H2].
      + split; [constructor; [exact HinS|constructor]|discriminate].
  Qed.

  Lemma ovt_build_tr trees pars sg c :
    Forall inS (snd (tc_build_tr g wts trees pars sg c))
    /\ forall C w, fst (tc_build_tr g wts trees pars sg c) = TrOk (TcFound C w) -> inS w.
  Proof.
    unfold tc_build_tr. destruct (nth_error trees (c_tree c)) as [t|]; [|split; [constructor|discriminate]].
    destruct (ends g (c_edge c)) as [[a b]|]; [|split; [constructor|discriminate]].
    destruct (sp_node_of Z t a); [|split; [constructor|discriminate]].
    destruct (sp_node_of Z t b); [|split; [constructor|discriminate]]. cbv zeta.
    match goal with |- context [if ?x then _ else _] => destruct x end; [|split; [constructor|discriminate]].
    assert (Hnd0 : NoDup [c_edge c]) by (constructor; [intros []|constructor]).
    assert (E0 : lx_wt Z 0 wts (c_edge c) = weight wts [c_edge c]).
    { rewrite rf_weight_cons. change (weight wts []) with 0. change (lx_wt Z 0 wts (c_edge c)) with (wt wts (c_edge c)). lia. }
    destruct (ovt_path_tr t (Datatypes.S (nv g)) a [c_edge c] _ Hnd0 E0) as [H1 H2].
    destruct (fst (tc_path_tr (Datatypes.S (nv g)) g wts t a [c_edge c] (lx_wt Z 0 wts (c_edge c))))
      as [[[l1 w1]|]| | |]; cbn [fst snd]; try (split; [exact H1|discriminate]).
    destruct (H2 l1 w1 eq_refl) as [Hnd1 E1].
    destruct (ovt_path_tr t (Datatypes.S (nv g)) b l1 w1 Hnd1 E1) as [H3 H4].
    split; [apply Forall_app; split; assumption|].
    intros C w E. destruct (fst (tc_path_tr (Datatypes.S (nv g)) g wts t b l1 w1)) as [[[l2 w2]|]| | |]; try discriminate.
    injection E as _ <-. destruct (H4 l2 w2 eq_refl) as [Hnd2 ->]. apply ovt_weight_nodup; assumption.
  Qed.

  (* the builder with weight limit: the same invariant, whatever the limit *)
  Lemma ovt_path_limit_tr t use lim : forall fuel w res cw, NoDup res -> cw = weight wts res ->
    Forall inS (snd (tc_path_limit_tr fuel g wts t use lim w res cw))
    /\ forall l' w', fst (tc_path_limit_tr fuel g wts t use lim w res cw) = TrOk (Some (l', w')) ->
                     NoDup l' /\ w' = weight wts l'.
  Proof.
    induction fuel as [|fuel IH]; intros w res cw Hnd Ecw.
    - cbn [tc_path_limit_tr]. destruct (sp_node_of Z t w) as [ws|]; [|split; [constructor|discriminate]].
      destruct (sn_pred ws); cbn [fst snd]; (split; [constructor|]); [discriminate|].
      intros l' w' E. injection E as <- <-. auto.
    - cbn [tc_path_limit_tr]. destruct (sp_node_of Z t w) as [ws|]; [|split; [constructor|discriminate]].
      destruct (sn_pred ws) as [a|]; cbn [fst snd].
      2:{ split; [constructor|]. intros l' w' E. injection E as <- <-. auto. }
      destruct (memb a res) eqn:Em; [split; [constructor|discriminate]|]. cbv zeta.
      apply gl_memb_false in Em.
      assert (Hnd' : NoDup (a :: res)) by (constructor; assumption).
      assert (Ecw' : cw + lx_wt Z 0 wts a = weight wts (a :: res)).
      { rewrite rf_weight_cons. change (lx_wt Z 0 wts a) with (wt wts a). lia. }
      assert (HinS : inS (cw + lx_wt Z 0 wts a)) by (rewrite Ecw'; apply ovt_weight_nodup; assumption).
      destruct (use && Z.ltb lim (cw + lx_wt Z 0 wts a))%bool; cbn [fst snd].
      { split; [constructor; [exact HinS|constructor]|discriminate]. }
      destruct (opposite g a w) as [w'|]; cbn [fst snd].
      + destruct (IH w' (a :: res) _ Hnd' Ecw') as [H1 H2]. split; [constructor; assumption|exact H2].
      + split; [constructor; [exact HinS|constructor]|discriminate].
  Qed.

  Lemma ovt_build_limit_tr trees pars sg c use lim :
    Forall inS (snd (tc_build_limit_tr g wts trees pars sg c use lim))
    /\ forall C w, fst (tc_build_limit_tr g wts trees pars sg c use lim) = TrOk (TcFound C w) -> inS w.
  Proof.
    unfold tc_build_limit_tr. destruct (nth_error trees (c_tree c)) as [t|]; [|split; [constructor|discriminate]].
    destruct (ends g (c_edge c)) as [[a b]|]; [|split; [constructor|discriminate]].
    destruct (sp_node_of Z t a); [|split; [constructor|discriminate]].
    destruct (sp_node_of Z t b); [|split; [constructor|discriminate]]. cbv zeta.
    match goal with |- context [if xorb ?x ?y then _ else _] => destruct (xorb x y) end;
      [|split; [constructor|discriminate]].
    destruct (use && Z.ltb lim (lx_wt Z 0 wts (c_edge c)))%bool; [split; [constructor|discriminate]|].
    assert (Hnd0 : NoDup [c_edge c]) by (constructor; [intros []|constructor]).
    assert (E0 : lx_wt Z 0 wts (c_edge c) = weight wts [c_edge c]).
    { rewrite rf_weight_cons. change (weight wts []) with 0. change (lx_wt Z 0 wts (c_edge c)) with (wt wts (c_edge c)). lia. }
    destruct (ovt_path_limit_tr t use lim (Datatypes.S (nv g)) a [c_edge c] _ Hnd0 E0) as [H1 H2].
    destruct (fst (tc_path_limit_tr (Datatypes.S (nv g)) g wts t use lim a [c_edge c] (lx_wt Z 0 wts (c_edge c))))
      as [[[l1 w1]|]| | |]; cbn [fst snd]; try (split; [exact H1|discriminate]).
    destruct (H2 l1 w1 eq_refl) as [Hnd1 E1].
    destruct (ovt_path_limit_tr t use lim (Datatypes.S (nv g)) b l1 w1 Hnd1 E1) as [H3 H4].
    split; [apply Forall_app; split; assumption|].
    intros C w E.
    destruct (fst (tc_path_limit_tr (Datatypes.S (nv g)) g wts t use lim b l1 w1)) as [[[l2 w2]|]| | |]; try discriminate.
    injection E as _ <-. destruct (H4 l2 w2 eq_refl) as [Hnd2 ->]. apply ovt_weight_nodup; assumption.
  Qed.

  (* ---- the sequential lookup ------------------------------------------------------------------------------------- *)

  Definition ovt_good_answer (x : cand Z * tc_answer Z) : Prop :=
    match snd x with TcFound _ w => inS w | TcNot => True end.

  Lemma ovt_eval_tr trees pars sg : forall cs,
    Forall inS (snd (tl_eval_tr g wts trees pars sg cs))
    /\ forall l, fst (tl_eval_tr g wts trees pars sg cs) = TrOk l -> Forall ovt_good_answer l.
  Proof.
    induction cs as [|c cs IH]; cbn [tl_eval_tr].
    - cbn [fst snd]. split; [constructor|]. intros l E. injection E as <-. constructor.
    - cbv zeta. destruct (ovt_build_tr trees pars sg c) as [H1 H2].
      destruct (fst (tc_build_tr g wts trees pars sg c)) as [a| | |]; cbn [fst snd]; try (split; [exact H1|discriminate]).
      destruct IH as [H3 H4]. split; [apply Forall_app; split; assumption|].
      intros l E. destruct (fst (tl_eval_tr g wts trees pars sg cs)) as [l0| | |]; try discriminate.
      injection E as <-. constructor; [|apply H4; reflexivity].
      unfold ovt_good_answer. cbn [snd]. destruct a as [C w|]; [|exact I]. eapply H2. reflexivity.
  Qed.

  Lemma ovt_answers_tr trees cands sg :
    Forall inS (snd (tl_answers_tr g wts trees cands sg))
    /\ forall l, fst (tl_answers_tr g wts trees cands sg) = TrOk l -> Forall ovt_good_answer l.
  Proof.
    unfold tl_answers_tr. destruct (tp_all Z g trees sg); try (split; [constructor|discriminate]). apply ovt_eval_tr.
  Qed.

  Lemma ovt_phase_pick l c w : Forall ovt_good_answer l -> trees_phase_pick Z Z.ltb l c = Some w -> inS w.
  Proof.
    intros Hl. unfold trees_phase_pick. destruct (find (tl_matches Z Z.ltb l c) l) as [[c0 [C w0|]]|] eqn:Ef; try discriminate.
    intros E. injection E as <-. apply find_some in Ef as [Hin _].
    rewrite Forall_forall in Hl. apply (Hl _ Hin).
  Qed.

  Lemma ovt_phase_first l c w : Forall ovt_good_answer l -> trees_phase_first Z Z.ltb l = Some (c, w) -> inS w.
  Proof.
    intros Hl. unfold trees_phase_first.
    destruct (find (fun x => tl_found Z x && tl_is_min Z Z.ltb l (fst x)) l) as [[c0 [C w0|]]|] eqn:Ef; try discriminate.
    intros E. injection E as _ <-. apply find_some in Ef as [Hin _].
    rewrite Forall_forall in Hl. apply (Hl _ Hin).
  Qed.

  Lemma ovt_search_accept_tr trees cands fi cycles k Sv :
    Forall inS (snd (trees_search_accept_tr g wts trees cands fi cycles k Sv))
    /\ forall c w, fst (trees_search_accept_tr g wts trees cands fi cycles k Sv) = PFound c w -> inS w.
  Proof.
    unfold trees_search_accept_tr. destruct (nth_error cycles k) as [c0|]; [|split; [constructor|discriminate]].
    cbv zeta. cbn [fst snd]. destruct (ovt_answers_tr trees cands (indices_to_edges fi Sv)) as [H1 H2].
    split; [exact H1|]. intros c w E.
    destruct (fst (tl_answers_tr g wts trees cands (indices_to_edges fi Sv))) as [l| | |]; try discriminate.
    destruct (trees_phase_pick Z Z.ltb l c0) as [w0|] eqn:Ep; [|discriminate]. injection E as _ <-.
    eapply ovt_phase_pick; [apply H2; reflexivity|exact Ep].
  Qed.

  Lemma ovt_search_first_tr trees cands fi k Sv :
    Forall inS (snd (trees_search_first_tr g wts trees cands fi k Sv))
    /\ forall c w, fst (trees_search_first_tr g wts trees cands fi k Sv) = PFound c w -> inS w.
  Proof.
    unfold trees_search_first_tr. cbv zeta. cbn [fst snd].
    destruct (ovt_answers_tr trees cands (indices_to_edges fi Sv)) as [H1 H2].
    split; [exact H1|]. intros c w E.
    destruct (fst (tl_answers_tr g wts trees cands (indices_to_edges fi Sv))) as [l| | |]; try discriminate.
    destruct (trees_phase_first Z Z.ltb l) as [[c0 w0]|] eqn:Ep; [|discriminate]. injection E as _ <-.
    eapply ovt_phase_first; [apply H2; reflexivity|exact Ep].
  Qed.

  (* ---- the phase loop: running totals (OverflowProofs4.ov_sva_phases_tr with a general predicate) ----------------- *)

  Section Sva.
    Variables (Pv : Z -> Prop) (select : nat -> list vec -> nat) (search : nat -> vec -> phase_result Z * list Z)
              (fi : forest_index).
    Hypothesis Hsearch : forall k Sv, Forall Pv (snd (search k Sv))
                                      /\ forall c w, fst (search k Sv) = PFound c w -> inS w.

    Lemma ovt_sva_total_mono : forall ks sup acc total cycles T sup',
      fst (sva_phases_tr select search fi ks sup acc total) = SvaOk cycles T sup' -> total <= T.
    Proof.
      induction ks as [|k ks IH]; intros sup acc total cycles T sup' E.
      - cbn [sva_phases_tr fst] in E. injection E as _ <- _. lia.
      - cbn [sva_phases_tr] in E. cbv zeta in E.
        match type of E with context [fst (search ?x1 ?x2)] =>
          destruct (Hsearch x1 x2) as [_ Hw]; destruct (fst (search x1 x2)) as [c w| |] end;
          cbn [fst] in E; try discriminate.
        specialize (IH _ _ _ _ _ _ E). specialize (Hw c w eq_refl). unfold inrange in Hw. lia.
    Qed.

    Lemma ovt_sva_phases : forall ks sup acc total j, 0 <= total <= Z.of_nat j * S ->
      Forall (fun v => Pv v \/ 0 <= v <= Z.of_nat (j + length ks) * S)
             (snd (sva_phases_tr select search fi ks sup acc total))
      /\ forall cycles T sup', fst (sva_phases_tr select search fi ks sup acc total) = SvaOk cycles T sup' ->
           Forall (fun v => Pv v \/ total <= v <= T) (snd (sva_phases_tr select search fi ks sup acc total)).
    Proof.
      pose proof (ov_wsum_nonneg g wts Hpw) as HS0.
      induction ks as [|k ks IH]; intros sup acc total j Ht.
      - cbn [sva_phases_tr snd fst]. split; [constructor|]. intros; constructor.
      - cbn [sva_phases_tr]. cbv zeta.
        match goal with |- context [fst (search ?x1 ?x2)] =>
          destruct (Hsearch x1 x2) as [Hv Hw]; destruct (fst (search x1 x2)) as [c w| |] eqn:Es end.
        + specialize (Hw c w eq_refl). unfold inrange in Hw.
          assert (Ht' : 0 <= total + w <= Z.of_nat (Datatypes.S j) * S) by lia.
          match goal with |- context [sva_phases_tr select search fi ks ?x1 ?x2 ?x3] =>
            destruct (IH x1 x2 x3 (Datatypes.S j) Ht') as [IH1 IH2];
            pose proof (ovt_sva_total_mono ks x1 x2 x3) as Hmono end.
          cbn [snd fst]. cbn [length]. split.
          * apply Forall_app; split; [eapply Forall_impl; [|exact Hv]; cbv beta; intros v Hv'; left; exact Hv'|].
            constructor; [right; nia|].
            eapply Forall_impl; [|exact IH1]. cbv beta. intros v [Hv'|Hv']; [left; exact Hv'|right].
            replace (j + Datatypes.S (length ks))%nat with (Datatypes.S j + length ks)%nat by lia. exact Hv'.
          * intros cycles T sup' E. specialize (Hmono _ _ _ E). specialize (IH2 _ _ _ E).
            apply Forall_app; split; [eapply Forall_impl; [|exact Hv]; cbv beta; intros v Hv'; left; exact Hv'|].
            constructor; [right; lia|].
            eapply Forall_impl; [|exact IH2]. cbv beta. intros v [Hv'|Hv']; [left; exact Hv'|right; lia].
        + cbn [snd fst]. split; [|discriminate].
          eapply Forall_impl; [|exact Hv]. cbv beta. intros v Hv'. left. exact Hv'.
        + cbn [snd fst]. split; [|discriminate].
          eapply Forall_impl; [|exact Hv]. cbv beta. intros v Hv'. left. exact Hv'.
    Qed.
  End Sva.

  (* ---- _mcb_sva_trees with any lookup whose sums are in [0, S] ------------------------------------------------------ *)

  Theorem ovt_trees_tr b roots picks
          (search : list (sp_tree Z) -> list (cand Z) -> forest_index -> nat -> vec -> phase_result Z * list Z) :
    (forall trees cands fi k Sv, Forall inS (snd (search trees cands fi k Sv))
                                 /\ forall c w, fst (search trees cands fi k Sv) = PFound c w -> inS w) ->
    (forall fi, create_index g roots = Some fi ->
       Forall (fun v => inSW v \/ 0 <= v <= Z.of_nat (fi_csd fi) * S) (snd (mcb_sva_trees_tr b g wts roots picks search)))
    /\ forall cycles T sup, fst (mcb_sva_trees_tr b g wts roots picks search) = TRun (SvaOk cycles T sup) ->
         Forall (fun v => inSW v \/ 0 <= v <= T) (snd (mcb_sva_trees_tr b g wts roots picks search)).
  Proof.
    intros Hsearch. unfold mcb_sva_trees_tr. destruct (create_index g roots) as [fi|].
    2:{ split; [intros fi E; discriminate|]. intros; constructor. }
    cbv zeta. pose proof (ovt_collection_tr b picks) as Hc.
    assert (Hc' : forall (Q : Z -> Prop), Forall (fun v => inSW v \/ Q v) (snd (tb_collection_tr b g wts picks))).
    { intros Q. eapply Forall_impl; [|exact Hc]. cbv beta. intros v Hv. left. exact Hv. }
    destruct (fst (tb_collection_tr b g wts picks)) as [[trees cands]| | | |]; cbn [fst snd];
      try (split; [intros fi' _; apply Hc'|intros; apply Hc']).
    pose proof (ovt_sva_phases inS select_none (search trees cands fi) fi (Hsearch trees cands fi)
                  (seq 0 (fi_csd fi)) (map (fun i => [i]) (seq 0 (fi_csd fi))) [] 0 0%nat) as [H1 H2]; [lia|].
    split.
    - intros fi' E. injection E as <-. rewrite seq_length in H1. apply Forall_app. split; [apply Hc'|].
      eapply Forall_impl; [|exact H1]. cbv beta. intros v [Hv|Hv]; [left; apply ovt_inS_inSW; exact Hv|right; exact Hv].
    - intros cycles T sup E. injection E as E. apply Forall_app. split; [apply Hc'|].
      eapply Forall_impl; [|exact (H2 _ _ _ E)]. cbv beta.
      intros v [Hv|Hv]; [left; apply ovt_inS_inSW; exact Hv|right; exact Hv].
  Qed.
End Bounds.
