(* OptProofs4.v — lemmas for property C08, part 4: the optimum does not depend on the order in which the
   edges were inserted.
   (1) A general transport principle: a pair of mutually inverse GF(2)-linear maps between the cycle spaces
       of g and g' that map simple cycles to simple cycles and preserve weights carries minimum cycle bases
       to minimum cycle bases.
   (2) Renaming the edge ids by a permutation rho of 0..m-1 (same endpoints) induces such a pair
       (Z |-> the canonical form of rho(Z)).
   (3) permute_edges / permute_weights of OptSpec.v is such a renaming.
   Names carry the prefix op_.  No axioms. *)
From Coq Require Import List Arith Bool ZArith Lia Sorted Permutation.
From Parmcb Require Import GraphModel GF2Model GF2Proofs GraphSpec GraphLemmas GF2Lin McbSpec DePinaSpec DePinaProofs
     OptSpec OptProofs.
Import ListNotations.

(* ---- (1) transport along an isomorphism of cycle spaces --------------------------------------------- *)

Record op_cs_map (g g' : graph) (phi psi : vec -> vec) : Prop := {
  csm_nil : phi [] = [];
  csm_lin : forall a b, in_cycle_space g a -> in_cycle_space g b -> phi (vadd a b) = vadd (phi a) (phi b);
  csm_cs : forall Z, in_cycle_space g Z -> in_cycle_space g' (phi Z);
  csm_sc : forall C, simple_cycle g C -> simple_cycle g' (phi C);
  csm_inv : forall Z, in_cycle_space g Z -> psi (phi Z) = Z
}.

Lemma op_comb_cs g m : forall B, Forall (in_cycle_space g) B -> in_cycle_space g (comb m B).
Proof.
  destruct (cycle_space_subspace g) as (_ & Hnil & Hadd). apply comb_inV; assumption.
Qed.

Lemma op_comb_map g g' phi psi : op_cs_map g g' phi psi ->
  forall m B, Forall (in_cycle_space g) B -> comb m (map phi B) = phi (comb m B).
Proof.
  intros M. induction m as [|b m IH]; intros B HB; [symmetry; apply (csm_nil _ _ _ _ M)|].
  destruct B as [|C B]; [symmetry; apply (csm_nil _ _ _ _ M)|].
  inversion HB as [|? ? HC HB']; subst. cbn [map comb]. rewrite IH by exact HB'.
  destruct b; [|reflexivity]. symmetry. apply (csm_lin _ _ _ _ M); [exact HC|apply op_comb_cs; exact HB'].
Qed.

(* simple cycles are elements of the cycle space (true in every simple graph) *)
Definition op_sc_in_cs (g : graph) : Prop := forall C, simple_cycle g C -> in_cycle_space g C.

Lemma op_simple_sc_in_cs g : simple_graph g -> op_sc_in_cs g.
Proof. intros Hs C. apply simple_cycle_in_cycle_space. exact Hs. Qed.

Lemma op_basis_in_cs g B : op_sc_in_cs g -> Forall (simple_cycle g) B -> Forall (in_cycle_space g) B.
Proof.
  intros Hs HB. eapply Forall_impl; [|exact HB]. exact Hs.
Qed.

Lemma op_cycle_basis_map g g' phi psi B :
  op_sc_in_cs g -> op_cs_map g g' phi psi -> op_cs_map g' g psi phi ->
  cycle_basis g B -> cycle_basis g' (map phi B).
Proof.
  intros Hs M M' (HB & Hi & Hsp). pose proof (op_basis_in_cs g B Hs HB) as HBV. split; [|split].
  - rewrite Forall_forall in *. intros C' HC'. apply in_map_iff in HC' as (C & <- & HC).
    apply (csm_sc _ _ _ _ M). apply HB. exact HC.
  - intros m Hl Hc. rewrite map_length in Hl. apply Hi; [exact Hl|].
    rewrite (op_comb_map g g' phi psi M m B HBV) in Hc.
    rewrite <- (csm_inv _ _ _ _ M (comb m B)) by (apply op_comb_cs; exact HBV).
    rewrite Hc. apply (csm_nil _ _ _ _ M').
  - intros Z' HZ'. destruct (Hsp (psi Z') (csm_cs _ _ _ _ M' Z' HZ')) as (m & Hl & Hm).
    exists m. split; [rewrite map_length; exact Hl|].
    rewrite (op_comb_map g g' phi psi M m B HBV), Hm. apply (csm_inv _ _ _ _ M'). exact HZ'.
Qed.

Lemma op_total_weight_map w w' (phi : vec -> vec) B :
  (forall C, In C B -> weight w' (phi C) = weight w C) -> total_weight w' (map phi B) = total_weight w B.
Proof.
  induction B as [|C B IH]; intros H; [reflexivity|].
  unfold total_weight in *. cbn [map fold_right]. rewrite (H C) by (left; reflexivity).
  rewrite IH; [reflexivity|]. intros C' HC'. apply H. right. exact HC'.
Qed.

Lemma op_is_opt_cs_map g g' phi psi w w' x :
  op_sc_in_cs g -> op_sc_in_cs g' -> op_cs_map g g' phi psi -> op_cs_map g' g psi phi ->
  (forall C, simple_cycle g C -> weight w' (phi C) = weight w C) ->
  is_opt g w x -> is_opt g' w' x.
Proof.
  intros Hs Hs' M M' Hw (B & (HB & Hm) & <-).
  assert (Hw' : forall C', simple_cycle g' C' -> weight w (psi C') = weight w' C').
  { intros C' HC'. rewrite <- (Hw (psi C')) by (apply (csm_sc _ _ _ _ M'); exact HC').
    rewrite (csm_inv _ _ _ _ M') by (apply Hs'; assumption). reflexivity. }
  assert (HtB : total_weight w' (map phi B) = total_weight w B).
  { apply op_total_weight_map. intros C HC. apply Hw. destruct HB as (HB & _).
    rewrite Forall_forall in HB. apply HB. exact HC. }
  exists (map phi B). split; [split|exact HtB].
  - apply (op_cycle_basis_map g g' phi psi B Hs M M' HB).
  - intros B' HB'. rewrite HtB.
    assert (HtB' : total_weight w (map psi B') = total_weight w' B').
    { apply op_total_weight_map. intros C HC. apply Hw'. destruct HB' as (HB' & _).
      rewrite Forall_forall in HB'. apply HB'. exact HC. }
    rewrite <- HtB'. apply Hm. apply (op_cycle_basis_map g' g psi phi B' Hs' M' M HB').
Qed.

(* ---- (2) renaming the edge ids ------------------------------------------------------------------------ *)

(* g' is g with edge e renamed rho e (rho a permutation of 0..m-1 with inverse rho'); same vertices *)
Definition op_edge_renaming (g g' : graph) (m : nat) (rho rho' : nat -> nat) : Prop :=
  ne g = m /\ ne g' = m /\ nv g' = nv g /\ perm_on m rho rho' /\
  forall e, e < m -> ends g' (rho e) = ends g e.

Lemma op_edge_renaming_sym g g' m rho rho' :
  op_edge_renaming g g' m rho rho' -> op_edge_renaming g' g m rho' rho.
Proof.
  intros (H1 & H2 & H3 & Hp & He).
  split; [exact H2|]. split; [exact H1|]. split; [symmetry; exact H3|]. split; [apply op_perm_on_sym; exact Hp|].
  intros i Hi. destruct (Hp i Hi) as (_ & Hr & _ & Hrr). rewrite <- (He (rho' i) Hr), Hrr. reflexivity.
Qed.

(* the canonical form of rho(Z) *)
Definition op_ren (rho : nat -> nat) (Z : vec) : vec := set_of_list (map rho Z).

Lemma op_ren_sorted rho Z : sorted (op_ren rho Z).
Proof. apply set_of_list_sorted. Qed.

Lemma op_ren_In rho Z i : In i (op_ren rho Z) <-> exists e, In e Z /\ rho e = i.
Proof.
  unfold op_ren. rewrite <- mem_In, set_of_list_mem. unfold dset. rewrite existsb_exists. split.
  - intros (y & Hy & E). apply Nat.eqb_eq in E. subst y. apply in_map_iff in Hy as (e & He & HeZ). eauto.
  - intros (e & He & <-). exists (rho e). split; [apply in_map; exact He|apply Nat.eqb_refl].
Qed.

Lemma op_ren_nil rho : op_ren rho [] = [].
Proof. reflexivity. Qed.

Definition op_bounded (m : nat) (Z : vec) : Prop := forall e, In e Z -> e < m.

Lemma op_ren_bounded m rho rho' Z : perm_on m rho rho' -> op_bounded m Z -> op_bounded m (op_ren rho Z).
Proof.
  intros Hp HB i Hi. apply op_ren_In in Hi as (e & He & <-). apply (Hp e (HB e He)).
Qed.

Lemma op_ren_mem m rho rho' Z i : perm_on m rho rho' -> op_bounded m Z ->
  mem (op_ren rho Z) i = (i <? m) && mem Z (rho' i).
Proof.
  intros Hp HB. apply Bool.eq_iff_eq_true. rewrite andb_true_iff, Nat.ltb_lt, !mem_In, op_ren_In. split.
  - intros (e & He & <-). destruct (Hp e (HB e He)) as (H1 & _ & H3 & _). rewrite H3. auto.
  - intros (Hi & Hin). exists (rho' i). split; [exact Hin|]. apply (Hp i Hi).
Qed.

Lemma op_ren_inverse m rho rho' Z : perm_on m rho rho' -> sorted Z -> op_bounded m Z ->
  op_ren rho' (op_ren rho Z) = Z.
Proof.
  intros Hp HS HB. apply sorted_ext; [apply op_ren_sorted|exact HS|]. intros i.
  rewrite (op_ren_mem m rho' rho) by (auto using op_perm_on_sym; eapply op_ren_bounded; eauto).
  rewrite (op_ren_mem m rho rho') by assumption.
  destruct (Nat.ltb_spec i m) as [Hi|Hi]; cbn [andb].
  - destruct (Hp i Hi) as (H1 & _ & H3 & _). apply Nat.ltb_lt in H1. rewrite H1, H3. reflexivity.
  - destruct (mem Z i) eqn:E; [|reflexivity]. apply mem_In in E. apply HB in E. lia.
Qed.

Lemma op_ren_add m rho rho' a b : perm_on m rho rho' -> sorted a -> sorted b -> op_bounded m a -> op_bounded m b ->
  op_ren rho (vadd a b) = vadd (op_ren rho a) (op_ren rho b).
Proof.
  intros Hp Sa Sb Ba Bb. apply sorted_ext; [apply op_ren_sorted|apply vadd_sorted; apply op_ren_sorted|].
  intros i. rewrite vadd_mem by apply op_ren_sorted.
  assert (Bab : op_bounded m (vadd a b)).
  { intros e He. apply mem_In in He. rewrite vadd_mem in He by assumption.
    destruct (mem a e) eqn:Ea; [apply Ba, mem_In; exact Ea|].
    destruct (mem b e) eqn:Eb; [apply Bb, mem_In; exact Eb|discriminate]. }
  rewrite !(op_ren_mem m rho rho') by assumption. rewrite vadd_mem by assumption.
  destruct (i <? m); reflexivity.
Qed.

Lemma op_filter_map_length {A B} (f : B -> bool) (h : A -> B) l :
  length (filter f (map h l)) = length (filter (fun x => f (h x)) l).
Proof.
  induction l as [|x l IH]; [reflexivity|]. cbn [map filter]. destruct (f (h x)); cbn [length]; rewrite IH; reflexivity.
Qed.

Lemma op_NoDup_map_perm m rho rho' Z : perm_on m rho rho' -> op_bounded m Z -> NoDup Z -> NoDup (map rho Z).
Proof.
  intros Hp HB. apply op_NoDup_map_inj. intros a b Ha Hb. apply (op_perm_on_inj m rho rho'); auto.
Qed.

Lemma op_ren_same_set rho Z i : In i (op_ren rho Z) <-> In i (map rho Z).
Proof.
  rewrite op_ren_In, in_map_iff. split; intros (e & H1 & H2); exists e; auto.
Qed.

Section Renaming.
  Variables (g g' : graph) (m : nat) (rho rho' : nat -> nat).
  Hypothesis R : op_edge_renaming g g' m rho rho'.

  Let Hp : perm_on m rho rho'. Proof. apply R. Qed.

  Lemma op_ren_incident e v : e < m -> incident g' (rho e) v = incident g e v.
  Proof. intros He. destruct R as (_ & _ & _ & _ & HE). unfold incident. rewrite (HE e He). reflexivity. Qed.

  Lemma op_ren_joins e a b : e < m -> joins g e a b -> joins g' (rho e) a b.
  Proof. intros He. destruct R as (_ & _ & _ & _ & HE). unfold joins. rewrite (HE e He). tauto. Qed.

  Lemma op_ren_deg Z v : sorted Z -> op_bounded m Z -> deg_in g' (op_ren rho Z) v = deg_in g Z v.
  Proof.
    intros HS HB. unfold deg_in.
    rewrite (dp_filter_length_same_set _ (op_ren rho Z) (map rho Z)).
    - rewrite op_filter_map_length. f_equal. apply filter_ext_in. intros e He. apply op_ren_incident, HB, He.
    - apply gl_sorted_NoDup, op_ren_sorted.
    - eapply op_NoDup_map_perm; eauto. apply gl_sorted_NoDup. exact HS.
    - intros e. apply op_ren_same_set.
  Qed.

  Lemma op_ren_cs Z : in_cycle_space g Z -> in_cycle_space g' (op_ren rho Z).
  Proof.
    destruct R as (Hm & Hm' & _). intros (HS & HB & HE). rewrite Hm in HB.
    split; [apply op_ren_sorted|]. split.
    - rewrite Hm'. eapply op_ren_bounded; eauto.
    - intros v. rewrite op_ren_deg by assumption. apply HE.
  Qed.

  Definition op_renw (p : list (nat * nat)) : list (nat * nat) := map (fun ey => (rho (fst ey), snd ey)) p.

  Lemma op_renw_edges p : wedges (op_renw p) = map rho (wedges p).
  Proof. unfold wedges, op_renw. rewrite !map_map. reflexivity. Qed.

  Lemma op_renw_verts p : wverts (op_renw p) = wverts p.
  Proof. unfold wverts, op_renw. rewrite map_map. reflexivity. Qed.

  Lemma op_ren_walk x p z : walk g x p z -> walk g' x (op_renw p) z.
  Proof.
    destruct R as (Hm & _ & Hn & _).
    induction 1 as [x Hx|x e y p z Hxy Hw IH].
    - constructor. rewrite Hn. exact Hx.
    - cbn [op_renw map fst snd]. econstructor; [|exact IH].
      apply op_ren_joins; [|exact Hxy]. rewrite <- Hm. eapply gl_joins_lt; eauto.
  Qed.

  Lemma op_ren_sc C : simple_cycle g C -> simple_cycle g' (op_ren rho C).
  Proof.
    destruct R as (Hm & _). intros (Hne & HS & x & p & Hw & Hnde & Hndv & HE).
    assert (HB : op_bounded m (wedges p)).
    { intros e He. rewrite <- Hm. eapply gl_walk_edges_lt; eauto. }
    split; [|split; [apply op_ren_sorted|]].
    - destruct C as [|c C]; [congruence|]. intros E.
      assert (Hin : In (rho c) (op_ren rho (c :: C))) by (apply op_ren_In; exists c; split; [left; reflexivity|reflexivity]).
      rewrite E in Hin. destruct Hin.
    - exists x, (op_renw p). rewrite op_renw_edges, op_renw_verts.
      split; [apply op_ren_walk; exact Hw|]. split; [|split; [exact Hndv|]].
      + eapply op_NoDup_map_perm; eauto.
      + intros i. rewrite op_ren_same_set, !in_map_iff. split; intros (e & H1 & H2); exists e; (split; [exact H1|apply HE; exact H2]).
  Qed.
End Renaming.

Lemma op_renaming_cs_map g g' m rho rho' :
  op_edge_renaming g g' m rho rho' -> op_cs_map g g' (op_ren rho) (op_ren rho').
Proof.
  intros R. pose proof R as (Hm & Hm' & Hn & Hp & HE).
  assert (HB : forall Z, in_cycle_space g Z -> op_bounded m Z).
  { intros Z (_ & HB & _). rewrite Hm in HB. exact HB. }
  constructor.
  - reflexivity.
  - intros a b Ha Hb. apply (op_ren_add m rho rho'); auto; [apply Ha|apply Hb].
  - apply (op_ren_cs g g' m rho rho' R).
  - apply (op_ren_sc g g' m rho rho' R).
  - intros Z HZ. apply (op_ren_inverse m rho rho'); auto. apply HZ.
Qed.

(* sums over a canonical edge set *)
Lemma op_sum_perm (f : nat -> Z) l l' : Permutation l l' ->
  fold_right Z.add 0%Z (map f l) = fold_right Z.add 0%Z (map f l').
Proof.
  induction 1 as [|x l l' _ IH|x y l|l l' l'' _ IH1 _ IH2]; cbn [map fold_right]; try lia.
Qed.

Lemma op_weight_ren m rho rho' w w' C : perm_on m rho rho' -> sorted C -> op_bounded m C ->
  (forall e, e < m -> wt w' (rho e) = wt w e) -> weight w' (op_ren rho C) = weight w C.
Proof.
  intros Hp HS HB Hw. unfold weight.
  rewrite (op_sum_perm (wt w') (op_ren rho C) (map rho C)).
  - rewrite map_map. f_equal. apply map_ext_in. intros e He. apply Hw, HB, He.
  - apply NoDup_Permutation.
    + apply gl_sorted_NoDup, op_ren_sorted.
    + eapply op_NoDup_map_perm; eauto. apply gl_sorted_NoDup. exact HS.
    + intros i. apply op_ren_same_set.
Qed.

Lemma op_renaming_sc_in_cs g g' m rho rho' : op_edge_renaming g g' m rho rho' -> op_sc_in_cs g -> op_sc_in_cs g'.
Proof.
  intros R Hs C' HC'. pose proof (op_edge_renaming_sym _ _ _ _ _ R) as R'.
  pose proof R as (Hm & Hm' & _ & Hp & _).
  pose proof (op_ren_cs g g' m rho rho' R _ (Hs _ (op_ren_sc g' g m rho' rho R' C' HC'))) as H.
  rewrite (op_ren_inverse m rho' rho) in H; [exact H|apply op_perm_on_sym; exact Hp|apply HC'|].
  intros e He. rewrite <- Hm'. eapply op_simple_cycle_edges_lt; eauto.
Qed.

Lemma op_is_opt_edge_renaming g g' m rho rho' w w' x :
  simple_graph g -> op_edge_renaming g g' m rho rho' ->
  (forall e, e < m -> wt w' (rho e) = wt w e) ->
  is_opt g w x -> is_opt g' w' x.
Proof.
  intros Hs R Hw. pose proof (op_simple_sc_in_cs g Hs) as Hsc.
  apply (op_is_opt_cs_map g g' (op_ren rho) (op_ren rho')); auto.
  - eapply op_renaming_sc_in_cs; eauto.
  - eapply op_renaming_cs_map; eauto.
  - eapply op_renaming_cs_map; eauto. apply op_edge_renaming_sym. exact R.
  - intros C HC. destruct R as (Hm & _ & _ & Hp & _). apply (op_weight_ren m rho rho'); auto.
    + apply HC.
    + intros e He. rewrite <- Hm. eapply op_simple_cycle_edges_lt; eauto.
Qed.

(* ---- (3) permute_edges --------------------------------------------------------------------------------- *)

Fixpoint op_index_of (e : nat) (l : list nat) : nat :=
  match l with
  | [] => 0
  | x :: r => if Nat.eqb e x then 0 else S (op_index_of e r)
  end.

Lemma op_index_of_In e l : In e l -> op_index_of e l < length l /\ nth (op_index_of e l) l 0 = e.
Proof.
  induction l as [|x l IH]; intros Hin; [destruct Hin|].
  cbn [op_index_of]. destruct (Nat.eqb_spec e x) as [->|Hne]; cbn [length nth]; [split; [lia|reflexivity]|].
  destruct Hin as [->|Hin]; [congruence|]. destruct (IH Hin) as [H1 H2]. split; [lia|exact H2].
Qed.

Lemma op_index_of_nth l : NoDup l -> forall i, i < length l -> op_index_of (nth i l 0) l = i.
Proof.
  induction 1 as [|x l Hx Hnd IH]; intros i Hi; [cbn [length] in Hi; lia|].
  destruct i as [|i]; cbn [nth op_index_of]; [rewrite Nat.eqb_refl; reflexivity|].
  cbn [length] in Hi. destruct (Nat.eqb_spec (nth i l 0) x) as [E|_].
  - exfalso. apply Hx. rewrite <- E. apply nth_In. lia.
  - rewrite IH by lia. reflexivity.
Qed.

Lemma op_edge_perm_perm_on m sigma : is_edge_perm m sigma ->
  perm_on m (fun e => op_index_of e sigma) (fun i => nth i sigma 0).
Proof.
  intros (Hl & Hnd & Hlt).
  assert (Hsur : forall v, v < m -> In v sigma).
  { intros v Hv. apply (NoDup_length_incl Hnd (l' := seq 0 m)).
    - rewrite seq_length. lia.
    - intros e He. apply in_seq. specialize (Hlt e He). lia.
    - apply in_seq. lia. }
  intros v Hv. destruct (op_index_of_In v sigma (Hsur v Hv)) as [H1 H2].
  split; [lia|]. split; [apply Hlt, nth_In; lia|]. split; [exact H2|].
  apply op_index_of_nth; [exact Hnd|lia].
Qed.

Lemma op_permute_edges_renaming g sigma : is_edge_perm (ne g) sigma ->
  op_edge_renaming g (permute_edges sigma g) (ne g) (fun e => op_index_of e sigma) (fun i => nth i sigma 0).
Proof.
  intros HP. pose proof (op_edge_perm_perm_on _ _ HP) as Hp. destruct HP as (Hl & Hnd & Hlt).
  split; [reflexivity|]. split; [unfold ne, permute_edges; cbn [ge]; rewrite map_length; exact Hl|].
  split; [reflexivity|]. split; [exact Hp|].
  intros e He. destruct (Hp e He) as (H1 & _ & H3 & _). cbn beta in H1, H3.
  unfold ends, permute_edges. cbn [ge]. rewrite nth_error_map.
  rewrite (nth_error_nth' sigma 0) by lia. cbn [option_map]. rewrite H3.
  symmetry. apply nth_error_nth'. exact He.
Qed.

Lemma op_permute_weights_wt sigma w i : i < length sigma -> wt (permute_weights sigma w) i = wt w (nth i sigma 0).
Proof.
  intros Hi. unfold wt, permute_weights.
  rewrite (nth_indep _ 0%Z (nth 0 w 0%Z)) by (rewrite map_length; exact Hi).
  apply (map_nth (fun e => nth e w 0%Z)).
Qed.

Lemma op_is_opt_edge_order : C08_edge_order_statement.
Proof.
  intros g w sigma x Hs Hl HP.
  apply (op_is_opt_edge_renaming g _ (ne g) _ _ w _ x Hs (op_permute_edges_renaming g sigma HP)).
  intros e He. destruct (op_edge_perm_perm_on _ _ HP e He) as (H1 & _ & H3 & _). cbn beta in H1, H3.
  destruct HP as (Hls & _). rewrite op_permute_weights_wt by lia. rewrite H3. reflexivity.
Qed.

(* reordering the edges keeps the graph simple *)
Lemma op_same_pair_sym p q : same_pair p q = same_pair q p.
Proof.
  destruct p as [a b], q as [c d]. unfold same_pair. cbn [fst snd].
  rewrite (Nat.eqb_sym c a), (Nat.eqb_sym d b), (Nat.eqb_sym c b), (Nat.eqb_sym d a).
  destruct (a =? c), (b =? d), (a =? d), (b =? c); reflexivity.
Qed.

Lemma op_no_parallel_elim es : no_parallel es = true -> forall i j p q, i < j ->
  nth_error es i = Some p -> nth_error es j = Some q -> same_pair p q = false.
Proof.
  induction es as [|x es IH]; intros H i j p q Hij Hi Hj; [destruct i; discriminate|].
  cbn [no_parallel] in H. apply andb_true_iff in H as [H1 H2].
  destruct j as [|j]; [lia|]. cbn [nth_error] in Hj. destruct i as [|i]; cbn [nth_error] in Hi.
  - inversion Hi; subst x. destruct (same_pair p q) eqn:E; [|reflexivity].
    apply negb_true_iff in H1. assert (Hex : existsb (same_pair p) es = true); [|congruence].
    apply existsb_exists. exists q. split; [eapply nth_error_In; eauto|exact E].
  - apply (IH H2 i j); auto. lia.
Qed.

Lemma op_no_parallel_intro es :
  (forall i j p q, i < j -> nth_error es i = Some p -> nth_error es j = Some q -> same_pair p q = false) ->
  no_parallel es = true.
Proof.
  induction es as [|x es IH]; intros H; [reflexivity|]. cbn [no_parallel]. apply andb_true_iff. split.
  - apply negb_true_iff. destruct (existsb (same_pair x) es) eqn:E; [|reflexivity].
    apply existsb_exists in E as (q & Hq & Hs). apply In_nth_error in Hq as (j & Hj).
    rewrite (H 0 (S j) x q) in Hs; [discriminate|lia|reflexivity|exact Hj].
  - apply IH. intros i j p q Hij Hi Hj. apply (H (S i) (S j)); auto. lia.
Qed.

Lemma op_simple_permute_edges g sigma : simple_graph g -> is_edge_perm (ne g) sigma ->
  simple_graph (permute_edges sigma g).
Proof.
  intros Hs (Hl & Hnd & Hlt). unfold simple_graph, simpleb in *. apply andb_true_iff in Hs as [H1 H2].
  cbn [permute_edges nv ge]. apply andb_true_iff. split.
  - rewrite forallb_forall in *. intros p Hp. apply in_map_iff in Hp as (e & <- & He).
    apply H1. apply nth_In. apply Hlt. exact He.
  - apply op_no_parallel_intro. intros i j p q Hij Hi Hj.
    rewrite nth_error_map in Hi, Hj.
    destruct (nth_error sigma i) as [a|] eqn:Ea; [|discriminate].
    destruct (nth_error sigma j) as [b|] eqn:Eb; [|discriminate].
    cbn [option_map] in Hi, Hj. inversion Hi; inversion Hj; subst p q.
    assert (Ha : a < ne g) by (apply Hlt; eapply nth_error_In; eauto).
    assert (Hb : b < ne g) by (apply Hlt; eapply nth_error_In; eauto).
    assert (Hab : a <> b).
    { intros ->. rewrite (NoDup_nth_error sigma) in Hnd.
      assert (i = j); [|lia]. apply Hnd; [apply nth_error_Some; congruence|congruence]. }
    assert (Ea' : nth_error (ge g) a = Some (nth a (ge g) (0, 0))) by (apply nth_error_nth'; exact Ha).
    assert (Eb' : nth_error (ge g) b = Some (nth b (ge g) (0, 0))) by (apply nth_error_nth'; exact Hb).
    destruct (Nat.lt_total a b) as [Hlt'|[E|Hgt]]; [|congruence|].
    + eapply op_no_parallel_elim; eauto.
    + rewrite op_same_pair_sym. eapply op_no_parallel_elim; eauto.
Qed.
