(* ApproxProofsSigned.v — the premises of ApproxProofsRun's final lemmas discharged for approx_mcb_sva_signed:
   the exact phase is SignedModel.mcb_sva_signed on the spanner, for which SvaProofs.sva_generic_min gives a
   minimum cycle basis of the spanner, its dimension and the returned weight — for every root order and pointer
   order — MODULO the specification of the per-phase search (SvaSpec.search_min for SignedModel.signed_phase on
   the spanner), which is the one premise that remains explicit.  Prefix ap_. *)
From Coq Require Import List Arith Bool Lia ZArith Permutation Sorted.
From Parmcb Require Import GraphModel GF2Model GraphSpec McbSpec ForestModel SpannerModel SpannerProofs SvaModel SvaSpec SvaProofs
  SignedModel SignedZModel ApproxModel ApproxProofs ApproxProofsRun.
Import ListNotations.

(* the search premise: every phase of mcb_sva_signed on the spanner returns a minimum odd cycle with its weight *)
Definition signed_search_ok_on_spanner (g : graph) (w : list Z) (k : nat) (scan roots eord : list nat) : Prop :=
  forall sp fi, construct_spanner g k scan = SpOk sp -> create_index (sp_graph sp) roots = Some fi ->
    search_min (sp_graph sp) (spanner_weights w sp) fi
      (signed_phase Z 0%Z Z.add Z.ltb (fun e => nth e eord 0) (sp_graph sp) (spanner_weights w sp) fi).

Lemma ap_signed_exact g w k scan roots eord :
  simple_graph g -> positive_weights g w -> Permutation scan (seq 0 (ne g)) ->
  (forall v, v < nv g -> In v roots) ->
  signed_search_ok_on_spanner g w k scan roots eord ->
  forall sp cs t sup, construct_spanner g k scan = SpOk sp ->
    mcb_sva_signed_Z (sp_graph sp) (spanner_weights w sp) roots eord = SvaOk cs t sup ->
    min_cycle_basis (sp_graph sp) (spanner_weights w sp) cs
    /\ t = total_weight (spanner_weights w sp) cs
    /\ has_cycle_space_dimension (sp_graph sp) (length cs).
Proof.
  intros Hg (Hlen & Hpos) HP Hroots Hsearch sp cs t sup Hsp Hrun.
  destruct (ap_spanner_facts g k scan sp Hg HP Hsp) as (Hsub & HPerm & _).
  unfold mcb_sva_signed_Z, mcb_sva_signed in Hrun.
  destruct (create_index (sp_graph sp) roots) as [fi|] eqn:Efi; [|discriminate].
  eapply (sva_generic_min (sp_graph sp) (spanner_weights w sp) roots fi); eauto.
  - eapply ap_sp_simple; eauto.
  - split; [eapply ap_spanner_weights_length; eauto|eapply ap_spanner_weights_pos; eauto].
  - intros v Hv. apply Hroots. rewrite <- (ap_nv_h g sp Hsub). exact Hv.
  - apply select_min_support_ok.
Qed.

Theorem ap_signed_basis g w k scan roots eord cycles total :
  simple_graph g -> positive_weights g w -> Permutation scan (seq 0 (ne g)) ->
  (forall v, v < nv g -> In v roots) ->
  signed_search_ok_on_spanner g w k scan roots eord ->
  approx_sva_signed_Z g w k scan roots eord = ApproxOk cycles total ->
  cycle_basis g (map set_of_list cycles)
  /\ has_cycle_space_dimension g (length cycles)
  /\ Forall (fun c => NoDup c /\ forall e, In e c -> e < ne g) cycles
  /\ total = total_weight w cycles.
Proof.
  intros Hg Hw HP Hroots Hsearch Hrun. unfold approx_sva_signed_Z in Hrun.
  pose proof (ap_signed_exact g w k scan roots eord Hg Hw HP Hroots Hsearch) as Hex.
  assert (H1 : exact_basis_on_spanner (fun h wh => mcb_sva_signed_Z h wh roots eord) g w k scan).
  { intros sp cs t sup Hsp Hr. destruct (Hex sp cs t sup Hsp Hr) as ((Hb & _) & _ & Hd). split; assumption. }
  assert (H2 : exact_weight_on_spanner (fun h wh => mcb_sva_signed_Z h wh roots eord) g w k scan).
  { intros sp cs t sup Hsp Hr. apply (Hex sp cs t sup Hsp Hr). }
  destruct (ap_run_basis _ g w k scan cycles total Hg HP H1 Hrun) as (A & B & C).
  split; [exact A|]. split; [exact B|]. split; [exact C|]. exact (ap_run_weight _ g w k scan cycles total H2 Hrun).
Qed.

Theorem ap_signed_k1_min g w scan roots eord cycles total :
  simple_graph g -> positive_weights g w -> Permutation scan (seq 0 (ne g)) ->
  (forall v, v < nv g -> In v roots) ->
  signed_search_ok_on_spanner g w 1 scan roots eord ->
  approx_sva_signed_Z g w 1 scan roots eord = ApproxOk cycles total ->
  min_cycle_basis g w (map set_of_list cycles) /\ total = total_weight w cycles.
Proof.
  intros Hg Hw HP Hroots Hsearch Hrun. unfold approx_sva_signed_Z in Hrun.
  pose proof (ap_signed_exact g w 1 scan roots eord Hg Hw HP Hroots Hsearch) as Hex.
  split.
  - apply (ap_run_k1_min (fun h wh => mcb_sva_signed_Z h wh roots eord) g w scan cycles total Hg HP); [|exact Hrun].
    intros sp cs t sup Hsp Hr. apply (Hex sp cs t sup Hsp Hr).
  - apply (ap_run_weight (fun h wh => mcb_sva_signed_Z h wh roots eord) g w 1 scan cycles total); [|exact Hrun].
    intros sp cs t sup Hsp Hr. apply (Hex sp cs t sup Hsp Hr).
Qed.
