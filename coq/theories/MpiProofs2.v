(* MpiProofs2.v — the SPMD main loop of MpiModel.v in lock step (C04b) and its closed form:
   for ANY per-rank local search `act` whose choice between "no collective" and "reduce" does not depend on the
   rank (it depends on the broadcast witness only), P >= 1 copies of `phases` never deadlock, every rank other
   than 0 returns without having emitted anything, and rank 0's answer is  sva_run  with the per-phase search
   `glob` = (rank 0's own search | the tree reduction of the ranks' local minima). *)
From Coq Require Import List Arith Bool ZArith Lia Permutation.
From Parmcb Require Import MpiModel MpiProofs1.
Import ListNotations.

Section Sim.
  Variable W : Type.
  Variable w0 : W.
  Variable wadd : W -> W -> W.
  Variable wltb : W -> W -> bool.
  Variable fi : forest_index.
  Variable act : nat -> nat -> vec -> action W.
  Variable P : nat.
  Variable rtree_of : nat -> rtree.

  Notation payload := (payload W).
  Notation rstate := (rstate W).
  Notation prog := (prog payload (rank_result W)).
  Notation mpi_min := (mpi_min W wltb).
  Notation run := (run payload (rank_result W) mpi_min rtree_of).
  Notation phases r := (phases W wadd fi r (act r)).
  Notation init := (init_state W w0 fi).

  Definition is_red (a : action W) : bool := match a with ARed _ => true | ANoColl _ => false end.
  Definition local_of (a : action W) : lres W := match a with ARed l => l | ANoColl _ => None end.

  Hypothesis HP : 1 <= P.
  Hypothesis Huniform : forall r k Sv, r < P -> is_red (act r k Sv) = is_red (act 0 k Sv).
  Hypothesis Htree : forall k r, In r (rleaves (rtree_of k)) -> r < P.

  (* what rank 0 ends up with in phase k *)
  Definition glob (k : nat) (Sv : vec) : lres W :=
    match act 0 k Sv with
    | ANoColl res => res
    | ARed _ =>
        match reval payload mpi_min (map (fun r => encode W fi (local_of (act r k Sv))) (seq 0 P)) (rtree_of k) with
        | Some x => decode W fi x
        | None => None
        end
    end.

  (* rank 0's bookkeeping as a pure fold *)
  Fixpoint phases0 (ks : list nat) (st : rstate) : rstate :=
    match ks with
    | [] => st
    | k :: ks' => phases0 ks' (bookkeep W wadd fi 0 k (glob k (nth k (st_sup W st) [])) st)
    end.

  Definition rank_state (st : rstate) (r : nat) : rstate := if Nat.eqb r 0 then st else init.

  Lemma bookkeep_other r k best st : r <> 0 -> bookkeep W wadd fi r k best st = st.
  Proof. intros H. unfold bookkeep. destruct (Nat.eqb_spec r 0); [contradiction|reflexivity]. Qed.

  Lemma seq_P : seq 0 P = 0 :: seq 1 (P - 1).
  Proof. replace P with (S (P - 1)) at 1 by lia. reflexivity. Qed.

  Lemma reval_total (vals : list payload) t : (forall r, In r (rleaves t) -> r < length vals) ->
    exists x, reval payload mpi_min vals t = Some x.
  Proof.
    induction t as [r|a IHa b IHb]; intros Hl; cbn [rleaves reval] in *.
    - destruct (nth_error vals r) eqn:E; [eexists; reflexivity|].
      apply nth_error_None in E. specialize (Hl r (or_introl eq_refl)). lia.
    - destruct IHa as (xa & ->); [intros r Hr; apply Hl, in_or_app; auto|].
      destruct IHb as (xb & ->); [intros r Hr; apply Hl, in_or_app; auto|].
      eexists; reflexivity.
  Qed.

  (* C04b, generic: lock step never gets stuck and computes phases0 on rank 0, nothing on the others *)
  Lemma run_phases : forall ks st fuel round,
    2 * length ks + 1 <= fuel ->
    run fuel round (map (fun r => phases r ks (rank_state st r)) (seq 0 P))
    = Done (map (fun r => finish W (rank_state (phases0 ks st) r)) (seq 0 P)).
  Proof.
    induction ks as [|k ks IH]; intros st fuel round Hf.
    - destruct fuel as [|fuel]; [cbn in Hf; lia|].
      cbn [MpiModel.phases phases0]. rewrite seq_P at 1. cbn [map MpiModel.run].
      rewrite <- (map_cons (fun r => Ret (finish W (rank_state st r))) 0 (seq 1 (P - 1))), <- seq_P.
      rewrite all_ret_map. reflexivity.
    - destruct fuel as [|fuel]; [cbn in Hf; lia|]. cbn [length] in Hf.
      cbn [MpiModel.phases phases0].
      set (mine := fun r => if Nat.eqb r 0 then PVec (nth k (st_sup W (rank_state st r)) []) else @PUnit W).
      set (cont := fun r (v : payload) =>
             match v with
             | PVec Sv =>
                 match act r k Sv with
                 | ANoColl res => phases r ks (bookkeep W wadd fi r k res (rank_state st r))
                 | ARed local =>
                     Reduce 0 k (encode W fi local)
                       (fun g => phases r ks
                                   (bookkeep W wadd fi r k (match g with Some x => decode W fi x | None => Some None end)
                                             (rank_state st r)))
                 end
             | _ => Ret (RankProtocol k)
             end).
      change (map (fun r => Bcast 0 (if Nat.eqb r 0 then PVec (nth k (st_sup W (rank_state st r)) []) else PUnit) _) (seq 0 P))
        with (map (fun r => Bcast 0 (mine r) (cont r)) (seq 0 P)).
      rewrite seq_P at 1. cbn [map MpiModel.run].
      rewrite <- (map_cons (fun r => Bcast 0 (mine r) (cont r)) 0 (seq 1 (P - 1))), <- seq_P.
      rewrite all_bcast_map. rewrite nth_error_map_seq by lia. rewrite map_map. cbn [snd].
      unfold mine at 1. cbn [Nat.eqb rank_state]. set (Sv := nth k (st_sup W st) []).
      unfold cont.
      destruct (act 0 k Sv) as [res0|loc0] eqn:E0.
      + (* no collective in this phase *)
        rewrite (map_ext_in _ (fun r => phases r ks (rank_state (bookkeep W wadd fi 0 k res0 st) r))).
        2:{ intros r Hr. apply in_seq in Hr.
            pose proof (Huniform r k Sv ltac:(lia)) as Hu. rewrite E0 in Hu. cbn [is_red] in Hu.
            destruct (act r k Sv) as [res|loc] eqn:Er; [|discriminate].
            unfold rank_state. destruct (Nat.eqb_spec r 0) as [->|Hr0].
            - rewrite E0 in Er. injection Er as <-. reflexivity.
            - rewrite bookkeep_other by exact Hr0. reflexivity. }
        rewrite IH by lia. unfold glob. fold Sv. rewrite E0. reflexivity.
      + (* one reduce *)
        destruct fuel as [|fuel]; [lia|].
        set (rmine := fun r => encode W fi (local_of (act r k Sv))).
        set (rcont := fun r (g : option payload) =>
               phases r ks (bookkeep W wadd fi r k (match g with Some x => decode W fi x | None => Some None end)
                                     (rank_state st r))).
        rewrite (map_ext_in _ (fun r => Reduce 0 k (rmine r) (rcont r))).
        2:{ intros r Hr. apply in_seq in Hr.
            pose proof (Huniform r k Sv ltac:(lia)) as Hu. rewrite E0 in Hu. cbn [is_red] in Hu.
            unfold rmine, rcont. destruct (act r k Sv) as [res|loc] eqn:Er; [discriminate|]. reflexivity. }
        rewrite seq_P at 1. cbn [map MpiModel.run].
        rewrite <- (map_cons (fun r => Reduce 0 k (rmine r) (rcont r)) 0 (seq 1 (P - 1))), <- seq_P.
        rewrite all_reduce_map. rewrite map_length, seq_length.
        destruct (Nat.ltb_spec 0 P) as [_|]; [|lia].
        rewrite map_map. cbn [fst].
        destruct (reval_total (map rmine (seq 0 P)) (rtree_of k)) as (x & Ex).
        { intros r Hr. rewrite map_length, seq_length. apply (Htree k r Hr). }
        change (fun x0 : nat => rmine x0) with rmine. rewrite Ex.
        rewrite combine_seq_map, map_map. cbn [fst snd].
        rewrite (map_ext_in _ (fun r => phases r ks (rank_state (bookkeep W wadd fi 0 k (decode W fi x) st) r))).
        2:{ intros r Hr. unfold rcont, rank_state. destruct (Nat.eqb_spec r 0) as [->|Hr0].
            - reflexivity.
            - rewrite bookkeep_other by exact Hr0. reflexivity. }
        rewrite IH by lia. unfold glob. fold Sv. rewrite E0. fold rmine. rewrite Ex. reflexivity.
  Qed.

  (* ---- rank 0's fold is sva_phases with search = glob ------------------------------------------- *)
  Definition glob_search (k : nat) (Sv : vec) : phase_result W :=
    match glob k Sv with
    | None => PError
    | Some None => PNone
    | Some (Some (c, w)) => PFound c w
    end.

  Lemma phases0_fail ks : forall st f, st_fail W st = Some f -> st_fail W (phases0 ks st) = Some f.
  Proof.
    induction ks as [|k ks IH]; intros st f Hf; [exact Hf|]. cbn [phases0]. apply IH.
    unfold bookkeep. cbn [Nat.eqb].
    destruct (glob k (nth k (st_sup W st) [])) as [[[c w]|]|]; cbn [st_fail]; try exact Hf;
      rewrite Hf; reflexivity.
  Qed.

  Lemma phases0_sva ks : forall st, st_fail W st = None ->
    to_sva W (finish W (phases0 ks st))
    = sva_phases W wadd select_none glob_search fi ks (st_sup W st) (st_acc W st) (st_total W st).
  Proof.
    induction ks as [|k ks IH]; intros st Hf.
    - cbn [phases0 sva_phases]. unfold finish. rewrite Hf. reflexivity.
    - cbn [phases0 sva_phases]. change (select_none k (st_sup W st)) with k. rewrite Nat.eqb_refl.
      unfold glob_search at 1. unfold bookkeep. cbn [Nat.eqb].
      destruct (glob k (nth k (st_sup W st) [])) as [[[c w]|]|] eqn:Eg.
      + rewrite IH by (cbn [st_fail]; exact Hf). reflexivity.
      + unfold finish, to_sva.
        rewrite (phases0_fail ks _ (false, k)) by (cbn [st_fail]; rewrite Hf; reflexivity). reflexivity.
      + unfold finish, to_sva.
        rewrite (phases0_fail ks _ (true, k)) by (cbn [st_fail]; rewrite Hf; reflexivity). reflexivity.
  Qed.

  (* the whole program *)
  Theorem spmd_plain_run :
    run_spmd W wltb fi P rtree_of (spmd_plain W w0 wadd fi act)
    = Done (map (fun r => finish W (rank_state (phases0 (seq 0 (fi_csd fi)) init) r)) (seq 0 P)).
  Proof.
    unfold run_spmd, spmd_plain, spmd_fuel.
    rewrite (map_ext_in _ (fun r => phases r (seq 0 (fi_csd fi)) (rank_state init r))).
    2:{ intros r _. unfold rank_state. destruct (Nat.eqb r 0); reflexivity. }
    apply run_phases. rewrite seq_length. lia.
  Qed.

  Theorem spmd_plain_rank0 :
    to_sva W (finish W (phases0 (seq 0 (fi_csd fi)) init)) = sva_run W w0 wadd select_none glob_search fi.
  Proof. unfold sva_run. rewrite phases0_sva by reflexivity. reflexivity. Qed.
End Sim.

(* ---- the trees variants: one scatter, then the same loop ----------------------------------------- *)
Section SimTrees.
  Variable W : Type.
  Variable w0 : W.
  Variable wadd : W -> W -> W.
  Variable wltb : W -> W -> bool.
  Variable fi : forest_index.
  Variable P : nat.
  Variable rtree_of : nat -> rtree.
  Variable cands : list (nat * nat).
  Variable lookup : list (nat * nat) -> nat -> vec -> lres W.

  Hypothesis HP : 1 <= P.
  Hypothesis Htree : forall k r, In r (rleaves (rtree_of k)) -> r < P.

  (* after the scatter rank r looks up in its chunk *)
  Definition trees_act (r k : nat) (Sv : vec) : action W := ARed (lookup (slice P r cands) k Sv).

  Theorem spmd_trees_run :
    run_spmd W wltb fi P rtree_of (spmd_trees W w0 wadd fi P cands lookup)
    = Done (map (fun r => finish W (rank_state W w0 fi
                                      (phases0 W wadd wltb fi trees_act P rtree_of (seq 0 (fi_csd fi)) (init_state W w0 fi)) r))
                (seq 0 P)).
  Proof.
    unfold run_spmd, spmd_fuel.
    set (mine := fun r => if Nat.eqb r 0 then chunks W P cands else []).
    set (cont := fun (r : nat) (m : payload W) =>
           match m with
           | PCand cs => phases W wadd fi r (fun k Sv => ARed (lookup cs k Sv)) (seq 0 (fi_csd fi)) (init_state W w0 fi)
           | _ => Ret (RankProtocol 0)
           end).
    change (spmd_trees W w0 wadd fi P cands lookup) with (fun r => Scatter 0 (mine r) (cont r)).
    replace (2 * fi_csd fi + 3) with (S (2 * fi_csd fi + 2)) by lia.
    rewrite (seq_P P HP) at 1. cbn [map MpiModel.run].
    rewrite <- (map_cons (fun r => Scatter 0 (mine r) (cont r)) 0 (seq 1 (P - 1))), <- (seq_P P HP).
    rewrite all_scatter_map, nth_error_map_seq by lia.
    change (mine 0) with (chunks W P cands). unfold chunks. rewrite !map_length, seq_length, Nat.eqb_refl.
    rewrite combine_map_map, map_map. cbn [fst snd]. unfold cont.
    rewrite (map_ext_in _ (fun r => phases W wadd fi r (trees_act r) (seq 0 (fi_csd fi))
                                           (rank_state W w0 fi (init_state W w0 fi) r))).
    2:{ intros r _. unfold rank_state. destruct (Nat.eqb r 0); reflexivity. }
    apply run_phases.
    - exact HP.
    - intros r k Sv _. reflexivity.
    - exact Htree.
    - rewrite seq_length. lia.
  Qed.
End SimTrees.
