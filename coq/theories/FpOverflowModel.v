(* FpOverflowModel.v — the models of FpModel.v (fp<T>::ext_gcd, get_mult_inverse, primes<T>::is_prime,
   SpVecFP<P>) restated with a TRACE of every value the C++ computes in the integer type T / P:
   every negation, quotient, remainder, product, sum, difference, increment, the inputs and the
   constants stored into T variables, and every divisor handed to `/` or `%`.
   Definitions only; the erasure lemmas (the traced function returns exactly what the model of
   FpModel.v returns) and the bounds on the traced values are in FpOverflowProofs*.v.

   Trace events:  Val v  — v is the value of an expression of type T evaluated by the code
                  Dvs d  — d is the right operand of a `/` or `%` (must be non-zero; with a positive d and a
                           representable left operand neither operator can overflow)
   The flag [chk] selects what PARMCB_INVARIANTS_CHECK adds when assertions are compiled in
   (ext_gcd: the assert recomputes a*x + b*y in T; is_prime: sqrtt * sqrtt).  The order of the events is the
   order of evaluation, except in is_prime where the events of the loop are kept per iteration in
   evaluation order (the order is irrelevant for the theorems). *)
From Coq Require Export ZArith List Bool.
From Parmcb Require Export FpModel.
Export ListNotations.
Local Open Scope Z_scope.

Inductive tev := Val (v : Z) | Dvs (d : Z).
Definition trace := list tev.

(* ------------------------------------------------------------------------------------ *)
(* ext_gcd                                                                              *)

(* one iteration of `while (true)`:
     q = _a[i] / _a[1-i];  if (_a[i] % _a[1-i] == 0) break;
     _a[i] = _a[i] % _a[1-i];  _x[i] = _x[i] - q * _x[1-i];  _y[i] = _y[i] - q * _y[1-i];  i = 1 - i; *)
Definition gstep_tr (s : gstate) : ((Z * Z * Z) + gstate) * trace :=
  let i := idx s in
  let ai := sel i (a0 s) (a1 s) in
  let aj := sel (negb i) (a0 s) (a1 s) in
  let xi := sel i (x0 s) (x1 s) in let xj := sel (negb i) (x0 s) (x1 s) in
  let yi := sel i (y0 s) (y1 s) in let yj := sel (negb i) (y0 s) (y1 s) in
  let q := Z.quot ai aj in
  let r := Z.rem ai aj in
  if r =? 0 then (inl (aj, xj, yj), [Dvs aj; Val q; Dvs aj; Val r])
  else
    let qx := q * xj in
    let xi' := xi - qx in
    let qy := q * yj in
    let yi' := yi - qy in
    (inr (if i then {| a0 := a0 s; a1 := r; x0 := x0 s; x1 := xi'; y0 := y0 s; y1 := yi'; idx := false |}
          else {| a0 := r; a1 := a1 s; x0 := xi'; x1 := x1 s; y0 := yi'; y1 := y1 s; idx := true |}),
     [Dvs aj; Val q; Dvs aj; Val r; Dvs aj; Val r; Val qx; Val xi'; Val qy; Val yi']).

Fixpoint gloop_tr (fuel : nat) (s : gstate) : option (Z * Z * Z) * trace :=
  match fuel with
  | O => (None, [])
  | S f => match gstep_tr s with
           | (inl r, t) => (Some r, t)
           | (inr s', t) => let '(res, t') := gloop_tr f s' in (res, t ++ t')
           end
  end.

(* `a = (a < 0) ? -a : a;` — the negation is evaluated only for a negative argument *)
Definition abs_tr (a : Z) : Z * trace := if a <? 0 then (- a, [Val (- a)]) else (a, []).

Definition ext_gcd_tr (chk : bool) (a b : Z) : gcd_result * trace :=
  let aneg := a <? 0 in
  let bneg := b <? 0 in
  let '(a', ta) := abs_tr a in
  let '(b', tb) := abs_tr b in
  (* the arguments, the initial coefficients _x[] = {1,0}, _y[] = {0,1}, the in-place absolute values *)
  let t0 := [Val a; Val b; Val 1; Val 0; Val 0; Val 1] ++ ta ++ tb in
  if a' =? 0 then (GcdOk b' 0 (if bneg then -1 else 1), t0 ++ [Val 0; Val (if bneg then -1 else 1)])
  else if b' =? 0 then (GcdOk a' (if aneg then -1 else 1) 0, t0 ++ [Val (if aneg then -1 else 1); Val 0])
  else
    let swap := b' >? a' in
    let hi := if swap then b' else a' in
    let lo := if swap then a' else b' in
    match gloop_tr (gfuel hi lo)
            {| a0 := hi; a1 := lo; x0 := 1; x1 := 0; y0 := 0; y1 := 1; idx := false |} with
    | (None, tl) => (GcdOutOfFuel, t0 ++ tl)
    | (Some (g, xr, yr), tl) =>
        let sa := if aneg then -1 else 1 in
        let sb := if bneg then -1 else 1 in
        let x := (if swap then yr else xr) * sa in
        let y := (if swap then xr else yr) * sb in
        (* assert(_a[1-i] == ((aneg) ? (-a) : (a)) * x + ((bneg) ? (-b) : (b)) * y);  here a, b hold |a|, |b| *)
        let ca := if aneg then - a' else a' in
        let cb := if bneg then - b' else b' in
        let tc := if chk then [Val ca; Val (ca * x); Val cb; Val (cb * y); Val (ca * x + cb * y)] else [] in
        (GcdOk g x y, t0 ++ tl ++ [Val sa; Val x; Val sb; Val y] ++ tc)
    end.

Definition mult_inverse_tr (chk : bool) (a p : Z) : inv_result * trace :=
  if p <=? 0 then (InvThrow, [Val a; Val p])
  else match ext_gcd_tr chk a p with
       | (GcdOutOfFuel, t) => (InvOutOfFuel, t)
       | (GcdOk g x _, t) => (if g =? 1 then InvOk x else InvThrow, t)
       end.

(* ------------------------------------------------------------------------------------ *)
(* is_prime                                                                             *)

(* `while (t <= sqrtt) { if (p % t == zero) return false; t++; }` with the events of all
   iterations so far (most recent iteration first) *)
Definition pstep_tr (p : Z) (st : Z * option bool * trace) : Z * option bool * trace :=
  match st with
  | (t, Some r, tr) => (t, Some r, tr)
  | (t, None, tr) =>
      let r := Z.rem p t in
      if r =? 0 then (t, Some false, [Dvs t; Val r] ++ tr)
      else (t + 1, None, [Dvs t; Val r; Val (t + 1)] ++ tr)
  end.

Definition is_prime_tr (chk : bool) (p : Z) : bool * trace :=
  if p =? 1 then (true, [Val p; Val 1])
  else if p =? 2 then (true, [Val p; Val 1; Val 2])
  else
    let r2 := Z.rem p 2 in
    if r2 =? 0 then (false, [Val p; Val 1; Val 2; Dvs 2; Val r2])
    else
      let sq := Z.sqrt p in
      let sqrtt := sq + 1 in
      (* PARMCB_INVARIANTS_CHECK: if (sqrtt * sqrtt < p) throw — never taken, the product is evaluated *)
      let tc := if chk then [Val (sqrtt * sqrtt)] else [] in
      let '(_, verdict, tl) := Z.iter (sqrtt - 1) (pstep_tr p) (2, None, []) in
      (match verdict with Some r => r | None => true end,
       [Val p; Val 1; Val 2; Dvs 2; Val r2; Val 0; Val sq; Val sqrtt] ++ tc ++ tl).

(* ------------------------------------------------------------------------------------ *)
(* SpVecFP                                                                              *)

(* `while (v < 0) v += p;  while (v >= p) v -= p;` after a `% p` (as in FpModel.fnorm) *)
Definition fnorm_tr (p v : Z) : Z * trace :=
  let '(v1, t1) := if v <? 0 then (v + p, [Val (v + p)]) else (v, []) in
  let '(v2, t2) := if v1 >=? p then (v1 - p, [Val (v1 - p)]) else (v1, []) in
  (v2, t1 ++ t2).

Fixpoint fadd_tr (p : Z) (u : fvec) : fvec -> fvec * trace :=
  fix aux (v : fvec) : fvec * trace :=
    match u, v with
    | [], _ => (v, [])
    | _, [] => (u, [])
    | (i, x) :: u', (j, y) :: v' =>
        match Nat.compare i j with
        | Lt => let '(r, t) := fadd_tr p u' v in ((i, x) :: r, t)
        | Gt => let '(r, t) := aux v' in ((j, y) :: r, t)
        | Eq => let s0 := x + y in
                let s1 := Z.rem s0 p in
                let '(s, tn) := fnorm_tr p s1 in
                let '(r, t) := fadd_tr p u' v' in
                (if s =? 0 then r else (i, s) :: r, [Val s0; Dvs p; Val s1] ++ tn ++ t)
        end
    end.

Fixpoint fscale_tr (p a : Z) (u : fvec) : fvec * trace :=
  match u with
  | [] => ([], [])
  | (i, x) :: u' =>
      let s0 := x * a in
      let s1 := Z.rem s0 p in
      let '(s, tn) := fnorm_tr p s1 in
      let '(r, t) := fscale_tr p a u' in
      (if s =? 0 then r else (i, s) :: r, [Val s0; Dvs p; Val s1] ++ tn ++ t)
  end.

Fixpoint fdot_acc_tr (p : Z) (res : Z) (u : fvec) : fvec -> Z * trace :=
  fix aux (v : fvec) : Z * trace :=
    match u, v with
    | [], _ => (res, [])
    | _, [] => (res, [])
    | (i, x) :: u', (j, y) :: v' =>
        match Nat.compare i j with
        | Lt => fdot_acc_tr p res u' v
        | Gt => aux v'
        | Eq => let m0 := x * y in
                let m1 := Z.rem m0 p in
                let c0 := res + m1 in
                let c1 := Z.rem c0 p in
                let '(r, t) := fdot_acc_tr p c1 u' v' in
                (r, [Val m0; Dvs p; Val m1; Val c0; Dvs p; Val c1] ++ t)
        end
    end.
Definition fdot_tr (p : Z) (u v : fvec) : Z * trace :=
  let '(r, t) := fdot_acc_tr p 0 u v in (r, Val 0 :: t).

Definition fstep_tr (p : Z) (s : fstore) (o : fop) : (fstore * list fout) * trace :=
  match o with
  | FUnit d i => ((fupd s d [(i, 1)], []), [Val 1])
  | FCopy d a => ((fupd s d (s a), []), [])
  | FAssign d a => ((fupd s d (s a), []), [])
  | FAdd d a b => let '(r, t) := fadd_tr p (s a) (s b) in ((fupd s d r, []), t)
  | FAddAssign d a => let '(r, t) := fadd_tr p (s d) (s a) in ((fupd s d r, []), t)
  | FScale d a c => let '(r, t) := fscale_tr p c (s a) in ((fupd s d r, []), Val c :: t)
  | FScaleAssign d c => let '(r, t) := fscale_tr p c (s d) in ((fupd s d r, []), Val c :: t)
  | FClear d => ((fupd s d [], []), [])
  | FDot a b => let '(r, t) := fdot_tr p (s a) (s b) in ((s, [FOutZ r]), t)
  | FSize a => ((s, [FOutNat (length (s a))]), [])
  end.

Fixpoint frun_tr (p : Z) (s : fstore) (ops : list fop) : (fstore * list fout) * trace :=
  match ops with
  | [] => ((s, []), [])
  | o :: ops' =>
      let '((s1, o1), t1) := fstep_tr p s o in
      let '((s2, o2), t2) := frun_tr p s1 ops' in
      ((s2, o1 ++ o2), t1 ++ t2)
  end.

(* the modulus itself is stored in every vector *)
Definition frun_tr_dump (p : Z) (K : nat) (ops : list fop) : (list fout * list fvec) * trace :=
  let '((s, o), t) := frun_tr p fempty ops in ((o, map s (seq 0 K)), Val p :: t).

(* ------------------------------------------------------------------------------------ *)
(* summaries of a trace (used by the correspondence driver and in the statements)        *)

Definition tvals (t : trace) : list Z :=
  flat_map (fun e => match e with Val v => [v] | Dvs _ => [] end) t.
Definition tdivs (t : trace) : list Z :=
  flat_map (fun e => match e with Val _ => [] | Dvs d => [d] end) t.

(* every value lies in [lo, hi] and every divisor is positive and at most hi *)
Definition tev_in (lo hi : Z) (e : tev) : Prop :=
  match e with Val v => lo <= v <= hi | Dvs d => 0 < d <= hi end.
Definition trace_in (lo hi : Z) (t : trace) : Prop := Forall (tev_in lo hi) t.

(* (smallest value, largest value, smallest divisor or 0 when there is none) — what the driver prints *)
Definition tsummary (t : trace) : Z * Z * Z :=
  let vs := tvals t in
  let ds := tdivs t in
  (fold_right Z.min 0 vs, fold_right Z.max 0 vs,
   match ds with [] => 0 | d :: ds' => fold_right Z.min d ds' end).
