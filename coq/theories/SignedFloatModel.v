(* SignedFloatModel.v — the binary64 instances of SignedModel.v (property C09): the SAME Gallina code as the
   exact-domain model (SignedZModel.v), with the weight type instantiated by Coq's primitive IEEE-754 binary64
   floats:   w0 = +0.0,  wadd = PrimFloat.add (round-to-nearest-even `+` of double),  wltb = PrimFloat.ltb
   (std::less<double>, false on NaN).  Definitions only.

   Deviation from the code (documented, unreachable in the domain of C09): parmcb::detail::closed_plus returns
   DBL_MAX when an operand equals DBL_MAX; the model adds plainly.  Weights in [1e-3, 1e3] never reach DBL_MAX;
   an unset distance is `None` in the model (klt treats it as "never the strict minimum", as DBL_MAX is). *)
From Coq Require Import List Floats.
From Parmcb Require Export SignedModel.
Import ListNotations.

(* ---- the support-vector loop, also reporting the per-phase weights in emission order -------------------
   SvaModel.sva_result keeps only the accumulated total (as the C++ does).  sva_phases_w is sva_phases with one
   more accumulator; FloatProofs.sva_phases_w_fst shows that its first component IS sva_phases, so running it
   instead of sva_phases changes nothing but makes the emitted weights observable. *)
Section PhasesW.
  Variable W : Type.
  Variable w0 : W.
  Variable wadd : W -> W -> W.
  Variable select : nat -> list vec -> nat.
  Variable search : nat -> vec -> phase_result W.

  Fixpoint sva_phases_w (fi : forest_index) (ks : list nat) (sup : list vec)
           (acc : list (list nat)) (wacc : list W) (total : W) : sva_result W * list W :=
    match ks with
    | [] => (SvaOk (rev acc) total sup, rev wacc)
    | k :: ks' =>
        let ms := select k sup in
        let S1 := if Nat.eqb ms k then sup else swap_nth sup k ms in
        match search k (nth k S1 []) with
        | PError => (SvaError k, rev wacc)
        | PNone => (SvaNoCycle k, rev wacc)
        | PFound c w =>
            let cyclek := edges_to_indices fi c in
            sva_phases_w fi ks' (update_supports S1 k cyclek) (c :: acc) (w :: wacc) (wadd total w)
        end
    end.

  Definition sva_run_w (fi : forest_index) : sva_result W * list W :=
    let csd := fi_csd fi in
    sva_phases_w fi (seq 0 csd) (map (fun i => [i]) (seq 0 csd)) [] [] w0.
End PhasesW.

(* mcb_sva_signed with the per-phase weights *)
Definition mcb_sva_signed_w (W : Type) (w0 : W) (wadd : W -> W -> W) (wltb : W -> W -> bool) (eord : nat -> nat)
           (g : graph) (wts : list W) (roots : list nat) : sva_result W * list W :=
  match create_index g roots with
  | None => (SvaNoIndex, [])
  | Some fi => sva_run_w W w0 wadd (select_min_support (fi_csd fi)) (signed_phase W w0 wadd wltb eord g wts fi) fi
  end.

(* ---- binary64 ---------------------------------------------------------------------------------------- *)
Definition f64_zero : float := PrimFloat.zero.
Definition f64_add : float -> float -> float := PrimFloat.add.
Definition f64_ltb : float -> float -> bool := PrimFloat.ltb.

Definition mcb_sva_signed_F (g : graph) (wts : list float) (roots : list nat) (eord : list nat) : sva_result float :=
  mcb_sva_signed float f64_zero f64_add f64_ltb (fun e => nth e eord 0) g wts roots.

Definition mcb_sva_signed_F_w (g : graph) (wts : list float) (roots : list nat) (eord : list nat)
  : sva_result float * list float :=
  mcb_sva_signed_w float f64_zero f64_add f64_ltb (fun e => nth e eord 0) g wts roots.

(* one direct call of bidirectional_signed_dijkstra *)
Definition bidir_F (g : graph) (wts : list float) (signed hidden : list nat) (use_hidden : bool)
           (limit : option float) (s : nat) (spos : bool) (t : nat) (tpos : bool) : search_result float :=
  bidirectional_signed_dijkstra float f64_zero f64_add f64_ltb
    {| sp_g := g; sp_wts := wts; sp_signed := signed; sp_hidden := hidden; sp_use_hidden := use_hidden; sp_limit := limit |}
    s spos t tpos.
