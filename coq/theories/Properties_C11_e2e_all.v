(* Properties_C11_e2e_all.v — C11 END TO END for EVERY entry point the demo programs can select: from the bytes of the DIMACS
   file to the number after "MCB weight = ", with NO premise on the entry points.  Only statements; each closed by
   [exact <lemma>] (proofs: DemoE2E2.v) and followed by Print Assumptions.  Supersedes the three `_modulo_entry_point`
   statements of Properties_C11_e2e.v (kept there unchanged): the premise "the value the entry point returned is the optimum"
   is now discharged for every remaining call by the premise-free model theorems
       C03_fvs_trees_tbb, C03_iso_trees_tbb                                    (Properties_C03_trees.v: TBB tree lookup, every
                                                                                bit stream / arrangement / numeric_limits::max)
       C04c_result_fvs_trees_tbb_mpi_exact, C04c_result_iso_trees_tbb_mpi_exact (Properties_C04_trees_tbb.v: the flavours
                                                                                src/mcb-dimacs-mpi.cpp calls)
       C06_global_fvs_trees                                                    (Properties_C06_trees.v: BOTH sequential
                                                                                tree-based approximate entry points)
       C03_approx_signed_tbb, C03_approx_fvs_trees_tbb, C03_approx_iso_trees_tbb (Properties_C03_approx(_trees).v)
   in addition to those already used by Properties_C11_e2e.v.

   Vocabulary (DemoE2E.v, DemoE2E2.v; see the header of Properties_C11_e2e.v for layout / render / denot / file_domain / to_graph /
   scaled_weights / demo_*_file).
     can_return_all P g w c x   x is a value the model of entry point c can return on (g, w): existential over EVERY oracle of
                                that model.  Defined for every constructor of `call` except CallStats (which returns no weight);
                                coincides with can_return on the six calls covered there (C11_e2e_all_extends).  The conditions
                                on the oracles are their well-formedness only (the models answer with an explicit bad-oracle
                                value otherwise): root order mentions every vertex; greedy_fvs completes under the pick oracle
                                (on the graph, resp. on the spanner: picks_ok_on_spanner); reduction trees have the ranks
                                0..P-1 as leaves; per-rank sort arrangements are what std::sort guarantees (mpi_arrs_ok); the
                                spanner's scan order is a weight-sorted permutation of the edge ids (scan_ok); the arrangement
                                of the spanner's candidate collection is a permutation of its positions (arr_ok_on_spanner);
                                the exact phase of the sequential tree-based approximate variants is an accepted run on the
                                spanner.  Bit streams, insertion orders, pointer orders, numeric_limits::max: unconstrained.
     weighted_call c            c <> CallStats.
   NOTHING is left modulo a premise on an entry point.  What remains outside (as in Properties_C11_e2e.v): for d > 1 the
   statements are about the models on the d-scaled integer graph (exactness of the double run is C09); process plumbing,
   lock-step MPI semantics and the file-open/command-line facts ([runnable o]) as in Properties_C11.v. *)
From Coq Require Import ZArith List Bool QArith Permutation Sorted Lia.
From Parmcb Require Import DimacsModel DimacsValProofs GraphModel GraphSpec McbSpec OptSpec DemoModel DemoProofs DemoE2E DemoE2E2.
From Parmcb Require Import SvaModel FvsModel CandidatesModel TreesModel MpiModel MpiProofs1 SpannerModel ApproxModel SchedModel
     ParTreesModel MpiTreesModel MpiTreesTbbModel ApproxTreesModel ApproxParModel ApproxParTreesModel.
From Parmcb Require Properties_C02_trees Properties_C04_trees Properties_C11_e2e.
Import ListNotations.
Local Open Scope Z_scope.

(* ---- the relation --------------------------------------------------------------------------------------------------------- *)

(* can_return_all extends can_return: on the six calls covered by Properties_C11_e2e.v it is the same relation *)
Theorem C11_e2e_all_extends : forall (P : nat) (g : GraphModel.graph) (w : list Z) (c : call) (x : Z),
  can_return P g w c x -> can_return_all P g w c x.
Proof. exact can_return_all_extends. Qed.
Print Assumptions C11_e2e_all_extends.

(* Every value ANY entry point's model can return, on every simple graph with positive integer weights:
     exact calls (mcb-dimacs: 3 families x sequential/TBB; mcb-dimacs-mpi: 3 families, P >= 1): it is THE optimum;
     approximate calls (approx-mcb-dimacs: 3 families x sequential/TBB), k >= 1 (the program only lets k >= 2 through):
     it lies between the optimum and (2k-1) times the optimum. *)
Theorem C11_e2e_all_entry_points_return_opt : forall (P : nat) (g : GraphModel.graph) (w : list Z) (c : call) (x : Z),
  simple_graph g -> positive_weights g w -> can_return_all P g w c x ->
  (exact_call c = true -> (is_mpi c = true -> (1 <= P)%nat) -> is_opt g w x) /\
  (forall f par k, c = CallApprox f par k -> 1 <= k -> exists opt, is_opt g w opt /\ opt <= x <= (2 * k - 1) * opt).
Proof. exact can_return_all_sound. Qed.
Print Assumptions C11_e2e_all_entry_points_return_opt.

(* ... with respect to THE optimum, whichever way it is obtained *)
Theorem C11_e2e_all_approx_bounds : forall (P : nat) (g : GraphModel.graph) (w : list Z) (f : family) (par : bool) (k x : Z),
  simple_graph g -> positive_weights g w -> 1 <= k ->
  can_return_all P g w (CallApprox f par k) x -> forall opt, is_opt g w opt -> opt <= x <= (2 * k - 1) * opt.
Proof. exact can_return_all_approx_bounds. Qed.
Print Assumptions C11_e2e_all_approx_bounds.

(* ... and such a value exists for every file of the domain and EVERY call with a weight (the models are total on the
   domain and valid oracles exist: vertex order 0..n-1, the deterministic greedy_fvs run, identity arrangement of the
   collection, positions sorted by weight as per-rank / scan order, empty bit stream, chain reduction tree) *)
Theorem C11_e2e_all_sound_value_exists : forall (l : layout) (d : positive) (c : call) (P : nat),
  file_domain d l -> (1 <= P)%nat -> weighted_call c = true -> (forall f par k, c = CallApprox f par k -> 1 <= k) ->
  exists x, can_return_all P (to_graph (denot l)) (scaled_weights d (denot l)) c x.
Proof. exact e2e_all_sound_value_exists. Qed.
Print Assumptions C11_e2e_all_sound_value_exists.

(* ---- mcb-dimacs --------------------------------------------------------------------------------------------------------------- *)

(* premise-free version of C11_e2e_optimum_modulo_entry_point: EVERY runnable option record (--signed / --fvstrees / --isotrees,
   --parallel true / false): status 0, no diagnostic, the selected entry point is called and announced, exactly one weight
   line, and it carries the unique optimum of the (d-scaled) graph of the file *)
Theorem C11_e2e_optimum_all : forall (run : DimacsModel.graph -> call -> Z) (l : layout) (d : positive) (o : opts) (P : nat),
  file_domain d l -> runnable o ->
  let gr := denot l in let c := CallMcb (priority o) (o_parallel o) in
  can_return_all P (to_graph gr) (scaled_weights d gr) c (run gr c) ->
  exists r, demo_mcb_file run o (render l) = FRan r /\ dispatch_ok (run gr) r c /\
            printed_weights r = [LWeight (run gr c)] /\ is_opt (to_graph gr) (scaled_weights d gr) (run gr c).
Proof. exact e2e_optimum_all. Qed.
Print Assumptions C11_e2e_optimum_all.

(* the headline form for files whose weights are positive INTEGERS *)
Theorem C11_e2e_optimum_all_int : forall (run : DimacsModel.graph -> call -> Z) (l : layout) (o : opts) (P : nat),
  layout_ok l = true -> clean (denot l) -> integer_weights (denot l) -> runnable o ->
  let gr := denot l in let c := CallMcb (priority o) (o_parallel o) in
  can_return_all P (to_graph gr) (int_weights gr) c (run gr c) ->
  exists r, demo_mcb_file run o (render l) = FRan r /\
            o_status r = 0 /\ o_diag r = DNone /\ o_run r = Some c /\ In (LUsingAlgo c) (o_out r) /\
            printed_weights r = [LWeight (run gr c)] /\ is_opt (to_graph gr) (int_weights gr) (run gr c).
Proof. exact e2e_optimum_all_int. Qed.
Print Assumptions C11_e2e_optimum_all_int.

(* premise-free version of C11_e2e_options_agree_modulo_entry_point: ANY two runnable option records — two executions with their
   own schedules and oracles — print the same weight on the same file *)
Theorem C11_e2e_options_agree_all :
  forall (run1 run2 : DimacsModel.graph -> call -> Z) (l : layout) (d : positive) (o1 o2 : opts) (P1 P2 : nat),
  file_domain d l -> runnable o1 -> runnable o2 ->
  let gr := denot l in
  let c1 := CallMcb (priority o1) (o_parallel o1) in let c2 := CallMcb (priority o2) (o_parallel o2) in
  can_return_all P1 (to_graph gr) (scaled_weights d gr) c1 (run1 gr c1) ->
  can_return_all P2 (to_graph gr) (scaled_weights d gr) c2 (run2 gr c2) ->
  exists r1 r2 x, demo_mcb_file run1 o1 (render l) = FRan r1 /\ demo_mcb_file run2 o2 (render l) = FRan r2 /\
                  printed_weights r1 = [LWeight x] /\ printed_weights r2 = [LWeight x] /\
                  is_opt (to_graph gr) (scaled_weights d gr) x.
Proof. exact e2e_options_agree_all. Qed.
Print Assumptions C11_e2e_options_agree_all.

(* ---- mcb-dimacs-mpi ------------------------------------------------------------------------------------------------------------ *)

(* premise-free version of C11_e2e_mpi_optimum_modulo_entry_point: every --signed / --fvstrees / --isotrees choice
   (mcb_sva_signed_mpi, mcb_sva_fvs_trees_tbb_mpi, mcb_sva_iso_trees_tbb_mpi), every P and rank < P, every reduction tree, every
   per-rank arrangement and schedule: all ranks terminate with status 0 having called the entry point; rank 0 prints exactly
   one weight line, carrying the optimum; the others print their processor line only *)
Theorem C11_e2e_mpi_optimum_all :
  forall (run : DimacsModel.graph -> call -> Z) (l : layout) (d : positive) (o : opts) (P rank : nat),
  file_domain d l -> runnable o -> (rank < P)%nat ->
  let gr := denot l in let c := CallMpi (priority o) in
  can_return_all P (to_graph gr) (scaled_weights d gr) c (run gr c) ->
  exists r, demo_mpi_file run o (render l) P rank = FRan (Exited r) /\
            o_status r = 0 /\ o_diag r = DNone /\ o_run r = Some c /\
            (rank = 0%nat -> printed_weights r = [LWeight (run gr c)] /\ In (LUsingAlgo c) (o_out r) /\
                             is_opt (to_graph gr) (scaled_weights d gr) (run gr c)) /\
            (rank <> 0%nat -> o_out r = [LProcessor]).
Proof. exact e2e_mpi_optimum_all. Qed.
Print Assumptions C11_e2e_mpi_optimum_all.

(* mcb-dimacs (any flavour, any schedule) and mcb-dimacs-mpi (any flavour, any P >= 1) print the same weight on the same file *)
Theorem C11_e2e_mcb_mpi_agree_all :
  forall (run1 run2 : DimacsModel.graph -> call -> Z) (l : layout) (d : positive) (o1 o2 : opts) (P0 P : nat),
  file_domain d l -> runnable o1 -> runnable o2 -> (1 <= P)%nat ->
  let gr := denot l in let c1 := CallMcb (priority o1) (o_parallel o1) in let c2 := CallMpi (priority o2) in
  can_return_all P0 (to_graph gr) (scaled_weights d gr) c1 (run1 gr c1) ->
  can_return_all P (to_graph gr) (scaled_weights d gr) c2 (run2 gr c2) ->
  exists r1 r2 x, demo_mcb_file run1 o1 (render l) = FRan r1 /\ demo_mpi_file run2 o2 (render l) P 0 = FRan (Exited r2) /\
                  printed_weights r1 = [LWeight x] /\ printed_weights r2 = [LWeight x] /\
                  is_opt (to_graph gr) (scaled_weights d gr) x.
Proof. exact e2e_mcb_mpi_agree_all. Qed.
Print Assumptions C11_e2e_mcb_mpi_agree_all.

(* ---- approx-mcb-dimacs --------------------------------------------------------------------------------------------------------- *)

(* every flavour (--signed / --fvstrees / --isotrees, --parallel true / false), --k k with 2 <= k (< 2^63: every int): the
   selected approximate entry point is called with this k and the only weight line carries a value between the optimum and
   (2k-1) times the optimum.  (k <= 1: C11_e2e_approx_bad_k of Properties_C11_e2e.v, whatever the flavour.) *)
Theorem C11_e2e_approx_all :
  forall (run : DimacsModel.graph -> call -> Z) (l : layout) (d : positive) (o : opts) (P : nat),
  file_domain d l -> runnable o -> 2 <= o_k o < 2 ^ 63 ->
  let gr := denot l in let k := o_k o in let c := CallApprox (priority o) (o_parallel o) k in
  can_return_all P (to_graph gr) (scaled_weights d gr) c (run gr c) ->
  exists r opt, demo_approx_file run o (render l) = FRan r /\ dispatch_ok (run gr) r c /\
                printed_weights r = [LWeight (run gr c)] /\
                is_opt (to_graph gr) (scaled_weights d gr) opt /\ opt <= run gr c <= (2 * k - 1) * opt.
Proof. exact e2e_approx_all. Qed.
Print Assumptions C11_e2e_approx_all.

(* ---- non-vacuity --------------------------------------------------------------------------------------------------------------- *)

(* The theta graph of Properties_C02_trees.v as a file (weight 1 is omitted by the canonical printer):
   "p edge 7 8\ne 1 3 2\ne 3 2\ne 1 4\ne 4 5\ne 5 2 2\ne 1 6\ne 6 7\ne 7 2 3\n" — three paths of weight 3, 4, 5 between
   vertices 0 and 1; optimum 7 + 8 = 15. *)
Definition theta_layout : layout :=
  canonical_layout true (7, [(0, 2, (2, 0%nat)); (2, 1, (1, 0%nat)); (0, 3, (1, 0%nat)); (3, 4, (1, 0%nat));
                             (4, 1, (2, 0%nat)); (0, 5, (1, 0%nat)); (5, 6, (1, 0%nat)); (6, 1, (3, 0%nat))]).

Definition opts_of (sg fv par : bool) (k : Z) : opts :=
  {| o_parse_error := false; o_help := false; o_input_given := true; o_file_opens := true;
     o_verbose := false; o_k := k; o_signed := sg; o_fvstrees := fv; o_isotrees := negb sg && negb fv;
     o_parallel := par; o_printcycles := false; o_cores := 0 |}.

Example theta_domain : file_domain 1 theta_layout /\ to_graph (denot theta_layout) = Properties_C02_trees.c02t_g /\
                       scaled_weights 1 (denot theta_layout) = Properties_C02_trees.c02t_w.
Proof.
  assert (Hl : layout_ok theta_layout = true) by (vm_compute; reflexivity).
  split; [|split; vm_compute; reflexivity]. split; [exact Hl|]. split.
  - apply (verdicts_valid _ (denot_wf _ Hl)). vm_compute. repeat split; reflexivity.
  - intros e He. vm_compute in He. repeat (destruct He as [<-|He]; [exists 1; reflexivity|]). destruct He.
Qed.

(* the calls that were NOT covered by Properties_C11_e2e.v, exact side: the TBB tree variants under the all-ones stream (every
   range split, every split a Fork, right parts first) with arrangements that are not weight-sorted, and the MPI tree variants
   with 3 ranks (the candidates of root 1 split across ranks 0 and 1, rank 2 with an empty chunk) resp. 2 ranks, alternating
   steal / no-steal streams: each model returns 15 — and by the theorem nothing else; the composed programs print it *)
Example C11_e2e_all_exact_nonvacuous :
  let g := Properties_C02_trees.c02t_g in let w := Properties_C02_trees.c02t_w in
  render theta_layout = [112; 32; 101; 100; 103; 101; 32; 55; 32; 56; 10;              (* p edge 7 8 *)
                         101; 32; 49; 32; 51; 32; 50; 10; 101; 32; 51; 32; 50; 10;     (* e 1 3 2 / e 3 2 *)
                         101; 32; 49; 32; 52; 10; 101; 32; 52; 32; 53; 10;             (* e 1 4 / e 4 5 *)
                         101; 32; 53; 32; 50; 32; 50; 10; 101; 32; 49; 32; 54; 10;     (* e 5 2 2 / e 1 6 *)
                         101; 32; 54; 32; 55; 10; 101; 32; 55; 32; 50; 32; 51; 10] /\  (* e 6 7 / e 7 2 3 *)
  file_domain 1 theta_layout /\
  can_return_all 0 g w (CallMcb FvsTrees true) 15 /\
  can_return_all 0 g w (CallMcb IsoTrees true) 15 /\
  can_return_all 3 g w (CallMpi FvsTrees) 15 /\
  can_return_all 2 g w (CallMpi IsoTrees) 15 /\
  is_opt g w 15 /\
  (forall P c x, exact_call c = true -> (is_mpi c = true -> (1 <= P)%nat) -> can_return_all P g w c x -> x = 15) /\
  (* --signed false --fvstrees true (default --parallel true) selects mcb_sva_fvs_trees_tbb *)
  demo_mcb_file (fun _ _ => 15) (opts_of false true true 2) (render theta_layout)
  = FRan {| o_status := 0; o_diag := DNone; o_run := Some (CallMcb FvsTrees true);
            o_out := [LSize; LUsingAlgo (CallMcb FvsTrees true); LWeight 15] |} /\
  (* --signed false (--fvstrees false) selects mcb_sva_iso_trees_tbb_mpi *)
  demo_mpi_file (fun _ _ => 15) (opts_of false false true 2) (render theta_layout) 2 0
  = FRan (Exited {| o_status := 0; o_diag := DNone; o_run := Some (CallMpi IsoTrees);
                    o_out := [LProcessor; LSize; LUsingAlgo (CallMpi IsoTrees); LWeight 15] |}).
Proof.
  cbv zeta. destruct theta_domain as (Hdom & _ & _).
  destruct Properties_C02_trees.C02_trees_nonvacuous as (Hs & Hw & Hr & Hf & _).
  destruct Properties_C04_trees.C04c_fvs_nonvacuous as (_ & _ & _ & _ & _ & Hrt3 & Harr3 & _).
  destruct Properties_C04_trees.C04c_iso_nonvacuous as (Harr2 & Hrt2 & _).
  assert (Hiso : can_return_all 0 Properties_C02_trees.c02t_g Properties_C02_trees.c02t_w (CallMcb IsoTrees true) 15).
  { cbn [can_return_all]. exists 2147483647, Properties_C02_trees.c02t_roots, [], [3;1;2;0]%nat, [true]. do 3 eexists.
    split; [exact Hr|vm_compute; reflexivity]. }
  assert (Hopt : is_opt Properties_C02_trees.c02t_g Properties_C02_trees.c02t_w 15).
  { apply (proj1 (C11_e2e_all_entry_points_return_opt 0 _ _ (CallMcb IsoTrees true) 15 Hs Hw Hiso)); [reflexivity|discriminate]. }
  split; [vm_compute; reflexivity|]. split; [exact Hdom|].
  split.
  { cbn [can_return_all]. exists 2147483647, Properties_C02_trees.c02t_roots, [1]%nat, [1]%nat, [1;0]%nat, [true]. do 3 eexists.
    split; [exact Hr|]. split; [exact Hf|vm_compute; reflexivity]. }
  split; [exact Hiso|].
  split.
  { cbn [can_return_all].
    exists 1000, Properties_C02_trees.c02t_roots, [1]%nat, [1]%nat, Properties_C04_trees.c04t_arr,
      (fun _ _ => [true; false; true; true; false; false; true; false]), (fun _ => boost_reduce_tree 3). do 3 eexists.
    split; [exact Hr|]. split; [exact Hf|]. split; [exact Hrt3|]. split; [exact Harr3|vm_compute; reflexivity]. }
  split.
  { cbn [can_return_all].
    exists 1000, Properties_C02_trees.c02t_roots, [], (fun _ => [0; 1]%nat),
      (fun _ _ => [true; false; true; true; false; false; true; false]), (fun _ => boost_reduce_tree 2). do 3 eexists.
    split; [exact Hr|]. split; [intros _; exact Hrt2|]. split; [exact Harr2|vm_compute; reflexivity]. }
  split; [exact Hopt|].
  split.
  { intros P c x Hex HP H.
    exact (Properties_C08.C08_opt_unique _ _ _ _
             (proj1 (C11_e2e_all_entry_points_return_opt P _ _ c x Hs Hw H) Hex HP) Hopt). }
  split; vm_compute; reflexivity.
Qed.

(* The graph of Properties_C05_trees / C03_approx_trees (K4 on 0..3, a pendant edge 3-4, a 5-cycle 4-5-6-7-8) as a file, k = 2:
   the spanner keeps the 5-cycle and drops the three heaviest K4 edges.  The approximate calls that were NOT covered:
   TBB signed, both sequential tree flavours (the FVS functor), both TBB tree flavours — each model returns 24, the program
   prints it, and opt <= 24 <= 3 opt. *)
Definition k4c5_layout : layout :=
  canonical_layout true (9, [(0, 1, (1, 0%nat)); (0, 2, (1, 0%nat)); (0, 3, (2, 0%nat)); (1, 2, (2, 0%nat)); (1, 3, (2, 0%nat));
                             (2, 3, (3, 0%nat)); (3, 4, (1, 0%nat)); (4, 5, (1, 0%nat)); (5, 6, (1, 0%nat)); (6, 7, (1, 0%nat));
                             (7, 8, (1, 0%nat)); (8, 4, (5, 0%nat))]).
Definition k4c5_g : GraphModel.graph :=
  {| nv := 9; ge := [(0,1); (0,2); (0,3); (1,2); (1,3); (2,3); (3,4); (4,5); (5,6); (6,7); (7,8); (8,4)]%nat |}.
Definition k4c5_w : list Z := [1; 1; 2; 2; 2; 3; 1; 1; 1; 1; 1; 5].
Definition k4c5_scan : list nat := [6; 0; 1; 10; 7; 8; 9; 3; 2; 4; 5; 11]%nat.
Definition k4c5_roots : list nat := [4; 0; 1; 2; 3; 5; 6; 7; 8]%nat.

Example k4c5_domain : file_domain 1 k4c5_layout /\ to_graph (denot k4c5_layout) = k4c5_g /\
                      scaled_weights 1 (denot k4c5_layout) = k4c5_w.
Proof.
  assert (Hl : layout_ok k4c5_layout = true) by (vm_compute; reflexivity).
  split; [|split; vm_compute; reflexivity]. split; [exact Hl|]. split.
  - apply (verdicts_valid _ (denot_wf _ Hl)). vm_compute. repeat split; reflexivity.
  - intros e He. vm_compute in He. repeat (destruct He as [<-|He]; [exists 1; reflexivity|]). destruct He.
Qed.

Example C11_e2e_all_approx_nonvacuous :
  file_domain 1 k4c5_layout /\
  can_return_all 0 k4c5_g k4c5_w (CallApprox Signed true 2) 24 /\
  can_return_all 0 k4c5_g k4c5_w (CallApprox FvsTrees false 2) 24 /\
  can_return_all 0 k4c5_g k4c5_w (CallApprox IsoTrees false 2) 24 /\
  can_return_all 0 k4c5_g k4c5_w (CallApprox FvsTrees true 2) 24 /\
  can_return_all 0 k4c5_g k4c5_w (CallApprox IsoTrees true 2) 24 /\
  (forall opt, is_opt k4c5_g k4c5_w opt -> opt <= 24 <= 3 * opt) /\
  (* --signed false --fvstrees false --k 2 (default --parallel true) selects approx_mcb_sva_iso_trees_tbb *)
  demo_approx_file (fun _ _ => 24) (opts_of false false true 2) (render k4c5_layout)
  = FRan {| o_status := 0; o_diag := DNone; o_run := Some (CallApprox IsoTrees true 2);
            o_out := [LSize; LUsingK 2 3; LUsingAlgo (CallApprox IsoTrees true 2); LWeight 24] |}.
Proof.
  destruct k4c5_domain as (Hdom & Eg & Ew).
  assert (Hs : simple_graph k4c5_g) by (vm_compute; reflexivity).
  assert (Hw : positive_weights k4c5_g k4c5_w) by (split; [reflexivity|repeat constructor]).
  assert (Hscan : scan_ok k4c5_g k4c5_w k4c5_scan).
  { split; [apply SpannerProofs.scan_perm_check; vm_compute; reflexivity|].
    repeat (first [apply Z.leb_le; vm_compute; reflexivity | constructor]). }
  assert (Hr : covers k4c5_g k4c5_roots).
  { intros v Hv. do 9 (destruct v as [|v]; [cbn [In k4c5_roots]; tauto|]). exfalso. cbn [nv k4c5_g] in Hv. lia. }
  assert (Esp : exists sp0, construct_spanner k4c5_g (Z.to_nat 2) k4c5_scan = SpOk sp0 /\
                 greedy_fvs (sp_graph sp0) [4%nat] = FvsOk [4%nat] /\
                 mcb_sva_trees_accept_Z TbFvs (sp_graph sp0) (spanner_weights k4c5_w sp0) k4c5_roots [4%nat] [[3;4;5;6;8]%nat]
                 = Some 9 /\
                 (exists tr c1, tb_collection Z 0 Z.add Z.ltb TbFvs (sp_graph sp0) (spanner_weights k4c5_w sp0) [4%nat]
                                = CdOk (tr, [c1])) /\
                 (exists tr c1, tb_collection Z 0 Z.add Z.ltb TbIso (sp_graph sp0) (spanner_weights k4c5_w sp0) []
                                = CdOk (tr, [c1]))).
  { eexists. split; [vm_compute; reflexivity|]. split; [vm_compute; reflexivity|]. split; [vm_compute; reflexivity|].
    split; eexists; eexists; vm_compute; reflexivity. }
  destruct Esp as (sp0 & Esp & Efvs & Eacc & (tr1 & c1 & Ec1) & (tr2 & c2 & Ec2)).
  assert (Hp : picks_ok_on_spanner k4c5_g (Z.to_nat 2) k4c5_scan [4%nat]).
  { intros sp E. rewrite Esp in E. injection E as <-. eexists. exact Efvs. }
  assert (Hacc : forall sp, construct_spanner k4c5_g (Z.to_nat 2) k4c5_scan = SpOk sp ->
            exists t, mcb_sva_trees_accept_Z TbFvs (sp_graph sp) (spanner_weights k4c5_w sp) k4c5_roots [4%nat] [[3;4;5;6;8]%nat]
                      = Some t).
  { intros sp E. rewrite Esp in E. injection E as <-. eexists. exact Eacc. }
  assert (Ha1 : arr_ok_on_spanner TbFvs k4c5_g k4c5_w (Z.to_nat 2) k4c5_scan [4%nat] [0%nat]).
  { intros sp tr cs E Ec. rewrite Esp in E. injection E as <-. rewrite Ec1 in Ec. injection Ec as <- <-. reflexivity. }
  assert (Ha2 : arr_ok_on_spanner TbIso k4c5_g k4c5_w (Z.to_nat 2) k4c5_scan [] [0%nat]).
  { intros sp tr cs E Ec. rewrite Esp in E. injection E as <-. rewrite Ec2 in Ec. injection Ec as <- <-. reflexivity. }
  assert (Htrees : forall f, f = FvsTrees \/ f = IsoTrees -> can_return_all 0 k4c5_g k4c5_w (CallApprox f false 2) 24).
  { intros f [-> | ->]; cbn [can_return_all]; exists k4c5_scan, k4c5_roots, [4%nat], [[3;4;5;6;8]%nat]; eexists;
      (split; [exact Hscan|]); (split; [exact Hr|]); (split; [exact Hp|]); (split; [exact Hacc|vm_compute; reflexivity]). }
  assert (Hiso : can_return_all 0 k4c5_g k4c5_w (CallApprox IsoTrees true 2) 24).
  { cbn [can_return_all]. exists 2147483647, k4c5_scan, k4c5_roots, [], [0%nat], [true], [2;0;1]%nat, [1;2;0]%nat. do 2 eexists.
    split; [exact Hscan|]. split; [exact Hr|]. split; [exact Ha2|vm_compute; reflexivity]. }
  split; [exact Hdom|].
  split.
  { cbn [can_return_all]. exists k4c5_scan, k4c5_roots, [3; 1; 0; 2; 8; 7; 6; 5; 4]%nat, [true], [], [2;0;1]%nat, [1;2;0]%nat.
    do 2 eexists. split; [exact Hscan|]. split; [exact Hr|vm_compute; reflexivity]. }
  split; [apply Htrees; left; reflexivity|]. split; [apply Htrees; right; reflexivity|].
  split.
  { cbn [can_return_all]. exists 2147483647, k4c5_scan, k4c5_roots, [4%nat], [0%nat], [true], [2;0;1]%nat, [1;2;0]%nat. do 2 eexists.
    split; [exact Hscan|]. split; [exact Hr|]. split; [exact Hp|]. split; [exact Ha1|vm_compute; reflexivity]. }
  split; [exact Hiso|].
  split.
  { intros opt Hopt.
    exact (C11_e2e_all_approx_bounds 0 k4c5_g k4c5_w IsoTrees true 2 24 Hs Hw ltac:(lia) Hiso opt Hopt). }
  vm_compute. reflexivity.
Qed.

(* every weighted call has a returnable value on both files, for every job size *)
Example C11_e2e_all_exists_nonvacuous : forall (c : call) (P : nat),
  (1 <= P)%nat -> weighted_call c = true -> (forall f par k, c = CallApprox f par k -> 1 <= k) ->
  (exists x, can_return_all P Properties_C02_trees.c02t_g Properties_C02_trees.c02t_w c x) /\
  (exists x, can_return_all P k4c5_g k4c5_w c x).
Proof.
  intros c P HP Hc Hk. destruct theta_domain as (H1 & E1 & E1'). destruct k4c5_domain as (H2 & E2 & E2').
  rewrite <- E1, <- E1', <- E2, <- E2'.
  split; apply C11_e2e_all_sound_value_exists; assumption.
Qed.
