(* ParTreesProofs3.v — the TBB lookup against the sequential acceptance model, and the whole run of
   _mcb_sva_trees<..., ParallelUsingTBB = true> (ParTreesModel.v), exact domain.
     ps_lookup_sched_ok   EVERY pair of schedule trees, every previous content of the parity fields, every arrangement of
                          the collection: the lookup returns TrOk (r, pars) with pars = TreesModel.tp_all; r is the identity
                          tuple iff no candidate answers; otherwise (c3_set r, c3_weight r) passes the per-phase test of the
                          sequential acceptance model: trees_phase_ok ... = true
     ps_lookup_ok         the same for the schedules read off EVERY bit stream at EVERY position
     ps_run_min           every builder, premise = sufficiency of the collection: for every bit stream and every arrangement
                          the run ends with SvaOk, m-n+c simple cycles forming a MINIMUM cycle basis, total = returned value,
                          and the emitted cycles are an ACCEPTED run of the sequential model (mcb_sva_trees_accept_Z)
     ps_fvs_trees_tbb / ps_iso_trees_tbb / ps_horton_trees_tbb   premise-free end theorems
   Prefix ps_. *)
From Coq Require Import List Arith Bool Lia ZArith Permutation.
From Parmcb Require Import GraphModel GraphSpec GraphLemmas GF2Model McbSpec LexSPModel LexSPProofs FvsModel FvsProofs
     CandidatesModel CandidatesProofs CandidatesProofsZ ForestModel ForestProofs DePinaSpec DePinaProofs SvaModel SvaSpec SvaProofs RefModel RefProofs1
     RefProofs4 TreesModel TreesProofs2 TreesProofs3 TreesProofs4 TreesProofs5 IsoProofsF1 IsoProofsF2
     SchedModel SchedProofs ParTreesModel ParTreesProofs1 ParTreesProofs2.
Import ListNotations.

(* ---- 1. one call of the lookup against trees_phase_ok ------------------------------------------------------------------ *)
Section LookupAccept.
  Variable g : graph.
  Variable wts : list Z.
  Variable trees : list (sp_tree Z).
  Variable cands sorted : list (cand Z).
  Variable sg : list nat.
  Variable wmax : Z.
  Hypothesis Hsg : simple_graph g.
  Hypothesis Hpos : positive_weights g wts.
  Hypothesis Hcol : trees_collection_ok g wts trees cands.
  Hypothesis Hperm : Permutation sorted cands.

  Section WithPars.
    Variable pars : list (list bool).
    Hypothesis Hpars : forall i t, nth_error trees i = Some t -> update_parities Z g t sg = TrOk (nth i pars []).
    Variable l : list (cand Z * tc_answer Z).
    Hypothesis Hm : map fst l = cands.
    Hypothesis Hf : Forall (tl_entry_ok g wts trees sg) l.

    Notation res := (pr_res g wts trees sorted sg wmax pars).

    Lemma ps_c14_weight t c C : c14_cycle g wts t c C -> c_weight c = weight wts C.
    Proof. intros [_ [_ [_ [_ [_ [_ [_ [_ [_ [_ [_ [_ [_ [_ [_ [_ H]]]]]]]]]]]]]]]]. exact H. Qed.

    (* an entry of the sequential answer list and the unlimited search of its position in the arrangement *)
    Lemma ps_entry_res x : In x l ->
      exists j, j < length sorted /\
        match snd x with
        | TcFound C w => res j None = Some (C, w) /\ c_weight (fst x) = w
        | TcNot => res j None = None
        end.
    Proof.
      intros Hx. assert (Hc : In (fst x) sorted).
      { eapply Permutation_in; [apply Permutation_sym; exact Hperm|]. rewrite <- Hm. apply in_map, Hx. }
      destruct (In_nth_error _ _ Hc) as [j Hj]. exists j. split; [apply nth_error_Some; congruence|].
      destruct (pr_res_spec g wts trees cands sorted sg wmax Hsg Hpos Hcol Hperm pars Hpars j (fst x) Hj)
        as (t & C & _ & Ht & Hcy & H0 & _).
      rewrite Forall_forall in Hf. destruct (Hf x Hx) as (t' & C' & Ht' & Hcy' & Hs).
      rewrite Ht in Ht'. injection Ht' as <-.
      pose proof (tr_c14_cycle_unique g wts t (fst x) C C' (pr_trees_ok g wts trees cands Hcol _ _ Ht) Hcy Hcy') as <-.
      rewrite Hs, H0. destruct (oddb sg C); [|reflexivity]. split; [reflexivity|]. apply (ps_c14_weight t), Hcy.
    Qed.

    Lemma ps_res_entry j C w : res j None = Some (C, w) ->
      w = weight wts C /\ exists x, In x l /\ snd x = TcFound C w /\ c_weight (fst x) = w.
    Proof.
      intros Hr. destruct (nth_error sorted j) as [c|] eqn:Hj.
      2:{ rewrite pr_res_none in Hr; [discriminate|]. apply nth_error_None, Hj. }
      destruct (pr_res_spec g wts trees cands sorted sg wmax Hsg Hpos Hcol Hperm pars Hpars j c Hj)
        as (t & C0 & Hc & Ht & Hcy & H0 & _).
      rewrite H0 in Hr. destruct (oddb sg C0) eqn:Eo; [|discriminate]. injection Hr as <- <-. split; [reflexivity|].
      rewrite <- Hm in Hc. apply in_map_iff in Hc as [x [Hx1 Hx2]]. exists x. split; [exact Hx2|].
      rewrite Forall_forall in Hf. destruct (Hf x Hx2) as (t' & C' & Ht' & Hcy' & Hs). subst c.
      rewrite Ht in Ht'. injection Ht' as <-.
      pose proof (tr_c14_cycle_unique g wts t (fst x) C0 C' (pr_trees_ok g wts trees cands Hcol _ _ Ht) Hcy Hcy') as <-.
      rewrite Hs, Eo. split; [reflexivity|]. apply (ps_c14_weight t), Hcy.
    Qed.

    (* a minimum unlimited answer passes the acceptance test *)
    Lemma ps_min_picked i C w : res i None = Some (C, w) ->
      (forall j y, res j None = Some y -> (w <= snd y)%Z) ->
      trees_phase_pick Z Z.ltb l C = Some w.
    Proof.
      intros Hr Hmin. destruct (ps_res_entry i C w Hr) as (Hw & x0 & Hx0 & Hs0 & Hw0).
      assert (Hma : tl_matches Z Z.ltb l C x0 = true).
      { unfold tl_matches. rewrite Hs0, tb_list_eqb_refl. cbn [andb]. unfold tl_is_min. apply forallb_forall.
        intros y Hy. destruct (tl_found Z y) eqn:Efy; [|reflexivity]. cbn [andb]. apply negb_true_iff, Z.ltb_ge.
        destruct (ps_entry_res y Hy) as (j & _ & Hj). unfold tl_found in Efy.
        destruct (snd y) as [Cy wy|]; [|discriminate]. destruct Hj as [Hj Hwy].
        specialize (Hmin j _ Hj). cbn [snd] in Hmin. lia. }
      unfold trees_phase_pick. destruct (find (tl_matches Z Z.ltb l C) l) as [[cd a]|] eqn:Ef.
      - apply find_some in Ef as [Hin1 Hm1]. unfold tl_matches in Hm1. cbn [snd fst] in Hm1.
        destruct a as [c1 w1|]; [|discriminate]. apply andb_true_iff in Hm1 as [Heq _]. apply tb_list_eqb_eq in Heq. subst c1.
        destruct (ps_entry_res _ Hin1) as (j & _ & Hj). cbn [snd fst] in Hj. destruct Hj as [Hj _].
        destruct (ps_res_entry j C w1 Hj) as [Hw1 _]. congruence.
      - pose proof (find_none _ _ Ef x0 Hx0). congruence.
    Qed.
  End WithPars.

  (* the lookup under arbitrary schedule trees *)
  Theorem ps_lookup_sched_ok t1 t2 pars0 :
    size t1 = length trees -> size t2 = length sorted -> length pars0 = length trees ->
    exists r pars l,
      pt_lookup_sched_Z wmax g wts trees sorted sg t1 t2 pars0 = TrOk (r, pars) /\
      tp_all Z g trees sg = TrOk pars /\ length pars = length trees /\
      tl_answers_Z g wts trees cands sg = TrOk l /\
      (c3_found Z r = false -> r = pt_ident Z wmax /\ forall x, In x l -> tl_found Z x = false) /\
      (c3_found Z r = true -> trees_phase_ok g wts trees cands sg (c3_set Z r) (c3_weight Z r) = true).
  Proof.
    intros Hs1 Hs2 Hl0. pose proof (pr_trees_ok g wts trees cands Hcol) as Hok.
    destruct (tb_tp_all_ok g wts sg trees Hok) as (pars & Hp & Hpars).
    destruct Hcol as [HF Hsound].
    destruct (tb_eval_ok g wts Hsg trees pars sg Hok Hpars cands Hsound) as (l & Hl & Hm & Hf).
    assert (Hans : tl_answers_Z g wts trees cands sg = TrOk l).
    { unfold tl_answers_Z, tl_answers. rewrite Hp. exact Hl. }
    exists (pr_pure g wts trees sorted sg wmax pars t2), pars, l.
    split.
    { unfold pt_lookup_sched_Z, pt_lookup_sched.
      rewrite (pq_parallel_for_any_schedule Z g trees sg pars t1 pars0 Hp Hl0 Hs1).
      rewrite (pr_reduce_pure g wts trees cands sorted sg wmax Hsg Hpos (conj HF Hsound) Hperm pars Hpars t2 Hs2). reflexivity. }
    split; [exact Hp|]. split; [apply (pq_tp_all_nth Z g sg trees pars Hp)|]. split; [exact Hans|].
    destruct (pr_reduce_spec g wts trees cands sorted sg wmax Hsg Hpos (conj HF Hsound) Hperm pars Hpars t2 Hs2) as [Hnf Hfd].
    split.
    - intros Hnot. destruct (Hnf Hnot) as [Hid Hnone]. split; [exact Hid|]. intros x Hx.
      destruct (ps_entry_res pars Hpars l Hm Hf x Hx) as (j & _ & Hj). unfold tl_found.
      destruct (snd x) as [C w|]; [|reflexivity]. destruct Hj as [Hj _]. rewrite Hnone in Hj. discriminate.
    - intros Hfound. destruct (Hfd Hfound) as (i & _ & Hr & Hmin).
      unfold trees_phase_ok. rewrite Hans.
      rewrite (ps_min_picked pars Hpars l Hm Hf i _ _ Hr Hmin). apply Z.eqb_refl.
  Qed.

  (* ... and for the schedules the shim reads off the bit stream, at every position *)
  Theorem ps_lookup_ok bits pos pars0 : length pars0 = length trees ->
    exists r pars l pos',
      pt_lookup_Z wmax bits g wts trees sorted sg pos pars0 = (TrOk (r, pars), pos') /\
      tp_all Z g trees sg = TrOk pars /\ length pars = length trees /\
      tl_answers_Z g wts trees cands sg = TrOk l /\
      (c3_found Z r = false -> r = pt_ident Z wmax /\ forall x, In x l -> tl_found Z x = false) /\
      (c3_found Z r = true -> trees_phase_ok g wts trees cands sg (c3_set Z r) (c3_weight Z r) = true).
  Proof.
    intros Hl0. unfold pt_lookup_Z, pt_lookup.
    destruct (sched_of_bits bits pos (length trees)) as [t1 p1] eqn:E1.
    destruct (sched_of_bits bits p1 (length sorted)) as [t2 p2] eqn:E2.
    assert (Hs1 : size t1 = length trees).
    { pose proof (sched_of_bits_size bits pos (length trees)) as H. rewrite E1 in H. exact H. }
    assert (Hs2 : size t2 = length sorted).
    { pose proof (sched_of_bits_size bits p1 (length sorted)) as H. rewrite E2 in H. exact H. }
    destruct (ps_lookup_sched_ok t1 t2 pars0 Hs1 Hs2 Hl0) as (r & pars & l & H1 & H2).
    exists r, pars, l, p2. split; [|exact H2]. unfold pt_lookup_sched_Z in H1. rewrite H1. reflexivity.
  Qed.
End LookupAccept.

(* ---- 2. the run ------------------------------------------------------------------------------------------------------- *)

Definition ps_to_phase (r : tr_result (cyc3 Z * list (list bool))) : phase_result Z :=
  match r with
  | TrOk ((c, w, true), _) => PFound c w
  | TrOk ((_, _, false), _) => PNone
  | _ => PError
  end.

Lemma ps_phases_search_ext (s1 s2 : nat -> vec -> phase_result Z) fi : forall ks sup acc total,
  (forall k S, In k ks -> s1 k S = s2 k S) ->
  sva_phases Z Z.add select_none s1 fi ks sup acc total = sva_phases Z Z.add select_none s2 fi ks sup acc total.
Proof.
  induction ks as [|k ks IH]; intros sup acc total H; cbn [sva_phases]; [reflexivity|].
  rewrite (H k) by (left; reflexivity).
  destruct (s2 k _) as [c w| |]; try reflexivity.
  apply IH. intros k' S Hk'. apply H. right. exact Hk'.
Qed.

Section Run.
  Variable g : graph.
  Variable wts : list Z.
  Variable roots : list nat.
  Variable fi : forest_index.
  Variable trees : list (sp_tree Z).
  Variable cands sorted : list (cand Z).
  Variable bits : list bool.
  Variable wmax : Z.
  Hypothesis Hsg : simple_graph g.
  Hypothesis Hpos : positive_weights g wts.
  Hypothesis Hr : forall v, v < nv g -> In v roots.
  Hypothesis Hci : create_index g roots = Some fi.
  Hypothesis Hcol : trees_collection_ok g wts trees cands.
  Hypothesis Hperm : Permutation sorted cands.

  Notation lookup := (pt_lookup_Z wmax bits g wts trees sorted).

  (* a per-phase search each of whose answers is an answer of the TBB lookup at some stream position, from some content of
     the parity fields *)
  Definition ps_lookup_search (search : nat -> vec -> phase_result Z) : Prop :=
    forall k S, exists p pars0, length pars0 = length trees /\
                                search k S = ps_to_phase (fst (lookup (indices_to_edges fi S) p pars0)).

  (* every bit stream: the run is SvaModel.sva_phases (no swap) with such a search *)
  Theorem ps_phases_is_sva_phases : forall ks sup pos pars acc total,
    NoDup ks -> length pars = length trees ->
    exists search, ps_lookup_search search /\
      fst (pt_phases Z 0%Z Z.add Z.ltb wmax bits g wts fi trees sorted ks sup pos pars acc total)
      = sva_phases Z Z.add select_none search fi ks sup acc total.
  Proof.
    assert (Hdef : forall p pars0, length pars0 = length trees ->
              ps_lookup_search (fun _ S => ps_to_phase (fst (lookup (indices_to_edges fi S) p pars0)))).
    { intros p pars0 Hl k S. exists p, pars0. auto. }
    induction ks as [|k ks IH]; intros sup pos pars acc total Hnd Hlen.
    - exists (fun _ S => ps_to_phase (fst (lookup (indices_to_edges fi S) 0 pars))). split; [apply Hdef, Hlen|reflexivity].
    - cbn [pt_phases sva_phases]. change (select_none k sup) with k. cbv zeta. rewrite Nat.eqb_refl.
      fold (pt_lookup_Z wmax bits g wts trees sorted (indices_to_edges fi (nth k sup [])) pos pars).
      destruct (ps_lookup_ok g wts trees cands sorted (indices_to_edges fi (nth k sup [])) wmax Hsg Hpos Hcol Hperm bits pos pars Hlen)
        as (r & pars1 & l & pos1 & Hlk & _ & Hl1 & _).
      rewrite Hlk. inversion Hnd as [|? ? Hnotin Hnd']; subst.
      destruct r as [[c w] [|]].
      + destruct (IH (update_supports sup k (edges_to_indices fi c)) pos1 pars1 (c :: acc) (total + w)%Z Hnd' Hl1)
          as (search' & Hs' & Hrun). clear IH.
        exists (fun k' S => if Nat.eqb k' k then ps_to_phase (fst (lookup (indices_to_edges fi S) pos pars)) else search' k' S).
        split.
        * intros k' S. destruct (Nat.eqb k' k); [exists pos, pars; auto|apply Hs'].
        * rewrite Nat.eqb_refl, Hlk. cbn [fst ps_to_phase]. rewrite Hrun.
          apply ps_phases_search_ext. intros k' S Hk'. destruct (Nat.eqb_spec k' k) as [->|]; [contradiction|reflexivity].
      + exists (fun _ S => ps_to_phase (fst (lookup (indices_to_edges fi S) pos pars))). split; [apply Hdef, Hlen|].
        rewrite Hlk. reflexivity.
  Qed.

  (* what an answer of such a search is *)
  Lemma ps_search_answer search : ps_lookup_search search -> forall k S c w, search k S = PFound c w ->
    trees_phase_ok g wts trees cands (indices_to_edges fi S) c w = true.
  Proof.
    intros Hs k S c w H. destruct (Hs k S) as (p & pars0 & Hl & E). rewrite E in H.
    destruct (ps_lookup_ok g wts trees cands sorted (indices_to_edges fi S) wmax Hsg Hpos Hcol Hperm bits p pars0 Hl)
      as (r & pars1 & l & pos1 & Hlk & _ & _ & _ & _ & Hfd).
    fold (pt_lookup_Z wmax bits g wts trees sorted (indices_to_edges fi S) p pars0) in H. rewrite Hlk in H. cbn [fst ps_to_phase] in H.
    destruct r as [[c' w'] [|]]; [|discriminate]. injection H as <- <-. apply Hfd. reflexivity.
  Qed.

  Lemma ps_search_tr_answer search : ps_lookup_search search -> forall k S c w, search k S = PFound c w ->
    tr_answer g wts trees cands (indices_to_edges fi S) c w.
  Proof.
    intros Hs k S c w H. apply (tf_phase_ok_spec g wts trees cands _ c w Hsg Hpos Hcol). eapply ps_search_answer; eauto.
  Qed.

  Lemma ps_search_sound_c search : ps_lookup_search search -> search_sound_c g fi search.
  Proof.
    intros Hs k S c w HS H. pose proof (ps_search_tr_answer search Hs k S c w H) as Ha.
    destruct (tr_answer_sound g wts roots fi trees cands Hsg Hr Hci S c w HS Ha) as (Hsc & Hp & _).
    split; [apply simple_cycle_in_cycle_space; assumption|exact Hp].
  Qed.

  Hypothesis Hsuf : collection_sufficient g wts fi trees cands.

  Lemma ps_search_min_c search : ps_lookup_search search -> search_min_c g wts fi search.
  Proof.
    intros Hs k S c w HS H. pose proof (ps_search_tr_answer search Hs k S c w H) as Ha.
    apply (tr_answer_min g wts roots fi trees cands Hsg Hr Hci S c w HS Hsuf Ha).
  Qed.

  (* totality: a canonical witness has an odd simple cycle, hence by sufficiency an answering candidate, hence the
     reduction does not come back with the identity *)
  Lemma ps_search_total search : ps_lookup_search search -> search_total fi search.
  Proof.
    intros Hs k S HS Hne HSb.
    assert (Hcan : canonical_witness fi S) by (split; [|split]; assumption).
    destruct (rf_odd_cycle_exists g roots fi S Hsg Hr Hci HS Hne HSb) as (D & HD & HoD).
    destruct (Hsuf S Hcan D HD HoD) as (cd & t & C & Hcd & Ht & HC & Ho & _).
    destruct (Hs k S) as (p & pars0 & Hl & E). rewrite E.
    destruct (ps_lookup_ok g wts trees cands sorted (indices_to_edges fi S) wmax Hsg Hpos Hcol Hperm bits p pars0 Hl)
      as (r & pars1 & l & pos1 & Hlk & _ & _ & Hans & Hnf & _).
    fold (pt_lookup_Z wmax bits g wts trees sorted (indices_to_edges fi S) p pars0). rewrite Hlk. cbn [fst ps_to_phase].
    destruct r as [[c w] [|]]; [eauto|]. exfalso.
    destruct (Hnf eq_refl) as [_ Hnone].
    destruct Hcol as [HF Hsound].
    destruct (tb_answers_ok g wts Hsg trees cands (indices_to_edges fi S) HF Hsound) as (l' & Hl' & Hm & Hf).
    rewrite Hans in Hl'. injection Hl' as <-.
    rewrite <- Hm in Hcd. apply in_map_iff in Hcd as [y [Hy1 Hy2]].
    rewrite Forall_forall in Hf. destruct (Hf y Hy2) as (t' & C' & Ht' & HC' & Hsy). subst cd.
    rewrite Ht in Ht'. injection Ht' as <-.
    assert (Hspec : lx_tree_spec Z 0%Z Z.add g wts (st_src t) t) by (eapply tb_sound_trees_ok; eauto).
    pose proof (tr_c14_cycle_unique g wts t (fst y) C C' Hspec HC HC') as <-.
    specialize (Hnone y Hy2). unfold tl_found in Hnone. rewrite Hsy, Ho in Hnone. discriminate.
  Qed.

  (* the acceptance search of the sequential model agrees with such a search on the latter's own answers *)
  Lemma ps_search_replayed search cycles : ps_lookup_search search -> forall k S c w,
    search k S = PFound c w -> nth_error cycles k = Some c ->
    trees_search_accept Z 0%Z Z.add Z.ltb g wts trees cands fi cycles k S = PFound c w.
  Proof.
    intros Hs k S c w H Hn. pose proof (ps_search_answer search Hs k S c w H) as Hok.
    unfold trees_search_accept. rewrite Hn. unfold trees_phase_ok, tl_answers_Z in Hok.
    destruct (tl_answers Z 0%Z Z.add g wts trees cands (indices_to_edges fi S)) as [l| | |]; try discriminate.
    destruct (trees_phase_pick Z Z.ltb l c) as [w'|]; [|discriminate]. apply Z.eqb_eq in Hok. subst w'. reflexivity.
  Qed.

  Theorem ps_run_ok :
    exists cycles total sup pos,
      pt_run_Z wmax bits g wts fi trees sorted = (SvaOk cycles total sup, pos) /\
      min_cycle_basis g wts cycles /\ total = total_weight wts cycles /\ has_cycle_space_dimension g (length cycles) /\
      sva_run Z 0%Z Z.add select_none (trees_search_accept Z 0%Z Z.add Z.ltb g wts trees cands fi cycles) fi
      = SvaOk cycles total sup.
  Proof.
    unfold pt_run_Z, pt_run.
    destruct (ps_phases_is_sva_phases (seq 0 (fi_csd fi)) (map (fun i => [i]) (seq 0 (fi_csd fi))) 0
                (pt_pars_init Z g trees) [] 0%Z (seq_NoDup _ _)) as (search & Hs & Hrun).
    { unfold pt_pars_init. apply map_length. }
    pose proof (select_none_ok (fi_csd fi)) as Hsel.
    pose proof (ps_search_sound_c search Hs) as Hsnd.
    pose proof (ps_search_total search Hs) as Htot.
    pose proof (ps_search_min_c search Hs) as Hmin.
    destruct (sva_generic_total_c g roots fi Z 0%Z Z.add _ _ Hsg Hr Hci Hsel Hsnd Htot) as (cycles & total & sup & Hsva).
    destruct (sva_generic_min_c g wts roots fi _ _ cycles total sup Hsg Hpos Hr Hci Hsel Hmin Hsva) as (Hm & Hw & Hd).
    unfold sva_run in Hsva. rewrite Hsva in Hrun.
    destruct (pt_phases Z 0%Z Z.add Z.ltb wmax bits g wts fi trees sorted _ _ _ _ _ _) as [res pos] eqn:Ep.
    cbn [fst] in Hrun. subst res.
    exists cycles, total, sup, pos. split; [reflexivity|]. split; [exact Hm|]. split; [exact Hw|]. split; [exact Hd|].
    unfold sva_run.
    apply (tr_phases_replay Z.add select_none search _ fi cycles (ps_search_replayed search cycles Hs)); [reflexivity|exact Hsva].
  Qed.
End Run.

(* ---- 3. the entry points ----------------------------------------------------------------------------------------------- *)

Lemma ps_arrange_total {W} arr (cands : list (cand W)) : pt_valid_arr arr (length cands) = true ->
  exists sorted, pt_arrange W arr cands = Some sorted.
Proof.
  intros Hv. unfold pt_arrange. rewrite Hv. pose proof (pq_valid_arr_perm arr _ Hv) as Hp.
  assert (Hlt : forall i, In i arr -> i < length cands).
  { intros i Hi. apply (Permutation_in _ Hp) in Hi. apply in_seq in Hi. lia. }
  clear Hv Hp. induction arr as [|i arr IH]; [exists []; reflexivity|].
  destruct IH as [l Hl]; [intros j Hj; apply Hlt; right; exact Hj|].
  destruct (nth_error cands i) as [c|] eqn:Ec.
  - exists (c :: l). cbn [pt_pick]. rewrite Ec, Hl. reflexivity.
  - apply nth_error_None in Ec. specialize (Hlt i (or_introl eq_refl)). lia.
Qed.

(* the conclusion about one run: SvaOk with a minimum cycle basis of the right size, the returned value is its weight, and
   the emitted cycles are an accepted run of the sequential acceptance model *)
Definition ps_run_good (b : tbuilder) (g : graph) (wts : list Z) (roots picks : list nat) (r : sva_result Z) : Prop :=
  exists cycles total sup,
    r = SvaOk cycles total sup /\ min_cycle_basis g wts cycles /\ total = total_weight wts cycles /\
    has_cycle_space_dimension g (length cycles) /\
    mcb_sva_trees_accept_Z b g wts roots picks cycles = Some total.

Section Entry.
  Variable b : tbuilder.
  Variable g : graph.
  Variable wts : list Z.
  Variable roots picks : list nat.
  Hypothesis Hsg : simple_graph g.
  Hypothesis Hpos : positive_weights g wts.
  Hypothesis Hr : forall v, v < nv g -> In v roots.

  (* any builder, modulo sufficiency of its collection: every arrangement, every bit stream *)
  Theorem ps_run_min trees cands :
    tb_collection Z 0%Z Z.add Z.ltb b g wts picks = CdOk (trees, cands) ->
    (forall fi, create_index g roots = Some fi -> collection_sufficient g wts fi trees cands) ->
    exists fi, create_index g roots = Some fi /\
      forall (wmax : Z) (bits : list bool) (sorted : list (cand Z)), Permutation sorted cands ->
        exists pos, ps_run_good b g wts roots picks (fst (pt_run_Z wmax bits g wts fi trees sorted)) /\
                    snd (pt_run_Z wmax bits g wts fi trees sorted) = pos.
  Proof.
    intros Hc Hsuf. destruct (create_index_correct g roots Hsg Hr) as (fi & Hci & _).
    exists fi. split; [exact Hci|]. intros wmax bits sorted Hperm.
    pose proof (tr_collection_ok b g wts picks trees cands Hsg Hpos Hc) as Hcol.
    destruct (ps_run_ok g wts roots fi trees cands sorted bits wmax Hsg Hpos Hr Hci Hcol Hperm (Hsuf fi Hci))
      as (cycles & total & sup & pos & Hrun & Hm & Hw & Hd & Hacc).
    exists pos. rewrite Hrun. split; [|reflexivity]. exists cycles, total, sup.
    split; [reflexivity|]. split; [exact Hm|]. split; [exact Hw|]. split; [exact Hd|].
    unfold mcb_sva_trees_accept_Z, mcb_sva_trees_accept, mcb_sva_trees_replay, mcb_sva_trees. rewrite Hci, Hc, Hacc, Nat.eqb_refl.
    reflexivity.
  Qed.

  (* the entry point with the arrangement given as positions *)
  Theorem ps_entry_min trees cands :
    tb_collection Z 0%Z Z.add Z.ltb b g wts picks = CdOk (trees, cands) ->
    (forall fi, create_index g roots = Some fi -> collection_sufficient g wts fi trees cands) ->
    forall (wmax : Z) (bits : list bool) (arr : list nat), pt_valid_arr arr (length cands) = true ->
      exists r pos, mcb_sva_trees_tbb_Z wmax b g wts roots picks arr bits = (PtRun r, pos) /\
                    ps_run_good b g wts roots picks r.
  Proof.
    intros Hc Hsuf wmax bits arr Hv. destruct (ps_run_min trees cands Hc Hsuf) as (fi & Hci & Hall).
    destruct (ps_arrange_total arr cands Hv) as (sorted & Harr).
    destruct (Hall wmax bits sorted (pq_arrange_perm Z arr cands sorted Harr)) as (pos & Hgood & Hpos').
    unfold mcb_sva_trees_tbb_Z, mcb_sva_trees_tbb. rewrite Hci, Hc, Harr.
    fold (pt_run_Z wmax bits g wts fi trees sorted).
    destruct (pt_run_Z wmax bits g wts fi trees sorted) as [r p]. exists r, p. split; [reflexivity|exact Hgood].
  Qed.
End Entry.

(* the statement shared by the three premise-free end theorems *)
Definition ps_trees_tbb_stmt (b : tbuilder) (g : graph) (wts : list Z) (roots picks : list nat) : Prop :=
  exists fi trees cands,
    create_index g roots = Some fi /\ tb_collection Z 0%Z Z.add Z.ltb b g wts picks = CdOk (trees, cands) /\
    (forall (wmax : Z) (bits : list bool) (sorted : list (cand Z)), Permutation sorted cands ->
       ps_run_good b g wts roots picks (fst (pt_run_Z wmax bits g wts fi trees sorted))) /\
    (forall (wmax : Z) (bits : list bool) (arr : list nat), pt_valid_arr arr (length cands) = true ->
       exists r pos, mcb_sva_trees_tbb_Z wmax b g wts roots picks arr bits = (PtRun r, pos) /\
                     ps_run_good b g wts roots picks r).

Lemma ps_stmt_of b g wts roots picks trees cands :
  simple_graph g -> positive_weights g wts -> (forall v, v < nv g -> In v roots) ->
  tb_collection Z 0%Z Z.add Z.ltb b g wts picks = CdOk (trees, cands) ->
  (forall fi, create_index g roots = Some fi -> collection_sufficient g wts fi trees cands) ->
  ps_trees_tbb_stmt b g wts roots picks.
Proof.
  intros Hsg Hpos Hr Hc Hsuf. destruct (ps_run_min b g wts roots picks Hsg Hpos Hr trees cands Hc Hsuf) as (fi & Hci & Hall).
  exists fi, trees, cands. split; [exact Hci|]. split; [exact Hc|]. split.
  - intros wmax bits sorted Hp. destruct (Hall wmax bits sorted Hp) as (pos & H & _). exact H.
  - apply (ps_entry_min b g wts roots picks Hsg Hpos Hr trees cands Hc Hsuf).
Qed.

Theorem ps_fvs_trees_tbb g wts roots picks fvs :
  simple_graph g -> positive_weights g wts -> (forall v, v < nv g -> In v roots) ->
  greedy_fvs g picks = FvsOk fvs -> ps_trees_tbb_stmt TbFvs g wts roots picks.
Proof.
  intros Hsg Hpos Hr Hf. destruct (proj2 (cz_C14_total g wts Hsg Hpos) picks fvs Hf) as (trees & cands & Hc).
  apply (ps_stmt_of TbFvs g wts roots picks trees cands Hsg Hpos Hr Hc).
  intros fi _. apply (tf_sufficient TbFvs g wts picks fi trees cands ltac:(discriminate) Hsg Hpos Hc).
Qed.

Theorem ps_horton_trees_tbb g wts roots picks :
  simple_graph g -> positive_weights g wts -> (forall v, v < nv g -> In v roots) ->
  ps_trees_tbb_stmt TbHorton g wts roots picks.
Proof.
  intros Hsg Hpos Hr. destruct (proj1 (cz_C14_total g wts Hsg Hpos)) as (trees & cands & Hc).
  apply (ps_stmt_of TbHorton g wts roots picks trees cands Hsg Hpos Hr Hc).
  intros fi _. apply (tf_sufficient TbHorton g wts picks fi trees cands ltac:(discriminate) Hsg Hpos Hc).
Qed.

Theorem ps_iso_trees_tbb g wts roots picks :
  simple_graph g -> positive_weights g wts -> (forall v, v < nv g -> In v roots) ->
  ps_trees_tbb_stmt TbIso g wts roots picks.
Proof.
  intros Hsg Hpos Hr. destruct (iso_total g wts Hsg Hpos) as (trees & cands & Hc).
  apply (ps_stmt_of TbIso g wts roots picks trees cands Hsg Hpos Hr Hc).
  intros fi _. apply tr_sufficient_all_canonical. exact (iso_sufficient g wts trees cands Hsg Hpos Hc).
Qed.

Print Assumptions ps_lookup_sched_ok.
Print Assumptions ps_fvs_trees_tbb.
Print Assumptions ps_iso_trees_tbb.
