(* Properties_C18_rename.v — the SpVecFP history model is invariant under strictly increasing
   renamings of the coordinates.  Only statements; each closed by [exact <lemma>] and followed by
   Print Assumptions. *)
From Coq Require Import ZArith List Bool Arith Lia.
From Parmcb Require Import FpModel FpProofs FpRenameProofs.
Import ListNotations.
Local Open Scope Z_scope.

(* For EVERY modulus p, every history and every strictly increasing f (no side condition): running
   the model (frun_dump, the function behind case kind V of component c18) on the history whose
   coordinates (the argument i of every `U d i`) were renamed by f gives the same outputs of the
   products D and sizes Z, and every dumped vector with its coordinates renamed by f and its values
   unchanged.  This is the step the case kinds VW / VWB of tools/props/c18.py rely on: the class runs
   on coordinates spread over both ends of the std::size_t index space, the model on the small
   history itself. *)
Theorem C18_rename_invariance :
  forall f p K ops, StrictMono f ->
  frun_dump p K (map (rename_fop f) ops) =
  (fst (frun_dump p K ops), map (rename_fvec f) (snd (frun_dump p K ops))).
Proof. exact frun_dump_rename. Qed.
Print Assumptions C18_rename_invariance.

(* the single operations, on arbitrary entry lists *)
Theorem C18_rename_add :
  forall f p, StrictMono f -> forall u v,
  fadd p (rename_fvec f u) (rename_fvec f v) = rename_fvec f (fadd p u v).
Proof. exact fadd_rename. Qed.
Print Assumptions C18_rename_add.

Theorem C18_rename_scale :
  forall f p c u, fscale p c (rename_fvec f u) = rename_fvec f (fscale p c u).
Proof. exact fscale_rename. Qed.
Print Assumptions C18_rename_scale.

Theorem C18_rename_dot :
  forall f p, StrictMono f -> forall u v,
  fdot p (rename_fvec f u) (rename_fvec f v) = fdot p u v.
Proof. exact fdot_rename. Qed.
Print Assumptions C18_rename_dot.

(* the value stored at a renamed coordinate is the value at the original one *)
Theorem C18_rename_get :
  forall f v i, StrictMono f -> fget (rename_fvec f v) (f i) = fget v i.
Proof. exact rename_fvec_get. Qed.
Print Assumptions C18_rename_get.

(* non-vacuity: the shape of the harness's renaming (the low coordinates stay, the others move far
   away) is strictly increasing; a concrete history over Z/7 with additions, scalings, products
   and sizes; both sides computed *)
Example C18_rename_nonvacuous :
  let f := fun x => if (x <? 3)%nat then x else (x + 4000)%nat in
  let ops := [FUnit 0 3; FUnit 1 5; FScale 2 0 (-3); FAdd 3 0 2; FAddAssign 3 1; FUnit 4 1;
              FAddAssign 3 4; FScaleAssign 1 6; FDot 3 1; FAdd 0 3 2; FDot 0 3; FSize 3; FSize 0] in
  StrictMono f /\
  frun_dump 7 5 ops =
    ([FOutZ 6; FOutZ 5; FOutNat 3; FOutNat 3],
     [[(1%nat, 1); (3%nat, 2); (5%nat, 1)]; [(5%nat, 6)]; [(3%nat, 4)];
      [(1%nat, 1); (3%nat, 5); (5%nat, 1)]; [(1%nat, 1)]]) /\
  frun_dump 7 5 (map (rename_fop f) ops) =
    ([FOutZ 6; FOutZ 5; FOutNat 3; FOutNat 3],
     [[(1%nat, 1); (4003%nat, 2); (4005%nat, 1)]; [(4005%nat, 6)]; [(4003%nat, 4)];
      [(1%nat, 1); (4003%nat, 5); (4005%nat, 1)]; [(1%nat, 1)]]).
Proof.
  split; [|split].
  - intros a b Hab. generalize 4000%nat; intros c.
    destruct (Nat.ltb_spec a 3) as [Ha|Ha]; destruct (Nat.ltb_spec b 3) as [Hb|Hb]; lia.
  - vm_compute; reflexivity.
  - vm_compute; reflexivity.
Qed.
