(* LexSPModel.v — executable model of
     include/parmcb/detail/lex_dijkstra.hpp  (LexDistance, LexDistanceCompare, LexDistanceCombine, lex_dijkstra)
     include/parmcb/sptrees.hpp              (SPNode, SPTree::initialize, SPTree::compute_first_in_path,
                                              SPTree::node, SPTree::first)
   generic in the weight type (Section variables; instantiated with Z for the exact domain, a later
   instance uses binary64).  Definitions only; proofs in LexSPProofs*.v.

   * A label is (distance, edge_count, vertex_indices); vertex_indices (a std::set<size_t>) is the
     strictly increasing list of its elements.
   * `wadd` stands for parmcb::detail::closed_plus (a + b unless one side is numeric_limits::max): in
     the exact domain no partial sum reaches numeric_limits::max and it is the addition.
   * The queue is boost::d_ary_heap_indirect<Vertex, 4, ...> keyed by the labels and ordered by
     LexDistanceCompare: modelled exactly by HeapModel.v (keys read through lex_dist at call time).
   * out_edges(u, g) of the undirected adjacency_list lists (edge, other endpoint) in insertion
     order, a self-loop twice: GraphModel.out_edges.
   * Every run-time failure of the C++ is an explicit error value: LxRange (std::vector::at out of
     range / an edge id without endpoints), LxNotInHeap (queue.update of a vertex that is not in the
     queue: index_in_heap == -1), LxNoNode (dereferencing a null tree node / a predecessor without
     distance), LxFuel (fuel of the two loops exhausted; shown impossible). *)
From Coq Require Export ZArith.
From Parmcb Require Export GraphModel HeapModel.

Inductive lx_result (A : Type) : Type :=
| LxOk (a : A)
| LxFuel
| LxRange
| LxNotInHeap
| LxNoNode.
Arguments LxOk {A} a.
Arguments LxFuel {A}.
Arguments LxRange {A}.
Arguments LxNotInHeap {A}.
Arguments LxNoNode {A}.

(* std::set<size_t>::insert on the sorted duplicate-free list of elements *)
Fixpoint lx_set_ins (x : nat) (l : list nat) : list nat :=
  match l with
  | [] => [x]
  | y :: r => if Nat.ltb x y then x :: l else if Nat.eqb x y then l else y :: lx_set_ins x r
  end.

(* std::set_difference(a, b) of two sorted duplicate-free ranges: the elements of a not in b, in order *)
Definition lx_set_diff (a b : list nat) : list nat := filter (fun x => negb (memb x b)) a.

Section LexSP.
  Variable W : Type.
  Variable w0 : W.                           (* DistanceType() *)
  Variable wadd : W -> W -> W.               (* closed_plus *)
  Variable wltb : W -> W -> bool.            (* operator< ; a > b is b < a *)

  Definition lx_wt (wts : list W) (e : nat) : W := nth e wts w0.

  (* struct LexDistance *)
  Record label := { l_dist : W; l_cnt : nat; l_set : list nat }.

  (* LexDistance() *)
  Definition lx_default : label := {| l_dist := w0; l_cnt := 0; l_set := [] |}.

  (* LexDistanceCompare::operator() *)
  Definition lx_ltb (a b : label) : bool :=
    if wltb (l_dist a) (l_dist b) then true
    else if wltb (l_dist b) (l_dist a) then false
    else if Nat.ltb (l_cnt a) (l_cnt b) then true
    else if Nat.ltb (l_cnt b) (l_cnt a) then false
    else
      let non_common_a := lx_set_diff (l_set a) (l_set b) in
      let non_common_b := lx_set_diff (l_set b) (l_set a) in
      match non_common_a, non_common_b with
      | [], _ :: _ => true
      | _ :: _, [] => false
      | min_a :: _, min_b :: _ => Nat.ltb min_a min_b
      | [], [] => false
      end.

  (* LexDistanceCombine::operator()(a, e) for the out-edge e = (u, w) of u *)
  Definition lx_combine (wts : list W) (a : label) (e u w : nat) : label :=
    {| l_dist := wadd (l_dist a) (lx_wt wts e);
       l_cnt := l_cnt a + 1;
       l_set := lx_set_ins u (lx_set_ins w (l_set a)) |}.

  (* the state of lex_dijkstra: lex_dist, dist (None = untouched numeric_limits::max), pred
     (None = (false, Edge())), the heap array *)
  Record lx_state := {
    lx_lex : list label;
    lx_dist : list (option W);
    lx_pred : list (option nat);
    lx_heap : list nat
  }.

  Definition lx_key (lex : list label) (v : nat) : label := nth v lex lx_default.

  (* body of the for-loop over out_edges(u) *)
  Definition lx_relax (g : graph) (wts : list W) (s u : nat) (d_u : label)
             (r : lx_result lx_state) (ew : nat * nat) : lx_result lx_state :=
    match r with
    | LxOk st =>
        let '(e, w) := ew in
        if Nat.eqb w u then r                               (* self-loop *)
        else if Nat.eqb w s then r
        else if negb (Nat.ltb w (nv g)) then LxRange
        else
          let c := lx_combine wts d_u e u w in
          match nth w (lx_pred st) None with
          | None =>                                         (* first time found *)
              let lex' := set_nth (lx_lex st) w c in
              LxOk {| lx_lex := lex';
                      lx_dist := set_nth (lx_dist st) w (Some (l_dist c));
                      lx_pred := set_nth (lx_pred st) w (Some e);
                      lx_heap := heap_push label lx_ltb (lx_key lex') (lx_heap st) w |}
          | Some _ =>
              if lx_ltb c (lx_key (lx_lex st) w) then        (* already reached, strictly better *)
                let lex' := set_nth (lx_lex st) w c in
                match heap_update label lx_ltb (lx_key lex') (lx_heap st) w with
                | Some h' =>
                    LxOk {| lx_lex := lex';
                            lx_dist := set_nth (lx_dist st) w (Some (l_dist c));
                            lx_pred := set_nth (lx_pred st) w (Some e);
                            lx_heap := h' |}
                | None => LxNotInHeap
                end
              else r
          end
    | _ => r
    end.

  (* while (!queue.empty()) *)
  Fixpoint lx_loop (fuel : nat) (g : graph) (wts : list W) (s : nat) (st : lx_state) {struct fuel}
    : lx_result lx_state :=
    match heap_top (lx_heap st) with
    | None => LxOk st
    | Some u =>
        match fuel with
        | O => LxFuel
        | S fuel' =>
            let h' := heap_pop label lx_ltb (lx_key (lx_lex st)) (lx_heap st) in
            let d_u := lx_key (lx_lex st) u in
            match fold_left (lx_relax g wts s u d_u) (out_edges g u)
                            (LxOk {| lx_lex := lx_lex st; lx_dist := lx_dist st;
                                     lx_pred := lx_pred st; lx_heap := h' |}) with
            | LxOk st' => lx_loop fuel' g wts s st'
            | err => err
            end
        end
    end.

  Definition lx_init (g : graph) (s : nat) : lx_state :=
    let lex0 := map (fun _ => lx_default) (seq 0 (nv g)) in
    let lex1 := set_nth lex0 s {| l_dist := w0; l_cnt := 0; l_set := [s] |} in
    {| lx_lex := lex1;
       lx_dist := map (fun _ => None) (seq 0 (nv g));
       lx_pred := map (fun _ => None) (seq 0 (nv g));
       lx_heap := heap_push label lx_ltb (lx_key lex1) [] s |}.

  (* lex_dijkstra(g, weight_map, s, dist_map, pred_map); every vertex is pushed at most once *)
  Definition lex_dijkstra (g : graph) (wts : list W) (s : nat) : lx_result lx_state :=
    if negb (Nat.ltb s (nv g)) then LxRange
    else lx_loop (S (nv g)) g wts s (lx_init g s).

  (* ---- SPTree ------------------------------------------------------------------------ *)

  (* SPNode: weight, pred edge (has_pred), children (vertices, in push_back order) *)
  Record sp_node := { sn_weight : W; sn_pred : option nat; sn_children : list nat }.

  (* SPTree: _source, _tree_node_map (None = nullptr), _first_in_path *)
  Record sp_tree := { st_src : nat; st_nodes : list (option sp_node); st_first : list nat }.

  (* "create tree nodes and mapping" *)
  Fixpoint lx_mk_nodes (s : nat) (dist : list (option W)) (pred : list (option nat)) (vs : list nat)
    : lx_result (list (option sp_node)) :=
    match vs with
    | [] => LxOk []
    | v :: vs' =>
        match lx_mk_nodes s dist pred vs' with
        | LxOk r =>
            if Nat.eqb v s then
              LxOk (Some {| sn_weight := w0; sn_pred := None; sn_children := [] |} :: r)
            else
              match nth v pred None with
              | Some e =>
                  match nth v dist None with
                  | Some d => LxOk (Some {| sn_weight := d; sn_pred := Some e; sn_children := [] |} :: r)
                  | None => LxNoNode
                  end
              | None => LxOk (None :: r)
              end
        | err => err
        end
    end.

  (* one iteration of "link tree nodes" *)
  Definition lx_link_step (g : graph) (pred : list (option nat))
             (r : lx_result (list (option sp_node))) (v : nat) : lx_result (list (option sp_node)) :=
    match r with
    | LxOk nodes =>
        match nth v pred None with
        | Some e =>
            match opposite g e v with
            | Some u =>
                match nth u nodes None with
                | Some nu =>
                    LxOk (set_nth nodes u (Some {| sn_weight := sn_weight nu; sn_pred := sn_pred nu;
                                                   sn_children := sn_children nu ++ [v] |}))
                | None => LxNoNode
                end
            | None => LxRange
            end
        | None => r
        end
    | _ => r
    end.

  Definition lx_children (nodes : list (option sp_node)) (v : nat) : option (list nat) :=
    match nth v nodes None with Some nd => Some (sn_children nd) | None => None end.

  (* compute_first_in_path: the stack holds (info, vertex of the node); children are pushed in order,
     so the last child is on top *)
  Fixpoint lx_first_loop (fuel : nat) (s : nat) (nodes : list (option sp_node))
           (stack : list (nat * nat)) (first : list nat) {struct fuel} : lx_result (list nat) :=
    match stack with
    | [] => LxOk first
    | (info, v) :: rest =>
        match fuel with
        | O => LxFuel
        | S fuel' =>
            match lx_children nodes v with
            | None => LxNoNode
            | Some cs =>
                if Nat.eqb v s then
                  lx_first_loop fuel' s nodes (rev (map (fun c => (c, c)) cs) ++ rest) (set_nth first v v)
                else
                  lx_first_loop fuel' s nodes (rev (map (fun c => (info, c)) cs) ++ rest) (set_nth first v info)
            end
        end
    end.

  (* SPTree::SPTree -> initialize() *)
  Definition sptree (g : graph) (wts : list W) (s : nat) : lx_result sp_tree :=
    match lex_dijkstra g wts s with
    | LxOk st =>
        match lx_mk_nodes s (lx_dist st) (lx_pred st) (seq 0 (nv g)) with
        | LxOk nodes0 =>
            match fold_left (lx_link_step g (lx_pred st)) (seq 0 (nv g)) (LxOk nodes0) with
            | LxOk nodes =>
                match lx_first_loop (S (nv g)) s nodes [(s, s)] (map (fun _ => 0) (seq 0 (nv g))) with
                | LxOk first => LxOk {| st_src := s; st_nodes := nodes; st_first := first |}
                | LxFuel => LxFuel | LxRange => LxRange | LxNotInHeap => LxNotInHeap | LxNoNode => LxNoNode
                end
            | LxFuel => LxFuel | LxRange => LxRange | LxNotInHeap => LxNotInHeap | LxNoNode => LxNoNode
            end
        | LxFuel => LxFuel | LxRange => LxRange | LxNotInHeap => LxNotInHeap | LxNoNode => LxNoNode
        end
    | LxFuel => LxFuel | LxRange => LxRange | LxNotInHeap => LxNotInHeap | LxNoNode => LxNoNode
    end.

  (* SPTree::node(v), SPTree::first(v); first of a vertex without node is the value-initialised 0 *)
  Definition sp_node_of (t : sp_tree) (v : nat) : option sp_node := nth v (st_nodes t) None.
  Definition sp_first (t : sp_tree) (v : nat) : nat := nth v (st_first t) 0.

  (* boost::opposite(node(v)->pred(), v): the parent vertex (not stored; recomputed wherever needed) *)
  Definition sp_parent (g : graph) (t : sp_tree) (v : nat) : option nat :=
    match sp_node_of t v with
    | Some nd => match sn_pred nd with Some e => opposite g e v | None => None end
    | None => None
    end.

  (* the trees of all sources, as HortonCyclesBuilder / ISOCyclesBuilder build them (tree i = source i) *)
  Fixpoint lx_all (g : graph) (wts : list W) (ss : list nat) : lx_result (list sp_tree) :=
    match ss with
    | [] => LxOk []
    | s :: ss' =>
        match sptree g wts s with
        | LxOk t =>
            match lx_all g wts ss' with
            | LxOk ts => LxOk (t :: ts)
            | err => err
            end
        | LxFuel => LxFuel | LxRange => LxRange | LxNotInHeap => LxNotInHeap | LxNoNode => LxNoNode
        end
    end.
  Definition sptrees_all (g : graph) (wts : list W) : lx_result (list sp_tree) := lx_all g wts (seq 0 (nv g)).
End LexSP.

Arguments l_dist {W}.  Arguments l_cnt {W}.  Arguments l_set {W}.
Arguments lx_lex {W}.  Arguments lx_dist {W}.  Arguments lx_pred {W}.  Arguments lx_heap {W}.
Arguments sn_weight {W}.  Arguments sn_pred {W}.  Arguments sn_children {W}.
Arguments st_src {W}.  Arguments st_nodes {W}.  Arguments st_first {W}.

(* the exact-domain instance *)
Definition sptree_Z := sptree Z 0%Z Z.add Z.ltb.
Definition sptrees_all_Z := sptrees_all Z 0%Z Z.add Z.ltb.
