(* MpiTreesProofs5.v — the TBB flavour of the MPI tree variants with the exact TBB lookup of ParTreesModel.v inside every rank
   (MpiTreesTbbModel.v): by ParTreesProofs3.ps_lookup_ok (= C03_trees_lookup_accepted_bits: every schedule, every arrangement) the
   local answer of every rank in every phase is a local minimum in the sense of MpiTreesProofs2.mv_local_min, so
   MpiTreesProofs3.mw_entry_gen applies: premise-free result for mcb_sva_{fvs,iso}_trees_tbb_mpi under every family of bit streams,
   valid sort arrangements, reduction trees and every P >= 1.  Prefix my_. *)
From Coq Require Import List Arith Bool Lia ZArith Permutation.
From Parmcb Require Import GraphModel GraphSpec GF2Model McbSpec ForestModel SvaModel SvaSpec LexSPModel FvsModel
     CandidatesModel CandidatesProofsZ TreesModel TreesProofs3 TreesProofs5 IsoProofsF2
     SchedModel ParTreesModel ParTreesProofs3
     MpiModel MpiProofs1 MpiProofs4 MpiTreesModel MpiTreesProofs1 MpiTreesProofs2 MpiTreesProofs3 MpiTreesTbbModel.
Import ListNotations.

Section Entry.
  Variables (b : tbuilder) (g : graph) (wts : list Z) (roots picks : list nat) (wmax : Z).
  Hypothesis Hsg : simple_graph g.
  Hypothesis Hpos : positive_weights g wts.
  Hypothesis Hr : forall v, v < nv g -> In v roots.
  Variables (trees0 : list (sp_tree Z)) (cands0 : list (cand Z)).
  Hypothesis Hcol : tb_collection Z 0%Z Z.add Z.ltb b g wts picks = CdOk (trees0, cands0).
  Variable P : nat.
  Variable rtree_of : nat -> rtree.
  Hypothesis HP : 1 <= P.
  Hypothesis Htree : forall k, rtree_ok P (rtree_of k).

  Theorem my_entry_tbb (arr : nat -> list nat) (bits : nat -> nat -> list bool) :
    (forall r ts L, r < P -> mt_rank_cands_Z b g wts roots picks P r = Some (ts, L) -> mt_arr_okb Z Z.ltb L (arr r) = true) ->
    exists fi cycles total sup rest,
      create_index g roots = Some fi
      /\ mcb_sva_trees_tbb_mpi_Z wmax b g wts roots picks P arr bits rtree_of
         = MtRun Z (Done (RankOut cycles total sup None :: rest))
      /\ length rest = P - 1 /\ Forall (silent 0%Z fi) rest
      /\ min_cycle_basis g wts cycles /\ total = total_weight wts cycles
      /\ has_cycle_space_dimension g (length cycles).
  Proof.
    intros Harr.
    apply (mw_entry_gen b g wts roots picks Hsg Hpos Hr trees0 cands0 Hcol P rtree_of HP Htree).
    intros fi ser r k Sv ts L Hci Hser HrP HS Hl.
    destruct (mw_builder_facts b g wts picks trees0 cands0 Hsg Hpos Hcol) as (Hcol0 & Hcands0 & _).
    pose proof (mw_ser_all g wts roots fi Hsg Hr Hci trees0 cands0 Hcands0) as Hser'.
    rewrite Hser in Hser'. injection Hser' as ->.
    pose proof (Harr r ts L HrP (mw_rank_cands b g wts roots picks trees0 cands0 Hcol P fi _ r ts L Hci Hser Hl)) as Hok.
    unfold mt_arr_okb in Hok. destruct (mt_sort Z Z.ltb L (arr r)) as [sorted| | |] eqn:Es; try discriminate.
    destruct (mv_sort_spec L (arr r) sorted Es) as [Hperm _].
    pose proof Hl as Hl'. rewrite mw_chunk in Hl'.
    pose proof (mv_local_ok g wts roots fi Hsg Hr Hci trees0 cands0 Hcol0 Hcands0
                  (slice P r cands0) (mw_slice_incl cands0 P r) ts L Hl') as Hlok.
    set (sg := indices_to_edges fi Sv).
    destruct (ps_lookup_ok g wts ts L sorted sg wmax Hsg Hpos Hlok Hperm (bits r k) 0 (pt_pars_init Z g ts))
      as (res & pars & l & pos' & Elk & _ & _ & Hans & Hnf & Hf).
    { unfold pt_pars_init. apply map_length. }
    exists (if c3_found Z res then Some (c3_set Z res, c3_weight Z res) else None). split.
    - unfold mt_rank_lookup_tbb. unfold mt_local_Z in Hl. rewrite Hl, Es. fold sg.
      unfold pt_lookup_Z in Elk. rewrite Elk. reflexivity.
    - destruct (c3_found Z res) eqn:Ef.
      + specialize (Hf eq_refl).
        destruct (tf_phase_ok_spec g wts ts L sg _ _ Hsg Hpos Hlok Hf) as (_ & Ho & Hw & (cd & t & Hcd & Ht & HC) & Hmin).
        cbn [mv_local_min]. split.
        * exists cd, t. auto.
        * intros d t' C' Hd Ht' HC' Ho'. rewrite Hw. apply (Hmin d t' C' Hd Ht' HC' Ho').
      + destruct (Hnf eq_refl) as [_ Hnone].
        apply (mv_tbb_lookup g wts roots fi Hsg Hr Hci trees0 cands0 Hcol0 Hcands0
                 (slice P r cands0) (mw_slice_incl cands0 P r) ts L Hl').
        exists l. split; [exact Hans|]. cbn [mt_min_accept]. apply forallb_forall. intros x Hx.
        rewrite (Hnone x Hx). reflexivity.
  Qed.
End Entry.

Theorem my_fvs_trees_tbb_mpi g wts roots picks fvs wmax P arr bits rtree_of :
  simple_graph g -> positive_weights g wts -> (forall v, v < nv g -> In v roots) ->
  greedy_fvs g picks = FvsOk fvs ->
  1 <= P -> (forall k, rtree_ok P (rtree_of k)) ->
  (forall r ts L, r < P -> mt_rank_cands_Z TbFvs g wts roots picks P r = Some (ts, L) -> mt_arr_okb Z Z.ltb L (arr r) = true) ->
  exists fi cycles total sup rest,
    create_index g roots = Some fi
    /\ mcb_sva_trees_tbb_mpi_Z wmax TbFvs g wts roots picks P arr bits rtree_of
       = MtRun Z (Done (RankOut cycles total sup None :: rest))
    /\ length rest = P - 1 /\ Forall (silent 0%Z fi) rest
    /\ min_cycle_basis g wts cycles /\ total = total_weight wts cycles
    /\ has_cycle_space_dimension g (length cycles).
Proof.
  intros Hsg Hpos Hr Hf HP Htree Harr.
  destruct (proj2 (cz_C14_total g wts Hsg Hpos) picks fvs Hf) as (trees & cands & Hc).
  exact (my_entry_tbb TbFvs g wts roots picks wmax Hsg Hpos Hr trees cands Hc P rtree_of HP Htree arr bits Harr).
Qed.

Theorem my_iso_trees_tbb_mpi g wts roots picks wmax P arr bits rtree_of :
  simple_graph g -> positive_weights g wts -> (forall v, v < nv g -> In v roots) ->
  1 <= P -> (forall k, rtree_ok P (rtree_of k)) ->
  (forall r ts L, r < P -> mt_rank_cands_Z TbIso g wts roots picks P r = Some (ts, L) -> mt_arr_okb Z Z.ltb L (arr r) = true) ->
  exists fi cycles total sup rest,
    create_index g roots = Some fi
    /\ mcb_sva_trees_tbb_mpi_Z wmax TbIso g wts roots picks P arr bits rtree_of
       = MtRun Z (Done (RankOut cycles total sup None :: rest))
    /\ length rest = P - 1 /\ Forall (silent 0%Z fi) rest
    /\ min_cycle_basis g wts cycles /\ total = total_weight wts cycles
    /\ has_cycle_space_dimension g (length cycles).
Proof.
  intros Hsg Hpos Hr HP Htree Harr.
  destruct (iso_total g wts Hsg Hpos) as (trees & cands & Hc).
  exact (my_entry_tbb TbIso g wts roots picks wmax Hsg Hpos Hr trees cands Hc P rtree_of HP Htree arr bits Harr).
Qed.
