(* Properties_C03_approx.v — C03 for the TBB-parallel APPROXIMATE entry points
     include/parmcb/parmcb_approx_sva_signed_tbb.hpp   approx_mcb_sva_signed_tbb
     include/parmcb/parmcb_approx_sva_trees_tbb.hpp    approx_mcb_sva_fvs_trees_tbb, approx_mcb_sva_iso_trees_tbb
     include/parmcb/detail/approx_spanner.hpp          NonSpannerEdgesCycleBuilder<.., .., true>
   Model: ApproxParModel.v — the TBB dropped-edge builder EXACTLY: tbb::parallel_for over the dropped edges under a
   schedule tree (partition + execution order as SchedModel.v), per edge the same statements as the sequential builder
   (ApproxModel.dropped_cycle: plain dijkstra on the spanner, predecessor walk, caller's weights), TWO separate
   concurrent_vector::push_back calls (`cycles`, `cycles_weights`) whose insertion orders are independent oracles
   perm_c / perm_w, tbb::parallel_reduce over cycles_weights (identity 0, body = left-to-right accumulate, join = +) under
   a second schedule tree, std::copy of `cycles` to the output.  approx_run_tbb = constructor + exact phase + translation
   + this builder, with the schedule stream position threaded through in program order.
   Only statements; each closed by [exact <lemma>] and followed by Print Assumptions.

     C03_approx_reduce_any_schedule   for EVERY schedule tree covering the container (arbitrary split points, Seq = same
                            body continues, Fork = split body from the identity joined afterwards, any right-first bits)
                            the reduction returns the plain sum of cycles_weights — never the range error.
     C03_approx_tbb_same_as_seq       for EVERY schedule tree of the parallel_for, EVERY pair of insertion orders of the two
                            containers (equal or not) and EVERY schedule tree of the reduction: if the sequential builder
                            returns (dcs, dw), the TBB builder emits a PERMUTATION of dcs (same multiset of cycles),
                            cycles_weights is a permutation of the weights of dcs, and — over Z, the exact domain — the
                            returned total is dw.
     C03_approx_run_tbb_refines_seq   the whole run, for every bit stream, insertion orders and exact phase: against
                            ApproxModel.approx_run with the SAME exact phase and the sequential builder — same outcome
                            class (Ok / throw / model error; TbbAt and TbbRange are never produced); on Ok the same
                            translated spanner cycles in the same order, then a permutation of the sequential dropped-edge
                            cycles, and the same returned value.
     C03_cycle_basis_order_independent   a permutation of a cycle basis is a cycle basis (so C05's basis statement,
                            proved for the sequential order in ApproxProofsBasis.v, holds for every emission order).
     C03_approx_tbb_modulo_exact      ANY exact phase that answers (under the run's stream) with a minimum cycle basis of
                            the spanner, its weight and the right count: the TBB run returns ApproxOk with m - n + c
                            duplicate-free lists of the CALLER's edge ids forming a cycle basis of the caller's graph,
                            returned value = their total weight under the caller's weights, minimum for k = 1, and for a
                            weight-sorted scan order <= (2k-1) * w(B') for every cycle basis B', opt <= it <= (2k-1) opt.
                            Instantiated premise-free for approx_mcb_sva_fvs_trees_tbb / approx_mcb_sva_iso_trees_tbb in
                            Properties_C03_approx_trees.v (exact phase = ParTreesModel.mcb_sva_trees_tbb_Z on the spanner,
                            discharged by Properties_C03_trees.C03_fvs_trees_tbb / C03_iso_trees_tbb).
     C03_approx_signed_tbb            PREMISE-FREE, approx_mcb_sva_signed_tbb (which instantiates the TBB exact variant
                            mcb_sva_signed_tbb on the spanner: discharged by Properties_C03.C03_signed_tbb): every simple
                            graph with positive integer weights, k >= 1, scan order, oracles of the spanner, bit stream,
                            insertion order of the exact phase's supports and pair of insertion orders of the builder.
     C03_approx_signed_tbb_vs_sequential   against the SEQUENTIAL entry point approx_mcb_sva_signed (whatever the
                            oracles of the two exact phases): same returned value, same number of spanner cycles, the
                            dropped-edge cycles a permutation of each other.
   NOT proved here: memory accesses of the compiled code (C03's race clause: runtime evidence only). *)
From Coq Require Import List Arith Bool ZArith Permutation Sorted Lia.
From Parmcb Require Import GraphModel GF2Model GraphSpec McbSpec OptSpec SpannerModel SvaModel SignedZModel SchedModel
  ParSignedModel ApproxModel ApproxParModel ApproxTreesProofs1 ApproxParProofs1 ApproxParProofs2.
Import ListNotations.

Theorem C03_approx_reduce_any_schedule :
  forall (ws : list Z) (t2 : sched), size t2 = length ws -> tbb_sum t2 ws = Some (fold_right Z.add 0%Z ws).
Proof. exact pa_sum_any_schedule. Qed.
Print Assumptions C03_approx_reduce_any_schedule.

Theorem C03_approx_tbb_same_as_seq :
  forall g w sp (t1 t2 : sched) (perm_c perm_w : list nat) dcs dw,
    size t1 = length (dropped sp) -> size t2 = length (dropped sp) ->
    dropped_cycles g w sp (dropped sp) 0%Z = inr (dcs, dw) ->
    exists cycles' weights',
      tbb_fill g w sp (dropped sp) t1 perm_c perm_w = inr (cycles', weights')
      /\ Permutation dcs cycles'
      /\ Permutation (map (weight w) dcs) weights'
      /\ tbb_sum t2 weights' = Some dw.
Proof. exact pa_builder_same_as_seq. Qed.
Print Assumptions C03_approx_tbb_same_as_seq.

(* a failing sequential builder (model error values only; unreachable on valid inputs) fails in the TBB builder too *)
Theorem C03_approx_tbb_same_as_seq_bits :
  forall bits g w sp pos perm_c perm_w,
    (forall dcs dw, dropped_cycles g w sp (dropped sp) 0%Z = inr (dcs, dw) ->
       exists cycles' pos', tbb_builder bits g w sp pos perm_c perm_w = (inr (cycles', dw), pos') /\ Permutation dcs cycles') /\
    (forall err, dropped_cycles g w sp (dropped sp) 0%Z = inl err ->
       exists err' pos', tbb_builder bits g w sp pos perm_c perm_w = (inl (TbbSeq err'), pos')).
Proof. exact pa_builder_bits. Qed.
Print Assumptions C03_approx_tbb_same_as_seq_bits.

Theorem C03_approx_run_tbb_refines_seq :
  forall (exact : graph -> list Z -> sva_result Z * nat) (bits : list bool) g w k scan perm_c perm_w,
    (forall cycles total, approx_run (fun h wh => fst (exact h wh)) g w k scan = ApproxOk cycles total ->
       exists sp pre dcs dw dcs' pos,
         construct_spanner g k scan = SpOk sp /\ dropped_cycles g w sp (dropped sp) 0%Z = inr (dcs, dw)
         /\ approx_run_tbb exact bits g w k scan perm_c perm_w = (TbbRun (ApproxOk (pre ++ dcs') total), pos)
         /\ cycles = pre ++ dcs /\ Permutation dcs dcs') /\
    (approx_run (fun h wh => fst (exact h wh)) g w k scan = ApproxThrow ->
       approx_run_tbb exact bits g w k scan perm_c perm_w = (TbbRun ApproxThrow, 0)) /\
    (forall e, approx_run (fun h wh => fst (exact h wh)) g w k scan = ApproxError e ->
       exists e' pos, approx_run_tbb exact bits g w k scan perm_c perm_w = (TbbRun (ApproxError e'), pos)).
Proof. exact pa_run_tbb_vs_seq. Qed.
Print Assumptions C03_approx_run_tbb_refines_seq.

Theorem C03_cycle_basis_order_independent :
  forall g B B', Permutation B B' -> cycle_basis g B -> cycle_basis g B'.
Proof. exact pa_cycle_basis_perm. Qed.
Print Assumptions C03_cycle_basis_order_independent.

Theorem C03_approx_tbb_modulo_exact :
  forall (exact : graph -> list Z -> sva_result Z * nat) (bits : list bool) g w k scan perm_c perm_w,
    simple_graph g -> positive_weights g w -> 1 <= k -> Permutation scan (seq 0 (ne g)) ->
    (forall sp, construct_spanner g k scan = SpOk sp ->
       exists cs t sup, fst (exact (sp_graph sp) (spanner_weights w sp)) = SvaOk cs t sup
         /\ min_cycle_basis (sp_graph sp) (spanner_weights w sp) cs
         /\ t = total_weight (spanner_weights w sp) cs
         /\ has_cycle_space_dimension (sp_graph sp) (length cs)) ->
    exists cycles total pos,
      approx_run_tbb exact bits g w k scan perm_c perm_w = (TbbRun (ApproxOk cycles total), pos)
      /\ cycle_basis g (map set_of_list cycles) /\ has_cycle_space_dimension g (length cycles)
      /\ Forall (fun c => NoDup c /\ forall e, In e c -> e < ne g) cycles
      /\ total = total_weight w cycles
      /\ (k = 1 -> min_cycle_basis g w (map set_of_list cycles))
      /\ (Sorted (fun a b => (wt w a <= wt w b)%Z) scan ->
            (forall B', cycle_basis g B' -> (total <= Z.of_nat (2 * k - 1) * total_weight w B')%Z)
            /\ (forall x, is_opt g w x -> (x <= total <= Z.of_nat (2 * k - 1) * x)%Z)).
Proof. exact pa_tbb_generic_full. Qed.
Print Assumptions C03_approx_tbb_modulo_exact.

Theorem C03_approx_signed_tbb :
  forall g w k scan roots eord (bits : list bool) (perm1 perm_c perm_w : list nat),
    simple_graph g -> positive_weights g w -> 1 <= k -> Permutation scan (seq 0 (ne g)) ->
    (forall v, v < nv g -> In v roots) ->
    exists cycles total pos,
      approx_sva_signed_tbb_Z g w k scan roots eord bits perm1 perm_c perm_w = (TbbRun (ApproxOk cycles total), pos)
      /\ cycle_basis g (map set_of_list cycles) /\ has_cycle_space_dimension g (length cycles)
      /\ Forall (fun c => NoDup c /\ forall e, In e c -> e < ne g) cycles
      /\ total = total_weight w cycles
      /\ (k = 1 -> min_cycle_basis g w (map set_of_list cycles))
      /\ (Sorted (fun a b => (wt w a <= wt w b)%Z) scan ->
            (forall B', cycle_basis g B' -> (total <= Z.of_nat (2 * k - 1) * total_weight w B')%Z)
            /\ (forall x, is_opt g w x -> (x <= total <= Z.of_nat (2 * k - 1) * x)%Z)).
Proof. exact pa_signed_tbb_full. Qed.
Print Assumptions C03_approx_signed_tbb.

Theorem C03_approx_signed_tbb_vs_sequential :
  forall g w k scan roots eord roots' eord' (bits : list bool) (perm1 perm_c perm_w : list nat),
    simple_graph g -> positive_weights g w -> 1 <= k -> Permutation scan (seq 0 (ne g)) ->
    (forall v, v < nv g -> In v roots) -> (forall v, v < nv g -> In v roots') ->
    exists tcs tcs' dcs dcs' total pos,
      approx_sva_signed_Z g w k scan roots' eord' = ApproxOk (tcs ++ dcs) total
      /\ approx_sva_signed_tbb_Z g w k scan roots eord bits perm1 perm_c perm_w
         = (TbbRun (ApproxOk (tcs' ++ dcs') total), pos)
      /\ length tcs = length tcs' /\ Permutation dcs dcs'.
Proof. exact pa_signed_tbb_vs_seq. Qed.
Print Assumptions C03_approx_signed_tbb_vs_sequential.

(* non-vacuity: the graph of Properties_C05.C05_nonvacuous (K4 + pendant edge + 5-cycle), k = 2, three dropped edges,
   the all-ones stream (every range split, every split a Fork, right parts first): the parallel_for visits the dropped
   edges in the order 2, 1, 0; the insertion orders [2;0;1] of `cycles` and [1;2;0] of `cycles_weights` DIFFER; the
   reduction runs over two Forks.  The run emits the translated 5-cycle followed by the three triangles in the order
   0, 2, 1 of the sequential builder, returns 24 as the sequential entry point does, and consumes 12 schedule bits. *)
Example C03_approx_signed_tbb_nonvacuous :
  let g := {| nv := 9; ge := [(0,1); (0,2); (0,3); (1,2); (1,3); (2,3); (3,4);
                               (4,5); (5,6); (6,7); (7,8); (8,4)] |} in
  let w := [1; 1; 2; 2; 2; 3; 1; 1; 1; 1; 1; 5]%Z in
  let scan := [6; 0; 1; 10; 7; 8; 9; 3; 2; 4; 5; 11] in
  let roots := [4; 0; 1; 2; 3; 5; 6; 7; 8] in
  let eord := [3; 1; 0; 2; 8; 7; 6; 5; 4] in
  simple_graph g /\ positive_weights g w /\ Permutation scan (seq 0 (ne g))
  /\ (forall v, v < nv g -> In v roots)
  /\ forks (fst (sched_of_bits [true] 0 3)) = 2
  /\ approx_sva_signed_tbb_Z g w 2 scan roots eord [true] [] [2;0;1] [1;2;0]
     = (TbbRun (ApproxOk [[10; 7; 8; 9; 11]; [1; 0; 3]; [2; 1; 5]; [2; 0; 4]] 24%Z), 12)
  /\ approx_sva_signed_Z g w 2 scan roots eord
     = ApproxOk [[10; 7; 8; 9; 11]; [1; 0; 3]; [2; 0; 4]; [2; 1; 5]] 24%Z.
Proof.
  cbv zeta. split; [vm_compute; reflexivity|]. split; [split; [reflexivity|repeat constructor]|].
  split; [apply SpannerProofs.scan_perm_check; vm_compute; reflexivity|].
  split; [intros v Hv; do 9 (destruct v as [|v]; [cbn [In]; tauto|]); exfalso; cbn [nv] in Hv; lia|].
  repeat split; vm_compute; reflexivity.
Qed.
