(* BidirProofsA1.v — Track A of the optimality proof of the signed search, part 1 (prefix ba_):
     0. bridges between walks of the cover graph (BidirSpec.cwalk) and walks of the graph:
        projection (ba_cwalk_proj) and lifting (ba_lift, ba_lift_id);
     1. graph theory on top of RefProofs1: the STRICT shortcut lemma (an odd closed walk that repeats a
        vertex is strictly heavier than some odd simple cycle), and its corollaries for a minimum odd
        simple cycle C0 of weight mu: every odd closed walk weighs >= mu, and one of weight <= mu is
        vertex-simple (ba_min_walk, ba_min_walk_simple);
     2. the invariant GoodBest of the running best of a phase, the generic update lemma for `better`
        (ba_better_update), and the facts about one search whose answers close to odd closed walks
        (section SearchStar);
     3. sort_eord keeps every element (ba_sort_eord_In).
   Nothing here depends on bidir_spec_stmt.  No axioms. *)
From Coq Require Import List Arith Bool ZArith Lia Sorted Permutation.
From Parmcb Require Import GraphModel GF2Model GF2Proofs GraphSpec GraphLemmas McbSpec ForestModel HeapModel
     SvaModel SvaSpec SignedModel SignedZModel SignedProofs RefModel RefProofs1 RefProofs3 BidirSpec.
Import ListNotations.

(* ---- 0. signed vertex numbering ------------------------------------------------------------------ *)

Lemma ba_vertex_of_lt n x : x < 2 * n -> vertex_of n x < n.
Proof. intros H. unfold vertex_of. destruct (Nat.ltb_spec x n); lia. Qed.

Lemma ba_signed_id_eta n x : x < 2 * n -> signed_id n (vertex_of n x) (sign_of n x) = x.
Proof. intros H. unfold signed_id, vertex_of, sign_of. destruct (Nat.ltb_spec x n); lia. Qed.

Lemma ba_signed_id_lt n v b : v < n -> signed_id n v b < 2 * n.
Proof. intros H. unfold signed_id. destruct b; lia. Qed.

(* ---- 0a. projection of a cover walk ---------------------------------------------------------------- *)

Definition ba_proj (n : nat) (p : list (nat * nat)) : list (nat * nat) :=
  map (fun ey => (fst ey, vertex_of n (snd ey))) p.

Lemma ba_proj_wedges n p : wedges (ba_proj n p) = wedges p.
Proof. unfold wedges, ba_proj. rewrite map_map. apply map_ext. intros [e y]. reflexivity. Qed.

Lemma ba_cwalk_proj P x p y : cwalk P x p y ->
  walk (sp_g Z P) (vertex_of (nv (sp_g Z P)) x) (ba_proj (nv (sp_g Z P)) p) (vertex_of (nv (sp_g Z P)) y)
  /\ par (sp_signed Z P) (wedges p) = xorb (sign_of (nv (sp_g Z P)) x) (sign_of (nv (sp_g Z P)) y)
  /\ (sp_use_hidden Z P = true -> forall e, In e (wedges p) -> memb e (sp_hidden Z P) = false).
Proof.
  induction 1 as [x Hx|x e y p z (Hx & Hy & Hj & Hsg & Hh) Hw (IH1 & IH2 & IH3)].
  - split; [constructor; apply ba_vertex_of_lt; exact Hx|]. split.
    + cbn [wedges map]. rewrite par_nil, xorb_nilpotent. reflexivity.
    + intros _ e [].
  - split; [|split].
    + cbn [ba_proj map fst snd]. econstructor; [exact Hj|exact IH1].
    + cbn [wedges map fst]. fold (wedges p). rewrite par_cons, IH2, Hsg.
      destruct (sign_of (nv (sp_g Z P)) x), (memb e (sp_signed Z P)), (sign_of (nv (sp_g Z P)) z); reflexivity.
    + intros Hu a [<-|Ha]; [apply Hh; exact Hu|apply IH3; assumption].
Qed.

(* ---- 0b. lifting a graph walk --------------------------------------------------------------------- *)

Lemma ba_lift P : simple_graph (sp_g Z P) -> forall a q b, walk (sp_g Z P) a q b ->
  (sp_use_hidden Z P = true -> forall e, In e (wedges q) -> memb e (sp_hidden Z P) = false) ->
  forall x, x < 2 * nv (sp_g Z P) -> vertex_of (nv (sp_g Z P)) x = a ->
  exists p y, cwalk P x p y /\ wedges p = wedges q /\ vertex_of (nv (sp_g Z P)) y = b
    /\ sign_of (nv (sp_g Z P)) y = xorb (sign_of (nv (sp_g Z P)) x) (par (sp_signed Z P) (wedges q))
    /\ y < 2 * nv (sp_g Z P).
Proof.
  intros Hs. induction 1 as [a Ha|a e y' q b Hj Hw IH]; intros Hh x Hx Hvx.
  - exists [], x. split; [constructor; exact Hx|]. split; [reflexivity|]. split; [exact Hvx|].
    split; [|exact Hx]. cbn [wedges map]. rewrite par_nil, xorb_false_r. reflexivity.
  - destruct (gl_simple_joins _ _ _ _ Hs Hj) as (_ & Hy' & _).
    set (n := nv (sp_g Z P)) in *.
    set (x' := signed_id n y' (xorb (sign_of n x) (memb e (sp_signed Z P)))).
    assert (Hx' : x' < 2 * n) by (apply ba_signed_id_lt; exact Hy').
    assert (Hvx' : vertex_of n x' = y') by (apply sg_vertex_of_signed_id; exact Hy').
    assert (Hsx' : sign_of n x' = xorb (sign_of n x) (memb e (sp_signed Z P)))
      by (apply sg_sign_of_signed_id; exact Hy').
    destruct (IH (fun Hu a' Ha' => Hh Hu a' (or_intror Ha')) x' Hx' Hvx') as (p & y & Hc & Ew & Hvy & Hsy & Hy).
    exists ((e, x') :: p), y. split.
    { econstructor; [|exact Hc]. split; [exact Hx|]. split; [exact Hx'|].
      split; [fold n; rewrite Hvx, Hvx'; exact Hj|]. split; [exact Hsx'|].
      intros Hu. apply Hh; [exact Hu|left; reflexivity]. }
    split; [cbn [wedges map fst]; f_equal; exact Ew|]. split; [exact Hvy|]. split; [|exact Hy].
    rewrite Hsy, Hsx'. cbn [wedges map fst]. fold (wedges q). rewrite par_cons. apply xorb_assoc.
Qed.

(* the lifted walk ends exactly at the signed vertex (b, sb xor parity) *)
Lemma ba_lift_id P : simple_graph (sp_g Z P) -> forall a q b sb, walk (sp_g Z P) a q b ->
  (sp_use_hidden Z P = true -> forall e, In e (wedges q) -> memb e (sp_hidden Z P) = false) ->
  exists p, cwalk P (signed_id (nv (sp_g Z P)) a sb) p
                  (signed_id (nv (sp_g Z P)) b (xorb sb (par (sp_signed Z P) (wedges q))))
            /\ wedges p = wedges q.
Proof.
  intros Hs a q b sb Hw Hh.
  pose proof (gl_walk_start_lt _ _ _ _ Hs Hw) as Ha.
  destruct (ba_lift P Hs a q b Hw Hh (signed_id (nv (sp_g Z P)) a sb)) as (p & y & Hc & Ew & Hvy & Hsy & Hy).
  - apply ba_signed_id_lt; exact Ha.
  - apply sg_vertex_of_signed_id; exact Ha.
  - exists p. split; [|exact Ew].
    rewrite sg_sign_of_signed_id in Hsy by exact Ha.
    rewrite <- Hvy, <- Hsy, ba_signed_id_eta by exact Hy. exact Hc.
Qed.

(* ---- 1. graph theory ------------------------------------------------------------------------------ *)

Lemma ba_par_oddb sg l : par sg l = oddb sg l.
Proof. unfold par, oddb. apply RefProofs3.rf_xsum_odd. Qed.

Lemma ba_NoDup_app_l {A} (a b : list A) : NoDup (a ++ b) -> NoDup a.
Proof.
  induction a as [|x a IH]; intros H; [constructor|].
  cbn [app] in H. inversion H as [|? ? Hx H']; subst. constructor; [|apply IH; exact H'].
  intros Hin. apply Hx. apply in_or_app. left; exact Hin.
Qed.

Lemma ba_wt_pos g wts e : positive_weights g wts -> e < ne g -> (0 < wt wts e)%Z.
Proof.
  intros [Hl Hp] He. unfold wt. rewrite Forall_forall in Hp. apply Hp, nth_In. lia.
Qed.

Lemma ba_weight_pos g wts l : positive_weights g wts -> (forall e, In e l -> e < ne g) -> l <> [] ->
  (0 < weight wts l)%Z.
Proof.
  intros Hpw Hl Hne. destruct l as [|e l]; [congruence|].
  rewrite rf_weight_cons. pose proof (ba_wt_pos g wts e Hpw (Hl e (or_introl eq_refl))).
  pose proof (rf_weight_nonneg g wts l Hpw). lia.
Qed.

(* the STRICT shortcut lemma: an odd closed walk that repeats a vertex is strictly heavier than some odd
   simple cycle *)
Lemma ba_strict_shortcut g wts sg : simple_graph g -> positive_weights g wts ->
  forall p x pre ev a b, walk g x p x -> oddb sg (wedges p) = true -> find_dup p = Some (pre, ev, a, b) ->
  exists D, simple_cycle g D /\ oddb sg D = true /\ (weight wts D < weight wts (wedges p))%Z.
Proof.
  intros Hs Hpw p x pre ev a b Hw Hodd F.
  destruct (rf_find_dup_some p pre ev a b F) as (Hp & a' & e2 & Ha).
  destruct ev as [e v]. cbn [snd] in Ha.
  assert (Hp' : p = (pre ++ [(e, v)]) ++ a ++ b) by (rewrite Hp, <- app_assoc; reflexivity).
  pose proof Hw as Hw0. rewrite Hp' in Hw.
  destruct (rf_walk_app_inv g Hs _ _ _ _ Hw) as (y1 & Hw1 & Hw2).
  assert (y1 = v) by (eapply rf_walk_last; exact Hw1). subst y1.
  destruct (rf_walk_app_inv g Hs _ _ _ _ Hw2) as (y2 & Hwa & Hwb).
  assert (y2 = v) by (rewrite Ha in Hwa; eapply rf_walk_last; exact Hwa). subst y2.
  assert (Hwo : walk g x (pre ++ (e, v) :: b) x).
  { change (pre ++ (e, v) :: b) with (pre ++ [(e, v)] ++ b). rewrite app_assoc.
    eapply gl_walk_app; eauto. }
  assert (Hodd2 : xorb (oddb sg (wedges a)) (oddb sg (wedges (pre ++ (e, v) :: b))) = true).
  { rewrite <- Hodd, Hp. rewrite !rf_wedges_app. cbn [wedges map fst]. fold (wedges a). fold (wedges b).
    rewrite !rf_wedges_app. rewrite !rf_oddb_app, !rf_oddb_cons, !rf_oddb_app.
    destruct (oddb sg (wedges a)), (oddb sg (wedges pre)), (memb e sg), (oddb sg (wedges b)); reflexivity. }
  assert (Hwt : weight wts (wedges p) =
                (weight wts (wedges a) + weight wts (wedges (pre ++ (e, v) :: b)))%Z).
  { rewrite Hp. rewrite !rf_wedges_app. cbn [wedges map fst]. fold (wedges a). fold (wedges b).
    rewrite !rf_wedges_app. rewrite !rf_weight_app, !rf_weight_cons, !rf_weight_app. lia. }
  assert (Hna : (0 < weight wts (wedges a))%Z).
  { apply (ba_weight_pos g); [exact Hpw|apply (gl_walk_edges_lt _ _ _ _ Hwa)|].
    rewrite Ha. unfold wedges. rewrite map_app. cbn [map]. intros E. apply app_eq_nil in E as [_ E]. discriminate. }
  assert (Hnb : (0 < weight wts (wedges (pre ++ (e, v) :: b)))%Z).
  { apply (ba_weight_pos g); [exact Hpw|apply (gl_walk_edges_lt _ _ _ _ Hwo)|].
    unfold wedges. rewrite map_app. cbn [map]. intros E. apply app_eq_nil in E as [_ E]. discriminate. }
  destruct (oddb sg (wedges a)) eqn:Eo.
  - destruct (rf_shortcut_simple_cycle g wts sg Hs Hpw a v Hwa Eo) as (p' & _ & H1 & H2 & H3).
    exists (set_of_list (wedges p')). split; [exact H1|]. split; [exact H2|]. lia.
  - rewrite xorb_false_l in Hodd2.
    destruct (rf_shortcut_simple_cycle g wts sg Hs Hpw _ x Hwo Hodd2) as (p' & _ & H1 & H2 & H3).
    exists (set_of_list (wedges p')). split; [exact H1|]. split; [exact H2|]. lia.
Qed.

(* ---- 2. a minimum odd simple cycle C0 of weight mu, and the invariant of the running best -------- *)

Section MinCycle.
  Variables (g : graph) (wts : list Z) (signed : list nat) (C0 : list nat).
  Hypothesis Hs : simple_graph g.
  Hypothesis Hpw : positive_weights g wts.
  Hypothesis Hmin : min_odd_cycle g wts (odd_par signed) C0.

  Definition ba_mu : Z := weight wts C0.

  (* every odd closed walk weighs at least mu *)
  Lemma ba_min_walk x q : walk g x q x -> par signed (wedges q) = true -> (ba_mu <= weight wts (wedges q))%Z.
  Proof.
    intros Hw Hodd. rewrite ba_par_oddb in Hodd.
    destruct (rf_shortcut_simple_cycle g wts signed Hs Hpw q x Hw Hodd) as (p' & _ & H1 & H2 & H3).
    destruct Hmin as (_ & _ & Hm). specialize (Hm _ H1). unfold odd_par in Hm. rewrite ba_par_oddb in Hm.
    specialize (Hm H2). unfold ba_mu. lia.
  Qed.

  (* … and one that weighs at most mu repeats no vertex, hence no edge *)
  Lemma ba_min_walk_simple x q : walk g x q x -> par signed (wedges q) = true ->
    (weight wts (wedges q) <= ba_mu)%Z -> NoDup (wverts q) /\ NoDup (wedges q).
  Proof.
    intros Hw Hodd Hle. pose proof Hodd as Hodd'. rewrite ba_par_oddb in Hodd.
    assert (Hnd : NoDup (wverts q)).
    { destruct (find_dup q) as [[[[pre ev] a] b]|] eqn:F; [|apply rf_find_dup_none; exact F].
      destruct (ba_strict_shortcut g wts signed Hs Hpw q x pre ev a b Hw Hodd F) as (D & H1 & H2 & H3).
      destruct Hmin as (_ & _ & Hm). specialize (Hm _ H1). unfold odd_par in Hm. rewrite ba_par_oddb in Hm.
      specialize (Hm H2). unfold ba_mu in Hle. lia. }
    split; [exact Hnd|]. eapply rf_simple_closed_nodup_edges; eassumption.
  Qed.

  (* the closed walk of C0 itself *)
  Lemma ba_C0_walk : exists x q, walk g x q x /\ NoDup (wedges q) /\ NoDup (wverts q)
    /\ (forall e, In e C0 <-> In e (wedges q)) /\ par signed (wedges q) = true
    /\ weight wts (wedges q) = ba_mu.
  Proof.
    destruct Hmin as ((Hne & Sc & x & q & Hw & Hnd & Hnv & HE) & Hodd & _).
    exists x, q. repeat (split; [assumption|]).
    assert (Hperm : Permutation C0 (wedges q))
      by (apply NoDup_Permutation; [apply gl_sorted_NoDup; exact Sc|exact Hnd|exact HE]).
    split; [rewrite <- (par_perm signed _ _ Hperm); exact Hodd|].
    unfold ba_mu. symmetry. apply rf_weight_perm. exact Hperm.
  Qed.

  (* the running best of a phase: an odd edge set, its weight, never below mu, a simple cycle once at mu *)
  Definition ba_good (bst : option (list nat * Z)) : Prop :=
    match bst with
    | None => True
    | Some (c, b) => par signed c = true /\ b = weight wts c /\ (ba_mu <= b)%Z
                     /\ (b = ba_mu -> simple_cycle g c)
    end.

  Definition ba_done (bst : option (list nat * Z)) : Prop := exists c, bst = Some (c, ba_mu).

  Lemma ba_closed_walk_good x q c : walk g x q x -> NoDup (wedges q) -> par signed (wedges q) = true ->
    sorted c -> (forall e, In e c <-> In e (wedges q)) -> ba_good (Some (c, weight wts c)).
  Proof.
    intros Hw Hnd Hodd Sc HE.
    assert (Hperm : Permutation c (wedges q))
      by (apply NoDup_Permutation; [apply gl_sorted_NoDup; exact Sc|exact Hnd|exact HE]).
    assert (Hpc : par signed c = true) by (rewrite (par_perm signed _ _ Hperm); exact Hodd).
    assert (Hwc : weight wts c = weight wts (wedges q)) by (apply rf_weight_perm; exact Hperm).
    split; [exact Hpc|]. split; [reflexivity|]. split; [rewrite Hwc; apply (ba_min_walk x); assumption|].
    intros Hmu. destruct (ba_min_walk_simple x q Hw Hodd) as [Hnv _]; [lia|].
    split; [intros ->; rewrite par_nil in Hpc; discriminate|]. split; [exact Sc|].
    exists x, q. auto.
  Qed.

  (* the update `if better w best then Some (c, w) else best` *)
  Lemma ba_better_update bst c w : ba_good bst -> ba_good (Some (c, w)) ->
    let bst' := if better Z Z.ltb w bst then Some (c, w) else bst in
    ba_good bst' /\ (ba_done bst -> ba_done bst') /\ (w = ba_mu -> ba_done bst').
  Proof.
    intros Hb Hc. cbn zeta. destruct bst as [[c' b]|]; cbn [better].
    - destruct Hb as (Hb1 & Hb2 & Hb3 & Hb4). destruct Hc as (Hc1 & Hc2 & Hc3 & Hc4).
      destruct (Z.ltb_spec w b) as [Hlt|Hge].
      + split; [exact (conj Hc1 (conj Hc2 (conj Hc3 Hc4)))|]. split.
        * intros (c'' & E). injection E as _ E. lia.
        * intros ->. exists c. reflexivity.
      + split; [exact (conj Hb1 (conj Hb2 (conj Hb3 Hb4)))|]. split; [auto|].
        intros ->. exists c'. f_equal. f_equal. lia.
    - split; [exact Hc|]. split; [intros (c'' & E); discriminate|]. intros ->. exists c. reflexivity.
  Qed.

  Lemma ba_good_final c w : ba_good (Some (c, w)) -> ba_done (Some (c, w)) ->
    min_odd_cycle g wts (odd_par signed) c /\ w = weight wts c.
  Proof.
    intros (H1 & H2 & H3 & H4) (c' & E). injection E as _ E.
    split; [|exact H2]. split; [apply H4; exact E|]. split; [exact H1|].
    intros D HD HoD. destruct Hmin as (_ & _ & Hm). specialize (Hm D HD HoD). unfold ba_mu in E. lia.
  Qed.

  (* ---- one search whose cover walks ss ~> st close, with the fixed edges cl, to odd closed walks ---- *)
  Section SearchStar.
    Variables (P : sparams Z) (ss st : nat) (cl : list nat) (bst : option (list nat * Z)).
    Hypothesis HPg : sp_g Z P = g.
    Hypothesis HPw : sp_wts Z P = wts.
    Hypothesis HPl : sp_limit Z P = limit_of Z bst.
    Hypothesis Hbst : ba_good bst.
    Hypothesis Hclose : forall p, cwalk P ss p st ->
      exists x q, walk g x q x /\ wedges q = wedges p ++ cl /\ par signed (wedges q) = true.
    Hypothesis Hcl : (0 <= weight wts cl)%Z.
    Variable pstar : list (nat * nat).
    Hypothesis Hstar : cwalk P ss pstar st.
    Hypothesis Hstarw : (clen P pstar + weight wts cl = ba_mu)%Z.

    Lemma ba_star_ge p : cwalk P ss p st -> (ba_mu <= clen P p + weight wts cl)%Z.
    Proof.
      intros Hc. destruct (Hclose p Hc) as (x & q & Hw & Ew & Hodd).
      pose proof (ba_min_walk x q Hw Hodd) as H. rewrite Ew, rf_weight_app in H.
      unfold clen. rewrite HPw. exact H.
    Qed.

    Lemma ba_star_shortest p : cshortest P ss p st -> (clen P p + weight wts cl = ba_mu)%Z.
    Proof.
      intros [Hc Hsh]. pose proof (ba_star_ge p Hc). specialize (Hsh pstar Hstar). lia.
    Qed.

    Lemma ba_star_nodup p : cshortest P ss p st -> NoDup (wedges p).
    Proof.
      intros Hsp. pose proof (ba_star_shortest p Hsp) as Hw. destruct Hsp as [Hc _].
      destruct (Hclose p Hc) as (x & q & Hwq & Ew & Hodd).
      destruct (ba_min_walk_simple x q Hwq Hodd) as [_ Hnd].
      - rewrite Ew, rf_weight_app. unfold clen in Hw. rewrite HPw in Hw. lia.
      - rewrite Ew in Hnd. apply ba_NoDup_app_l in Hnd. exact Hnd.
    Qed.

    Lemma ba_star_blim : ~ ba_done bst -> blim P (clen P pstar).
    Proof.
      intros Hnd. unfold blim, below_limit. rewrite HPl.
      destruct bst as [[c b]|]; cbn [limit_of]; [|reflexivity].
      destruct Hbst as (_ & _ & Hb3 & _). apply Z.ltb_lt.
      assert (b <> ba_mu) by (intros ->; apply Hnd; exists c; reflexivity). lia.
    Qed.

    (* NotFound is only possible when the optimum is already known *)
    Lemma ba_star_notfound :
      (forall p, cwalk P ss p st -> ~ blim P (clen P p))
      \/ (exists p, cshortest P ss p st /\ blim P (clen P p) /\ ~ NoDup (wedges p)) ->
      ba_done bst.
    Proof.
      intros H.
      assert (Hdec : ba_done bst \/ ~ ba_done bst).
      { destruct bst as [[c b]|]; [|right; intros (c' & E); discriminate].
        destruct (Z.eq_dec b ba_mu) as [->|Hne]; [left; exists c; reflexivity|].
        right. intros (c' & E). injection E as _ E. contradiction. }
      destruct Hdec as [Hd|Hnd]; [exact Hd|exfalso].
      destruct H as [H|(p & Hsp & _ & Hdup)].
      - apply (H pstar Hstar). apply ba_star_blim. exact Hnd.
      - apply Hdup. apply ba_star_nodup. exact Hsp.
    Qed.
  End SearchStar.
End MinCycle.

(* ---- 3. sort_eord keeps every element -------------------------------------------------------------- *)

Lemma ba_insert_eord_In eord e l a : a = e \/ In a l -> In a (insert_eord eord e l).
Proof.
  induction l as [|x l IH]; cbn [insert_eord]; intros H.
  - destruct H as [->|[]]. left; reflexivity.
  - destruct (eord e <? eord x); [destruct H as [->|H]; [left; reflexivity|right; exact H]|].
    destruct (Nat.eqb_spec e x) as [->|Hne].
    + destruct H as [->|H]; [left; reflexivity|exact H].
    + destruct H as [->|[->|H]]; [right; apply IH; left; reflexivity|left; reflexivity|right; apply IH; right; exact H].
Qed.

Lemma ba_sort_eord_In eord l a : In a (sort_eord eord l) <-> In a l.
Proof.
  split; [apply (sort_eord_incl eord l)|].
  induction l as [|e l IH]; intros H; [destruct H|].
  unfold sort_eord. cbn [fold_right]. fold (sort_eord eord l).
  apply ba_insert_eord_In. destruct H as [->|H]; [left; reflexivity|right; apply IH; exact H].
Qed.

Print Assumptions ba_cwalk_proj.
Print Assumptions ba_lift_id.
Print Assumptions ba_strict_shortcut.
Print Assumptions ba_star_notfound.
Print Assumptions ba_better_update.
Print Assumptions ba_sort_eord_In.
