(* BidirProofs5.v — optimality of the bidirectional signed search, assembly:
     bidir_spec (BidirProofs4.v)  +  the phase-level results of BidirProofsA1–A3.v (which take bidir_spec_stmt
     as a premise)  =  the premise-free statements of BidirSpec.v:
       all_vertices_opt   : all_vertices_opt_stmt
       hidden_edges_opt   : hidden_edges_opt_stmt
       signed_search      : signed_search_stmt   (signed_search_min /\ signed_search_total for every simple
                            graph, positive Z weights, every eord, every forest index of create_index)
       C01_signed         : C01_signed_stmt
       C02_signed         : C02_signed_stmt
   No axioms. *)
From Coq Require Import List Arith Bool ZArith.
From Parmcb Require Import GraphModel GF2Model GraphSpec McbSpec ForestModel SvaModel SvaSpec
     SignedModel SignedZModel SignedProofs BidirSpec BidirProofs4 BidirProofsA2 BidirProofsA3.
Import ListNotations.

Theorem all_vertices_opt : all_vertices_opt_stmt.
Proof. exact (all_vertices_opt_from_bidir bidir_spec). Qed.

Theorem hidden_edges_opt : hidden_edges_opt_stmt.
Proof. exact (hidden_edges_opt_from_bidir bidir_spec). Qed.

Theorem signed_search : signed_search_stmt.
Proof. exact (signed_search_from_bidir bidir_spec). Qed.

Theorem C01_signed : C01_signed_stmt.
Proof. exact (C01_signed_from_bidir bidir_spec). Qed.

Theorem C02_signed : C02_signed_stmt.
Proof. exact (C02_signed_from_bidir bidir_spec). Qed.

Print Assumptions all_vertices_opt.
Print Assumptions hidden_edges_opt.
Print Assumptions signed_search.
Print Assumptions C01_signed.
Print Assumptions C02_signed.
