(* DimacsPrintProofs.v — the canonical printer of DimacsModel.v: every graph with decimal weights whose lines fit
   the reader's buffer has a well-formed layout denoting it (so the round-trip theorem is not vacuous and
   covers every such graph), and read (print_dimacs nl g) = ROk g. *)
From Coq Require Import ZArith List Bool QArith Qreduction Lia ZifyBool.
From Parmcb Require Import DimacsModel DimacsScanProofs DimacsProofs.
Import ListNotations.
Local Open Scope Z_scope.

(* ---- decimal digits of a natural number ---- *)

Lemma digits_value_single d : digits_value [d] = d - 48.
Proof. unfold digits_value. cbn [fold_left]. lia. Qed.

Lemma to_digits_aux_spec f : forall n acc,
  0 <= n < 2 ^ Z.of_nat (S f) ->
  exists ds, to_digits_aux (S f) n acc = ds ++ acc /\ digits_value ds = n /\ all_digits ds = true /\ nonempty ds = true.
Proof.
  induction f as [|f IH]; intros n acc Hn.
  - cbn [to_digits_aux]. change (2 ^ Z.of_nat 1) with 2 in Hn.
    assert (n / 10 = 0) as E by (apply Z.div_small; lia). rewrite E. cbn [Z.eqb].
    exists [48 + n mod 10]. rewrite Z.mod_small by lia. repeat split.
    + rewrite digits_value_single. lia.
    + unfold all_digits, is_digit. cbn [forallb]. lia.
  - change (to_digits_aux (S (S f)) n acc)
      with (if n / 10 =? 0 then (48 + n mod 10) :: acc else to_digits_aux (S f) (n / 10) ((48 + n mod 10) :: acc)).
    pose proof (Z.div_mod n 10 ltac:(lia)) as Hdm. pose proof (Z.mod_pos_bound n 10 ltac:(lia)) as Hm.
    destruct (n / 10 =? 0) eqn:E.
    + exists [48 + n mod 10]. repeat split.
      * rewrite digits_value_single. lia.
      * unfold all_digits, is_digit. cbn [forallb]. lia.
    + destruct (IH (n / 10) ((48 + n mod 10) :: acc)) as (ds & E1 & E2 & E3 & E4).
      { rewrite (Nat2Z.inj_succ (S f)), Z.pow_succ_r in Hn by lia. split.
        - apply Z.div_pos; lia.
        - apply Z.div_lt_upper_bound; lia. }
      exists (ds ++ [48 + n mod 10]). rewrite E1, <- app_assoc. repeat split.
      * rewrite digits_value_app, E2, digits_value_single. cbn [length]. change (10 ^ Z.of_nat 1) with 10. lia.
      * unfold all_digits in *. rewrite forallb_app, E3. unfold is_digit. cbn [forallb]. lia.
      * destruct ds; reflexivity.
Qed.

Lemma to_digits_spec n :
  0 <= n -> digits_value (to_digits n) = n /\ all_digits (to_digits n) = true /\ nonempty (to_digits n) = true.
Proof.
  intros Hn. unfold to_digits.
  destruct (to_digits_aux_spec (Z.to_nat (Z.log2 n)) n []) as (ds & E1 & E2 & E3 & E4).
  - split; [lia|]. rewrite Nat2Z.inj_succ, Z2Nat.id by apply Z.log2_nonneg.
    destruct (Z.eq_dec n 0) as [->|Hnz]; [reflexivity|]. apply Z.log2_spec. lia.
  - rewrite E1, app_nil_r. auto.
Qed.

Lemma to_digits_int_ok n : 0 <= n -> int_ok (mkInt None (to_digits n)) = true /\ int_value (mkInt None (to_digits n)) = n.
Proof.
  intros Hn. destruct (to_digits_spec n Hn) as (E1 & E2 & E3). unfold int_ok, int_value. cbn [il_digits il_sign sign_neg]. rewrite E2, E3, E1. auto.
Qed.

(* ---- decimal weights ---- *)

Lemma all_digits_repeat k : all_digits (repeat 48 k) = true.
Proof. induction k; cbn; auto. Qed.

Lemma all_digits_app a b : all_digits (a ++ b) = all_digits a && all_digits b.
Proof. apply forallb_app. Qed.

Lemma nonempty_app_l {A} (a b : list A) : nonempty a = true -> nonempty (a ++ b) = true.
Proof. destruct a; [discriminate|reflexivity]. Qed.

Lemma dweight_lit_spec w :
  wlit_ok (dweight_lit w) = true /\ Qred (wlit_value (dweight_lit w)) = dweight_value w.
Proof.
  destruct w as [m k]. unfold dweight_lit.
  destruct (to_digits_spec (Z.abs m) ltac:(lia)) as (E1 & E2 & E3).
  set (ds := pad_digits k (to_digits (Z.abs m))).
  assert (all_digits ds = true) as Hd.
  { unfold ds, pad_digits. rewrite all_digits_app, all_digits_repeat, E2. reflexivity. }
  assert (digits_value ds = Z.abs m) as Hv.
  { unfold ds, pad_digits. rewrite digits_value_app, digits_value_repeat0. lia. }
  assert (S k <= length ds)%nat as Hlen.
  { unfold ds, pad_digits. rewrite app_length, repeat_length. unfold byte. lia. }
  set (cut := (length ds - k)%nat). unfold byte in *.
  assert (firstn cut ds ++ skipn cut ds = ds) as Hsplit by apply firstn_skipn.
  assert (length (skipn cut ds) = k) as Hk by (rewrite skipn_length; unfold cut; lia).
  assert (all_digits (firstn cut ds) = true /\ all_digits (skipn cut ds) = true) as [Hd1 Hd2].
  { rewrite <- Hsplit, all_digits_app in Hd. apply andb_true_iff in Hd. exact Hd. }
  assert (nonempty (firstn cut ds) = true) as Hne.
  { assert (length (firstn cut ds) = cut) as Hc by (rewrite firstn_length; unfold cut; lia).
    assert (0 < cut)%nat as Hpos by (unfold cut; lia).
    destruct (firstn cut ds); [cbn [length] in Hc; lia|reflexivity]. }
  split.
  - unfold wlit_ok. cbn [wl_int wl_frac wl_exp]. rewrite Hd1. destruct k as [|k]; cbn [andb].
    + rewrite nonempty_app_l by assumption. reflexivity.
    + rewrite Hd2, nonempty_app_l by assumption. reflexivity.
  - unfold dweight_value. cbn [fst snd]. apply Qred_complete. rewrite wlit_value_raw.
    unfold frac_digits, wlit_exp. cbn [wl_sign wl_int wl_frac wl_exp]. unfold byte in *.
    assert (sign_neg (if m <? 0 then Some true else None) = (m <? 0)) as -> by (destruct (m <? 0); reflexivity).
    destruct k as [|k].
    + assert (cut = length ds) as Ec by (unfold cut; lia). rewrite Ec, firstn_all, app_nil_r, Hv.
      unfold raw_dec. cbn. unfold Qeq. cbn. destruct (m <? 0) eqn:S; lia.
    + rewrite Hsplit, Hv, Hk. unfold raw_dec.
      replace (0 <=? 0 - Z.of_nat (S k)) with false by lia.
      replace (- (0 - Z.of_nat (S k))) with (Z.of_nat (S k)) by lia.
      unfold Qeq. cbn [Qnum Qden]. destruct (m <? 0) eqn:S; lia.
Qed.

(* ---- the canonical layout ---- *)

Definition dedge_ok (n : Z) (e : Z * Z * dweight) : Prop :=
  let '(u, v, _) := e in 0 <= u < n /\ 0 <= v < n /\ u + 1 <= 2 ^ 31 - 1 /\ v + 1 <= 2 ^ 31 - 1.

(* graphs the canonical printer handles: vertex count below 2^64-1, endpoints in range (and, 1-based, representable
   as int), and every printed line shorter than the reader's buffer *)
Definition dprintable (g : dgraph) : Prop :=
  0 <= fst g <= 2 ^ 64 - 2 /\ Z.of_nat (length (snd g)) <= 2 ^ 64 - 1 /\
  (forall e, In e (snd g) -> dedge_ok (fst g) e) /\ canonical_fits g = true.

Lemma canonical_edge_ok n e :
  dedge_ok n e -> fits (render_line (canonical_edge e)) = true -> line_ok n (canonical_edge e) = true.
Proof.
  destruct e as [[u v] w]. unfold dedge_ok. intros (Hu & Hv & Hu31 & Hv31) Hfits.
  unfold canonical_edge in *. cbn [line_ok render_line] in *. unfold edge_ok, edge_fmt, declared.
  cbn [e_letter e_sep1 e_u e_sep2 e_v e_w e_trail].
  destruct (to_digits_int_ok (u + 1) ltac:(lia)) as [Ou Vu]. destruct (to_digits_int_ok (v + 1) ltac:(lia)) as [Ov Vv].
  pose proof (proj1 (dweight_lit_spec w)) as Hw.
  destruct ((fst w =? 1) && Nat.eqb (snd w) 0); rewrite Ou, Ov, Vu, Vv, Hfits; cbv iota beta; try rewrite Hw;
    cbn [blanks forallb nonempty andb orb]; change (101 =? 97) with false; change (101 =? 101) with true;
    change (is_blank 32) with true; cbn [andb orb]; lia.
Qed.

Lemma canonical_edge_denot u v w :
  0 <= u -> 0 <= v -> denot_edges [canonical_edge (u, v, w)] = [(u, v, dweight_value w)].
Proof.
  intros Hu Hv. unfold denot_edges, canonical_edge. cbn [flat_map app e_u e_v].
  rewrite (proj2 (to_digits_int_ok (u + 1) ltac:(lia))), (proj2 (to_digits_int_ok (v + 1) ltac:(lia))).
  repeat f_equal; try lia.
  unfold edge_weight. cbn [e_w]. destruct w as [m k]. cbn [fst snd].
  destruct ((m =? 1) && Nat.eqb k 0) eqn:E.
  - apply andb_true_iff in E. destruct E as [E1 E2]. apply Nat.eqb_eq in E2. assert (m = 1) by lia. subst. reflexivity.
  - apply (proj2 (dweight_lit_spec (m, k))).
Qed.

Lemma denot_edges_cons ln b : denot_edges (ln :: b) = denot_edges [ln] ++ denot_edges b.
Proof. unfold denot_edges. cbn [flat_map]. rewrite app_nil_r. reflexivity. Qed.

Lemma canonical_layout_spec nl g :
  dprintable g -> layout_ok (canonical_layout nl g) = true /\ denot (canonical_layout nl g) = graph_of_dgraph g.
Proof.
  destruct g as [n es]. unfold dprintable. cbn [fst snd]. intros (Hn & Hm & Hes & Hfits).
  unfold canonical_fits, layout_lines, canonical_layout in Hfits. cbn [l_pre l_prob l_body app forallb fst snd] in Hfits.
  apply andb_true_iff in Hfits. destruct Hfits as [Hfp Hfb].
  destruct (to_digits_int_ok n ltac:(lia)) as [On Vn].
  destruct (to_digits_int_ok (Z.of_nat (length es)) ltac:(lia)) as [Om Vm].
  split.
  - unfold layout_ok, canonical_layout. cbn [l_pre l_prob l_body forallb fst snd andb].
    apply andb_true_iff. split.
    + unfold prob_ok. cbn [p_sep1 p_name p_sep2 p_n p_m p_trail]. rewrite On, Om, Vn, Vm, Hfp.
      repeat (apply andb_true_iff; split); try reflexivity; lia.
    + cbn [p_n]. rewrite Vn. rewrite forallb_forall. intros ln Hin. apply in_map_iff in Hin. destruct Hin as (e & <- & Hin).
      apply canonical_edge_ok; [apply Hes; exact Hin|].
      rewrite forallb_forall in Hfb. apply Hfb. rewrite map_map. apply in_map_iff. exists e. split; [reflexivity|exact Hin].
  - unfold denot, canonical_layout, graph_of_dgraph. cbn [l_prob l_body p_n fst snd]. rewrite Vn. f_equal.
    fold (denot_edges (map canonical_edge es)).
    clear Hfb Hm Om Vm Hfp. induction es as [|e es IH]; [reflexivity|].
    cbn [map]. rewrite denot_edges_cons.
    rewrite IH by (intros e' He'; apply Hes; right; exact He').
    specialize (Hes e (or_introl eq_refl)). destruct e as [[u v] w]. unfold dedge_ok in Hes.
    rewrite canonical_edge_denot by lia. reflexivity.
Qed.

Theorem read_print nl g : dprintable g -> read (print_dimacs nl g) = ROk (graph_of_dgraph g).
Proof.
  intros Hg. destruct (canonical_layout_spec nl g Hg) as [Hok Hden].
  unfold print_dimacs. rewrite read_render by assumption. rewrite Hden. reflexivity.
Qed.
