(* DemoE2E2.v — end-to-end composition for the demo programs (property C11), ALL entry points.

   Continuation of DemoE2E.v (imported, not modified).  DemoE2E.can_return covers six of the entry points the demo programs
   can select; the others were only reachable "modulo the premise that the entry point returns the optimum".  Since then
   premise-free model theorems exist for every remaining entry point; this file instantiates them:

       call                           model                                                       theorem used
       CallMcb Signed false/true      as in DemoE2E.can_return                                    C02_signed / C03_signed_tbb
       CallMcb FvsTrees/IsoTrees false  as in DemoE2E.can_return                                  C02_fvs_trees / C02_iso_trees_explicit
       CallMcb FvsTrees true          ParTreesModel.mcb_sva_trees_tbb_Z wmax TbFvs                C03_fvs_trees_tbb
       CallMcb IsoTrees true          ParTreesModel.mcb_sva_trees_tbb_Z wmax TbIso                C03_iso_trees_tbb
       CallMpi Signed                 as in DemoE2E.can_return                                    C04c_result_fixed / _orig_agreeing_orders
       CallMpi FvsTrees               MpiTreesTbbModel.mcb_sva_trees_tbb_mpi_Z wmax TbFvs         C04c_result_fvs_trees_tbb_mpi_exact
       CallMpi IsoTrees               MpiTreesTbbModel.mcb_sva_trees_tbb_mpi_Z wmax TbIso         C04c_result_iso_trees_tbb_mpi_exact
                                      (src/mcb-dimacs-mpi.cpp calls the _tbb_mpi flavours)
       CallApprox Signed false k      as in DemoE2E.can_return                                    C06_global_signed
       CallApprox Signed true k       ApproxParModel.approx_sva_signed_tbb_Z                      C03_approx_signed_tbb
       CallApprox FvsTrees false k    ApproxTreesModel.approx_sva_fvs_trees_Z                     C06_global_fvs_trees
       CallApprox IsoTrees false k    ApproxTreesModel.approx_sva_fvs_trees_Z (sic: the sequential approx_mcb_sva_iso_trees
                                      instantiates the FVS functor; the model follows the code)   C06_global_fvs_trees
       CallApprox FvsTrees true k     ApproxParTreesModel.approx_sva_trees_tbb_Z wmax TbFvs       C03_approx_fvs_trees_tbb
       CallApprox IsoTrees true k     ApproxParTreesModel.approx_sva_trees_tbb_Z wmax TbIso       C03_approx_iso_trees_tbb
       CallStats                      (returns no weight; collection-stats-dimacs prints none)    —

   [can_return_all P g w c x] = "x is a value the model of entry point c can return on (g, w)": existential over EVERY oracle
   of that model.  The side conditions on the oracles are exactly the well-formedness conditions under which the models do
   not answer with their explicit bad-oracle value: BFS root order mentions every vertex; greedy_fvs runs to completion under
   the pick oracle; the reduction trees have the ranks 0..P-1 as leaves; a per-rank sort arrangement is what std::sort
   guarantees (mt_arr_okb); the scan order of the spanner is a weight-sorted permutation of the edge ids; the arrangement of
   the candidate collection of the spanner is a permutation of its positions (for the exact TBB tree variants this is NOT a
   side condition: it follows from the run answering PtRun); the exact phase of the sequential tree-based approximate
   variants is an accepted run on the spanner.  Bit streams, insertion orders, pointer orders and numeric_limits::max are
   unconstrained.

   Nothing is extracted from this file, so definitions and proofs live together.  Final statements:
   Properties_C11_e2e_all.v. *)
From Coq Require Import ZArith List Bool QArith Qreduction Lia Permutation Sorted.
From Parmcb Require Import DimacsModel DimacsValProofs DimacsProofs.
From Parmcb Require Import GraphModel GraphSpec McbSpec SvaModel SvaSpec OptSpec ForestModel FvsModel CandidatesModel
     SignedZModel TreesModel ParSignedModel MpiModel MpiSignedModel MpiProofs1 SpannerModel ApproxModel
     SchedModel ParTreesModel MpiTreesModel MpiTreesTbbModel ApproxTreesModel ApproxParModel ApproxParTreesModel
     ParTreesProofs1 ApproxTreesProofs1.
From Parmcb Require Import DemoModel DemoProofs DemoE2E.
From Parmcb Require Properties_C02 Properties_C02_trees Properties_C03 Properties_C03_trees Properties_C03_approx
     Properties_C03_approx_trees Properties_C04 Properties_C04_trees Properties_C04_trees_tbb Properties_C05
     Properties_C05_trees Properties_C06 Properties_C06_trees Properties_C08 Properties_C13.
Import ListNotations.
Local Open Scope Z_scope.

(* ==================================================================================================================== *)
(* 0. sorting positions by an integer key (only used to exhibit VALID oracles in the existence statements)             *)
(* ==================================================================================================================== *)

Section KeySort.
  Variable key : nat -> Z.

  Fixpoint ks_insert (x : nat) (l : list nat) : list nat :=
    match l with
    | [] => [x]
    | y :: r => if key x <=? key y then x :: l else y :: ks_insert x r
    end.
  Definition ks_sort (l : list nat) : list nat := fold_right ks_insert [] l.

  Lemma ks_insert_perm x l : Permutation (x :: l) (ks_insert x l).
  Proof.
    induction l as [|y r IH]; [apply Permutation_refl|]. cbn [ks_insert].
    destruct (key x <=? key y); [apply Permutation_refl|].
    eapply Permutation_trans; [apply perm_swap|]. apply perm_skip. exact IH.
  Qed.

  Lemma ks_sort_perm l : Permutation l (ks_sort l).
  Proof.
    induction l as [|x l IH]; [apply Permutation_refl|]. cbn [ks_sort fold_right].
    eapply Permutation_trans; [apply perm_skip; exact IH|]. apply ks_insert_perm.
  Qed.

  Lemma ks_insert_sorted x l :
    StronglySorted (fun a b => key a <= key b) l -> StronglySorted (fun a b => key a <= key b) (ks_insert x l).
  Proof.
    induction l as [|y r IH]; intros Hs; [constructor; constructor|]. cbn [ks_insert].
    apply StronglySorted_inv in Hs as [Hr Hy].
    destruct (key x <=? key y) eqn:E.
    - apply Z.leb_le in E. constructor; [constructor; assumption|]. constructor; [exact E|].
      rewrite Forall_forall in *. intros z Hz. specialize (Hy z Hz). lia.
    - apply Z.leb_gt in E. constructor; [apply IH; exact Hr|].
      rewrite Forall_forall in *. intros z Hz.
      apply (Permutation_in _ (Permutation_sym (ks_insert_perm x r))) in Hz. destruct Hz as [<-|Hz]; [lia|apply Hy; exact Hz].
  Qed.

  Lemma ks_sort_sorted l : StronglySorted (fun a b => key a <= key b) (ks_sort l).
  Proof. induction l as [|x l IH]; [constructor|]. cbn [ks_sort fold_right]. apply ks_insert_sorted. exact IH. Qed.
End KeySort.

(* a weight-sorted scan order exists: what std::sort leaves is one of them *)
Lemma sorted_scan_exists (g : GraphModel.graph) (w : list Z) :
  exists scan, Permutation scan (seq 0 (ne g)) /\ Sorted (fun a b => wt w a <= wt w b) scan.
Proof.
  exists (ks_sort (wt w) (seq 0 (ne g))). split.
  - apply Permutation_sym, ks_sort_perm.
  - apply StronglySorted_Sorted. apply (ks_sort_sorted (wt w)).
Qed.

(* ---- sort_nat of a permutation of 0..n-1 is 0..n-1 ---- *)

Lemma insert_nat_perm x l : Permutation (x :: l) (insert_nat x l).
Proof.
  induction l as [|y r IH]; [apply Permutation_refl|]. cbn [insert_nat].
  destruct (Nat.leb x y); [apply Permutation_refl|].
  eapply Permutation_trans; [apply perm_swap|]. apply perm_skip. exact IH.
Qed.

Lemma insert_nat_sorted x l : StronglySorted le l -> StronglySorted le (insert_nat x l).
Proof.
  induction l as [|y r IH]; intros Hs; [constructor; constructor|]. cbn [insert_nat].
  apply StronglySorted_inv in Hs as [Hr Hy].
  destruct (Nat.leb x y) eqn:E.
  - apply Nat.leb_le in E. constructor; [constructor; assumption|]. constructor; [exact E|].
    rewrite Forall_forall in *. intros z Hz. specialize (Hy z Hz). lia.
  - apply Nat.leb_gt in E. constructor; [apply IH; exact Hr|].
    rewrite Forall_forall in *. intros z Hz.
    apply (Permutation_in _ (Permutation_sym (insert_nat_perm x r))) in Hz. destruct Hz as [<-|Hz]; [lia|apply Hy; exact Hz].
Qed.

Lemma sort_nat_sorted l : StronglySorted le (sort_nat l).
Proof. induction l as [|x l IH]; [constructor|]. cbn [sort_nat fold_right]. apply insert_nat_sorted. exact IH. Qed.

Lemma sorted_le_perm_eq : forall l1 l2 : list nat,
  StronglySorted le l1 -> StronglySorted le l2 -> Permutation l1 l2 -> l1 = l2.
Proof.
  induction l1 as [|a r1 IH]; intros l2 H1 H2 HP.
  - apply Permutation_nil in HP. congruence.
  - destruct l2 as [|b r2]; [apply Permutation_sym, Permutation_nil in HP; discriminate|].
    apply StronglySorted_inv in H1 as [H1 Ha]. apply StronglySorted_inv in H2 as [H2 Hb].
    rewrite Forall_forall in Ha, Hb.
    assert (E : a = b).
    { assert (Ia : In a (b :: r2)) by (apply (Permutation_in _ HP); left; reflexivity).
      assert (Ib : In b (a :: r1)) by (apply (Permutation_in _ (Permutation_sym HP)); left; reflexivity).
      destruct Ia as [Ia|Ia]; [congruence|]. destruct Ib as [Ib|Ib]; [congruence|].
      specialize (Ha b Ib). specialize (Hb a Ia). lia. }
    subst b. f_equal. apply IH; [assumption|assumption|]. apply Permutation_cons_inv in HP. exact HP.
Qed.

Lemma seq_sorted_le n : forall s, StronglySorted le (seq s n).
Proof.
  induction n as [|n IH]; intros s; [constructor|]. cbn [seq]. constructor; [apply IH|].
  rewrite Forall_forall. intros z Hz. apply in_seq in Hz. lia.
Qed.

Lemma sort_nat_of_perm l n : Permutation l (seq 0 n) -> sort_nat l = seq 0 n.
Proof.
  intros HP. apply sorted_le_perm_eq; [apply sort_nat_sorted|apply seq_sorted_le|].
  eapply Permutation_trans; [apply Permutation_sym, sort_nat_perm|exact HP].
Qed.

(* ---- a valid std::sort arrangement of any candidate vector: positions sorted by recorded weight ---- *)

Definition cand_key (L : list (cand Z)) (i : nat) : Z :=
  match nth_error L i with Some c => c_weight c | None => 0 end.
Definition sort_arr (L : list (cand Z)) : list nat := ks_sort (cand_key L) (seq 0 (length L)).

Lemma mt_all_some_map_nth (L : list (cand Z)) : forall arr, (forall i, In i arr -> (i < length L)%nat) ->
  exists s, mt_all_some (map (nth_error L) arr) = Some s /\ Forall2 (fun i c => nth_error L i = Some c) arr s.
Proof.
  induction arr as [|i r IH]; intros H; [exists []; split; [reflexivity|constructor]|].
  destruct (IH (fun j Hj => H j (or_intror Hj))) as (s & Es & Hs).
  destruct (nth_error L i) as [c|] eqn:Ec.
  - exists (c :: s). split; [cbn [map mt_all_some]; rewrite Ec, Es; reflexivity|constructor; assumption].
  - exfalso. apply nth_error_None in Ec. specialize (H i (or_introl eq_refl)). lia.
Qed.

Lemma mt_sortedb_of_sorted (L : list (cand Z)) : forall arr s,
  Forall2 (fun i c => nth_error L i = Some c) arr s ->
  StronglySorted (fun a b => cand_key L a <= cand_key L b) arr -> mt_sortedb Z Z.ltb s = true.
Proof.
  induction arr as [|i r IH]; intros s HF HS; inversion HF as [|i' c r' s' Hc HF']; subst; [reflexivity|].
  apply StronglySorted_inv in HS as [HS Hi]. cbn [mt_sortedb]. apply andb_true_iff. split; [|apply IH; assumption].
  apply forallb_forall. intros d Hd. apply negb_true_iff, Z.ltb_ge.
  rewrite Forall_forall in Hi.
  assert (X : exists j, In j r /\ nth_error L j = Some d).
  { clear -HF' Hd. induction HF' as [|j e r s' Hj HF' IH']; [destruct Hd|].
    destruct Hd as [<-|Hd]; [exists j; split; [left; reflexivity|exact Hj]|].
    destruct (IH' Hd) as (j' & Hj' & E). exists j'. split; [right; exact Hj'|exact E]. }
  destruct X as (j & Hj & Ej). specialize (Hi j Hj). unfold cand_key in Hi. rewrite Hc, Ej in Hi. exact Hi.
Qed.

Lemma sort_arr_ok (L : list (cand Z)) : mt_arr_okb Z Z.ltb L (sort_arr L) = true.
Proof.
  unfold mt_arr_okb, mt_sort, sort_arr.
  pose proof (ks_sort_perm (cand_key L) (seq 0 (length L))) as HP.
  rewrite (sort_nat_of_perm _ (length L) (Permutation_sym HP)).
  destruct (list_eq_dec Nat.eq_dec (seq 0 (length L)) (seq 0 (length L))) as [_|N]; [|exfalso; apply N; reflexivity].
  destruct (mt_all_some_map_nth L (ks_sort (cand_key L) (seq 0 (length L)))) as (s & Es & Hs).
  { intros i Hi. apply (Permutation_in _ (Permutation_sym HP)) in Hi. apply in_seq in Hi. lia. }
  unfold mt_arrange. rewrite Es.
  rewrite (mt_sortedb_of_sorted L _ s Hs (ks_sort_sorted (cand_key L) _)). reflexivity.
Qed.

(* ==================================================================================================================== *)
(* 1. what EVERY entry point of the demos can return                                                                    *)
(* ==================================================================================================================== *)

(* the calls with a weight: everything the four demos can select except collection-stats-dimacs' builders *)
Definition weighted_call (c : call) : bool := match c with CallStats => false | _ => true end.

(* a family of per-rank sort arrangements is what std::sort guarantees on every rank's local candidate vector *)
Definition mpi_arrs_ok (b : tbuilder) (g : GraphModel.graph) (w : list Z) (roots picks : list nat) (P : nat)
           (arr : nat -> list nat) : Prop :=
  forall r ts L, (r < P)%nat -> mt_rank_cands_Z b g w roots picks P r = Some (ts, L) -> mt_arr_okb Z Z.ltb L (arr r) = true.

(* greedy_fvs on the spanner of the run completes under the pick oracle *)
Definition picks_ok_on_spanner (g : GraphModel.graph) (k : nat) (scan picks : list nat) : Prop :=
  forall sp, construct_spanner g k scan = SpOk sp -> exists fvs, greedy_fvs (sp_graph sp) picks = FvsOk fvs.

(* arr is a permutation of the positions of the candidate collection of the spanner *)
Definition arr_ok_on_spanner (b : tbuilder) (g : GraphModel.graph) (w : list Z) (k : nat) (scan picks arr : list nat) : Prop :=
  forall sp trees cands, construct_spanner g k scan = SpOk sp ->
    tb_collection Z 0 Z.add Z.ltb b (sp_graph sp) (spanner_weights w sp) picks = CdOk (trees, cands) ->
    pt_valid_arr arr (length cands) = true.

(* the scan order std::sort leaves the caller's edges in *)
Definition scan_ok (g : GraphModel.graph) (w : list Z) (scan : list nat) : Prop :=
  Permutation scan (seq 0 (ne g)) /\ Sorted (fun a b => wt w a <= wt w b) scan.

(* P = number of MPI processes of the job (only used by CallMpi) *)
Definition can_return_all (P : nat) (g : GraphModel.graph) (w : list Z) (c : call) (x : Z) : Prop :=
  match c with
  | CallMcb FvsTrees true =>
      exists wmax roots picks fvs arr bits cycles sup pos,
        covers g roots /\ greedy_fvs g picks = FvsOk fvs /\
        mcb_sva_trees_tbb_Z wmax TbFvs g w roots picks arr bits = (PtRun (SvaOk cycles x sup), pos)
  | CallMcb IsoTrees true =>
      exists wmax roots picks arr bits cycles sup pos,
        covers g roots /\ mcb_sva_trees_tbb_Z wmax TbIso g w roots picks arr bits = (PtRun (SvaOk cycles x sup), pos)
  | CallMpi FvsTrees =>
      exists wmax roots picks fvs arr bits rtree_of cycles sup rest,
        covers g roots /\ greedy_fvs g picks = FvsOk fvs /\ (forall k, rtree_ok P (rtree_of k)) /\
        mpi_arrs_ok TbFvs g w roots picks P arr /\
        mcb_sva_trees_tbb_mpi_Z wmax TbFvs g w roots picks P arr bits rtree_of
        = MtRun Z (MpiModel.Done (RankOut cycles x sup None :: rest))
  | CallMpi IsoTrees =>
      exists wmax roots picks arr bits rtree_of cycles sup rest,
        covers g roots /\ (forall k, rtree_ok P (rtree_of k)) /\ mpi_arrs_ok TbIso g w roots picks P arr /\
        mcb_sva_trees_tbb_mpi_Z wmax TbIso g w roots picks P arr bits rtree_of
        = MtRun Z (MpiModel.Done (RankOut cycles x sup None :: rest))
  | CallApprox Signed true k =>
      exists scan roots eord bits perm1 perm_c perm_w cycles pos,
        scan_ok g w scan /\ covers g roots /\
        approx_sva_signed_tbb_Z g w (Z.to_nat k) scan roots eord bits perm1 perm_c perm_w = (TbbRun (ApproxOk cycles x), pos)
  | CallApprox FvsTrees false k | CallApprox IsoTrees false k =>       (* sic: both instantiate the FVS functor *)
      exists scan roots picks scycles cycles,
        scan_ok g w scan /\ covers g roots /\ picks_ok_on_spanner g (Z.to_nat k) scan picks /\
        (forall sp, construct_spanner g (Z.to_nat k) scan = SpOk sp ->
           exists t, mcb_sva_trees_accept_Z TbFvs (sp_graph sp) (spanner_weights w sp) roots picks scycles = Some t) /\
        approx_sva_fvs_trees_Z g w (Z.to_nat k) scan roots picks scycles = ApproxOk cycles x
  | CallApprox FvsTrees true k =>
      exists wmax scan roots picks arr bits perm_c perm_w cycles pos,
        scan_ok g w scan /\ covers g roots /\ picks_ok_on_spanner g (Z.to_nat k) scan picks /\
        arr_ok_on_spanner TbFvs g w (Z.to_nat k) scan picks arr /\
        approx_sva_trees_tbb_Z wmax TbFvs g w (Z.to_nat k) scan roots picks arr bits perm_c perm_w
        = (TbbRun (ApproxOk cycles x), pos)
  | CallApprox IsoTrees true k =>
      exists wmax scan roots picks arr bits perm_c perm_w cycles pos,
        scan_ok g w scan /\ covers g roots /\ arr_ok_on_spanner TbIso g w (Z.to_nat k) scan picks arr /\
        approx_sva_trees_tbb_Z wmax TbIso g w (Z.to_nat k) scan roots picks arr bits perm_c perm_w
        = (TbbRun (ApproxOk cycles x), pos)
  | CallStats => False
  | _ => can_return P g w c x      (* CallMcb Signed _, CallMcb FvsTrees/IsoTrees false, CallMpi Signed, CallApprox Signed false _ *)
  end.

(* can_return_all extends can_return *)
Lemma can_return_all_extends P g w c x : can_return P g w c x -> can_return_all P g w c x.
Proof. destruct c as [[] []|[] [] k| |[]]; cbn [can_return can_return_all]; intros H; try exact H; contradiction. Qed.

Lemma can_return_all_weighted P g w c x : can_return_all P g w c x -> weighted_call c = true.
Proof. destruct c; cbn; intros H; try reflexivity; contradiction. Qed.

(* ==================================================================================================================== *)
(* 2. every value an entry point can return is the optimum (exact) / within the factor (approximate)                    *)
(* ==================================================================================================================== *)

(* the TBB tree variants: the run answered PtRun, hence the arrangement was a permutation of the positions *)
Lemma trees_tbb_run_opt b g w roots picks wmax arr bits cycles x sup pos :
  Properties_C03_trees.C03_trees_tbb_stmt b g w roots picks ->
  mcb_sva_trees_tbb_Z wmax b g w roots picks arr bits = (PtRun (SvaOk cycles x sup), pos) -> is_opt g w x.
Proof.
  intros (fi & trees & cands & Hci & Hcol & _ & Harr) E.
  destruct (pt_valid_arr arr (length cands)) eqn:Ev.
  - destruct (Harr wmax bits arr Ev) as (r & pos' & E' & (cy & t & sp & -> & Hmin & Ht & _)).
    rewrite E in E'. inversion E'; subst. apply min_basis_is_opt. exact Hmin.
  - exfalso. unfold mcb_sva_trees_tbb_Z, mcb_sva_trees_tbb in E. rewrite Hci, Hcol in E.
    unfold pt_arrange in E. rewrite Ev in E. discriminate.
Qed.

Lemma can_return_all_exact_opt P g w c x :
  simple_graph g -> positive_weights g w -> (is_mpi c = true -> (1 <= P)%nat) -> exact_call c = true ->
  can_return_all P g w c x -> is_opt g w x.
Proof.
  intros Hs Hw HP' Hex H.
  assert (HPm : forall f, c = CallMpi f -> (1 <= P)%nat) by (intros f E; apply HP'; rewrite E; reflexivity).
  destruct c as [f par|f par k| |f]; cbn in Hex; try discriminate.
  - destruct f, par; try (apply (can_return_exact_opt P g w _ x Hs Hw HP' eq_refl); exact H); cbn [can_return_all] in H.
    + destruct H as (wmax & roots & picks & fvs & arr & bits & cycles & sup & pos & Hr & Hf & E).
      exact (trees_tbb_run_opt _ _ _ _ _ _ _ _ _ _ _ _
               (Properties_C03_trees.C03_fvs_trees_tbb g w roots picks fvs Hs Hw Hr Hf) E).
    + destruct H as (wmax & roots & picks & arr & bits & cycles & sup & pos & Hr & E).
      exact (trees_tbb_run_opt _ _ _ _ _ _ _ _ _ _ _ _
               (Properties_C03_trees.C03_iso_trees_tbb g w roots picks Hs Hw Hr) E).
  - pose proof (HPm f eq_refl) as HP.
    destruct f; try (apply (can_return_exact_opt P g w _ x Hs Hw HP' eq_refl); exact H); cbn [can_return_all] in H.
    + destruct H as (wmax & roots & picks & fvs & arr & bits & rt & cycles & sup & rest & Hr & Hf & Hrt & Harr & E).
      destruct (Properties_C04_trees_tbb.C04c_result_fvs_trees_tbb_mpi_exact g w roots picks fvs wmax P arr bits rt
                  Hs Hw Hr Hf HP Hrt Harr) as (fi & cy & t & sp & rs & _ & E' & _ & _ & Hmin & Ht & _).
      close_opt E E'.
    + destruct H as (wmax & roots & picks & arr & bits & rt & cycles & sup & rest & Hr & Hrt & Harr & E).
      destruct (Properties_C04_trees_tbb.C04c_result_iso_trees_tbb_mpi_exact g w roots picks wmax P arr bits rt
                  Hs Hw Hr HP Hrt Harr) as (fi & cy & t & sp & rs & _ & E' & _ & _ & Hmin & Ht & _).
      close_opt E E'.
Qed.

Lemma hop_bound k : 1 <= k -> Z.of_nat (2 * Z.to_nat k - 1) = 2 * k - 1.
Proof. intros Hk. lia. Qed.

(* every approximate entry point, k >= 1: the returned value lies between the optimum and (2k-1) times the optimum *)
Lemma can_return_all_approx_bounds P g w f par k x :
  simple_graph g -> positive_weights g w -> 1 <= k ->
  can_return_all P g w (CallApprox f par k) x -> forall opt, is_opt g w opt -> opt <= x <= (2 * k - 1) * opt.
Proof.
  intros Hs Hw Hk H opt Hopt. rewrite <- (hop_bound k Hk).
  assert (HK : (1 <= Z.to_nat k)%nat) by lia.
  destruct f, par; cbn [can_return_all can_return] in H.
  - (* signed tbb *)
    destruct H as (scan & roots & eord & bits & perm1 & perm_c & perm_w & cycles & pos & (Hperm & Hsort) & Hr & E).
    destruct (Properties_C03_approx.C03_approx_signed_tbb g w _ scan roots eord bits perm1 perm_c perm_w Hs Hw HK Hperm Hr)
      as (cy & t & ps & E' & _ & _ & _ & _ & _ & Hb).
    rewrite E in E'. inversion E'; subst. exact (proj2 (Hb Hsort) opt Hopt).
  - (* signed *)
    destruct H as (scan & roots & eord & cycles & Hperm & Hsort & Hr & E).
    destruct (Properties_C06.C06_global_signed g w _ scan roots eord Hs Hw HK Hperm Hsort Hr) as (cy & t & E' & _ & _ & _ & Hb).
    rewrite E in E'. inversion E'; subst. exact (Hb opt Hopt).
  - (* fvs trees tbb *)
    destruct H as (wmax & scan & roots & picks & arr & bits & perm_c & perm_w & cycles & pos & (Hperm & Hsort) & Hr & Hp & Ha & E).
    destruct (Properties_C03_approx_trees.C03_approx_fvs_trees_tbb wmax g w _ scan roots picks arr bits perm_c perm_w
                Hs Hw HK Hperm Hr Hp Ha) as (cy & t & ps & E' & _ & _ & _ & _ & _ & Hb).
    rewrite E in E'. inversion E'; subst. exact (proj2 (Hb Hsort) opt Hopt).
  - (* fvs trees *)
    destruct H as (scan & roots & picks & scycles & cycles & (Hperm & Hsort) & Hr & Hp & Hacc & E).
    destruct (proj1 (Properties_C06_trees.C06_global_fvs_trees g w _ scan roots picks Hs Hw HK Hperm Hsort Hr Hp) scycles Hacc)
      as (cy & t & E' & _ & _ & _ & Hb).
    rewrite E in E'. inversion E'; subst. exact (Hb opt Hopt).
  - (* iso trees tbb *)
    destruct H as (wmax & scan & roots & picks & arr & bits & perm_c & perm_w & cycles & pos & (Hperm & Hsort) & Hr & Ha & E).
    destruct (Properties_C03_approx_trees.C03_approx_iso_trees_tbb wmax g w _ scan roots picks arr bits perm_c perm_w
                Hs Hw HK Hperm Hr Ha) as (cy & t & ps & E' & _ & _ & _ & _ & _ & Hb).
    rewrite E in E'. inversion E'; subst. exact (proj2 (Hb Hsort) opt Hopt).
  - (* iso trees: the FVS functor *)
    destruct H as (scan & roots & picks & scycles & cycles & (Hperm & Hsort) & Hr & Hp & Hacc & E).
    destruct (proj1 (Properties_C06_trees.C06_global_fvs_trees g w _ scan roots picks Hs Hw HK Hperm Hsort Hr Hp) scycles Hacc)
      as (cy & t & E' & _ & _ & _ & Hb).
    rewrite E in E'. inversion E'; subst. exact (Hb opt Hopt).
Qed.

Lemma can_return_all_approx P g w f par k x :
  simple_graph g -> positive_weights g w -> 1 <= k ->
  can_return_all P g w (CallApprox f par k) x -> exists opt, is_opt g w opt /\ opt <= x <= (2 * k - 1) * opt.
Proof.
  intros Hs Hw Hk H. destruct (opt_exists g w Hs Hw) as (opt & Hopt). exists opt. split; [exact Hopt|].
  exact (can_return_all_approx_bounds P g w f par k x Hs Hw Hk H opt Hopt).
Qed.

(* the two parts in one statement *)
Lemma can_return_all_sound P g w c x :
  simple_graph g -> positive_weights g w -> can_return_all P g w c x ->
  (exact_call c = true -> (is_mpi c = true -> (1 <= P)%nat) -> is_opt g w x) /\
  (forall f par k, c = CallApprox f par k -> 1 <= k -> exists opt, is_opt g w opt /\ opt <= x <= (2 * k - 1) * opt).
Proof.
  intros Hs Hw H. split.
  - intros Hex HP. exact (can_return_all_exact_opt P g w c x Hs Hw HP Hex H).
  - intros f par k -> Hk. exact (can_return_all_approx P g w f par k x Hs Hw Hk H).
Qed.

(* ==================================================================================================================== *)
(* 3. every entry point has a value it can return (valid oracles exist; the models are total on the domain)             *)
(* ==================================================================================================================== *)

(* the trivial oracles: vertex order 0..n-1, the deterministic greedy_fvs run, identity arrangement, empty bit stream
   (every schedule bit reads as false), chain reduction tree, per-rank arrangement = positions sorted by weight *)
Lemma valid_seq n : pt_valid_arr (seq 0 n) n = true.
Proof. apply pq_valid_of_perm. apply Permutation_refl. Qed.

Lemma trees_tbb_run_exists b g w roots picks :
  Properties_C03_trees.C03_trees_tbb_stmt b g w roots picks ->
  exists arr cycles x sup pos, mcb_sva_trees_tbb_Z 0 b g w roots picks arr [] = (PtRun (SvaOk cycles x sup), pos).
Proof.
  intros (fi & trees & cands & _ & _ & _ & Harr).
  destruct (Harr 0 [] (seq 0 (length cands)) (valid_seq _)) as (r & pos & E & (cy & t & sp & -> & _)).
  exists (seq 0 (length cands)), cy, t, sp, pos. exact E.
Qed.

Definition sorted_arrs (b : tbuilder) (g : GraphModel.graph) (w : list Z) (roots picks : list nat) (P r : nat) : list nat :=
  match mt_rank_cands_Z b g w roots picks P r with Some (_, L) => sort_arr L | None => [] end.

Lemma sorted_arrs_ok b g w roots picks P : mpi_arrs_ok b g w roots picks P (sorted_arrs b g w roots picks P).
Proof. intros r ts L _ E. unfold sorted_arrs. rewrite E. apply sort_arr_ok. Qed.

(* a complete pick run on the spanner of the run *)
Lemma spanner_picks_exist g w k scan :
  simple_graph g -> positive_weights g w -> Permutation scan (seq 0 (ne g)) ->
  exists picks, picks_ok_on_spanner g k scan picks.
Proof.
  intros Hs Hw Hperm. destruct (construct_spanner g k scan) as [s| | |] eqn:Esp;
    try (exists []; intros sp' E'; unfold picks_ok_on_spanner in *; rewrite Esp in E'; discriminate).
  destruct (ap_spanner_wf g w k scan s Hs Hw Hperm Esp) as (Hh & _ & _).
  destruct (Properties_C13.C13_det_is_a_run _ Hh) as (out & _ & Hf & _).
  exists out. intros sp' E'. rewrite Esp in E'. injection E' as <-. exists out. exact Hf.
Qed.

(* the identity arrangement of the spanner's collection *)
Lemma spanner_arr_exists b g w k scan picks : exists arr, arr_ok_on_spanner b g w k scan picks arr.
Proof.
  destruct (construct_spanner g k scan) as [s| | |] eqn:Esp;
    try (exists []; intros sp' tr cs E'; rewrite Esp in E'; discriminate).
  destruct (tb_collection Z 0 Z.add Z.ltb b (sp_graph s) (spanner_weights w s) picks) as [[trees cands]| | | |] eqn:Ec;
    try (exists []; intros sp' tr cs E' Ec'; rewrite Esp in E'; injection E' as <-; rewrite Ec in Ec'; discriminate).
  exists (seq 0 (length cands)). intros sp' tr cs E' Ec'. rewrite Esp in E'. injection E' as <-.
  rewrite Ec in Ec'. injection Ec' as <- <-. apply valid_seq.
Qed.

Lemma can_return_all_exists P g w c :
  simple_graph g -> positive_weights g w -> (1 <= P)%nat -> weighted_call c = true ->
  (forall f par k, c = CallApprox f par k -> 1 <= k) -> exists x, can_return_all P g w c x.
Proof.
  intros Hs Hw HP Hc Hk. pose proof (covers_seq g) as Hr.
  destruct c as [f par|f par k| |f]; cbn in Hc; try discriminate.
  - (* mcb-dimacs *)
    destruct f, par;
      try (match goal with |- exists x, can_return_all _ _ _ ?c x =>
             destruct (can_return_exists P g w c Hs Hw HP eq_refl eq_refl) as (x & Hx); exists x;
             apply can_return_all_extends; exact Hx end); cbn [can_return_all].
    + destruct (Properties_C13.C13_det_is_a_run g Hs) as (out & _ & Hf & _).
      destruct (trees_tbb_run_exists _ _ _ _ _ (Properties_C03_trees.C03_fvs_trees_tbb g w _ out out Hs Hw Hr Hf))
        as (arr & cy & x & sp & pos & E).
      exists x, 0, (seq 0 (nv g)), out, out, arr, [], cy, sp, pos. split; [exact Hr|]. split; [exact Hf|exact E].
    + destruct (trees_tbb_run_exists _ _ _ _ _ (Properties_C03_trees.C03_iso_trees_tbb g w _ [] Hs Hw Hr))
        as (arr & cy & x & sp & pos & E).
      exists x, 0, (seq 0 (nv g)), [], arr, [], cy, sp, pos. split; [exact Hr|exact E].
  - (* approx-mcb-dimacs *)
    specialize (Hk f par k eq_refl). assert (HK : (1 <= Z.to_nat k)%nat) by lia.
    destruct (sorted_scan_exists g w) as (scan & Hperm & Hsort).
    assert (Hscan : scan_ok g w scan) by (split; assumption).
    destruct (spanner_picks_exist g w (Z.to_nat k) scan Hs Hw Hperm) as (picks & Hp).
    assert (Htrees : exists x scycles cycles,
               (forall sp, construct_spanner g (Z.to_nat k) scan = SpOk sp ->
                  exists t, mcb_sva_trees_accept_Z TbFvs (sp_graph sp) (spanner_weights w sp) (seq 0 (nv g)) picks scycles = Some t) /\
               approx_sva_fvs_trees_Z g w (Z.to_nat k) scan (seq 0 (nv g)) picks scycles = ApproxOk cycles x).
    { destruct (Properties_C06_trees.C06_global_fvs_trees g w _ scan (seq 0 (nv g)) picks Hs Hw HK Hperm Hsort Hr Hp)
        as (Hall & scycles & Hacc).
      destruct (Hall scycles Hacc) as (cy & t & E & _). exists t, scycles, cy. split; assumption. }
    destruct f, par; cbn [can_return_all can_return].
    + destruct (Properties_C03_approx.C03_approx_signed_tbb g w _ scan (seq 0 (nv g)) [] [] [] [] [] Hs Hw HK Hperm Hr)
        as (cy & t & ps & E & _).
      exists t, scan, (seq 0 (nv g)), [], [], [], [], [], cy, ps. split; [exact Hscan|]. split; [exact Hr|exact E].
    + destruct (Properties_C06.C06_global_signed g w _ scan (seq 0 (nv g)) [] Hs Hw HK Hperm Hsort Hr) as (cy & t & E & _).
      exists t, scan, (seq 0 (nv g)), [], cy. split; [exact Hperm|]. split; [exact Hsort|]. split; [exact Hr|exact E].
    + destruct (spanner_arr_exists TbFvs g w (Z.to_nat k) scan picks) as (arr & Ha).
      destruct (Properties_C03_approx_trees.C03_approx_fvs_trees_tbb 0 g w _ scan (seq 0 (nv g)) picks arr [] [] []
                  Hs Hw HK Hperm Hr Hp Ha) as (cy & t & ps & E & _).
      exists t, 0, scan, (seq 0 (nv g)), picks, arr, [], [], [], cy, ps.
      split; [exact Hscan|]. split; [exact Hr|]. split; [exact Hp|]. split; [exact Ha|exact E].
    + destruct Htrees as (x & scycles & cy & Hacc & E).
      exists x, scan, (seq 0 (nv g)), picks, scycles, cy.
      split; [exact Hscan|]. split; [exact Hr|]. split; [exact Hp|]. split; [exact Hacc|exact E].
    + destruct (spanner_arr_exists TbIso g w (Z.to_nat k) scan []) as (arr & Ha).
      destruct (Properties_C03_approx_trees.C03_approx_iso_trees_tbb 0 g w _ scan (seq 0 (nv g)) [] arr [] [] []
                  Hs Hw HK Hperm Hr Ha) as (cy & t & ps & E & _).
      exists t, 0, scan, (seq 0 (nv g)), [], arr, [], [], [], cy, ps.
      split; [exact Hscan|]. split; [exact Hr|]. split; [exact Ha|exact E].
    + destruct Htrees as (x & scycles & cy & Hacc & E).
      exists x, scan, (seq 0 (nv g)), picks, scycles, cy.
      split; [exact Hscan|]. split; [exact Hr|]. split; [exact Hp|]. split; [exact Hacc|exact E].
  - (* mcb-dimacs-mpi *)
    assert (Hrt : forall k : nat, rtree_ok P (chain_tree 0 (P - 1))) by (intros _; apply chain_tree_ok; exact HP).
    destruct f;
      try (match goal with |- exists x, can_return_all _ _ _ ?c x =>
             destruct (can_return_exists P g w c Hs Hw HP eq_refl eq_refl) as (x & Hx); exists x;
             apply can_return_all_extends; exact Hx end); cbn [can_return_all].
    + destruct (Properties_C13.C13_det_is_a_run g Hs) as (out & _ & Hf & _).
      pose proof (sorted_arrs_ok TbFvs g w (seq 0 (nv g)) out P) as Ha.
      destruct (Properties_C04_trees_tbb.C04c_result_fvs_trees_tbb_mpi_exact g w (seq 0 (nv g)) out out 0 P _
                  (fun _ _ => []) (fun _ => chain_tree 0 (P - 1)) Hs Hw Hr Hf HP Hrt Ha)
        as (fi & cy & t & sp & rs & _ & E & _).
      exists t, 0, (seq 0 (nv g)), out, out, (sorted_arrs TbFvs g w (seq 0 (nv g)) out P), (fun _ _ => []),
        (fun _ => chain_tree 0 (P - 1)), cy, sp, rs.
      split; [exact Hr|]. split; [exact Hf|]. split; [exact Hrt|]. split; [exact Ha|exact E].
    + pose proof (sorted_arrs_ok TbIso g w (seq 0 (nv g)) [] P) as Ha.
      destruct (Properties_C04_trees_tbb.C04c_result_iso_trees_tbb_mpi_exact g w (seq 0 (nv g)) [] 0 P _
                  (fun _ _ => []) (fun _ => chain_tree 0 (P - 1)) Hs Hw Hr HP Hrt Ha)
        as (fi & cy & t & sp & rs & _ & E & _).
      exists t, 0, (seq 0 (nv g)), [], (sorted_arrs TbIso g w (seq 0 (nv g)) [] P), (fun _ _ => []),
        (fun _ => chain_tree 0 (P - 1)), cy, sp, rs.
      split; [exact Hr|]. split; [exact Hrt|]. split; [exact Ha|exact E].
Qed.

(* ==================================================================================================================== *)
(* 4. end-to-end statements, premise-free for EVERY selectable entry point                                              *)
(* ==================================================================================================================== *)

(* ---- 4a. mcb-dimacs: every runnable option record, the only weight line carries THE optimum ---- *)
Lemma e2e_optimum_all : forall (run : DimacsModel.graph -> call -> Z) (l : layout) (d : positive) (o : opts) (P : nat),
  file_domain d l -> runnable o ->
  let gr := denot l in let c := CallMcb (priority o) (o_parallel o) in
  can_return_all P (to_graph gr) (scaled_weights d gr) c (run gr c) ->
  exists r, demo_mcb_file run o (render l) = FRan r /\ dispatch_ok (run gr) r c /\
            printed_weights r = [LWeight (run gr c)] /\ is_opt (to_graph gr) (scaled_weights d gr) (run gr c).
Proof.
  intros run l d o P Hdom Ho gr c Hret. destruct (file_domain_facts d l Hdom) as (_ & Hs & Hw).
  apply (e2e_optimum_modulo_entry_point run l d o Hdom Ho).
  apply (can_return_all_exact_opt P _ _ c _ Hs Hw); [discriminate|reflexivity|exact Hret].
Qed.

(* integer files: the weight list is the list of numerators *)
Lemma e2e_optimum_all_int : forall (run : DimacsModel.graph -> call -> Z) (l : layout) (o : opts) (P : nat),
  layout_ok l = true -> clean (denot l) -> integer_weights (denot l) -> runnable o ->
  let gr := denot l in let c := CallMcb (priority o) (o_parallel o) in
  can_return_all P (to_graph gr) (int_weights gr) c (run gr c) ->
  exists r, demo_mcb_file run o (render l) = FRan r /\
            o_status r = 0 /\ o_diag r = DNone /\ o_run r = Some c /\ In (LUsingAlgo c) (o_out r) /\
            printed_weights r = [LWeight (run gr c)] /\ is_opt (to_graph gr) (int_weights gr) (run gr c).
Proof.
  intros run l o P Hl Hc Hi Ho gr c Hret. destruct (file_domain_int l Hl Hc Hi) as [Hdom Ew].
  fold gr in Ew. rewrite <- Ew in Hret |- *.
  destruct (e2e_optimum_all run l 1 o P Hdom Ho Hret) as (r & E & (A & B & C & _ & D) & Wt & X).
  exists r. repeat (split; [assumption|]). exact X.
Qed.

(* any two runnable option records — two executions, their own schedules and oracles — print the same weight *)
Lemma e2e_options_agree_all : forall (run1 run2 : DimacsModel.graph -> call -> Z) (l : layout) (d : positive) (o1 o2 : opts)
    (P1 P2 : nat),
  file_domain d l -> runnable o1 -> runnable o2 ->
  let gr := denot l in
  let c1 := CallMcb (priority o1) (o_parallel o1) in let c2 := CallMcb (priority o2) (o_parallel o2) in
  can_return_all P1 (to_graph gr) (scaled_weights d gr) c1 (run1 gr c1) ->
  can_return_all P2 (to_graph gr) (scaled_weights d gr) c2 (run2 gr c2) ->
  exists r1 r2 x, demo_mcb_file run1 o1 (render l) = FRan r1 /\ demo_mcb_file run2 o2 (render l) = FRan r2 /\
                  printed_weights r1 = [LWeight x] /\ printed_weights r2 = [LWeight x] /\
                  is_opt (to_graph gr) (scaled_weights d gr) x.
Proof.
  intros run1 run2 l d o1 o2 P1 P2 Hdom Ho1 Ho2 gr c1 c2 H1 H2.
  destruct (e2e_optimum_all run1 l d o1 P1 Hdom Ho1 H1) as (r1 & E1 & _ & W1 & X1).
  destruct (e2e_optimum_all run2 l d o2 P2 Hdom Ho2 H2) as (r2 & E2 & _ & W2 & X2).
  exists r1, r2, (run1 gr c1). split; [exact E1|]. split; [exact E2|]. split; [exact W1|]. split; [|exact X1].
  rewrite W2. pose proof (Properties_C08.C08_opt_unique _ _ _ _ X1 X2) as EQ. unfold gr, c1. rewrite EQ. reflexivity.
Qed.

(* ---- 4b. mcb-dimacs-mpi: every --signed/--fvstrees/--isotrees choice, every P >= 1 ---- *)
Lemma e2e_mpi_optimum_all :
  forall (run : DimacsModel.graph -> call -> Z) (l : layout) (d : positive) (o : opts) (P rank : nat),
  file_domain d l -> runnable o -> (rank < P)%nat ->
  let gr := denot l in let c := CallMpi (priority o) in
  can_return_all P (to_graph gr) (scaled_weights d gr) c (run gr c) ->
  exists r, demo_mpi_file run o (render l) P rank = FRan (Exited r) /\
            o_status r = 0 /\ o_diag r = DNone /\ o_run r = Some c /\
            (rank = 0%nat -> printed_weights r = [LWeight (run gr c)] /\ In (LUsingAlgo c) (o_out r) /\
                             is_opt (to_graph gr) (scaled_weights d gr) (run gr c)) /\
            (rank <> 0%nat -> o_out r = [LProcessor]).
Proof.
  intros run l d o P rank Hdom Ho Hrk gr c Hret. destruct (file_domain_facts d l Hdom) as (_ & Hs & Hw).
  apply (e2e_mpi_optimum_modulo_entry_point run l d o P rank Hdom Ho).
  apply (can_return_all_exact_opt P _ _ c _ Hs Hw); [intros _; lia|reflexivity|exact Hret].
Qed.

(* mcb-dimacs (any flavour, any schedule) and mcb-dimacs-mpi (any flavour, any P >= 1) print the same weight *)
Lemma e2e_mcb_mpi_agree_all :
  forall (run1 run2 : DimacsModel.graph -> call -> Z) (l : layout) (d : positive) (o1 o2 : opts) (P0 P : nat),
  file_domain d l -> runnable o1 -> runnable o2 -> (1 <= P)%nat ->
  let gr := denot l in let c1 := CallMcb (priority o1) (o_parallel o1) in let c2 := CallMpi (priority o2) in
  can_return_all P0 (to_graph gr) (scaled_weights d gr) c1 (run1 gr c1) ->
  can_return_all P (to_graph gr) (scaled_weights d gr) c2 (run2 gr c2) ->
  exists r1 r2 x, demo_mcb_file run1 o1 (render l) = FRan r1 /\ demo_mpi_file run2 o2 (render l) P 0 = FRan (Exited r2) /\
                  printed_weights r1 = [LWeight x] /\ printed_weights r2 = [LWeight x] /\
                  is_opt (to_graph gr) (scaled_weights d gr) x.
Proof.
  intros run1 run2 l d o1 o2 P0 P Hdom Ho1 Ho2 HP gr c1 c2 H1 H2.
  destruct (e2e_optimum_all run1 l d o1 P0 Hdom Ho1 H1) as (r1 & E1 & _ & W1 & X1).
  destruct (e2e_mpi_optimum_all run2 l d o2 P 0 Hdom Ho2 HP H2) as (r2 & E2 & _ & _ & _ & D0 & _).
  destruct (D0 eq_refl) as (W2 & _ & X2).
  exists r1, r2, (run1 gr c1). split; [exact E1|]. split; [exact E2|]. split; [exact W1|]. split; [|exact X1].
  rewrite W2. pose proof (Properties_C08.C08_opt_unique _ _ _ _ X1 X2) as EQ. unfold gr, c1. rewrite EQ. reflexivity.
Qed.

(* ---- 4c. approx-mcb-dimacs: every flavour, sequential or TBB, 2 <= k ---- *)
(* k < 2^63: the model's hop bound 2k-1 is a natural number, the code's is computed in std::size_t — they agree below 2^63
   (every --k an int can hold) *)
Lemma e2e_approx_all :
  forall (run : DimacsModel.graph -> call -> Z) (l : layout) (d : positive) (o : opts) (P : nat),
  file_domain d l -> runnable o -> 2 <= o_k o < 2 ^ 63 ->
  let gr := denot l in let k := o_k o in let c := CallApprox (priority o) (o_parallel o) k in
  can_return_all P (to_graph gr) (scaled_weights d gr) c (run gr c) ->
  exists r opt, demo_approx_file run o (render l) = FRan r /\ dispatch_ok (run gr) r c /\
                printed_weights r = [LWeight (run gr c)] /\
                is_opt (to_graph gr) (scaled_weights d gr) opt /\ opt <= run gr c <= (2 * k - 1) * opt.
Proof.
  intros run l d o P Hdom Ho Hk gr k c Hret. destruct (file_domain_facts d l Hdom) as (Hv & Hs & Hw).
  destruct Hdom as (Hl & _ & _).
  assert (Ek : size_t_of_int (o_k o) = o_k o) by (unfold size_t_of_int; apply Z.mod_small; lia).
  assert (Hk1 : 1 < size_t_of_int (o_k o)) by (rewrite Ek; lia).
  pose proof (proj1 (proj2 (dispatch_all Z (run gr) o _ Hv Ho)) Hk1) as D. rewrite Ek in D. fold k c in D.
  assert (Hk' : 1 <= k) by (unfold k; lia).
  destruct (can_return_all_approx P _ _ _ _ k _ Hs Hw Hk' Hret) as (opt & Hopt & Hb).
  exists (demo_approx (run gr) o (verdicts_of gr)), opt. split.
  { unfold demo_approx_file. rewrite (with_file_render l) by exact Hl. reflexivity. }
  split; [exact D|]. split; [destruct D as (_ & _ & _ & D & _); exact D|]. split; [exact Hopt|exact Hb].
Qed.

(* ---- 4d. the hypothesis "can_return_all" is satisfiable on every file of the domain, for every weighted call ---- *)
Lemma e2e_all_sound_value_exists : forall (l : layout) (d : positive) (c : call) (P : nat),
  file_domain d l -> (1 <= P)%nat -> weighted_call c = true -> (forall f par k, c = CallApprox f par k -> 1 <= k) ->
  exists x, can_return_all P (to_graph (denot l)) (scaled_weights d (denot l)) c x.
Proof.
  intros l d c P Hdom HP Hc Hk. destruct (file_domain_facts d l Hdom) as (_ & Hs & Hw).
  exact (can_return_all_exists P _ _ c Hs Hw HP Hc Hk).
Qed.
