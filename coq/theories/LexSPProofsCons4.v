(* LexSPProofsCons4.v — C12 consistency, part 4 (track B): the label-setting invariant of lex_dijkstra over the FULL
   lexicographic label (distance, edge count, vertex set), on top of the structural invariant lx_inv
   (LexSPProofs.v) and the distance invariant lz_ext / lz_inn (LexSPProofsDist.v):
     k_pred  every reached vertex carries the combination of its predecessor's label (a settled vertex);
     k_min   a settled vertex carries a label that no shortest walk from s undercuts (w.r.t. lc_LT);
     k_rel   every edge (a, y) out of a settled vertex a has been relaxed: y is settled or the candidate label over
             that edge is not better than y's label (the comparison as coded).
   When u is popped every shortest s-u walk enters u from a settled vertex a (positive weights), whose label is
   minimal; extension by a fresh vertex is isotone, the candidate over (a, u) was compared with u's label, and on
   good labels the coded comparison is the total order lc_LT: hence u's label is minimal (lc_pop_min).
   Result: lc_dijkstra_K.  Prefix lc_. *)
From Coq Require Import List Arith Bool Lia ZArith Permutation Sorted.
From Parmcb Require Import GraphModel GF2Model GraphSpec GraphLemmas HeapModel LexSPModel LexSPProofsHeap LexSPProofs
  LexSPProofsDist LexSPProofsCons1 LexSPProofsCons3.
Import ListNotations.

Section Inv.
  Variable g : graph.
  Variable wts : list Z.
  Variable s : nat.
  Hypothesis Hsg : simple_graph g.
  Hypothesis Hpos : positive_weights g wts.

  Notation zinv := (lx_inv Z 0%Z Z.add g wts s).
  Notation zinner := (lx_inner Z 0%Z Z.add g wts s).
  Notation zvisited := (lx_visited Z s).
  Notation zrelax := (lx_relax Z 0%Z Z.add Z.ltb g wts s).
  Notation zstep := (lx_step Z 0%Z Z.add Z.ltb g wts s).
  Notation zpopped := (lx_popped Z 0%Z Z.ltb).
  Notation zheap := (hp_heap (label Z) (@l_dist Z)).
  Notation lab st v := (zkey (lx_lex st) v).
  Notation ctx := (lc_ctx g wts s).
  Notation cand st a e y := (zcombine wts (lab st a) e a y).

  Record lc_K (st : lx_state Z) (D : list nat) : Prop := {
    k_pred : lc_kpred g wts st D;
    k_min : forall x q, In x D -> lc_shortest g wts s q x -> ~ lc_LT (lc_pl wts s q) (lab st x);
    k_rel : forall a e y, In a D -> joins g e a y -> In y D \/ zltb (cand st a e y) (lab st y) = false
  }.

  Record lc_I (u : nat) (scanned : list (nat * nat)) (st : lx_state Z) (D : list nat) : Prop := {
    i_pred : lc_kpred g wts st D;
    i_min : forall x q, In x D -> lc_shortest g wts s q x -> ~ lc_LT (lc_pl wts s q) (lab st x);
    i_rel : forall a e y, In a D -> a <> u -> joins g e a y -> In y D \/ zltb (cand st a e y) (lab st y) = false;
    i_scan : forall e y, In (e, y) scanned ->
             joins g e u y /\ (In y D \/ zltb (cand st u e y) (lab st y) = false)
  }.

  (* a candidate that was not better than the old label is not better than a label that replaced the old one *)
  Lemma lc_upd_keep st D a e' u e w :
    ctx st D -> In a D -> In u D -> ~ In w D -> w < nv g -> zvisited st w ->
    joins g e' a w -> joins g e u w ->
    zltb (cand st a e' w) (lab st w) = false -> zltb (cand st u e w) (lab st w) = true ->
    zltb (cand st a e' w) (cand st u e w) = false.
  Proof.
    intros Hc Ha Hu Hw Hwn Hwv Hja Hju Hold Hnew.
    destruct (lc_cand g wts s Hsg Hpos st D a e' w Hc Ha Hw Hja) as [_ [_ [_ [_ [_ Ga]]]]].
    destruct (lc_cand g wts s Hsg Hpos st D u e w Hc Hu Hw Hju) as [_ [_ [_ [_ [_ Gu]]]]].
    pose proof (lc_good_lab g wts s Hsg Hpos st D w Hc Hwn Hwv) as Gw.
    destruct (zltb (cand st a e' w) (cand st u e w)) eqn:E; [|reflexivity]. exfalso.
    apply (lc_ltb_LT _ _ Ga Gu) in E. apply (lc_ltb_LT _ _ Gu Gw) in Hnew.
    pose proof (lc_LT_trans _ _ _ E Hnew) as H. apply (lc_ltb_LT _ _ Ga Gw) in H. congruence.
  Qed.

  (* ---- one relaxation ------------------------------------------------------------------------- *)
  Lemma lc_relax_I u d_u scanned e w st st' D :
    joins g e u w -> zinner u d_u st D -> lz_inn g wts s u scanned st D -> lc_I u scanned st D ->
    zrelax u d_u (LxOk st) (e, w) = LxOk st' -> lc_I u (scanned ++ [(e, w)]) st' D.
  Proof.
    intros Hj [Hinv [HuD Hdu]] Hy HI Hr.
    assert (Hctx : ctx st D).
    { split; [exact Hinv|]. split; [apply (y_final _ _ _ _ _ _ _ Hy)|apply (i_pred _ _ _ _ HI)]. }
    pose proof Hinv as [L1 L2 L3 Ss Sp Sl Nd Rg Vs Pr].
    destruct HI as [I1 I2 I3 I4].
    destruct (gl_simple_joins g e u w Hsg Hj) as [Hun [Hwn Huw]].
    apply lx_relax_cases in Hr.
    destruct Hr as [Heq Hwhy|Hwu Hws _ Hp Heq|h' Hwu Hws _ Hp Hlt Hup Heq].
    - (* nothing changes *)
      subst st'. constructor; auto. intros e' y Hin. apply in_app_iff in Hin as [Hin|[Hin|[]]]; [auto|].
      injection Hin as <- <-. split; [exact Hj|]. destruct Hwhy as [->|[->|[_ Hnlt]]].
      + left; exact HuD.
      + left. destruct (lc_D_path g wts s Hsg Hpos st D u Hctx HuD) as [p [_ [_ [Hvs _]]]].
        apply Hvs. left; reflexivity.
      + right. rewrite Hdu. exact Hnlt.
    - (* first time found *)
      set (c := zcombine wts d_u e u w) in *.
      assert (HwD : ~ In w D).
      { intros H. destruct (Rg w (in_or_app _ _ _ (or_introl H))) as [_ [Hc|Hc]]; contradiction. }
      assert (Hnvis : ~ zvisited st w) by (intros [H|H]; contradiction).
      assert (Hlab : forall v, lab st' v = if Nat.eqb w v then c else lab st v).
      { intros v. subst st'. cbn [lx_lex]. unfold lx_key. destruct (Nat.eqb_spec w v) as [->|Hne].
        - rewrite hp_nth_set_nth_eq by lia. reflexivity.
        - rewrite hp_nth_set_nth_neq by exact Hne. reflexivity. }
      assert (HlabD : forall x, In x D -> lab st' x = lab st x).
      { intros x Hx. rewrite Hlab. destruct (Nat.eqb_spec w x) as [->|]; [contradiction|reflexivity]. }
      assert (Hpred : forall v, nth v (lx_pred st') None = if Nat.eqb w v then Some e else nth v (lx_pred st) None).
      { intros v. subst st'. cbn [lx_pred]. destruct (Nat.eqb_spec w v) as [->|Hne].
        - rewrite hp_nth_set_nth_eq by lia. reflexivity.
        - rewrite hp_nth_set_nth_neq by exact Hne. reflexivity. }
      clear Heq. constructor.
      + intros v e0 Hv. rewrite Hpred in Hv. destruct (Nat.eqb_spec w v) as [<-|Hne].
        * injection Hv as <-. exists u. split; [exact Hj|]. split; [auto|]. split; [exact HuD|].
          rewrite Hlab, Nat.eqb_refl, (HlabD u HuD), Hdu. reflexivity.
        * destruct (I1 v e0 Hv) as [a [Ha1 [Ha2 [Ha3 Ha4]]]]. exists a. split; [exact Ha1|]. split; [exact Ha2|].
          split; [exact Ha3|]. rewrite (HlabD a Ha3), Hlab. destruct (Nat.eqb_spec w v); [contradiction|exact Ha4].
      + intros x q Hx Hq. rewrite (HlabD x Hx). apply I2; assumption.
      + intros a e0 y Ha Hau Hj0. rewrite (HlabD a Ha), Hlab. destruct (Nat.eqb_spec w y) as [<-|Hne].
        * exfalso. apply Hnvis. apply (y_relaxed _ _ _ _ _ _ _ Hy a e0 w Ha Hau Hj0).
        * apply I3; assumption.
      + intros e0 y Hin. rewrite (HlabD u HuD). apply in_app_iff in Hin as [Hin|[Hin|[]]].
        * destruct (I4 e0 y Hin) as [Hj0 H0]. split; [exact Hj0|]. rewrite Hlab.
          destruct (Nat.eqb_spec w y) as [<-|Hne]; [|exact H0].
          exfalso. apply Hnvis. apply (y_scanned _ _ _ _ _ _ _ Hy e0 w Hin).
        * injection Hin as <- <-. split; [exact Hj|]. right. rewrite Hlab, Nat.eqb_refl, Hdu. apply lc_ltb_irrefl.
    - (* strictly better label for a vertex still in the queue *)
      set (c := zcombine wts d_u e u w) in *.
      pose proof (hp_update_some _ _ _ _ _ _ Hup) as [Hwh _].
      assert (HwD : ~ In w D) by (intros H; eapply lx_NoDup_app_disj; eauto).
      assert (Hvis : zvisited st w) by (right; exact Hp).
      assert (Hlab : forall v, lab st' v = if Nat.eqb w v then c else lab st v).
      { intros v. subst st'. cbn [lx_lex]. unfold lx_key. destruct (Nat.eqb_spec w v) as [->|Hne].
        - rewrite hp_nth_set_nth_eq by lia. reflexivity.
        - rewrite hp_nth_set_nth_neq by exact Hne. reflexivity. }
      assert (HlabD : forall x, In x D -> lab st' x = lab st x).
      { intros x Hx. rewrite Hlab. destruct (Nat.eqb_spec w x) as [->|]; [contradiction|reflexivity]. }
      assert (Hpred : forall v, nth v (lx_pred st') None = if Nat.eqb w v then Some e else nth v (lx_pred st) None).
      { intros v. subst st'. cbn [lx_pred]. destruct (Nat.eqb_spec w v) as [->|Hne].
        - rewrite hp_nth_set_nth_eq by lia. reflexivity.
        - rewrite hp_nth_set_nth_neq by exact Hne. reflexivity. }
      clear Heq Hup.
      assert (Hlt' : zltb (cand st u e w) (lab st w) = true) by (rewrite Hdu; exact Hlt).
      constructor.
      + intros v e0 Hv. rewrite Hpred in Hv. destruct (Nat.eqb_spec w v) as [<-|Hne].
        * injection Hv as <-. exists u. split; [exact Hj|]. split; [auto|]. split; [exact HuD|].
          rewrite Hlab, Nat.eqb_refl, (HlabD u HuD), Hdu. reflexivity.
        * destruct (I1 v e0 Hv) as [a [Ha1 [Ha2 [Ha3 Ha4]]]]. exists a. split; [exact Ha1|]. split; [exact Ha2|].
          split; [exact Ha3|]. rewrite (HlabD a Ha3), Hlab. destruct (Nat.eqb_spec w v); [contradiction|exact Ha4].
      + intros x q Hx Hq. rewrite (HlabD x Hx). apply I2; assumption.
      + intros a e0 y Ha Hau Hj0. rewrite (HlabD a Ha), Hlab. destruct (Nat.eqb_spec w y) as [<-|Hne].
        * right. destruct (I3 a e0 w Ha Hau Hj0) as [Hc|Hold]; [contradiction|].
          unfold c. rewrite <- Hdu. eapply lc_upd_keep; eauto.
        * apply I3; assumption.
      + intros e0 y Hin. rewrite (HlabD u HuD). apply in_app_iff in Hin as [Hin|[Hin|[]]].
        * destruct (I4 e0 y Hin) as [Hj0 H0]. split; [exact Hj0|]. rewrite Hlab.
          destruct (Nat.eqb_spec w y) as [<-|Hne]; [|exact H0].
          right. destruct H0 as [Hc|Hold]; [contradiction|].
          unfold c. rewrite <- Hdu. eapply lc_upd_keep; eauto.
        * injection Hin as <- <-. split; [exact Hj|]. right. rewrite Hlab, Nat.eqb_refl, Hdu. apply lc_ltb_irrefl.
  Qed.

  Lemma lc_fold_I u d_u D : forall es scanned st st',
    (forall e w, In (e, w) es -> joins g e u w) -> zinner u d_u st D -> lz_inn g wts s u scanned st D ->
    lc_I u scanned st D -> fold_left (zrelax u d_u) es (LxOk st) = LxOk st' -> lc_I u (scanned ++ es) st' D.
  Proof.
    induction es as [|[e w] es IH]; intros scanned st st' Hes Hin Hy HI Hf; cbn [fold_left] in Hf.
    - injection Hf as <-. rewrite app_nil_r. exact HI.
    - pose proof (Hes e w (or_introl eq_refl)) as Hj.
      destruct (lz_relax_ok g wts s Hsg Hpos u d_u scanned e w st D Hj Hin Hy) as [st1 [Hr Hy1]].
      rewrite Hr in Hf.
      pose proof (lx_relax_inner Z 0%Z Z.add Z.ltb g wts s u d_u e w st st1 D Hj Hin Hr) as Hin1.
      pose proof (lc_relax_I u d_u scanned e w st st1 D Hj Hin Hy HI Hr) as HI1.
      specialize (IH (scanned ++ [(e, w)]) st1 st'). rewrite <- app_assoc in IH. cbn [app] in IH.
      apply IH; auto. intros e' w' H. apply Hes. right; exact H.
  Qed.

  (* ---- popping the top of the queue ------------------------------------------------------------- *)

  Lemma lc_walk_nil_inv x z : walk g x [] z -> z = x.
  Proof. intros H. inversion H. reflexivity. Qed.

  Lemma lc_nil_or_snoc {A} (l : list A) : l = [] \/ exists l' a, l = l' ++ [a].
  Proof.
    destruct l as [|x l]; [left; reflexivity|right].
    destruct (@exists_last A (x :: l) ltac:(discriminate)) as [l' [a H]]. exists l', a. exact H.
  Qed.

  Lemma lc_in_nth (h : nat) l : In h l -> exists j, j < length l /\ nth j l 0 = h.
  Proof. intros H. apply (In_nth l h 0) in H. exact H. Qed.

  (* the distance invariant right after the pop (as inside LexSPProofsDist.lz_step_ok) *)
  Lemma lc_pop_inn st D u : zinv st D -> lz_ext g wts s st D -> heap_top (lx_heap st) = Some u ->
    lz_inn g wts s u [] (zpopped st) (D ++ [u]).
  Proof.
    intros Hinv Hx Ht.
    pose proof Hinv as [L1 L2 L3 Ss Sp Sl Nd Rg Vs Pr].
    pose proof Hx as [X1 X2 X3 X4 X5].
    destruct (lx_heap_top_cons _ _ Ht) as [r Hr].
    set (st0 := zpopped st) in *.
    assert (Hdl0 : forall v, dl st0 v = dl st v) by reflexivity.
    assert (Hperm : Permutation (lx_heap st0) r).
    { unfold st0, lx_popped. cbn [lx_heap]. rewrite Hr. apply lx_pop_perm. }
    assert (Hh0 : forall h, In h (lx_heap st0) -> In h (lx_heap st)).
    { intros h Hh. rewrite Hr. right. eapply Permutation_in; eauto. }
    assert (Hmin : forall h, In h (lx_heap st) -> (dl st u <= dl st h)%Z).
    { intros h Hh. apply lc_in_nth in Hh as [j [Hj <-]].
      pose proof (hp_heap_top (label Z) (@l_dist Z) _ _ X1 j Hj) as H. rewrite Hr in H at 1. cbn [nth] in H. exact H. }
    assert (HuD : ~ In u D).
    { intros H. eapply lx_NoDup_app_disj; [exact Nd|exact H|]. rewrite Hr. left; reflexivity. }
    constructor.
    - unfold st0, lx_popped. cbn [lx_lex lx_heap]. apply hp_pop_heap; [exact lz_m_lt|exact lz_m_ge|exact X1].
    - intros x h Hxin Hh. rewrite !Hdl0. apply Hh0 in Hh. apply in_app_iff in Hxin as [Hxin|[<-|[]]]; auto.
    - intros x p Hxin Hw. rewrite Hdl0. apply in_app_iff in Hxin as [Hxin|[<-|[]]]; [auto|].
      assert (Hds : dl st s = 0%Z) by (unfold dl; rewrite Sl; reflexivity).
      destruct (in_dec Nat.eq_dec s D) as [HsD|HsD].
      + destruct (lz_exit g wts s Hpos st D Hinv Hx s p u Hw HsD HuD) as [y [Hvy [HyD Hdy]]].
        assert (Hyh : In y (lx_heap st)).
        { specialize (Vs y Hvy). apply in_app_iff in Vs as [H|H]; [contradiction|exact H]. }
        specialize (Hmin y Hyh). lia.
      + assert (Hsh : In s (lx_heap st)).
        { specialize (Vs s (or_introl eq_refl)). apply in_app_iff in Vs as [H|H]; [contradiction|exact H]. }
        specialize (Hmin s Hsh). pose proof (lz_sum_nonneg g wts s p u Hpos Hw). lia.
    - intros x e w Hxin Hxu Hj. apply in_app_iff in Hxin as [Hxin|[<-|[]]]; [|contradiction].
      rewrite !Hdl0. destruct (X4 x e w Hxin Hj) as [H1 H2]. split; auto.
    - intros e w [].
    - intros v. rewrite Hdl0. apply X5.
    - intros x Hxin. rewrite !Hdl0. apply in_app_iff in Hxin as [Hxin|[<-|[]]]; [|lia].
      apply X2; auto. rewrite Hr. left; reflexivity.
  Qed.

  (* the label of the popped vertex is not undercut by any shortest walk *)
  Lemma lc_pop_min st D u : zinv st D -> lz_ext g wts s st D -> lc_K st D -> heap_top (lx_heap st) = Some u ->
    forall q, lc_shortest g wts s q u -> ~ lc_LT (lc_pl wts s q) (lab st u).
  Proof.
    intros Hinv Hx HK Ht q Hq.
    pose proof (lc_pop_inn st D u Hinv Hx Ht) as Hy0.
    pose proof Hinv as [L1 L2 L3 Ss Sp Sl Nd Rg Vs Pr].
    pose proof Hx as [X1 X2 X3 X4 X5].
    destruct HK as [K1 K2 K3].
    assert (Hctx : ctx st D) by (split; [exact Hinv|split; [exact X3|exact K1]]).
    destruct (lx_heap_top_cons _ _ Ht) as [r Hr].
    assert (Huh : In u (lx_heap st)) by (rewrite Hr; left; reflexivity).
    assert (HuD : ~ In u D) by (intros H; eapply lx_NoDup_app_disj; eauto).
    destruct (Rg u (in_or_app _ _ _ (or_intror Huh))) as [Hun Huv].
    assert (Hmin : forall h, In h (lx_heap st) -> (dl st u <= dl st h)%Z).
    { intros h Hh. apply lc_in_nth in Hh as [j [Hj <-]].
      pose proof (hp_heap_top (label Z) (@l_dist Z) _ _ X1 j Hj) as H. rewrite Hr in H at 1. cbn [nth] in H. exact H. }
    assert (Hfin : forall p, walk g s p u -> (dl st u <= lz_sum wts p)%Z).
    { intros p Hp. apply (y_final _ _ _ _ _ _ _ Hy0 u p); [apply in_or_app; right; left; reflexivity|exact Hp]. }
    destruct (lc_path_of' g wts s Hsg st D u Hctx Hun Huv) as [pu [Hrepu Hvsu]].
    assert (Hsumq : lz_sum wts q = dl st u).
    { destruct Hq as [Hqw Hqm]. destruct Hrepu as [Hpw [_ [E1 _]]]. specialize (Hqm pu Hpw).
      specialize (Hfin q Hqw). unfold dl in *. cbn [lc_pl l_dist] in E1. lia. }
    destruct (lc_nil_or_snoc q) as [->|[q' [[e z] ->]]].
    { (* q = [] : u = s *)
      destruct Hq as [Hqw _]. rewrite (lc_walk_nil_inv _ _ Hqw). rewrite (lc_lab_s g wts s st D Hinv). apply lc_LT_irrefl. }
    pose proof Hq as [Hqw _].
    destruct (lc_walk_snoc_inv g Hsg q' s e z u Hqw) as [-> [a [Hq'w Hj]]].
    destruct (lc_sh_split g wts Hsg s q' [(e, z)] a z Hq Hq'w) as [Hq' _].
    pose proof (lz_wt_pos g wts e Hpos (gl_joins_lt g e a z Hj)) as Hwe.
    rewrite lc_sum_app, lc_sum_one in Hsumq.
    assert (Hds : dl st s = 0%Z) by (unfold dl; rewrite Sl; reflexivity).
    assert (HaD : In a D).
    { destruct (in_dec Nat.eq_dec a D) as [H|HaD]; [exact H|]. exfalso.
      destruct (in_dec Nat.eq_dec s D) as [HsD|HsD].
      - destruct (lz_exit g wts s Hpos st D Hinv Hx s q' a Hq'w HsD HaD) as [y [Hvy [HyD Hdy]]].
        assert (Hyh : In y (lx_heap st)).
        { specialize (Vs y Hvy). apply in_app_iff in Vs as [H|H]; [contradiction|exact H]. }
        specialize (Hmin y Hyh). lia.
      - assert (Hsh : In s (lx_heap st)).
        { specialize (Vs s (or_introl eq_refl)). apply in_app_iff in Vs as [H|H]; [contradiction|exact H]. }
        specialize (Hmin s Hsh). pose proof (lz_sum_nonneg g wts s q' a Hpos Hq'w). lia. }
    destruct (lc_cand g wts s Hsg Hpos st D a e z Hctx HaD HuD Hj) as [pa [Hrepa [Hsha [Hvsa [Hrepc Gc]]]]].
    pose proof (lc_good_lab g wts s Hsg Hpos st D z Hctx Hun Huv) as Gu.
    (* the candidate over (a, u) is not better than u's label *)
    assert (H1 : ~ lc_LT (cand st a e z) (lab st z)).
    { destruct (K3 a e z HaD Hj) as [Hc|Hnlt]; [contradiction|]. intros H. apply (lc_ltb_LT _ _ Gc Gu) in H. congruence. }
    (* q is not better than the candidate *)
    assert (H2 : ~ lc_LT (lc_pl wts s (q' ++ [(e, z)])) (cand st a e z)).
    { intros H. destruct Hrepc as [_ [_ Ec]]. apply (lc_LT_EQ_r _ _ _ Ec) in H.
      apply lc_pl_snoc_cancel in H.
      - destruct Hrepa as [_ [_ Ea]]. apply (lc_LT_EQ_r _ _ _ (lc_EQ_sym _ _ Ea)) in H.
        exact (K2 a q' HaD Hq' H).
      - pose proof (lc_sh_simple g wts Hsg Hpos _ _ _ Hq) as Hnd.
        rewrite lc_wverts_app in Hnd. cbn [wverts map snd] in Hnd.
        change (s :: wverts q' ++ [z]) with ((s :: wverts q') ++ [z]) in Hnd.
        intros Hin. eapply lx_NoDup_app_disj; [exact Hnd|exact Hin|left; reflexivity].
      - intros Hin. apply HuD. apply Hvsa. exact Hin. }
    exact (lc_nLT_trans _ _ _ H2 H1).
  Qed.

  Lemma lc_pop_I st D u : zinv st D -> lz_ext g wts s st D -> lc_K st D -> heap_top (lx_heap st) = Some u ->
    lc_I u [] (zpopped st) (D ++ [u]).
  Proof.
    intros Hinv Hx HK Ht. pose proof (lc_pop_min st D u Hinv Hx HK Ht) as Hm.
    destruct HK as [K1 K2 K3]. constructor.
    - intros v e Hv. destruct (K1 v e Hv) as [a [H1 [H2 [H3 H4]]]]. exists a.
      repeat split; auto. apply in_or_app; left; exact H3.
    - intros x q Hxin Hq. apply in_app_iff in Hxin as [Hxin|[<-|[]]]; [apply K2; assumption|apply Hm; exact Hq].
    - intros a e y Ha Hau Hj. apply in_app_iff in Ha as [Ha|[<-|[]]]; [|contradiction].
      destruct (K3 a e y Ha Hj) as [H|H]; [left; apply in_or_app; left; exact H|right; exact H].
    - intros e y [].
  Qed.

  Lemma lc_step_K st D u st' : zinv st D -> lz_ext g wts s st D -> lc_K st D -> heap_top (lx_heap st) = Some u ->
    zstep st u = LxOk st' -> lc_K st' (D ++ [u]).
  Proof.
    intros Hinv Hx HK Ht Hs.
    pose proof (lx_popped_inner Z 0%Z Z.add Z.ltb g wts s st D u Hinv Ht) as Hinner.
    pose proof (lc_pop_inn st D u Hinv Hx Ht) as Hy0.
    pose proof (lc_pop_I st D u Hinv Hx HK Ht) as HI0.
    unfold lx_step in Hs.
    pose proof (lc_fold_I u (lab st u) (D ++ [u]) (out_edges g u) [] (zpopped st) st'
                  (fun e w H => proj1 (gl_out_edges_joins g u e w) H) Hinner Hy0 HI0 Hs) as HI.
    cbn [app] in HI. destruct HI as [I1 I2 I3 I4]. constructor; auto.
    intros a e y Ha Hj. destruct (Nat.eq_dec a u) as [->|Hau].
    - apply I4. apply gl_out_edges_joins. exact Hj.
    - apply I3; assumption.
  Qed.

  Lemma lc_init_K : lc_K (lx_init Z 0%Z Z.ltb g s) [].
  Proof.
    constructor.
    - intros v e Hv. exfalso. unfold lx_init in Hv. cbn [lx_pred] in Hv.
      rewrite lx_nth_const_default in Hv. discriminate.
    - intros x q [].
    - intros a e y [].
  Qed.

  (* lex_dijkstra succeeds and ends with an empty queue in a state satisfying all three invariants *)
  Theorem lc_dijkstra_K : s < nv g ->
    exists st D, lex_dijkstra Z 0%Z Z.add Z.ltb g wts s = LxOk st /\ zinv st D /\ lz_ext g wts s st D /\ lc_K st D /\
                 lx_heap st = [].
  Proof.
    intros Hs. destruct (lz_dijkstra_ok g wts s Hsg Hpos Hs) as [st [D0 [Hrun _]]].
    exists st. unfold lex_dijkstra in *. destruct (Nat.ltb_spec s (nv g)) as [_|H]; [|lia]. cbn [negb] in *.
    pose proof (lx_loop_rule Z 0%Z Z.add Z.ltb g wts s (fun st D => zinv st D /\ lz_ext g wts s st D /\ lc_K st D)) as Hrule.
    specialize (Hrule (fun st D H => lx_inv_bound Z 0%Z Z.add g wts s st D (proj1 H))).
    assert (Hstep : forall st D u st', zinv st D /\ lz_ext g wts s st D /\ lc_K st D -> heap_top (lx_heap st) = Some u ->
              zstep st u = LxOk st' -> zinv st' (D ++ [u]) /\ lz_ext g wts s st' (D ++ [u]) /\ lc_K st' (D ++ [u])).
    { intros st1 D u st' [H1 [H2 H3]] Ht Hst. destruct (lz_step_ok g wts s Hsg Hpos st1 D u H1 H2 Ht) as [st2 [E [H4 H5]]].
      pose proof (lc_step_K st1 D u st' H1 H2 H3 Ht Hst) as H6.
      rewrite E in Hst. injection Hst as <-. auto. }
    specialize (Hrule Hstep (S (nv g)) (lx_init Z 0%Z Z.ltb g s) []
                      (conj (lx_init_inv Z 0%Z Z.add Z.ltb g wts s Hs) (conj (lz_init_ext g wts s Hs) lc_init_K))).
    cbn [length] in Hrule. specialize (Hrule ltac:(lia)). rewrite Hrun in Hrule.
    destruct Hrule as [D [[H1 [H2 H3]] H4]]. exists D. auto.
  Qed.
End Inv.
