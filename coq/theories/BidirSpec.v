(* BidirSpec.v — specification of the OPTIMALITY of the bidirectional signed search of SignedModel.v
   (exact domain: Z weights), and of the two branches of a phase of mcb_sva_signed built on it.
   Definitions and statements only (`Definition …_stmt : Prop`); proofs are in BidirProofs*.v.

   0. The cover ("two-level", signed) graph of a parameter record P: signed vertices x < 2n
      (x = v + (if positive then 0 else n)); a cover step x -e-> y follows a non-hidden edge e of g from
      vertex_of x to vertex_of y and flips the sign iff e is signed (this is SignedProofs.edge_ok).
      cwalk = walks of the cover graph, clen = their length, cshortest = shortest walks.
   1. bidir_spec_stmt: what one call of bidirectional_signed_dijkstra returns.
   2. all_vertices_opt_stmt / hidden_edges_opt_stmt: the two branches of a phase return a minimum
      odd simple cycle with its weight whenever an odd simple cycle exists.
   3. signed_search_stmt: the two premises of SignedProofs.C01/C02_signed_modulo_search_lemma.
   4. C01_signed_stmt / C02_signed_stmt: the final, premise-free statements. *)
From Coq Require Import List Arith Bool ZArith Lia.
From Parmcb Require Import GraphModel GF2Model GraphSpec McbSpec ForestModel HeapModel SvaModel SvaSpec
     SignedModel SignedZModel SignedProofs.
Import ListNotations.

(* ---- 0. the cover graph ----------------------------------------------------------------------- *)

(* one step x -e-> y of the cover graph of P *)
Definition cstep (P : sparams Z) (x e y : nat) : Prop :=
  x < 2 * nv (sp_g Z P) /\ y < 2 * nv (sp_g Z P) /\ edge_ok Z P y x e.

(* a walk of the cover graph: list of (edge id, signed vertex reached), as GraphSpec.walk *)
Inductive cwalk (P : sparams Z) : nat -> list (nat * nat) -> nat -> Prop :=
| cwalk_nil : forall x, x < 2 * nv (sp_g Z P) -> cwalk P x [] x
| cwalk_cons : forall x e y p z, cstep P x e y -> cwalk P y p z -> cwalk P x ((e, y) :: p) z.

(* length of a walk = sum of the weights of its edges, with multiplicity *)
Definition clen (P : sparams Z) (p : list (nat * nat)) : Z := weight (sp_wts Z P) (wedges p).

Definition cshortest (P : sparams Z) (s : nat) (p : list (nat * nat)) (t : nat) : Prop :=
  cwalk P s p t /\ forall p', cwalk P s p' t -> (clen P p <= clen P p')%Z.

(* d is the distance from s to x *)
Definition cdist (P : sparams Z) (s x : nat) (d : Z) : Prop :=
  (exists p, cwalk P s p x /\ clen P p = d) /\ forall p, cwalk P s p x -> (d <= clen P p)%Z.

(* strictly below the weight limit of P (always, when P has no limit) *)
Definition blim (P : sparams Z) (d : Z) : Prop := below_limit Z Z.ltb P d = true.

(* ---- 1. one bidirectional search ------------------------------------------------------------------ *)

(* For a simple graph with positive weights and two different signed vertices ss, st:
   (a) never SearchError;
   (b) Found cyc w: cyc is the canonical edge set of an EDGE-SIMPLE SHORTEST cover walk ss ~> st, w is its
       length (= the weight of cyc) and lies below the limit;
   (c) NotFound: either no cover walk ss ~> st is below the limit, or there is a shortest cover walk
       ss ~> st, below the limit, that repeats an edge. *)
Definition bidir_spec_stmt : Prop :=
  forall (P : sparams Z) (s : nat) (spos : bool) (t : nat) (tpos : bool),
    simple_graph (sp_g Z P) -> positive_weights (sp_g Z P) (sp_wts Z P) ->
    s < nv (sp_g Z P) -> t < nv (sp_g Z P) ->
    let n := nv (sp_g Z P) in
    let ss := signed_id n s spos in
    let st := signed_id n t tpos in
    ss <> st ->
    match bidirectional_signed_dijkstra Z 0%Z Z.add Z.ltb P s spos t tpos with
    | SearchError _ => False
    | Found _ cyc w =>
        exists p, cshortest P ss p st /\ NoDup (wedges p) /\ sorted cyc
                  /\ (forall e, In e cyc <-> In e (wedges p))
                  /\ w = clen P p /\ w = weight (sp_wts Z P) cyc /\ blim P w
    | NotFound _ =>
        (forall p, cwalk P ss p st -> ~ blim P (clen P p))
        \/ (exists p, cshortest P ss p st /\ blim P (clen P p) /\ ~ NoDup (wedges p))
    end.

(* ---- 2. the two branches of a phase --------------------------------------------------------------- *)

(* "odd" for an edge set: an odd number of signed edges (SignedProofs.par) *)
Definition odd_par (signed : list nat) (D : list nat) : Prop := par signed D = true.

Definition all_vertices_opt_stmt : Prop :=
  forall (g : graph) (wts : list Z) (signed : list nat),
    simple_graph g -> positive_weights g wts ->
    (exists D, simple_cycle g D /\ odd_par signed D) ->
    exists c w, all_vertices Z 0%Z Z.add Z.ltb g wts signed (seq 0 (nv g)) None = Some (Some (c, w))
                /\ min_odd_cycle g wts (odd_par signed) c /\ w = weight wts c.

Definition hidden_edges_opt_stmt : Prop :=
  forall (eord : nat -> nat) (g : graph) (wts : list Z) (signed : list nat),
    simple_graph g -> positive_weights g wts ->
    (forall e, In e signed -> e < ne g) ->
    (exists D, simple_cycle g D /\ odd_par signed D) ->
    exists c w, hidden_edges Z 0%Z Z.add Z.ltb g wts signed (sort_eord eord signed) None = Some (Some (c, w))
                /\ min_odd_cycle g wts (odd_par signed) c /\ w = weight wts c.

(* ---- 3. the premises of the modulo-search theorems ------------------------------------------------ *)

Definition signed_search_stmt : Prop :=
  forall (g : graph) (wts : list Z) (roots : list nat) (eord : nat -> nat) (fi : forest_index),
    simple_graph g -> positive_weights g wts -> (forall v, v < nv g -> In v roots) ->
    create_index g roots = Some fi ->
    signed_search_min g wts eord fi /\ signed_search_total g wts eord fi.

(* ---- 4. the final statements ----------------------------------------------------------------------- *)

Definition C01_signed_stmt : Prop :=
  forall (g : graph) (wts : list Z) (roots eord : list nat),
    simple_graph g -> positive_weights g wts -> (forall v, v < nv g -> In v roots) ->
    exists cycles total sup,
      mcb_sva_signed_Z g wts roots eord = SvaOk cycles total sup
      /\ cycle_basis g cycles /\ has_cycle_space_dimension g (length cycles).

Definition C02_signed_stmt : Prop :=
  forall (g : graph) (wts : list Z) (roots eord : list nat),
    simple_graph g -> positive_weights g wts -> (forall v, v < nv g -> In v roots) ->
    exists cycles total sup,
      mcb_sva_signed_Z g wts roots eord = SvaOk cycles total sup
      /\ min_cycle_basis g wts cycles /\ total = total_weight wts cycles.
