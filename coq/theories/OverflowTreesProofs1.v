(* OverflowTreesProofs1.v — C07, clause "overflows a signed integer", tree-based variants, part 1:
   lex_dijkstra / SPTree (LexSPModel.v) on a simple graph with positive weights, any source.
   S = wsum g wts (sum of all edge weights), wmax = the largest edge weight.
     ovt_weight_nodup       a duplicate-free list of edge ids (in range or not) weighs in [0, S]
     ovt_connected_le_S     a quantity below the weight of every walk s -> x is <= S as soon as x is reachable
     ovt_top_bounds         the label of the vertex popped next has a distance in [0, S]
     ovt_dijkstra_tr        EVERY tentative distance combine(d_u, w(e)) formed by a run lies in [0, S + wmax]; precisely,
                            each is  d + w(e)  with 0 <= d <= S and e an edge of the graph
     ovt_node_weight_bounds every value stored in a tree node (SPNode::weight) lies in [0, S]
     ovt_lex_S_refuted      the bound S alone does NOT hold for the tentative distances: on the path 0 -1- 1 -5- 2 the
                            scan of vertex 2 forms 6 + 5 = 11 > S = 6 (the edge back to the parent 1)
   No axioms. *)
From Coq Require Import List Arith Bool ZArith Lia Permutation.
From Parmcb Require Import GraphModel GraphSpec GraphLemmas HeapModel LexSPModel LexSPProofsHeap LexSPProofs LexSPProofsDist
     RefProofs1 RefProofs4 OverflowProofs1 OverflowProofs4 OverflowTreesModel.
Import ListNotations.

Local Open Scope Z_scope.

(* ---- sums over duplicate-free lists, without the range hypothesis ------------------------------------------- *)

Lemma ovt_wt_out g wts e : positive_weights g wts -> (ne g <= e)%nat -> wt wts e = 0.
Proof. intros [Hl _] He. unfold wt. apply nth_overflow. lia. Qed.

Lemma ovt_weight_filter g wts l : positive_weights g wts ->
  weight wts l = weight wts (filter (fun e => Nat.ltb e (ne g)) l).
Proof.
  intros Hpw. induction l as [|e l IH]; [reflexivity|].
  cbn [filter]. destruct (Nat.ltb_spec e (ne g)) as [Hlt|Hge].
  - rewrite !rf_weight_cons, IH. reflexivity.
  - rewrite rf_weight_cons, IH, (ovt_wt_out g wts e Hpw Hge). lia.
Qed.

Lemma ovt_weight_nodup g wts l : positive_weights g wts -> NoDup l -> 0 <= weight wts l <= wsum g wts.
Proof.
  intros Hpw Hnd. split; [eapply rf_weight_nonneg; exact Hpw|].
  rewrite (ovt_weight_filter g wts l Hpw). apply ov_weight_nodup_le; [exact Hpw|apply NoDup_filter; exact Hnd|].
  intros e He. apply filter_In in He as [_ He]. apply Nat.ltb_lt in He. exact He.
Qed.

Lemma ovt_wt_bounds g wts e : positive_weights g wts -> 0 <= wt wts e <= wmax wts.
Proof. intros Hpw. split; [eapply rf_wt_nonneg; exact Hpw|apply ov_wt_le_wmax]. Qed.

(* ---- a lower bound of all walk weights is at most S ------------------------------------------------------------ *)

Lemma ovt_connected_le_S g wts s x d : simple_graph g -> positive_weights g wts ->
  connected g s x -> (forall p, walk g s p x -> d <= lz_sum wts p) -> d <= wsum g wts.
Proof.
  intros Hs Hpw [p Hp] Hd.
  destruct (rf_walk_to_path g Hs p s x Hp) as (p' & Hp' & Hnd & _).
  specialize (Hd p' Hp'). rewrite lz_sum_weight in Hd.
  pose proof (rf_path_edges_nodup g p' s x Hp' Hnd) as Hnde.
  pose proof (ovt_weight_nodup g wts (wedges p') Hpw Hnde). lia.
Qed.

(* ---- the loop invariant ---------------------------------------------------------------------------------------- *)

Section Dijkstra.
  Variable g : graph.
  Variable wts : list Z.
  Variable s : nat.
  Hypothesis Hsg : simple_graph g.
  Hypothesis Hpos : positive_weights g wts.

  Notation zinv := (lx_inv Z 0%Z Z.add g wts s).
  Notation zvisited := (lx_visited Z s).
  Notation zrelax := (lx_relax Z 0%Z Z.add Z.ltb g wts s).
  Notation zstep := (lx_step Z 0%Z Z.add Z.ltb g wts s).
  Local Notation S := (wsum g wts).

  (* every vertex reached so far is connected to the source *)
  Definition ovt_reach (st : lx_state Z) : Prop := forall x, zvisited st x -> connected g s x.

  Definition ovt_P (st : lx_state Z) (D : list nat) : Prop :=
    zinv st D /\ lz_ext g wts s st D /\ ovt_reach st.

  Lemma ovt_relax_reach u d_u e w st st' :
    (s < nv g)%nat -> joins g e u w -> connected g s u -> ovt_reach st ->
    zrelax u d_u (LxOk st) (e, w) = LxOk st' -> ovt_reach st'.
  Proof.
    intros Hs Hj Hu Hr Hrel. apply lx_relax_cases in Hrel.
    assert (Hw : connected g s w).
    { destruct Hu as [p Hp]. exists (p ++ [(e, w)]). eapply gl_walk_app; [exact Hp|].
      econstructor; [exact Hj|]. constructor. apply (gl_simple_joins g e u w Hsg Hj). }
    assert (Hset : forall pr x, zvisited {| lx_lex := lx_lex st; lx_dist := lx_dist st;
                                            lx_pred := set_nth (lx_pred st) w (Some e); lx_heap := pr |} x ->
                                x = w \/ zvisited st x).
    { intros pr x [->|Hx]; [right; left; reflexivity|]. cbn [lx_pred] in Hx.
      destruct (Nat.eq_dec w x) as [->|Hne]; [left; reflexivity|]. right. right.
      rewrite hp_nth_set_nth_neq in Hx by exact Hne. exact Hx. }
    destruct Hrel as [-> _|_ _ _ _ ->|h' _ _ _ _ _ _ ->]; [exact Hr| |].
    - intros x [->|Hx]; [apply Hr; left; reflexivity|]. cbn [lx_pred] in Hx.
      destruct (Nat.eq_dec w x) as [->|Hne]; [exact Hw|]. apply Hr. right.
      rewrite hp_nth_set_nth_neq in Hx by exact Hne. exact Hx.
    - intros x [->|Hx]; [apply Hr; left; reflexivity|]. cbn [lx_pred] in Hx.
      destruct (Nat.eq_dec w x) as [->|Hne]; [exact Hw|]. apply Hr. right.
      rewrite hp_nth_set_nth_neq in Hx by exact Hne. exact Hx.
  Qed.

  Lemma ovt_fold_reach u d_u : (s < nv g)%nat -> connected g s u -> forall es st st',
    (forall e w, In (e, w) es -> joins g e u w) -> ovt_reach st ->
    fold_left (zrelax u d_u) es (LxOk st) = LxOk st' -> ovt_reach st'.
  Proof.
    intros Hs Hu. induction es as [|[e w] es IH]; intros st st' Hes Hr Hf; cbn [fold_left] in Hf.
    - injection Hf as <-. exact Hr.
    - destruct (zrelax u d_u (LxOk st) (e, w)) as [st1| | | |] eqn:E1.
      + eapply IH; [intros; apply Hes; right; eassumption| |exact Hf].
        eapply ovt_relax_reach; [exact Hs|apply Hes; left; reflexivity|exact Hu|exact Hr|exact E1].
      + rewrite lx_fold_err in Hf by discriminate. discriminate.
      + rewrite lx_fold_err in Hf by discriminate. discriminate.
      + rewrite lx_fold_err in Hf by discriminate. discriminate.
      + rewrite lx_fold_err in Hf by discriminate. discriminate.
  Qed.

  (* one iteration: it succeeds, keeps the invariant, and the popped label's distance is in [0, S] *)
  Lemma ovt_step st D u : ovt_P st D -> heap_top (lx_heap st) = Some u ->
    exists st', zstep st u = LxOk st' /\ ovt_P st' (D ++ [u])
                /\ 0 <= l_dist (lx_key Z 0 (lx_lex st) u) <= S.
  Proof.
    intros (Hinv & Hext & Hr) Ht.
    destruct (lz_step_ok g wts s Hsg Hpos st D u Hinv Hext Ht) as (st' & Est & Hinv' & Hext').
    pose proof (li_s_lt _ _ _ _ _ _ _ _ Hinv) as Hs.
    assert (Huh : In u (lx_heap st)).
    { destruct (lx_heap_top_cons _ _ Ht) as [r ->]. left; reflexivity. }
    assert (Huc : connected g s u).
    { apply Hr. apply (li_range _ _ _ _ _ _ _ _ Hinv). apply in_or_app. right; exact Huh. }
    exists st'. split; [exact Est|]. split.
    - split; [exact Hinv'|]. split; [exact Hext'|].
      unfold lx_step in Est. eapply (ovt_fold_reach u _ Hs Huc (out_edges g u) (lx_popped Z 0 Z.ltb st) st').
      + intros e w Hew. apply gl_out_edges_joins. exact Hew.
      + intros x Hx. apply Hr. exact Hx.
      + exact Est.
    - (* the popped label is final in st' and unchanged by the scan *)
      pose proof (lx_popped_inner Z 0 Z.add Z.ltb g wts s st D u Hinv Ht) as Hinner.
      unfold lx_step in Est.
      pose proof (lx_fold_inner Z 0 Z.add Z.ltb g wts s u _ (D ++ [u]) (out_edges g u) _ st'
                    (fun e w Hew => proj1 (gl_out_edges_joins g u e w) Hew) Hinner Est) as (_ & _ & Ekey).
      assert (HuD : In u (D ++ [u])) by (apply in_or_app; right; left; reflexivity).
      split.
      + pose proof (x_nonneg _ _ _ _ _ Hext' u) as H0. unfold dl in H0. rewrite Ekey in H0. exact H0.
      + apply (ovt_connected_le_S g wts s u _ Hsg Hpos Huc). intros p Hp.
        pose proof (x_final _ _ _ _ _ Hext' u p HuD Hp) as H. unfold dl in H. rewrite Ekey in H. exact H.
  Qed.

  Lemma ovt_init : (s < nv g)%nat -> ovt_P (lx_init Z 0 Z.ltb g s) [].
  Proof.
    intros Hs. split; [apply lx_init_inv; exact Hs|]. split; [apply lz_init_ext; exact Hs|].
    intros x [->|Hx]; [exists []; constructor; exact Hs|].
    exfalso. apply Hx. unfold lx_init. cbn [lx_pred]. apply lx_nth_const_default.
  Qed.

  (* ---- the trace ------------------------------------------------------------------------------------------------ *)

  (* a value of the trace: d + w(e) for a popped distance d in [0, S] and an edge e of the graph *)
  Definition ovt_tent (v : Z) : Prop :=
    exists d e, v = d + wt wts e /\ 0 <= d <= S /\ (e < ne g)%nat.

  Lemma ovt_relax_tr_vals u d_u r e w : forall v, In v (snd (lx_relax_tr g wts s u d_u r (e, w))) ->
    v = l_dist d_u + wt wts e.
  Proof.
    intros v Hv. unfold lx_relax_tr in Hv. destruct r as [st| | | |]; try (destruct Hv).
    destruct (Nat.eqb w u); [destruct Hv|]. destruct (Nat.eqb w s); [destruct Hv|].
    cbn [snd] in Hv. destruct Hv as [<-|[]]. reflexivity.
  Qed.

  Lemma ovt_fold_tr_vals u d_u : forall es r v, In v (snd (lx_fold_tr g wts s u d_u es r)) ->
    exists e w, In (e, w) es /\ v = l_dist d_u + wt wts e.
  Proof.
    induction es as [|[e w] es IH]; intros r v Hv; [destruct Hv|].
    cbn [lx_fold_tr snd] in Hv. apply in_app_iff in Hv as [Hv|Hv].
    - exists e, w. split; [left; reflexivity|]. eapply ovt_relax_tr_vals; exact Hv.
    - destruct (IH _ v Hv) as (e' & w' & Hin & E). exists e', w'. split; [right; exact Hin|exact E].
  Qed.

  Lemma ovt_loop_tr : forall fuel st D, ovt_P st D -> Forall ovt_tent (snd (lx_loop_tr fuel g wts s st)).
  Proof.
    induction fuel as [|fuel IH]; intros st D HP.
    - cbn [lx_loop_tr]. destruct (heap_top (lx_heap st)); constructor.
    - cbn [lx_loop_tr]. destruct (heap_top (lx_heap st)) as [u|] eqn:Et; [|constructor]. cbv zeta.
      destruct (ovt_step st D u HP Et) as (st' & Est & HP' & Hd).
      assert (Hvals : Forall ovt_tent
                (snd (lx_fold_tr g wts s u (lx_key Z 0 (lx_lex st) u) (out_edges g u)
                        (LxOk {| lx_lex := lx_lex st; lx_dist := lx_dist st; lx_pred := lx_pred st;
                                 lx_heap := heap_pop (label Z) (lx_ltb Z Z.ltb) (lx_key Z 0 (lx_lex st)) (lx_heap st) |})))).
      { apply Forall_forall. intros v Hv. apply ovt_fold_tr_vals in Hv as (e & w & Hin & ->).
        exists (l_dist (lx_key Z 0 (lx_lex st) u)), e. split; [reflexivity|]. split; [exact Hd|].
        apply gl_out_edges_joins in Hin. eapply gl_joins_lt. exact Hin. }
      rewrite ovt_fold_erase. unfold lx_step, lx_popped in Est. rewrite Est. cbn [snd].
      apply Forall_app. split; [exact Hvals|]. eapply IH. exact HP'.
  Qed.

  Theorem ovt_dijkstra_tr_tent : Forall ovt_tent (snd (lex_dijkstra_tr g wts s)).
  Proof.
    unfold lex_dijkstra_tr. destruct (Nat.ltb_spec s (nv g)) as [Hs|Hs]; cbn [negb]; [|constructor].
    eapply ovt_loop_tr. apply ovt_init. exact Hs.
  Qed.

  Lemma ovt_tent_bounds v : ovt_tent v -> 0 <= v <= S + wmax wts.
  Proof. intros (d & e & -> & Hd & He). pose proof (ovt_wt_bounds g wts e Hpos). lia. Qed.

  Theorem ovt_dijkstra_tr : Forall (fun v => 0 <= v <= S + wmax wts) (snd (lex_dijkstra_tr g wts s)).
  Proof. eapply Forall_impl; [|exact ovt_dijkstra_tr_tent]. exact ovt_tent_bounds. Qed.

  (* the values kept in the tree nodes *)
  Theorem ovt_node_weight_bounds t v nd : sptree_Z g wts s = LxOk t -> sp_node_of Z t v = Some nd ->
    0 <= sn_weight nd <= S.
  Proof.
    intros Ht Hv.
    assert (Hs : (s < nv g)%nat).
    { destruct (Nat.lt_ge_cases s (nv g)) as [H|H]; [exact H|]. exfalso. unfold sptree_Z, sptree, lex_dijkstra in Ht.
      destruct (Nat.ltb_spec s (nv g)); [lia|]. cbn [negb] in Ht. discriminate. }
    destruct (lz_C12_dist g wts s Hsg Hpos Hs) as (t' & Ht' & Hok & Hnode & Hmin).
    rewrite Ht in Ht'. injection Ht' as <-.
    destruct (c12_chain _ _ _ _ Hok v nd Hv) as (p & _ & Hw & Ew & _).
    split; [rewrite Ew; eapply rf_weight_nonneg; exact Hpos|].
    apply (ovt_connected_le_S g wts s v _ Hsg Hpos); [exists p; exact Hw|].
    intros q Hq. rewrite lz_sum_weight. eapply Hmin; eassumption.
  Qed.
End Dijkstra.

(* the statement for one tree, and for the trees of a list of roots *)
Theorem ovt_sptree_tr g wts s : simple_graph g -> positive_weights g wts ->
  fst (sptree_tr g wts s) = sptree_Z g wts s
  /\ Forall (fun v => 0 <= v <= wsum g wts + wmax wts) (snd (sptree_tr g wts s)).
Proof. intros Hs Hpw. split; [reflexivity|]. apply ovt_dijkstra_tr; assumption. Qed.

Lemma ovt_all_tr g wts : simple_graph g -> positive_weights g wts -> forall ss,
  Forall (fun v => 0 <= v <= wsum g wts + wmax wts) (snd (lx_all_tr g wts ss)).
Proof.
  intros Hs Hpw. induction ss as [|s ss IH]; [constructor|].
  cbn [lx_all_tr]. pose proof (ovt_dijkstra_tr g wts s Hs Hpw) as H1.
  destruct (fst (sptree_tr g wts s)); cbn [snd]; try exact H1.
  apply Forall_app. split; [exact H1|exact IH].
Qed.

(* ---- the bound S is not enough for the tentative distances ------------------------------------------------------ *)

Definition ovt_p3 : graph := {| nv := 3; ge := [(0, 1); (1, 2)]%nat |}.
Definition ovt_p3_wts : list Z := [1; 5].

Lemma ovt_lex_S_refuted :
  simple_graph ovt_p3 /\ positive_weights ovt_p3 ovt_p3_wts /\ wsum ovt_p3 ovt_p3_wts = 6 /\ wmax ovt_p3_wts = 5
  /\ snd (lex_dijkstra_tr ovt_p3 ovt_p3_wts 0) = [1; 6; 11]
  /\ ~ Forall (fun v => 0 <= v <= wsum ovt_p3 ovt_p3_wts) (snd (lex_dijkstra_tr ovt_p3 ovt_p3_wts 0)).
Proof.
  split; [reflexivity|]. split; [split; [reflexivity|repeat constructor]|].
  split; [reflexivity|]. split; [reflexivity|].
  assert (E : snd (lex_dijkstra_tr ovt_p3 ovt_p3_wts 0) = [1; 6; 11]) by (vm_compute; reflexivity).
  split; [exact E|]. rewrite E. intros H. inversion H as [|? ? _ H1]; subst. inversion H1 as [|? ? _ H2]; subst.
  inversion H2 as [|? ? H3 _]; subst. vm_compute in H3. destruct H3 as [_ H3]. apply H3. reflexivity.
Qed.
