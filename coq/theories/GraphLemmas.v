(* GraphLemmas.v — basic, reusable lemmas about the specification vocabulary of GraphSpec.v
   (ends/joins/incident, out_edges, walks, connectivity, acyclic edge sets) and a few list facts.
   All names carry the prefix gl_.  No model-specific content. *)
From Coq Require Import List Arith Bool Lia Sorted.
From Parmcb Require Import GraphModel GraphSpec.
Import ListNotations.

(* ---- lists ---------------------------------------------------------------------- *)

Lemma gl_memb_In x l : memb x l = true <-> In x l.
Proof.
  unfold memb; rewrite existsb_exists; split.
  - intros [y [Hin Heq]]; apply Nat.eqb_eq in Heq; subst; auto.
  - intros Hin; exists x; split; auto; apply Nat.eqb_refl.
Qed.

Lemma gl_memb_false x l : memb x l = false <-> ~ In x l.
Proof.
  rewrite <- gl_memb_In. destruct (memb x l); split; intros H; auto; try discriminate.
  exfalso; apply H; reflexivity.
Qed.

Lemma gl_sorted_NoDup l : sorted l -> NoDup l.
Proof.
  unfold sorted; induction 1 as [|x l Hs IH Hx]; constructor; auto.
  intros Hin. rewrite Forall_forall in Hx. apply Hx in Hin. lia.
Qed.

Lemma gl_NoDup_app {A} (a b : list A) :
  NoDup a -> NoDup b -> (forall x, In x a -> ~ In x b) -> NoDup (a ++ b).
Proof.
  induction a as [|x a IH]; intros Ha Hb Hd; cbn [app]; auto.
  inversion Ha as [|? ? Hx Ha']; subst. constructor.
  - rewrite in_app_iff. intros [H|H]; [auto|]. apply (Hd x); cbn; auto.
  - apply IH; auto. intros y Hy. apply Hd. right; exact Hy.
Qed.

Lemma gl_filter_length_split {A} (p : A -> bool) l :
  length (filter (fun x => negb (p x)) l) + length (filter p l) = length l.
Proof.
  induction l as [|x l IH]; cbn [filter length]; auto.
  destruct (p x); cbn [negb length]; lia.
Qed.

(* the position of an element inside a filtered list *)
Lemma gl_filter_nth_error {A} (p : A -> bool) : forall l j x,
  nth_error l j = Some x -> p x = true ->
  nth_error (filter p l) (length (filter p (firstn j l))) = Some x.
Proof.
  induction l as [|y l IH]; intros j x Hn Hp.
  - destruct j; discriminate.
  - destruct j as [|j]; cbn [nth_error] in Hn.
    + inversion Hn; subst. cbn [firstn filter length]. rewrite Hp. reflexivity.
    + cbn [firstn filter]. destruct (p y); cbn [length nth_error]; apply IH; auto.
Qed.

Lemma gl_filter_one {A} (p : A -> bool) (x : A) : forall l,
  NoDup l -> In x l -> p x = true -> (forall y, In y l -> p y = true -> y = x) ->
  length (filter p l) = 1.
Proof.
  induction l as [|y l IH]; intros Hnd Hin Hp Huniq; [destruct Hin|].
  inversion Hnd as [|? ? Hy Hnd']; subst. cbn [filter].
  destruct Hin as [->|Hin].
  - rewrite Hp. cbn [length]. f_equal.
    assert (filter p l = []) as ->; [|reflexivity].
    destruct (filter p l) as [|z zs] eqn:E; auto.
    assert (In z (filter p l)) as Hz by (rewrite E; left; reflexivity).
    apply filter_In in Hz as [Hz1 Hz2].
    assert (z = x) by (apply Huniq; [right|]; auto). subst; contradiction.
  - destruct (p y) eqn:Epy.
    + assert (y = x) by (apply Huniq; [left|]; auto). subst; contradiction.
    + apply IH; auto. intros z Hz. apply Huniq. right; exact Hz.
Qed.

Lemma gl_seq_nth_error : forall m a e, e < m -> nth_error (seq a m) e = Some (a + e).
Proof.
  induction m as [|m IH]; intros a e He; [lia|].
  destruct e as [|e]; cbn [seq nth_error]; [f_equal; lia|].
  rewrite IH by lia. f_equal; lia.
Qed.

(* ---- ends / joins / incident ---------------------------------------------------- *)

Lemma gl_ends_lt g e st : ends g e = Some st -> e < ne g.
Proof. unfold ends, ne; intros H. apply nth_error_Some. rewrite H; discriminate. Qed.

Lemma gl_simple_ends g e s t :
  simple_graph g -> ends g e = Some (s, t) -> s < nv g /\ t < nv g /\ s <> t.
Proof.
  unfold simple_graph, simpleb, ends. intros Hs He.
  apply andb_true_iff in Hs as [Hs _]. rewrite forallb_forall in Hs.
  apply nth_error_In in He. apply Hs in He. cbn [fst snd] in He.
  apply andb_true_iff in He as [He Hne]. apply andb_true_iff in He as [H1 H2].
  apply Nat.ltb_lt in H1, H2. apply negb_true_iff, Nat.eqb_neq in Hne. auto.
Qed.

Lemma gl_joins_sym g e x y : joins g e x y -> joins g e y x.
Proof. unfold joins; tauto. Qed.

Lemma gl_joins_lt g e x y : joins g e x y -> e < ne g.
Proof. intros [H|H]; eapply gl_ends_lt; eauto. Qed.

Lemma gl_simple_joins g e x y :
  simple_graph g -> joins g e x y -> x < nv g /\ y < nv g /\ x <> y.
Proof.
  intros Hs [H|H]; apply (gl_simple_ends g e _ _ Hs) in H; intuition.
Qed.

Lemma gl_incident_joins g e v : incident g e v = true <-> exists w, joins g e v w.
Proof.
  unfold incident, joins. split.
  - destruct (ends g e) as [[s t]|]; [|discriminate]. intros H.
    apply orb_true_iff in H as [H|H]; apply Nat.eqb_eq in H; subst.
    + exists t; auto.
    + exists s; auto.
  - intros [w [H|H]]; rewrite H; rewrite Nat.eqb_refl; auto using orb_true_r.
Qed.

(* the only vertices incident to an edge joining x and y are x and y *)
Lemma gl_joins_incident g e x y v : joins g e x y -> incident g e v = true -> v = x \/ v = y.
Proof.
  unfold incident. intros [H|H]; rewrite H; intros Hv;
    apply orb_true_iff in Hv as [Hv|Hv]; apply Nat.eqb_eq in Hv; auto.
Qed.

Lemma gl_out_from_In u es : forall i e w,
  In (e, w) (out_from u es i) <->
  exists j, e = i + j /\ (nth_error es j = Some (u, w) \/ nth_error es j = Some (w, u)).
Proof.
  induction es as [|[s t] es IH]; intros i e w; cbn [out_from].
  - split; [intros []|]. intros [j [_ [H|H]]]; destruct j; discriminate.
  - rewrite !in_app_iff, IH. split.
    + intros [H|[H|[j [-> H]]]].
      * destruct (Nat.eqb_spec s u) as [->|]; [|destruct H]. destruct H as [H|[]].
        inversion H; subst. exists 0. split; [lia|left; reflexivity].
      * destruct (Nat.eqb_spec t u) as [->|]; [|destruct H]. destruct H as [H|[]].
        inversion H; subst. exists 0. split; [lia|right; reflexivity].
      * exists (S j). split; [lia|exact H].
    + intros [j [-> H]]. destruct j as [|j]; cbn [nth_error] in H.
      * destruct H as [H|H]; inversion H; subst; rewrite Nat.eqb_refl.
        -- left; left; f_equal; lia.
        -- right; left; left; f_equal; lia.
      * right; right. exists j. split; [lia|exact H].
Qed.

Lemma gl_out_edges_joins g u e w : In (e, w) (out_edges g u) <-> joins g e u w.
Proof.
  unfold out_edges, joins, ends. rewrite gl_out_from_In. split.
  - intros [j [-> H]]. exact H.
  - intros H. exists e. split; [reflexivity|exact H].
Qed.

(* ---- walks and connectivity ----------------------------------------------------- *)

Lemma gl_walk_end_lt g x p z : walk g x p z -> z < nv g.
Proof. induction 1; auto. Qed.

Lemma gl_walk_start_lt g x p z : simple_graph g -> walk g x p z -> x < nv g.
Proof.
  intros Hs H; destruct H as [x Hx|x e y p z Hj _]; auto.
  apply (gl_simple_joins g e x y Hs Hj).
Qed.

Lemma gl_walk_app g x p y q z : walk g x p y -> walk g y q z -> walk g x (p ++ q) z.
Proof.
  induction 1 as [x Hx|x e y p z' Hj Hw IH]; intros Hq; cbn [app]; auto.
  econstructor; eauto.
Qed.

Lemma gl_walk_rev g x p z :
  simple_graph g -> walk g x p z -> exists p', walk g z p' x /\ incl (wedges p') (wedges p).
Proof.
  intros Hs H. induction H as [x Hx|x e y p z Hj Hw [p' [Hw' Hi]]].
  - exists []. split; [constructor; auto|apply incl_refl].
  - exists (p' ++ [(e, x)]). split.
    + eapply gl_walk_app; [exact Hw'|]. econstructor; [apply gl_joins_sym; exact Hj|].
      constructor. apply (gl_simple_joins g e x y Hs Hj).
    + unfold wedges in *. rewrite map_app. cbn [map fst].
      intros a Ha. apply in_app_iff in Ha as [Ha|[<-|[]]]; [right; auto|left; reflexivity].
Qed.

Lemma gl_connected_refl g x : x < nv g -> connected g x x.
Proof. intros Hx; exists []; constructor; auto. Qed.

Lemma gl_connected_sym g x y : simple_graph g -> connected g x y -> connected g y x.
Proof. intros Hs [p Hp]. destruct (gl_walk_rev g x p y Hs Hp) as [p' [Hp' _]]. exists p'; auto. Qed.

Lemma gl_connected_trans g x y z : connected g x y -> connected g y z -> connected g x z.
Proof. intros [p Hp] [q Hq]. exists (p ++ q). eapply gl_walk_app; eauto. Qed.

Lemma gl_connected_in_connected g F x y : connected_in g F x y -> connected g x y.
Proof. intros [p [Hp _]]; exists p; auto. Qed.

Lemma gl_connected_in_refl g F x : x < nv g -> connected_in g F x x.
Proof. intros Hx; exists []; split; [constructor; auto|intros ? []]. Qed.

Lemma gl_connected_in_sym g F x y :
  simple_graph g -> connected_in g F x y -> connected_in g F y x.
Proof.
  intros Hs [p [Hp Hi]]. destruct (gl_walk_rev g x p y Hs Hp) as [p' [Hp' Hi']].
  exists p'; split; auto. eapply incl_tran; eauto.
Qed.

Lemma gl_connected_in_trans g F x y z :
  connected_in g F x y -> connected_in g F y z -> connected_in g F x z.
Proof.
  intros [p [Hp Hip]] [q [Hq Hiq]]. exists (p ++ q). split; [eapply gl_walk_app; eauto|].
  unfold wedges in *. rewrite map_app. apply incl_app; auto.
Qed.

Lemma gl_connected_in_mono g F F' x y :
  incl F F' -> connected_in g F x y -> connected_in g F' x y.
Proof. intros Hi [p [Hp Hip]]. exists p; split; auto. eapply incl_tran; eauto. Qed.

Lemma gl_connected_in_step g F e x y :
  In e F -> joins g e x y -> y < nv g -> connected_in g F x y.
Proof.
  intros He Hj Hy. exists [(e, y)]. split.
  - econstructor; [exact Hj|constructor; exact Hy].
  - intros a [<-|[]]; exact He.
Qed.

(* every edge of a walk is an edge of the graph *)
Lemma gl_walk_edges_lt g x p z : walk g x p z -> forall e, In e (wedges p) -> e < ne g.
Proof.
  induction 1 as [x Hx|x e y p z Hj Hw IH]; intros a Ha; [destruct Ha|].
  destruct Ha as [<-|Ha]; [eapply gl_joins_lt; eauto|auto].
Qed.

(* a vertex set closed under adjacency is closed under walks *)
Lemma gl_closed_walk g (S : nat -> Prop) :
  (forall v e w, S v -> joins g e v w -> S w) ->
  forall x p z, walk g x p z -> S x -> S z.
Proof.
  intros Hc x p z H. induction H as [x Hx|x e y p z Hj Hw IH]; intros Hx'; auto.
  apply IH. eapply Hc; eauto.
Qed.

(* ---- acyclic edge sets ---------------------------------------------------------- *)

Lemma gl_acyclic_nil g : acyclic_edges g [].
Proof.
  intros Z _ Hne Hi _. destruct Z as [|z Z]; [congruence|]. apply (Hi z); left; reflexivity.
Qed.

Lemma gl_acyclic_incl g F F' : incl F' F -> acyclic_edges g F -> acyclic_edges g F'.
Proof. intros Hi Ha Z Hs Hne Hz. apply Ha; auto. eapply incl_tran; eauto. Qed.

(* adding a pendant edge (one endpoint w untouched by F) keeps an edge set acyclic *)
Lemma gl_acyclic_add_leaf g F F' e w :
  acyclic_edges g F ->
  (forall e', In e' F -> incident g e' w = false) ->
  incident g e w = true ->
  (forall x, In x F' -> x = e \/ In x F) ->
  acyclic_edges g F'.
Proof.
  intros Ha Hw He HF' Z Hs Hne Hi Hev.
  destruct (in_dec Nat.eq_dec e Z) as [Hin|Hnin].
  - specialize (Hev w). unfold deg_in in Hev.
    rewrite (gl_filter_one (fun e0 => incident g e0 w) e Z) in Hev; [discriminate| | | |].
    + apply gl_sorted_NoDup; exact Hs.
    + exact Hin.
    + exact He.
    + intros y Hy Hyw. destruct (HF' y (Hi y Hy)) as [->|HyF]; auto.
      rewrite (Hw y HyF) in Hyw. discriminate.
  - apply (Ha Z); auto. intros y Hy. destruct (HF' y (Hi y Hy)) as [->|HyF]; auto. contradiction.
Qed.
