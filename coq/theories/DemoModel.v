(* DemoModel.v — executable model of the four command-line programs of /repo/src (property C11):
     src/mcb-dimacs.cpp            -> demo_mcb
     src/approx-mcb-dimacs.cpp     -> demo_approx
     src/collection-stats-dimacs.cpp -> demo_stats
     src/mcb-dimacs-mpi.cpp        -> demo_mpi_orig (as found, defect D7) / demo_mpi (after fix: c11-fix-mpi-gate)

   Each `main` is a function from
     * the parsed command line (record [opts]: the option table of the program with its defaults, plus the four facts the
       front end branches on: parse error, --help, input file given, input file opens),
     * the verdicts of the three validators of include/parmcb/util.hpp on the graph that was read ([verdicts]; the reader
       itself is property C10, the validators are evaluated by the run and recomputed independently by the check),
     * the results of the library entry points on that graph ([run : call -> W], universally quantified: C11 only says
       WHICH entry point is called and that ITS result is what gets printed; that this result is the optimum is C02/C03/C04,
       resp. C05/C06 for the approximate ones),
     * for the MPI program: the number of processes P and the rank,
   to an [outcome]: exit status, class of the diagnostic written to stderr, the library entry point that was called (if any),
   and the sequence of stdout line classes.

   Definitions only (no proofs); statement order = order of the C++.  The `--cores` block of the two TBB demos is property
   C20 (TbbControlModel.v: demo_knob/demo_says); its optional "Using cores:" line is not part of [o_out] here.

   Lock-step semantics of the MPI program (the part of "the monad of C04" that C11 needs): every library entry point of
   mcb-dimacs-mpi is a collective program over `world` (its first communication is a collective) and `return` from main runs
   ~environment() = MPI_Finalize, which is collective as well.  Hence, for one job:
     - if every rank calls the entry point, it returns on every rank (assumption inherited from C04) and all ranks finish;
     - if every rank leaves main before the entry point, all of them meet in MPI_Finalize and exit;
     - if some ranks leave and others call the entry point, the latter wait forever in the collective ([Deadlock]) and the
       former wait forever in MPI_Finalize ([FinalizeWait]) — no process of the job terminates. *)
From Coq Require Import ZArith List Bool.
Import ListNotations.
Open Scope Z_scope.

(* ---------------------------------------------------------------------------------------------------------------- *)
(* vocabulary                                                                                                       *)
(* ---------------------------------------------------------------------------------------------------------------- *)
Inductive family := Signed | FvsTrees | IsoTrees.

(* the library entry points the programs can call *)
Inductive call :=
| CallMcb (f : family) (par : bool)             (* parmcb::mcb_sva_{signed,fvs_trees,iso_trees}[_tbb] *)
| CallApprox (f : family) (par : bool) (k : Z)  (* parmcb::approx_mcb_sva_{...}[_tbb](g, w, k, out) *)
| CallStats                                     (* FVS / ISO / HORTON cycle builders of collection-stats-dimacs *)
| CallMpi (f : family).                         (* mcb_sva_signed_mpi / mcb_sva_fvs_trees_tbb_mpi / mcb_sva_iso_trees_tbb_mpi *)

(* class of the message written to std::cerr *)
Inductive diag :=
| DNone
| DBadArgs    (* "Invalid arguments:..." (po::error) *)
| DNoInput    (* "Input file missing. See usage by calling with -h ." *)
| DOpenFail   (* "Failed to open input file." *)
| DLoops      (* "Graph has loops, aborting.." *)
| DMulti      (* "Graph has multiple edges, aborting.." *)
| DNonPos     (* "Graph has negative or zero weight edges, aborting.." *)
| DBadK.      (* "Parameter k must be larger than 1, aborting.." *)

(* classes of stdout lines, in the order they are written *)
Inductive line (W : Type) :=
| LUsage                       (* the options_description, on --help *)
| LProcessor                   (* MPI: "processor name: .., number of tasks: .., rank: .." *)
| LSize                        (* "Graph has n vertices" / "Graph has m edges"  (stats: "graph n:" "graph m:" "graph n*m:") *)
| LUsingK (k approx : Z)       (* "Using k=<k>, approximation will be <2k-1>" *)
| LUsingAlgo (c : call)        (* "Using <ENTRY POINT NAME>" *)
| LWeight (w : W)              (* "MCB weight = <w>" *)
| LCycles                      (* "MCB cycles" and one line per cycle *)
| LTime                        (* "time:..." *)
| LStats.                      (* the nine statistics lines of collection-stats-dimacs *)
Arguments LUsage {W}. Arguments LProcessor {W}. Arguments LSize {W}. Arguments LUsingK {W}. Arguments LUsingAlgo {W}.
Arguments LWeight {W}. Arguments LCycles {W}. Arguments LTime {W}. Arguments LStats {W}.

(* the parsed command line.  Option table (boost::program_options), name : type = default
     help,h           flag                          all four programs
     verbose,v        bool = false (implicit true)  all four
     k                int  = 2                      approx-mcb-dimacs only
     signed           bool = true                   mcb-dimacs, approx-mcb-dimacs, mcb-dimacs-mpi
     fvstrees         bool = false                  same three
     isotrees         bool = false                  same three   (registered but never read by any program)
     parallel,p       bool = true                   mcb-dimacs, approx-mcb-dimacs
     printcycles      bool = false (implicit true)  mcb-dimacs, approx-mcb-dimacs, mcb-dimacs-mpi
     cores            int  = 0                      mcb-dimacs, approx-mcb-dimacs   (property C20)
     input-file,I     string, positional 1          all four
   A program ignores the fields of options it does not register (allow_unregistered()). *)
Record opts := {
  o_parse_error : bool;    (* parser.run()/store() threw po::error *)
  o_help : bool;           (* vm.count("help") *)
  o_input_given : bool;    (* vm.count("input-file") *)
  o_file_opens : bool;     (* fopen(...) != NULL *)
  o_verbose : bool;
  o_k : Z;                 (* the int as parsed, before the conversion to std::size_t *)
  o_signed : bool;
  o_fvstrees : bool;
  o_isotrees : bool;
  o_parallel : bool;
  o_printcycles : bool;
  o_cores : Z
}.

Definition default_opts : opts :=
  {| o_parse_error := false; o_help := false; o_input_given := true; o_file_opens := true;
     o_verbose := false; o_k := 2; o_signed := true; o_fvstrees := false; o_isotrees := false;
     o_parallel := true; o_printcycles := false; o_cores := 0 |}.

(* results of parmcb::has_loops / has_multiple_edges / has_non_positive_weights on the graph that was read *)
Record verdicts := { v_loops : bool; v_multi : bool; v_nonpos : bool }.

Record outcome (W : Type) := {
  o_status : Z;                 (* EXIT_SUCCESS = 0, EXIT_FAILURE = 1 *)
  o_diag : diag;
  o_run : option call;          (* the library entry point that was called, if any *)
  o_out : list (line W)
}.
Arguments o_status {W}. Arguments o_diag {W}. Arguments o_run {W}. Arguments o_out {W}.

Definition EXIT_SUCCESS : Z := 0.
Definition EXIT_FAILURE : Z := 1.

(* leave with EXIT_FAILURE after writing diagnostic d; `out` = what stdout already received *)
Definition fail {W} (d : diag) (out : list (line W)) : outcome W :=
  {| o_status := EXIT_FAILURE; o_diag := d; o_run := None; o_out := out |}.

(* ---------------------------------------------------------------------------------------------------------------- *)
(* the try-block every main starts with                                                                              *)
(* ---------------------------------------------------------------------------------------------------------------- *)
(* Some r = the program ends here with r; None = go on *)
Definition front_end {W} (o : opts) : option (outcome W) :=
  if o_parse_error o then Some (fail DBadArgs [])                       (* catch (po::error): return / exit(EXIT_FAILURE) *)
  else if o_help o then
    Some {| o_status := EXIT_SUCCESS; o_diag := DNone; o_run := None; o_out := [LUsage] |}
  else if negb (o_input_given o) then Some (fail DNoInput [])          (* exit(EXIT_FAILURE) *)
  else None.

(* ---------------------------------------------------------------------------------------------------------------- *)
(* mcb-dimacs                                                                                                        *)
(* ---------------------------------------------------------------------------------------------------------------- *)
(* lines 115-151: if (signed) { if (parallel) .._tbb else .. } else if (fvstrees) {..} else {..}; `isotrees` is not read *)
Definition mcb_dispatch (o : opts) : call :=
  if o_signed o then
    (if o_parallel o then CallMcb Signed true else CallMcb Signed false)
  else if o_fvstrees o then
    (if o_parallel o then CallMcb FvsTrees true else CallMcb FvsTrees false)
  else
    (if o_parallel o then CallMcb IsoTrees true else CallMcb IsoTrees false).

(* the report after the algorithm returned: weight, optional cycles, optional time *)
Definition report {W} (o : opts) (w : W) : list (line W) :=
  [LWeight w] ++ (if o_printcycles o then [LCycles] else []) ++ (if o_verbose o then [LTime] else []).

Definition demo_mcb {W} (run : call -> W) (o : opts) (v : verdicts) : outcome W :=
  match front_end o with
  | Some r => r
  | None =>
    if negb (o_file_opens o) then fail DOpenFail [] else
    (* read_dimacs_from_file; then lines 81-92 *)
    if v_loops v then fail DLoops [] else
    if v_multi v then fail DMulti [] else
    if v_nonpos v then fail DNonPos [] else
    let out := [LSize] in
    (* lines 98-109: --cores block, property C20 *)
    let c := mcb_dispatch o in
    let out := out ++ [LUsingAlgo c] in
    let w := run c in
    {| o_status := EXIT_SUCCESS; o_diag := DNone; o_run := Some c; o_out := out ++ report o w |}
  end.

(* ---------------------------------------------------------------------------------------------------------------- *)
(* approx-mcb-dimacs                                                                                                 *)
(* ---------------------------------------------------------------------------------------------------------------- *)
(* std::size_t k = 2; if (vm.count("k")) k = vm["k"].as<int>();   count is 1 (the option has a default_value), and the
   int is converted to the 64-bit unsigned std::size_t: a negative --k wraps around *)
Definition size_t_of_int (k : Z) : Z := k mod 2 ^ 64.

Definition approx_dispatch (o : opts) (k : Z) : call :=
  if o_signed o then
    (if o_parallel o then CallApprox Signed true k else CallApprox Signed false k)
  else if o_fvstrees o then
    (if o_parallel o then CallApprox FvsTrees true k else CallApprox FvsTrees false k)
  else
    (if o_parallel o then CallApprox IsoTrees true k else CallApprox IsoTrees false k).

Definition demo_approx {W} (run : call -> W) (o : opts) (v : verdicts) : outcome W :=
  match front_end o with
  | Some r => r
  | None =>
    if negb (o_file_opens o) then fail DOpenFail [] else
    if v_loops v then fail DLoops [] else
    if v_multi v then fail DMulti [] else
    if v_nonpos v then fail DNonPos [] else
    let out := [LSize] in
    let k := size_t_of_int (o_k o) in
    if k <=? 1 then fail DBadK out else                      (* if (k <= 1), AFTER the two "Graph has" lines *)
    let out := out ++ [LUsingK k ((2 * k - 1) mod 2 ^ 64)] in  (* (2*k-1) in std::size_t arithmetic *)
    let c := approx_dispatch o k in
    let out := out ++ [LUsingAlgo c] in
    let w := run c in
    {| o_status := EXIT_SUCCESS; o_diag := DNone; o_run := Some c; o_out := out ++ report o w |}
  end.

(* ---------------------------------------------------------------------------------------------------------------- *)
(* collection-stats-dimacs                                                                                           *)
(* ---------------------------------------------------------------------------------------------------------------- *)
Definition demo_stats {W} (run : call -> W) (o : opts) (v : verdicts) : outcome W :=
  match front_end o with
  | Some r => r
  | None =>
    if negb (o_file_opens o) then fail DOpenFail [] else
    if v_loops v then fail DLoops [] else
    if v_multi v then fail DMulti [] else
    if v_nonpos v then fail DNonPos [] else
    {| o_status := EXIT_SUCCESS; o_diag := DNone; o_run := Some CallStats; o_out := [LSize; LStats] |}
  end.

(* ---------------------------------------------------------------------------------------------------------------- *)
(* mcb-dimacs-mpi                                                                                                    *)
(* ---------------------------------------------------------------------------------------------------------------- *)
Definition mpi_dispatch (o : opts) : call :=
  if o_signed o then CallMpi Signed
  else if o_fvstrees o then CallMpi FvsTrees
  else CallMpi IsoTrees.

(* what one rank does up to (excluding) the library call *)
Inductive pre (W : Type) :=
| PreExit (finalizes : bool) (r : outcome W)   (* leaves; finalizes = the boost::mpi::environment exists and main RETURNS
                                                  (its destructor calls MPI_Finalize); false for exit() / before MPI_Init *)
| PreEnter (c : call) (out : list (line W)).   (* reaches the call of entry point c having written `out` *)
Arguments PreExit {W}. Arguments PreEnter {W}.

(* lines 95-112 as found: only rank 0 evaluates the validators *)
Definition mpi_pre_orig {W} (o : opts) (v : verdicts) (rank : nat) : pre W :=
  match front_end o with
  | Some r => PreExit false r                                        (* before boost::mpi::environment is constructed *)
  | None =>
    let out := [LProcessor] in
    if negb (o_file_opens o) then PreExit false (fail DOpenFail out) else    (* exit(EXIT_FAILURE) *)
    if Nat.eqb rank 0 then
      if v_loops v then PreExit true (fail DLoops out) else
      if v_multi v then PreExit true (fail DMulti out) else
      if v_nonpos v then PreExit true (fail DNonPos out) else
      let out := out ++ [LSize] in
      let c := mpi_dispatch o in
      PreEnter c (out ++ [LUsingAlgo c])                              (* "Using ..." is written by rank 0 only *)
    else
      PreEnter (mpi_dispatch o) out
  end.

(* after pending/c11-fix-mpi-gate.patch: every rank evaluates the validators on its own copy of the graph; the
   diagnostic is written by rank 0 only; every rank returns EXIT_FAILURE *)
Definition mpi_pre_fixed {W} (o : opts) (v : verdicts) (rank : nat) : pre W :=
  match front_end o with
  | Some r => PreExit false r
  | None =>
    let out := [LProcessor] in
    if negb (o_file_opens o) then PreExit false (fail DOpenFail out) else
    let said (d : diag) := if Nat.eqb rank 0 then d else DNone in
    if v_loops v then PreExit true (fail (said DLoops) out) else
    if v_multi v then PreExit true (fail (said DMulti) out) else
    if v_nonpos v then PreExit true (fail (said DNonPos) out) else
    let c := mpi_dispatch o in
    if Nat.eqb rank 0 then PreEnter c (out ++ [LSize] ++ [LUsingAlgo c])
    else PreEnter c out
  end.

(* lines 136-160: after the entry point returned *)
Definition mpi_post {W} (run : call -> W) (o : opts) (rank : nat) (c : call) (out : list (line W)) : outcome W :=
  {| o_status := EXIT_SUCCESS; o_diag := DNone; o_run := Some c;
     o_out := if Nat.eqb rank 0 then out ++ report o (run c) else out |}.

(* how one process of the job ends *)
Inductive rank_end (W : Type) :=
| Exited (r : outcome W)                       (* the process terminates with r *)
| Deadlock (c : call) (out : list (line W))    (* waits forever inside entry point c: a collective some rank never joins *)
| FinalizeWait (r : outcome W).                (* main returned r, the process waits forever in MPI_Finalize *)
Arguments Exited {W}. Arguments Deadlock {W}. Arguments FinalizeWait {W}.

Definition is_enter {W} (p : pre W) : bool := match p with PreEnter _ _ => true | PreExit _ _ => false end.

(* lock-step join of the P ranks (see the header) *)
Definition mpi_join {W} (run : call -> W) (o : opts) (prog : nat -> pre W) (P : nat) (rank : nat) : rank_end W :=
  let ranks := seq 0 P in
  match prog rank with
  | PreEnter c out =>
      if forallb (fun r => is_enter (prog r)) ranks then Exited (mpi_post run o rank c out)
      else Deadlock c out
  | PreExit finalizes r =>
      if finalizes && existsb (fun r' => is_enter (prog r')) ranks then FinalizeWait r
      else Exited r
  end.

Definition demo_mpi_orig {W} (run : call -> W) (o : opts) (v : verdicts) (P rank : nat) : rank_end W :=
  mpi_join run o (mpi_pre_orig o v) P rank.

Definition demo_mpi {W} (run : call -> W) (o : opts) (v : verdicts) (P rank : nat) : rank_end W :=
  mpi_join run o (mpi_pre_fixed o v) P rank.

Definition terminates {W} (e : rank_end W) : bool := match e with Exited _ => true | _ => false end.
