(* ApproxParProofs3.v — approx_mcb_sva_fvs_trees_tbb / approx_mcb_sva_iso_trees_tbb, premise-free: the exact phase
   (ParTreesModel.mcb_sva_trees_tbb_Z on the spanner) is discharged by Properties_C03_trees.C03_fvs_trees_tbb /
   C03_iso_trees_tbb (every bit stream, every arrangement of the collection, every numeric_limits::max), the TBB builder by
   ApproxParProofs2.pa_tbb_generic_full.  Prefix pa_.  No axioms. *)
From Coq Require Import List Arith Bool Lia ZArith Permutation Sorted.
From Parmcb Require Import GraphModel GF2Model GraphSpec McbSpec OptSpec SpannerModel SvaModel FvsModel CandidatesModel TreesModel
  SchedModel ParTreesModel Properties_C03_trees ApproxModel ApproxTreesProofs1 ApproxParModel ApproxParProofs2 ApproxParTreesModel.
Import ListNotations.

(* `arr` is a permutation of the positions of the spanner's candidate collection *)
Definition arr_valid_on_spanner (b : tbuilder) (g : graph) (w : list Z) (k : nat) (scan picks arr : list nat) : Prop :=
  forall sp trees cands, construct_spanner g k scan = SpOk sp ->
    tb_collection Z 0%Z Z.add Z.ltb b (sp_graph sp) (spanner_weights w sp) picks = CdOk (trees, cands) ->
    pt_valid_arr arr (length cands) = true.

Lemma pa_trees_tbb_exact_ok wmax b g w k scan roots picks arr bits :
  (forall sp, construct_spanner g k scan = SpOk sp ->
     C03_trees_tbb_stmt b (sp_graph sp) (spanner_weights w sp) roots picks) ->
  arr_valid_on_spanner b g w k scan picks arr ->
  exact_ok_on_spanner (fun h wh => fst (trees_tbb_exact wmax b roots picks arr bits h wh)) g w k scan.
Proof.
  intros Hstmt Harr sp Hsp.
  destruct (Hstmt sp Hsp) as (fi & trees & cands & Hci & Hcol & _ & Hrun).
  destruct (Hrun wmax bits arr (Harr sp trees cands Hsp Hcol)) as (r & pos & E & cycles & total & sup & -> & Hmin & Ht & Hdim & _).
  exists cycles, total, sup. unfold trees_tbb_exact. rewrite E. cbn [fst]. auto.
Qed.

Theorem pa_trees_tbb_full wmax b g w k scan roots picks arr bits perm_c perm_w :
  simple_graph g -> positive_weights g w -> 1 <= k -> Permutation scan (seq 0 (ne g)) ->
  (forall sp, construct_spanner g k scan = SpOk sp ->
     C03_trees_tbb_stmt b (sp_graph sp) (spanner_weights w sp) roots picks) ->
  arr_valid_on_spanner b g w k scan picks arr ->
  exists cycles total pos,
    approx_sva_trees_tbb_Z wmax b g w k scan roots picks arr bits perm_c perm_w = (TbbRun (ApproxOk cycles total), pos)
    /\ approx_full_result g w k scan cycles total.
Proof.
  intros Hg Hw Hk HP Hstmt Harr. unfold approx_sva_trees_tbb_Z.
  apply pa_tbb_generic_full; auto. apply pa_trees_tbb_exact_ok; auto.
Qed.

Theorem pa_fvs_trees_tbb_full wmax g w k scan roots picks arr bits perm_c perm_w :
  simple_graph g -> positive_weights g w -> 1 <= k -> Permutation scan (seq 0 (ne g)) ->
  (forall v, v < nv g -> In v roots) ->
  fvs_picks_complete_on_spanner g k scan picks ->
  arr_valid_on_spanner TbFvs g w k scan picks arr ->
  exists cycles total pos,
    approx_sva_trees_tbb_Z wmax TbFvs g w k scan roots picks arr bits perm_c perm_w = (TbbRun (ApproxOk cycles total), pos)
    /\ approx_full_result g w k scan cycles total.
Proof.
  intros Hg Hw Hk HP Hroots Hpicks Harr. apply pa_trees_tbb_full; auto.
  intros sp Hsp. destruct (ap_spanner_wf g w k scan sp Hg Hw HP Hsp) as (Hh & Hwh & Hnv).
  destruct (Hpicks sp Hsp) as (fvs & Hfvs).
  apply (C03_fvs_trees_tbb _ _ roots picks fvs Hh Hwh); [|exact Hfvs].
  intros v Hv. apply Hroots. rewrite <- Hnv. exact Hv.
Qed.

Theorem pa_iso_trees_tbb_full wmax g w k scan roots picks arr bits perm_c perm_w :
  simple_graph g -> positive_weights g w -> 1 <= k -> Permutation scan (seq 0 (ne g)) ->
  (forall v, v < nv g -> In v roots) ->
  arr_valid_on_spanner TbIso g w k scan picks arr ->
  exists cycles total pos,
    approx_sva_trees_tbb_Z wmax TbIso g w k scan roots picks arr bits perm_c perm_w = (TbbRun (ApproxOk cycles total), pos)
    /\ approx_full_result g w k scan cycles total.
Proof.
  intros Hg Hw Hk HP Hroots Harr. apply pa_trees_tbb_full; auto.
  intros sp Hsp. destruct (ap_spanner_wf g w k scan sp Hg Hw HP Hsp) as (Hh & Hwh & Hnv).
  apply (C03_iso_trees_tbb _ _ roots picks Hh Hwh).
  intros v Hv. apply Hroots. rewrite <- Hnv. exact Hv.
Qed.

Print Assumptions pa_fvs_trees_tbb_full.
Print Assumptions pa_iso_trees_tbb_full.
