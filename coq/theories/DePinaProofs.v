(* DePinaProofs.v — proofs of the two statements of DePinaSpec.v (the abstract content of de Pina's
   support-vector scheme) and the corollary for cycle bases of a simple graph.

     depina_basis : depina_basis_stmt      triangular + non-degenerate  ==>  independent and spanning
     depina_min   : depina_min_stmt        + every C_k minimum among the odd members of cls
                                           ==>  total weight <= that of any spanning family from cls
     depina_min_basis                      the instance inV := in_cycle_space g, cls := simple_cycle g:
                                           the cycles form a minimum cycle basis
                                           (needs simple_graph g: with a self-loop e, [e] is a simple
                                           cycle in the sense of GraphSpec but has an odd degree)

   Method.  independence: pair the combination with the witness of the LAST selected position;
   spanning: back substitution from the last row to the first; minimality: in-place exchange on a
   list of (vector, marked) entries, accounting only for the weight of the unmarked entries.
   No axioms. *)
From Coq Require Import List Arith Bool ZArith Lia Sorted.
From Parmcb Require Import GF2Model GF2Proofs GraphModel GraphSpec GF2Lin McbSpec DePinaSpec GraphLemmas.
Import ListNotations.

(* ---- small list facts ------------------------------------------------------------------- *)

Lemma dp_allfalse_nth m j : forallb negb m = true -> nth j m false = false.
Proof.
  intros H. destruct (nth_in_or_default j m false) as [Hin|E]; [|exact E].
  rewrite forallb_forall in H. apply H in Hin. destruct (nth j m false); [discriminate|reflexivity].
Qed.

(* a mask is all false, or has a last selected position (index form of GF2Lin.mask_last_true) *)
Lemma dp_mask_last_index m :
  forallb negb m = true \/
  exists k, k < length m /\ nth k m false = true /\ forall i, k < i -> nth i m false = false.
Proof.
  destruct (mask_last_true m) as [Hall|(m1 & m2 & -> & H2)]; [left; exact Hall|right].
  exists (length m1). split; [|split].
  - rewrite app_length. cbn [length]. lia.
  - rewrite app_nth2 by lia. rewrite Nat.sub_diag. reflexivity.
  - intros i Hi. rewrite app_nth2 by lia.
    destruct (i - length m1) as [|j] eqn:E; [lia|]. cbn [nth]. apply dp_allfalse_nth; exact H2.
Qed.

Lemma dp_map_set_nth {A B} (f : A -> B) (L : list A) : forall i x,
  map f (GF2Lin.set_nth L i x) = GF2Lin.set_nth (map f L) i (f x).
Proof.
  induction L as [|y L IH]; intros i x; [reflexivity|].
  destruct i as [|i]; cbn [GF2Lin.set_nth map]; [reflexivity|]. rewrite IH. reflexivity.
Qed.

Lemma dp_Forall_set_nth {A} (P : A -> Prop) (L : list A) : forall i x,
  Forall P L -> P x -> Forall P (GF2Lin.set_nth L i x).
Proof.
  induction L as [|y L IH]; intros i x HL Hx; [constructor|].
  inversion HL as [|y' L' Hy HL']; subst.
  destruct i as [|i]; cbn [GF2Lin.set_nth]; constructor; auto.
Qed.

Lemma dp_map_fst_tag {A B} (b : B) (L : list A) : map fst (map (fun D => (D, b)) L) = L.
Proof. induction L as [|x L IH]; [reflexivity|]. cbn [map fst]. rewrite IH. reflexivity. Qed.

(* ---- the abstract scheme ---------------------------------------------------------------- *)

Section Abstract.
  Variable inV : vec -> Prop.
  Variable pair : vec -> vec -> bool.
  Hypothesis Hsub : subspace inV.
  Hypothesis Hlin : pair_linear inV pair.

  Lemma dp_sub_sorted Z : inV Z -> sorted Z.
  Proof. destruct Hsub as (H & _ & _). apply H. Qed.

  Lemma dp_sub_nil : inV [].
  Proof. destruct Hsub as (_ & H & _). exact H. Qed.

  Lemma dp_sub_add a b : inV a -> inV b -> inV (vadd a b).
  Proof. destruct Hsub as (_ & _ & H). apply H. Qed.

  Lemma dp_Forall_sorted L : Forall inV L -> Forall sorted L.
  Proof. intros H. eapply Forall_impl; [|exact H]. intros a Ha. apply dp_sub_sorted; exact Ha. Qed.

  Lemma dp_comb_in m Cs : Forall inV Cs -> inV (comb m Cs).
  Proof. apply comb_inV; [exact dp_sub_nil|exact dp_sub_add]. Qed.

  Lemma dp_inspan_in Cs X : Forall inV Cs -> inspan Cs X -> inV X.
  Proof. intros H (m & _ & <-). apply dp_comb_in; exact H. Qed.

  Lemma dp_pair_nil W : pair W [] = false.
  Proof. destruct Hlin as (H & _). apply H. Qed.

  Lemma dp_pair_add W a b : inV a -> inV b -> pair W (vadd a b) = xorb (pair W a) (pair W b).
  Proof. destruct Hlin as (_ & H). apply H. Qed.

  (* the pairing with a combination whose selected vectors are all orthogonal *)
  Lemma dp_pair_comb_orth W m : forall Cs, Forall inV Cs ->
    (forall i, i < length Cs -> nth i m false = true -> pair W (nth i Cs []) = false) ->
    pair W (comb m Cs) = false.
  Proof.
    induction m as [|b m IH]; intros Cs HCs HO; [apply dp_pair_nil|].
    destruct Cs as [|C Cs]; [apply dp_pair_nil|].
    inversion HCs as [|C' Cs' HC HCs']; subst.
    assert (IH' : pair W (comb m Cs) = false).
    { apply IH; [exact HCs'|]. intros i Hi Hm. apply (HO (S i)); cbn [length nth]; [lia|exact Hm]. }
    cbn [comb]. destruct b; [|exact IH'].
    assert (H0 : pair W C = false) by (apply (HO 0); cbn [length nth]; [lia|reflexivity]).
    rewrite dp_pair_add by auto using dp_comb_in. rewrite H0, IH'. reflexivity.
  Qed.

  (* an odd pairing with a combination comes from an odd pairing with a selected vector *)
  Lemma dp_pair_comb_odd W m : forall Cs, Forall inV Cs -> pair W (comb m Cs) = true ->
    exists i, i < length Cs /\ nth i m false = true /\ pair W (nth i Cs []) = true.
  Proof.
    induction m as [|b m IH]; intros Cs HCs H.
    - cbn [comb] in H. rewrite dp_pair_nil in H. discriminate.
    - destruct Cs as [|C Cs]; [rewrite comb_nil_r, dp_pair_nil in H; discriminate|].
      inversion HCs as [|C' Cs' HC HCs']; subst. cbn [comb] in H. destruct b.
      + rewrite dp_pair_add in H by auto using dp_comb_in. destruct (pair W C) eqn:E.
        * exists 0. cbn [length nth]. split; [lia|]. split; [reflexivity|exact E].
        * rewrite xorb_false_l in H. destruct (IH Cs HCs' H) as (i & Hi & Hm & Hp).
          exists (S i). cbn [length nth]. split; [lia|]. split; assumption.
      + destruct (IH Cs HCs' H) as (i & Hi & Hm & Hp).
        exists (S i). cbn [length nth]. split; [lia|]. split; assumption.
  Qed.

  (* exactly one selected vector has an odd pairing *)
  Lemma dp_pair_comb_one W m : forall Cs k, Forall inV Cs -> k < length Cs ->
    nth k m false = true -> pair W (nth k Cs []) = true ->
    (forall i, i < length Cs -> i <> k -> nth i m false = true -> pair W (nth i Cs []) = false) ->
    pair W (comb m Cs) = true.
  Proof.
    induction m as [|b m IH]; intros Cs k HCs Hk Hm Hp HO; [destruct k; discriminate|].
    destruct Cs as [|C Cs]; [cbn [length] in Hk; lia|].
    inversion HCs as [|C' Cs' HC HCs']; subst. cbn [length] in Hk.
    destruct k as [|k]; cbn [nth] in Hm, Hp.
    - subst b. cbn [comb]. rewrite dp_pair_add by auto using dp_comb_in. rewrite Hp.
      rewrite dp_pair_comb_orth; [reflexivity|exact HCs'|].
      intros i Hi Hmi. apply (HO (S i)); cbn [length nth]; [lia|lia|exact Hmi].
    - assert (IH' : pair W (comb m Cs) = true).
      { apply (IH Cs k); auto; [lia|]. intros i Hi Hne Hmi.
        apply (HO (S i)); cbn [length nth]; [lia|lia|exact Hmi]. }
      cbn [comb]. destruct b; [|exact IH'].
      assert (H0 : pair W C = false) by (apply (HO 0); cbn [length nth]; [lia|lia|reflexivity]).
      rewrite dp_pair_add by auto using dp_comb_in. rewrite H0, IH'. reflexivity.
  Qed.

  (* (1) independence *)
  Lemma depina_indep Ss Cs : Forall inV Cs -> triangular pair Ss Cs -> indep Cs.
  Proof.
    intros HCs (Hlen & Hdiag & Hlow) m Hm Hc.
    destruct (dp_mask_last_index m) as [Hall|(k & Hk & Hmk & Hafter)]; [exact Hall|exfalso].
    assert (Ht : pair (nth k Ss []) (comb m Cs) = true).
    { apply dp_pair_comb_one with (k := k); auto; [lia|apply Hdiag; lia|].
      intros i Hi Hne Hmi. destruct (Nat.lt_ge_cases i k) as [Hlt|Hge].
      - apply Hlow; lia.
      - rewrite Hafter in Hmi by lia. discriminate. }
    rewrite Hc, dp_pair_nil in Ht. discriminate.
  Qed.

  (* (2) spanning: back substitution; d rows (the last d) are already orthogonal to Z + X *)
  Lemma depina_backsub Ss Cs Z : Forall inV Cs -> triangular pair Ss Cs -> inV Z ->
    forall d, d <= length Cs -> exists X, inspan Cs X /\
      forall k, length Cs - d <= k -> k < length Cs -> pair (nth k Ss []) (vadd Z X) = false.
  Proof.
    intros HCs (Hlen & Hdiag & Hlow) HZ.
    pose proof (dp_Forall_sorted Cs HCs) as HCsS.
    induction d as [|d IH]; intros Hd.
    - exists []. split; [apply inspan_nil|]. intros k H1 H2. lia.
    - destruct IH as (X & HX & HO); [lia|].
      remember (length Cs - S d) as i eqn:Ei.
      pose proof (dp_inspan_in Cs X HCs HX) as HXV.
      destruct (pair (nth i Ss []) (vadd Z X)) eqn:E.
      + assert (Hin : In (nth i Cs []) Cs) by (apply nth_In; lia).
        assert (HCi : inV (nth i Cs [])) by (rewrite Forall_forall in HCs; apply HCs; exact Hin).
        exists (vadd X (nth i Cs [])). split.
        * apply inspan_add; auto. apply inspan_In; auto.
        * intros k H1 H2. rewrite <- vadd_assoc by auto using dp_sub_sorted.
          rewrite dp_pair_add by auto using dp_sub_add.
          destruct (Nat.eq_dec k i) as [->|Hne].
          -- rewrite E, Hdiag by lia. reflexivity.
          -- rewrite HO by lia. rewrite Hlow by lia. reflexivity.
      + exists X. split; [exact HX|]. intros k H1 H2.
        destruct (Nat.eq_dec k i) as [->|Hne]; [exact E|]. apply HO; lia.
  Qed.

  Lemma depina_spans Ss Cs : Forall inV Cs -> triangular pair Ss Cs ->
    nondegenerate inV pair Ss -> spans inV Cs.
  Proof.
    intros HCs HT Hnd Z HZ.
    destruct (depina_backsub Ss Cs Z HCs HT HZ (length Cs) (le_n _)) as (X & HX & HO).
    pose proof (dp_inspan_in Cs X HCs HX) as HXV.
    assert (E : vadd Z X = []).
    { apply Hnd; [apply dp_sub_add; assumption|]. intros k Hk. destruct HT as (Hlen & _).
      apply HO; lia. }
    apply vadd_eq_nil in E; auto using dp_sub_sorted. subst X. exact HX.
  Qed.

  (* (3) minimality *)
  Variable cls : vec -> Prop.
  Variable w : list Z.

  (* total weight of the unmarked entries *)
  Definition usum (L : list (vec * bool)) : Z :=
    fold_right Z.add 0%Z (map (fun e : vec * bool => if snd e then 0%Z else weight w (fst e)) L).

  Lemma usum_cons e L : usum (e :: L) = ((if snd e then 0 else weight w (fst e)) + usum L)%Z.
  Proof. reflexivity. Qed.

  Lemma usum_set_nth L : forall i C, i < length L -> snd (nth i L ([], false)) = false ->
    usum (GF2Lin.set_nth L i (C, true)) = (usum L - weight w (fst (nth i L ([], false))))%Z.
  Proof.
    induction L as [|e L IH]; intros i C Hi Hs; [cbn [length] in Hi; lia|].
    cbn [length] in Hi. destruct i as [|i]; cbn [GF2Lin.set_nth nth] in *.
    - destruct e as [D b]. cbn [snd fst] in Hs. subst b. rewrite !usum_cons. cbn [snd fst]. lia.
    - rewrite !usum_cons. rewrite IH by (auto; lia). lia.
  Qed.

  Lemma usum_nonneg L :
    Forall (fun e => snd e = false -> (0 <= weight w (fst e))%Z) L -> (0 <= usum L)%Z.
  Proof.
    induction L as [|e L IH]; intros H; [unfold usum; cbn [map fold_right]; lia|].
    inversion H as [|e' L' He HL]; subst. rewrite usum_cons. specialize (IH HL).
    destruct e as [D b]. cbn [snd fst] in *. destruct b; [lia|]. specialize (He eq_refl). lia.
  Qed.

  Lemma usum_init B : usum (map (fun D => (D, false)) B) = total_weight w B.
  Proof.
    induction B as [|D B IH]; [reflexivity|]. cbn [map]. rewrite usum_cons, IH. reflexivity.
  Qed.

  Lemma total_weight_cons C L : total_weight w (C :: L) = (weight w C + total_weight w L)%Z.
  Proof. reflexivity. Qed.

  Lemma total_weight_firstn_S Cs : forall k, k < length Cs ->
    total_weight w (firstn (S k) Cs) = (total_weight w (firstn k Cs) + weight w (nth k Cs []))%Z.
  Proof.
    induction Cs as [|C Cs IH]; intros k Hk; [cbn [length] in Hk; lia|]. cbn [length] in Hk.
    destruct k as [|k].
    - cbn [firstn nth]. rewrite total_weight_cons. unfold total_weight. cbn [map fold_right]. lia.
    - rewrite (firstn_cons (S k)), (firstn_cons k). rewrite !total_weight_cons, IH by lia.
      cbn [nth]. lia.
  Qed.

  (* what an entry of the working list is after k exchanges: a marked entry is one of C_0..C_{k-1},
     an unmarked entry is still the original member of B' *)
  Definition entry_ok (Cs : list vec) (k : nat) (e : vec * bool) : Prop :=
    if snd e then exists j, j < k /\ fst e = nth j Cs []
    else cls (fst e) /\ (0 <= weight w (fst e))%Z.

  Lemma depina_exchange Ss Cs B' :
    Forall inV Cs -> triangular pair Ss Cs ->
    (forall k D, k < length Cs -> cls D -> inV D -> pair (nth k Ss []) D = true ->
                 (weight w (nth k Cs []) <= weight w D)%Z) ->
    Forall cls B' -> Forall inV B' -> spans inV B' ->
    (forall D, In D B' -> (0 <= weight w D)%Z) ->
    forall k, k <= length Cs -> exists L,
      spans inV (map fst L) /\ Forall (fun e => inV (fst e)) L /\ Forall (entry_ok Cs k) L /\
      (total_weight w (firstn k Cs) + usum L <= total_weight w B')%Z.
  Proof.
    intros HCs (Hlen & Hdiag & Hlow) Hmin Hcls HBV Hsp Hpos.
    induction k as [|k IH]; intros Hk.
    - exists (map (fun D => (D, false)) B'). split; [|split; [|split]].
      + rewrite dp_map_fst_tag. exact Hsp.
      + rewrite Forall_forall in *. intros e He. apply in_map_iff in He as (D & <- & HD).
        cbn [fst]. auto.
      + rewrite Forall_forall in *. intros e He. apply in_map_iff in He as (D & <- & HD).
        unfold entry_ok. cbn [fst snd]. auto.
      + rewrite usum_init. cbn [firstn]. unfold total_weight at 1. cbn [map fold_right]. lia.
    - destruct IH as (L & HspL & HLV & Hok & Hw); [lia|].
      assert (Hk' : k < length Cs) by lia.
      assert (HCk : inV (nth k Cs [])).
      { rewrite Forall_forall in HCs. apply HCs, nth_In. exact Hk'. }
      destruct (HspL _ HCk) as (mc & Hmc & Hcomb).
      assert (HLV' : Forall inV (map fst L)).
      { rewrite Forall_forall in *. intros v Hv. apply in_map_iff in Hv as (e & <- & He). auto. }
      assert (Hodd : pair (nth k Ss []) (comb mc (map fst L)) = true).
      { rewrite Hcomb. apply Hdiag. exact Hk'. }
      destruct (dp_pair_comb_odd _ _ _ HLV' Hodd) as (i & Hi & Hmi & Hpi).
      rewrite map_length in Hi.
      assert (En : nth i (map fst L) [] = fst (nth i L ([], false))).
      { exact (map_nth fst L ([], false) i). }
      remember (nth i L ([], false)) as e eqn:Ee.
      assert (He : In e L) by (subst e; apply nth_In; exact Hi).
      assert (Hoke : entry_ok Cs k e) by (rewrite Forall_forall in Hok; apply Hok; exact He).
      assert (HeV : inV (fst e)) by (rewrite Forall_forall in HLV; apply HLV; exact He).
      rewrite En in Hpi. unfold entry_ok in Hoke. destruct (snd e) eqn:Es.
      + destruct Hoke as (j & Hj & Ej). rewrite Ej, Hlow in Hpi by lia. discriminate.
      + destruct Hoke as (Hce & Hw0).
        pose proof (Hmin k (fst e) Hk' Hce HeV Hpi) as Hle.
        exists (GF2Lin.set_nth L i (nth k Cs [], true)). split; [|split; [|split]].
        * rewrite dp_map_set_nth. cbn [fst].
          apply exchange_nth with (mc := mc); auto using dp_Forall_sorted.
          rewrite map_length. exact Hi.
        * apply dp_Forall_set_nth; auto.
        * apply dp_Forall_set_nth.
          -- eapply Forall_impl; [|exact Hok]. intros a Ha. unfold entry_ok in *.
             destruct (snd a); [|exact Ha]. destruct Ha as (j & Hj & Ej).
             exists j. split; [lia|exact Ej].
          -- unfold entry_ok. cbn [snd fst]. exists k. split; [lia|reflexivity].
        * rewrite total_weight_firstn_S by exact Hk'.
          assert (Hu : usum (GF2Lin.set_nth L i (nth k Cs [], true))
                       = (usum L - weight w (fst e))%Z).
          { subst e. apply usum_set_nth; [exact Hi|exact Es]. }
          rewrite Hu. unfold vec in *. lia.
  Qed.

  Lemma depina_min_abs Ss Cs B' :
    Forall inV Cs -> triangular pair Ss Cs ->
    (forall k D, k < length Cs -> cls D -> inV D -> pair (nth k Ss []) D = true ->
                 (weight w (nth k Cs []) <= weight w D)%Z) ->
    Forall cls B' -> Forall inV B' -> spans inV B' ->
    (forall D, In D B' -> (0 <= weight w D)%Z) ->
    (total_weight w Cs <= total_weight w B')%Z.
  Proof.
    intros HCs HT Hmin Hcls HBV Hsp Hpos.
    destruct (depina_exchange Ss Cs B' HCs HT Hmin Hcls HBV Hsp Hpos (length Cs) (le_n _))
      as (L & _ & _ & Hok & Hw).
    rewrite firstn_all in Hw.
    assert (H0 : (0 <= usum L)%Z).
    { apply usum_nonneg. eapply Forall_impl; [|exact Hok]. unfold entry_ok.
      intros [D b] Ha Hs. cbn [snd fst] in *. subst b. tauto. }
    lia.
  Qed.
End Abstract.

Theorem depina_basis : depina_basis_stmt.
Proof.
  intros inV pair Ss Cs Hsub Hlin HCs HT Hnd. split.
  - eapply depina_indep; eauto.
  - eapply depina_spans; eauto.
Qed.

Theorem depina_min : depina_min_stmt.
Proof.
  intros inV pair cls w Ss Cs B' Hsub Hlin HCs HT Hmin Hcls HBV Hsp Hpos.
  eapply depina_min_abs; eauto.
Qed.

(* ---- the cycle space of a graph is a subspace ------------------------------------------- *)

(* the merge cancels the common elements in pairs *)
Lemma dp_filter_vadd_parity (f : nat -> bool) a : forall b,
  exists c, length (filter f (vadd a b)) + 2 * c = length (filter f a) + length (filter f b).
Proof.
  induction a as [|x a IHa]; intros b.
  - exists 0. rewrite vadd_nil_l. cbn [filter length]. lia.
  - induction b as [|y b IHb].
    + exists 0. rewrite vadd_nil_r. cbn [filter length]. lia.
    + rewrite vadd_cons. destruct (Nat.compare_spec x y) as [->|Hlt|Hgt].
      * destruct (IHa b) as (c & Hc). exists (c + if f y then 1 else 0).
        cbn [filter]. destruct (f y); cbn [length]; lia.
      * destruct (IHa (y :: b)) as (c & Hc). exists c.
        cbn [filter] in *. destruct (f x), (f y); cbn [length] in *; lia.
      * destruct IHb as (c & Hc). exists c.
        cbn [filter] in *. destruct (f x), (f y); cbn [length] in *; lia.
Qed.

Lemma dp_even_parity n c p q :
  n + 2 * c = p + q -> Nat.even p = true -> Nat.even q = true -> Nat.even n = true.
Proof.
  intros H Hp Hq. apply Nat.even_spec in Hp as [p' ->]. apply Nat.even_spec in Hq as [q' ->].
  apply Nat.even_spec. exists (p' + q' - c). lia.
Qed.

Lemma cycle_space_subspace g : subspace (in_cycle_space g).
Proof.
  split; [|split].
  - intros Z (HS & _). exact HS.
  - split; [apply sorted_nil|]. split; [intros e []|]. intros v. reflexivity.
  - intros a b (Sa & Ba & Ea) (Sb & Bb & Eb). split; [apply vadd_sorted; assumption|]. split.
    + intros e He. apply mem_In in He. rewrite vadd_mem in He by assumption.
      destruct (mem a e) eqn:Ma; [apply Ba, mem_In; exact Ma|].
      destruct (mem b e) eqn:Mb; [apply Bb, mem_In; exact Mb|discriminate].
    + intros v. unfold deg_in.
      destruct (dp_filter_vadd_parity (fun e => incident g e v) a b) as (c & Hc).
      eapply dp_even_parity; [exact Hc|apply Ea|apply Eb].
Qed.

(* ---- a simple cycle lies in the cycle space (simple graph: no self-loops) ---------------- *)

Definition dp_b2n (b : bool) : nat := if b then 1 else 0.

Lemma dp_incident_count g e x y v : joins g e x y -> x <> y ->
  dp_b2n (incident g e v) = dp_b2n (Nat.eqb x v) + dp_b2n (Nat.eqb y v).
Proof.
  unfold incident. intros [H|H] Hne; rewrite H;
    destruct (Nat.eqb_spec x v), (Nat.eqb_spec y v); cbn [orb dp_b2n]; try lia; congruence.
Qed.

(* every visit of v by the walk uses two incidences, except at the two ends *)
Lemma dp_walk_degree g : simple_graph g -> forall x p z, walk g x p z -> forall v,
  length (filter (fun e => incident g e v) (wedges p)) + dp_b2n (Nat.eqb z v)
  = dp_b2n (Nat.eqb x v) + 2 * length (filter (fun y => Nat.eqb y v) (wverts p)).
Proof.
  intros Hs x p z Hw. induction Hw as [x Hx|x e y p z Hj Hw IH]; intros v.
  - cbn [wedges wverts map filter length]. lia.
  - specialize (IH v). destruct (gl_simple_joins g e x y Hs Hj) as (_ & _ & Hne).
    pose proof (dp_incident_count g e x y v Hj Hne) as Hc.
    unfold wedges, wverts in *. cbn [map fst snd filter].
    destruct (incident g e v), (Nat.eqb x v), (Nat.eqb y v); cbn [dp_b2n length] in *; lia.
Qed.

Lemma dp_filter_length_same_set (f : nat -> bool) l l' :
  NoDup l -> NoDup l' -> (forall e, In e l <-> In e l') ->
  length (filter f l) = length (filter f l').
Proof.
  intros H H' E. apply Nat.le_antisymm; apply NoDup_incl_length; auto using NoDup_filter;
    intros e He; apply filter_In in He as [He Hf]; apply filter_In; (split; [apply E; exact He|exact Hf]).
Qed.

Lemma simple_cycle_in_cycle_space g C :
  simple_graph g -> simple_cycle g C -> in_cycle_space g C.
Proof.
  intros Hs (Hne & HS & x & p & Hw & Hnde & Hndv & HE). split; [exact HS|]. split.
  - intros e He. eapply gl_walk_edges_lt; [exact Hw|]. apply HE. exact He.
  - intros v. unfold deg_in.
    rewrite (dp_filter_length_same_set _ C (wedges p)) by auto using gl_sorted_NoDup.
    pose proof (dp_walk_degree g Hs x p x Hw v) as Hd. apply Nat.even_spec.
    exists (length (filter (fun y => Nat.eqb y v) (wverts p))). lia.
Qed.

(* ---- weights ------------------------------------------------------------------------------ *)

Lemma wt_nonneg g w e : positive_weights g w -> (0 <= wt w e)%Z.
Proof.
  intros [_ H]. unfold wt. destruct (nth_in_or_default e w 0%Z) as [Hin|E]; [|rewrite E; lia].
  rewrite Forall_forall in H. apply H in Hin. lia.
Qed.

Lemma weight_nonneg g w C : positive_weights g w -> (0 <= weight w C)%Z.
Proof.
  intros H. induction C as [|e C IH]; unfold weight in *; cbn [map fold_right]; [lia|].
  pose proof (wt_nonneg g w e H). lia.
Qed.

(* ---- the corollary for cycle bases ------------------------------------------------------ *)

Lemma depina_min_basis : forall g w (pair : vec -> vec -> bool) (Ss Cs : list vec),
  simple_graph g -> positive_weights g w ->
  pair_linear (in_cycle_space g) pair ->
  Forall (simple_cycle g) Cs ->
  triangular pair Ss Cs ->
  nondegenerate (in_cycle_space g) pair Ss ->
  (forall k D, k < length Cs -> simple_cycle g D -> in_cycle_space g D ->
               pair (nth k Ss []) D = true -> (weight w (nth k Cs []) <= weight w D)%Z) ->
  min_cycle_basis g w Cs.
Proof.
  intros g w pair Ss Cs Hs Hpw Hlin HCs HT Hnd Hmin.
  pose proof (cycle_space_subspace g) as Hsub.
  assert (Hsc : forall L, Forall (simple_cycle g) L -> Forall (in_cycle_space g) L).
  { intros L HL. eapply Forall_impl; [|exact HL]. intros D HD.
    apply simple_cycle_in_cycle_space; assumption. }
  pose proof (Hsc Cs HCs) as HCsV.
  destruct (depina_basis (in_cycle_space g) pair Ss Cs Hsub Hlin HCsV HT Hnd) as (Hind & Hspan).
  split; [split; [exact HCs|split; assumption]|].
  intros B' (HB' & _ & HspB').
  apply (depina_min (in_cycle_space g) pair (simple_cycle g) w Ss Cs B'); auto.
  intros D _. eapply weight_nonneg; exact Hpw.
Qed.

(* the same with the per-phase guarantee in the vocabulary of McbSpec.min_odd_cycle *)
Lemma depina_min_basis_moc : forall g w (pair : vec -> vec -> bool) (Ss Cs : list vec),
  simple_graph g -> positive_weights g w ->
  pair_linear (in_cycle_space g) pair ->
  length Ss = length Cs ->
  (forall k, k < length Cs ->
     min_odd_cycle g w (fun C => pair (nth k Ss []) C = true) (nth k Cs [])) ->
  (forall j k, j < k -> k < length Cs -> pair (nth k Ss []) (nth j Cs []) = false) ->
  nondegenerate (in_cycle_space g) pair Ss ->
  min_cycle_basis g w Cs.
Proof.
  intros g w pair Ss Cs Hs Hpw Hlin Hlen Hmoc Hlow Hnd.
  apply depina_min_basis with (pair := pair) (Ss := Ss); auto.
  - apply Forall_forall. intros C HC. apply (In_nth _ _ []) in HC as (k & Hk & <-).
    destruct (Hmoc k Hk) as (Hsc & _). exact Hsc.
  - split; [exact Hlen|]. split; [|exact Hlow].
    intros k Hk. destruct (Hmoc k Hk) as (_ & Hodd & _). exact Hodd.
  - intros k D Hk HD _ Hp. destruct (Hmoc k Hk) as (_ & _ & Hm). apply Hm; assumption.
Qed.

Print Assumptions depina_basis.
Print Assumptions depina_min.
Print Assumptions depina_min_basis.
Print Assumptions depina_min_basis_moc.
